"""Per-property configuration shared by bin/check and bin/mkmanifest."""

PROPS = {
    "C14": {
        "lean": ["C14"],
        "required": ["C14.c14_u32_v4_src", "C14.c14_u32_v4_dst", "C14.c14_u32_v6_src", "C14.c14_gateway_third_from_last",
                     "C14.c14_gateway_none_iff", "C14.c14_table_injective", "C14.c14_veth_fits", "C14.c14_veth_preimage_injective", "C14.c14_kept_filter_exact"],
        "rule": "structured generator: every IPv4 prefix length 0..32 x boundary and random addresses (both 4- and 16-byte "
                "net.IP forms) for U32IPv4Src/dstIPRule/DeriveGatewayIP; per address and length one op net.keep4: a filter found installed on the ENI for another CIDR (the same network address with another prefix length, the same CIDR, a neighbour, a random one; built the way setupFilters builds its own, actions included) is shown to the rule's real isMatch (hook VerifDstRuleKeeps) - kept or replaced is compared with the model's keepsInstalled, and a kept filter's key is probed against the CIDR it is kept for (monitor C14/dst4/kept-filter-not-exact); every IPv6 length 0..128 x random/zeroed words; "
                "random link indices; random (prefix, namespace, name, ifname) incl. multi-block hash inputs. Each case is one "
                "call on the real function, compared with the Lean model's output; an independent Go packet evaluator / big-int "
                "reference is the property monitor. non-trivial = prefix strictly between 0 and full length (classifiers), "
                "subnet with >= 2 host bits (gateway), index > 0, any veth case; distinct = distinct op line.",
        "technique": "Lean 4 theorems (bit-extensional BitVec proofs, Nat arithmetic) over a hand-written model + differential correspondence run + regenerated constants",
        "title": "classifier keys exact, gateway third-from-last, table ids injective, veth names <= 15 and per-interface",
        "level_text": "Theorems for all addresses and all prefix lengths (0..32, 0..128), all subnets, all link indices, all name triples; "
                      "the model is tied to pkg/tc, pkg/ip, pkg/link, utils.GetRouteTableID and dstIPRule by a differential run and by constants regenerated from the source.",
        "level_note": "Trusted: Lean kernel; hand-written model (Model/Net.lean, executable SHA-1 in Model/Sha1.lean) validated only on the generated sample; "
                      "distinctness of veth names is proved for the hash pre-image, the residual is a 44-bit truncated SHA-1 collision; "
                      "IPv6 subnets of length >= 80 inside ::/80 (IPv4-mapped range, never a VPC CIDR) are a recorded known finding, outside the correspondence domain.",
        "assumptions": ["SHA-1 truncated to 44 bits is collision-free on a pod's interface names",
                        "net.ParseCIDR / net.IP.String are correct (library code)"],
        "trusted_base": ["Model/Net.lean, Model/Sha1.lean (hand-written)"],
        "design_ref": "DESIGN.md §4 C14",
    },
    "C16": {
        "lean": ["C16"],
        "required": ["C16.c16_retry_same_token", "C16.c16_inflight_distinct_reachable", "C16.c16_token_belongs_to_hash",
                     "C16.c16_hash_order_independent", "C16.c16_hash_input_determines_tags", "C16.c16_eviction_witness"],
        "rule": "four generators: (a) GenerateKey/PutBack histories on the real SimpleIdempotentKeyGenerator (caps 1-4 and 500, 1-5 hashes, "
                "15% malformed stream with wrong-hash / double / foreign put-backs), tokens canonicalised by first appearance; (b) the real "
                "Finish/EFLO builders called 6x each with a recording generator on a base parameter set and variants (tag permutation, every "
                "significant field changed), hashes canonicalised by first appearance, observed tag order compared; (c) fail/retry flows through "
                "Finish + the real generator; (d) 150 / 2500 fail/retry histories (each drawing from 2-4 request identities, so that most failures are followed by a retry) through the REAL OpenAPI wrappers CreateNetworkInterface, AssignPrivateIPAddress2, AssignIpv6Addresses2, CreateElasticNetworkInterfaceV2 and the v1 wrappers AssignPrivateIPAddress / AssignIpv6Addresses (ops tok.a*, tok.b*) over the real SDK clients "
                "whose HTTP transport is the harness (answers: success, HTTP 400 server error, EFLO HTTP 200 with a non-zero business code, or Throttling on every attempt until the wrapper's back-off of three steps is exhausted): the ClientToken read off the wire is compared with the model's flow, monitors: a retry after a failed call "
                "carries another token, the token on the wire is not the one the generator issued, one call sends two tokens. (a') 60 / 600 concurrent cases: n requests of one parameter hash issued at the same time and then - all in flight - rolled back at the same time (tok.par: spin barrier on locked OS threads), followed by n retries whose tokens are compared as a set (tok.drain; monitor C16/retry-token/concurrent-rollback-lost). Every builder case also checks, model-independently, that requests differing in what is sent never hash alike and equal requests hash alike. non-trivial = history with at least one token reuse / builder case with >= 2 tags / flow with a failure; "
                "distinct = distinct op sequence.",
        "technique": "Lean 4 invariants by induction over all issue/roll-back histories (LRU residency, token uniqueness, provenance), sort-based order-independence lemma; differential correspondence + Go monitors",
        "level_text": "Theorems over all histories of GenerateKey/PutBack (every interleaving, since each call is atomic under the mutex): retry draws the put-back token "
                      "while resident in the LRU, in-flight tokens are pairwise distinct, a token is only ever issued for the hash it was created for; the create-request "
                      "hash input is independent of tag iteration order. Model tied to token.go/options.go by differential runs on the real generator and builders.",
        "level_note": "Trusted: Lean kernel; Model/Token.lean hand-written (k8s.io/utils/lru modelled as an MRU-first list); uuid.NewString freshness and MD5 collision-freeness are assumptions; "
                      "the retry theorem is conditional on fewer than cap other operations in between (bounded LRU, default 500; witness c16_eviction_witness) - the listed property text has no such bound, "
                      "see known finding; of the OpenAPI wrappers the six that create interfaces / assign addresses for ECS and the EFLO create are exercised through the SDK (scripted transport; one attempt per call, three throttled attempts re-sending the same request object, or one throttled attempt after which the client-side rate limiter - one request a minute, on a client of its own sharing generator and transport - cannot admit the next before the context's 200 ms deadline); AssignLeniPrivateIPAddress2 is not.",
        "assumptions": ["uuid.NewString never repeats", "MD5 of the JSON-serialised request is collision-free on distinct requests",
                        "call sites invoke the roll-back closure at most once, with the token they were given"],
        "trusted_base": ["Model/Token.lean (hand-written)", "alibaba-cloud-sdk-go request signing / response decoding beneath the scripted transport"],
        "design_ref": "DESIGN.md §4 C16",
    },
    "C17": {
        "lean": ["C17"],
        "required": ["C17.c17_member_free_ordered", "C17.c17_member_free_most", "C17.c17_member_free_random", "C17.c17_zone",
                     "C17.c17_ordered_first", "C17.c17_most_max", "C17.c17_complete", "C17.c17_caller_list_untouched",
                     "C17.c17_exhausted_not_chosen", "C17.block_marks", "C17.getOne_choice", "C17.c17_factory_exhausted_not_chosen_again"],
        "rule": "(f) 30 / 300 ops fa.exhaust: how an exhaustion reaches the pool - the real factory's CreateNetworkInterface over the real SwitchPool (ttl 10 m) and the real OpenAPI wrappers (scripted ECS + VPC transports): 1-3 candidate vSwitches that all report addresses left while every create in them is refused as InvalidVSwitchId.IpNotEnough, two orders in a row; the vSwitches named by the create requests of each order are compared with Model/Factory.lean exhaustTwice, monitor C17/factory/exhausted-chosen-again. random histories on the real SwitchPool (hooked fake clock, fake VPC client): 2-7 vSwitches over 3 zones with free counts incl. 0, "
                "GetOne with all four policy values (ordered/most/random/empty), zone fallback on/off, candidate lists of 0-6 ids incl. duplicates and unknown ids, "
                "Block (in 30% of the cases followed by a read shortly before the entry expires and a selection shortly after: a read must not prolong the exhausted mark; preceded by a look-up that is single or, in a quarter of the cases, 2-4 concurrent look-ups sharing one describe call: op vsw.getpar, monitor: the entry is cached afterwards), clock steps around the TTL boundary (ttl-1, ttl, ttl+1), cloud changes/removals, Add. Model predicts choice and caller slice for "
                "ordered/most/default, validates the observed choice for random; Go monitors on every selection: member of the list, zone, free addresses, not blocked, caller slice untouched, and for ordered / default no earlier eligible candidate. non-trivial = history with at least one selection and one Block; distinct = distinct op sequence.",
        "technique": "Lean 4 refinement of GetOne to a pure selection over resolved candidates (lookup stability under cache fills) + characterisation lemmas; differential correspondence + Go monitors",
        "level_text": "Theorems for all candidate lists, zones, free counts, policies and all cache/cloud states: choice is a member with free addresses, in the requested zone unless fallback and no in-zone candidate is eligible, "
                      "first eligible (ordered), maximal free (most), never an exhausted entry until its TTL passes, caller list unchanged. Tied to pkg/vswitch by differential histories on the real SwitchPool.",
        "level_note": "Trusted: Lean kernel; Model/VSwitch.lean hand-written. Not modelled: the LRU size bound (100) of the expiring cache, singleflight de-duplication, and concurrent use - calls are atomic steps of the model; "
                      "data races inside GetOne/Block are runtime behaviour the model cannot exhibit (the harness only checks that handed-out *Switch values never change under the caller). "
                      "sort.Sort is modelled as a stable insertion sort (true for <= 12 candidates).",
        "assumptions": ["DescribeVSwitchByID answers with the vSwitch that was asked for", "candidate lists have at most 12 entries (sort stability)",
                        "free-address counts are non-negative"],
        "trusted_base": ["Model/VSwitch.lean (hand-written)", "hook pkg/vswitch/zz_verif_export.go (injectable clock)"],
        "design_ref": "DESIGN.md §4 C17",
    },
    "C15": {
        "test_drivers": {"terwaycli.test": "./cmd/terway-cli/"},
        "lean": ["C15"],
        "required": ["C15.c15_bandwidth_total", "C15.c15_bandwidth_unitless", "C15.c15_bandwidth_monotone", "C15.c15_units_ordered", "C15.c15_unit_table", "C15.c15_stored_filter_total", "C15.c15_stored_filter_range_loop_panics",
                     "C15.c15_remote_zero_steps_times_out", "C15.c15_remote_answer_is_the_records", "C15.c15_remote_ok_only_if_ready"],
        "rule": "(1) parseBandwidth on the product of 32 numeric forms x 28 unit spellings x 3 paddings, plus random well-formed / near-valid / raw-byte / long-digit strings: "
                "outcome (ok value | err | panic) compared with the Lean model; the value where float64 is exact (< 2^52 and equal to the big.Rat floor), the class elsewhere; "
                "(2) monotone unit ladders B<K<M<G<T on the implementation; (3) monitor-only fuzz under recover of convertPod + pod-networks parsers, NUMA hints + RequestNetworkIndex, "
                "MergeConfigAndUnmarshal/Populate/Validate, parseResourceID, BuildIPNet/ToIPSet/ToIPNetSet; (4) stored records (0-5 items, current and old format, attached / vanished interfaces) through the daemon's real start-up filter, outcome (kept items | panic) compared with Model/StoredRec.lean whose loop shape is regenerated from the source; (5) 500 / 8000 CNI configuration lists whose terway entry carries values of every JSON kind (null, booleans, numbers, strings, arrays, objects) in the fields terway-cli reads, through both steps of `terway-cli cni` (mergeConfigList, then storeRuntimeConfig; out-of-process test driver of cmd/terway-cli), compared with C20's chain model, monitor: panic; "
                "(6) ConfigMap content that reaches a wait loop of the daemon: 60 / 600 ops rm.alloc - eni_conf's backoff_override for wait_podeni_status with 0-3 steps (0 = no Steps member the decoder recognises; parsed by the real MergeConfigAndUnmarshal, installed by backoff.OverrideBackoff) x a PodENI record in one of 7 states x daemon with / without a trunk interface, "
                "through the real Remote.Allocate (the PodENI path of a CNI ADD) over a fake API server, in a child process because Allocate answers from a goroutine nobody can recover: the reply (ok / error code / time-out) is compared with the model's poll; an op the child dies in has the outcome panic (monitor C15/configmap/backoff-override/panic). non-trivial = accepted bandwidth value / record handed over; distinct = distinct op line.",
        "technique": "Lean 4 totality / acceptance / monotonicity theorems over a rune-level model of parseBandwidth (slice panics modelled) with a regenerated guard fact; differential correspondence; recover-based search on other parsers",
        "level_text": "Theorem: for every rune string and every letter/space/upper-case table, parseBandwidth does not panic (given the regenerated fact that the i<0 guard is present); digit strings are accepted as bytes; "
                      "values are monotone in the unit multiplier and the multipliers are ordered. Theorem: no stored record makes the start-up filter (filterENINotFound) index out of range (given the regenerated fact that the loop re-reads the slice length; the range-loop variant is proved to panic on a two-item record). The other user-input parsers (JSON annotations, NUMA hints, ConfigMap merge, stored ids, IP sets) are only searched for panics, not proved: partial Theorem: whatever number of steps eni_conf configures for the daemon's wait for a PodENI record, none included, the caller of Remote.Allocate gets an answer decided by the record alone (Model/Remote.lean: the record constant during the wait, the context's deadline longer than it; the other users of a configurable back-off are not driven with overrides).",
        "level_note": "Trusted: Lean kernel; Model/Bandwidth.lean hand-written, ParseFloat modelled on letter-free input only (sign, digits, one dot) with exact rational arithmetic - float64 rounding and the float->uint64 conversion above 2^63 are outside the model; "
                      "non-ASCII input is outside the driver's domain (the totality theorem itself is table-independent). Panics inside encoding/json, yaml, strconv, net are library behaviour, searched not proved.",
        "assumptions": ["strconv.ParseFloat accepts exactly sign/digits/one dot on letter-free input and never panics", "encoding/json, net.ParseCIDR, jsonpatch do not panic"],
        "trusted_base": ["Model/Remote.lean (hand-written)", "Model/Bandwidth.lean, Model/StoredRec.lean (hand-written; guard / loop-shape facts regenerated by factgen)", "hooks pkg/k8s, pkg/eni, pkg/controller/pod-eni, daemon zz_verif_export.go, cmd/terway-cli zz_verif_driver_test.go"],
        "design_ref": "DESIGN.md §4 C15",
    },
    "C19": {
        "lean": ["C19"],
        "required": ["C19.c19_nodecap_follows_type", "C19.c19_limits_nonneg", "C19.c19_member_limit", "C19.c19_erdma_res", "C19.c19_slots_daemon", "C19.c19_ip_capacity_daemon",
                     "C19.c19_watermarks", "C19.c19_erdma_capacity", "C19.c19_feature_gating_daemon", "C19.c19_flavor_slots", "C19.c19_flavor_gated",
                     "C19.c19_anno_ips", "C19.c19_feature_gating_crd", "C19.c19_node_res", "C19.c19_crd_ipv6_not_gated_witness"],
        "rule": "instance-type vectors (eni quantity 0-63, per-interface IPs 0-63 incl. negative, IPv6, total, ERI, trunk support) through the real "
                "GetLimitFromAnno/getInstanceType; the derived Limits (85%) or arbitrary vectors (15%) x daemon configs (max/min ENI, pool sizes incl. negative, "
                "shift -1/0/1, trunk/erdma/CRD switches, both modes) through getPoolConfig and checkInstance; every 4th case runs the real nodeReconcile.Reconcile "
                "(fake client, ConfigMap, OS-capability switch, exclusive label) and then the controller's k8sAnno+patchNodeRes on the flavor it produced; 300 / 5000 node histories (2-6 reconciles of the REAL node controller over a fake client while the Kubernetes Node's "
                "instance-type / provider-id / zone / region labels change: in-place resize, replacement under the same name, label corrections; limits lookup failing at 12% of the reconciles), the Node CR's metadata and capacity compared after every reconcile. "
                "non-trivial = multi-adapter type / clamped watermark / multi-slot flavor; distinct = distinct op line.",
        "technique": "Lean 4 integer-arithmetic theorems (omega + product monotonicity) over a transcription of the capacity functions; differential correspondence through the real functions and reconcilers",
        "level_text": "Theorems for all limit vectors with at least the primary adapter and all configurations (default ratio, no positive shift): slots <= adapters-1, capacity = slots x per-interface <= (adapters-1) x per-interface, "
                      "0 <= min <= max <= capacity, RDMA capacity bounded, CRD flavor sums to exactly adapters-1 with gated single trunk/RDMA slots, controller annotations/resources bounded, unsupported features switched off; in every history of node-controller reconciles the Node CR carries the limits of the node's current instance type whenever a reconcile succeeds. "
                      "The IPv6 gating clause is false for the CRD reconciler (witness theorem, known finding).",
        "level_note": "Trusted: Lean kernel; Model/Capacity.lean hand-written, EniCapRatio only at its default 1 (the float multiplication is not modelled); the legacy builder's annotation arithmetic (daemon/builder.go, inline in setupENIManager) and the "
                      "ERDMA device-plugin count are not tied (cannot be called in isolation); adapters = 0 is outside the domain (the daemon does not reject it).",
        "assumptions": ["EniCapRatio = 1 (default) and EniCapShift <= 0", "instance types have at least their primary interface (adapters >= 1)", "configured pool sizes are non-negative"],
        "trusted_base": ["Model/Capacity.lean (hand-written)", "hooks daemon/, pkg/eni, pkg/controller/node zz_verif_export.go"],
        "design_ref": "DESIGN.md §4 C19",
    },
    "C20": {
        "lean": ["C20"],
        "test_drivers": {"terwaycli.test": "./cmd/terway-cli/"},
        "required": ["C20.c20_empty_overlay", "C20.c20_absent_keeps", "C20.c20_present_wins", "C20.c20_null_deletes", "C20.c20_idempotent",
                     "C20.c20_idempotent_needs_clean_arrays", "C20.c20_chain_order", "C20.c20_chain_domain", "C20.c20_no_chainer_without_ebpf",
                     "C20.c20_chainer_when_required", "C20.c20_datapath_decision", "C20.c20_allow_ebpf_table",
                     "C20.c20_generated_file_is_the_new_list", "C20.c20_generated_file_ignores_previous", "C20.c20_overwrite_keeps_tail"],
        "rule": "(1) base/overlay documents: eni_conf-shaped documents (with null members in overlays), random trees of depth <= 4 over 14 shared keys, empty overlays, null-free overlays; "
                "merged with evanphx MergePatch and compared (canonical, keys sorted) with the Lean model; the real MergeConfigAndUnmarshal is checked at Config level against an independent RFC 7396 reference, "
                "for the empty overlay and for idempotence. (2) plugin lists of 0-4 plugins (terway with 11 virtual-type spellings x 6 provider values, cilium-cni, other, malformed) x kernel features x policy switch x "
                "datapath-v2 switch x recorded capability x cilium_net link presence, run through the real mergeConfigList by the tagged test driver in private mount+network namespaces; every generated list without a chainer then goes through the second step of `terway-cli cni`, storeRuntimeConfig, under recover (driver outcome panic:store, monitor C20/chain/panic). "
                "One list in four goes through the whole first step instead (op cni.gen, the real processInput): the plugin list is written as the mounted ConfigMap under /etc/eni (tmpfs in the driver's mount namespace; 10-terway.conflist, or 10-terway.conf alone for a single plugin; disable_network_policy; eni_conf), the kernel-version check and bpftool are answered by the op, "
                "and --output names a file an earlier run left (none / a shorter document / a longer valid list, drawn 1:1:2); the outcome is what a reader of that file gets, compared with the model's generate (the new list, whatever was there). "
                "non-trivial = non-empty overlay that merges / chain with at least one output plugin; distinct = distinct op line.",
        "technique": "Lean 4 theorems over a structural model of evanphx merge patch (nested-inductive JSON) and a fold model of mergeConfigList with invariants; differential correspondence incl. an out-of-process package-main driver",
        "level_text": "Theorems for all documents / plugin lists / feature combinations over the models; see Props/C20.lean. Tied to types/daemon/config.go (via jsonpatch and the real MergeConfigAndUnmarshal) and to cmd/terway-cli mergeConfigList by differential runs.",
        "level_note": "Trusted: Lean kernel; Model/Json.lean, Model/CniChain.lean hand-written; encoding/json decoding into Config, gabs, the ini capability file and netlink link probing are library/OS behaviour outside the model; the output file is a byte list the run replaces (os.WriteFile's truncation is the model's writeFile; a crash in the middle of the write is not modelled); "
                      "switchDataPathV2 is an input of the model (its own feature-gate/link logic is not modelled); numbers are integers and strings ASCII in the correspondence.",
        "assumptions": ["JSON objects have distinct keys after decoding (Go map semantics)", "encoding/json is correct"],
        "trusted_base": ["Model/Json.lean, Model/CniChain.lean (hand-written)", "hook cmd/terway-cli/zz_verif_driver_test.go"],
        "design_ref": "DESIGN.md §4 C20",
    },
    "C12": {
        "lean": ["C12"],
        "test_drivers": {"terwayplugin.test": "./plugin/terway/"},
        "required": ["C12.c12_crd_result_describes_owner", "C12.c12_one_default", "C12.c12_rejects", "C12.c12_gateway_v4", "C12.c12_gateway_in_subnet", "C12.c12_gateway_ne_pod",
                     "C12.c12_datapath_table", "C12.c12_datapath_solely", "C12.c12_roundtrip", "C12.c12_startup_result_has_gateway"],
        "rule": "(1) interface lists of 0-5 entries (names '', eth0, eth1, net1, eth2; default flags) through the real defaultForNetConf; (2) PodENI allocation sets of 0-4 allocations (IPv4 / IPv6 / dual, subnets /16../32 and /112../128, "
                "empty and unparsable CIDRs, trunk with known/missing VLAN ids, extra routes of both families) through the real RemoteIPResource.ToRPC; (3) every configuration so produced is fed to the plugin's real parseSetupConf "
                "(tagged test driver of plugin/terway, random IP type, VLAN mode, pod limits, runtime bandwidth overrides) and the whole reply to defaultForNetConf; (4) the complete getDatePath table (vlan_strip_type filter / vlan / absent / other); (6) 60 / 600 ops nc.meta: an interface the daemon finds attached at start-up as the instance metadata describes it (the real pkg/aliyun/eni GetENIByMac over the harness's loopback metadata server; IPv6 node or not; subnets 10.k.0.0/24 and fd00:k::/64), a local result served from it through LocalIPResource.ToRPC - gateway and subnet of each family compared with Model/NetConf.lean metaNetConf, monitor C12/local/startup-eni-subnet-gateway; (5) 300 / 5000 CRD-mode results: node IPAM records with 1-5 interfaces, each in its own vSwitch, one of them holding the pod's valid address(es), through the real CRDV2.Allocate and LocalIPResource.ToRPC over a fake API server - the reported interface is compared with the model, monitors on the NetConf: address inside the reported subnet, that subnet's reserved gateway, MAC of the reported interface. "
                "non-trivial = allocation set that yields a configuration / accepted parse / list with >= 2 interfaces; distinct = distinct op line.",
        "technique": "Lean 4 theorems over models of defaultForNetConf, RemoteIPResource.ToRPC, parseSetupConf and getDatePath (gateway facts reuse the C14 theorems); differential correspondence incl. an out-of-process plugin driver",
        "level_text": "Theorems for all interface lists, all allocation results and all plugin settings of the model: exactly one default route and the primary interface or rejection; PodENI configurations carry the subnet's third-from-last gateway, "
                      "inside the subnet and different from any non-reserved pod address; datapath is a function of (IP type, trunk, VLAN mode); the plugin recovers addresses, per-family route gateways and limits. "
                      "The CRD producer (CRDV2.multiIP + LocalIPResource.ToRPC) is tied for which interface a result describes; the local-pool producer (LocalIPResource.ToRPC copying the interface's metadata) is not separately tied.",
        "level_note": "Trusted: Lean kernel; Model/NetConf.lean hand-written; string parsing (net.ParseCIDR, net.ParseIP) is library code, the model works on parsed values; the device lookup by MAC in parseSetupConf is skipped (empty MAC); "
                      "IP type VPCIP (legacy vpc route) only appears in the datapath table; 'gateway differs from the pod address' rests on the cloud never assigning the reserved third-from-last address (explicit hypothesis).",
        "assumptions": ["allocated pod addresses are not the subnet's reserved third-from-last address", "net.ParseCIDR / net.ParseIP are correct"],
        "trusted_base": ["Model/NetConf.lean (hand-written)", "hooks pkg/eni, daemon zz_verif_export.go, plugin/terway/zz_verif_driver_test.go"],
        "design_ref": "DESIGN.md §4 C12",
    },
    "C13": {
        "lean": ["C13"],
        "required": ["C13.c13_to_pod", "C13.c13_from_pod", "C13.c13_teardown_exact", "C13.c13_teardown_keeps_others_reachable",
                     "C13.c13_one_default_contPolicy", "C13.c13_one_default_contIPVlan", "C13.c13_one_default_contExclusive", "C13.c13_one_default_contVlan",
                     "C13.c13_disabled_family_contPolicy", "C13.c13_disabled_family_contIPVlan", "C13.c13_disabled_family_contExclusive", "C13.c13_disabled_family_contVlan",
                     "C13.c13_disabled_family_hostPeer", "C13.c13_disabled_family_eniPolicy", "C13.c13_disabled_family_slaveIPVlan", "C13.c13_disabled_family_eniIPVlan",
                     "C13.c13_rule_sync_noop", "C13.c13_setup_rules_setUp", "C13.c13_setup_replaces_stale_rules",
                     "C13.c13_clean_keeps_others", "C13.c13_clean_removes_dead", "C13.c13_clean_noop"],
        "rule": "random setup configurations (IPv4 / IPv6 / dual, trunk on/off, default-route on/off, multi-network on/off, 0-2 extra routes of both families with/without gateway, three interface names, link indices 2-31) "
                "through the eight real configuration generators (policy-route container / host veth / ENI, ipvlan container / slave / ENI, exclusive-ENI container, vlan container) with stub links; the canonicalised nic.Conf "
                "(addresses, routes with table/gateway/scope/onlink, rules, neighbours, sysctls, strip flag) is compared with the Lean generators. Kernel validation of the FIB semantics (harness/vh/c13fib.go): the real PolicyRoute.Setup / Teardown run against this kernel in private network namespaces (veth pairs stand in for ENIs; 6 quick / 40 thorough scenarios of 2-4 pods on 2 ENIs, optionally a stale rule left by a lost DEL for a re-assigned address, pods torn down in random order); after every step the kernel's `ip rule` dump and `ip route get` answers for to-pod, from-pod and foreign traffic are compared with the Lean FIB model's lookup (lines fib.setup / fib.rules / fib.get / fib.teardown); in half of the scenarios the host also holds what an older release left (a pod-priority rule bound to a host veth that no longer exists plus the address-only rule of the same dead pod: lines fib.stale / fib.legacy) and every teardown is followed by the rest of the plugin's DEL, the real utils.GenericTearDown with its CleanIPRules (line fib.clean, model cleanRules); the daemon's periodic rule sync (4 quick / 24 thorough scenarios, harness/vh/c13sync.go): a pod with 1-3 policy-route interfaces set up by the real PolicyRoute.Setup in namespaces of its own - the ENI is the loopback device of the scenario's host namespace, the only link this kernel reports as *netlink.Device, found by ruleSync through its MAC; one subnet and gateway for the ENI in 60 % of the scenarios, a subnet per interface otherwise -, "
                "then 1-2 passes of the real ruleSync (hook daemon.VerifRuleSync) over the NetConf list the daemon stores (default interface with or without its name; node datapath veth / datapathv2 / unset), rule dump and to-pod / from-pod lookups compared with the model's ruleSync before and after (line fib.sync), kernel monitor C13/kernel/rule-sync/to-pod: every address still reaches the host veth of the interface that owns it; skipped with a note in the evidence when unshare is not permitted. non-trivial = configuration with at least one enabled family field set beyond the address; distinct = distinct op line.",
        "technique": "Lean 4 theorems over generator models and a small policy-routing (FIB) semantics: lookup characterised by minimal-priority yielding rule + longest prefix; differential correspondence of the generators",
        "level_text": "Theorems, for any number of pods sharing ENIs and all addresses: traffic to a pod address is delivered to that pod's host veth; traffic sourced from a pod leaves through the owning ENI via its gateway (table 1000+ifindex); "
                      "teardown removes exactly the pod's rules and veth routes and nothing of another pod; the daemon's periodic rule sync changes nothing on a host where every interface of the pod is set up (each interface asserted with its own host veth); cleaning up after vanished devices (CleanIPRules) keeps every rule that is neither device-bound nor about a dead rule's address, and is the identity when no rule is device-bound; exactly one main-table default route per enabled family inside the pod (all four container generators); nothing is generated for a disabled family (all eight generators). "
                      "The FIB semantics itself is a model of the kernel (validated, not verified); ipvlan/vlan/exclusive-ENI host-side forwarding (tc filters, device creation) is outside the model: partial.",
        "level_note": "Trusted: Lean kernel; Model/Datapath.lean, Model/Fib.lean hand-written; Linux policy routing behaves as Model/Fib.lean (rules by ascending priority, first table with a longest-prefix match); nic.Setup applies what the generators emit (ensure-style); "
                      "qdisc/tc/eBPF, sysctl effects and link creation for ipvlan/vlan are not modelled.",
        "assumptions": ["pod addresses on a node are pairwise distinct (C01/C02)", "the node's own main-table routes are not host routes", "an ENI gateway address is not a pod address", "pods on one ENI share that ENI's gateway"],
        "trusted_base": ["Model/Datapath.lean, Model/Fib.lean (hand-written)", "hook plugin/datapath/zz_verif_export_linux.go"],
        "design_ref": "DESIGN.md §4 C13",
    },
    "C18": {
        "lean": ["C18"],
        "required": ["C18.c18_host_network_unchanged", "C18.c18_ignored_unchanged", "C18.c18_no_match_unchanged", "C18.c18_conflict_denied",
                     "C18.c18_complete_spec", "C18.c18_vsw_sg_present_partial", "C18.c18_non_eth0_unfilled_witness", "C18.c18_device_request", "C18.c18_device_request_overrides_declared",
                     "C18.c18_zone_subset", "C18.c18_match_sound", "C18.c18_fixed_needs_stable_name", "C18.c18_daemonset_no_affinity"],
        "rule": "pods from the product of host-network / ignore label / container count (a fifth of them with a first container that already declares both device resources, quantity 1-4) / owner kind (StatefulSet, ReplicaSet, DaemonSet) / pod-eni flag, with one of: a user pod-networks annotation (1-3 entries, names incl. empty, too long and duplicate, "
                "0/1/2/11 security groups, missing vSwitches, Fixed/Elastic/unset), a pod-networks-request (1-3 references incl. unknown networks), none, malformed JSON, or conflicting annotations; 0-3 PodNetworking objects (ready or not, Fixed or not, "
                "pod/namespace selectors that match / do not match / are absent, zone sets); namespace present or not; previous PodENI zone; IPAM type; resource injection; trunk; cluster configuration with/without vSwitches, absent, with the legacy security_group field, with 10 and 11 effective security groups (more than ten make the configuration unreadable). "
                "The real podWebhook runs against controller-runtime's fake client, its JSON patch is applied and decoded. non-trivial = patched response; distinct = distinct op line.",
        "technique": "Lean 4 theorems over a staged model of podWebhook (gate / source / validate / finish); differential correspondence through the real handler with a fake client; Go monitors on the patched pod",
        "level_text": "Theorems for all pods, definitions and configurations of the model: out-of-scope pods are admitted unchanged, conflicting annotations denied, a patched pod has unique 1-5 byte interface names, <= 10 security groups, an allocation type, "
                      "Fixed only with a stable name, a device request equal to the network count, a zone term contained in every requested network's zones, none for DaemonSets; matched definitions are ready and accepted by all their selectors. "
                      "'each entry has vSwitches and security groups' holds for eth0 with a non-empty cluster configuration only (witness theorem + known finding).",
        "level_note": "Trusted: Lean kernel; Model/Webhook.lean hand-written; label-selector evaluation (k8s.io/apimachinery), JSON decoding and JSON-patch creation are library code: the model takes selector verdicts as inputs; "
                      "the validating webhook (validate.go) and podNetworkingWebhook are not modelled.",
        "assumptions": ["the cluster configuration has at most ten security groups (ConfigFromConfigMap enforces it)", "label selectors are evaluated correctly by the Kubernetes library"],
        "trusted_base": ["Model/Webhook.lean (hand-written)", "hook pkg/controller/webhook/zz_verif_export.go"],
        "design_ref": "DESIGN.md §4 C18",
    },
}
_DW_RULE = ("op sequences (12-32 events after pod creation) on the REAL networkService + eni.Manager/eni.Local pools + bolt-backed resource "
    "database (builder's InitResourceDB) + real pkg/k8s adapter over a fake API server and fake cloud, in a child process inside private "
    "mount/network namespaces: ADD / DEL / GET with current, older and fresh sandbox IDs; requests parked inside GetPod with same-pod and "
    "other-pod requests and GC attempts issued meanwhile; ADDs whose context ends while they are served; GC passes against generated "
    "(store, API) combinations (live, exited sandbox, deleted, moved to another node, lookup failing, sticky); restarts (optionally with an ENI "
    "detached) and crashes before/after the database write of a request; 1-3 ENIs x 1-3 addresses, single and dual stack, default and CRD IPAM. "
    "Each line carries the observed GetPod answer and pool pick; state (records, pool bindings, pending set) is compared after every event. "
    "non-trivial = every generated sequence; distinct = distinct line sequence.")
_DW_TRUST = ["Model/Daemon.lean, Proofs/Daemon.lean (hand-written model + invariant)",
    "hooks daemon/zz_verif_export.go, pkg/eni/zz_verif_export.go, pkg/k8s/zz_verif_export.go, pkg/storage/zz_verif_export.go",
    "fake API server (controller-runtime fake client + server-side field selector) and fake cloud stand in for kube-apiserver and the ECS API",
    "the harness observes the pool through Manager.Status() and waits until no Local.commit goroutine is left before reading it"]
_DW_ASSUME = ["the pool is exactly full (MaxIPPerENI = addresses present), so no request goes to the cloud: allocation from the cloud is C01/C06/C07",
    "single addresses do not vanish from an attached ENI (whole ENIs do)",
    "one network interface type (secondary ENI, shared-ENI mode); trunk / ERDMA / PodENI (remote) resources are C10/C11"]

PROPS["C04"] = {
    "lean": ["C04"],
    "required": ["C04.c04_concurrent_rejected", "C04.c04_rejected_until_leave", "C04.c04_stale_del_no_effect", "C04.c04_stale_get_hides",
                 "C04.c04_get_no_effect", "C04.c04_repeat_add_same_address", "C04.c04_repeat_del_noop", "C04.c04_del_without_record_noop",
                 "C04.c04_failed_add_before_pool", "C04.c04_failed_add_hands_back", "C04.c04_other_pods_untouched"],
    "rule": _DW_RULE + " Where requests wait for the cloud (which the daemon world, whose pool is exactly full, never does): 60 / 400 cases of the pool world of C07 run inside this check (pl.* lines, Model/Pool.lean); its monitor 'address owned by a pod that holds none' counts here as C04/pool/failed-add-keeps-address.",
    "technique": "Lean 4 theorems over a state-machine model of the daemon's request handling (pending set, record store, pool bindings) with an invariant proved for all histories; differential correspondence of every event against the real service",
    "level_text": "Theorems for all states/histories: a request for a pod with one in flight is answered 'processing' with no effect; DEL/GET with a non-recorded sandbox ID change nothing and return no allocation; a repeated ADD returns the recorded addresses (under the all-histories invariant); a repeated DEL is a no-op; an ADD failing before or after the pool served it leaves the state unchanged; no request changes another pod's record or bindings. Goroutine schedules are covered at the granularity of the pending-set guard and the RW lock (requests parked in GetPod), not at instruction level: partial.",
    "level_note": "Trusted: Lean kernel; the model is tied to the code by the correspondence run only. Not modelled: resourceDB.Put / defaultForNetConf failing after allocation (cannot be injected without changing behaviour), RemoteIP/trunk resources, cancellation at points other than 'before the pool' and 'while the pool serves' in the daemon world (cancellation while a request waits for the cloud is reached by the pool-world slice).",
    "assumptions": _DW_ASSUME,
    "trusted_base": _DW_TRUST,
    "design_ref": "DESIGN.md §4 C04",
    "timeout_quick": 1200, "timeout_thorough": 5400,
}
_SR_RULE = ("Plus the start-up filter between the stored records and the pool (filterENINotFound through storage List -> getPodResources, hook VerifLoadPodResources): "
    "stored records of 0-5 items, eniIp or another type, naming their interface by eni_id (one of 0-2 attached interfaces, or one that is gone) or - old format - by the MAC in front "
    "of the id (attached / gone / id without a dot / empty id); what is handed on is compared with Model/StoredRec.lean (op sr.filter); monitors: panic, item of an attached interface dropped.")
PROPS["C05"] = {
    "lean": ["C05"],
    "required": ["C05.c05_invariant_all_histories", "C05.c05_acknowledged_exclusive", "C05.c05_add_never_takes_recorded",
                 "C05.c05_restart_keeps_acknowledged", "C05.c05_restart_frees_unrecorded", "C05.c05_restart_pool_is_cloud",
                 "C05.c05_crash_before_write", "C05.c05_crash_after_write", "C05.c05_ack_add_recorded", "C05.c05_store_mirror",
                 "C05.c05_kill_durable", "C05.c05_failed_repeat_keeps_address",
                 "C05.c05_startup_filter_sublist", "C05.c05_startup_filter_keeps_attached"],
    "rule": _DW_RULE + " Plus SIGKILL runs: a writer process opens the database as the builder does and performs a seed-determined Put/Delete stream, acknowledging each write; it is killed at a random instant; the file (read with bolt directly) must equal the state after the acknowledged prefix or one more write, and the reopened store must list exactly the file. " + _SR_RULE,
    "technique": "Lean 4: invariant (bound / recorded / no-share / distinct keys) proved by induction over all histories of requests, GC passes, restarts and crash points; store model with cut points; differential correspondence incl. real restarts from the bolt file and SIGKILL of a writer process",
    "level_text": "Theorems: after every history of good events the invariant holds, hence every recorded address in the pool is bound to its pod and no two records name one address; restart rebinds every recorded address the cloud still reports and frees every unrecorded one; a crash before the database write leaves no trace, after it equals restart-after-completion; an acknowledged ADD is recorded; the store's disk-then-memory order makes every cut point reopen to the acknowledged prefix or one more write; the start-up filter hands every stored item of an attached interface (named by eni_id, or by the MAC of an old-format id) on to the pool and invents nothing. bolt's own fsync/rollback behaviour is exercised by the SIGKILL runs, not proved: partial.",
    "level_note": "Trusted: Lean kernel; bbolt's transactional commit (validated by SIGKILL runs, process kill only - no power-loss simulation); fake cloud. The history theorem excludes the repaired defect 0103396 (a failing ADD keeping what it took), which is proved to break the invariant on a concrete witness; the other repaired defect 529efcf (a failing repeat ADD releasing an acknowledged address) is covered by a witness theorem.",
    "assumptions": _DW_ASSUME,
    "trusted_base": _DW_TRUST + ["bbolt (github.com/boltdb/bolt) commit/recovery", "Model/StoredRec.lean, Proofs/StoredRec.lean (hand-written; loop shape regenerated by factgen)", "hook daemon/zz_verif_export.go VerifLoadPodResources"],
    "design_ref": "DESIGN.md §4 C05",
    "timeout_quick": 1200, "timeout_thorough": 5400,
}
PROPS["C09"] = {
    "lean": ["C09"],
    "required": ["C09.c09_excluded_while_in_flight", "C09.c09_existing_untouched", "C09.c09_only_absent_collected",
                 "C09.c09_absent_collected_within_two_passes", "C09.c09_idempotent", "C09.c09_outcome_independent", "C09.c09_pass_keeps_invariant"],
    "rule": _DW_RULE + " The release step GC shares with DEL, on pools with addresses the cloud sync invalidated (which the daemon world never has): 60 / 400 cases of the pool world of C07 run inside this check (pl.* lines, Model/Pool.lean); its monitor 'address owned by a pod that holds none' counts here as C09/pool/released-address-still-owned.",
    "technique": "Lean 4 theorems over the GC decision function and its effect on store and pool (per-record characterisation, two-pass and fixpoint theorems); differential correspondence of real gcPods passes against generated (store, API server) combinations with the real k8s adapter",
    "level_text": "Theorems for all stores, pools and API views: a pass does not run with a request in flight; a pod that is live, confirmed present, or whose lookup failed keeps its record and bindings; a record disappears only for a pod confirmed absent; within two passes a vanished pod's record is gone and its addresses unbound; a third pass over an unchanged world is the identity; a pod's outcome depends on its own record only; a pass keeps the allocation invariant. Kernel rule cleanup (gcPolicyRoutes) runs for real in the child's netns but its effect is C13's model, not this one: partial.",
    "level_note": "Trusted: Lean kernel; fake API server; the harness computes the pass's view (live / exists / lookup-failed) from its own API state, independently of pkg/k8s. Not modelled: database or netlink errors aborting a pass (not injectable); cleanRuntimeNode (CRD mode NodeRuntime bookkeeping) is C03.",
    "assumptions": _DW_ASSUME,
    "trusted_base": _DW_TRUST,
    "design_ref": "DESIGN.md §4 C09",
    "timeout_quick": 1200, "timeout_thorough": 5400,
}

_PW_RULE = ("[1 request in 7 is cancelled at issue, so that both sides of the pool / manager hand-over see a cancelled context] random cases on the REAL eni.Manager over 1-3 REAL eni.Local pools [in half of the periodic syncs pending cloud calls are answered while the sync is under way; a sync that gave the pool lock up in between is held back until the answer is recorded] (per-ENI limit 2-4, batch 1-3, IPv4 or dual stack, min/max idle "
    "watermarks) whose mutex is a Locker of the harness: every lock region of every goroutine (Local.Allocate, reply goroutine, per-request "
    "worker, factory worker, dispose worker, balancer's Usage/Dispose, sync, Release) is granted in a random order and recorded with the "
    "Local's full state at its end (addresses with owner/status/primary, raw request queues incl. finished entries, inhibit, ENI status); "
    "every cloud call (create / assign / unassign / delete) blocks at a gate of the fake cloud until the harness answers it: success, error "
    "before the effect, error after a partial or the full effect (returning what took effect), with plain / ENI-limit / address-exhausted "
    "codes. Events per case: 30-70 of pods asking (bursts, repeats pinned like AllocIP does), releasing (1 release event in 4 repeats the pod's last, already answered release request - the runtime's repeated DEL - after its addresses may have gone to other pods), callers giving up, balancer runs, "
    "syncs (also failing), remote removal of addresses, direct Dispose(n), pauses; then a drain with a healthy cloud and a quiescent-point "
    "comparison. Each recorded region is one protocol line the Lean model replays; the model's slot state must equal the recorded one. "
    "non-trivial = every case; distinct = distinct line sequence.")
_PW_TRUST = ["Model/Pool.lean, Proofs/Pool.lean (hand-written model + invariant)",
    "hooks pkg/eni/zz_verif_export.go (VerifSetLocker, VerifStateLocked, VerifRequestPtr, VerifSetRateLimit, VerifSyncPool, VerifSync)",
    "the harness's scheduling Locker and the labels it derives from goroutine stacks (function name, creator goroutine)",
    "fake cloud honouring the factory contract: a call that took effect returns what it created, also together with an error"]
_PW_ASSUME = ["requests of one pod do not overlap in the pool: neither two in flight (the daemon's pending-pod guard, C04) nor a new one while the reply goroutine of a cancelled, cache-served one has not run yet - the second half is NOT guaranteed by the code (known finding C01/exclusive/stale-reply-after-retry); the harness keeps a pod busy until that goroutine has run; a repeat request is pinned to the ENI of the held address (AllocIP's setRequest)",
    "the cloud hands out addresses an interface does not have yet, at most as many as asked for, and interface ids no slot has",
    "batch size <= per-ENI limit (for the create-call bound; assign calls are bounded without it)",
    "secondary ENIs only: trunk / ERDMA interfaces and pre-attached ENIs loaded at start-up (C05) are outside this model",
    "time: the allocation-inhibit deadline never expires within a case; the factory worker's 300 ms pause is real"]

PROPS["C01"] = {
    "lean": ["C01"],
    "required": ["C01.c01_invariant_all_interleavings", "C01.c01_one_owner_per_address", "C01.c01_direct_serves_own_or_free",
                 "C01.c01_worker_serves_own_or_free", "C01.c01_repeat_served_with_held", "C01.c01_reply_addresses_stay_bound",
                 "C01.c01_removed_address_not_offered", "C01.c01_deleting_address_not_offered"],
    "rule": _PW_RULE + " Exclusivity across a daemon restart (Local.load rebuilding the pool from the stored records): the daemon world of C05 with its restart / crash ops runs inside this check as well (dm.* lines, Model/Daemon.lean), and so does C04's mix of that world (repeated ADDs and DELs without restarts: the request the daemon builds for a repeated ADD pins the pool to the stored address and interface; monitor C04/repeat-add/different-address counts as C01/daemon/repeat-add/different-address); its monitors double-allocation, restart/binding-lost and restart/two-records-one-address count for C01 (keys C01/daemon/...).",
    "technique": "Lean 4: transition system whose steps are the lock regions of eni.Local, invariant proved by induction over all interleavings and cloud answers; refinement check of every real lock region against the model under a randomised lock scheduler",
    "level_text": "Theorems for all interleavings of lock regions and all cloud answers: one entry (one owner) per address; a request is served only with the pod's own entry or a valid unowned one; a repeat request gets the held address; addresses of a reply on its way stay bound to its pod; an address seen removed by sync or marked for unassignment is never offered. Exclusivity over time additionally rests on the per-step monitors of the harness (reply ledger). Granularity is the lock region, not the instruction: partial.",
    "level_note": "Trusted: Lean kernel; the lock-region decomposition (read off the code, validated region by region); fake cloud. Not modelled: trunk/ERDMA/remote resources, Manager's choice among interfaces (any accepting interface is admitted), metrics.",
    "assumptions": _PW_ASSUME, "trusted_base": _PW_TRUST + ["Model/Daemon.lean and the daemon world (hooks, fake API server) for the restart slice"], "design_ref": "DESIGN.md §4 C01",
    "timeout_quick": 1200, "timeout_thorough": 7200,
}
PROPS["C06"] = {
    "lean": ["C06"],
    "required": ["C06.c06_pool_limit_is_type_quota", "C06.c06_no_whole_dispose_while_request_waits", "C06.c06_tracked_plus_asked_within_limit", "C06.c06_assign_request_fits", "C06.c06_create_only_without_eni",
                 "C06.c06_created_goes_to_empty_slot", "C06.c06_marked_is_idle_and_secondary", "C06.c06_unassign_batch",
                 "C06.c06_dispose_marks_only_idle", "C06.c06_delete_only_unused", "C06.c06_whole_eni_only_unused", "C06.c06_attached_flags_are_types"],
    "rule": _PW_RULE + " The flags by which the pool knows the trunk and RDMA interfaces it must never dispose: 80 / 800 ops fa.attached - the real factory's GetAttachedNetworkInterface (start-up listing) over a fake metadata listing of 1-4 interfaces and the scripted SDK transport's DescribeNetworkInterfaces (types Secondary / Trunk / RDMA traffic mode; trunking, ERDMA and interface tags on or off; a preferred trunk id or none), flags per interface compared with Model/Factory.lean attached, monitor C06/factory/attached-type-flags. Every cloud call's arguments are also checked at call time against the fake cloud's state and the harness's reply ledger (quota, batch, in-use, primary). Plus 400 / 8000 start-up configuration cases (limit vectors with IPv6 quota equal to / below / above the IPv4 quota x IP stack x mode) through the real checkInstance and getPoolConfig (ops cap.check, cap.pool of C19's model): IPv6 must be switched off whenever the pool's single per-interface limit would exceed the type's IPv6 quota.",
    "technique": "Lean 4: invariant 'tracked + asked-for <= per-ENI limit' and 'marked for unassignment => idle and secondary' proved over all interleavings; plan functions of the factory/dispose workers bounded by theorem; refinement check of every real lock region incl. the arguments of every cloud call",
    "level_text": "Theorem c06_pool_limit_is_type_quota: the single per-interface limit the pool is started with (MaxIPPerENI = the type's IPv4 quota) is the type's quota in every family left enabled - IPv6 stays on in multi-IP mode only when its quota equals the IPv4 quota. Theorems: in every reachable state tracked plus asked-for addresses fit the per-ENI limit in each family; an assign request fits the free slots and the batch; an interface is created only on a slot without one (at most one per slot); only marked, idle, non-primary addresses are unassigned; shrinking marks only idle addresses; an interface is deleted only in deleting state with nothing held and nothing queued. Trunk and ERDMA interfaces (never disposed) are outside the model: partial.",
    "level_note": "Trusted: Lean kernel; fake cloud; the balancer's n is recomputed by the driver from the recorded Usage regions.",
    "assumptions": _PW_ASSUME, "trusted_base": _PW_TRUST + ["Model/Capacity.lean (checkInstance / getPoolConfig), hooks daemon/zz_verif_export.go VerifCheckInstance, VerifGetPoolConfig"], "design_ref": "DESIGN.md §4 C06",
    "timeout_quick": 1200, "timeout_thorough": 7200,
}
PROPS["C07"] = {
    "lean": ["C07", "C16"],
    "required": ["C07.c07_assigned_addresses_tracked", "C07.c07_created_eni_tracked", "C07.c07_created_addresses_tracked",
                 "C07.c07_failed_unassign_keeps", "C07.c07_failed_delete_keeps", "C07.c07_unassign_forgets_exactly",
                 "C07.c07_dispose_worker_retries", "C07.c07_undelivered_reply_unbinds", "C07.c07_release_unbinds", "C07.c07_balance_band",
                 "C07.c07_factory_reports_what_took_effect", "C16.c16_retry_same_token", "C16.c16_inflight_distinct_reachable", "C16.c16_token_belongs_to_hash"],
    "rule": _PW_RULE + " At the quiescent end of every case (healthy cloud, after a sync) the pool's Status() is compared with the fake cloud: every cloud address/interface is tracked, every tracked valid address is in the cloud, nothing is left marked for deletion, and no address is owned by a pod that does not hold it. Below the pool: 40 / 400 address assignments through the REAL factory (pkg/factory/aliyun AssignNIPv4 / AssignNIPv6) over the real OpenAPI wrappers (SDK transport = a small stateful ECS of the harness) and the real metadata client (MetadataBase / TokenURL point at a loopback server): the call is refused, or takes effect and the metadata lists the addresses, or takes effect and the metadata never lists them (error after effect); what the factory returns is compared with Model/Factory.lean (op fa.assign), monitor: an address the cloud assigned is not in what the factory returned.",
    "technique": "Lean 4 theorems about every result-consuming region (what a cloud call returns is tracked; nothing is forgotten before the cloud confirmed) and the balancer arithmetic; refinement check of every real lock region plus quiescent-point comparison of pool and fake cloud under injected faults",
    "level_text": "Theorems: addresses returned by an assign call are tracked whether it reported success (usable) or an error (to hand back); an interface returned with an error is kept in deleting state; failed unassign/delete calls keep what they were about, confirmed ones forget exactly that; the dispose worker only rests when nothing is marked; an undelivered reply un-binds what the request bound; the balancer's surplus/deficit lead exactly to the band. 'Eventually returns to the band' is a liveness statement; it is neither proved nor monitored as such - only the balancer's arithmetic (theorem c07_balance_band) and the correspondence of the pl.bal / pl.usage / pl.bdisp regions cover it: partial.",
    "level_note": "Trusted: Lean kernel; fake cloud honouring the factory contract (an effect is reported back with the error); quiescence detection of the harness (no lock waiter, no gated call, no event for 450 ms).",
    "assumptions": _PW_ASSUME, "trusted_base": _PW_TRUST, "design_ref": "DESIGN.md §4 C07",
    "timeout_quick": 1200, "timeout_thorough": 7200,
}

_IP_RULE = ("generated per-node IPAM records (0-3 interfaces in use / being attached / given up, secondary, trunk or RDMA, 1-cap IPv4 and 0-cap IPv6 "
    "entries each, valid or deleting, bound to existing, vanished or re-created pods with current, stale or empty UIDs; 1 in 12 records malformed), "
    "pod sets (IPv4, IPv6 or dual stack, RDMA pods, pods already reporting addresses that are free / bound to others / unknown), NodeRuntime objects "
    "(latest status deleted / initial / deleted-then-set-up-again / no entry / object missing) and node configurations (quotas 2-15, flavor, trunk, "
    "RDMA, pool watermarks) through the REAL functions buildIPMap+releasePodNotFound, buildIPMap+assignIPFromLocalPool, getEniOptions+"
    "assignEniWithOptions and adjustPool+releaseUnUsedIP; the outcome (record after, pods left, plan) is compared with the Lean relations. "
    "non-trivial = record with at least one interface; distinct = distinct op line.")
_IP_TRUST = ["Model/Ipam.lean (hand-written relations)", "hook pkg/controller/multi-ip/node/zz_verif_export.go",
    "controller-runtime fake client serving the NodeRuntime object"]
_IP_ASSUME = ["the functions are exercised one at a time on a record; their composition in Reconcile (with the cloud calls in between) is exercised by the closed-loop part of C08/C03 only through monitors",
    "ECS back end (batch size 10); the EFLO back end (batch size 1, no attach step) is not exercised"]

PROPS["C02"] = {
    "lean": ["C02"],
    "required": ["C02.c02_binding_never_moves", "C02.c02_new_binding_sound", "C02.c02_one_address_per_family", "C02.c02_wellformed_preserved", "C02.c02_entries_kept",
                 "C02.c02_rdma_only_for_rdma_pods", "C02.c02_merge_keeps_known", "C02.c02_merge_ips", "C02.c02_merge_no_new_binding"],
    "rule": _IP_RULE + " Every 8th C02 case lists 1-5 pods of the node (host-network / pod-ENI / finished pods, RDMA limits on an init container or a later container) through the real getPods over a fake client (op ip.pods; monitor: a pod none of whose containers asks for RDMA is classified as needing an RDMA interface). Every 8th C02 case is a cloud-drift case: the addresses a full synchronisation finds on one interface (80% of the recorded ones, a quarter of them reported as not available, plus 0-2 unknown ones) through the real mergeIPMap (op ip.merge), compared with Model/Ipam.lean mergeEntries (a recorded family without addresses is passed as the nil map the API object reads back as; 15% of the merge cases force it); monitors: a bound valid address the cloud still reports is changed or dropped.",
    "technique": "Lean 4: the assignment step as a relation between the record before and after (quantified over Go's map orders), theorems about everything the relation admits; every outcome of the real assignIPFromLocalPool is checked to satisfy the relation",
    "level_text": "Theorems about every outcome the relation admits: a pod is classified (needs IPv4 / IPv6 / an RDMA interface) from its own containers and the node's switches only, whatever else is listed; a binding never moves between pods; a new binding goes to a pod of the node that needs that family and has none, to exactly the address it reports (re-adoption) or a valid unbound address on an interface in use, RDMA interfaces to RDMA pods only, IPv6 on the interface of the pod's IPv4 address; at most one address per pod and family; addresses and their status untouched; the full synchronisation's merge leaves every address known to both sides exactly as recorded (bound addresses stay bound and valid), keeps exactly the addresses the cloud reports and binds nothing. That the real function only produces admitted outcomes is validated, not proved; beyond the merge of one interface, cloud drift (interfaces appearing / vanishing) and controller restarts enter only as arbitrary initial records and through the closed-loop runs: partial.",
    "level_note": "Trusted: Lean kernel; Model/Ipam.lean relates to the code by the correspondence run only. The daemon's read-back (crdv2.go multiIP) is modelled only as to which interface a result describes (C12, crdOwner).",
    "assumptions": _IP_ASSUME, "trusted_base": _IP_TRUST, "design_ref": "DESIGN.md §4 C02",
}
PROPS["C03"] = {
    "lean": ["C03"],
    "required": ["C03.c03_release_only_when_gone_and_confirmed", "C03.c03_release_when_gone_and_confirmed", "C03.c03_release_keeps_existing",
                 "C03.c03_release_changes_binding_only", "C03.c03_release_needs_runtime", "C03.c03_trim_only_idle", "C03.c03_assign_never_unbinds",
                 "C03.c03_agent_ignores_stale_del",
                 "C03.c03_agent_reports_only_processed_or_verified", "C03.c03_agent_clean_needs_absent", "C03.c03_agent_processed_del_reported"],
    "rule": _IP_RULE + " Node-agent side: the daemon world of C04 (real networkService) with an observing network interface that records the pod UID every Release is reported for, over histories in which pods are re-created under the same name while DELs for old sandboxes arrive; and 150 / 3000 node-agent histories (ops rt.*, harness/vh/agent.go) of 3-9 steps over 4 pod UIDs on the REAL CRDV2.Release / syncNodeRuntime / syncDeletedPods and the REAL cleanRuntimeNode (real k8s adapter, fake API server): processed DELs, report passes, IPAM-record changes, clean-up passes with per-pod answers present / absent (incl. a same-named pod on another node) / look-up failure, locally recorded UIDs, 60 s ageing, malformed pod ids, 15% of the NodeRuntime writes failing; the stored NodeRuntime and the pending set are compared with Model/Agent.lean after every step.",
    "technique": "Lean 4: releasePodNotFound modelled as a total function with theorems for all records/pods/runtime reports; trimming as a relation with theorems about everything it admits; differential correspondence of the real functions; daemon-side monitor on the UID teardown is reported for",
    "level_text": "Theorems: an address is unbound only when its pod is not on the node and (unless the binding has no UID) the node agent's latest report for that UID is 'deleted', and then it is unbound; an existing pod keeps its address; an unreadable NodeRuntime releases nothing; trimming marks only unbound non-primary addresses and gives an interface up only when nothing on it is bound; the assignment step never unbinds; the agent ignores a DEL for a stale sandbox; in every history of the node agent's passes a pod UID is reported as torn down only after its DEL was processed or the API server answered that the pod is gone (a failed look-up reports nothing), and a processed DEL is reported by the next successful pass. The two-process protocol (lost / delayed / duplicated NodeRuntime updates, API write failures) is covered only as 'any NodeRuntime content': partial.",
    "level_note": "Trusted: Lean kernel; fake API objects. The node agent's NodeRuntime object is assumed to exist (its creation by the first pass goes through the API server dropping the status of a created object, not exercised); stamps are compared at one-second resolution. Not modelled: unassignment in handleStatus (it unassigns every entry marked Deleting; that marked entries are unbound is the trim theorem).",
    "assumptions": _IP_ASSUME, "trusted_base": _IP_TRUST + ["Model/Agent.lean, Proofs/Agent.lean (hand-written model + invariant of the node agent's reporting)", "hooks pkg/eni/zz_verif_export.go (VerifNewCRDV2, VerifSyncNodeRuntime, VerifSyncDeletedPods), daemon/zz_verif_export.go (VerifCleanRuntimeNode)"] + ["daemon world (see C04)"], "design_ref": "DESIGN.md §4 C03",
    "timeout_quick": 1200, "timeout_thorough": 5400,
}
PROPS["C08"] = {
    "lean": ["C08", "C16"],
    "required": ["C08.c08_plan_within_quota", "C08.c08_slots_within_flavor", "C08.c08_no_plan_on_unattached", "C08.planPass_within", "C16.c16_retry_same_token", "C16.c16_inflight_distinct_reachable", "C16.c16_token_belongs_to_hash"],
    "rule": _IP_RULE + " Closed loop: the fault profiles also answer the Node CR's status write with a Conflict in 1 pass of 5 (status-update conflicts) and serve the controller's read of the Node CR from a lagging cache in 1 pass of 3 (the object as it was before the previous pass wrote it; the API server then refuses that pass's write); three regression seeds run first (lost synchronisation after two conflicts in a row, fixed 6131003; failed roll-back delete whose record is lost with a conflicting status write, known finding; cloud address on an interface whose record has none of that family left, fixed 7563783). The vSwitch pool's histories (C17's generator, model and monitors: a vSwitch reported exhausted comes back once its cache entry expires) run inside this check as well.",
    "technique": "Lean 4: getEniOptions/assignEniWithOptions modelled as functions of the interface order, quota theorems by induction over the option list; differential correspondence of the real planning functions; closed-loop runs of the real Reconcile against a fake cloud with fault injection (monitors)",
    "level_text": "Theorems for every interface order, record and demand: on an existing interface the plan asks for no more than its quota leaves and only when it is in use; for a new interface no more than the per-interface quota; never more than a batch; existing interfaces plus new slots never exceed the flavor. Convergence to a fixed point and rollback of failed creation are exercised by the closed-loop runs (monitors), not proved: partial.",
    "level_note": "Trusted: Lean kernel; fake cloud and fake API server of the closed-loop runs.",
    "assumptions": _IP_ASSUME, "trusted_base": _IP_TRUST, "design_ref": "DESIGN.md §4 C08",
    "timeout_quick": 1200, "timeout_thorough": 5400,
}

_PE_RULE = ("histories (25-110 scheduler decisions, then a fault-free drain to a fixed point) on the REAL pod controller (pkg/controller/pod Reconcile) and PodENI controller "
            "(pkg/controller/pod-eni Reconcile, gcCRPodENIs, gcSecondaryENI/gcMemberENI) for 1-3 pod names over a fake API server (controller-runtime fake client behind a wrapper that owns "
            "optimistic concurrency: never-reused versions, Conflict on stale Update/Status().Update, none on Patch/Delete, finalizer + deletionTimestamp) and a fake cloud (interfaces with tags, type - the type filter of DescribeNetworkInterface is honoured -, "
            "creation time, attachment; foreign interfaces of every tag/age/type/status). Every API-server / cloud call of an actor's main line is parked until a seeded scheduler releases it "
            "(possibly failing it), so reconciliations of the two controllers and passes of the two collectors interleave call by call with pod creation, graceful termination, completion, removal, "
            "recreation under the same name on another node or as a pod that is never scheduled (Pending: the pod controller's predicate drops it, the record collector has to keep its record alive), and virtual-clock steps (multiples of 70 s: no age equals the 600 s grace, TTLs are 35 mod 70); parallel create/attach workers run through "
            "or are paused at one call. Each call is one protocol line whose outcome is the answer plus the record and the name's interfaces afterwards; the Lean model must accept the event and agree on that state. "
            "Monitors (independent of the model): phase edges, no detach/delete of an interface named by the record of the running pod instance, roll-back of failed creation, convergence after deletion, "
            "same interfaces/addresses at re-bind, TTL against the harness's own observation times, leak-collector targets (tags, age, references).")
_PE_TRUST = ["Model/PodEni.lean (hand-written model, one transition per API-server/cloud call), Proofs/PodEni*.lean (four invariant groups, generated layout, grind-discharged, kernel-checked)",
             "harness/vh/eworld*.go: the fake API server's concurrency semantics (versions, conflicts, finalizers), the fake cloud (idempotent detach, delete refused while attached, delete of an absent interface succeeds), the scheduler, the virtual clock (timestamps presented relative to the wall clock; lastSeen shown 3 s older so that a rewritten timestamp is always visible)",
             "controller-runtime v0.20.2 fake client (object store only)"]
_PE_ASSUME = ["reconciliations of one controller for one name do not overlap (workqueue guarantee); a read returns the current object (informer-cache staleness beyond 'the reconciliation was paused after its read' is not modelled)",
              "the clock does not move while the pod controller is between its first interface creation and the end of that reconciliation (the 10-minute grace period exists for exactly this window)",
              "pod and node attributes that decide whether a pod needs a record are immutable for a pod instance; one cluster, no trunk mode (member interfaces appear only as foreign population), IPv4 only",
              "cloud calls fail before taking effect (no timeout-after-effect); nobody but the controllers and the harness's 'foreign' population touches interfaces or records"]

PROPS["C10"] = {
    "lean": ["C10"],
    "required": ["C10.c10_phase_edges_partial", "C10.c10_undocumented_edge_reachable", "C10.c10_deleting_is_final", "C10.c10_removed_only_when_deleting",
                 "C10.c10_delete_requested_only", "C10.c10_no_pull_from_running_pod", "C10.c10_record_of_running_pod_stays",
                 "C10.c10_no_interface_without_record", "C10.c10_reconciliation_ends_clean", "C10.c10_leaked_only_by_failed_delete"],
    "rule": _PE_RULE,
    "technique": "Lean 4: small-step model of the pod controller, the PodENI controller and the two collectors at API-call granularity (optimistic concurrency, finalizers, fresh ids); four invariant groups proved for every event, hence every interleaving / history; property theorems as corollaries; trace-acceptance correspondence of every call of the real controllers, with state comparison after each call",
    "level_text": "Theorems over all histories (all interleavings of the four actors with pod lifecycles, clock steps and failing calls): every phase change is a documented edge or one of two identified extra edges (the full statement is proved false with a witness; Unbind never returns to Detaching since fix 1c9af3e; nothing leaves Deleting; removal only after a delete request, which is made only in Deleting or for a non-fixed record bound to a dead instance); no detach/delete by anyone ever hits an interface named by the record of the running pod instance; between pod-controller reconciliations every interface is foreign, recorded, or left by a roll-back whose own delete failed, and a reconciliation cannot end holding created interfaces. 'Deleted pod => interface deleted and record gone' (liveness) is checked by the fixed-point monitor on the real code, not proved: partial.",
    "level_note": "Trusted: Lean kernel; the model is tied to the code by the correspondence run only (see trusted_base for the fake API server and cloud).",
    "assumptions": _PE_ASSUME, "trusted_base": _PE_TRUST, "design_ref": "DESIGN.md §4 C10",
    "timeout_quick": 1800, "timeout_thorough": 7200,
}
PROPS["C11"] = {
    "lean": ["C11"],
    "required": ["C11.c11_allocations_never_change", "C11.c11_same_interface_after_recreation", "C11.c11_bind_means_attached", "C11.c11_address_of_interface_never_changes",
                 "C11.c11_reaped_only_after_ttl", "C11.c11_fixed_record_only_reaped_by_collector", "C11.c11_keep_rule", "C11.c11_keep_order_independent",
                 "C11.c11_leak_collector_reaps_only_ours_old_unreferenced", "C11.c11_leak_candidate_rule"],
    "rule": _PE_RULE,
    "technique": "Lean 4: same small-step model and invariants as C10; TTL / keep rule and leak-collector decision as pure functions with their laws; observation-time ghost state related to the recorded lastSeen by an invariant; trace-acceptance correspondence of the real controllers under a virtual clock",
    "level_text": "Theorems over all histories: a record's allocations never change while it exists, so any history that keeps the record ends with the same interfaces and addresses, Bind is written only when all of them are attached, and an interface never changes its address; the collector marks a fixed-address record Deleting only when every fixed allocation is TTL with a well-formed duration that has elapsed since the last observation of the pod (bind, or a collector pass that found it), nobody else sends a fixed record to Deleting or requests its deletion before that; the vote is the documented any-keeps rule and order independent; an interface the leak collector deletes or detaches is ours, at least 600 s old and named by no record when it is reaped. 'The recreated pod is eventually re-bound' (liveness) is checked by the fixed-point monitor, not proved: partial.",
    "level_note": "Trusted: Lean kernel; the model is tied to the code by the correspondence run only. API errors are not injected into the lastSeen touch (C11 does not quantify over faults).",
    "assumptions": _PE_ASSUME, "trusted_base": _PE_TRUST, "design_ref": "DESIGN.md §4 C11",
    "timeout_quick": 1800, "timeout_thorough": 7200,
}

NOT_APPLICABLE = {}
