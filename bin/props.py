"""Per-property configuration shared by bin/check and bin/mkmanifest."""

PROPS = {
    "C14": {
        "lean": ["C14"],
        "required": ["C14.c14_u32_v4_src", "C14.c14_u32_v4_dst", "C14.c14_u32_v6_src", "C14.c14_gateway_third_from_last",
                     "C14.c14_gateway_none_iff", "C14.c14_table_injective", "C14.c14_veth_fits", "C14.c14_veth_preimage_injective"],
        "rule": "structured generator: every IPv4 prefix length 0..32 x boundary and random addresses (both 4- and 16-byte "
                "net.IP forms) for U32IPv4Src/dstIPRule/DeriveGatewayIP; every IPv6 length 0..128 x random/zeroed words; "
                "random link indices; random (prefix, namespace, name, ifname) incl. multi-block hash inputs. Each case is one "
                "call on the real function, compared with the Lean model's output; an independent Go packet evaluator / big-int "
                "reference is the property monitor. non-trivial = prefix strictly between 0 and full length (classifiers), "
                "subnet with >= 2 host bits (gateway), index > 0, any veth case; distinct = distinct op line.",
        "technique": "Lean 4 theorems (bit-extensional BitVec proofs, Nat arithmetic) over a hand-written model + differential correspondence run + regenerated constants",
        "title": "classifier keys exact, gateway third-from-last, table ids injective, veth names <= 15 and per-interface",
        "level_text": "Theorems for all addresses and all prefix lengths (0..32, 0..128), all subnets, all link indices, all name triples; "
                      "the model is tied to pkg/tc, pkg/ip, pkg/link, utils.GetRouteTableID and dstIPRule by a differential run and by constants regenerated from the source.",
        "level_note": "Trusted: Lean kernel; hand-written model (Model/Net.lean, executable SHA-1 in Model/Sha1.lean) validated only on the generated sample; "
                      "distinctness of veth names is proved for the hash pre-image, the residual is a 44-bit truncated SHA-1 collision; "
                      "IPv6 subnets of length >= 80 inside ::/80 (IPv4-mapped range, never a VPC CIDR) are a recorded known finding, outside the correspondence domain.",
        "assumptions": ["SHA-1 truncated to 44 bits is collision-free on a pod's interface names",
                        "net.ParseCIDR / net.IP.String are correct (library code)"],
        "trusted_base": ["Model/Net.lean, Model/Sha1.lean (hand-written)"],
        "design_ref": "DESIGN.md §4 C14",
    },
}
NOT_APPLICABLE = {}
