package k8s

import "testing"

// copy to /repo/pkg/k8s/ and run: go test -tags default_build -run TestVerifDemoBandwidthNoUnit ./pkg/k8s/
func TestVerifDemoBandwidthNoUnit(t *testing.T) {
	defer func() {
		if r := recover(); r != nil {
			t.Fatalf("parseBandwidth panicked: %v", r)
		}
	}()
	v, err := parseBandwidth("1000")
	if err != nil || v != 1000 {
		t.Fatalf("got %d %v", v, err)
	}
}
