package node

// Demonstration for C03 ("never unbinds ... an address bound to a pod while that pod still exists on the
// node"): copy to /repo/pkg/controller/multi-ip/node/ and run
//   go test -tags default_build -vet=off -count=1 -run TestVerifC03RollbackUnbindsExistingPod ./pkg/controller/multi-ip/node/
// Dual stack.  Pod p2 is bound to the IPv4 address 10.0.2.2 (from an earlier pass, or a record taken over from
// an IPv4-only version) and its interface has no free IPv6 address.  Before the fix assignIPFromLocalPool
// "rolled back" that IPv4 binding although it had not made it; a second pod was then given 10.0.2.2 in the
// same pass.

import (
	"testing"

	"github.com/go-logr/logr"

	networkv1beta1 "github.com/AliyunContainerService/terway/pkg/apis/network.alibabacloud.com/v1beta1"
)

func TestVerifC03RollbackUnbindsExistingPod(t *testing.T) {
	for round := 0; round < 50; round++ {
		enis := map[string]*networkv1beta1.NetworkInterface{
			"eni-2": {ID: "eni-2", Status: "InUse",
				IPv4: map[string]*networkv1beta1.IP{
					"10.0.2.1": {IP: "10.0.2.1", Primary: true, Status: networkv1beta1.IPStatusValid, PodID: "ns/other", PodUID: "u0"},
					"10.0.2.2": {IP: "10.0.2.2", Status: networkv1beta1.IPStatusValid, PodID: "ns/p2", PodUID: "u2"},
				},
				IPv6: map[string]*networkv1beta1.IP{
					"fd00::2:1": {IP: "fd00::2:1", Status: networkv1beta1.IPStatusValid, PodID: "ns/other", PodUID: "u0"},
				}},
			"eni-1": {ID: "eni-1", Status: "InUse",
				IPv4: map[string]*networkv1beta1.IP{
					"10.0.1.1": {IP: "10.0.1.1", Primary: true, Status: networkv1beta1.IPStatusValid, PodID: "ns/other2", PodUID: "u9"},
				},
				IPv6: map[string]*networkv1beta1.IP{
					"fd00::1:1": {IP: "fd00::1:1", Status: networkv1beta1.IPStatusValid},
				}},
		}
		pods := map[string]*PodRequest{
			"ns/p2": {PodUID: "u2", RequireIPv4: true, RequireIPv6: true},
			"ns/p3": {PodUID: "u3", RequireIPv4: true, RequireIPv6: true},
		}
		v4, v6 := buildIPMap(pods, enis)
		assignIPFromLocalPool(logr.Discard(), pods, v4, v6, false)
		if got := enis["eni-2"].IPv4["10.0.2.2"].PodID; got != "ns/p2" {
			t.Fatalf("round %d: 10.0.2.2 was bound to ns/p2, which still exists; now it is bound to %q", round, got)
		}
	}
}
