//go:build linux

package daemon

import (
	"context"
	"testing"
)

// copy to /repo/daemon/ and run: go test -tags default_build -run TestVerifDemoGCPolicyRoutesDetachedENI ./daemon/
func TestVerifDemoGCPolicyRoutesDetachedENI(t *testing.T) {
	// no device carries this MAC: the ENI is no longer attached; GC must treat it as nothing-to-clean
	if err := gcPolicyRoutes(context.Background(), "02:00:de:ad:be:ef", nil, "ns", "pod"); err != nil {
		t.Fatalf("gcPolicyRoutes on a detached ENI returned %v (aborts the whole gcPods pass)", err)
	}
}
