//go:build default_build

package eni

import (
	"context"
	"net/netip"
	"runtime"
	"strings"
	"sync"
	"sync/atomic"
	"testing"
	"time"

	"github.com/AliyunContainerService/terway/types/daemon"
)

// C01 known finding `C01/exclusive/stale-reply-after-retry`.
// copy to /repo/pkg/eni/ and run: go test -tags default_build -vet=off -run TestVerifDemoStaleReplyAfterRetry ./pkg/eni/
//
// An ADD for pod ns/a is served from the idle cache (address A marked for ns/a, reply goroutine started) and its
// context is cancelled before the reply goroutine gets the pool lock; the daemon's AllocIP returns, the runtime
// retries.  The retry finds A already marked for ns/a ("held"), its reply is delivered: ns/a holds A.  Only now
// does the first request's reply goroutine get the lock: its context is cancelled, A was not held when *it* started,
// so it releases A.  A is idle while ns/a uses it; the next pod gets A as well.
// The test FAILS on the tree as it is (that is the demonstration); the lock order is forced with a gate on the pool's
// Locker, every step is the real code.

type verifGate struct {
	mu      sync.Mutex
	hold    int32
	main    string
	waiting chan chan struct{}
}

func verifGID() string {
	b := make([]byte, 64)
	b = b[:runtime.Stack(b, false)]
	return strings.Fields(string(b))[1]
}

func (g *verifGate) Lock() {
	if atomic.LoadInt32(&g.hold) == 1 && verifGID() != g.main {
		ch := make(chan struct{})
		g.waiting <- ch
		<-ch
	}
	g.mu.Lock()
}
func (g *verifGate) Unlock() { g.mu.Unlock() }

func TestVerifDemoStaleReplyAfterRetry(t *testing.T) {
	l := NewLocalTest(&daemon.ENI{ID: "eni-1", MAC: "00:00:00:00:00:01"}, nil, &daemon.PoolConfig{MaxIPPerENI: 8, EnableIPv4: true}, "")
	l.status = statusInUse
	a := netip.MustParseAddr("192.0.2.10")
	l.ipv4.Add(NewValidIP(a, false))
	g := &verifGate{main: verifGID(), waiting: make(chan chan struct{}, 8), hold: 1}
	l.cond = sync.NewCond(g)

	// first ADD for ns/a: served from the cache, cancelled before its reply goroutine runs
	ctx1, cancel1 := context.WithCancel(context.Background())
	ch1, _ := l.Allocate(ctx1, &daemon.CNI{PodID: "ns/a"}, NewLocalIPRequest())
	if ch1 == nil {
		t.Fatal("first ADD refused")
	}
	reply1 := <-g.waiting // its reply goroutine waits for the pool lock
	cancel1()

	// the retry
	ch2, _ := l.Allocate(context.Background(), &daemon.CNI{PodID: "ns/a"}, NewLocalIPRequest())
	if ch2 == nil {
		t.Fatal("retry refused")
	}
	reply2 := <-g.waiting
	got := make(chan *AllocResp, 1)
	go func() { got <- <-ch2 }()
	close(reply2) // the retry's reply goroutine gets the lock first and delivers
	var r2 *AllocResp
	select {
	case r2 = <-got:
	case <-time.After(2 * time.Second):
		t.Fatal("retry not answered")
	}
	if r2 == nil || len(r2.NetworkConfigs) != 1 || r2.NetworkConfigs[0].(*LocalIPResource).IP.IPv4 != a {
		t.Fatalf("retry answered with %+v", r2)
	}
	close(reply1) // now the cancelled request's reply goroutine
	select {
	case <-ch1:
	case <-time.After(2 * time.Second):
		t.Fatal("first reply goroutine did not finish")
	}
	atomic.StoreInt32(&g.hold, 0)

	// ns/a was handed A; the pool must still say so
	l.cond.L.Lock()
	owner := ""
	for _, v := range l.ipv4 {
		if v.ip == a {
			owner = v.podID
		}
	}
	l.cond.L.Unlock()
	if owner != "ns/a" {
		t.Fatalf("ns/a was handed %s, but the pool now records its owner as %q: the next pod will be given the same address", a, owner)
	}
}
