//go:build default_build

package pod

// Demonstration for C10 ("A per-pod ENI record moves only along the documented phases … bound to detaching to
// unbound to binding to bound"): copy to /repo/pkg/controller/pod/ and run
//   go test -tags default_build -vet=off -count=1 -run TestVerifC10UnbindBackToDetaching ./pkg/controller/pod/
// A fixed-IP record is Unbind (its pod was deleted, the interface is detached and kept for the pod's return).
// Any further reconciliation of the deleted (or finished) pod moved the record back to Detaching; the PodENI
// controller then "detached" again and set Unbind, and so on with every event for that pod.

import (
	"context"
	"testing"

	metav1 "k8s.io/apimachinery/pkg/apis/meta/v1"
	k8stypes "k8s.io/apimachinery/pkg/types"
	"sigs.k8s.io/controller-runtime/pkg/client/fake"
	"sigs.k8s.io/controller-runtime/pkg/reconcile"

	"github.com/AliyunContainerService/terway/pkg/apis/network.alibabacloud.com/v1beta1"
	"github.com/AliyunContainerService/terway/types"
)

func TestVerifC10UnbindBackToDetaching(t *testing.T) {
	rec := &v1beta1.PodENI{
		ObjectMeta: metav1.ObjectMeta{Name: "web-0", Namespace: "default", Finalizers: []string{types.FinalizerPodENI},
			Annotations: map[string]string{types.PodUID: "uid-1"}},
		Spec: v1beta1.PodENISpec{Allocations: []v1beta1.Allocation{{
			ENI:            v1beta1.ENI{ID: "eni-1"},
			AllocationType: v1beta1.AllocationType{Type: v1beta1.IPAllocTypeFixed, ReleaseStrategy: v1beta1.ReleaseStrategyNever},
		}}},
		Status: v1beta1.PodENIStatus{Phase: v1beta1.ENIPhaseUnbind},
	}
	c := fake.NewClientBuilder().WithScheme(types.Scheme).WithStatusSubresource(&v1beta1.PodENI{}).WithObjects(rec).Build()
	m := &ReconcilePod{client: c, scheme: types.Scheme}
	// the pod web-0 does not exist any more
	if _, err := m.Reconcile(context.Background(), reconcile.Request{NamespacedName: k8stypes.NamespacedName{Namespace: "default", Name: "web-0"}}); err != nil {
		t.Fatal(err)
	}
	got := &v1beta1.PodENI{}
	if err := c.Get(context.Background(), k8stypes.NamespacedName{Namespace: "default", Name: "web-0"}, got); err != nil {
		t.Fatal(err)
	}
	if got.Status.Phase != v1beta1.ENIPhaseUnbind {
		t.Fatalf("record was Unbind and its pod is gone; after a reconciliation of that pod its phase is %q", got.Status.Phase)
	}
}
