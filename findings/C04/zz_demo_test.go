package eni

// Demonstration for C04 ("An ADD that fails hands back every address it took"):
// copy to /repo/pkg/eni/ and run
//   go test -tags default_build -vet=off -count=1 -run TestVerifC04CancelledAllocateKeepsAddress ./pkg/eni/
// Before the fix, Manager.Allocate could receive the address an interface had already bound to the pod
// and then drop it because the request context was done; the caller's rollback (AllocIP releases what
// Allocate returned) then had nothing to release and the address stayed bound to a pod without a record.

import (
	"context"
	"net/netip"
	"testing"
	"time"

	"github.com/AliyunContainerService/terway/types/daemon"
)

func TestVerifC04CancelledAllocateKeepsAddress(t *testing.T) {
	l := NewLocal(&daemon.ENI{ID: "eni-1"}, "secondary", nil, &daemon.PoolConfig{EnableIPv4: true, MaxIPPerENI: 1})
	l.status = statusInUse
	ip := NewValidIP(netip.MustParseAddr("10.0.0.2"), false)
	l.ipv4.Add(ip)
	m := NewManager(0, 0, 1, 0, []NetworkInterface{l}, "", nil)
	cni := &daemon.CNI{PodID: "ns/p"}
	for i := 0; i < 20000; i++ {
		// the request context ends while the request is being served (kubelet gives up, the daemon stops)
		ctx, cancel := context.WithCancel(context.Background())
		go func(d time.Duration) {
			time.Sleep(d)
			cancel()
		}(time.Duration(i%40) * time.Microsecond)
		res, err := m.Allocate(ctx, cni, &AllocRequest{ResourceRequests: []ResourceRequest{NewLocalIPRequest()}})
		cancel()
		if err == nil {
			// served before the context ended: give it back and go on
			_ = m.Release(context.Background(), cni, &ReleaseRequest{NetworkResources: res})
			continue
		}
		// what AllocIP does with a failed Allocate
		_ = m.Release(context.Background(), cni, &ReleaseRequest{NetworkResources: res})
		deadline := time.Now().Add(2 * time.Second)
		for {
			l.cond.L.Lock()
			owner := ip.podID
			l.cond.L.Unlock()
			if owner == "" {
				break
			}
			if time.Now().After(deadline) {
				t.Fatalf("round %d: the failed Allocate returned %d resources and the address is still bound to %q", i, len(res), owner)
			}
			time.Sleep(200 * time.Microsecond)
		}
	}
}
