package eni

// Demonstration for C06 ("never asks the cloud for more addresses on an interface than the instance type
// allows"): copy to /repo/pkg/eni/ and run
//   go test -tags default_build -vet=off -count=1 -run TestVerifC06AssignBeyondCap ./pkg/eni/
// An AssignPrivateIpAddresses call that took effect but reported an error leaves its addresses on the
// interface until the dispose worker has unassigned them.  Before the fix the factory worker's next round
// asked for min(batch, queued) more addresses without counting them: with 2 addresses allowed, 1 in use,
// 1 pending deletion and 1 request queued it asked for a third.

import (
	"context"
	"errors"
	"net/netip"
	"sync"
	"testing"
	"time"

	"golang.org/x/time/rate"

	"github.com/AliyunContainerService/terway/types/daemon"
)

type c06Cloud struct {
	mu      sync.Mutex
	onENI   int // addresses currently assigned to the interface
	calls   int
	overCap []int
	hold    chan struct{}
}

func (c *c06Cloud) CreateNetworkInterface(int, int, string) (*daemon.ENI, []netip.Addr, []netip.Addr, error) {
	return nil, nil, nil, errors.New("unexpected")
}
func (c *c06Cloud) AssignNIPv4(eniID string, count int, mac string) ([]netip.Addr, error) {
	c.mu.Lock()
	defer c.mu.Unlock()
	c.calls++
	if c.onENI+count > 2 {
		c.overCap = append(c.overCap, c.onENI+count)
		return nil, errors.New("QuotaExceeded")
	}
	c.onENI += count
	if c.calls == 1 {
		// took effect, reported an error
		return []netip.Addr{netip.MustParseAddr("10.0.0.3")}, errors.New("timeout")
	}
	return []netip.Addr{netip.MustParseAddr("10.0.0.4")}, nil
}
func (c *c06Cloud) AssignNIPv6(string, int, string) ([]netip.Addr, error) { return nil, nil }
func (c *c06Cloud) UnAssignNIPv4(eniID string, ips []netip.Addr, mac string) error {
	<-c.hold // the unassign call is slow
	c.mu.Lock()
	c.onENI -= len(ips)
	c.mu.Unlock()
	return nil
}
func (c *c06Cloud) UnAssignNIPv6(string, []netip.Addr, string) error { return nil }
func (c *c06Cloud) DeleteNetworkInterface(string) error               { return nil }
func (c *c06Cloud) LoadNetworkInterface(string) ([]netip.Addr, []netip.Addr, error) {
	return nil, nil, errors.New("no metadata")
}
func (c *c06Cloud) GetAttachedNetworkInterface(string) ([]*daemon.ENI, error) { return nil, nil }

func TestVerifC06AssignBeyondCap(t *testing.T) {
	old := rateLimit
	rateLimit = rate.Inf
	defer func() { rateLimit = old }()
	cloud := &c06Cloud{onENI: 1, hold: make(chan struct{})}
	l := NewLocal(&daemon.ENI{ID: "eni-1"}, "secondary", cloud, &daemon.PoolConfig{EnableIPv4: true, MaxIPPerENI: 2, BatchSize: 2})
	l.status = statusInUse
	used := NewValidIP(netip.MustParseAddr("10.0.0.2"), true)
	used.Allocate("ns/other")
	l.ipv4.Add(used)
	ctx, cancel := context.WithCancel(context.Background())
	defer cancel()
	go l.factoryAllocWorker(ctx)
	go l.factoryDisposeWorker(ctx)
	ch, _ := l.Allocate(ctx, &daemon.CNI{PodID: "ns/p"}, NewLocalIPRequest())
	if ch == nil {
		t.Fatal("request not accepted")
	}
	time.Sleep(1500 * time.Millisecond) // a few rounds of the factory worker while the unassign call hangs
	cloud.mu.Lock()
	over := append([]int(nil), cloud.overCap...)
	cloud.mu.Unlock()
	close(cloud.hold)
	if len(over) > 0 {
		t.Fatalf("AssignNIPv4 was asked for more than the interface may hold (2): totals %v", over)
	}
	select {
	case r := <-ch:
		if r == nil || r.Err != nil {
			t.Fatalf("request failed: %v", r)
		}
	case <-time.After(3 * time.Second):
		t.Fatal("request not served after the pending address was unassigned")
	}
}
