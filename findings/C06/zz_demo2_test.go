//go:build default_build

package eni

// Second demonstration for C06 ("… and never disposes what is in use") / C01 ("every address handed to a pod …
// has not been unassigned by the daemon"): copy to /repo/pkg/eni/ and run
//   go test -tags default_build -vet=off -count=1 -run TestVerifC06DisposeWhileRequestWaits ./pkg/eni/
// A request whose addresses the factory worker has already ordered sits in the "danging" queue while its
// worker goroutine waits for a free address.  If another request takes the new address first and gives it back,
// every address of the interface is idle again and nothing is left in the "allocating" queue: canDispose said
// yes although a request was still waiting on this interface.  The interface went to Deleting, the waiting
// worker then took the freed address (allocWorker does not look at the status), and the pod ended up with an
// address on an interface the daemon deletes.  Found by the pool world (monitor C01/held/untracked, seed 11 of
// the thorough tier); too rare a schedule to replay reliably, hence this direct demonstration.

import (
	"net/netip"
	"testing"

	"github.com/AliyunContainerService/terway/types/daemon"
)

func TestVerifC06DisposeWhileRequestWaits(t *testing.T) {
	l := NewLocal(&daemon.ENI{ID: "eni-2"}, "secondary", nil, &daemon.PoolConfig{EnableIPv4: true, MaxIPPerENI: 2, BatchSize: 2})
	l.status = statusInUse
	l.ipv4.Add(NewValidIP(netip.MustParseAddr("10.0.2.1"), true)) // idle again: taken and given back by another pod
	waiting := NewLocalIPRequest()                               // its address was ordered; its worker waits for a free one
	l.dangingV4 = append(l.dangingV4, waiting)

	l.Dispose(10)

	if l.status == statusDeleting {
		t.Fatalf("the interface was marked Deleting while a request is still waiting for an address on it")
	}
}
