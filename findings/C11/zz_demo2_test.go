//go:build default_build

package pod

// Known finding C11/rebind/fixed-record-not-rebound/binding-foreign-uid: copy to /repo/pkg/controller/pod/ and run
//   go test -tags default_build -vet=off -count=1 -run TestVerifC11BindingRecordOfPreviousInstance ./pkg/controller/pod/
// web-0's fixed-IP record was parked in Unbind; web-0 (uid-old) was recreated, the pod controller set the record to
// Binding for it and the PodENI controller attached the interface on node A; before it wrote Bind, web-0 was replaced
// again (uid-new, node B).  The pod controller only waits for a record in Binding, whatever its uid; the PodENI
// controller cannot attach an interface that is attached to node A and never detaches it in that phase: the pod never
// gets its interface and address back.  The test expects the record to be sent to Detaching (as 64cfd19 does for the
// initial phase) and FAILS on the tree as it is - that is the demonstration.
// Found by the PodENI world (monitor C11/rebind/…, thorough tier seed 1).

import (
	"context"
	"testing"

	corev1 "k8s.io/api/core/v1"
	metav1 "k8s.io/apimachinery/pkg/apis/meta/v1"
	k8stypes "k8s.io/apimachinery/pkg/types"
	"sigs.k8s.io/controller-runtime/pkg/client/fake"
	"sigs.k8s.io/controller-runtime/pkg/reconcile"

	"github.com/AliyunContainerService/terway/pkg/apis/network.alibabacloud.com/v1beta1"
	"github.com/AliyunContainerService/terway/types"
)

func TestVerifC11BindingRecordOfPreviousInstance(t *testing.T) {
	rec := &v1beta1.PodENI{
		ObjectMeta: metav1.ObjectMeta{Name: "web-0", Namespace: "default", Finalizers: []string{types.FinalizerPodENI},
			Annotations: map[string]string{types.PodUID: "uid-old"}},
		Spec: v1beta1.PodENISpec{Allocations: []v1beta1.Allocation{{
			ENI:            v1beta1.ENI{ID: "eni-1"},
			AllocationType: v1beta1.AllocationType{Type: v1beta1.IPAllocTypeFixed, ReleaseStrategy: v1beta1.ReleaseStrategyNever},
		}}},
		Status: v1beta1.PodENIStatus{Phase: v1beta1.ENIPhaseBinding},
	}
	node := &corev1.Node{ObjectMeta: metav1.ObjectMeta{Name: "node-b", Labels: map[string]string{
		corev1.LabelTopologyRegion: "cn-x", corev1.LabelTopologyZone: "zone-a", corev1.LabelInstanceTypeStable: "ecs.g7.large"}},
		Spec: corev1.NodeSpec{ProviderID: "cn-x.i-b"}}
	pod := &corev1.Pod{ObjectMeta: metav1.ObjectMeta{Name: "web-0", Namespace: "default", UID: "uid-new",
		Annotations: map[string]string{types.PodENI: "true"}},
		Spec:   corev1.PodSpec{NodeName: "node-b"},
		Status: corev1.PodStatus{Phase: corev1.PodRunning}}
	c := fake.NewClientBuilder().WithScheme(types.Scheme).WithStatusSubresource(&v1beta1.PodENI{}).WithObjects(rec, node, pod).Build()
	m := &ReconcilePod{client: c, scheme: types.Scheme}
	if _, err := m.Reconcile(context.Background(), reconcile.Request{NamespacedName: k8stypes.NamespacedName{Namespace: "default", Name: "web-0"}}); err != nil {
		t.Fatal(err)
	}
	got := &v1beta1.PodENI{}
	if err := c.Get(context.Background(), k8stypes.NamespacedName{Namespace: "default", Name: "web-0"}, got); err != nil {
		t.Fatal(err)
	}
	if got.Status.Phase != v1beta1.ENIPhaseDetaching {
		t.Fatalf("the record is being re-bound for the previous pod instance (uid-old); the pod controller left it in phase %q instead of sending it to Detaching for the new instance to take over", got.Status.Phase)
	}
}
