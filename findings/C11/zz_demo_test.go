//go:build default_build

package pod

// Demonstration for C11 ("a pod with a fixed-IP allocation that is recreated under the same name gets the same
// interface and address back"): copy to /repo/pkg/controller/pod/ and run
//   go test -tags default_build -vet=off -count=1 -run TestVerifC11InitialRecordOfPreviousInstance ./pkg/controller/pod/
// The PodENI controller had attached the interfaces of web-0's record on node A but its status write (Bind) failed
// — a conflict with the collector's lastSeen touch is enough — so the record stayed in the initial phase.  web-0
// was then deleted and recreated on node B before the write was retried.  The pod controller only handled a
// foreign uid for Bind records: for the initial phase it requeued for ever, the PodENI controller kept failing to
// attach interfaces that are attached to node A, and the recreated pod never got its interface and address.
// Found by the PodENI world (monitor C11/rebind/fixed-record-not-rebound, thorough tier).

import (
	"context"
	"testing"

	corev1 "k8s.io/api/core/v1"
	metav1 "k8s.io/apimachinery/pkg/apis/meta/v1"
	k8stypes "k8s.io/apimachinery/pkg/types"
	"sigs.k8s.io/controller-runtime/pkg/client/fake"
	"sigs.k8s.io/controller-runtime/pkg/reconcile"

	"github.com/AliyunContainerService/terway/pkg/apis/network.alibabacloud.com/v1beta1"
	"github.com/AliyunContainerService/terway/types"
)

func TestVerifC11InitialRecordOfPreviousInstance(t *testing.T) {
	rec := &v1beta1.PodENI{
		ObjectMeta: metav1.ObjectMeta{Name: "web-0", Namespace: "default", Finalizers: []string{types.FinalizerPodENI},
			Annotations: map[string]string{types.PodUID: "uid-old"}},
		Spec: v1beta1.PodENISpec{Allocations: []v1beta1.Allocation{{
			ENI:            v1beta1.ENI{ID: "eni-1"},
			AllocationType: v1beta1.AllocationType{Type: v1beta1.IPAllocTypeFixed, ReleaseStrategy: v1beta1.ReleaseStrategyNever},
		}}},
		Status: v1beta1.PodENIStatus{Phase: v1beta1.ENIPhaseInitial},
	}
	node := &corev1.Node{ObjectMeta: metav1.ObjectMeta{Name: "node-b", Labels: map[string]string{
		corev1.LabelTopologyRegion: "cn-x", corev1.LabelTopologyZone: "zone-a", corev1.LabelInstanceTypeStable: "ecs.g7.large"}},
		Spec: corev1.NodeSpec{ProviderID: "cn-x.i-b"}}
	pod := &corev1.Pod{ObjectMeta: metav1.ObjectMeta{Name: "web-0", Namespace: "default", UID: "uid-new",
		Annotations: map[string]string{types.PodENI: "true"}},
		Spec:   corev1.PodSpec{NodeName: "node-b"},
		Status: corev1.PodStatus{Phase: corev1.PodRunning}}
	c := fake.NewClientBuilder().WithScheme(types.Scheme).WithStatusSubresource(&v1beta1.PodENI{}).WithObjects(rec, node, pod).Build()
	m := &ReconcilePod{client: c, scheme: types.Scheme}
	if _, err := m.Reconcile(context.Background(), reconcile.Request{NamespacedName: k8stypes.NamespacedName{Namespace: "default", Name: "web-0"}}); err != nil {
		t.Fatal(err)
	}
	got := &v1beta1.PodENI{}
	if err := c.Get(context.Background(), k8stypes.NamespacedName{Namespace: "default", Name: "web-0"}, got); err != nil {
		t.Fatal(err)
	}
	if got.Status.Phase != v1beta1.ENIPhaseDetaching {
		t.Fatalf("the record belongs to the previous pod instance (uid-old) and never got bound; the pod controller left it in phase %q instead of sending it to Detaching for the new instance to take over", got.Status.Phase)
	}
}
