package client

import "testing"

type recGen struct{ hashes map[string]int }

func (r *recGen) GenerateKey(h string) string { r.hashes[h]++; return "tok" }
func (r *recGen) PutBack(h, u string)         {}

// copy to /repo/pkg/aliyun/client/ and run: go test -tags default_build -run TestVerifDemoTagOrderHash ./pkg/aliyun/client/
func TestVerifDemoTagOrderHash(t *testing.T) {
	g := &recGen{hashes: map[string]int{}}
	for i := 0; i < 50; i++ {
		o := &CreateNetworkInterfaceOptions{NetworkInterfaceOptions: &NetworkInterfaceOptions{
			VSwitchID: "vsw-1", SecurityGroupIDs: []string{"sg-1"},
			Tags: map[string]string{"a": "1", "b": "2", "c": "3", "d": "4"},
		}}
		if _, _, err := o.Finish(g); err != nil {
			t.Fatal(err)
		}
	}
	if len(g.hashes) != 1 {
		t.Fatalf("same parameters hashed to %d different values: retry would not reuse the token", len(g.hashes))
	}
}
