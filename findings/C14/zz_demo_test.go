package ip

import "testing"

// copy to /repo/pkg/ip/ and run: go test -run TestVerifDemoGatewayLeadingZero ./pkg/ip/
func TestVerifDemoGatewayLeadingZero(t *testing.T) {
	for cidr, want := range map[string]string{
		"0.0.0.0/8":   "0.255.255.253",
		"0.1.0.0/16":  "0.1.255.253",
		"::/64":       "::ffff:ffff:ffff:fffd",
		"10.0.0.0/24": "10.0.0.253",
		"10.0.0.0/31": "",
	} {
		if got := DeriveGatewayIP(cidr); got != want {
			t.Errorf("DeriveGatewayIP(%s)=%q want %q", cidr, got, want)
		}
	}
}
