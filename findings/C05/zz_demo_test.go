package eni

// Demonstration for C05 / C01 ("every pod whose ADD had been acknowledged still owns the same address,
// that address is not offered to any other pod"): copy to /repo/pkg/eni/ and run
//   go test -tags default_build -vet=off -count=1 -run TestVerifC05FailedRepeatKeepsHeldAddress ./pkg/eni/
// Before the fix a repeated request for a pod that already held an address, cancelled while it was being
// served, released that address (Local.commit's ctx.Done branch); the next pod was then given it while the
// first pod's record and sandbox still used it.

import (
	"context"
	"net/netip"
	"testing"
	"time"

	"github.com/AliyunContainerService/terway/types/daemon"
)

func TestVerifC05FailedRepeatKeepsHeldAddress(t *testing.T) {
	l := NewLocal(&daemon.ENI{ID: "eni-1"}, "secondary", nil, &daemon.PoolConfig{EnableIPv4: true, MaxIPPerENI: 1})
	l.status = statusInUse
	ip := NewValidIP(netip.MustParseAddr("10.0.0.2"), false)
	l.ipv4.Add(ip)
	m := NewManager(0, 0, 1, 0, []NetworkInterface{l}, "", nil)
	cni := &daemon.CNI{PodID: "ns/p"}
	// the acknowledged ADD
	res, err := m.Allocate(context.Background(), cni, &AllocRequest{ResourceRequests: []ResourceRequest{NewLocalIPRequest()}})
	if err != nil || len(res) != 1 {
		t.Fatalf("first Allocate: %v %v", res, err)
	}
	for i := 0; i < 2000; i++ {
		// the repeated request (kubelet replays ADD); its context ends while it is served
		ctx, cancel := context.WithCancel(context.Background())
		go func(d time.Duration) {
			time.Sleep(d)
			cancel()
		}(time.Duration(i%40) * time.Microsecond)
		req := NewLocalIPRequest()
		req.NetworkInterfaceID = "eni-1"
		_, err := m.Allocate(ctx, cni, &AllocRequest{ResourceRequests: []ResourceRequest{req}})
		cancel()
		// AllocIP rolls back only what the stored record does not name: nothing here
		_ = err
		time.Sleep(200 * time.Microsecond)
		deadline := time.Now().Add(time.Second)
		for {
			l.cond.L.Lock()
			owner := ip.podID
			l.cond.L.Unlock()
			if owner == "ns/p" {
				break
			}
			if time.Now().After(deadline) {
				t.Fatalf("round %d: the address of the acknowledged ADD is now bound to %q: another pod can be given it", i, owner)
			}
			time.Sleep(100 * time.Microsecond)
		}
	}
}
