package vswitch

import (
	"context"
	"reflect"
	"testing"
)

// copy to /repo/pkg/vswitch/ and run: go test -tags default_build -run TestVerifDemoRandomKeepsCallerSlice ./pkg/vswitch/
func TestVerifDemoRandomKeepsCallerSlice(t *testing.T) {
	p, _ := NewSwitchPool(100, "10m")
	ids := []string{"a", "b", "c", "d", "e", "f"}
	for _, id := range ids {
		p.Add(&Switch{ID: id, Zone: "z", AvailableIPCount: 5})
	}
	orig := append([]string(nil), ids...)
	for i := 0; i < 30; i++ {
		if _, err := p.GetOne(context.Background(), nil, "z", ids, &SelectOptions{VSwitchSelectPolicy: VSwitchSelectionPolicyRandom}); err != nil {
			t.Fatal(err)
		}
	}
	if !reflect.DeepEqual(ids, orig) {
		t.Fatalf("caller slice reordered: %v", ids)
	}
}
