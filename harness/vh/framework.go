// vh: the Go side of the correspondence check.
//
// Every property registers a Prop.  Run generates cases (lists of protocol lines), executes them on
// the real terway code in-process, evaluates the Go property monitors on the implementation's own
// outputs, pipes the same lines to the Lean model driver (`drv`) and diffs the two output streams.
// The result (counts, samples, disagreements, monitor violations) is written as JSON for bin/check.
package main

import (
	"bufio"
	"bytes"
	"crypto/sha256"
	"encoding/hex"
	"encoding/json"
	"flag"
	"fmt"
	"os"
	"os/exec"
	"sort"
	"strings"
	"time"
)

// Line is one protocol line: the operation and the implementation's canonical outcome.
type Line struct {
	Op   string `json:"op"`
	Impl string `json:"impl"`
}

// Case is one unit of comparison (a single call for pure cores, an op sequence for stateful ones).
type Case struct {
	Lines      []Line `json:"lines"`
	Nontrivial bool   `json:"nontrivial"`
	Note       string `json:"note,omitempty"`
}

// Violation is a failed property monitor on the implementation (independent of the model).
type Violation struct {
	Key   string   `json:"key"`  // canonical identity of the failing input / call site / history
	What  string   `json:"what"` // human readable
	Lines []string `json:"lines"`
}

type Disagreement struct {
	Case  int    `json:"case"`
	Line  int    `json:"line"`
	Op    string `json:"op"`
	Impl  string `json:"impl"`
	Model string `json:"model"`
}

type Ctx struct {
	Tier   string
	Seed   uint64
	R      *Rng
	Cases  []Case
	Viol   []Violation
	Dist   map[string]int
	Extra  map[string]any
	Replay bool
}

func (c *Ctx) Thorough() bool { return c.Tier == "thorough" }

// Scale returns q in the quick tier and t in the thorough tier.
func (c *Ctx) Scale(q, t int) int {
	if c.Thorough() {
		return t
	}
	return q
}
func (c *Ctx) Count(label string) { c.Dist[label]++ }
func (c *Ctx) Add(cs Case)        { c.Cases = append(c.Cases, cs) }
func (c *Ctx) One(op, impl string, nontrivial bool) {
	c.Cases = append(c.Cases, Case{Lines: []Line{{op, impl}}, Nontrivial: nontrivial})
}
func (c *Ctx) Violate(key, what string, lines ...string) {
	for _, v := range c.Viol {
		if v.Key == key {
			return
		}
	}
	c.Viol = append(c.Viol, Violation{Key: key, What: what, Lines: lines})
}

// Prop is one property's harness.
type Prop struct {
	ID string
	// Run generates and executes cases on the implementation.
	Run func(c *Ctx)
	// Exec re-executes a list of op lines on the implementation (replay); returns outcomes and runs monitors.
	Exec func(c *Ctx, ops []string) []string
	// Exec2 is Exec for harnesses whose protocol lines carry observations: it also returns the lines
	// as re-observed on this run.
	Exec2 func(c *Ctx, ops []string) ([]string, []string)
	// Corpus lines (op lists) that always run first.
	Corpus [][]string
}

var props = map[string]*Prop{}

func register(p *Prop) { props[p.ID] = p }

type Result struct {
	Property      string         `json:"property"`
	Tier          string         `json:"tier"`
	Seed          uint64         `json:"seed"`
	Evaluations   int            `json:"evaluations"`
	Lines         int            `json:"lines"`
	DistinctNT    int            `json:"distinct_nontrivial"`
	Samples       []Case         `json:"samples"`
	Distribution  map[string]int `json:"distribution"`
	Disagreements []Disagreement `json:"disagreements"`
	Violations    []Violation    `json:"violations"`
	AllCases      []Case         `json:"all_cases,omitempty"`
	ModelRan      bool           `json:"model_ran"`
	ModelError    string         `json:"model_error,omitempty"`
	Extra         map[string]any `json:"extra,omitempty"`
	WallS         float64        `json:"wall_s"`
}

func runModel(drv string, cases []Case) ([]string, error) {
	var in bytes.Buffer
	n := 0
	for _, cs := range cases {
		for _, l := range cs.Lines {
			if strings.ContainsAny(l.Op, "\n\r") {
				return nil, fmt.Errorf("op contains newline: %q", l.Op)
			}
			in.WriteString(l.Op)
			in.WriteByte('\n')
			n++
		}
	}
	cmd := exec.Command(drv)
	cmd.Stdin = &in
	var out, errb bytes.Buffer
	cmd.Stdout = &out
	cmd.Stderr = &errb
	if err := cmd.Run(); err != nil {
		return nil, fmt.Errorf("drv: %v: %s", err, errb.String())
	}
	var res []string
	sc := bufio.NewScanner(&out)
	sc.Buffer(make([]byte, 1<<20), 1<<26)
	for sc.Scan() {
		res = append(res, sc.Text())
	}
	if len(res) != n {
		return nil, fmt.Errorf("drv printed %d lines for %d ops", len(res), n)
	}
	return res, nil
}

func main() {
	if len(os.Args) < 2 {
		fmt.Fprintln(os.Stderr, "usage: vh <property> [flags]")
		os.Exit(2)
	}
	id := os.Args[1]
	fs := flag.NewFlagSet("vh", flag.ExitOnError)
	tier := fs.String("tier", "quick", "quick|thorough")
	seed := fs.Uint64("seed", 1, "PRNG seed")
	drv := fs.String("drv", "", "path to the Lean model driver (empty: monitors only)")
	out := fs.String("out", "", "result json path")
	replay := fs.String("replay", "", "replay file (one op per line; text after ' => ' is ignored)")
	_ = fs.Parse(os.Args[2:])
	p, ok := props[id]
	if !ok {
		fmt.Fprintf(os.Stderr, "unknown property %s\n", id)
		os.Exit(2)
	}
	start := time.Now()
	c := &Ctx{Tier: *tier, Seed: *seed, R: NewRng(*seed), Dist: map[string]int{}, Extra: map[string]any{}}
	if *replay != "" {
		c.Replay = true
		ops := readOps(*replay)
		if p.Exec == nil && p.Exec2 == nil {
			fmt.Fprintln(os.Stderr, "property has no op-level replay")
			os.Exit(2)
		}
		var outs []string
		if p.Exec2 != nil {
			ops, outs = p.Exec2(c, ops)
		} else {
			outs = p.Exec(c, ops)
		}
		cs := Case{Nontrivial: true}
		for i, op := range ops {
			cs.Lines = append(cs.Lines, Line{op, outs[i]})
		}
		c.Add(cs)
	} else {
		for _, ops := range p.Corpus {
			if p.Exec2 != nil {
				ops2, outs := p.Exec2(c, ops)
				cs := Case{Nontrivial: true, Note: "corpus"}
				for i, op := range ops2 {
					cs.Lines = append(cs.Lines, Line{op, outs[i]})
				}
				c.Add(cs)
			} else if p.Exec != nil {
				outs := p.Exec(c, ops)
				cs := Case{Nontrivial: true, Note: "corpus"}
				for i, op := range ops {
					cs.Lines = append(cs.Lines, Line{op, outs[i]})
				}
				c.Add(cs)
			}
		}
		p.Run(c)
	}
	res := Result{Property: id, Tier: *tier, Seed: *seed, Distribution: c.Dist, Violations: c.Viol, Extra: c.Extra}
	res.Evaluations = len(c.Cases)
	distinct := map[string]bool{}
	for _, cs := range c.Cases {
		res.Lines += len(cs.Lines)
		if cs.Nontrivial {
			h := sha256.New()
			for _, l := range cs.Lines {
				h.Write([]byte(l.Op))
				h.Write([]byte{0})
			}
			distinct[hex.EncodeToString(h.Sum(nil)[:12])] = true
		}
	}
	res.DistinctNT = len(distinct)
	if strings.HasSuffix(id, "-child") {
		res.AllCases = c.Cases
	}
	// samples: first, middle, last few
	if n := len(c.Cases); n > 0 {
		idx := []int{0, n / 4, n / 2, 3 * n / 4, n - 1}
		seen := map[int]bool{}
		for _, i := range idx {
			if !seen[i] {
				seen[i] = true
				res.Samples = append(res.Samples, c.Cases[i])
			}
		}
	}
	if *drv != "" {
		outs, err := runModel(*drv, c.Cases)
		if err != nil {
			res.ModelError = err.Error()
		} else {
			res.ModelRan = true
			k := 0
			for ci, cs := range c.Cases {
				for li, l := range cs.Lines {
					if outs[k] != l.Impl {
						if len(res.Disagreements) < 50 {
							res.Disagreements = append(res.Disagreements, Disagreement{ci, li, l.Op, l.Impl, outs[k]})
						}
						c.Dist["disagreements"]++
					}
					k++
				}
			}
		}
	}
	if dir := os.Getenv("VH_DEBUG_CASES"); dir != "" {
		seen := map[int]bool{}
		for _, d := range res.Disagreements {
			if seen[d.Case] {
				continue
			}
			seen[d.Case] = true
			var b strings.Builder
			fmt.Fprintf(&b, "# disagreement at line %d: model=%s\n", d.Line, d.Model)
			for _, l := range c.Cases[d.Case].Lines {
				b.WriteString(l.Op + " => " + l.Impl + "\n")
			}
			_ = os.WriteFile(fmt.Sprintf("%s/case-%d-%d.txt", dir, *seed, d.Case), []byte(b.String()), 0o644)
		}
	}
	sort.Slice(res.Violations, func(i, j int) bool { return res.Violations[i].Key < res.Violations[j].Key })
	res.WallS = time.Since(start).Seconds()
	b, _ := json.MarshalIndent(res, "", " ")
	if *out != "" {
		if err := os.WriteFile(*out, b, 0o644); err != nil {
			fmt.Fprintln(os.Stderr, err)
			os.Exit(2)
		}
	} else {
		os.Stdout.Write(b)
	}
	fmt.Fprintf(os.Stderr, "vh %s: %d cases, %d lines, %d distinct non-trivial, %d disagreements, %d monitor violations, %.1fs\n",
		id, res.Evaluations, res.Lines, res.DistinctNT, c.Dist["disagreements"], len(res.Violations), res.WallS)
}

func readOps(path string) []string {
	b, err := os.ReadFile(path)
	if err != nil {
		fmt.Fprintln(os.Stderr, err)
		os.Exit(2)
	}
	var ops []string
	for _, l := range strings.Split(string(b), "\n") {
		l = strings.TrimRight(l, "\r")
		if l == "" || strings.HasPrefix(l, "#") {
			continue
		}
		if i := strings.Index(l, " => "); i >= 0 {
			l = l[:i]
		}
		ops = append(ops, l)
	}
	return ops
}

// pureExec builds an Exec from a single-op executor.
func pureExec(f func(c *Ctx, op string) string) func(c *Ctx, ops []string) []string {
	return func(c *Ctx, ops []string) []string {
		r := make([]string, len(ops))
		for i, op := range ops {
			r[i] = f(c, op)
		}
		return r
	}
}

// protect runs f and maps a panic to the outcome "panic".
func protect(f func() string) (out string) {
	defer func() {
		if r := recover(); r != nil {
			out = "panic"
		}
	}()
	return f()
}

func hexStr(s string) string {
	if s == "" {
		return "-"
	}
	return hex.EncodeToString([]byte(s))
}
func unhexStr(s string) string {
	if s == "-" {
		return ""
	}
	b, err := hex.DecodeString(s)
	if err != nil {
		return ""
	}
	return string(b)
}
