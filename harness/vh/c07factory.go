package main

import (
	"bytes"
	"context"
	"encoding/json"
	"fmt"
	"io"
	"net/http"
	"net/http/httptest"
	"net/netip"
	"net/url"
	"sort"
	"strconv"
	"strings"
	"sync"
	"time"

	"github.com/aliyun/alibaba-cloud-sdk-go/services/ecs"
	"github.com/aliyun/alibaba-cloud-sdk-go/services/vpc"
	"k8s.io/apimachinery/pkg/util/wait"

	"github.com/AliyunContainerService/terway/pkg/aliyun/client"
	"github.com/AliyunContainerService/terway/pkg/aliyun/metadata"
	"github.com/AliyunContainerService/terway/pkg/backoff"
	factoryaliyun "github.com/AliyunContainerService/terway/pkg/factory/aliyun"
	vswpool "github.com/AliyunContainerService/terway/pkg/vswitch"
	"github.com/AliyunContainerService/terway/types/daemon"
)

// C07 below the pool: the REAL factory (pkg/factory/aliyun) over the real OpenAPI wrappers (SDK transport = the harness: a
// small stateful ECS) and the real metadata client (MetadataBase / TokenURL point at a loopback server of the harness).
//
//	fa.assign <fam 4|6> <n> <apiFail 0|1> <metaShows 0|1>
//
// apiFail: the assign call is refused (HTTP 400, no effect); metaShows = 0: the call took effect but the instance metadata
// never lists the new addresses, so the factory's wait runs into its deadline ("error after effect").
// Output: ret=<addresses returned> err=<0|1> cloud+=<addresses the cloud added>.

type faCloud struct {
	mu      sync.Mutex
	ips     map[string][]string          // mac -> addresses the cloud has assigned (both families)
	shown   map[string]bool              // mac -> metadata lists what the cloud has
	fail    map[string]bool              // eni -> the next assign is refused
	types   map[string]string            // eni -> S | T | R as DescribeNetworkInterfaces reports it (fa.attached)
	meta    map[string]map[string]string // mac -> leaf -> what the metadata server answers (nc.meta)
	creates map[string][]string          // case tag (sent as ResourceGroupId) -> vSwitch of every CreateNetworkInterface request (fa.exhaust)
	next    int
}

var (
	faOnce  sync.Once
	faState = &faCloud{ips: map[string][]string{}, shown: map[string]bool{}, fail: map[string]bool{}}
)

func faMac(eni string) string {
	h := hashStr(eni)
	return fmt.Sprintf("00:16:3e:%02x:%02x:%02x", (h>>16)&0xff, (h>>8)&0xff, h&0xff)
}

func hashStr(s string) int {
	h := 0
	for _, c := range s {
		h = h*131 + int(c)
	}
	if h < 0 {
		h = -h
	}
	return h
}

func faStartMetadata() {
	srv := httptest.NewServer(http.HandlerFunc(func(w http.ResponseWriter, r *http.Request) {
		if strings.HasSuffix(r.URL.Path, "/api/token") {
			_, _ = w.Write([]byte("tok"))
			return
		}
		// …/network/interfaces/macs/<mac>/private-ipv4s | ipv6s
		p := strings.Split(strings.Trim(r.URL.Path, "/"), "/")
		if len(p) < 2 {
			w.WriteHeader(404)
			return
		}
		mac, leaf := p[len(p)-2], p[len(p)-1]
		faState.mu.Lock()
		if m, ok := faState.meta[mac]; ok {
			v, has := m[leaf]
			faState.mu.Unlock()
			if !has {
				w.WriteHeader(404)
				return
			}
			_, _ = w.Write([]byte(v))
			return
		}
		var out []string
		if faState.shown[mac] {
			for _, ip := range faState.ips[mac] {
				if strings.Contains(ip, ":") == (leaf == "ipv6s") {
					out = append(out, ip)
				}
			}
		}
		faState.mu.Unlock()
		switch leaf {
		case "private-ipv4s":
			b, _ := json.Marshal(append([]string{}, out...))
			_, _ = w.Write(b)
		case "ipv6s":
			if len(out) == 0 {
				w.WriteHeader(404)
				return
			}
			_, _ = w.Write([]byte("[" + strings.Join(out, ", ") + "]"))
		default:
			w.WriteHeader(404)
		}
	}))
	metadata.MetadataBase = srv.URL + "/latest/meta-data/"
	metadata.TokenURL = srv.URL + "/latest/api/token"
}

type faRT struct{}

func (faRT) RoundTrip(req *http.Request) (*http.Response, error) {
	q := req.URL.Query()
	if req.Body != nil {
		b, _ := io.ReadAll(req.Body)
		if f, err := url.ParseQuery(string(b)); err == nil {
			for k, v := range f {
				if len(v) > 0 && q.Get(k) == "" {
					q.Set(k, v[0])
				}
			}
		}
	}
	eni := q.Get("NetworkInterfaceId")
	status, body := 200, ""
	faState.mu.Lock()
	switch action := q.Get("Action"); {
	case action == "DescribeVSwitches":
		// fa.exhaust: every vSwitch says it has addresses left …
		body = `{"RequestId":"R-1","TotalCount":1,"PageNumber":1,"PageSize":10,"VSwitches":{"VSwitch":[{"VSwitchId":"` + q.Get("VSwitchId") + `","ZoneId":"z1","AvailableIpAddressCount":10,"CidrBlock":"10.0.0.0/24","Ipv6CidrBlock":"","Status":"Available"}]}}`
	case action == "CreateNetworkInterface":
		// … and every create in it is refused as exhausted
		faState.creates[q.Get("ResourceGroupId")] = append(faState.creates[q.Get("ResourceGroupId")], q.Get("VSwitchId"))
		status, body = 400, `{"Code":"InvalidVSwitchId.IpNotEnough","Message":"injected","RequestId":"R-1","HostId":"h"}`
	case action == "DescribeNetworkInterfaces":
		// the interfaces asked for by id (NetworkInterfaceId.N), with the type / traffic mode the case gave them
		var sets []string
		for k, v := range q {
			if strings.HasPrefix(k, "NetworkInterfaceId.") && len(v) > 0 {
				if ty, ok := faState.types[v[0]]; ok {
					typ, mode := "Secondary", "Standard"
					switch ty {
					case "T":
						typ = "Trunk"
					case "R":
						mode = "HighPerformance"
					}
					sets = append(sets, `{"NetworkInterfaceId":"`+v[0]+`","Type":"`+typ+`","NetworkInterfaceTrafficMode":"`+mode+`","Status":"InUse","MacAddress":"`+faMac(v[0])+`","PrivateIpSets":{"PrivateIpSet":[]},"Ipv6Sets":{"Ipv6Set":[]},"Tags":{"Tag":[]},"SecurityGroupIds":{"SecurityGroupId":[]}}`)
				}
			}
		}
		sort.Strings(sets)
		body = `{"RequestId":"R-1","NextToken":"","TotalCount":` + strconv.Itoa(len(sets)) + `,"NetworkInterfaceSets":{"NetworkInterfaceSet":[` + strings.Join(sets, ",") + `]}}`
	case faState.fail[eni]:
		delete(faState.fail, eni)
		status, body = 400, `{"Code":"InvalidParameter","Message":"injected","RequestId":"R-1","HostId":"h"}`
	case action == "AssignPrivateIpAddresses":
		n, _ := strconv.Atoi(q.Get("SecondaryPrivateIpAddressCount"))
		var got []string
		for i := 0; i < n; i++ {
			faState.next++
			got = append(got, fmt.Sprintf("10.9.%d.%d", faState.next/250, 1+faState.next%250))
		}
		mac := faMac(eni)
		faState.ips[mac] = append(faState.ips[mac], got...)
		b, _ := json.Marshal(got)
		body = `{"RequestId":"R-1","AssignedPrivateIpAddressesSet":{"NetworkInterfaceId":"` + eni + `","PrivateIpSet":{"PrivateIpAddress":` + string(b) + `}}}`
	case action == "AssignIpv6Addresses":
		n, _ := strconv.Atoi(q.Get("Ipv6AddressCount"))
		var got []string
		for i := 0; i < n; i++ {
			faState.next++
			got = append(got, fmt.Sprintf("fd09::%x", faState.next))
		}
		mac := faMac(eni)
		faState.ips[mac] = append(faState.ips[mac], got...)
		b, _ := json.Marshal(got)
		body = `{"RequestId":"R-1","NetworkInterfaceId":"` + eni + `","Ipv6Sets":{"Ipv6Address":` + string(b) + `}}`
	default:
		status, body = 400, `{"Code":"UnknownAction","Message":"`+action+`","RequestId":"R-1"}`
	}
	faState.mu.Unlock()
	return &http.Response{StatusCode: status, Status: strconv.Itoa(status), Proto: "HTTP/1.1", ProtoMajor: 1, ProtoMinor: 1,
		Header: http.Header{"Content-Type": []string{"application/json"}}, Body: io.NopCloser(bytes.NewBufferString(body)), Request: req}, nil
}

func faNewAPI() (*client.OpenAPI, error) {
	e, err := ecs.NewClientWithAccessKey("cn-hangzhou", "ak", "sk")
	if err != nil {
		return nil, err
	}
	e.SetTransport(faRT{})
	e.Domain = "ecs.invalid"
	lim := map[string]int{"": 1 << 30, "AssignPrivateIpAddresses": 1 << 30, "AssignIpv6Addresses": 1 << 30}
	return client.New(&c16ClientSet{e: e}, client.FromMap(lim))
}

// faExec runs the ops of one case concurrently (each op has its own interface; a successful assign waits a second for the
// metadata poll, a failing wait runs into the 1.5 s deadline of the factory's context).
func faExec(c *Ctx, ops []string) []string {
	faOnce.Do(faStartMetadata)
	outs := make([]string, len(ops))
	var wg sync.WaitGroup
	for i, op := range ops {
		wg.Add(1)
		go func(i int, op string) {
			defer wg.Done()
			outs[i] = protect(func() string {
				f := strings.Fields(op)
				if len(f) > 0 && f[0] == "fa.attached" {
					return faAttached(c, op)
				}
				if len(f) > 0 && f[0] == "fa.exhaust" {
					return faExhaust(c, op)
				}
				if len(f) != 5 || f[0] != "fa.assign" || (f[1] != "4" && f[1] != "6") {
					return "bad-op"
				}
				n, err := strconv.Atoi(f[2])
				if err != nil || n < 1 || n > 8 {
					return "bad-op"
				}
				api, err := faNewAPI()
				if err != nil {
					return "err-harness"
				}
				eni := fmt.Sprintf("eni-%s-%d-%d-%d", c.Tier, c.Seed, i, time.Now().UnixNano())
				mac := faMac(eni)
				faState.mu.Lock()
				faState.shown[mac] = f[4] == "1"
				if f[3] == "1" {
					faState.fail[eni] = true
				}
				before := len(faState.ips[mac])
				faState.mu.Unlock()
				ctx, cancel := context.WithTimeout(context.Background(), 1500*time.Millisecond)
				defer cancel()
				fac := factoryaliyun.NewAliyun(ctx, api, nil, nil, &daemon.ENIConfig{EnableIPv4: true, EnableIPv6: true})
				var ret []netip.Addr
				if f[1] == "4" {
					ret, err = fac.AssignNIPv4(eni, n, mac)
				} else {
					ret, err = fac.AssignNIPv6(eni, n, mac)
				}
				faState.mu.Lock()
				added := append([]string(nil), faState.ips[mac][before:]...)
				faState.mu.Unlock()
				// property-level: everything the cloud assigned on this call is in what the factory returns - with or without an
				// error - so that the pool can track it or hand it back
				have := map[string]bool{}
				for _, a := range ret {
					have[a.String()] = true
				}
				for _, a := range added {
					pa, _ := netip.ParseAddr(a)
					if !have[pa.String()] {
						c.Violate("C07/factory/assigned-not-reported", fmt.Sprintf("the cloud assigned %v to the interface, the factory returned %v (err=%v): %s is neither tracked nor handed back - an orphan", added, ret, err != nil, a), op)
						break
					}
				}
				return fmt.Sprintf("ret=%d err=%s cloud+=%d", len(ret), b01(err != nil), len(added))
			})
		}(i, op)
	}
	wg.Wait()
	return outs
}

// faExhaust: `fa.exhaust <n 1..3>` - the real factory's CreateNetworkInterface over the real vSwitch pool (cache ttl 10 m) and the
// real OpenAPI wrappers: n candidate vSwitches which all say they have addresses left while every create in them is refused as
// exhausted (InvalidVSwitchId.IpNotEnough).  Two orders in a row.  Output: the vSwitches the create requests of each order named.
func faExhaust(c *Ctx, op string) string {
	f := strings.Fields(op)
	if len(f) != 2 {
		return "bad-op"
	}
	n, err := strconv.Atoi(f[1])
	if err != nil || n < 1 || n > 3 {
		return "bad-op"
	}
	faBackoffOnce.Do(func() {
		backoff.OverrideBackoff(map[string]wait.Backoff{backoff.ENICreate: {Duration: 2 * time.Millisecond, Factor: 1, Steps: 5}})
	})
	e, err := ecs.NewClientWithAccessKey("cn-hangzhou", "ak", "sk")
	if err != nil {
		return "err-harness"
	}
	v, err := vpc.NewClientWithAccessKey("cn-hangzhou", "ak", "sk")
	if err != nil {
		return "err-harness"
	}
	e.SetTransport(faRT{})
	v.SetTransport(faRT{})
	e.Domain, v.Domain = "ecs.invalid", "vpc.invalid"
	api, err := client.New(&c16ClientSet{e: e, v: v}, client.FromMap(map[string]int{"": 1 << 30}))
	if err != nil {
		return "err-harness"
	}
	pool, err := vswpool.NewSwitchPool(100, "10m")
	if err != nil {
		return "err-harness"
	}
	tag := fmt.Sprintf("rg-%d-%d", c.Seed, time.Now().UnixNano())
	var ids []string
	for i := 0; i < n; i++ {
		ids = append(ids, fmt.Sprintf("vsw-%s-%d", tag, i))
	}
	faState.mu.Lock()
	if faState.creates == nil {
		faState.creates = map[string][]string{}
	}
	faState.mu.Unlock()
	defer func() {
		faState.mu.Lock()
		delete(faState.creates, tag)
		faState.mu.Unlock()
	}()
	ctx, cancel := context.WithTimeout(context.Background(), 5*time.Second)
	defer cancel()
	fac := factoryaliyun.NewAliyun(ctx, api, nil, pool, &daemon.ENIConfig{EnableIPv4: true, ZoneID: "z1", VSwitchOptions: ids, ResourceGroupID: tag, SecurityGroupIDs: []string{"sg-1"}, InstanceID: "i-1"})
	var outs []string
	seen := 0
	blocked := map[string]bool{}
	for order := 1; order <= 2; order++ {
		_, _, _, err := fac.CreateNetworkInterface(1, 0, "secondary")
		if err == nil {
			return "created"
		}
		faState.mu.Lock()
		all := append([]string(nil), faState.creates[tag]...)
		faState.mu.Unlock()
		var idx []string
		for _, id := range all[seen:] {
			i := strings.TrimPrefix(id, "vsw-"+tag+"-")
			idx = append(idx, i)
			// property-level (C17): a vSwitch the cloud reported exhausted is not chosen again while its cache entry lives
			if blocked[id] {
				c.Violate("C17/factory/exhausted-chosen-again", fmt.Sprintf("vSwitch %s was reported exhausted by the cloud and is named by another create request within the cache ttl (order %d)", i, order), op)
			}
			blocked[id] = true
		}
		seen = len(all)
		if len(idx) == 0 {
			idx = []string{"-"}
		}
		outs = append(outs, strings.Join(idx, ","))
	}
	return strings.Join(outs, " ")
}

var faBackoffOnce sync.Once

func faExhaustRun(c *Ctx, n int) {
	for i := 0; i < n; i++ {
		op := fmt.Sprintf("fa.exhaust %d", 1+c.R.Intn(3))
		c.One(op, faExhaust(c, op), true)
		c.Count("factory-create-exhausted")
	}
}

// faGetter stands for the metadata listing of the interfaces attached at start-up
type faGetter struct{ enis []*daemon.ENI }

func (g faGetter) GetENIPrivateAddressesByMACv2(mac string) ([]netip.Addr, error) { return nil, nil }
func (g faGetter) GetENIPrivateIPv6AddressesByMACv2(mac string) ([]netip.Addr, error) {
	return nil, nil
}
func (g faGetter) GetENIs(containsMainENI bool) ([]*daemon.ENI, error) { return g.enis, nil }

// faAttached: `fa.attached <trunking 0|1> <erdma 0|1> <tags 0|1> <preferred trunk index | -> <types S|T|R,...>` - the real factory's
// listing of the interfaces found attached at daemon start-up (GetAttachedNetworkInterface): which of them the pool will treat
// as the trunk / an RDMA interface (and therefore never dispose).  Output: the listed interfaces in id order, `i:<trunk><erdma>`.
func faAttached(c *Ctx, op string) string {
	f := strings.Fields(op)
	if len(f) != 6 {
		return "bad-op"
	}
	tys := strings.Split(f[5], ",")
	if len(tys) == 0 || len(tys) > 6 {
		return "bad-op"
	}
	api, err := faNewAPI()
	if err != nil {
		return "err-harness"
	}
	prefix := fmt.Sprintf("eni-att-%d-%d-", c.Seed, time.Now().UnixNano())
	var enis []*daemon.ENI
	faState.mu.Lock()
	if faState.types == nil {
		faState.types = map[string]string{}
	}
	for i, ty := range tys {
		if ty != "S" && ty != "T" && ty != "R" {
			faState.mu.Unlock()
			return "bad-op"
		}
		id := prefix + strconv.Itoa(i)
		faState.types[id] = ty
		enis = append(enis, &daemon.ENI{ID: id, MAC: faMac(id)})
	}
	faState.mu.Unlock()
	defer func() {
		faState.mu.Lock()
		for _, e := range enis {
			delete(faState.types, e.ID)
		}
		faState.mu.Unlock()
	}()
	cfg := &daemon.ENIConfig{EnableIPv4: true}
	if f[1] == "1" {
		daemon.EnableFeature(&cfg.EniTypeAttr, daemon.FeatTrunk)
	}
	if f[2] == "1" {
		daemon.EnableFeature(&cfg.EniTypeAttr, daemon.FeatERDMA)
	}
	if f[3] == "1" {
		cfg.ENITags = map[string]string{"k": "v"}
	}
	preferred := ""
	if f[4] != "-" {
		i, err := strconv.Atoi(f[4])
		if err != nil || i < 0 || i >= len(enis) {
			return "bad-op"
		}
		preferred = enis[i].ID
	}
	ctx, cancel := context.WithTimeout(context.Background(), 3*time.Second)
	defer cancel()
	fac := factoryaliyun.NewAliyun(ctx, api, faGetter{enis}, nil, cfg)
	got, err := fac.GetAttachedNetworkInterface(preferred)
	if err != nil {
		return "err"
	}
	var out []string
	for _, e := range got {
		i := strings.TrimPrefix(e.ID, prefix)
		out = append(out, i+":"+b01(e.Trunk)+b01(e.ERdma))
		// property-level (C06: the pool never deletes the trunk or an RDMA interface - it knows them by these flags): whenever the
		// cloud was asked, a Trunk-type interface is flagged as the trunk and an RDMA one as RDMA
		// (the cloud is asked while a type feature is unresolved - trunking without a preferred trunk among the interfaces, ERDMA - or
		// interface tags are configured; without the question only the preferred trunk is known)
		asked := (f[1] == "1" && preferred == "") || f[2] == "1" || f[3] == "1"
		if n, err := strconv.Atoi(i); err == nil && n < len(tys) && asked {
			if (tys[n] == "T") != e.Trunk || (tys[n] == "R") != e.ERdma {
				c.Violate("C06/factory/attached-type-flags", fmt.Sprintf("interface %d is of type %s in the cloud, the factory lists it with trunk=%v erdma=%v: the pool would treat it as an ordinary secondary interface", n, tys[n], e.Trunk, e.ERdma), op)
			}
		}
	}
	sort.Strings(out)
	if len(out) == 0 {
		return "-"
	}
	return strings.Join(out, ",")
}

func faAttachedRun(c *Ctx, n int) {
	r := c.R
	for i := 0; i < n; i++ {
		k := 1 + r.Intn(4)
		var tys []string
		for j := 0; j < k; j++ {
			tys = append(tys, Pick(r, []string{"S", "S", "T", "T", "R"}))
		}
		pref := "-"
		if r.Chance(50) {
			pref = strconv.Itoa(r.Intn(k))
		}
		op := fmt.Sprintf("fa.attached %s %s %s %s %s", b01(r.Chance(60)), b01(r.Chance(30)), b01(r.Chance(50)), pref, strings.Join(tys, ","))
		c.One(op, faAttached(c, op), strings.Contains(op, "T"))
		c.Count("factory-attached")
	}
}

func faRun(c *Ctx, n int) {
	r := c.R
	var ops []string
	for i := 0; i < n; i++ {
		ops = append(ops, fmt.Sprintf("fa.assign %s %d %s %s", Pick(r, []string{"4", "6"}), 1+r.Intn(4), b01(r.Chance(25)), b01(r.Chance(60))))
	}
	outs := faExec(c, ops)
	for i, op := range ops {
		c.One(op, outs[i], strings.HasSuffix(op, " 0 0"))
		c.Count("factory-assign")
	}
}
