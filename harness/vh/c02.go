package main

// C02 / C03 / C08, function level: the REAL record functions of the cluster IPAM controller
// (pkg/controller/multi-ip/node: buildIPMap + releasePodNotFound, assignIPFromLocalPool, getEniOptions +
// assignEniWithOptions, adjustPool + releaseUnUsedIP) on generated per-node records, pods and NodeRuntime
// objects, compared with the Lean relations of Model/Ipam.lean, plus Go monitors on the outcomes.

import (
	"context"
	"fmt"
	corev1 "k8s.io/api/core/v1"
	"k8s.io/apimachinery/pkg/api/resource"
	k8stypes "k8s.io/apimachinery/pkg/types"
	"sigs.k8s.io/controller-runtime/pkg/client"
	"sort"
	"strconv"
	"strings"
	"time"

	metav1 "k8s.io/apimachinery/pkg/apis/meta/v1"
	"sigs.k8s.io/controller-runtime/pkg/client/fake"

	networkv1beta1 "github.com/AliyunContainerService/terway/pkg/apis/network.alibabacloud.com/v1beta1"
	ipamnode "github.com/AliyunContainerService/terway/pkg/controller/multi-ip/node"
	terwayTypes "github.com/AliyunContainerService/terway/types"
)

func init() {
	for _, id := range []string{"C02", "C03", "C08"} {
		id := id
		register(&Prop{ID: id,
			Run: func(c *Ctx) {
				ipamRun(c, id)
				if id == "C03" {
					// the node agent's side of the protocol
					runDaemonWorld(c, "C03", nil)
					// … and what it writes into the NodeRuntime object (agent.go)
					agRun(c, c.Scale(150, 3000))
				}
				// the closed loop: the real Reconcile against a fake cloud (monitors)
				runIpamLoops(c, id)
				if id == "C08" {
					// convergence needs a vSwitch reported exhausted to come back once its cache entry expires: the shared
					// vSwitch pool's histories (C17's generator, model and monitors) run here as well
					c17Run(c)
					// … and a request repeated after an error that hid its effect must be recognised by the cloud as the same request (else it
					// assigns twice: beyond the quota, or behind the record's back): the client-token discipline of the OpenAPI wrappers the
					// controller's assign / create calls go through (C16's generator, model and monitors)
					c16Run(c)
				}
			},
			Exec2: func(c *Ctx, ops []string) ([]string, []string) {
				if len(ops) > 0 && strings.HasPrefix(ops[0], "dm.") {
					return runDaemonWorld(c, id, ops)
				}
				if len(ops) > 0 && strings.HasPrefix(ops[0], "vsw.") {
					return ops, c17Exec(c, ops)
				}
				if len(ops) > 0 && strings.HasPrefix(ops[0], "tok.") {
					return ops, c16Exec(c, ops)
				}
				if len(ops) > 0 && strings.HasPrefix(ops[0], "rt.") {
					return ops, agExec(c, ops)
				}
				if len(ops) > 0 && strings.HasPrefix(ops[0], "ip.loop ") {
					// a closed-loop case: deterministic given its seed
					var seeds []uint64
					for _, op := range ops {
						if s, err := strconv.ParseUint(strings.TrimPrefix(op, "ip.loop "), 10, 64); err == nil {
							seeds = append(seeds, s)
						}
					}
					runIpamLoopSeeds(c, id, seeds)
					outs := make([]string, len(ops))
					for i := range outs {
						outs[i] = "ok"
					}
					return ops, outs
				}
				return ops, ipamExec(c, id, ops)
			}})
	}
}

type ipCfg struct {
	en4, en6, erdma, trunk        bool
	cap4, cap6, batch, minP, maxP int
	nSecondary, nTrunk, nRdma     int
}

func (g ipCfg) str() string {
	return fmt.Sprintf("%s/%s/%s/%s/%d/%d/%d/%d/%d/%d/%d/%d", b01(g.en4), b01(g.en6), b01(g.erdma), b01(g.trunk), g.cap4, g.cap6, g.batch, g.minP, g.maxP, g.nSecondary, g.nTrunk, g.nRdma)
}

func ipStr4(id int) string { return pAddr(id).String() }

// ----- encoding of records (the protocol's form) -----

type ipEntry struct {
	id      int
	st      string // v | d
	pod     string
	uid     string
	primary bool
}
type ipEni struct {
	id     string
	status string // InUse | Deleting | Other
	typ    string // s | t
	hp     bool
	ips    []ipEntry
}

func recStr(r []ipEni) string {
	var es []string
	for _, e := range r {
		var xs []string
		for _, x := range e.ips {
			xs = append(xs, fmt.Sprintf("%d:%s:%s:%s:%s", x.id, x.st, orDash(x.pod), orDash(x.uid), b01(x.primary)))
		}
		es = append(es, fmt.Sprintf("%s/%s/%s/%s/%s", e.id, e.status, e.typ, b01(e.hp), joinOrDash(xs)))
	}
	if len(es) == 0 {
		return "-"
	}
	return strings.Join(es, ";")
}

func parseRec(s string) []ipEni {
	if s == "-" {
		return nil
	}
	var r []ipEni
	for _, t := range strings.Split(s, ";") {
		f := strings.Split(t, "/")
		e := ipEni{id: f[0], status: f[1], typ: f[2], hp: f[3] == "1"}
		if f[4] != "-" {
			for _, xt := range strings.Split(f[4], ",") {
				g := strings.Split(xt, ":")
				id, _ := strconv.Atoi(g[0])
				e.ips = append(e.ips, ipEntry{id: id, st: g[1], pod: undash(g[2]), uid: undash(g[3]), primary: g[4] == "1"})
			}
		}
		r = append(r, e)
	}
	return r
}

func undash(s string) string {
	if s == "-" {
		return ""
	}
	return s
}

func toCR(r []ipEni) map[string]*networkv1beta1.NetworkInterface {
	m := map[string]*networkv1beta1.NetworkInterface{}
	for _, e := range r {
		ni := &networkv1beta1.NetworkInterface{ID: e.id, IPv4: map[string]*networkv1beta1.IP{}, IPv6: map[string]*networkv1beta1.IP{}}
		ni.Status = map[string]string{"InUse": "InUse", "Deleting": "Deleting", "Other": "Attaching"}[e.status]
		ni.NetworkInterfaceType = networkv1beta1.ENITypeSecondary
		if e.typ == "t" {
			ni.NetworkInterfaceType = networkv1beta1.ENITypeTrunk
		}
		ni.NetworkInterfaceTrafficMode = networkv1beta1.NetworkInterfaceTrafficModeStandard
		if e.hp {
			ni.NetworkInterfaceTrafficMode = networkv1beta1.NetworkInterfaceTrafficModeHighPerformance
		}
		for _, x := range e.ips {
			ip := &networkv1beta1.IP{IP: ipStr4(x.id), Primary: x.primary, PodID: x.pod, PodUID: x.uid, Status: networkv1beta1.IPStatusValid}
			if x.st == "d" {
				ip.Status = networkv1beta1.IPStatusDeleting
			}
			if x.id >= dwV6Base {
				ni.IPv6[ip.IP] = ip
			} else {
				ni.IPv4[ip.IP] = ip
			}
		}
		m[e.id] = ni
	}
	return m
}

// fromCR reads the record back in the order (interfaces, entries) of `like`.
func fromCR(m map[string]*networkv1beta1.NetworkInterface, like []ipEni) []ipEni {
	var out []ipEni
	for _, e := range like {
		ni := m[e.id]
		if ni == nil {
			continue
		}
		o := ipEni{id: e.id, typ: e.typ, hp: e.hp}
		switch ni.Status {
		case "InUse":
			o.status = "InUse"
		case "Deleting":
			o.status = "Deleting"
		default:
			o.status = "Other"
		}
		for _, x := range e.ips {
			var ip *networkv1beta1.IP
			if x.id >= dwV6Base {
				ip = ni.IPv6[ipStr4(x.id)]
			} else {
				ip = ni.IPv4[ipStr4(x.id)]
			}
			if ip == nil {
				continue
			}
			st := "v"
			if ip.Status == networkv1beta1.IPStatusDeleting {
				st = "d"
			}
			o.ips = append(o.ips, ipEntry{id: x.id, st: st, pod: ip.PodID, uid: ip.PodUID, primary: ip.Primary})
		}
		out = append(out, o)
	}
	return out
}

type ipPod struct {
	id, uid            string
	need4, need6, rdma bool
	ip4, ip6           int // 0 = none reported
}

func podsStr(ps []ipPod) string {
	var s []string
	for _, p := range ps {
		o := func(v int) string {
			if v == 0 {
				return "-"
			}
			return strconv.Itoa(v)
		}
		s = append(s, fmt.Sprintf("%s/%s/%s/%s/%s/%s/%s", p.id, orDash(p.uid), b01(p.need4), b01(p.need6), b01(p.rdma), o(p.ip4), o(p.ip6)))
	}
	return joinOrDash2(s, ";")
}
func joinOrDash2(s []string, sep string) string {
	if len(s) == 0 {
		return "-"
	}
	return strings.Join(s, sep)
}
func parsePods(s string) []ipPod {
	if s == "-" {
		return nil
	}
	var ps []ipPod
	for _, t := range strings.Split(s, ";") {
		f := strings.Split(t, "/")
		a, _ := strconv.Atoi(f[5])
		b, _ := strconv.Atoi(f[6])
		ps = append(ps, ipPod{id: f[0], uid: undash(f[1]), need4: f[2] == "1", need6: f[3] == "1", rdma: f[4] == "1", ip4: a, ip6: b})
	}
	return ps
}
func toVerifPods(ps []ipPod) map[string]ipamnode.VerifPod {
	m := map[string]ipamnode.VerifPod{}
	for _, p := range ps {
		v := ipamnode.VerifPod{UID: p.uid, RequireIPv4: p.need4, RequireIPv6: p.need6, RequireERDMA: p.rdma}
		if p.ip4 != 0 {
			v.IPv4 = ipStr4(p.ip4)
		}
		if p.ip6 != 0 {
			v.IPv6 = ipStr4(p.ip6)
		}
		m[p.id] = v
	}
	return m
}

// ----- generators -----

func genCfg(r *Rng) ipCfg {
	g := ipCfg{en4: true, cap4: 2 + r.Intn(4), batch: 10, nSecondary: 1 + r.Intn(3)} // batch: ecsBatchSize
	if r.Intn(3) == 0 {
		g.cap4 = 8 + r.Intn(8) // beyond the batch size
	}
	switch r.Intn(5) {
	case 0:
		g.en6 = true
	case 1:
		g.en4, g.en6 = false, true
	case 2:
		g.en6 = true
	}
	g.cap6 = g.cap4
	if r.Intn(4) == 0 {
		g.cap6 = 1 + r.Intn(g.cap4)
	}
	if r.Intn(4) == 0 {
		g.erdma, g.nRdma = true, 1
	}
	if r.Intn(5) == 0 {
		g.trunk, g.nTrunk = true, 1
	}
	g.maxP = r.Intn(5)
	g.minP = r.Intn(g.maxP + 1)
	return g
}

func genRecord(r *Rng, g ipCfg, pods []string) []ipEni {
	n := r.Intn(4)
	var rec []ipEni
	used := map[string]bool{} // pod|family already bound (well-formed records bind a pod once per family)
	trunkSeen := false
	for k := 1; k <= n; k++ {
		e := ipEni{id: fmt.Sprintf("eni-%d", k), status: "InUse", typ: "s"}
		switch r.Intn(10) {
		case 0:
			e.status = "Deleting"
		case 1:
			e.status = "Other"
		}
		if g.trunk && !trunkSeen && r.Intn(3) == 0 {
			e.typ, trunkSeen = "t", true
		} else if g.erdma && r.Intn(3) == 0 {
			e.hp = true
		}
		malformed := r.Intn(12) == 0
		bind := func(six bool) (string, string) {
			if r.Intn(10) >= 4 {
				return "", ""
			}
			p := append(append([]string{}, pods...), "gone1", "gone2")[r.Intn(len(pods)+2)]
			key := p + b01(six)
			if used[key] && !malformed {
				return "", ""
			}
			used[key] = true
			uid := "u-" + p
			switch r.Intn(8) {
			case 0:
				uid = ""
			case 1:
				uid = "old-" + p
			}
			return p, uid
		}
		n4 := 1 + r.Intn(g.cap4)
		for j := 1; j <= n4; j++ {
			x := ipEntry{id: k*100 + j, st: "v", primary: j == 1}
			if r.Intn(7) == 0 && !x.primary {
				x.st = "d"
			}
			if x.st == "v" || malformed {
				x.pod, x.uid = bind(false)
			}
			e.ips = append(e.ips, x)
		}
		if g.en6 {
			n6 := r.Intn(g.cap6 + 1)
			for j := 1; j <= n6; j++ {
				x := ipEntry{id: dwV6Base + k*100 + j, st: "v"}
				if r.Intn(7) == 0 {
					x.st = "d"
				}
				if x.st == "v" || malformed {
					x.pod, x.uid = bind(true)
				}
				e.ips = append(e.ips, x)
			}
		}
		rec = append(rec, e)
	}
	return rec
}

func genPods(r *Rng, g ipCfg, rec []ipEni) []ipPod {
	var ps []ipPod
	var all4, all6 []int
	for _, e := range rec {
		for _, x := range e.ips {
			if x.id >= dwV6Base {
				all6 = append(all6, x.id)
			} else {
				all4 = append(all4, x.id)
			}
		}
	}
	for k := 1; k <= 6; k++ {
		if r.Intn(3) == 0 {
			continue
		}
		p := ipPod{id: fmt.Sprintf("p%d", k), uid: fmt.Sprintf("u-p%d", k), need4: g.en4, need6: g.en6}
		if r.Intn(6) == 0 {
			p.uid = "new-" + p.id
		}
		if g.erdma && r.Intn(3) == 0 {
			p.rdma = true
		}
		if r.Intn(3) == 0 {
			// the pod object already reports addresses (take-over)
			if g.en4 && len(all4) > 0 && r.Intn(5) != 0 {
				p.ip4 = all4[r.Intn(len(all4))]
			} else if g.en4 && r.Intn(3) == 0 {
				p.ip4 = 9901
			}
			if g.en6 && len(all6) > 0 && r.Intn(5) != 0 {
				p.ip6 = all6[r.Intn(len(all6))]
			}
		}
		ps = append(ps, p)
	}
	return ps
}

func podIDs() []string {
	return []string{"p1", "p2", "p3", "p4", "p5", "p6"}
}

// ----- operations -----

func ipamRun(c *Ctx, focus string) {
	dwQuiet()
	n := c.Scale(1500, 40000)
	for i := 0; i < n; i++ {
		r := c.R
		g := genCfg(r)
		rec := genRecord(r, g, podIDs())
		pods := genPods(r, g, rec)
		var op string
		k := r.Intn(10)
		switch focus {
		case "C02":
			k = []int{0, 0, 0, 0, 0, 1, 2, 3, 0, 0}[k]
		case "C03":
			k = []int{1, 1, 1, 1, 3, 3, 3, 0, 1, 3}[k]
		case "C08":
			k = []int{2, 2, 2, 2, 3, 3, 2, 0, 1, 2}[k]
		}
		switch k {
		case 0:
			op = fmt.Sprintf("ip.asg %s %s %s", b01(g.erdma), podsStr(pods), recStr(rec))
		case 1:
			op = fmt.Sprintf("ip.rel %s %s %s", podsStr(pods), genRuntime(r, rec, pods), recStr(rec))
		case 2:
			op = fmt.Sprintf("ip.plan %s %d %d %s", g.str(), r.Intn(7), r.Intn(3), recStr(rec))
		default:
			op = fmt.Sprintf("ip.trim %s %s", g.str(), recStr(rec))
		}
		if focus == "C02" && i%8 == 3 {
			// the pods of a node as the controller lists them (names in list order: the fake client sorts by name)
			var ps []string
			for k, m := 0, 1+r.Intn(5); k < m; k++ {
				ps = append(ps, fmt.Sprintf("p%d/%s/%s/%s/%s/%s", k, b01(r.Chance(10)), b01(r.Chance(10)), b01(r.Chance(10)), b01(r.Chance(25)), b01(r.Chance(30))))
			}
			op = fmt.Sprintf("ip.pods %s %s %s %s", b01(r.Chance(80)), b01(r.Chance(50)), b01(r.Chance(70)), strings.Join(ps, " "))
		}
		if focus == "C02" && len(rec) > 0 && i%8 == 7 {
			// cloud drift: what a full synchronisation finds for one interface
			var cur, rem []string
			for _, x := range rec[0].ips {
				if x.id >= dwV6Base {
					continue
				}
				cur = append(cur, fmt.Sprintf("%d:%s:%s:%s:%s", x.id, x.st, orDash(x.pod), orDash(x.uid), b01(x.primary)))
				if r.Chance(80) { // still in the cloud, possibly reported as not available
					rem = append(rem, fmt.Sprintf("%d:%s:-:-:%s", x.id, Pick(r, []string{"v", "v", "v", "d"}), b01(x.primary)))
				}
			}
			if r.Chance(15) {
				cur = nil // the record has no address of this family on the interface (the map reads back nil)
			}
			for k := r.Intn(3); k > 0; k-- { // addresses only the cloud knows
				rem = append(rem, fmt.Sprintf("%d:%s:-:-:0", 9000+k, Pick(r, []string{"v", "d"})))
			}
			op = fmt.Sprintf("ip.merge %s %s", joinOrDash(rem), joinOrDash(cur))
		}
		out := ipamExecOne(c, focus, op)
		c.Cases = append(c.Cases, Case{Lines: []Line{out}, Nontrivial: len(rec) > 0})
	}
}

func genRuntime(r *Rng, rec []ipEni, pods []ipPod) string {
	if r.Intn(12) == 0 {
		return "ERR"
	}
	seen := map[string]bool{}
	var s []string
	for _, e := range rec {
		for _, x := range e.ips {
			if x.uid == "" || seen[x.uid] {
				continue
			}
			seen[x.uid] = true
			switch r.Intn(3) {
			case 0:
				s = append(s, x.uid+"=1")
			case 1:
				s = append(s, x.uid+"=0")
			}
		}
	}
	return joinOrDash(s)
}

func ipamExec(c *Ctx, focus string, ops []string) []string {
	dwQuiet()
	var out []string
	for _, op := range ops {
		l := ipamExecOne(c, focus, op)
		out = append(out, l.Impl)
	}
	return out
}

// ipamExecOne runs one op on the implementation; the returned line carries the observed outcome where the
// model needs it (`| post`).
func ipamExecOne(c *Ctx, focus string, op string) Line {
	f := strings.Fields(op)
	viol := func(key, what string) {
		if strings.HasPrefix(key, focus+"/") {
			c.Violate(key, what, op)
		}
	}
	switch f[0] {
	case "ip.pods":
		// which pods of the node take part in the IPAM and what each needs: the real getPods over a fake client
		if len(f) < 4 {
			return Line{op, "bad-op"}
		}
		node := &networkv1beta1.Node{ObjectMeta: metav1.ObjectMeta{Name: "node-a"}}
		node.Spec.ENISpec = &networkv1beta1.ENISpec{EnableIPv4: f[1] == "1", EnableIPv6: f[2] == "1", EnableERDMA: f[3] == "1"}
		b := fake.NewClientBuilder().WithScheme(terwayTypes.Scheme).
			WithIndex(&corev1.Pod{}, "spec.nodeName", func(o client.Object) []string { return []string{o.(*corev1.Pod).Spec.NodeName} })
		type raw struct{ name, ei, em string }
		var raws []raw
		for _, t := range f[4:] {
			g := strings.Split(t, "/")
			if len(g) != 6 {
				return Line{op, "bad-op"}
			}
			lim := func(x string) corev1.ResourceRequirements {
				if x == "1" {
					return corev1.ResourceRequirements{Limits: corev1.ResourceList{"aliyun/erdma": resource.MustParse("1")}}
				}
				return corev1.ResourceRequirements{Limits: corev1.ResourceList{"cpu": resource.MustParse("1")}}
			}
			pod := &corev1.Pod{ObjectMeta: metav1.ObjectMeta{Namespace: "ns", Name: g[0], UID: k8stypes.UID("uid-" + g[0]), Annotations: map[string]string{}},
				Spec: corev1.PodSpec{NodeName: "node-a", HostNetwork: g[1] == "1",
					InitContainers: []corev1.Container{{Name: "i", Resources: lim(g[4])}},
					Containers:     []corev1.Container{{Name: "c0", Resources: lim("0")}, {Name: "c1", Resources: lim(g[5])}}}}
			if g[2] == "1" {
				pod.Annotations[terwayTypes.PodENI] = "true"
			}
			if g[3] == "1" {
				pod.Status.Phase = corev1.PodSucceeded
			}
			b = b.WithObjects(pod)
			raws = append(raws, raw{g[0], g[4], g[5]})
		}
		got, err := ipamnode.VerifGetPods(context.Background(), b.Build(), node)
		if err != nil {
			return Line{op, "err"}
		}
		var ss []string
		for id, p := range got {
			name := strings.TrimPrefix(id, "ns/")
			ss = append(ss, fmt.Sprintf("%s:%s:%s:%s", name, b01(p.RequireIPv4), b01(p.RequireIPv6), b01(p.RequireERDMA)))
			// property-level: only a pod that asks for RDMA itself is given an RDMA interface
			for _, rw := range raws {
				if rw.name == name && p.RequireERDMA && !(f[3] == "1" && (rw.ei == "1" || rw.em == "1")) {
					viol("C02/pods/rdma-for-plain-pod", fmt.Sprintf("pod %s is classified as needing an RDMA interface although none of its containers asks for one (RDMA enabled on the node: %v)", name, f[3] == "1"))
				}
			}
		}
		sort.Strings(ss)
		c.Count("pods")
		return Line{op, joinOrDash(ss)}
	case "ip.merge":
		// the full synchronisation's merge of what the cloud reports for one interface into the record (mergeIPMap)
		if len(f) != 3 {
			return Line{op, "bad-op"}
		}
		parse := func(s string) map[string]*networkv1beta1.IP {
			if s == "-" {
				return nil // a family the record has no address of reads back as a nil map
			}
			m := map[string]*networkv1beta1.IP{}
			for _, xt := range strings.Split(s, ",") {
				g := strings.Split(xt, ":")
				id, _ := strconv.Atoi(g[0])
				ip := &networkv1beta1.IP{IP: ipStr4(id), Primary: g[4] == "1", PodID: undash(g[2]), PodUID: undash(g[3]), Status: networkv1beta1.IPStatusValid}
				if g[1] == "d" {
					ip.Status = networkv1beta1.IPStatusDeleting
				}
				m[ip.IP] = ip
			}
			return m
		}
		remote, current := parse(f[1]), parse(f[2])
		before := map[string]networkv1beta1.IP{}
		for k, v := range current {
			before[k] = *v
		}
		current = ipamnode.VerifMergeIPMap(remote, current)
		type kv struct {
			id int
			s  string
		}
		var out []kv
		for k, v := range current {
			var a, b, hi, lo int
			fmt.Sscanf(k, "%d.%d.%d.%d", &a, &b, &hi, &lo)
			id := hi*100 + lo
			st := "v"
			if v.Status == networkv1beta1.IPStatusDeleting {
				st = "d"
			}
			out = append(out, kv{id, fmt.Sprintf("%d:%s:%s:%s:%s", id, st, orDash(v.PodID), orDash(v.PodUID), b01(v.Primary))})
			// property-level: an address bound to a pod that the cloud still reports stays bound and valid
			if o, ok := before[k]; ok && o.PodID != "" && o.Status == networkv1beta1.IPStatusValid && (v.PodID != o.PodID || v.Status != networkv1beta1.IPStatusValid) {
				viol("C02/merge/bound-address-changed", fmt.Sprintf("the full synchronisation turned %s, bound to %s and valid, into status=%s pod=%q", k, o.PodID, v.Status, v.PodID))
			}
		}
		for k, o := range before {
			if _, still := current[k]; !still && remote[k] != nil && o.PodID != "" {
				viol("C02/merge/bound-address-dropped", fmt.Sprintf("the full synchronisation dropped %s, bound to %s, although the cloud reports it", k, o.PodID))
			}
		}
		sort.Slice(out, func(i, j int) bool { return out[i].id < out[j].id })
		var ss []string
		for _, o := range out {
			ss = append(ss, o.s)
		}
		c.Count("merge")
		return Line{op, joinOrDash(ss)}
	case "ip.asg":
		pods, pre := parsePods(f[2]), parseRec(f[3])
		cr := toCR(pre)
		left := ipamnode.VerifAssign(toVerifPods(pods), cr, f[1] == "1")
		sort.Strings(left)
		post := fromCR(cr, pre)
		monitorAssign(viol, f[1] == "1", pods, pre, post)
		c.Count("asg")
		base := strings.Join(f[:4], " ")
		return Line{base + " | " + recStr(post), "ok " + joinOrDash(left)}
	case "ip.rel":
		pods, pre := parsePods(f[1]), parseRec(f[3])
		cr := toCR(pre)
		b := fake.NewClientBuilder().WithScheme(terwayTypes.Scheme)
		rt := map[string]bool{}
		if f[2] != "ERR" {
			nr := &networkv1beta1.NodeRuntime{ObjectMeta: metav1.ObjectMeta{Name: "node-a"}}
			nr.Status.Pods = map[string]*networkv1beta1.RuntimePodStatus{}
			if f[2] != "-" {
				for _, kv := range strings.Split(f[2], ",") {
					p := strings.Split(kv, "=")
					now := metav1.NewTime(time.Unix(1700000000, 0))
					later := metav1.NewTime(time.Unix(1700000100, 0))
					st := map[networkv1beta1.CNIStatus]*networkv1beta1.CNIStatusInfo{networkv1beta1.CNIStatusInitial: {LastUpdateTime: now}}
					if p[1] == "1" {
						st[networkv1beta1.CNIStatusDeleted] = &networkv1beta1.CNIStatusInfo{LastUpdateTime: later}
						rt[p[0]] = true
					} else if len(p[0])%2 == 0 {
						// deleted earlier, set up again later: the latest status wins
						st[networkv1beta1.CNIStatusDeleted] = &networkv1beta1.CNIStatusInfo{LastUpdateTime: metav1.NewTime(time.Unix(1600000000, 0))}
					}
					nr.Status.Pods[p[0]] = &networkv1beta1.RuntimePodStatus{PodID: "x", Status: st}
				}
			}
			b = b.WithObjects(nr)
		}
		ipamnode.VerifRelease(context.Background(), b.Build(), "node-a", toVerifPods(pods), cr)
		post := fromCR(cr, pre)
		monitorRelease(viol, pods, rt, f[2] == "ERR", pre, post)
		c.Count("rel")
		return Line{op, recStr(post)}
	case "ip.plan":
		g := parseCfg(f[1])
		normal, _ := strconv.Atoi(f[2])
		rdma, _ := strconv.Atoi(f[3])
		pre := parseRec(f[4])
		node := nodeOf(g, pre)
		opts := ipamnode.VerifPlan(context.Background(), node, normal, rdma)
		// the order in which the existing interfaces were considered is the implementation's (sort ties)
		var sorted []ipEni
		var enc []string
		for _, o := range opts {
			k := map[string]string{"Secondary/Standard": "s", "Trunk/Standard": "t", "Secondary/HighPerformance": "r"}[o.Type+"/"+o.Mode]
			id := "new"
			if o.ENI != "" {
				id = o.ENI
				for _, e := range pre {
					if e.id == o.ENI {
						sorted = append(sorted, e)
					}
				}
			}
			enc = append(enc, fmt.Sprintf("%s/%s/%d/%d/%s", id, k, o.AddIPv4N, o.AddIPv6N, b01(o.IsFull)))
		}
		monitorPlan(viol, g, pre, opts)
		c.Count("plan")
		return Line{fmt.Sprintf("ip.plan %s %d %d %s", f[1], normal, rdma, recStr(sorted)), joinOrDash2(enc, ";")}
	case "ip.trim":
		g := parseCfg(f[1])
		pre := parseRec(f[2])
		node := nodeOf(g, pre)
		err := ipamnode.VerifTrim(node)
		post := fromCR(node.Status.NetworkInterfaces, pre)
		monitorTrim(viol, g, pre, post)
		c.Count("trim")
		res := "ok"
		if err != nil {
			res = "err"
		}
		return Line{strings.Join(f[:3], " ") + " | " + recStr(post), res}
	}
	return Line{op, "bad-op"}
}

func parseCfg(s string) ipCfg {
	f := strings.Split(s, "/")
	a := func(i int) int { v, _ := strconv.Atoi(f[i]); return v }
	return ipCfg{en4: f[0] == "1", en6: f[1] == "1", erdma: f[2] == "1", trunk: f[3] == "1", cap4: a(4), cap6: a(5), batch: a(6), minP: a(7), maxP: a(8), nSecondary: a(9), nTrunk: a(10), nRdma: a(11)}
}

func nodeOf(g ipCfg, rec []ipEni) *networkv1beta1.Node {
	n := &networkv1beta1.Node{ObjectMeta: metav1.ObjectMeta{Name: "node-a"}}
	n.Spec.ENISpec = &networkv1beta1.ENISpec{EnableIPv4: g.en4, EnableIPv6: g.en6, EnableERDMA: g.erdma, EnableTrunk: g.trunk}
	n.Spec.Pool = &networkv1beta1.PoolSpec{MaxPoolSize: g.maxP, MinPoolSize: g.minP}
	n.Spec.NodeCap = networkv1beta1.NodeCap{Adapters: g.nSecondary + g.nTrunk + g.nRdma + 1, IPv4PerAdapter: g.cap4, IPv6PerAdapter: g.cap6}
	n.Spec.Flavor = []networkv1beta1.Flavor{
		{NetworkInterfaceType: networkv1beta1.ENITypeSecondary, NetworkInterfaceTrafficMode: networkv1beta1.NetworkInterfaceTrafficModeStandard, Count: g.nSecondary},
	}
	if g.nTrunk > 0 {
		n.Spec.Flavor = append(n.Spec.Flavor, networkv1beta1.Flavor{NetworkInterfaceType: networkv1beta1.ENITypeTrunk, NetworkInterfaceTrafficMode: networkv1beta1.NetworkInterfaceTrafficModeStandard, Count: g.nTrunk})
	}
	if g.nRdma > 0 {
		n.Spec.Flavor = append(n.Spec.Flavor, networkv1beta1.Flavor{NetworkInterfaceType: networkv1beta1.ENITypeSecondary, NetworkInterfaceTrafficMode: networkv1beta1.NetworkInterfaceTrafficModeHighPerformance, Count: g.nRdma})
	}
	n.Status.NetworkInterfaces = toCR(rec)
	return n
}

// ----- monitors -----

func monitorAssign(viol func(string, string), erdmaOn bool, pods []ipPod, pre, post []ipEni) {
	podBy := map[string]ipPod{}
	for _, p := range pods {
		podBy[p.id] = p
	}
	preCount := map[string]int{}
	for _, e := range pre {
		for _, x := range e.ips {
			if x.pod != "" {
				preCount[x.pod+b01(x.id >= dwV6Base)]++
			}
		}
	}
	count := map[string]int{}
	eniOf := map[string]map[string]bool{}
	for i, e := range post {
		for j, y := range e.ips {
			x := pre[i].ips[j]
			six := y.id >= dwV6Base
			if y.pod != "" {
				count[y.pod+b01(six)]++
				if !six {
					if eniOf[y.pod] == nil {
						eniOf[y.pod] = map[string]bool{}
					}
					eniOf[y.pod][e.id] = true
				}
			}
			if x.pod != "" && y.pod != x.pod {
				if _, ok := podBy[x.pod]; ok {
					viol("C03/assign/rollback-unbinds-existing-pod", fmt.Sprintf("%d was bound to %s, which exists, and the assignment step unbound it", x.id, x.pod))
				}
			}
			if y.pod != x.pod && y.pod != "" {
				p, ok := podBy[y.pod]
				if !ok {
					viol("C02/assign/unknown-pod", fmt.Sprintf("%d bound to %q which is not a pod of the node", y.id, y.pod))
					continue
				}
				if x.pod != "" {
					viol("C02/assign/stolen", fmt.Sprintf("%d was bound to %s and is now bound to %s", y.id, x.pod, y.pod))
				}
				rep := p.ip4
				if six {
					rep = p.ip6
				}
				if rep != 0 && rep != y.id {
					viol("C02/assign/not-the-reported-address", fmt.Sprintf("%s reports %d and was bound to %d", p.id, rep, y.id))
				}
				if rep == 0 {
					if y.st != "v" || e.status != "InUse" {
						viol("C02/assign/invalid-or-unattached", fmt.Sprintf("%s was bound to %d (status %s) on %s (%s)", p.id, y.id, y.st, e.id, e.status))
					}
					if p.rdma != e.hp && (p.rdma || erdmaOn) {
						viol("C02/assign/rdma-mismatch", fmt.Sprintf("%s (rdma=%v) was bound to %d on %s (rdma interface=%v)", p.id, p.rdma, y.id, e.id, e.hp))
					}
				}
			}
		}
	}
	for k, n := range count {
		if n > 1 && n > preCount[k] {
			viol("C02/assign/two-addresses-one-family", fmt.Sprintf("pod+family %s is bound to %d addresses (was %d)", k, n, preCount[k]))
		}
	}
	// dual stack: a freshly chosen IPv6 address comes from the interface of the IPv4 address
	for i, e := range post {
		for j, y := range e.ips {
			x := pre[i].ips[j]
			if y.id >= dwV6Base && y.pod != "" && x.pod == "" && podBy[y.pod].ip6 == 0 {
				if v4, ok := eniOf[y.pod]; ok && !v4[e.id] {
					viol("C02/assign/dual-stack-two-interfaces", fmt.Sprintf("%s has its IPv4 address on %v and was given the IPv6 address %d on %s", y.pod, v4, y.id, e.id))
				}
			}
		}
	}
}

func monitorRelease(viol func(string, string), pods []ipPod, rtDeleted map[string]bool, rtErr bool, pre, post []ipEni) {
	exists := map[string]bool{}
	for _, p := range pods {
		exists[p.id] = true
	}
	for i, e := range post {
		for j, y := range e.ips {
			x := pre[i].ips[j]
			if x.pod != "" && y.pod == "" {
				switch {
				case exists[x.pod]:
					viol("C03/release/pod-exists", fmt.Sprintf("%d was unbound from %s, which still exists on the node", x.id, x.pod))
				case rtErr:
					viol("C03/release/runtime-unreadable", fmt.Sprintf("%d was unbound from %s although the NodeRuntime could not be read", x.id, x.pod))
				case x.uid != "" && !rtDeleted[x.uid]:
					viol("C03/release/teardown-not-confirmed", fmt.Sprintf("%d was unbound from the vanished pod %s (uid %s) before its teardown was reported", x.id, x.pod, x.uid))
				}
			}
			if x.pod != "" && y.pod == x.pod && !exists[x.pod] && !rtErr && (x.uid == "" || rtDeleted[x.uid]) {
				viol("C03/release/not-freed", fmt.Sprintf("%d stays bound to the vanished pod %s although its teardown is confirmed", x.id, x.pod))
			}
			if x.st != y.st || (y.pod != "" && y.pod != x.pod) {
				viol("C03/release/other-change", fmt.Sprintf("release changed %d: %+v -> %+v", x.id, x, y))
			}
		}
	}
}

func monitorPlan(viol func(string, string), g ipCfg, pre []ipEni, opts []ipamnode.VerifOption) {
	newN := 0
	for _, o := range opts {
		if o.ENI == "" {
			newN++
			if o.AddIPv4N > g.cap4 || o.AddIPv6N > g.cap6 {
				viol("C08/plan/new-eni-over-quota", fmt.Sprintf("a new interface is planned with %d/%d addresses, %d/%d allowed", o.AddIPv4N, o.AddIPv6N, g.cap4, g.cap6))
			}
		} else {
			if o.AddIPv4N > 0 && o.LenV4+o.AddIPv4N > g.cap4 {
				viol("C08/plan/over-quota-v4", fmt.Sprintf("%s has %d IPv4 addresses and %d more are planned, %d allowed", o.ENI, o.LenV4, o.AddIPv4N, g.cap4))
			}
			if o.AddIPv6N > 0 && o.LenV6+o.AddIPv6N > g.cap6 {
				viol("C08/plan/over-quota-v6", fmt.Sprintf("%s has %d IPv6 addresses and %d more are planned, %d allowed", o.ENI, o.LenV6, o.AddIPv6N, g.cap6))
			}
			if (o.AddIPv4N > 0 || o.AddIPv6N > 0) && o.ENIStatus != "InUse" {
				viol("C08/plan/not-in-use", fmt.Sprintf("addresses are planned on %s which is %s", o.ENI, o.ENIStatus))
			}
		}
		if o.AddIPv4N < 0 || o.AddIPv6N < 0 {
			viol("C08/plan/negative", "a negative number of addresses is planned")
		}
	}
	total := g.nSecondary + g.nTrunk + g.nRdma
	if len(pre) <= total && len(pre)+newN > total {
		viol("C08/plan/too-many-interfaces", fmt.Sprintf("%d interfaces exist, %d new ones are planned, %d allowed", len(pre), newN, total))
	}
}

func monitorTrim(viol func(string, string), g ipCfg, pre, post []ipEni) {
	for i, e := range post {
		bound := false
		for _, x := range pre[i].ips {
			if x.pod != "" {
				bound = true
			}
		}
		if e.status != pre[i].status {
			if bound {
				viol("C02/trim/interface-with-bound-address-given-up", fmt.Sprintf("%s went from %s to %s while addresses on it are bound to pods", e.id, pre[i].status, e.status))
			}
			if e.status != "Deleting" || bound || e.typ != "s" || e.hp {
				viol("C03/trim/interface-in-use-or-special", fmt.Sprintf("%s (%s, rdma=%v, bound=%v) went from %s to %s", e.id, e.typ, e.hp, bound, pre[i].status, e.status))
			}
		}
		for j, y := range e.ips {
			x := pre[i].ips[j]
			if x.st != y.st {
				if x.pod != "" || x.primary || y.st != "d" {
					viol("C03/trim/bound-or-primary", fmt.Sprintf("%d (pod %q, primary=%v) went from %s to %s", x.id, x.pod, x.primary, x.st, y.st))
				}
			}
			if x.pod != y.pod {
				viol("C03/trim/binding-changed", fmt.Sprintf("trimming changed the binding of %d", x.id))
			}
		}
	}
}
