package main

// Rng is SplitMix64: every random choice of a run derives from one seed so a disagreement replays exactly.
type Rng struct{ s uint64 }

// NewRng scrambles the seed first: the streams of neighbouring seeds are unrelated (with s = seed*gamma + c they
// would be shifts of one another).
func NewRng(seed uint64) *Rng {
	z := seed + 0x1234567
	z = (z ^ (z >> 30)) * 0xBF58476D1CE4E5B9
	z = (z ^ (z >> 27)) * 0x94D049BB133111EB
	return &Rng{s: z ^ (z >> 31)}
}

func (r *Rng) U64() uint64 {
	r.s += 0x9E3779B97F4A7C15
	z := r.s
	z = (z ^ (z >> 30)) * 0xBF58476D1CE4E5B9
	z = (z ^ (z >> 27)) * 0x94D049BB133111EB
	return z ^ (z >> 31)
}
func (r *Rng) Intn(n int) int {
	if n <= 0 {
		return 0
	}
	return int(r.U64() % uint64(n))
}
func (r *Rng) Bool() bool           { return r.U64()&1 == 1 }
func (r *Rng) Chance(p int) bool    { return r.Intn(100) < p }
func (r *Rng) U32() uint32          { return uint32(r.U64()) }
func (r *Rng) Range(lo, hi int) int { return lo + r.Intn(hi-lo+1) }
func (r *Rng) Fork() *Rng           { return NewRng(r.U64()) }
func Pick[T any](r *Rng, xs []T) T  { return xs[r.Intn(len(xs))] }
func (r *Rng) Perm(n int) []int {
	p := make([]int, n)
	for i := range p {
		p[i] = i
	}
	for i := n - 1; i > 0; i-- {
		j := r.Intn(i + 1)
		p[i], p[j] = p[j], p[i]
	}
	return p
}

var alphabet = []string{"a", "b", "c", "x", "y", "z", "0", "1", "9", "-", ".", "_", "eth", "net", "kube", "ns", "pod", "é", "长", " "}

// Ident produces a short structured identifier.
func (r *Rng) Ident(maxParts int) string {
	n := 1 + r.Intn(maxParts)
	s := ""
	for i := 0; i < n; i++ {
		s += alphabet[r.Intn(len(alphabet))]
	}
	return s
}
