package main

import (
	"encoding/hex"
	"fmt"
	"math/big"
	"strings"
	"unicode"

	corev1 "k8s.io/api/core/v1"
	metav1 "k8s.io/apimachinery/pkg/apis/meta/v1"
	"k8s.io/apimachinery/pkg/util/sets"

	"github.com/vishvananda/netlink"

	podeni "github.com/AliyunContainerService/terway/pkg/controller/pod-eni"
	"github.com/AliyunContainerService/terway/pkg/controller/status"
	"github.com/AliyunContainerService/terway/pkg/eni"
	"github.com/AliyunContainerService/terway/pkg/k8s"
	"github.com/AliyunContainerService/terway/pkg/tc"
	"github.com/AliyunContainerService/terway/rpc"
	"github.com/AliyunContainerService/terway/types"
	"github.com/AliyunContainerService/terway/types/controlplane"
	"github.com/AliyunContainerService/terway/types/daemon"
)

func init() {
	register(&Prop{ID: "C15", Run: c15Run, Exec: pureExec(c15Exec), Corpus: [][]string{
		{"bw.parse " + hexStr("1000")}, {"bw.parse " + hexStr(" 5 ")}, {"bw.parse " + hexStr("1.5")}, {"bw.parse " + hexStr("+4096")},
		{"bw.parse " + hexStr("0")}, {"bw.parse " + hexStr("-1")}, {"bw.parse " + hexStr(" ")}, {"bw.parse " + hexStr("10M")},
		{"bw.parse " + hexStr("5gib")}, {"bw.parse " + hexStr(".")}, {"bw.parse " + hexStr("1_0")}, {"bw.parse " + hexStr("K")},
		{"# fuzz numa " + hexStr(`{"app":{"2":"32-47"}}`)}, {"# fuzz numa " + hexStr(`{"app":{"-1":"x","9999999999999999999":1}}`)},
	}})
}

// bwRun executes the real parser under recover and classifies the outcome.
func bwRun(s string) (class string, v uint64) {
	defer func() {
		if r := recover(); r != nil {
			class = "panic"
		}
	}()
	n, err := k8s.VerifParseBandwidth(s)
	if err != nil {
		return "err", 0
	}
	return "ok", n
}

// exactBW computes floor(decimal * multiplier) with exact arithmetic for strings the grammar accepts; ok=false otherwise.
func exactBW(s string) (*big.Int, bool) {
	t := strings.ToUpper(strings.TrimSpace(s))
	i := strings.IndexFunc(t, unicode.IsLetter)
	if i < 0 {
		i = len(t)
	}
	num, unit := t[:i], t[i:]
	mult := map[string]int64{"": 1, "B": 1, "K": 1 << 10, "KB": 1 << 10, "KIB": 1 << 10, "M": 1 << 20, "MB": 1 << 20, "MIB": 1 << 20,
		"G": 1 << 30, "GB": 1 << 30, "GIB": 1 << 30, "T": 1 << 40, "TB": 1 << 40, "TIB": 1 << 40}
	m, ok := mult[unit]
	if !ok {
		return nil, false
	}
	r, ok := new(big.Rat).SetString(num)
	if !ok || strings.ContainsAny(num, "eE/_") || r.Sign() <= 0 { // underscore forms are left to the model comparison
		return nil, false
	}
	r.Mul(r, new(big.Rat).SetInt64(m))
	return new(big.Int).Quo(r.Num(), r.Denom()), true
}

func isASCII(s string) bool {
	for i := 0; i < len(s); i++ {
		if s[i] >= 128 {
			return false
		}
	}
	return true
}

func c15Exec(c *Ctx, op string) string {
	f := strings.Fields(op)
	if len(f) == 0 {
		return "bad-op"
	}
	switch f[0] {
	case "sr.filter":
		return srExec(c, op)
	case "rm.alloc":
		return rmExec(c, []string{op})[0]
	case "cni.chain", "cni.gen":
		return c20Exec(c, []string{op})[0]
	case "#":
		if len(f) >= 4 && f[1] == "fuzz" {
			raw, _ := hex.DecodeString(strings.TrimPrefix(f[3], "-"))
			c15Fuzz(c, f[2], string(raw), op)
		}
		if len(f) == 3 && strings.HasPrefix(f[1], "bw.") {
			c15Exec(c, f[1]+" "+f[2])
		}
		return "#"
	case "bw.parse", "bw.class":
		s := unhexStr(f[1])
		class, v := bwRun(s)
		if class == "panic" {
			kind := "other"
			if strings.IndexFunc(strings.TrimSpace(s), unicode.IsLetter) < 0 {
				kind = "no-unit-letter"
			}
			c.Violate("C15/bandwidth/panic/"+kind, fmt.Sprintf("parseBandwidth(%q) panics", s), op)
		}
		// an accepted value is what the plugin then shapes with (pkg/tc SetRule, the non-edt path): on a link that does not exist
		// the answer is the kernel's error, never a panic
		if class == "ok" && shapePanics(v) {
			c.Violate("C15/bandwidth/shaping-panic", fmt.Sprintf("the accepted bandwidth %q (%d bytes/s) makes tc.SetRule panic", s, v), op)
		}
		if class == "ok" {
			c.Count("bandwidth-shaped")
		}
		// well-formed values are accepted with or without a unit
		if want, ok := exactBW(s); ok && class != "ok" && class != "panic" {
			c.Violate("C15/bandwidth/rejected-wellformed", fmt.Sprintf("parseBandwidth(%q) rejected, exact value %s", s, want), op)
		}
		if !isASCII(s) {
			return "nonascii"
		}
		if f[0] == "bw.class" || class != "ok" {
			return class
		}
		return fmt.Sprintf("ok %d", v)
	}
	return "bad-op"
}

// shapePanics runs the plugin's token-bucket arithmetic (pkg/tc) for an accepted rate, in bytes/s as the annotation gives it and in
// the units the kubelet's bits/s value arrives in, against a link index nothing has.
func shapePanics(v uint64) (panicked bool) {
	defer func() {
		if r := recover(); r != nil {
			panicked = true
		}
	}()
	dev := &netlink.Dummy{LinkAttrs: netlink.LinkAttrs{Name: "verif-none", Index: 1 << 30, MTU: 1500}}
	for _, rate := range []uint64{v, v / 8} {
		_ = tc.SetRule(dev, &tc.TrafficShapingRule{Rate: rate})
	}
	return false
}

// c15Fuzz drives one user-input entry point under recover; any panic is a violation.
func c15Fuzz(c *Ctx, entry, input, op string) {
	defer func() {
		if r := recover(); r != nil {
			c.Violate("C15/panic/"+entry, fmt.Sprintf("%s panics on %q: %v", entry, input, r), op)
		}
	}()
	switch entry {
	case "convertpod":
		// input: key=value pairs separated by \x00
		anno := map[string]string{}
		for _, kv := range strings.Split(input, "\x00") {
			if i := strings.Index(kv, "="); i >= 0 {
				anno[kv[:i]] = kv[i+1:]
			}
		}
		pod := &corev1.Pod{ObjectMeta: metav1.ObjectMeta{Name: "p", Namespace: "ns", Annotations: anno,
			OwnerReferences: []metav1.OwnerReference{{Kind: "StatefulSet"}}},
			Status: corev1.PodStatus{PodIP: anno["podip"], PodIPs: []corev1.PodIP{{IP: anno["podip2"]}}}}
		for _, mode := range []string{daemon.ModeENIMultiIP, daemon.ModeENIOnly} { // the builder rejects any other mode at start-up
			k8s.VerifConvertPod(mode, true, sets.New("statefulset"), pod)
		}
		// the callers (admission webhook, pod controller) use the result right after the nil-error check
		if pn, err := controlplane.ParsePodNetworksFromAnnotation(pod); err == nil {
			_ = len(pn.PodNetworks)
		}
		if refs, err := controlplane.ParsePodNetworksFromRequest(anno); err == nil {
			for _, ref := range refs {
				_ = ref.Network
			}
		}
	case "numa":
		hints := podeni.VerifPodNumaHints(map[string]string{"cpuSet": input})
		for cards := 0; cards <= 4; cards++ {
			ns := status.NewNodeStatus(cards)
			var numa *int
			if len(hints) == 1 {
				numa = &hints[0]
				if *numa < 0 {
					numa = nil
				}
			}
			ns.RequestNetworkIndex("eni-1", nil, numa)
			ns.RequestNetworkIndex("eni-2", nil, numa)
		}
	case "config":
		parts := strings.SplitN(input, "\x00", 2)
		base, top := parts[0], ""
		if len(parts) == 2 {
			top = parts[1]
		}
		cfg, err := daemon.MergeConfigAndUnmarshal([]byte(top), []byte(base))
		if err == nil && cfg != nil {
			cfg.Populate()
			_ = cfg.Validate()
			_ = cfg.GetSecurityGroups()
			_ = cfg.GetVSwitchIDs()
			_ = cfg.GetExtraRoutes()
		}
	case "resid":
		_, _, _ = eni.VerifParseResourceID(input)
	case "ipset":
		parts := strings.Split(input, "\x00")
		for len(parts) < 4 {
			parts = append(parts, "")
		}
		a := &rpc.IPSet{IPv4: parts[0], IPv6: parts[1]}
		b := &rpc.IPSet{IPv4: parts[2], IPv6: parts[3]}
		_, _ = types.BuildIPNet(a, b)
		_, _ = types.ToIPSet(a)
		_, _ = types.ToIPNetSet(b)
		_, _ = types.BuildIPNet(nil, b)
		_, _ = types.ToIPSet(nil)
		_, _ = types.ToIPNetSet(nil)
	}
}

var bwNums = []string{"1", "10", "1000", "0", "00", "1.5", ".5", "5.", ".", "", "-1", "+7", "-0", "1e3", "0x10", "1_0", "१", "１２", "1 0", "99999999999999999999", "18446744073709551616",
	"0.0009765625", "2048.75", "1.2.3", "+", "-", "--1", "1,5", "inf", "nan", "3.999999", "123456.7891"}
var bwUnits = []string{"", "B", "b", "K", "k", "KB", "Kb", "KiB", "kib", "M", "MB", "MiB", "G", "GB", "GiB", "T", "TB", "TiB", "P", "KBB", "Ki", "iB", "bps", "m", "é", "Ω", "K ", " M"}

func c15Run(c *Ctx) {
	r := c.R
	emit := func(s string) {
		// value is compared where float64 arithmetic is exact enough; the outcome class everywhere (see DESIGN.md C15)
		op := "bw.parse " + hexStr(s)
		class, v := bwRun(s)
		if class == "ok" {
			if want, ok := exactBW(s); !ok || !want.IsUint64() || want.Uint64() != v || want.BitLen() > 52 {
				op = "bw.class " + hexStr(s)
				c.Count("bw-class-only(float-domain)")
			}
		}
		out := c15Exec(c, op)
		if out == "nonascii" {
			c.Count("bw-nonascii")
		}
		c.Count("bw-" + class)
		c.One(op, out, class == "ok")
	}
	for _, n := range bwNums {
		for _, u := range bwUnits {
			for _, sp := range []string{"", " ", "\t"} {
				emit(sp + n + u + sp)
			}
		}
	}
	for i := 0; i < c.Scale(3000, 60000); i++ {
		var s string
		switch r.Intn(4) {
		case 0: // well-formed
			s = fmt.Sprintf("%d", r.Intn(1<<uint(1+r.Intn(30))))
			if r.Chance(40) {
				s += fmt.Sprintf(".%d", r.Intn(10000))
			}
			s += Pick(r, bwUnits[:18])
		case 1: // near-valid
			s = Pick(r, bwNums) + Pick(r, bwUnits)
		case 2: // raw bytes
			n := r.Intn(8)
			b := make([]byte, n)
			for j := range b {
				b[j] = Pick(r, []byte("0123456789.+-eEkKmMgGtTbBiI _\t\x00\xff\xc3\xa9"))
			}
			s = string(b)
		default:
			s = strings.Repeat(Pick(r, []string{"1", "9", "0", "."}), r.Intn(40)) + Pick(r, bwUnits)
		}
		emit(s)
	}
	// monotone scaling on the implementation: same number, growing units
	for i := 0; i < c.Scale(300, 5000); i++ {
		num := fmt.Sprintf("%d", 1+r.Intn(1<<uint(1+r.Intn(20))))
		if r.Chance(50) {
			num += fmt.Sprintf(".%d", r.Intn(1000))
		}
		var prev uint64
		for k, u := range []string{"B", "K", "M", "G", "T"} {
			class, v := bwRun(num + u)
			if class != "ok" {
				c.Violate("C15/bandwidth/rejected-wellformed", fmt.Sprintf("parseBandwidth(%q) rejected", num+u), "bw.parse "+hexStr(num+u))
				break
			}
			if k > 0 && v < prev && v < 1<<63 && prev < 1<<63 {
				c.Violate("C15/bandwidth/not-monotone", fmt.Sprintf("%s%s=%d is smaller than the value with the previous unit (%d)", num, u, v, prev), "bw.parse "+hexStr(num+u))
			}
			prev = v
		}
		c.Count("monotone-ladders")
	}
	// other user-controlled inputs: executed on the implementation under recover (monitor only)
	jsonish := []string{`{}`, `[]`, `null`, `{"podNetworks":[{"interface":"eth0","vSwitchOptions":["v"],"securityGroupIDs":null}]}`, `{"podNetworks":null}`, `{"podNetworks":[null]}`,
		`[{"interfaceName":"eth0","network":"n"}]`, `[null]`, `{"a":{"0":1}}`, `{"a":{"1":1}}`, `{"a":{"2":1}}`, `{"a":{"7":1},"b":{"7":2}}`, `{"a":{"-3":1}}`, `{"a":null}`, `{"a":{"99999999999999999999":1}}`,
		`{"version":"1","max_pool_size":-5,"min_pool_size":9,"vswitches":{"z":["v"]},"security_group":"sg"}`, `{"vswitches":null,"security_groups":[null]}`, `{"eni_tags":{"a":null}}`, `{"ip_stack":7}`,
		`{"vswitches":{"z":null}}`, `{"extra_routes":[{"dst":""}]}`, `"x"`, `{`, ``, `{"kube_client_qps":1e400}`, strings.Repeat("[", 50)}
	ips := []string{"", "10.0.0.1", "10.0.0.1/24", "fd00::1", "fd00::1/64", "::ffff:1.2.3.4", "300.1.1.1", "10.0.0.1/33", "/", "1", "a.b.c.d/1", "10.0.0.1/-1"}
	annoKeys := []string{"k8s.aliyun.com/ingress-bandwidth", "k8s.aliyun.com/egress-bandwidth", "k8s.aliyun.com/pod-eni", "k8s.aliyun.com/network-priority",
		"k8s.aliyun.com/pod-ip-reservation", "k8s.aliyun.com/pod-networks", "k8s.aliyun.com/pod-networks-request", "k8s.aliyun.com/pod-with-eni", "podip", "podip2"}
	for i := 0; i < c.Scale(1500, 30000); i++ {
		var entry, input string
		switch r.Intn(5) {
		case 0:
			entry = "convertpod"
			var kv []string
			for _, k := range annoKeys {
				if r.Chance(50) {
					v := Pick(r, append(append(append([]string{"true", "false", "TRUE", "t", "guaranteed", "best-effort", "burstable", "x"}, bwNums...), jsonish...), ips...))
					if r.Chance(30) {
						v += Pick(r, bwUnits)
					}
					kv = append(kv, k+"="+v)
				}
			}
			input = strings.Join(kv, "\x00")
		case 1:
			entry = "numa"
			input = Pick(r, jsonish)
			if r.Chance(40) {
				input = fmt.Sprintf(`{"c%d":{"%d":"x"}}`, r.Intn(3), r.Intn(12)-3)
			}
		case 2:
			entry = "config"
			input = Pick(r, jsonish) + "\x00" + Pick(r, jsonish)
		case 3:
			entry = "resid"
			input = Pick(r, []string{"", ".", "a.b", "a.b.c", "00:11:22:33:44:55.10.0.0.1", "noDot", "..", "é.1"})
		default:
			entry = "ipset"
			input = Pick(r, ips) + "\x00" + Pick(r, ips) + "\x00" + Pick(r, ips) + "\x00" + Pick(r, ips)
		}
		op := "# fuzz " + entry + " " + hexStr(input)
		c.One(op, c15Exec(c, op), false)
		c.Count("fuzz-" + entry)
	}
	// (4) stored records through the daemon's start-up filter
	srRun(c, "C15", c.Scale(600, 12000))
	// ConfigMap content that reaches a wait loop of the daemon: backoff_override x Remote.Allocate (c15remote.go)
	rmRun(c, c.Scale(60, 600))
	// (5) CNI configuration lists through terway-cli (c20.go)
	c15ChainRun(c, c.Scale(500, 8000))
}
