package main

import (
	"encoding/binary"
	"fmt"
	"math/big"
	"net"
	"strings"

	terwayip "github.com/AliyunContainerService/terway/pkg/ip"
	"github.com/AliyunContainerService/terway/pkg/link"
	"github.com/AliyunContainerService/terway/pkg/tc"
	"github.com/AliyunContainerService/terway/plugin/datapath"
	"github.com/AliyunContainerService/terway/plugin/driver/utils"
	"github.com/vishvananda/netlink"
)

func init() {
	register(&Prop{ID: "C14", Run: c14Run, Exec: pureExec(c14Exec), Corpus: [][]string{
		{"net.gw 32 00000000 8"}, {"net.gw 32 00010000 16"}, {"net.gw 128 00000000000000000000000000000000 64"},
		{"net.gw 32 c0a80100 30"}, {"net.gw 32 c0a80100 31"}, {"net.gw 32 c0a80101 32"}, {"net.gw 32 00000000 31"},
		{"net.u32v4 0a010203 0"}, {"net.u32v4 0a010203 32"}, {"net.u32v6 fd000000 0 0 1 0"}, {"net.u32v6 fd000000 0 0 1 128"},
		{"net.veth 63616c69 6e73 706f64 65746830"}, {"net.veth 63616c69 6e73 706f64 -"},
	}})
}

func keyStr(k netlink.TcU32Key) string { return fmt.Sprintf("%d:%08x:%08x", k.Off, k.Mask, k.Val) }

func ip4(v uint32) net.IP { b := make(net.IP, 4); binary.BigEndian.PutUint32(b, v); return b }

// evalKeys applies u32 keys to a raw packet header the way the kernel does: word at offset, masked compare.
func evalKeys(keys []netlink.TcU32Key, hdr []byte) bool {
	for _, k := range keys {
		if int(k.Off) < 0 || int(k.Off)+4 > len(hdr) {
			return false
		}
		if binary.BigEndian.Uint32(hdr[k.Off:])&k.Mask != k.Val {
			return false
		}
	}
	return true
}

func hdr4(src, dst net.IP) []byte {
	h := make([]byte, 20)
	h[0] = 0x45
	copy(h[12:16], src.To4())
	copy(h[16:20], dst.To4())
	return h
}
func hdr6(src, dst net.IP) []byte {
	h := make([]byte, 40)
	h[0] = 0x60
	copy(h[8:24], src.To16())
	copy(h[24:40], dst.To16())
	return h
}

// probes returns addresses around the prefix: inside ones and ones differing in exactly one prefix bit.
func probes(r *Rng, base net.IP, n int) []net.IP {
	l := len(base)
	var res []net.IP
	mk := func() net.IP { b := make(net.IP, l); copy(b, base); return b }
	// inside: random host bits
	for k := 0; k < 3; k++ {
		b := mk()
		for i := n; i < l*8; i++ {
			if r.Bool() {
				b[i/8] ^= 1 << (7 - i%8)
			}
		}
		res = append(res, b)
	}
	// outside: flip one bit in the prefix (first, last, random), host bits random
	if n > 0 {
		for _, bit := range []int{0, n - 1, r.Intn(n)} {
			b := mk()
			b[bit/8] ^= 1 << (7 - bit%8)
			for i := n; i < l*8; i++ {
				if r.Bool() {
					b[i/8] ^= 1 << (7 - i%8)
				}
			}
			res = append(res, b)
		}
	}
	// just outside / boundary: host bits all ones, all zeros
	b := mk()
	for i := n; i < l*8; i++ {
		b[i/8] |= 1 << (7 - i%8)
	}
	res = append(res, b)
	return res
}

func c14Exec(c *Ctx, op string) string {
	return protect(func() string {
		f := strings.Fields(op)
		if len(f) == 0 {
			return "bad-op"
		}
		if f[0] == "#" { // monitor-only case: executed on the implementation, not sent to the model
			c14Exec(c, strings.Join(f[1:], " "))
			return "#"
		}
		switch f[0] {
		case "net.keep4":
			var ipv, ipv2 uint32
			var n, n2 int
			if len(f) != 5 {
				return "bad-op"
			}
			if _, err := fmt.Sscanf(strings.Join(f[1:], " "), "%x %d %x %d", &ipv, &n, &ipv2, &n2); err != nil || n > 32 || n2 > 32 {
				return "bad-op"
			}
			want := &net.IPNet{IP: ip4(ipv), Mask: net.CIDRMask(n, 32)}
			have := &net.IPNet{IP: ip4(ipv2), Mask: net.CIDRMask(n2, 32)}
			keep, err := datapath.VerifDstRuleKeeps(1, want, have, 2)
			if err != nil {
				return "err"
			}
			if !keep {
				return "replace"
			}
			c.Count("net.keep4-kept")
			// monitor: a kept filter classifies exactly the CIDR it is kept for
			off, val, mask, _ := datapath.VerifDstIPRule(1, have, 2)
			keys := []netlink.TcU32Key{{Off: off, Val: val, Mask: mask}}
			other := ip4(c.R.U32())
			for _, a := range append(probes(c.R, ip4(ipv), n), probes(c.R, ip4(ipv2), n2)...) {
				if evalKeys(keys, hdr4(other, a)) != want.Contains(a) {
					c.Violate("C14/dst4/kept-filter-not-exact", fmt.Sprintf("the filter installed for %s is kept as the classifier of %s, but gives %v on %s (containment %v)", have, want, evalKeys(keys, hdr4(other, a)), a, want.Contains(a)), op)
					break
				}
			}
			return "keep"
		case "net.u32v4", "net.dst4":
			var ipv uint32
			var n int
			if len(f) != 3 {
				return "bad-op"
			}
			if _, err := fmt.Sscanf(f[1]+" "+f[2], "%x %d", &ipv, &n); err != nil || n > 32 {
				return "bad-op"
			}
			ip := ip4(ipv)
			if ipv&1 == 1 { // exercise both representations of an IPv4 address
				ip = ip.To16()
			}
			ipNet := &net.IPNet{IP: ip, Mask: net.CIDRMask(n, 32)}
			var keys []netlink.TcU32Key
			var out string
			if f[0] == "net.u32v4" {
				k := tc.U32IPv4Src(ipNet)
				keys = tc.U32MatchSrc(ipNet)
				out = keyStr(k)
				if len(keys) != 1 || keys[0] != k {
					c.Violate("C14/u32v4/matchsrc", "U32MatchSrc differs from U32IPv4Src", op)
				}
			} else {
				off, val, mask, err := datapath.VerifDstIPRule(1, ipNet, 2)
				if err != nil {
					return "err"
				}
				k := netlink.TcU32Key{Off: off, Val: val, Mask: mask}
				keys = []netlink.TcU32Key{k}
				out = keyStr(k)
			}
			// monitor: key matches a packet exactly when the address lies in the CIDR
			other := ip4(c.R.U32())
			for _, a := range probes(c.R, ip4(ipv), n) {
				var h []byte
				if f[0] == "net.u32v4" {
					h = hdr4(a, other)
				} else {
					h = hdr4(other, a)
				}
				if evalKeys(keys, h) != ipNet.Contains(a) {
					c.Violate(fmt.Sprintf("C14/%s/n=%d", f[0], n),
						fmt.Sprintf("classifier key %s for %s/%d gives %v on address %s, containment is %v", out, ip4(ipv), n, evalKeys(keys, h), a, ipNet.Contains(a)), op)
				}
			}
			return out
		case "net.u32v6":
			if len(f) != 6 {
				return "bad-op"
			}
			ip := make(net.IP, 16)
			for i := 0; i < 4; i++ {
				var w uint32
				if _, err := fmt.Sscanf(f[1+i], "%x", &w); err != nil {
					return "bad-op"
				}
				binary.BigEndian.PutUint32(ip[4*i:], w)
			}
			var n int
			if _, err := fmt.Sscanf(f[5], "%d", &n); err != nil || n > 128 {
				return "bad-op"
			}
			ipNet := &net.IPNet{IP: ip, Mask: net.CIDRMask(n, 128)}
			if ip.To4() != nil {
				return "skip-v4mapped"
			}
			keys := tc.U32IPv6Src(ipNet)
			ms := tc.U32MatchSrc(ipNet)
			if fmt.Sprint(ms) != fmt.Sprint(keys) {
				c.Violate("C14/u32v6/matchsrc", "U32MatchSrc differs from U32IPv6Src", op)
			}
			other := make(net.IP, 16)
			binary.BigEndian.PutUint64(other, c.R.U64())
			for _, a := range probes(c.R, ip, n) {
				if a.To4() != nil {
					continue
				}
				if evalKeys(keys, hdr6(a, other)) != ipNet.Contains(a) {
					c.Violate(fmt.Sprintf("C14/net.u32v6/n=%d", n),
						fmt.Sprintf("classifier keys for %s/%d give %v on %s, containment is %v", ip, n, evalKeys(keys, hdr6(a, other)), a, ipNet.Contains(a)), op)
				}
			}
			if len(keys) == 0 {
				return "-"
			}
			var ss []string
			for _, k := range keys {
				ss = append(ss, keyStr(k))
			}
			return strings.Join(ss, ",")
		case "net.gw":
			if len(f) != 4 {
				return "bad-op"
			}
			var w, n int
			fmt.Sscanf(f[1], "%d", &w)
			fmt.Sscanf(f[3], "%d", &n)
			if (w != 32 && w != 128) || n > w || len(f[2]) != w/4 {
				return "bad-op"
			}
			addr, ok := new(big.Int).SetString(f[2], 16)
			if !ok {
				return "bad-op"
			}
			ip := net.IP(addr.FillBytes(make([]byte, w/8)))
			if w == 128 && ip.To4() != nil {
				return "skip-v4mapped"
			}
			cidr := fmt.Sprintf("%s/%d", ip.String(), n)
			got := terwayip.DeriveGatewayIP(cidr)
			// monitor: independent computation of "third from last, or empty when too small"
			host := new(big.Int).Sub(new(big.Int).Lsh(big.NewInt(1), uint(w-n)), big.NewInt(1))
			first := new(big.Int).AndNot(addr, host)
			last := new(big.Int).Or(first, host)
			want := ""
			if host.Cmp(big.NewInt(2)) >= 0 {
				want = net.IP(new(big.Int).Sub(last, big.NewInt(2)).FillBytes(make([]byte, w/8))).String()
			}
			if got != want {
				if ambiguous6(addr, w, n) {
					c.Violate("C14/gw/v6-subnet-inside-::/80", fmt.Sprintf("DeriveGatewayIP(%s)=%q want %q", cidr, got, want), "# "+op)
					return "ambiguous"
				}
				c.Violate("C14/gw/"+cidrClass(addr, w, n), fmt.Sprintf("DeriveGatewayIP(%s)=%q, third-from-last address is %q", cidr, got, want), op)
			}
			if got == "" {
				return "none"
			}
			g := net.ParseIP(got)
			if g == nil {
				return "unparsable:" + got
			}
			if w == 32 {
				g = g.To4()
				if g == nil {
					return "wrong-family:" + got
				}
			}
			return fmt.Sprintf("%0*x", w/4, new(big.Int).SetBytes(g))
		case "net.table":
			var i int
			if len(f) != 2 {
				return "bad-op"
			}
			if _, err := fmt.Sscanf(f[1], "%d", &i); err != nil {
				return "bad-op"
			}
			t := utils.GetRouteTableID(i)
			// against a random other index and against the neighbours (a collision made by a special case is local)
			js := []int{c.R.Intn(4096)}
			for d := 1; d <= 8; d++ {
				js = append(js, i+d)
				if i-d >= 0 {
					js = append(js, i-d)
				}
			}
			for _, j := range js {
				if (utils.GetRouteTableID(j) == t) != (i == j) || t <= 255 {
					c.Violate("C14/table", fmt.Sprintf("route table id not unique/reserved: f(%d)=%d f(%d)=%d", i, t, j, utils.GetRouteTableID(j)), op)
				}
			}
			return fmt.Sprint(t)
		case "net.veth":
			if len(f) != 5 {
				return "bad-op"
			}
			pfx, ns, name, ifn := unhexStr(f[1]), unhexStr(f[2]), unhexStr(f[3]), unhexStr(f[4])
			got, err := link.VethNameForPod(name, ns, ifn, pfx)
			if err != nil {
				return "err"
			}
			again, _ := link.VethNameForPod(name, ns, ifn, pfx)
			if again != got {
				c.Violate("C14/veth/deterministic", "VethNameForPod not deterministic", op)
			}
			if len(pfx) <= 4 && len(got) > 15 {
				c.Violate("C14/veth/len", fmt.Sprintf("veth name %q longer than 15 bytes", got), op)
			}
			norm := func(s string) string {
				if s == "eth0" {
					return ""
				}
				return s
			}
			for _, o := range []string{"", "eth0", "eth1", "net1", ifn + "x"} {
				og, _ := link.VethNameForPod(name, ns, o, pfx)
				if (norm(o) == norm(ifn)) != (og == got) {
					c.Violate("C14/veth/distinct", fmt.Sprintf("interfaces %q and %q of pod %s/%s map to %q and %q", ifn, o, ns, name, got, og), op)
				}
			}
			return got
		}
		return "bad-op"
	})
}

// ambiguous6: IPv6 subnets of length >= 80 inside ::/80.  Their last addresses are IPv4-mapped
// (::ffff:a.b.c.d); Go's net.IP cannot tell those from IPv4 addresses, so GetIPAtIndex switches family.
func ambiguous6(addr *big.Int, w, n int) bool {
	return w == 128 && n >= 80 && new(big.Int).Rsh(addr, 48).Sign() == 0
}

func cidrClass(addr *big.Int, w, n int) string {
	lead := "nz"
	if new(big.Int).Rsh(addr, uint(w-8)).Sign() == 0 {
		lead = "lead0"
	}
	small := "big"
	if w-n < 2 {
		small = "small"
	}
	return fmt.Sprintf("v%d/%s/%s", w, lead, small)
}

func c14Run(c *Ctx) {
	r := c.R
	bases4 := []uint32{0, 0xffffffff, 0x0a000001, 0xc0a80164, 0xac100a0b, 0x00010203, 0x7f000001, 0x80000000, 0x000000ff, 0xfffffffe}
	reps := c.Scale(6, 60)
	for rep := 0; rep < reps; rep++ {
		for n := 0; n <= 32; n++ {
			var ip uint32
			if rep < len(bases4) {
				ip = bases4[rep]
			} else {
				ip = r.U32()
			}
			for _, op := range []string{"net.u32v4", "net.dst4"} {
				line := fmt.Sprintf("%s %08x %d", op, ip, n)
				c.One(line, c14Exec(c, line), n > 0 && n < 32)
				c.Count(op)
			}
			// a filter left on the ENI by an earlier configuration: the same network address with another prefix length, the same
			// CIDR, a neighbouring one - kept or replaced?
			n2 := Pick(r, []int{n, n, (n + 8) % 33, (n + 24) % 33, r.Intn(33)})
			ip2 := Pick(r, []uint32{ip, ip, ip, ip ^ 1<<uint(r.Intn(32)), r.U32()})
			kl := fmt.Sprintf("net.keep4 %08x %d %08x %d", ip, n, ip2, n2)
			c.One(kl, c14Exec(c, kl), n2 != n)
			c.Count("net.keep4")
			line := fmt.Sprintf("net.gw 32 %08x %d", ip, n)
			c.One(line, c14Exec(c, line), n < 31)
			c.Count("net.gw4")
		}
	}
	for rep := 0; rep < c.Scale(3, 20); rep++ {
		for n := 0; n <= 128; n++ {
			w := [4]uint32{r.U32(), r.U32(), r.U32(), r.U32()}
			switch rep {
			case 0:
				w = [4]uint32{0xfd000000, 0, 0, 1}
			case 1:
				w = [4]uint32{0, 0, 0, 1}
			case 2:
				w = [4]uint32{0xffffffff, 0xffffffff, 0xffffffff, 0xffffffff}
			}
			if r.Chance(30) {
				w[r.Intn(4)] = 0
			}
			line := fmt.Sprintf("net.u32v6 %08x %08x %08x %08x %d", w[0], w[1], w[2], w[3], n)
			c.One(line, c14Exec(c, line), n > 0 && n < 128)
			c.Count("net.u32v6")
			line = fmt.Sprintf("net.gw 128 %08x%08x%08x%08x %d", w[0], w[1], w[2], w[3], n)
			if a, _ := new(big.Int).SetString(strings.Fields(line)[2], 16); ambiguous6(a, 128, n) {
				line = "# " + line
			}
			c.One(line, c14Exec(c, line), n < 127)
			c.Count("net.gw6")
		}
	}
	// interface indexes are small integers: every one up to 4095 (65535 in the thorough tier), plus random large ones
	for idx := 0; idx < c.Scale(4096, 65536); idx++ {
		line := fmt.Sprintf("net.table %d", idx)
		c.One(line, c14Exec(c, line), idx > 0)
		c.Count("net.table")
	}
	for i := 0; i < c.Scale(200, 4000); i++ {
		idx := r.Intn(1 << uint(1+r.Intn(20)))
		line := fmt.Sprintf("net.table %d", idx)
		c.One(line, c14Exec(c, line), idx > 0)
		c.Count("net.table")
	}
	pfxs := []string{"cali", "", "c", "hveth", "veth", "calico1"}
	ifs := []string{"", "eth0", "eth1", "net1", "eth00", "e"}
	for i := 0; i < c.Scale(300, 6000); i++ {
		ns, name := r.Ident(4), r.Ident(6)
		if r.Chance(5) {
			name = strings.Repeat(name, 20) // multi-block SHA-1 input
		}
		ifn := Pick(r, ifs)
		if r.Chance(20) {
			ifn = r.Ident(2)
		}
		line := fmt.Sprintf("net.veth %s %s %s %s", hexStr(Pick(r, pfxs)), hexStr(ns), hexStr(name), hexStr(ifn))
		c.One(line, c14Exec(c, line), true)
		c.Count("net.veth")
	}
}
