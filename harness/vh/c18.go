package main

import (
	"context"
	"encoding/json"
	"fmt"
	"k8s.io/apimachinery/pkg/api/resource"
	"sort"
	"strings"

	jsonpatch "github.com/evanphx/json-patch"
	admissionv1 "k8s.io/api/admission/v1"
	corev1 "k8s.io/api/core/v1"
	metav1 "k8s.io/apimachinery/pkg/apis/meta/v1"
	"k8s.io/apimachinery/pkg/runtime"
	"sigs.k8s.io/controller-runtime/pkg/client"
	"sigs.k8s.io/controller-runtime/pkg/client/fake"
	"sigs.k8s.io/controller-runtime/pkg/webhook/admission"

	"github.com/AliyunContainerService/terway/pkg/apis/network.alibabacloud.com/v1beta1"
	terwaywebhook "github.com/AliyunContainerService/terway/pkg/controller/webhook"
	"github.com/AliyunContainerService/terway/types"
	"github.com/AliyunContainerService/terway/types/controlplane"
)

func init() {
	register(&Prop{ID: "C18", Run: c18Run, Exec: pureExec(c18Exec), Corpus: [][]string{
		{"wh.adm 0,1,0,0,0,0,1,0,0 - - web:1:0:t:n:vsw-1:sg-1:0:zone-a,zone-b 1 - 0 1 1 vsw-9:sg-9"},
		{"wh.adm 0,1,0,1,0,0,1,0,0 65746831:-:-:n:0 - - 1 - 0 0 0 vsw-9:sg-9"},
		{"wh.adm 0,1,0,0,1,0,0,0,0 - n1:-+n2:65746831+n3:65746832 n1:1:0:n:n:v:s:0:a+n2:1:0:n:n:v:s:0:b+n3:1:0:n:n:v:s:0:c 1 - 0 1 1 vsw-9:sg-9"},
		{"wh.adm 0,1,0,0,0,0,1,0,0 - - web:1:0:t:f:vsw-1:sg-1:0:zone-a 1 - 0 1 1 vsw-9:sg-9"},
	}})
}

type c18Net struct {
	Iface  string
	Vsw    []string
	Sgs    []string
	Fixed  string // n | f | e
	Attach bool
}

func lstTok(s string) []string {
	if s == "-" {
		return nil
	}
	return strings.Split(s, ",")
}
func lstStr(l []string) string {
	if len(l) == 0 {
		return "-"
	}
	return strings.Join(l, ",")
}

func netToAnno(n c18Net) controlplane.PodNetworks {
	p := controlplane.PodNetworks{Interface: n.Iface, VSwitchOptions: n.Vsw, SecurityGroupIDs: n.Sgs}
	switch n.Fixed {
	case "f":
		p.AllocationType = &v1beta1.AllocationType{Type: v1beta1.IPAllocTypeFixed, ReleaseStrategy: v1beta1.ReleaseStrategyTTL, ReleaseAfter: "5m"}
	case "e":
		p.AllocationType = &v1beta1.AllocationType{Type: v1beta1.IPAllocTypeElastic}
	}
	if n.Attach {
		p.ENIOptions.ENIAttachType = v1beta1.ENIOptionTypeENI
	}
	return p
}

func annoToNetTok(p controlplane.PodNetworks) string {
	fx := "n"
	if p.AllocationType != nil {
		fx = "e"
		if p.AllocationType.Type == v1beta1.IPAllocTypeFixed {
			fx = "f"
		}
	}
	return fmt.Sprintf("%s:%s:%s:%s:%s", hexStr(p.Interface), lstStr(p.VSwitchOptions), lstStr(p.SecurityGroupIDs), fx, b01(p.ENIOptions.ENIAttachType == v1beta1.ENIOptionTypeENI))
}

var c18Scheme = func() *runtime.Scheme {
	s := runtime.NewScheme()
	_ = corev1.AddToScheme(s)
	_ = v1beta1.AddToScheme(s)
	return s
}()

func c18Exec(c *Ctx, op string) string {
	return protect(func() string {
		f := strings.Fields(op)
		if len(f) != 11 || f[0] != "wh.adm" {
			return "bad-op"
		}
		pf := strings.Split(f[1], ",")
		if len(pf) != 9 {
			return "bad-op"
		}
		hostNet, ignored, hasNets, hasReq, hasPN, fixedName, ds, useENI := pf[0] == "1", pf[2] == "1", pf[3] == "1", pf[4] == "1", pf[5] == "1", pf[6] == "1", pf[7] == "1", pf[8] == "1"
		var containers, pre int
		if i := strings.Index(pf[1], "r"); i >= 0 {
			fmt.Sscanf(pf[1][:i], "%d", &containers)
			fmt.Sscanf(pf[1][i+1:], "%d", &pre)
		} else {
			fmt.Sscanf(pf[1], "%d", &containers)
		}
		pod := &corev1.Pod{TypeMeta: metav1.TypeMeta{Kind: "Pod", APIVersion: "v1"},
			ObjectMeta: metav1.ObjectMeta{Name: "web-0", Namespace: "ns1", Labels: map[string]string{"app": "web"}, Annotations: map[string]string{}},
			Spec:       corev1.PodSpec{HostNetwork: hostNet}}
		for i := 0; i < containers; i++ {
			pod.Spec.Containers = append(pod.Spec.Containers, corev1.Container{Name: fmt.Sprintf("c%d", i), Image: "img"})
		}
		if pre > 0 && containers > 0 {
			// the pod template already declares the device resources
			q := resource.MustParse(fmt.Sprint(pre))
			pod.Spec.Containers[0].Resources = corev1.ResourceRequirements{
				Requests: corev1.ResourceList{"aliyun/eni": q, "aliyun/member-eni": q},
				Limits:   corev1.ResourceList{"aliyun/eni": q, "aliyun/member-eni": q}}
		}
		if ignored {
			pod.Labels[types.IgnoreByTerway] = "true"
		}
		switch {
		case ds:
			pod.OwnerReferences = []metav1.OwnerReference{{Kind: "DaemonSet", Name: "d", APIVersion: "apps/v1", UID: "u"}}
		case fixedName:
			pod.OwnerReferences = []metav1.OwnerReference{{Kind: "StatefulSet", Name: "web", APIVersion: "apps/v1", UID: "u"}}
		default:
			pod.OwnerReferences = []metav1.OwnerReference{{Kind: "ReplicaSet", Name: "web", APIVersion: "apps/v1", UID: "u"}}
		}
		if useENI {
			pod.Annotations[types.PodENI] = "true"
		}
		var inNets []c18Net
		switch f[2] {
		case "-":
			if hasNets {
				pod.Annotations[types.PodNetworks] = `{"podNetworks":[]}`
			}
		case "bad":
			pod.Annotations[types.PodNetworks] = "{"
		default:
			var pa controlplane.PodNetworksAnnotation
			for _, t := range strings.Split(f[2], "+") {
				p := strings.Split(t, ":")
				n := c18Net{Iface: unhexStr(p[0]), Vsw: lstTok(p[1]), Sgs: lstTok(p[2]), Fixed: p[3], Attach: p[4] == "1"}
				inNets = append(inNets, n)
				pa.PodNetworks = append(pa.PodNetworks, netToAnno(n))
			}
			b, _ := json.Marshal(pa)
			pod.Annotations[types.PodNetworks] = string(b)
		}
		switch f[3] {
		case "-":
			if hasReq {
				pod.Annotations[types.PodNetworksRequest] = "[]"
			}
		case "bad":
			pod.Annotations[types.PodNetworksRequest] = "{"
		default:
			var rs []controlplane.PodNetworkRef
			for _, t := range strings.Split(f[3], "+") {
				p := strings.Split(t, ":")
				rs = append(rs, controlplane.PodNetworkRef{Network: p[0], InterfaceName: unhexStr(p[1])})
			}
			b, _ := json.Marshal(rs)
			pod.Annotations[types.PodNetworksRequest] = string(b)
		}
		if hasPN {
			pod.Annotations[types.PodNetworking] = "something"
		}
		var objs []client.Object
		type pnInfo struct {
			zones []string
			ready bool
			sel   bool
		}
		pnByName := map[string]pnInfo{}
		if f[4] != "-" {
			for i, t := range strings.Split(f[4], "+") {
				p := strings.Split(t, ":")
				pn := &v1beta1.PodNetworking{ObjectMeta: metav1.ObjectMeta{Name: p[0], CreationTimestamp: metav1.Unix(int64(1000+i), 0)},
					Spec: v1beta1.PodNetworkingSpec{VSwitchOptions: lstTok(p[5]), SecurityGroupIDs: lstTok(p[6]),
						AllocationType: v1beta1.AllocationType{Type: v1beta1.IPAllocTypeElastic}}}
				if p[2] == "1" {
					pn.Spec.AllocationType = v1beta1.AllocationType{Type: v1beta1.IPAllocTypeFixed, ReleaseStrategy: v1beta1.ReleaseStrategyTTL, ReleaseAfter: "5m"}
				}
				if p[7] == "1" {
					pn.Spec.ENIOptions.ENIAttachType = v1beta1.ENIOptionTypeENI
				}
				if p[1] == "1" {
					pn.Status.Status = v1beta1.NetworkingStatusReady
				} else {
					pn.Status.Status = v1beta1.NetworkingStatusFail
				}
				switch p[3] {
				case "t":
					pn.Spec.Selector.PodSelector = &metav1.LabelSelector{MatchLabels: map[string]string{"app": "web"}}
				case "f":
					pn.Spec.Selector.PodSelector = &metav1.LabelSelector{MatchExpressions: []metav1.LabelSelectorRequirement{{Key: "app", Operator: metav1.LabelSelectorOpNotIn, Values: []string{"web"}}}}
				}
				switch p[4] {
				case "t":
					pn.Spec.Selector.NamespaceSelector = &metav1.LabelSelector{MatchLabels: map[string]string{"team": "a"}}
				case "f":
					pn.Spec.Selector.NamespaceSelector = &metav1.LabelSelector{MatchLabels: map[string]string{"team": "b"}}
				}
				for _, z := range lstTok(p[8]) {
					pn.Status.VSwitches = append(pn.Status.VSwitches, v1beta1.VSwitch{ID: "vsw-" + z, Zone: z})
				}
				objs = append(objs, pn)
				if _, dup := pnByName[p[0]]; !dup {
					pnByName[p[0]] = pnInfo{zones: lstTok(p[8]), ready: p[1] == "1", sel: p[3] != "n" || p[4] != "n"}
				}
			}
		}
		if f[5] == "1" {
			objs = append(objs, &corev1.Namespace{ObjectMeta: metav1.ObjectMeta{Name: "ns1", Labels: map[string]string{"team": "a"}}})
		}
		if f[6] != "-" {
			objs = append(objs, &v1beta1.PodENI{ObjectMeta: metav1.ObjectMeta{Name: "web-0", Namespace: "ns1"},
				Spec: v1beta1.PodENISpec{Zone: f[6], Allocations: []v1beta1.Allocation{{IPv4: "10.0.0.5"}}}})
		}
		if f[10] != "-" {
			p := strings.SplitN(f[10], ":", 3)
			conf := map[string]any{"version": "1", "security_groups": lstTok(p[1])}
			if len(p) == 3 {
				conf["security_group"] = p[2] // the legacy single-group field, merged into the effective set
			}
			if v := lstTok(p[0]); len(v) > 0 {
				conf["vswitches"] = map[string][]string{"zone-x": v}
			}
			b, _ := json.Marshal(conf)
			objs = append(objs, &corev1.ConfigMap{ObjectMeta: metav1.ObjectMeta{Namespace: "kube-system", Name: "eni-config"}, Data: map[string]string{"eni_conf": string(b)}})
		}
		cl := fake.NewClientBuilder().WithScheme(c18Scheme).WithObjects(objs...).Build()
		raw, _ := json.Marshal(pod)
		inject, trunk := f[8] == "1", f[9] == "1"
		cfg := &controlplane.Config{EnableWebhookInjectResource: &inject, EnableTrunk: &trunk}
		if f[7] == "1" {
			cfg.IPAMType = types.IPAMTypeCRD
		}
		req := &admission.Request{AdmissionRequest: admissionv1.AdmissionRequest{Name: "web-0", Namespace: "ns1", Object: runtime.RawExtension{Raw: raw},
			Kind: metav1.GroupVersionKind{Kind: "Pod", Version: "v1"}}}
		resp := terwaywebhook.VerifPodWebhook(context.Background(), req, cl, cfg)
		if !resp.Allowed {
			msg := ""
			if resp.Result != nil {
				msg = resp.Result.Message
				if msg == "" {
					msg = string(resp.Result.Reason)
				}
			}
			if resp.Result != nil && resp.Result.Code != 403 {
				return "errored"
			}
			switch {
			case strings.Contains(msg, "mutually exclusive"):
				return "denied:exclusive"
			case strings.Contains(msg, "unable parse annotation field"):
				return "denied:parse-networks"
			case strings.Contains(msg, "unable parse annotation"):
				return "denied:parse-request"
			case strings.Contains(msg, "security group can not more than 10"):
				return "denied:sg>10"
			case strings.Contains(msg, "interface name should"):
				return "denied:iface-len"
			case strings.Contains(msg, "duplicated interface"):
				return "denied:dup-iface"
			case strings.Contains(msg, "fixed ip only support"):
				return "denied:fixed-name"
			}
			return "denied:other:" + strings.ReplaceAll(msg, " ", "_")
		}
		if len(resp.Patches) == 0 {
			// monitor: pods outside the webhook's scope stay untouched (no patch at all)
			return "allowed"
		}
		pb, _ := json.Marshal(resp.Patches)
		patch, err := jsonpatch.DecodePatch(pb)
		if err != nil {
			return "bad-patch"
		}
		out, err := patch.Apply(raw)
		if err != nil {
			return "bad-patch"
		}
		patched := &corev1.Pod{}
		if err := json.Unmarshal(out, patched); err != nil {
			return "bad-patch"
		}
		if hostNet || ignored {
			c.Violate("C18/out-of-scope-patched", "a host-network / ignored pod was patched", op)
		}
		pa, err := controlplane.ParsePodNetworksFromAnnotation(patched)
		if err != nil || pa == nil {
			c.Violate("C18/complete/unparseable", "patched pod carries an unparseable pod-networks annotation", op)
			return "patched-unparseable"
		}
		if patched.Annotations[types.PodENI] != "true" {
			c.Violate("C18/complete/pod-eni-flag", "patched pod lacks pod-eni=true", op)
		}
		var toks []string
		seen := map[string]bool{}
		for _, n := range pa.PodNetworks {
			toks = append(toks, annoToNetTok(n))
			if len(n.Interface) < 1 || len(n.Interface) > 5 || seen[n.Interface] {
				c.Violate("C18/complete/interface", fmt.Sprintf("interface name %q not unique / not 1-5 characters", n.Interface), op)
			}
			seen[n.Interface] = true
			if len(n.SecurityGroupIDs) > 10 {
				c.Violate("C18/complete/sg>10", "more than ten security groups in an entry", op)
			}
			if n.AllocationType == nil {
				c.Violate("C18/complete/alloc-type", "entry without allocation type", op)
			} else if n.AllocationType.Type == v1beta1.IPAllocTypeFixed && !fixedName {
				c.Violate("C18/fixed-without-stable-name", "Fixed allocation admitted for a pod without a stable name", op)
			}
			if len(n.VSwitchOptions) == 0 || len(n.SecurityGroupIDs) == 0 {
				c.Violate("C18/complete/unfilled", fmt.Sprintf("entry %q leaves admission without vSwitches / security groups", n.Interface), op)
			}
		}
		res := "-"
		if len(patched.Spec.Containers) > 0 {
			var rs []string
			matching := 0
			for name, q := range patched.Spec.Containers[0].Resources.Requests {
				lq := patched.Spec.Containers[0].Resources.Limits[name]
				if lq.Value() != q.Value() {
					c.Violate("C18/device-request/limit", "device request and limit differ", op)
				}
				rs = append(rs, fmt.Sprintf("%s:%d", strings.TrimPrefix(string(name), "aliyun/"), q.Value()))
				if int(q.Value()) == len(pa.PodNetworks) {
					matching++
				}
			}
			// the injected request equals the number of networks; a template that declared the device resources itself
			// (both kinds, quantity pre) keeps the other kind, so at least one entry must carry the count
			if inject && len(rs) > 0 && matching == 0 {
				c.Violate("C18/device-request/count", fmt.Sprintf("device requests %v for %d networks", rs, len(pa.PodNetworks)), op)
			}
			if inject && pre == 0 && matching != len(rs) {
				c.Violate("C18/device-request/count", fmt.Sprintf("device requests %v for %d networks", rs, len(pa.PodNetworks)), op)
			}
			sort.Strings(rs)
			if len(rs) > 0 {
				res = strings.Join(rs, ",")
			}
			if inject && len(rs) == 0 {
				c.Violate("C18/device-request/missing", "resource injection is on but no device request was added", op)
			}
		}
		zones := "-"
		var terms []string
		if a := patched.Spec.Affinity; a != nil && a.NodeAffinity != nil && a.NodeAffinity.RequiredDuringSchedulingIgnoredDuringExecution != nil {
			for _, t := range a.NodeAffinity.RequiredDuringSchedulingIgnoredDuringExecution.NodeSelectorTerms {
				for _, e := range t.MatchExpressions {
					if e.Key == corev1.LabelTopologyZone {
						v := append([]string(nil), e.Values...)
						sort.Strings(v)
						terms = append(terms, lstStr(v))
						// monitor: for network-request pods every listed zone has a vSwitch in every requested network
						if f[3] != "-" && f[3] != "bad" && f[6] == "-" {
							for _, z := range v {
								for _, t := range strings.Split(f[3], "+") {
									info := pnByName[strings.Split(t, ":")[0]]
									found := false
									for _, pz := range info.zones {
										if pz == z {
											found = true
										}
									}
									if !found {
										c.Violate("C18/zone-affinity", fmt.Sprintf("zone %s listed although network %s has no vSwitch there", z, strings.Split(t, ":")[0]), op)
									}
								}
							}
						}
					}
				}
			}
		}
		if ds && len(terms) > 0 {
			c.Violate("C18/zone-affinity/daemonset", "zone affinity added to a DaemonSet pod", op)
		}
		if len(terms) > 0 {
			zones = strings.Join(terms, "|")
		}
		pnA := "-"
		if v, ok := patched.Annotations[types.PodNetworking]; ok && v != "something" {
			pnA = v
		}
		// monitor: outside CRD mode a pod matching no definition must not be claimed
		if f[7] != "1" && !useENI && f[2] == "-" && f[3] == "-" && pnA == "-" {
			c.Violate("C18/no-match-patched", "pod that matches no network definition was patched outside centralized-IPAM mode", op)
		}
		if pnA != "-" { // matched definition must really select the pod
			for _, t := range strings.Split(f[4], "+") {
				p := strings.Split(t, ":")
				if p[0] == pnA {
					if p[1] != "1" || p[3] == "f" || p[4] == "f" || (p[3] == "n" && p[4] == "n") {
						c.Violate("C18/match-unsound", fmt.Sprintf("pod bound to definition %s whose selectors do not all match", pnA), op)
					}
					break
				}
			}
		}
		return fmt.Sprintf("patched nets=%s pn=%s res=%s zones=%s", strings.Join(toks, "+"), pnA, res, zones)
	})
}

func c18Run(c *Ctx) {
	r := c.R
	zones := []string{"zone-a", "zone-b", "zone-c"}
	pickZones := func() string {
		var z []string
		for _, x := range zones {
			if r.Chance(50) {
				z = append(z, x)
			}
		}
		return lstStr(z)
	}
	for i := 0; i < c.Scale(2500, 40000); i++ {
		ds := r.Chance(8)
		fixedName := !ds && r.Chance(50)
		hasNets, hasReq, hasPN := false, false, r.Chance(6)
		anno, reqs := "-", "-"
		mode := r.Intn(10)
		switch {
		case mode < 2: // user-provided networks
			hasNets = true
			var ns []string
			for k := 0; k < 1+r.Intn(3); k++ {
				ifn := Pick(r, []string{"eth0", "eth1", "eth2", "net1", "", "toolong", "eth0"})
				sg := "sg-1"
				if r.Chance(8) {
					sg = strings.TrimSuffix(strings.Repeat("sg,", 11), ",")
				}
				if r.Chance(25) {
					sg = "-"
				}
				ns = append(ns, fmt.Sprintf("%s:%s:%s:%s:%s", hexStr(ifn), Pick(r, []string{"vsw-1", "vsw-1,vsw-2", "-"}), sg, Pick(r, []string{"n", "e", "f", "e"}), b01(r.Chance(20))))
			}
			anno = strings.Join(ns, "+")
			if r.Chance(5) {
				anno = "bad"
			}
		case mode < 4: // network requests
			hasReq = true
			var rs []string
			for k := 0; k < 1+r.Intn(3); k++ {
				ifn := fmt.Sprintf("eth%d", k)
				if k == 0 && r.Chance(50) {
					ifn = ""
				}
				rs = append(rs, fmt.Sprintf("%s:%s", Pick(r, []string{"n1", "n2", "n3", "n3", "nx"}), hexStr(ifn)))
			}
			reqs = strings.Join(rs, "+")
			if r.Chance(5) {
				reqs = "bad"
			}
		}
		if r.Chance(4) {
			hasNets, hasReq = true, true
		}
		var pns []string
		for _, name := range []string{"n1", "n2", "n3"} {
			if r.Chance(75) {
				ps, nsl := Pick(r, []string{"n", "n", "t", "f"}), Pick(r, []string{"n", "n", "t", "f"})
				if mode >= 2 && mode < 4 && r.Chance(80) {
					ps, nsl = "n", "n"
				}
				pns = append(pns, fmt.Sprintf("%s:%s:%s:%s:%s:%s:%s:%s:%s", name, b01(r.Chance(85)), b01(r.Chance(25)), ps, nsl,
					Pick(r, []string{"vsw-1", "vsw-1,vsw-2"}), Pick(r, []string{"sg-1", "sg-1,sg-2"}), b01(r.Chance(20)), pickZones()))
			}
		}
		pnS := "-"
		if len(pns) > 0 {
			pnS = strings.Join(pns, "+")
		}
		prev := "-"
		if fixedName && r.Chance(30) {
			prev = Pick(r, zones)
		}
		cluster := Pick(r, []string{"vsw-9:sg-9", "vsw-9,vsw-8:sg-8,sg-9", "vsw-9:sg-9", "-:sg-9", "-", "vsw-9:sg-9:sg-1", "vsw-9:sg-9:sg-9",
			"vsw-9:s0,s1,s2,s3,s4,s5,s6,s7,s8,s9", "vsw-9:s0,s1,s2,s3,s4,s5,s6,s7,s8,s9:s9", "vsw-9:s0,s1,s2,s3,s4,s5,s6,s7,s8,s9:legacy", "vsw-9:s0,s1,s2,s3,s4,s5,s6,s7,s8,s9,sa"})
		cont := fmt.Sprint(Pick(r, []int{1, 1, 2, 0}))
		if cont != "0" && r.Chance(20) {
			cont += fmt.Sprintf("r%d", 1+r.Intn(4)) // the template declares the device resources itself
			c.Count("pre-declared-device-resource")
		}
		pod := fmt.Sprintf("%s,%s,%s,%s,%s,%s,%s,%s,%s", b01(r.Chance(5)), cont, b01(r.Chance(5)), b01(hasNets), b01(hasReq), b01(hasPN),
			b01(fixedName), b01(ds), b01(r.Chance(15)))
		op := fmt.Sprintf("wh.adm %s %s %s %s %s %s %s %s %s %s", pod, anno, reqs, pnS, b01(r.Chance(92)), prev, b01(r.Chance(30)), b01(r.Chance(70)), b01(r.Chance(60)), cluster)
		out := c18Exec(c, op)
		c.One(op, out, strings.HasPrefix(out, "patched"))
		c.Count(strings.SplitN(out, " ", 2)[0])
	}
}
