package main

import (
	"context"
	"fmt"
	"strings"
	"sync"

	corev1 "k8s.io/api/core/v1"
	metav1 "k8s.io/apimachinery/pkg/apis/meta/v1"
	k8stypes "k8s.io/apimachinery/pkg/types"
	"k8s.io/client-go/tools/record"
	"sigs.k8s.io/controller-runtime/pkg/client/fake"
	"sigs.k8s.io/controller-runtime/pkg/reconcile"

	aliclient "github.com/AliyunContainerService/terway/pkg/aliyun/client"
	networkv1beta1 "github.com/AliyunContainerService/terway/pkg/apis/network.alibabacloud.com/v1beta1"
	multiipnode "github.com/AliyunContainerService/terway/pkg/controller/multi-ip/node"
	nodectl "github.com/AliyunContainerService/terway/pkg/controller/node"
)

// cap.node <type,id,zone,region,lookupFails>…: the REAL node controller (pkg/controller/node Reconcile) over a fake
// client, one reconcile per step after the Kubernetes Node's labels / provider id were set to the step's values.
// The limits of instance type t<k> come from the harness' provider: adapters 2+k, 5(k+1) addresses per adapter, 10k members.

type c19Provider struct {
	fail bool
}

func c19LimitsOf(k int) *aliclient.Limits {
	return &aliclient.Limits{Adapters: 2 + k, TotalAdapters: 3 + 2*k, IPv4PerAdapter: 5 * (k + 1), IPv6PerAdapter: 5 * (k + 1),
		MemberAdapterLimit: 10 * k, MaxMemberAdapterLimit: 10 * k, ERdmaAdapters: 0, InstanceBandwidthTx: 1000 * (k + 1), InstanceBandwidthRx: 1000 * (k + 1)}
}

func (p *c19Provider) GetLimit(_ interface{}, instanceType string) (*aliclient.Limits, error) {
	if p.fail {
		return nil, fmt.Errorf("injected: DescribeInstanceTypes failed")
	}
	var k int
	if _, err := fmt.Sscanf(instanceType, "t%d", &k); err != nil {
		return nil, err
	}
	return c19LimitsOf(k), nil
}
func (p *c19Provider) GetLimitFromAnno(map[string]string) (*aliclient.Limits, error) { return nil, nil }

var c19ProviderMu sync.Mutex

func c19Node(c *Ctx, op string, steps []string) string {
	c19ProviderMu.Lock()
	defer c19ProviderMu.Unlock()
	prov := &c19Provider{}
	old := aliclient.LimitProviders["ecs"]
	aliclient.LimitProviders["ecs"] = prov
	defer func() { aliclient.LimitProviders["ecs"] = old }()

	ctx := context.Background()
	k8sNode := &corev1.Node{ObjectMeta: metav1.ObjectMeta{Name: "n1", UID: "uid-n1", Labels: map[string]string{}}}
	cl := fake.NewClientBuilder().WithScheme(c19Scheme).WithObjects(k8sNode).WithStatusSubresource(k8sNode, &networkv1beta1.Node{}).Build()
	r := nodectl.VerifNewReconcileNode(cl, c19Scheme, record.NewFakeRecorder(1000))
	var outs []string
	for _, st := range steps {
		var t, id, z, rg, f int
		if n, err := fmt.Sscanf(st, "%d,%d,%d,%d,%d", &t, &id, &z, &rg, &f); n != 5 || err != nil {
			return "bad-op"
		}
		kn := &corev1.Node{}
		if err := cl.Get(ctx, k8stypes.NamespacedName{Name: "n1"}, kn); err != nil {
			return "err-harness"
		}
		kn.Labels = map[string]string{corev1.LabelInstanceTypeStable: fmt.Sprintf("t%d", t), corev1.LabelTopologyZone: fmt.Sprintf("z%d", z), corev1.LabelTopologyRegion: fmt.Sprintf("r%d", rg)}
		kn.Spec.ProviderID = fmt.Sprintf("r%d.i-%d", rg, id)
		if err := cl.Update(ctx, kn); err != nil {
			return "err-harness"
		}
		prov.fail = f == 1
		_, err := r.Reconcile(ctx, reconcile.Request{NamespacedName: k8stypes.NamespacedName{Name: "n1"}})
	drain:
		for { // the reconciler pokes the pool controller through a buffered channel nobody reads here
			select {
			case <-multiipnode.EventCh:
			default:
				break drain
			}
		}
		o := "ok "
		if err != nil {
			o = "err "
		}
		cr := &networkv1beta1.Node{}
		if gerr := cl.Get(ctx, k8stypes.NamespacedName{Name: "n1"}, cr); gerr != nil {
			o += "-"
		} else {
			var mt, mi, mz, mr int
			fmt.Sscanf(cr.Spec.NodeMetadata.InstanceType, "t%d", &mt)
			fmt.Sscanf(cr.Spec.NodeMetadata.InstanceID, "i-%d", &mi)
			fmt.Sscanf(cr.Spec.NodeMetadata.ZoneID, "z%d", &mz)
			fmt.Sscanf(cr.Spec.NodeMetadata.RegionID, "r%d", &mr)
			capOf := "mixed"
			nc := cr.Spec.NodeCap
			if nc == (networkv1beta1.NodeCap{}) {
				capOf = "-"
			} else {
				k := nc.Adapters - 2
				if k >= 0 {
					l := c19LimitsOf(k)
					if nc.TotalAdapters == l.TotalAdapters && nc.IPv4PerAdapter == l.IPv4PerAdapter && nc.IPv6PerAdapter == l.IPv6PerAdapter &&
						nc.MemberAdapterLimit == l.MemberAdapterLimit && nc.MaxMemberAdapterLimit == l.MaxMemberAdapterLimit && nc.EriQuantity == l.ERDMARes() &&
						nc.InstanceBandwidthTx == l.InstanceBandwidthTx && nc.InstanceBandwidthRx == l.InstanceBandwidthRx {
						capOf = fmt.Sprint(k)
					}
				}
			}
			o += fmt.Sprintf("%d,%d,%d,%d:%s", mt, mi, mz, mr, capOf)
			// property-level: after a successful reconcile the capacity in the CR is that of the node's current type
			if err == nil {
				want := c19LimitsOf(t)
				if nc.Adapters > want.Adapters || nc.IPv4PerAdapter > want.IPv4PerAdapter || nc.MemberAdapterLimit > want.MemberAdapterLimit || nc.TotalAdapters > want.TotalAdapters {
					c.Violate("C19/nodecap/exceeds-current-type", fmt.Sprintf("after a successful reconcile the Node CR advertises %d adapters x %d addresses, %d members for a node whose instance type t%d delivers %d x %d, %d members",
						nc.Adapters, nc.IPv4PerAdapter, nc.MemberAdapterLimit, t, want.Adapters, want.IPv4PerAdapter, want.MemberAdapterLimit), op)
				}
			}
		}
		outs = append(outs, o)
	}
	return strings.Join(outs, " | ")
}

func c19NodeRun(c *Ctx, n int) {
	r := c.R
	for i := 0; i < n; i++ {
		t, id, z, rg := r.Intn(4), 1+r.Intn(2), r.Intn(2), 0
		var steps []string
		changes := 0
		for k, m := 0, 2+r.Intn(5); k < m; k++ {
			if k > 0 {
				switch x := r.Intn(100); {
				case x < 40: // in-place resize
					t = r.Intn(4)
					changes++
				case x < 55: // node replaced under the same name
					id, t = 1+r.Intn(3), r.Intn(4)
					changes++
				case x < 70: // topology labels corrected
					z = r.Intn(3)
				case x < 75:
					rg = r.Intn(2)
				}
			}
			steps = append(steps, fmt.Sprintf("%d,%d,%d,%d,%s", t, id, z, rg, b01(r.Chance(12))))
		}
		op := "cap.node " + strings.Join(steps, " ")
		c.One(op, c19Exec(c, op), changes > 0)
		c.Count("node-history")
	}
}
