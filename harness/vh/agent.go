package main

import (
	"context"
	"errors"
	"fmt"
	"sort"
	"strconv"
	"strings"
	"time"

	corev1 "k8s.io/api/core/v1"
	apierrors "k8s.io/apimachinery/pkg/api/errors"
	metav1 "k8s.io/apimachinery/pkg/apis/meta/v1"
	k8stypes "k8s.io/apimachinery/pkg/types"
	"sigs.k8s.io/controller-runtime/pkg/client"
	"sigs.k8s.io/controller-runtime/pkg/client/fake"
	"sigs.k8s.io/controller-runtime/pkg/client/interceptor"

	terwaydaemon "github.com/AliyunContainerService/terway/daemon"
	networkv1beta1 "github.com/AliyunContainerService/terway/pkg/apis/network.alibabacloud.com/v1beta1"
	"github.com/AliyunContainerService/terway/pkg/eni"
	k8sad "github.com/AliyunContainerService/terway/pkg/k8s"
	"github.com/AliyunContainerService/terway/pkg/storage"
	terwayTypes "github.com/AliyunContainerService/terway/types"
	"github.com/AliyunContainerService/terway/types/daemon"
)

// The node agent's reporting into the NodeRuntime object (C03, third sentence): the REAL CRDV2.Release /
// syncNodeRuntime / syncDeletedPods and the REAL networkService.cleanRuntimeNode over the real k8s adapter and a fake
// API server with fault injection; model: lean/TerwayModel/Model/Agent.lean, ops rt.* (Driver/Agent.lean).
//
// The NodeRuntime object exists from the start of a case (the agent's first syncDeletedPods creates it; the API server
// drops the status of a created object, which the case does not go through).  After every pass that may stamp, all
// stored stamps are moved 2 s into the past so that a later stamp is later at the one-second resolution of the API.

const agNode = "node-a"

type agWorld struct {
	cl        client.WithWatch
	crd       *eni.CRDV2
	svc       terwaydaemon.VerifService
	failWrite bool
	failPod   map[string]bool
	// monitor state (independent of the model)
	dels   map[string]bool // uids whose DEL was processed
	absent map[string]bool // uids the API server reported absent during a clean-up pass
}

func newAgWorld() *agWorld {
	w := &agWorld{failPod: map[string]bool{}, dels: map[string]bool{}, absent: map[string]bool{}}
	isRT := func(o client.Object) bool { _, ok := o.(*networkv1beta1.NodeRuntime); return ok }
	inj := func() error { return apierrors.NewInternalError(errors.New("injected")) }
	w.cl = fake.NewClientBuilder().WithScheme(terwayTypes.Scheme).
		WithObjects(&corev1.Node{ObjectMeta: metav1.ObjectMeta{Name: agNode, UID: "uid-node"}},
			&networkv1beta1.Node{ObjectMeta: metav1.ObjectMeta{Name: agNode}},
			&networkv1beta1.NodeRuntime{ObjectMeta: metav1.ObjectMeta{Name: agNode}}).
		WithStatusSubresource(&networkv1beta1.Node{}, &networkv1beta1.NodeRuntime{}).
		WithInterceptorFuncs(interceptor.Funcs{
			Get: func(ctx context.Context, c client.WithWatch, key client.ObjectKey, obj client.Object, opts ...client.GetOption) error {
				if _, ok := obj.(*corev1.Pod); ok && w.failPod[key.Name] {
					return inj()
				}
				return c.Get(ctx, key, obj, opts...)
			},
			Create: func(ctx context.Context, c client.WithWatch, obj client.Object, opts ...client.CreateOption) error {
				if isRT(obj) && w.failWrite {
					return inj()
				}
				return c.Create(ctx, obj, opts...)
			},
			Update: func(ctx context.Context, c client.WithWatch, obj client.Object, opts ...client.UpdateOption) error {
				if isRT(obj) && w.failWrite {
					return inj()
				}
				return c.Update(ctx, obj, opts...)
			},
			Patch: func(ctx context.Context, c client.WithWatch, obj client.Object, patch client.Patch, opts ...client.PatchOption) error {
				if isRT(obj) && w.failWrite {
					return inj()
				}
				return c.Patch(ctx, obj, patch, opts...)
			},
			SubResourceUpdate: func(ctx context.Context, c client.Client, sub string, obj client.Object, opts ...client.SubResourceUpdateOption) error {
				if isRT(obj) && w.failWrite {
					return inj()
				}
				return c.SubResource(sub).Update(ctx, obj, opts...)
			},
			SubResourcePatch: func(ctx context.Context, c client.Client, sub string, obj client.Object, patch client.Patch, opts ...client.SubResourcePatchOption) error {
				if isRT(obj) && w.failWrite {
					return inj()
				}
				return c.SubResource(sub).Patch(ctx, obj, patch, opts...)
			},
		}).Build()
	svc := &terwayTypes.IPNetSet{}
	svc.SetIPNet("172.16.0.0/16")
	k := k8sad.VerifNewK8S(w.cl, daemon.ModeENIMultiIP, agNode, storage.NewMemoryStorage(), svc)
	w.svc = terwaydaemon.VerifNewNetworkService(daemon.ModeENIMultiIP, k, storage.NewMemoryStorage(), nil, terwayTypes.IPAMTypeCRD, true, false)
	w.crd = eni.VerifNewCRDV2(w.cl, terwayTypes.Scheme, agNode)
	return w
}

func agPodID(uid int, ok bool) string {
	if ok {
		return fmt.Sprintf("ns/p%d", uid)
	}
	return fmt.Sprintf("p%d", uid)
}

// shift moves every stored stamp d into the past (bypassing the injected faults).
func (w *agWorld) shift(d time.Duration) {
	fw := w.failWrite
	w.failWrite = false
	defer func() { w.failWrite = fw }()
	nr := &networkv1beta1.NodeRuntime{}
	if w.cl.Get(context.Background(), k8stypes.NamespacedName{Name: agNode}, nr) != nil {
		return
	}
	for _, p := range nr.Status.Pods {
		for _, st := range p.Status {
			if st != nil {
				st.LastUpdateTime = metav1.NewTime(st.LastUpdateTime.Add(-d))
			}
		}
	}
	_ = w.cl.Status().Update(context.Background(), nr)
}

func (w *agWorld) view(c *Ctx, trace []string) string {
	nr := &networkv1beta1.NodeRuntime{}
	if err := w.cl.Get(context.Background(), k8stypes.NamespacedName{Name: agNode}, nr); err != nil {
		return "rt=? pend=?"
	}
	type ent struct {
		uid int
		s   string
	}
	var es []ent
	now := time.Now()
	for uid, p := range nr.Status.Pods {
		n, _ := strconv.Atoi(strings.TrimPrefix(uid, "u"))
		ini, del := p.Status[networkv1beta1.CNIStatusInitial], p.Status[networkv1beta1.CNIStatusDeleted]
		recent := ini != nil && now.Before(ini.LastUpdateTime.Add(30*time.Second))
		deleted := del != nil
		if deleted && ini != nil && !ini.LastUpdateTime.Time.Before(del.LastUpdateTime.Time) {
			c.Violate("C03/agent/stamp-order", fmt.Sprintf("entry %s carries a deleted stamp that is not later than its initial stamp: its final status is not deleted", uid), trace...)
		}
		es = append(es, ent{n, fmt.Sprintf("%d:%s:%s:%s", n, b01(len(strings.Split(p.PodID, "/")) == 2), b01(recent), b01(deleted))})
		// property-level, model-independent: teardown is reported only for a processed DEL or a verified absence
		if deleted && !w.dels[uid] && !w.absent[uid] {
			c.Violate("C03/agent/reported-unverified", fmt.Sprintf("the NodeRuntime reports pod uid %s (%s) as torn down although no CNI DEL was processed for it and the API server never answered that the pod is gone", uid, p.PodID), trace...)
		}
	}
	sort.Slice(es, func(i, j int) bool { return es[i].uid < es[j].uid })
	var ss []string
	for _, e := range es {
		ss = append(ss, e.s)
	}
	var ps []int
	for _, u := range w.crd.VerifPendingDeleted() {
		n, _ := strconv.Atoi(strings.TrimPrefix(u, "u"))
		ps = append(ps, n)
	}
	sort.Ints(ps)
	var pss []string
	for _, p := range ps {
		pss = append(pss, fmt.Sprint(p))
	}
	j := func(x []string) string {
		if len(x) == 0 {
			return "-"
		}
		return strings.Join(x, ",")
	}
	return "rt=" + j(ss) + " pend=" + j(pss)
}

func agExec(c *Ctx, ops []string) []string {
	outs := make([]string, len(ops))
	var w *agWorld
	ctx := context.Background()
	for i, op := range ops {
		trace := ops[:i+1]
		outs[i] = protect(func() string {
			f := strings.Fields(op)
			if len(f) == 0 {
				return "bad-op"
			}
			if f[0] == "rt.new" && len(f) == 1 {
				w = newAgWorld()
				return w.view(c, trace)
			}
			if w == nil {
				return "bad-op"
			}
			switch {
			case f[0] == "rt.del" && len(f) == 3:
				uid, err := strconv.Atoi(f[1])
				if err != nil {
					return "bad-op"
				}
				u := fmt.Sprintf("u%d", uid)
				w.dels[u] = true
				_, _ = w.crd.Release(ctx, &daemon.CNI{PodID: agPodID(uid, f[2] == "1"), PodUID: u}, &eni.LocalIPResource{})
			case f[0] == "rt.sync" && len(f) == 2:
				w.failWrite = f[1] != "1"
				_ = w.crd.VerifSyncNodeRuntime(ctx)
				w.failWrite = false
				w.shift(2 * time.Second)
			case f[0] == "rt.back" && len(f) == 3:
				node := &networkv1beta1.Node{}
				if err := w.cl.Get(ctx, k8stypes.NamespacedName{Name: agNode}, node); err != nil {
					return "err-harness"
				}
				ni := &networkv1beta1.NetworkInterface{ID: "eni-1", Status: "InUse", IPv4: map[string]*networkv1beta1.IP{}}
				if f[1] != "-" {
					for k, t := range strings.Split(f[1], ",") {
						p := strings.Split(t, ":")
						uid, err := strconv.Atoi(p[0])
						if err != nil || len(p) != 2 {
							return "bad-op"
						}
						ip := fmt.Sprintf("10.0.0.%d", 10+k)
						ni.IPv4[ip] = &networkv1beta1.IP{IP: ip, Status: networkv1beta1.IPStatusValid, PodID: agPodID(uid, p[1] == "1"), PodUID: fmt.Sprintf("u%d", uid)}
					}
				}
				node.Status.NetworkInterfaces = map[string]*networkv1beta1.NetworkInterface{"eni-1": ni}
				if err := w.cl.Status().Update(ctx, node); err != nil {
					return "err-harness"
				}
				w.failWrite = f[2] != "1"
				_ = w.crd.VerifSyncDeletedPods(ctx)
				w.failWrite = false
				w.shift(2 * time.Second)
			case f[0] == "rt.clean" && len(f) == 4:
				var local []string
				if f[1] != "-" {
					for _, t := range strings.Split(f[1], ",") {
						local = append(local, "u"+t)
					}
				}
				w.failPod = map[string]bool{}
				// the API server's pods for this pass
				pl := &corev1.PodList{}
				_ = w.cl.List(ctx, pl)
				for k := range pl.Items {
					_ = w.cl.Delete(ctx, &pl.Items[k])
				}
				answered := map[string]string{}
				if f[2] != "-" {
					for _, t := range strings.Split(f[2], ",") {
						p := strings.Split(t, "=")
						uid, err := strconv.Atoi(p[0])
						if err != nil || len(p) != 2 {
							return "bad-op"
						}
						name := fmt.Sprintf("p%d", uid)
						answered[fmt.Sprintf("u%d", uid)] = p[1]
						switch p[1] {
						case "p":
							_ = w.cl.Create(ctx, &corev1.Pod{ObjectMeta: metav1.ObjectMeta{Namespace: "ns", Name: name}, Spec: corev1.PodSpec{NodeName: agNode}})
						case "a":
							if uid%2 == 1 { // a pod of that name runs on another node
								_ = w.cl.Create(ctx, &corev1.Pod{ObjectMeta: metav1.ObjectMeta{Namespace: "ns", Name: name}, Spec: corev1.PodSpec{NodeName: "node-b"}})
							}
						case "f":
							w.failPod[name] = true
						default:
							return "bad-op"
						}
					}
				}
				// what the pass may learn: "absent" only for entries it has reason to ask about is the model's business;
				// the monitor only needs: an answer "absent" was available for the uid
				for u, a := range answered {
					if a == "a" {
						w.absent[u] = true
					}
				}
				w.failWrite = f[3] != "1"
				_ = w.svc.VerifCleanRuntimeNode(ctx, local)
				w.failWrite = false
				w.failPod = map[string]bool{}
				w.shift(2 * time.Second)
			case f[0] == "rt.age" && len(f) == 1:
				w.shift(60 * time.Second)
			default:
				return "bad-op"
			}
			return w.view(c, trace)
		})
	}
	return outs
}

// agRun generates node-agent histories over 4 pod uids.
func agRun(c *Ctx, n int) {
	r := c.R
	for i := 0; i < n; i++ {
		ops := []string{"rt.new"}
		inUse := map[int]bool{}
		okID := map[int]bool{}
		for u := 1; u <= 4; u++ {
			okID[u] = !r.Chance(12)
		}
		cleans, faults := 0, 0
		for k, m := 0, 3+r.Intn(7); k < m; k++ {
			okTok := func() string {
				if r.Chance(15) {
					faults++
					return "0"
				}
				return "1"
			}
			switch x := r.Intn(100); {
			case x < 22: // the IPAM record changes, the agent reconciles the NodeRuntime with it
				for u := 1; u <= 4; u++ {
					if r.Chance(35) {
						inUse[u] = !inUse[u]
					}
				}
				var us []string
				for u := 1; u <= 4; u++ {
					if inUse[u] {
						us = append(us, fmt.Sprintf("%d:%s", u, b01(okID[u])))
					}
				}
				s := "-"
				if len(us) > 0 {
					s = strings.Join(us, ",")
				}
				ops = append(ops, fmt.Sprintf("rt.back %s %s", s, okTok()))
			case x < 40:
				u := 1 + r.Intn(4)
				ops = append(ops, fmt.Sprintf("rt.del %d %s", u, b01(okID[u])))
			case x < 58:
				ops = append(ops, "rt.sync "+okTok())
			case x < 72:
				ops = append(ops, "rt.age")
			default:
				var local, vs []string
				for u := 1; u <= 4; u++ {
					if r.Chance(25) {
						local = append(local, fmt.Sprint(u))
					}
					vs = append(vs, fmt.Sprintf("%d=%s", u, Pick(r, []string{"p", "a", "a", "f"})))
				}
				l := "-"
				if len(local) > 0 {
					l = strings.Join(local, ",")
				}
				ops = append(ops, fmt.Sprintf("rt.clean %s %s %s", l, strings.Join(vs, ","), okTok()))
				cleans++
			}
		}
		outs := agExec(c, ops)
		cs := Case{Nontrivial: cleans > 0, Note: "agent"}
		for k := range ops {
			cs.Lines = append(cs.Lines, Line{ops[k], outs[k]})
		}
		c.Add(cs)
		c.Count("agent-history")
		if faults > 0 {
			c.Count("agent-history-with-failed-write")
		}
	}
}
