package main

import (
	"fmt"
	"os"
	"os/exec"
	"path/filepath"
	"strings"
)

// runTestDriver pipes op lines through a tagged `go test -c` binary of a package-main package of
// /repo (hook file zz_verif_driver_test.go, test TestVerifDriver).  With isolate=true the binary runs
// in private mount+network namespaces with a tmpfs on /run and one on /etc (terway-cli reads its
// configuration from the constant path /etc/eni).
func runTestDriver(binEnv string, ops []string, isolate bool) ([]string, error) {
	bin := os.Getenv(binEnv)
	if bin == "" {
		return nil, fmt.Errorf("%s not set", binEnv)
	}
	dir, err := os.MkdirTemp(filepath.Dir(bin), "drv")
	if err != nil {
		return nil, err
	}
	defer os.RemoveAll(dir)
	in, out := filepath.Join(dir, "in"), filepath.Join(dir, "out")
	if err := os.WriteFile(in, []byte(strings.Join(ops, "\n")+"\n"), 0o644); err != nil {
		return nil, err
	}
	var cmd *exec.Cmd
	if isolate {
		cmd = exec.Command("unshare", "-n", "-m", "sh", "-c", `mount -t tmpfs tmpfs /run && mount -t tmpfs tmpfs /etc && exec "$0" -test.run '^TestVerifDriver$' -test.count=1`, bin)
	} else {
		cmd = exec.Command(bin, "-test.run", "^TestVerifDriver$", "-test.count=1")
	}
	cmd.Env = append(os.Environ(), "VERIF_IN="+in, "VERIF_OUT="+out)
	if b, err := cmd.CombinedOutput(); err != nil {
		return nil, fmt.Errorf("test driver: %v: %s", err, b)
	}
	b, err := os.ReadFile(out)
	if err != nil {
		return nil, err
	}
	lines := strings.Split(strings.TrimRight(string(b), "\n"), "\n")
	if len(lines) != len(ops) {
		return nil, fmt.Errorf("test driver printed %d lines for %d ops", len(lines), len(ops))
	}
	return lines, nil
}
