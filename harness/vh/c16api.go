package main

import (
	"bytes"
	"context"
	"fmt"
	"io"
	"net/http"
	"net/url"
	"strconv"
	"strings"
	"sync"
	"time"

	"github.com/aliyun/alibaba-cloud-sdk-go/services/ecs"
	"github.com/aliyun/alibaba-cloud-sdk-go/services/eflo"
	"github.com/aliyun/alibaba-cloud-sdk-go/services/vpc"
	"k8s.io/apimachinery/pkg/util/wait"

	"github.com/AliyunContainerService/terway/pkg/aliyun/client"
)

// C16 at the level of the OpenAPI wrappers: the REAL client.OpenAPI methods (CreateNetworkInterface,
// AssignPrivateIPAddress2, AssignIpv6Addresses2, CreateElasticNetworkInterfaceV2) over the REAL SDK clients whose HTTP
// transport is the harness: every request's ClientToken is read off the wire, the scripted answer is a success, a
// server error (HTTP 400) or - EFLO - an HTTP 200 carrying a non-zero business code.
//
//	tok.acreate <params> <tags> <fail>   tok.aassign4 <eni> <n> <fail>   tok.aassign6 <eni> <n> <fail>   tok.aeflo <params> <inst> <zone> <fail>
//
// fail: 0 = success, 1 = server error, 2 = business code (EFLO).  Model: the same flow as tok.fcreate / tok.fassign*.

type c16RT struct {
	mu     sync.Mutex
	mode   string // what the next answer is
	tokens []string
}

func (t *c16RT) RoundTrip(req *http.Request) (*http.Response, error) {
	t.mu.Lock()
	defer t.mu.Unlock()
	q := req.URL.Query()
	if req.Body != nil {
		b, _ := io.ReadAll(req.Body)
		if f, err := url.ParseQuery(string(b)); err == nil {
			for k, v := range f {
				if len(v) > 0 && q.Get(k) == "" {
					q.Set(k, v[0])
				}
			}
		}
	}
	t.tokens = append(t.tokens, q.Get("ClientToken"))
	action := q.Get("Action")
	status, body := 200, ""
	switch {
	case t.mode == "1":
		status, body = 400, `{"Code":"InvalidParameter","Message":"injected","RequestId":"R-1","HostId":"h"}`
	case t.mode == "3", t.mode == "4": // every attempt of the wrapper's back-off loop is throttled (4: there is one only, see call)
		status, body = 400, `{"Code":"Throttling","Message":"injected","RequestId":"R-1","HostId":"h"}`
	case action == "CreateNetworkInterface":
		body = `{"RequestId":"R-1","NetworkInterfaceId":"eni-new","MacAddress":"00:16:3e:00:00:01","PrivateIpAddress":"10.0.0.1","Status":"Available","Type":"Secondary","VSwitchId":"vsw-1","SecurityGroupIds":{"SecurityGroupId":["sg-1"]},"PrivateIpSets":{"PrivateIpSet":[]},"Ipv6Sets":{"Ipv6Set":[]}}`
	case action == "AssignPrivateIpAddresses":
		body = `{"RequestId":"R-1","AssignedPrivateIpAddressesSet":{"NetworkInterfaceId":"eni-1","PrivateIpSet":{"PrivateIpAddress":["10.0.0.5"]}}}`
	case action == "AssignIpv6Addresses":
		body = `{"RequestId":"R-1","NetworkInterfaceId":"eni-1","Ipv6Sets":{"Ipv6Address":["fd00::5"]}}`
	case action == "CreateElasticNetworkInterface":
		if t.mode == "2" {
			body = `{"Code":1001,"Message":"injected business error","RequestId":"R-1","Content":{}}`
		} else {
			body = `{"Code":0,"Message":"","RequestId":"R-1","Content":{"ElasticNetworkInterfaceId":"leni-new","NodeId":"i-1"}}`
		}
	default:
		status, body = 400, `{"Code":"UnknownAction","Message":"`+action+`","RequestId":"R-1"}`
	}
	return &http.Response{StatusCode: status, Status: strconv.Itoa(status), Proto: "HTTP/1.1", ProtoMajor: 1, ProtoMinor: 1,
		Header: http.Header{"Content-Type": []string{"application/json"}}, Body: io.NopCloser(bytes.NewBufferString(body)), Request: req}, nil
}

type c16ClientSet struct {
	e *ecs.Client
	v *vpc.Client
	f *eflo.Client
}

func (s *c16ClientSet) ECS() *ecs.Client   { return s.e }
func (s *c16ClientSet) VPC() *vpc.Client   { return s.v }
func (s *c16ClientSet) EFLO() *eflo.Client { return s.f }

type c16API struct {
	rt  *c16RT
	api *client.OpenAPI
}

func newC16API(gen client.IdempotentKeyGen) (*c16API, error) {
	return newC16APIOn(&c16RT{}, gen, 1<<30)
}

// newC16APIOn: perMinute = what the client-side rate limiter allows (its burst; it refills at perMinute/60 per second)
func newC16APIOn(rt *c16RT, gen client.IdempotentKeyGen, perMinute int) (*c16API, error) {
	e, err := ecs.NewClientWithAccessKey("cn-hangzhou", "ak", "sk")
	if err != nil {
		return nil, err
	}
	f, err := eflo.NewClientWithAccessKey("cn-hangzhou", "ak", "sk")
	if err != nil {
		return nil, err
	}
	e.SetTransport(rt)
	f.SetTransport(rt)
	e.Domain, f.Domain = "ecs.invalid", "eflo.invalid"
	lim := map[string]int{}
	for _, a := range []string{"", "CreateNetworkInterface", "AssignPrivateIpAddresses", "AssignIpv6Addresses", "CreateElasticNetworkInterface"} {
		lim[a] = perMinute
	}
	api, err := client.New(&c16ClientSet{e: e, f: f}, client.FromMap(lim))
	if err != nil {
		return nil, err
	}
	api.IdempotentKeyGen = gen
	return &c16API{rt: rt, api: api}, nil
}

// call runs one wrapper; returns the client token seen on the wire and whether the wrapper reported an error.
func (a *c16API) call(kind string, p *c16Params, eni string, n int, fail string) (string, bool, error) {
	a.rt.mu.Lock()
	a.rt.mode, a.rt.tokens = fail, nil
	a.rt.mu.Unlock()
	ctx := context.Background()
	bo := wait.Backoff{Steps: 1}
	if fail == "3" {
		bo = wait.Backoff{Steps: 3, Duration: time.Millisecond, Factor: 1}
	}
	if fail == "4" {
		// the first attempt is throttled by the cloud, the second never leaves: the client-side rate limiter (one request a minute,
		// on a client of its own sharing the generator and the transport) cannot admit it before the context's deadline
		slow, err := newC16APIOn(a.rt, a.api.IdempotentKeyGen, 1)
		if err != nil {
			return "", true, err
		}
		a = slow
		bo = wait.Backoff{Steps: 3, Duration: time.Millisecond, Factor: 1}
		var cancel context.CancelFunc
		ctx, cancel = context.WithTimeout(ctx, 200*time.Millisecond)
		defer cancel()
	}
	var err error
	switch kind {
	case "create":
		o := p.options()
		o.Backoff = &bo
		_, err = a.api.CreateNetworkInterface(ctx, o)
	case "eflo":
		o := p.options()
		o.Backoff = &bo
		_, err = a.api.CreateElasticNetworkInterfaceV2(ctx, o)
	case "assign4":
		_, err = a.api.AssignPrivateIPAddress2(ctx, &client.AssignPrivateIPAddressOptions{NetworkInterfaceOptions: &client.NetworkInterfaceOptions{NetworkInterfaceID: eni, IPCount: n, IPv6Count: n}, Backoff: &bo})
	case "v1assign4":
		_, err = a.api.AssignPrivateIPAddress(ctx, &client.AssignPrivateIPAddressOptions{NetworkInterfaceOptions: &client.NetworkInterfaceOptions{NetworkInterfaceID: eni, IPCount: n, IPv6Count: n}, Backoff: &bo})
	case "v1assign6":
		_, err = a.api.AssignIpv6Addresses(ctx, &client.AssignIPv6AddressesOptions{NetworkInterfaceOptions: &client.NetworkInterfaceOptions{NetworkInterfaceID: eni, IPCount: n, IPv6Count: n}, Backoff: &bo})
	case "assign6":
		_, err = a.api.AssignIpv6Addresses2(ctx, &client.AssignIPv6AddressesOptions{NetworkInterfaceOptions: &client.NetworkInterfaceOptions{NetworkInterfaceID: eni, IPCount: n, IPv6Count: n}, Backoff: &bo})
	}
	a.rt.mu.Lock()
	toks := append([]string(nil), a.rt.tokens...)
	a.rt.mu.Unlock()
	if len(toks) == 0 {
		return "", err != nil, fmt.Errorf("no request reached the transport: %v", err)
	}
	for _, t := range toks[1:] {
		if t != toks[0] {
			return toks[0], err != nil, fmt.Errorf("one call sent different client tokens %v", toks)
		}
	}
	return toks[0], err != nil, nil
}

// c16APIExec is the tok.a* part of c16Exec.
func (s *c16State) apiOp(c *Ctx, f []string, trace []string) string {
	if s.api == nil {
		a, err := newC16API(&flowGen{s: s, c: c, trace: trace})
		if err != nil {
			return "err-harness"
		}
		s.api = a
	}
	s.api.api.IdempotentKeyGen = &flowGen{s: s, c: c, trace: trace}
	fail := f[len(f)-1]
	var tok string
	var failed bool
	var err error
	switch f[0] {
	case "tok.acreate":
		p, ok := parseParams(f[1:11])
		if !ok {
			return "bad-op"
		}
		tok, failed, err = s.api.call("create", p, "", 0, fail)
	case "tok.aeflo":
		p, ok := parseParams(f[1:10])
		if !ok {
			return "bad-op"
		}
		p.inst, p.zone = unhexStr(f[10]), unhexStr(f[11])
		tok, failed, err = s.api.call("eflo", p, "", 0, fail)
	case "tok.aassign4", "tok.aassign6":
		n, _ := strconv.Atoi(f[2])
		tok, failed, err = s.api.call(strings.TrimPrefix(f[0], "tok.a"), nil, unhexStr(f[1]), n, fail)
	case "tok.bassign4", "tok.bassign6":
		n, _ := strconv.Atoi(f[2])
		tok, failed, err = s.api.call("v1"+strings.TrimPrefix(f[0], "tok.b"), nil, unhexStr(f[1]), n, fail)
	}
	if err != nil {
		if tok == "" {
			return "err" // the builder rejected the request before anything was sent
		}
		c.Violate("C16/api/tokens-differ", err.Error(), trace...)
	}
	if (fail != "0") != failed {
		c.Violate("C16/api/outcome", fmt.Sprintf("the cloud answered fail=%s but the wrapper reported error=%v", fail, failed), trace...)
	}
	// property-level: the retry of a failed call with the same parameters carries the failed attempt's token
	if s.apiFailed == nil {
		s.apiFailed = map[string]string{}
	}
	if prev, ok := s.apiFailed[s.lastGenHash]; ok && prev != tok && s.cap >= 100 {
		c.Violate("C16/api/retry-fresh-token", fmt.Sprintf("%s failed with client token %s; its retry with the same parameters carries %s, so the cloud cannot recognise the duplicate", f[0], s.tokName(prev), s.tokName(tok)), trace...)
	}
	delete(s.apiFailed, s.lastGenHash)
	if failed {
		s.apiFailed[s.lastGenHash] = tok
	}
	if tok != s.lastGen {
		c.Violate("C16/api/token-not-sent", fmt.Sprintf("the request carried client token %q, the generator had issued %q", tok, s.lastGen), trace...)
	}
	return s.tokName(tok)
}
