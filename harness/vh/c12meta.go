package main

import (
	"fmt"
	"net"
	"net/netip"
	"strconv"
	"strings"
	"time"

	enimeta "github.com/AliyunContainerService/terway/pkg/aliyun/eni"
	"github.com/AliyunContainerService/terway/pkg/eni"
)

// nc.meta <v6 0|1> <k>: an interface found attached at daemon start-up is described by the instance metadata (the REAL
// pkg/aliyun/eni GetENIByMac over the harness's loopback metadata server: id, primary address, gateway, vSwitch CIDR and - on
// an IPv6 node - IPv6 gateway and CIDR, vSwitch id), and a local result served from it (LocalIPResource.ToRPC) must carry the
// pod's address(es) with that subnet and gateway.  k picks the subnet (10.k.0.0/24, fd00:k::/64).
// Output: gw4 gw6 cidr4 cidr6 as the NetConf reports them.
func c12Meta(c *Ctx, op string) string {
	f := strings.Fields(op)
	if len(f) != 3 || (f[1] != "0" && f[1] != "1") {
		return "bad-op"
	}
	k, err := strconv.Atoi(f[2])
	if err != nil || k < 0 || k > 250 {
		return "bad-op"
	}
	faOnce.Do(faStartMetadata)
	v6 := f[1] == "1"
	id := fmt.Sprintf("eni-meta-%d-%d", c.Seed, time.Now().UnixNano())
	mac := faMac(id)
	gw4, gw6 := fmt.Sprintf("10.%d.0.253", k), fmt.Sprintf("fd00:%x::fffd", k)
	cidr4, cidr6 := fmt.Sprintf("10.%d.0.0/24", k), fmt.Sprintf("fd00:%x::/64", k)
	faState.mu.Lock()
	if faState.meta == nil {
		faState.meta = map[string]map[string]string{}
	}
	faState.meta[mac] = map[string]string{"network-interface-id": id, "primary-ip-address": fmt.Sprintf("10.%d.0.5", k), "gateway": gw4,
		"vswitch-cidr-block": cidr4, "vswitch-id": "vsw-meta", "ipv6-gateway": gw6, "vswitch-ipv6-cidr-block": cidr6}
	faState.mu.Unlock()
	defer func() {
		faState.mu.Lock()
		delete(faState.meta, mac)
		faState.mu.Unlock()
	}()
	e, err := enimeta.NewENIMetadata(true, v6).GetENIByMac(mac)
	if err != nil || e == nil {
		return "err"
	}
	lr := &eni.LocalIPResource{ENI: *e}
	lr.IP.IPv4 = netip.MustParseAddr(fmt.Sprintf("10.%d.0.9", k))
	if v6 {
		lr.IP.IPv6 = netip.MustParseAddr(fmt.Sprintf("fd00:%x::9", k))
	}
	confs := lr.ToRPC()
	if len(confs) != 1 || confs[0].BasicInfo == nil {
		return "none"
	}
	b := confs[0].BasicInfo
	get := func(s interface{ GetIPv4() string; GetIPv6() string }, six bool) string {
		v := ""
		if s != nil {
			if six {
				v = s.GetIPv6()
			} else {
				v = s.GetIPv4()
			}
		}
		if v == "" {
			return "-"
		}
		return v
	}
	// property-level (C12): every address of the result lies in the reported subnet of its family, and that subnet's gateway is there
	for _, six := range []bool{false, true} {
		ip, cidr, gw := get(b.PodIP, six), get(b.PodCIDR, six), get(b.GatewayIP, six)
		if ip == "-" {
			continue
		}
		_, n, err := net.ParseCIDR(cidr)
		if err != nil || !n.Contains(net.ParseIP(ip)) || gw == "-" || !n.Contains(net.ParseIP(gw)) {
			c.Violate("C12/local/startup-eni-subnet-gateway", fmt.Sprintf("local result from an interface listed at start-up: address %s, subnet %s, gateway %s", ip, cidr, gw), op)
		}
	}
	return fmt.Sprintf("%s %s %s %s", get(b.GatewayIP, false), get(b.GatewayIP, true), get(b.PodCIDR, false), get(b.PodCIDR, true))
}

func c12MetaRun(c *Ctx, n int) {
	for i := 0; i < n; i++ {
		op := fmt.Sprintf("nc.meta %s %d", b01(c.R.Chance(60)), c.R.Intn(251))
		c.One(op, c12Meta(c, op), strings.HasPrefix(op, "nc.meta 1"))
		c.Count("netconf-from-startup-metadata")
	}
}
