package main

import (
	"encoding/json"
	"fmt"
	"os"
	"runtime"
	"sort"
	"strconv"
	"strings"
	"sync"
	"sync/atomic"

	"github.com/AliyunContainerService/terway/pkg/aliyun/client"
)

func init() {
	register(&Prop{ID: "C16", Run: c16Run, Exec: c16Exec, Corpus: [][]string{
		// capacity 1: another failed parameter set evicts the token (bounded LRU, as modelled)
		{"tok.new 1", "tok.gen 7", "tok.put 7 0", "tok.gen 8", "tok.put 8 1", "tok.gen 7"},
		{"tok.new 500", "tok.gen 7", "tok.put 7 0", "tok.gen 8", "tok.put 8 1", "tok.gen 7", "tok.gen 7", "tok.gen 8"},
		{"tok.new 3", "tok.hreset", "tok.fcreate 767377 0 0 7367 - 1 0 n n 61=31,62=31,63=31 1", "tok.fcreate 767377 0 0 7367 - 1 0 n n 63=31,61=31,62=31 0"},
	}})
}

// recGen records the parameter hash a builder computes.
type recGen struct{ hashes []string }

func (r *recGen) GenerateKey(h string) string { r.hashes = append(r.hashes, h); return "tok" }
func (r *recGen) PutBack(h, u string)         {}

type c16State struct {
	gen                  *client.SimpleIdempotentKeyGenerator
	cap                  int
	tokID                map[string]int             // uuid -> canonical number (first appearance)
	hashID               map[string]int             // md5 -> canonical number
	api                  *c16API                    // OpenAPI wrappers over a scripted transport (c16api.go)
	lastGen, lastGenHash string                     // what the generator issued last, and for which hash
	apiFailed            map[string]string          // hash -> token of the failed API call that has not been retried yet
	parToks              map[string]map[string]bool // hash -> tokens rolled back concurrently and not re-issued yet
	fp                   string                     // fingerprint of the request the last builder produced (request as sent, token removed)
	hashFP               map[string]string          // md5 -> fingerprint of the first request that hashed to it
	fpHash               map[string]string          // fingerprint -> md5
	// monitor state
	out      map[string]bool   // tokens in flight
	prov     map[string]string // token -> hash of first issue
	lastPut  map[string]string // hash -> token put back most recently with no later op on that hash
	sincePut map[string]int    // hash -> ops on other hashes since that put
	contract bool              // history respects the roll-back contract so far
}

func newC16State(cap int) *c16State {
	os.Setenv("IDEMPOTENT_KEY_CACHE_SIZE", strconv.Itoa(cap))
	return &c16State{gen: client.NewIdempotentKeyGenerator(), cap: cap, tokID: map[string]int{}, hashID: map[string]int{}, hashFP: map[string]string{}, fpHash: map[string]string{},
		out: map[string]bool{}, prov: map[string]string{}, lastPut: map[string]string{}, sincePut: map[string]int{}, contract: true}
}

func (s *c16State) tokName(u string) string {
	if strings.HasPrefix(u, "x") { // foreign token injected by the malformed stream
		return "t" + u[1:]
	}
	if _, ok := s.tokID[u]; !ok {
		s.tokID[u] = len(s.tokID)
	}
	return fmt.Sprintf("t%d", s.tokID[u])
}
func (s *c16State) tokByNum(n int) string {
	for u, k := range s.tokID {
		if k == n {
			return u
		}
	}
	return fmt.Sprintf("x%d", n)
}

func (s *c16State) touchOthers(h string) {
	for k := range s.lastPut {
		if k != h {
			s.sincePut[k]++
		}
	}
}

// monitored generate / putBack on the real generator
func (s *c16State) generate(c *Ctx, h string, trace []string) string {
	u := s.gen.GenerateKey(h)
	if s.contract {
		if t, ok := s.lastPut[h]; ok && s.sincePut[h] >= s.cap && u != t {
			c.Violate("C16/retry-token/lru-evicted", fmt.Sprintf("retry for hash %s drew a fresh token: the failed attempt's token was evicted from the bounded LRU (cap %d) by %d later operations", h, s.cap, s.sincePut[h]), trace...)
		}
		if t, ok := s.lastPut[h]; ok && s.sincePut[h] < s.cap && u != t {
			c.Violate("C16/retry-token", fmt.Sprintf("retry for hash %s drew token %s, the failed attempt's token was %s (cap %d, %d other ops in between)", h, s.tokName(u), s.tokName(t), s.cap, s.sincePut[h]), trace...)
		}
		if s.out[u] {
			c.Violate("C16/inflight-shared", fmt.Sprintf("token %s issued while still in flight", s.tokName(u)), trace...)
		}
		if p, ok := s.prov[u]; ok && p != h {
			c.Violate("C16/cross-params", fmt.Sprintf("token %s first issued for hash %s now issued for %s", s.tokName(u), p, h), trace...)
		}
	}
	if _, ok := s.prov[u]; !ok {
		s.prov[u] = h
	}
	s.out[u] = true
	delete(s.lastPut, h)
	delete(s.sincePut, h)
	s.touchOthers(h)
	return u
}
func (s *c16State) putBack(h, u string) {
	if !s.out[u] || s.prov[u] != h {
		s.contract = false // malformed stream: monitors no longer apply, the model comparison still does
	}
	s.gen.PutBack(h, u)
	delete(s.out, u)
	s.lastPut[h] = u
	s.sincePut[h] = 0
	s.touchOthers(h)
}

type c16Params struct {
	vsw             string
	trunk, erdma    bool
	sgs             []string
	rg              string
	ipc, ip6c       int
	dor, sdc        *bool
	tags            [][2]string // iteration order as generated
	eni, inst, zone string
}

func optB(b *bool) string {
	if b == nil {
		return "n"
	}
	if *b {
		return "1"
	}
	return "0"
}
func b01(b bool) string {
	if b {
		return "1"
	}
	return "0"
}
func hexList(ss []string) string {
	if len(ss) == 0 {
		return "-"
	}
	var r []string
	for _, s := range ss {
		r = append(r, hexStr(s))
	}
	return strings.Join(r, ",")
}
func (p *c16Params) line() string {
	var tg []string
	for _, kv := range p.tags {
		tg = append(tg, hexStr(kv[0])+"="+hexStr(kv[1]))
	}
	t := "-"
	if len(tg) > 0 {
		t = strings.Join(tg, ",")
	}
	return fmt.Sprintf("%s %s %s %s %s %d %d %s %s %s", hexStr(p.vsw), b01(p.trunk), b01(p.erdma), hexList(p.sgs), hexStr(p.rg), p.ipc, p.ip6c, optB(p.dor), optB(p.sdc), t)
}

func parseParams(f []string) (*c16Params, bool) {
	if len(f) == 9 {
		f = append(append([]string(nil), f...), "-")
	}
	if len(f) < 10 {
		return nil, false
	}
	p := &c16Params{vsw: unhexStr(f[0]), trunk: f[1] == "1", erdma: f[2] == "1", rg: unhexStr(f[4])}
	if f[3] != "-" {
		for _, s := range strings.Split(f[3], ",") {
			p.sgs = append(p.sgs, unhexStr(s))
		}
	}
	p.ipc, _ = strconv.Atoi(f[5])
	p.ip6c, _ = strconv.Atoi(f[6])
	ob := func(s string) *bool {
		if s == "n" {
			return nil
		}
		v := s == "1"
		return &v
	}
	p.dor, p.sdc = ob(f[7]), ob(f[8])
	if f[9] != "-" {
		for _, kv := range strings.Split(f[9], ",") {
			x := strings.SplitN(kv, "=", 2)
			if len(x) != 2 {
				return nil, false
			}
			p.tags = append(p.tags, [2]string{unhexStr(x[0]), unhexStr(x[1])})
		}
	}
	return p, true
}

func (p *c16Params) options() *client.CreateNetworkInterfaceOptions {
	tags := map[string]string{}
	for _, kv := range p.tags {
		tags[kv[0]] = kv[1]
	}
	if len(p.tags) == 0 {
		tags = nil
	}
	return &client.CreateNetworkInterfaceOptions{NetworkInterfaceOptions: &client.NetworkInterfaceOptions{
		Trunk: p.trunk, ERDMA: p.erdma, VSwitchID: p.vsw, SecurityGroupIDs: append([]string(nil), p.sgs...), ResourceGroupID: p.rg,
		IPCount: p.ipc, IPv6Count: p.ip6c, Tags: tags, DeleteENIOnECSRelease: p.dor, SourceDestCheck: p.sdc,
		InstanceID: p.inst, ZoneID: p.zone,
	}}
}

// reqFingerprint renders a request as it is sent, without its client token.
func reqFingerprint(req any) string {
	b, err := json.Marshal(req)
	if err != nil {
		return ""
	}
	var m map[string]any
	if json.Unmarshal(b, &m) != nil {
		return ""
	}
	delete(m, "ClientToken")
	b, _ = json.Marshal(m)
	return string(b)
}

// fpDiff names the top-level request fields in which two fingerprints differ.
func fpDiff(a, b string) string {
	var ma, mb map[string]any
	ia, ib := strings.Index(a, "{"), strings.Index(b, "{")
	if ia < 0 || ib < 0 || json.Unmarshal([]byte(a[ia:]), &ma) != nil || json.Unmarshal([]byte(b[ib:]), &mb) != nil {
		return a + " vs " + b
	}
	var ks []string
	for k, va := range ma {
		ja, _ := json.Marshal(va)
		jb, _ := json.Marshal(mb[k])
		if string(ja) != string(jb) {
			ks = append(ks, fmt.Sprintf("%s: %s vs %s", k, ja, jb))
		}
	}
	for k, vb := range mb {
		if _, ok := ma[k]; !ok {
			jb, _ := json.Marshal(vb)
			ks = append(ks, fmt.Sprintf("%s: absent vs %s", k, jb))
		}
	}
	sort.Strings(ks)
	return strings.Join(ks, "; ")
}

// hashOf runs a builder several times with a recording generator; all runs must hash alike.
func (s *c16State) hashOf(c *Ctx, op string, build func(g client.IdempotentKeyGen) (string, error)) string {
	rg := &recGen{}
	extra := ""
	for i := 0; i < 6; i++ {
		e, err := build(rg)
		if err != nil {
			return "err"
		}
		extra = e
	}
	for _, h := range rg.hashes {
		if h != rg.hashes[0] {
			c.Violate("C16/hash-unstable", "the same parameters hash differently across calls (map iteration order leaks into the hash)", op)
			return "unstable"
		}
	}
	h := rg.hashes[0]
	// property-level, model-independent: the hash (hence the token a retry finds) is determined by the request as it
	// is sent, and two requests that differ in what is sent never hash alike
	if s.fp != "" {
		if prev, ok := s.hashFP[h]; ok && prev != s.fp {
			c.Violate("C16/different-requests-same-hash", fmt.Sprintf("two requests that differ in what is sent share one parameter hash (so a failed attempt's token is handed to the other); they differ in %s", fpDiff(prev, s.fp)), op)
		} else if !ok {
			s.hashFP[h] = s.fp
		}
		if ph, ok := s.fpHash[s.fp]; ok && ph != h {
			c.Violate("C16/same-request-different-hash", "two builds of the same request hash differently, so the retry cannot find the failed attempt's token: "+s.fp, op)
		} else if !ok {
			s.fpHash[s.fp] = h
		}
		s.fp = ""
	}
	if _, ok := s.hashID[h]; !ok {
		s.hashID[h] = len(s.hashID)
	}
	return fmt.Sprintf("h%d%s", s.hashID[h], extra)
}

func c16Exec(c *Ctx, ops []string) []string {
	outs := make([]string, len(ops))
	s := newC16State(500)
	for i, op := range ops {
		trace := ops[:i+1]
		outs[i] = protect(func() string {
			f := strings.Fields(op)
			if len(f) == 0 {
				return "bad-op"
			}
			switch f[0] {
			case "tok.new":
				n, err := strconv.Atoi(f[1])
				if err != nil || n <= 0 {
					return "bad-op"
				}
				s = newC16State(n)
				return "ok"
			case "tok.hreset":
				s.hashID, s.hashFP, s.fpHash = map[string]int{}, map[string]string{}, map[string]string{}
				return "ok"
			case "tok.gen":
				return s.tokName(s.generate(c, "H"+f[1], trace))
			case "tok.par":
				// n concurrent issue + roll-back pairs for one hash (requests with equal parameters failing at the same time):
				// afterwards every one of the n tokens is available for a retry
				n, err := strconv.Atoi(f[2])
				if err != nil || n < 2 || n > 16 {
					return "bad-op"
				}
				h := "H" + f[1]
				toks := make([]string, n)
				// phase 1: n requests are issued at the same time; phase 2 (all of them are in flight): they all fail at the same time
				for _, phase := range []int{1, 2} {
					var wg sync.WaitGroup
					var ready int32
					for k := 0; k < n; k++ {
						wg.Add(1)
						go func(k int) {
							defer wg.Done()
							runtime.LockOSThread()
							defer runtime.UnlockOSThread()
							atomic.AddInt32(&ready, 1)
							for atomic.LoadInt32(&ready) < int32(n) { // spin: all n calls start within nanoseconds of each other
							}
							if phase == 1 {
								toks[k] = s.gen.GenerateKey(h)
							} else {
								s.gen.PutBack(h, toks[k])
							}
						}(k)
					}
					wg.Wait()
				}
				seen := map[string]bool{}
				for _, u := range toks {
					if seen[u] {
						c.Violate("C16/inflight-shared", "two concurrent requests were issued the same token "+s.tokName(u), trace...)
					}
					seen[u] = true
					s.tokName(u) // numbered in slot order: the model numbers n fresh tokens
					if s.parToks == nil {
						s.parToks = map[string]map[string]bool{}
					}
					if s.parToks[h] == nil {
						s.parToks[h] = map[string]bool{}
					}
					s.parToks[h][u] = true
					if _, ok := s.prov[u]; !ok {
						s.prov[u] = h
					}
				}
				return "ok"
			case "tok.drain":
				// n issues for one hash: which tokens come out (as a set)
				n, err := strconv.Atoi(f[2])
				if err != nil || n < 1 || n > 16 {
					return "bad-op"
				}
				var names []string
				for k := 0; k < n; k++ {
					u := s.generate(c, "H"+f[1], trace)
					// property-level: all of the hash's tokens rolled back concurrently are available; a retry that draws a fresh one
					// although rolled-back tokens of its hash are left means a roll-back was lost
					if set := s.parToks["H"+f[1]]; len(set) > 0 {
						if !set[u] {
							c.Violate("C16/retry-token/concurrent-rollback-lost", fmt.Sprintf("after concurrent roll-backs for hash H%s a retry drew the fresh token %s although %d rolled-back tokens of that hash had not been re-issued: a roll-back was lost", f[1], s.tokName(u), len(set)), trace...)
						} else {
							delete(set, u)
						}
					}
					names = append(names, s.tokName(u))
				}
				sort.Strings(names)
				return strings.Join(names, ",")
			case "tok.put":
				n, _ := strconv.Atoi(f[2])
				s.putBack("H"+f[1], s.tokByNum(n))
				return "ok"
			case "tok.hcreate":
				p, ok := parseParams(f[1:])
				if !ok {
					return "bad-op"
				}
				return s.hashOf(c, op, func(g client.IdempotentKeyGen) (string, error) {
					req, _, err := p.options().Finish(g)
					if err != nil {
						return "", err
					}
					s.fp = "create " + reqFingerprint(req)
					var ks []string
					if req.Tag != nil {
						for _, t := range *req.Tag {
							ks = append(ks, hexStr(t.Key))
						}
					}
					if len(ks) == 0 {
						return " -", nil
					}
					return " " + strings.Join(ks, ","), nil
				})
			case "tok.heflo":
				if len(f) != 12 {
					return "bad-op"
				}
				p, ok := parseParams(f[1:10])
				if !ok {
					return "bad-op"
				}
				p.inst, p.zone = unhexStr(f[10]), unhexStr(f[11])
				return s.hashOf(c, op, func(g client.IdempotentKeyGen) (string, error) {
					req, _, err := p.options().EFLO(g)
					if err == nil {
						s.fp = "eflo " + reqFingerprint(req)
					}
					return "", err
				})
			case "tok.hassign4", "tok.hassign6":
				n, _ := strconv.Atoi(f[2])
				eni := unhexStr(f[1])
				return s.hashOf(c, op, func(g client.IdempotentKeyGen) (string, error) {
					o := &client.NetworkInterfaceOptions{NetworkInterfaceID: eni, IPCount: n, IPv6Count: n}
					var err error
					if f[0] == "tok.hassign4" {
						var req any
						req, _, err = (&client.AssignPrivateIPAddressOptions{NetworkInterfaceOptions: o}).Finish(g)
						if err == nil {
							s.fp = "assign4 " + reqFingerprint(req)
						}
					} else {
						var req any
						req, _, err = (&client.AssignIPv6AddressesOptions{NetworkInterfaceOptions: o}).Finish(g)
						if err == nil {
							s.fp = "assign6 " + reqFingerprint(req)
						}
					}
					return "", err
				})
			case "tok.acreate", "tok.aassign4", "tok.aassign6", "tok.aeflo", "tok.bassign4", "tok.bassign6":
				want := map[string]int{"tok.acreate": 12, "tok.aassign4": 4, "tok.aassign6": 4, "tok.aeflo": 13, "tok.bassign4": 4, "tok.bassign6": 4}[f[0]]
				if len(f) != want {
					return "bad-op"
				}
				return s.apiOp(c, f, trace)
			case "tok.fcreate", "tok.fassign4", "tok.fassign6":
				// the whole request flow on the real generator: build, (fail -> roll back)
				fail := f[len(f)-1] == "1"
				var tok string
				var rb func()
				var err error
				wrap := &flowGen{s: s, c: c, trace: trace}
				switch f[0] {
				case "tok.fcreate":
					p, ok := parseParams(f[1:11])
					if !ok {
						return "bad-op"
					}
					var req interface{ GetClientToken() string }
					r, rbf, e := p.options().Finish(wrap)
					_ = req
					err, rb = e, rbf
					if e == nil {
						tok = r.ClientToken
					}
				default:
					n, _ := strconv.Atoi(f[2])
					o := &client.NetworkInterfaceOptions{NetworkInterfaceID: unhexStr(f[1]), IPCount: n, IPv6Count: n}
					if f[0] == "tok.fassign4" {
						r, rbf, e := (&client.AssignPrivateIPAddressOptions{NetworkInterfaceOptions: o}).Finish(wrap)
						err, rb = e, rbf
						if e == nil {
							tok = r.ClientToken
						}
					} else {
						r, rbf, e := (&client.AssignIPv6AddressesOptions{NetworkInterfaceOptions: o}).Finish(wrap)
						err, rb = e, rbf
						if e == nil {
							tok = r.ClientToken
						}
					}
				}
				if err != nil {
					return "err"
				}
				if fail {
					rb()
				}
				return s.tokName(tok)
			}
			return "bad-op"
		})
	}
	return outs
}

// flowGen passes through to the real generator with the monitors attached.
type flowGen struct {
	s     *c16State
	c     *Ctx
	trace []string
}

func (f *flowGen) GenerateKey(h string) string {
	u := f.s.generate(f.c, h, f.trace)
	f.s.lastGen, f.s.lastGenHash = u, h
	return u
}
func (f *flowGen) PutBack(h, u string) { f.s.putBack(h, u) }

func c16Run(c *Ctx) {
	r := c.R
	add := func(ops []string, nt bool) {
		outs := c16Exec(c, ops)
		cs := Case{Nontrivial: nt}
		for i := range ops {
			cs.Lines = append(cs.Lines, Line{ops[i], outs[i]})
		}
		c.Add(cs)
	}
	// (a) generator histories
	for i := 0; i < c.Scale(400, 6000); i++ {
		cap := Pick(r, []int{1, 2, 3, 4, 500})
		nh := 1 + r.Intn(5)
		ops := []string{fmt.Sprintf("tok.new %d", cap)}
		var outst [][2]int // (hash, token number) in flight; token numbers follow first appearance = model numbering
		next := 0
		malformed := r.Chance(15)
		puts, hits := 0, 0
		sim := map[int][]int{} // only used to predict numbering of outstanding tokens: not a model, just bookkeeping of outputs
		_ = sim
		n := 4 + r.Intn(c.Scale(20, 40))
		for k := 0; k < n; k++ {
			if len(outst) > 0 && r.Chance(45) {
				j := r.Intn(len(outst))
				h, t := outst[j][0], outst[j][1]
				if malformed && r.Chance(30) {
					h = r.Intn(nh) // wrong hash
				}
				ops = append(ops, fmt.Sprintf("tok.put %d %d", h, t))
				puts++
				if !(malformed && r.Chance(30)) { // double put-back in the malformed stream
					outst = append(outst[:j], outst[j+1:]...)
				}
			} else if malformed && r.Chance(10) {
				ops = append(ops, fmt.Sprintf("tok.put %d %d", r.Intn(nh), 1000+r.Intn(5)))
			} else {
				h := r.Intn(nh)
				ops = append(ops, fmt.Sprintf("tok.gen %d", h))
				// run prefix to learn which token came out (needed to reference it later)
				outs := c16Exec(&Ctx{R: r, Dist: map[string]int{}}, ops)
				var t int
				fmt.Sscanf(outs[len(outs)-1], "t%d", &t)
				if t < next {
					hits++
				} else {
					next = t + 1
				}
				outst = append(outst, [2]int{h, t})
			}
		}
		if malformed {
			c.Count("gen-history-malformed")
		} else {
			c.Count("gen-history")
		}
		c.Dist["token-reuse-hits"] += hits
		add(ops, hits > 0)
	}
	// (b) hash builders: stability under map order, sensitivity to every field
	for i := 0; i < c.Scale(150, 2500); i++ {
		base := genParams(r)
		ops := []string{"tok.hreset", "tok.hcreate " + base.line()}
		for v := 0; v < 6; v++ {
			q := *base
			q.tags = append([][2]string(nil), base.tags...)
			switch r.Intn(10) {
			case 0: // same parameters, another iteration order
				p := r.Perm(len(q.tags))
				t2 := make([][2]string, len(q.tags))
				for a, b := range p {
					t2[a] = q.tags[b]
				}
				q.tags = t2
				c.Count("variant-tag-permutation")
			case 1:
				q.vsw += "x"
			case 2:
				q.trunk = !q.trunk
			case 3:
				q.sgs = append([]string{"sg-extra"}, q.sgs...)
			case 4:
				q.ipc = r.Intn(4)
			case 5:
				q.ip6c = r.Intn(3)
			case 6:
				if len(q.tags) > 0 {
					q.tags[r.Intn(len(q.tags))][1] += "v"
				}
			case 7:
				b := r.Bool()
				q.dor = &b
			case 8:
				if len(q.sgs) > 1 { // security group order is significant (a list, not a map)
					q.sgs[0], q.sgs[1] = q.sgs[1], q.sgs[0]
				}
			case 9:
				q.erdma = !q.erdma
			}
			ops = append(ops, "tok.hcreate "+q.line())
		}
		eni := Pick(r, []string{"eni-1", "eni-2", ""})
		ops = append(ops, fmt.Sprintf("tok.hassign4 %s %d", hexStr(eni), r.Intn(4)-1), fmt.Sprintf("tok.hassign6 %s %d", hexStr(eni), r.Intn(4)-1),
			fmt.Sprintf("tok.hassign4 %s %d", hexStr("eni-1"), 1+r.Intn(3)),
			fmt.Sprintf("tok.heflo %s %s %s", base.line()[:strings.LastIndex(base.line(), " ")], hexStr(Pick(r, []string{"i-1", ""})), hexStr(Pick(r, []string{"z1", ""}))))
		c.Count("hash-builder-case")
		add(ops, len(base.tags) >= 2)
	}
	// (a') concurrent roll-backs: n requests with equal parameters fail at the same time, then n retries
	for i := 0; i < c.Scale(60, 600); i++ {
		n := 2 + r.Intn(7)
		ops := []string{"tok.new 500", fmt.Sprintf("tok.par 0 %d", n), fmt.Sprintf("tok.drain 0 %d", n)}
		if r.Chance(50) {
			ops = append(ops, fmt.Sprintf("tok.par 1 %d", n), fmt.Sprintf("tok.par 0 %d", 2+r.Intn(4)), fmt.Sprintf("tok.drain 1 %d", n))
		}
		c.Count("concurrent-rollback")
		add(ops, true)
	}
	// (c) request flows through Finish + the real generator: fail / retry histories with tag maps
	for i := 0; i < c.Scale(200, 3000); i++ {
		cap := Pick(r, []int{2, 3, 500})
		ops := []string{fmt.Sprintf("tok.new %d", cap), "tok.hreset"}
		var ps []*c16Params
		for k := 0; k < 1+r.Intn(3); k++ {
			ps = append(ps, genParams(r))
		}
		fails := 0
		for k := 0; k < 3+r.Intn(c.Scale(10, 20)); k++ {
			fail := r.Chance(55)
			if fail {
				fails++
			}
			if r.Chance(75) {
				p := *Pick(r, ps)
				perm := r.Perm(len(p.tags))
				t2 := make([][2]string, len(p.tags))
				for a, b := range perm {
					t2[a] = p.tags[b]
				}
				p.tags = t2
				ops = append(ops, "tok.fcreate "+p.line()+" "+b01(fail))
			} else {
				ops = append(ops, fmt.Sprintf("tok.fassign%d %s %d %s", Pick(r, []int{4, 6}), hexStr(Pick(r, []string{"eni-1", "eni-2"})), 1+r.Intn(2), b01(fail)))
			}
		}
		c.Count("flow-history")
		add(ops, fails > 0)
	}
	// (d) the same fail / retry histories through the real OpenAPI wrappers over a scripted HTTP transport: each case has 2-4
	// request identities (wrapper + parameters) that are issued again and again, so that most failures are followed by a retry
	for i := 0; i < c.Scale(150, 2500); i++ {
		ops := []string{"tok.new 500", "tok.hreset"}
		type ident struct {
			head  string // op without the fail token
			modes []string
		}
		var ids []ident
		for k := 0; k < 2+r.Intn(3); k++ {
			switch x := r.Intn(100); {
			case x < 35:
				ids = append(ids, ident{"tok.acreate " + genParams(r).line(), []string{"1", "3", "4"}})
			case x < 55:
				l := genParams(r).line()
				ids = append(ids, ident{fmt.Sprintf("tok.aeflo %s %s %s", l[:strings.LastIndex(l, " ")], hexStr("i-1"), hexStr("z1")), []string{"1", "2"}})
			default:
				ids = append(ids, ident{fmt.Sprintf("tok.%sassign%d %s %d", Pick(r, []string{"a", "b"}), Pick(r, []int{4, 6}), hexStr(Pick(r, []string{"eni-1", "eni-2"})), 1+r.Intn(2)), []string{"1", "3", "4"}})
			}
		}
		fails := 0
		for k := 0; k < 3+r.Intn(c.Scale(10, 20)); k++ {
			id := Pick(r, ids)
			fail := "0"
			if r.Chance(50) {
				fail = Pick(r, id.modes)
				fails++
			}
			ops = append(ops, id.head+" "+fail)
			if fail != "0" {
				c.Count("api-fail-mode-" + fail)
			}
		}
		c.Count("api-history")
		add(ops, fails > 0)
	}
}

func genParams(r *Rng) *c16Params {
	p := &c16Params{vsw: Pick(r, []string{"vsw-1", "vsw-2", "vsw-é"}), trunk: r.Chance(20), erdma: r.Chance(20), rg: Pick(r, []string{"", "rg-1"}),
		ipc: r.Intn(5), ip6c: r.Intn(3)}
	for i := 0; i < 1+r.Intn(3); i++ {
		p.sgs = append(p.sgs, fmt.Sprintf("sg-%d", r.Intn(4)))
	}
	if r.Chance(5) {
		p.sgs = nil
	}
	if r.Chance(4) {
		p.vsw = ""
	}
	if r.Chance(30) {
		b := r.Bool()
		p.dor = &b
	}
	if r.Chance(30) {
		b := r.Bool()
		p.sdc = &b
	}
	keys := []string{"creator", "ack.aliyun.com", "kubernetes.io/cluster", "a", "b", "B", "z", "名", "k1", "k2", "k10", ""}
	nt := r.Intn(9)
	used := map[string]bool{}
	for i := 0; i < nt; i++ {
		k := Pick(r, keys)
		if used[k] {
			continue
		}
		used[k] = true
		p.tags = append(p.tags, [2]string{k, Pick(r, []string{"true", "terway", "c1", ""})})
	}
	return p
}
