package main

import (
	"context"
	"encoding/json"
	"fmt"
	"sort"
	"strconv"
	"strings"

	"github.com/aliyun/alibaba-cloud-sdk-go/services/ecs"
	corev1 "k8s.io/api/core/v1"
	metav1 "k8s.io/apimachinery/pkg/apis/meta/v1"
	"k8s.io/apimachinery/pkg/runtime"
	k8stypes "k8s.io/apimachinery/pkg/types"
	clientgoscheme "k8s.io/client-go/kubernetes/scheme"
	"k8s.io/client-go/tools/record"
	"sigs.k8s.io/controller-runtime/pkg/client/fake"
	"sigs.k8s.io/controller-runtime/pkg/reconcile"

	terwaydaemon "github.com/AliyunContainerService/terway/daemon"
	aliclient "github.com/AliyunContainerService/terway/pkg/aliyun/client"
	networkv1beta1 "github.com/AliyunContainerService/terway/pkg/apis/network.alibabacloud.com/v1beta1"
	nodectl "github.com/AliyunContainerService/terway/pkg/controller/node"
	"github.com/AliyunContainerService/terway/pkg/eni"
	"github.com/AliyunContainerService/terway/pkg/utils/nodecap"
	"github.com/AliyunContainerService/terway/types"
	"github.com/AliyunContainerService/terway/types/daemon"
)

func init() {
	register(&Prop{ID: "C19", Run: c19Run, Exec: pureExec(c19Exec), Corpus: [][]string{
		{"cap.limits 4 10 10 14 0 1"}, {"cap.limits 8 20 20 30 2 1"}, {"cap.limits 2 6 1 2 0 0"}, {"cap.limits 1 1 0 1 0 0"},
		{"cap.pool 4 14 10 10 10 12 0 m 0 0 5 0 0 0 0 0"}, {"cap.pool 3 3 6 6 0 0 0 m 0 6 5 0 0 0 0 0"}, {"cap.pool 4 14 10 10 10 12 0 m 0 2 5 0 0 0 0 0"},
		{"cap.crd 8 10 10 6 2 dual 1 1 1 0"}, {"cap.crd 15 10 10 6 2 ipv4 0 1 1 0"}, {"cap.crd 4 10 0 0 0 ipv6 0 0 0 0"}, {"cap.crd 2 10 10 6 1 dual 1 1 1 1"},
		{"cap.adv 8 10 6 0 1 1 1 1 5"}, {"cap.adv 8 10 6 1 0 0 0 0 7"},
	}})
}

var c19Scheme = func() *runtime.Scheme {
	s := runtime.NewScheme()
	_ = clientgoscheme.AddToScheme(s)
	_ = networkv1beta1.AddToScheme(s)
	return s
}()

func atoiAll(f []string) ([]int, bool) {
	r := make([]int, len(f))
	for i, s := range f {
		n, err := strconv.Atoi(s)
		if err != nil {
			return nil, false
		}
		r[i] = n
	}
	return r, true
}

func limitsOf(v []int) *aliclient.Limits {
	return &aliclient.Limits{Adapters: v[0], TotalAdapters: v[1], IPv4PerAdapter: v[2], IPv6PerAdapter: v[3], MemberAdapterLimit: v[4], MaxMemberAdapterLimit: v[5], ERdmaAdapters: v[6]}
}

func c19Exec(c *Ctx, op string) string {
	return protect(func() string {
		f := strings.Fields(op)
		if len(f) == 0 {
			return "bad-op"
		}
		switch f[0] {
		case "cap.limits":
			v, ok := atoiAll(f[1:])
			if !ok || len(v) != 6 {
				return "bad-op"
			}
			it := ecs.InstanceType{InstanceTypeId: "t", EniQuantity: v[0], EniPrivateIpAddressQuantity: v[1], EniIpv6AddressQuantity: v[2],
				EniTotalQuantity: v[3], EriQuantity: v[4], EniTrunkSupported: v[5] == 1}
			b, _ := json.Marshal(it)
			l, err := aliclient.NewECSLimitProvider().GetLimitFromAnno(map[string]string{"alibabacloud.com/instance-type-info": string(b)})
			if err != nil || l == nil {
				return "err"
			}
			// monitors: what is derived from the limits never exceeds the instance type
			if l.IPv4PerAdapter < 0 || l.IPv6PerAdapter < 0 || l.MemberAdapterLimit < 0 || l.ERdmaAdapters < 0 {
				c.Violate("C19/limits/negative", fmt.Sprintf("negative limit derived from %+v: %+v", it, l), op)
			}
			if !it.EniTrunkSupported && (l.MemberAdapterLimit != 0 || l.TrunkPod() != 0) {
				c.Violate("C19/limits/trunk-unsupported", "member ENIs advertised for an instance type without trunk support", op)
			}
			if m := l.MemberAdapterLimit; m > 0 && m > it.EniTotalQuantity-it.EniQuantity {
				c.Violate("C19/limits/member", fmt.Sprintf("member limit %d exceeds total-eni = %d", m, it.EniTotalQuantity-it.EniQuantity), op)
			}
			if r := l.ERDMARes(); r > l.ERdmaAdapters || r < 0 || (r > 0 && it.EriQuantity <= 0) {
				c.Violate("C19/limits/erdma", fmt.Sprintf("ERDMARes %d exceeds the type's %d RDMA interfaces", r, it.EriQuantity), op)
			}
			if it.EniQuantity >= 1 && it.EniPrivateIpAddressQuantity >= 0 && (l.MultiIPPod() > (it.EniQuantity-1)*it.EniPrivateIpAddressQuantity || l.ExclusiveENIPod() > it.EniQuantity-1) {
				c.Violate("C19/limits/podcap", "pod capacity above (adapters-1) x per-adapter", op)
			}
			return fmt.Sprintf("%d %d %d %d %d %d %d | %d %d %d", l.Adapters, l.TotalAdapters, l.IPv4PerAdapter, l.IPv6PerAdapter, l.MemberAdapterLimit,
				l.MaxMemberAdapterLimit, l.ERdmaAdapters, l.ERDMARes(), l.MultiIPPod(), l.ExclusiveENIPod())
		case "cap.pool":
			if len(f) != 17 {
				return "bad-op"
			}
			v, ok := atoiAll(f[1:8])
			w, ok2 := atoiAll(f[9:17])
			if !ok || !ok2 {
				return "bad-op"
			}
			lim := limitsOf(v)
			mode := daemon.ModeENIMultiIP
			if f[8] == "e" {
				mode = daemon.ModeENIOnly
			}
			cfg := &daemon.Config{MaxENI: w[0], MinENI: w[1], MaxPoolSize: w[2], MinPoolSize: w[3], EniCapRatio: 1, EniCapShift: w[4],
				EnableENITrunking: w[5] == 1, EnableERDMA: w[6] == 1}
			if w[7] == 1 {
				cfg.IPAMType = types.IPAMTypeCRD
			}
			p, err := terwaydaemon.VerifGetPoolConfig(cfg, mode, lim)
			if err != nil {
				return "err"
			}
			// monitors (domain: at least the primary adapter, non-negative per-adapter counts and sizes, no positive shift)
			if lim.Adapters >= 1 && lim.IPv4PerAdapter >= 0 && w[4] <= 0 {
				if p.MaxENI > lim.Adapters-1 {
					c.Violate("C19/pool/slots", fmt.Sprintf("MaxENI %d exceeds attachable secondary interfaces %d", p.MaxENI, lim.Adapters-1), op)
				}
				if p.Capacity > (lim.Adapters-1)*lim.IPv4PerAdapter || p.Capacity != p.MaxENI*p.MaxIPPerENI {
					c.Violate("C19/pool/capacity", fmt.Sprintf("capacity %d exceeds slots x per-adapter", p.Capacity), op)
				}
				if w[4] == 0 && w[2] >= 0 && w[3] >= 0 && w[1] >= 0 && !(0 <= p.MinPoolSize && p.MinPoolSize <= p.MaxPoolSize && p.MaxPoolSize <= p.Capacity) && mode == daemon.ModeENIMultiIP {
					c.Violate("C19/pool/watermarks", fmt.Sprintf("watermarks violate 0 <= min(%d) <= max(%d) <= capacity(%d)", p.MinPoolSize, p.MaxPoolSize, p.Capacity), op)
				}
				if lim.ERdmaAdapters >= 0 && p.ERdmaCapacity > lim.ERdmaAdapters*lim.IPv4PerAdapter {
					c.Violate("C19/pool/erdma", "RDMA capacity above the type's RDMA interfaces x per-adapter", op)
				}
			}
			return fmt.Sprintf("%d %d %d %d %d %d %d", p.MaxPoolSize, p.MinPoolSize, p.Capacity, p.MaxENI, p.MaxMemberENI, p.MaxIPPerENI, p.ERdmaCapacity)
		case "cap.check":
			if len(f) != 13 {
				return "bad-op"
			}
			v, ok := atoiAll(f[1:8])
			if !ok {
				return "bad-op"
			}
			lim := limitsOf(v)
			mode := daemon.ModeENIMultiIP
			if f[8] == "e" {
				mode = daemon.ModeENIOnly
			}
			cfg := &daemon.Config{IPStack: f[9], EnableENITrunking: f[10] == "1", EnableERDMA: f[11] == "1"}
			if f[9] == "other" {
				cfg.IPStack = "bogus"
			}
			setOSErdma(f[12] == "1")
			v4, v6 := terwaydaemon.VerifCheckInstance(lim, mode, cfg)
			if v6 && (lim.IPv6PerAdapter <= 0 || (mode == daemon.ModeENIMultiIP && lim.IPv6PerAdapter != lim.IPv4PerAdapter)) {
				c.Violate("C19/check/ipv6", "IPv6 enabled on an instance type that cannot deliver it", op)
				// the same from the pool's side: it has one per-interface limit, the type's IPv4 quota
				c.Violate("C06/config/ipv6-quota", fmt.Sprintf("IPv6 left enabled for a pool whose single per-interface limit is the type's IPv4 quota %d while its IPv6 quota is %d: the pool may ask for more IPv6 addresses on an interface than the type allows", lim.IPv4PerAdapter, lim.IPv6PerAdapter), op)
			}
			if cfg.EnableENITrunking && lim.MemberAdapterLimit <= 0 {
				c.Violate("C19/check/trunk", "trunk left enabled without member-ENI capacity", op)
			}
			if cfg.EnableERDMA && lim.ERDMARes() <= 0 {
				c.Violate("C19/check/erdma", "RDMA left enabled without RDMA interfaces", op)
			}
			return b01(v4) + b01(v6) + b01(cfg.EnableENITrunking) + b01(cfg.EnableERDMA)
		case "cap.crd":
			if len(f) != 11 {
				return "bad-op"
			}
			v, ok := atoiAll(f[1:6])
			if !ok {
				return "bad-op"
			}
			return c19CRD(c, op, v, f[6], f[7] == "1", f[8] == "1", f[9] == "1", f[10] == "1")
		case "cap.node":
			return c19Node(c, op, f[1:])
		case "cap.adv":
			if len(f) != 10 {
				return "bad-op"
			}
			v, ok := atoiAll(f[1:])
			if !ok {
				return "bad-op"
			}
			return c19Adv(c, op, v)
		}
		return "bad-op"
	})
}

func setOSErdma(on bool) {
	if on {
		nodecap.SetNodeCapabilities(nodecap.NodeCapabilityERDMA, "true")
	} else {
		nodecap.SetNodeCapabilities(nodecap.NodeCapabilityERDMA, "")
	}
}

func flavorStr(fl []networkv1beta1.Flavor) string {
	var ss []string
	for _, f := range fl {
		k := "std"
		if f.NetworkInterfaceType == networkv1beta1.ENITypeTrunk {
			k = "trunk"
		} else if f.NetworkInterfaceTrafficMode == networkv1beta1.NetworkInterfaceTrafficModeHighPerformance {
			k = "erdma"
		}
		ss = append(ss, fmt.Sprintf("%s:%d", k, f.Count))
	}
	return strings.Join(ss, ",")
}

// c19CRD runs the daemon-side Node CR reconciler (pkg/eni/node_reconcile.go) over a fake client.
func c19CRD(c *Ctx, op string, v []int, stack string, trunk, erdma, os, excl bool) string {
	ctx := context.Background()
	setOSErdma(os)
	conf := map[string]any{"version": "1", "vswitches": map[string][]string{"zone-a": {"vsw-1"}}, "security_group": "sg-1",
		"ip_stack": stack, "enable_eni_trunking": trunk, "enable_erdma": erdma, "max_pool_size": 5, "min_pool_size": 0}
	if stack == "other" {
		conf["ip_stack"] = "bogus"
	}
	cb, _ := json.Marshal(conf)
	labels := map[string]string{}
	if excl {
		labels[types.ExclusiveENIModeLabel] = string(types.ExclusiveENIOnly)
	}
	node := &networkv1beta1.Node{ObjectMeta: metav1.ObjectMeta{Name: "n1", Labels: labels},
		Spec: networkv1beta1.NodeSpec{NodeMetadata: networkv1beta1.NodeMetadata{ZoneID: "zone-a", InstanceID: "i-1", InstanceType: "t", RegionID: "r"},
			NodeCap: networkv1beta1.NodeCap{Adapters: v[0], TotalAdapters: v[0] + v[3], IPv4PerAdapter: v[1], IPv6PerAdapter: v[2], MemberAdapterLimit: v[3], EriQuantity: v[4]}}}
	k8sNode := &corev1.Node{ObjectMeta: metav1.ObjectMeta{Name: "n1", Labels: labels}}
	cm := &corev1.ConfigMap{ObjectMeta: metav1.ObjectMeta{Namespace: "kube-system", Name: "eni-config"}, Data: map[string]string{"eni_conf": string(cb)}}
	cl := fake.NewClientBuilder().WithScheme(c19Scheme).WithObjects(node, k8sNode, cm).Build()
	r := eni.VerifNewNodeReconcile(cl, record.NewFakeRecorder(100), "n1")
	_, err := r.Reconcile(ctx, reconcile.Request{NamespacedName: k8stypes.NamespacedName{Name: "n1"}})
	if err != nil {
		return "err"
	}
	got := &networkv1beta1.Node{}
	if err := cl.Get(ctx, k8stypes.NamespacedName{Name: "n1"}, got); err != nil || got.Spec.ENISpec == nil {
		return "err"
	}
	es := got.Spec.ENISpec
	// monitors
	if v[0] >= 1 {
		sum, neg := 0, false
		for _, f := range got.Spec.Flavor {
			sum += f.Count
			if f.Count < 0 {
				neg = true
			}
			if f.NetworkInterfaceType == networkv1beta1.ENITypeTrunk && (!es.EnableTrunk || f.Count > 1) {
				c.Violate("C19/crd/flavor-trunk", "trunk slot without trunk enabled / more than one", op)
			}
			if f.NetworkInterfaceTrafficMode == networkv1beta1.NetworkInterfaceTrafficModeHighPerformance && (!es.EnableERDMA || f.Count > 1) {
				c.Violate("C19/crd/flavor-erdma", fmt.Sprintf("RDMA slot count %d (enabled=%v)", f.Count, es.EnableERDMA), op)
			}
		}
		if sum > v[0]-1 || neg {
			c.Violate("C19/crd/flavor-slots", fmt.Sprintf("flavor %s sums to %d, attachable secondary interfaces: %d", flavorStr(got.Spec.Flavor), sum, v[0]-1), op)
		}
	}
	if es.EnableTrunk && (v[3] <= 0 || excl) {
		c.Violate("C19/crd/trunk", "trunk advertised without member capacity / in exclusive mode", op)
	}
	if es.EnableERDMA && v[4] <= 0 {
		c.Violate("C19/crd/erdma", "RDMA advertised without RDMA interfaces", op)
	}
	if es.EnableIPv6 && v[2] <= 0 {
		c.Violate("C19/crd/ipv6-not-gated", fmt.Sprintf("CRD-mode node spec enables IPv6 (ip_stack=%s) on an instance type with %d IPv6 addresses per interface", stack, v[2]), op)
	}
	return b01(es.EnableIPv4) + b01(es.EnableIPv6) + b01(es.EnableTrunk) + b01(es.EnableERDMA) + " " + flavorStr(got.Spec.Flavor)
}

// c19Adv runs the controller's k8sAnno + patchNodeRes for a Node CR with the given flavor.
func c19Adv(c *Ctx, op string, v []int) string {
	ctx := context.Background()
	adapters, ipv4, member, excl, trunkSw, ready, ft, fe, std := v[0], v[1], v[2], v[3] == 1, v[4] == 1, v[5] == 1, v[6] == 1, v[7] == 1, v[8]
	labels := map[string]string{}
	if excl {
		labels[types.ExclusiveENIModeLabel] = string(types.ExclusiveENIOnly)
	}
	var fl []networkv1beta1.Flavor
	if ft {
		fl = append(fl, networkv1beta1.Flavor{NetworkInterfaceType: networkv1beta1.ENITypeTrunk, NetworkInterfaceTrafficMode: networkv1beta1.NetworkInterfaceTrafficModeStandard, Count: 1})
	}
	if fe {
		fl = append(fl, networkv1beta1.Flavor{NetworkInterfaceType: networkv1beta1.ENITypeSecondary, NetworkInterfaceTrafficMode: networkv1beta1.NetworkInterfaceTrafficModeHighPerformance, Count: 1})
	}
	fl = append(fl, networkv1beta1.Flavor{NetworkInterfaceType: networkv1beta1.ENITypeSecondary, NetworkInterfaceTrafficMode: networkv1beta1.NetworkInterfaceTrafficModeStandard, Count: std})
	node := &networkv1beta1.Node{ObjectMeta: metav1.ObjectMeta{Name: "n1", Labels: labels},
		Spec: networkv1beta1.NodeSpec{NodeCap: networkv1beta1.NodeCap{Adapters: adapters, IPv4PerAdapter: ipv4, MemberAdapterLimit: member},
			ENISpec: &networkv1beta1.ENISpec{EnableIPv4: true, EnableTrunk: trunkSw}, Flavor: fl},
		Status: networkv1beta1.NodeStatus{NetworkInterfaces: map[string]*networkv1beta1.NetworkInterface{}}}
	if ready {
		node.Status.NetworkInterfaces["eni-t"] = &networkv1beta1.NetworkInterface{ID: "eni-t", NetworkInterfaceType: networkv1beta1.ENITypeTrunk, Status: aliclient.ENIStatusInUse}
	}
	k8sNode := &corev1.Node{ObjectMeta: metav1.ObjectMeta{Name: "n1", Labels: labels}}
	cl := fake.NewClientBuilder().WithScheme(c19Scheme).WithObjects(k8sNode).WithStatusSubresource(k8sNode).Build()
	if err := nodectl.VerifNodeAdvertise(ctx, cl, record.NewFakeRecorder(100), k8sNode, node); err != nil {
		return "err"
	}
	got := &corev1.Node{}
	if err := cl.Get(ctx, k8stypes.NamespacedName{Name: "n1"}, got); err != nil {
		return "err"
	}
	anno := "-"
	if a, ok := got.Annotations[string(types.NormalIPTypeIPs)]; ok {
		anno = a
	}
	var res []string
	for name, q := range got.Status.Allocatable {
		short := strings.TrimPrefix(string(name), "aliyun/")
		if q.Value() == 0 {
			continue // a zero quantity equals the absent previous value and is never patched
		}
		res = append(res, fmt.Sprintf("%s:%d", short, q.Value()))
		if cq := got.Status.Capacity[name]; cq.Value() != q.Value() {
			c.Violate("C19/adv/capacity-allocatable", "capacity and allocatable differ", op)
		}
	}
	sort.Strings(res)
	resS := "-"
	if len(res) > 0 {
		resS = strings.Join(res, ",")
	}
	// monitors: the flavor passed in sums to adapters-1 by construction of the generator when marked consistent
	slots := std
	if ft {
		slots++
	}
	if fe {
		slots++
	}
	if n, err := strconv.Atoi(anno); err == nil && adapters >= 1 && ipv4 >= 0 && slots == adapters-1 && std >= 0 {
		if !excl && n > (adapters-1)*ipv4 {
			c.Violate("C19/adv/max-available-ip", fmt.Sprintf("max-available-ip %d exceeds (adapters-1) x per-adapter = %d", n, (adapters-1)*ipv4), op)
		}
		if excl && n > adapters-1 {
			c.Violate("C19/adv/max-available-ip", fmt.Sprintf("exclusive-ENI max-available-ip %d exceeds adapters-1 = %d", n, adapters-1), op)
		}
	}
	for _, r := range res {
		kv := strings.SplitN(r, ":", 2)
		n, _ := strconv.Atoi(kv[1])
		if kv[0] == "member-eni" && (n > member || !trunkSw) {
			c.Violate("C19/adv/member-eni", "member-eni resource above the member limit / without trunk", op)
		}
		if kv[0] == "eni" && slots == adapters-1 && std >= 0 && n > adapters-1 {
			c.Violate("C19/adv/eni", "exclusive ENI devices above adapters-1", op)
		}
	}
	return "anno=" + anno + " res=" + resS
}

// c06ConfigRun: the start-up configuration chain (limits -> checkInstance / getPoolConfig) as far as C06 needs it.
func c06ConfigRun(c *Ctx, n int) {
	r := c.R
	for i := 0; i < n; i++ {
		ad := Pick(r, []int{2, 3, 4, 8, 16})
		v4 := Pick(r, []int{1, 2, 6, 10, 20, 30})
		v6 := Pick(r, []int{0, 1, v4, v4, v4 - 1, v4 / 2, v4 + 4})
		if v6 < 0 {
			v6 = 0
		}
		ls := fmt.Sprintf("%d %d %d %d %d %d %d", ad, ad+Pick(r, []int{0, 4, 10}), v4, v6, Pick(r, []int{0, 4, 10}), Pick(r, []int{0, 10}), Pick(r, []int{0, 1}))
		mode := Pick(r, []string{"m", "m", "m", "e"})
		line := fmt.Sprintf("cap.check %s %s %s %s %s %s", ls, mode, Pick(r, []string{"dual", "dual", "ipv6", "ipv4"}), b01(r.Chance(50)), b01(r.Chance(30)), b01(r.Chance(50)))
		c.One(line, c19Exec(c, line), v6 > 0 && v6 != v4)
		line = fmt.Sprintf("cap.pool %s %s %d %d %d %d 0 %s 0 0", ls, mode, Pick(r, []int{0, 2, 100}), Pick(r, []int{0, 1}), Pick(r, []int{5, 10, 50}), Pick(r, []int{0, 2, 5}), b01(r.Chance(40)))
		c.One(line, c19Exec(c, line), mode == "m")
		c.Count("config-chain")
	}
}

func c19Run(c *Ctx) {
	r := c.R
	c19NodeRun(c, c.Scale(300, 5000))
	small := func() int { return Pick(r, []int{0, 1, 2, 3, 4, 6, 8, 10, 15, 20, 30, 50, r.Intn(64)}) }
	for i := 0; i < c.Scale(2500, 50000); i++ {
		eniQ := Pick(r, []int{0, 1, 2, 3, 4, 7, 8, 9, 15, r.Intn(64)})
		priv := small()
		v6 := Pick(r, []int{0, 0, 1, priv, priv, small()})
		total := eniQ + Pick(r, []int{0, 0, 1, 6, 10, 100, -1})
		eri := Pick(r, []int{0, 0, 0, 1, 2, 4, -1})
		trunkSup := r.Chance(50)
		if r.Chance(3) {
			priv = -1
		}
		line := fmt.Sprintf("cap.limits %d %d %d %d %d %s", eniQ, priv, v6, total, eri, b01(trunkSup))
		out := c19Exec(c, line)
		c.One(line, out, eniQ > 1 && priv > 0)
		c.Count("limits")
		// derived limits feed the downstream functions (the real chain), plus arbitrary vectors
		lf := strings.Fields(strings.Split(out, "|")[0])
		if len(lf) != 7 {
			continue
		}
		if r.Chance(15) {
			lf = []string{fmt.Sprint(small()), fmt.Sprint(small()), fmt.Sprint(small()), fmt.Sprint(small()), fmt.Sprint(small()), fmt.Sprint(small()), fmt.Sprint(Pick(r, []int{0, 1, 2, 3}))}
		}
		ls := strings.Join(lf, " ")
		mode := Pick(r, []string{"m", "m", "m", "e"})
		maxENI := Pick(r, []int{0, 0, 1, 2, 5, 100, -1})
		minENI := Pick(r, []int{0, 0, 0, 1, 2, 6, 100})
		maxPool := Pick(r, []int{0, 5, 5, 10, 50, 1000, r.Intn(300)})
		minPool := Pick(r, []int{0, 0, 2, 5, 20, 1000, r.Intn(300)})
		if r.Chance(3) {
			maxPool = -5
		}
		shift := Pick(r, []int{0, 0, 0, 0, 0, 0, 1, -1})
		line = fmt.Sprintf("cap.pool %s %s %d %d %d %d %d %s %s %s", ls, mode, maxENI, minENI, maxPool, minPool, shift, b01(r.Chance(40)), b01(r.Chance(40)), b01(r.Chance(20)))
		c.One(line, c19Exec(c, line), mode == "m" && (minENI > 0 || minPool > maxPool))
		c.Count("pool")
		line = fmt.Sprintf("cap.check %s %s %s %s %s %s", ls, mode, Pick(r, []string{"ipv4", "dual", "ipv6", "dual"}), b01(r.Chance(60)), b01(r.Chance(60)), b01(r.Chance(60)))
		c.One(line, c19Exec(c, line), true)
		c.Count("check")
		if i%4 == 0 {
			ad, _ := strconv.Atoi(lf[0])
			erdmaRes := 0
			if of := strings.Fields(strings.Split(out, "|")[1]); len(of) == 3 {
				erdmaRes, _ = strconv.Atoi(of[0])
			}
			if r.Chance(10) {
				erdmaRes = r.Intn(4)
			}
			stack := Pick(r, []string{"ipv4", "dual", "ipv6", "dual", "ipv4"})
			line = fmt.Sprintf("cap.crd %d %s %s %s %d %s %s %s %s %s", ad, lf[2], lf[3], lf[4], erdmaRes, stack, b01(r.Chance(60)), b01(r.Chance(60)), b01(r.Chance(70)), b01(r.Chance(25)))
			crdOut := c19Exec(c, line)
			c.One(line, crdOut, ad > 2)
			c.Count("crd")
			// controller side on the flavor the daemon side produced
			if cf := strings.Fields(crdOut); len(cf) == 2 {
				ft, fe, std := strings.Contains(cf[1], "trunk:"), strings.Contains(cf[1], "erdma:"), 0
				if j := strings.Index(cf[1], "std:"); j >= 0 {
					std, _ = strconv.Atoi(cf[1][j+4:])
				}
				line = fmt.Sprintf("cap.adv %d %s %s %s %s %s %s %s %d", ad, lf[2], lf[4], b01(r.Chance(25)), string(cf[0][2]), b01(r.Chance(60)), b01(ft), b01(fe), std)
				c.One(line, c19Exec(c, line), std > 0)
				c.Count("adv")
			}
		}
	}
}
