package main

// Scheduler, history generator and monitors of the PodENI world (see eworld.go).

import (
	"context"
	"encoding/json"
	"fmt"
	"sort"
	"strconv"
	"strings"
	"sync"
	"time"

	corev1 "k8s.io/api/core/v1"
	metav1 "k8s.io/apimachinery/pkg/apis/meta/v1"
	k8stypes "k8s.io/apimachinery/pkg/types"
	"sigs.k8s.io/controller-runtime/pkg/reconcile"

	networkv1beta1 "github.com/AliyunContainerService/terway/pkg/apis/network.alibabacloud.com/v1beta1"
	"github.com/AliyunContainerService/terway/pkg/eni"
	terwayTypes "github.com/AliyunContainerService/terway/types"
	"github.com/AliyunContainerService/terway/types/controlplane"
	daemonTypes "github.com/AliyunContainerService/terway/types/daemon"
)

func init() {
	for _, id := range []string{"C10", "C11"} {
		id := id
		register(&Prop{ID: id,
			Run:   func(c *Ctx) { runPodEniWorlds(c, id, nil) },
			Exec2: func(c *Ctx, ops []string) ([]string, []string) { return runPodEniWorlds(c, id, ops) },
		})
	}
}

func runPodEniWorlds(c *Ctx, focus string, replay []string) (lines, outs []string) {
	dwQuiet()
	var seeds []uint64
	if replay != nil {
		for _, op := range replay {
			if strings.HasPrefix(op, "pe.case ") {
				s, _ := strconv.ParseUint(strings.TrimPrefix(op, "pe.case "), 10, 64)
				for k := 0; k < 24; k++ {
					seeds = append(seeds, s)
				}
			}
		}
	} else {
		n := c.Scale(1200, 25000)
		for i := 0; i < n; i++ {
			seeds = append(seeds, c.R.U64())
		}
	}
	var mu sync.Mutex
	sem := make(chan struct{}, 16)
	var wg sync.WaitGroup
	found := false
	for _, s := range seeds {
		mu.Lock()
		stop := replay != nil && found
		mu.Unlock()
		if stop {
			break
		}
		wg.Add(1)
		sem <- struct{}{}
		go func(seed uint64) {
			defer wg.Done()
			defer func() { <-sem }()
			sub := &Ctx{Tier: c.Tier, Seed: seed, R: NewRng(seed), Dist: map[string]int{}, Extra: map[string]any{}}
			w := newEWorld(sub, sub.R)
			w.runCase(seed)
			mu.Lock()
			defer mu.Unlock()
			for k, v := range sub.Dist {
				c.Dist[k] += v
			}
			for _, v := range sub.Viol {
				if strings.HasPrefix(v.Key, focus+"/") {
					c.Violate(v.Key, v.What, v.Lines...)
					found = true
				} else {
					c.Dist["other-property-violations-seen"]++
				}
			}
			if replay == nil {
				c.Cases = append(c.Cases, sub.Cases...)
			} else if len(sub.Cases) > 0 && (lines == nil || len(sub.Viol) > 0) {
				lines, outs = nil, nil
				for _, l := range sub.Cases[0].Lines {
					lines, outs = append(lines, l.Op), append(outs, l.Impl)
				}
			}
		}(s)
		if replay != nil {
			wg.Wait()
		}
	}
	wg.Wait()
	return
}

// ---------- generation ----------

var ewStrategies = []ewAllocSpec{
	{false, "", "", "E"},
	{true, "Never", "", "N"},
	{true, "TTL", "35s", "T35"},
	{true, "TTL", "105s", "T105"},
	{true, "TTL", "385s", "T385"},
	{true, "TTL", "665s", "T665"},
	{true, "TTL", "0s", "T0"},
	{true, "TTL", "soon", "X"},
	{true, "TTL", "-5s", "X"},
	{true, "", "", "X"},
}

func (w *ewWorld) genSpec() *ewSpec {
	r := w.r
	sp := &ewSpec{useENI: r.Chance(70), hostNet: r.Chance(4), ignored: r.Chance(4)}
	if w.profile == 1 {
		// collector-focused: pods that need their record only because of the node they run on
		sp.useENI, sp.hostNet, sp.ignored = r.Chance(25), false, false
	}
	switch r.Intn(10) {
	case 0:
		sp.owner = ""
	case 1, 2:
		sp.owner = "ReplicaSet"
	default:
		sp.owner = "StatefulSet"
	}
	n := 1
	if r.Chance(35) {
		n = 2
	}
	fixed := r.Chance(60)
	for i := 0; i < n; i++ {
		if fixed && r.Chance(85) {
			sp.allocs = append(sp.allocs, ewStrategies[1+r.Intn(len(ewStrategies)-1)])
		} else {
			sp.allocs = append(sp.allocs, ewStrategies[0])
		}
	}
	// mostly ordinary nodes; sometimes the exclusive-ENI node or the virtual one
	for i := 0; i < 2; i++ {
		if !sp.useENI && r.Chance(70) {
			sp.nodes = append(sp.nodes, 2) // without the annotation only the exclusive-ENI node gives the pod a record
			continue
		}
		switch x := r.Intn(20); {
		case x < 8:
			sp.nodes = append(sp.nodes, 0)
		case x < 15:
			sp.nodes = append(sp.nodes, 1)
		case x < 19:
			sp.nodes = append(sp.nodes, 2)
		default:
			sp.nodes = append(sp.nodes, 3)
		}
	}
	return sp
}

// ewNodeName: node -1 is "not scheduled yet" (a Pending pod: the pod controller's predicate never lets it through, the
// record collector must treat it as a pod that needs its record)
func ewNodeName(node int) string {
	if node < 0 {
		return ""
	}
	return ewNodes[node].name
}

// pendingPod: the pod of that name exists and is not scheduled
func (w *ewWorld) pendingPod(k string) bool {
	w.mu.Lock()
	defer w.mu.Unlock()
	p := w.rawPod(k)
	return p != nil && p.Spec.NodeName == ""
}

func (w *ewWorld) buildPod(k string, uid int, node int) *corev1.Pod {
	sp := w.spec[k]
	p := &corev1.Pod{ObjectMeta: metav1.ObjectMeta{Name: k, Namespace: ewNS, UID: k8stypes.UID(ewUID(k, uid)),
		Annotations: map[string]string{}, Labels: map[string]string{}, Finalizers: []string{"verif/hold"}},
		Spec:   corev1.PodSpec{NodeName: ewNodeName(node), HostNetwork: sp.hostNet, Containers: []corev1.Container{{Name: "c", Image: "i"}}},
		Status: corev1.PodStatus{Phase: corev1.PodRunning}}
	if sp.useENI {
		p.Annotations[terwayTypes.PodENI] = "true"
	}
	if sp.ignored {
		p.Labels[terwayTypes.IgnoreByTerway] = "true"
	}
	if sp.owner != "" {
		p.OwnerReferences = []metav1.OwnerReference{{APIVersion: "apps/v1", Kind: sp.owner, Name: "own", UID: "own-uid"}}
	}
	var pa controlplane.PodNetworksAnnotation
	for i, al := range sp.allocs {
		pn := controlplane.PodNetworks{VSwitchOptions: []string{"vsw-1"}, SecurityGroupIDs: []string{"sg-1"}, Interface: fmt.Sprintf("eth%d", i)}
		if al.fixed {
			pn.AllocationType = &networkv1beta1.AllocationType{Type: networkv1beta1.IPAllocTypeFixed,
				ReleaseStrategy: networkv1beta1.ReleaseStrategy(al.strategy), ReleaseAfter: al.after}
		} else {
			pn.AllocationType = &networkv1beta1.AllocationType{Type: networkv1beta1.IPAllocTypeElastic}
		}
		pa.PodNetworks = append(pa.PodNetworks, pn)
	}
	b, _ := json.Marshal(pa)
	p.Annotations[terwayTypes.PodNetworks] = string(b)
	return p
}

func ewFixedName(p *corev1.Pod) bool {
	if len(p.OwnerReferences) == 0 {
		return true
	}
	for _, o := range p.OwnerReferences {
		if o.Kind == "StatefulSet" {
			return true
		}
	}
	return false
}

// ---------- actors ----------

func (w *ewWorld) start(kind, name string, quiet bool) *ewActor {
	a := &ewActor{kind: kind, name: name, resume: make(chan ewDirective), auxFault: map[string]bool{}}
	a.dir.pauseChild = -1
	if !quiet {
		if w.r.Chance(4) {
			a.auxFault["node"] = true
		}
		if kind == "P" && w.r.Chance(3) {
			a.auxFault["vsw"] = true
		}
	}
	w.mu.Lock()
	w.live[a.key()] = a
	switch kind {
	case "P":
		w.emit(name, "pe.pStart "+name, "")
	case "E":
		w.emit(name, "pe.eStart "+name, "")
	}
	w.mu.Unlock()
	w.c.Count("actor:" + kind)
	go func() {
		ctx := context.WithValue(context.Background(), ewActorKey{}, a)
		req := reconcile.Request{NamespacedName: k8stypes.NamespacedName{Namespace: ewNS, Name: name}}
		var err error
		switch kind {
		case "P":
			_, err = w.podR.Reconcile(ctx, req)
		case "E":
			_, err = w.eniR.Reconcile(ctx, req)
		case "G":
			w.eniR.VerifGCRecords(ctx)
		case "L":
			w.eniR.VerifGCLeaked(ctx)
		}
		w.mu.Lock()
		w.finish(a, err)
		delete(w.live, a.key())
		w.mu.Unlock()
		w.sched <- ewMsg{a: a, done: true}
	}()
	w.await(a)
	return a
}

// await blocks until the running actor parks at its next modelled call or ends.
func (w *ewWorld) await(a *ewActor) bool {
	select {
	case m := <-w.sched:
		if m.a != a {
			w.mu.Lock()
			w.anomaly("scheduler: message from " + m.a.key() + " while waiting for " + a.key())
			w.mu.Unlock()
		}
		return m.done
	case <-time.After(20 * time.Second):
		w.mu.Lock()
		w.anomaly("scheduler: " + a.key() + " neither parked nor ended (at " + a.parkedAt + ")")
		w.mu.Unlock()
		return true
	}
}

func (w *ewWorld) advance(a *ewActor, d ewDirective) bool {
	a.resume <- d
	return w.await(a)
}

func (w *ewWorld) directive(a *ewActor, faults bool) ewDirective {
	d := ewDirective{pauseChild: -1}
	if !faults {
		return d
	}
	r := w.r
	switch a.parkedAt {
	case "gGetNode":
		d.fault = r.Chance(40)
	case "pCreateRec", "pCloudDelete":
		d.fault = r.Chance(15)
	default:
		d.fault = r.Chance(7)
	}
	if r.Chance(12) {
		d.childFault = map[int]bool{r.Intn(4): true}
	}
	if r.Chance(15) {
		d.pauseChild = r.Intn(4)
	}
	return d
}

func (w *ewWorld) runToEnd(a *ewActor) {
	for i := 0; i < 200; i++ {
		w.mu.Lock()
		_, alive := w.live[a.key()]
		w.mu.Unlock()
		if !alive {
			return
		}
		if w.advance(a, ewDirective{pauseChild: -1}) {
			return
		}
	}
}

func (w *ewWorld) finish(a *ewActor, err error) {
	switch a.kind {
	case "P":
		// roll-back monitor: what this reconciliation created and did not record must be gone
		if len(a.made) > 0 {
			rec := w.rawRec(a.name)
			refs := map[int]bool{}
			if rec != nil {
				for _, al := range rec.Spec.Allocations {
					refs[ewParseEni(al.ENI.ID)] = true
				}
			}
			for _, id := range a.made {
				if _, ok := w.cloud.enis[id]; ok && !refs[id] {
					if a.delFault {
						w.leakedOK[id] = true
					} else {
						w.c.Violate("C10/rollback/created-interface-left-behind",
							fmt.Sprintf("the pod controller ended a reconciliation (err=%v) leaving interface %d it had created, with no record naming it and no failed roll-back deletion", err != nil, id), w.tail()...)
					}
				}
			}
		}
		w.emit(a.name, "pe.pDone "+a.name, "")
	case "E":
		w.emit(a.name, "pe.eDone "+a.name, "")
	case "G":
		w.gEndAll()
	case "L":
		w.lEndAll()
	}
}

func (w *ewWorld) tail() []string {
	n := len(w.lines)
	from := 0
	if n > 40 {
		from = n - 40
	}
	var out []string
	for _, l := range w.lines[from:] {
		out = append(out, l.Op+" => "+l.Impl)
	}
	return out
}

// ---------- monitors ----------

func ewRefs(rec *networkv1beta1.PodENI, id int) bool {
	if rec == nil {
		return false
	}
	for _, al := range rec.Spec.Allocations {
		if ewParseEni(al.ENI.ID) == id {
			return true
		}
	}
	return false
}

// monPull: a cloud detach / delete must not hit an interface named by the record of a pod instance that is still running.
func (w *ewWorld) monPull(a *ewActor, what string, id int) {
	e := w.cloud.enis[id]
	if e == nil || e.owner == "kf" {
		return
	}
	k := e.owner
	rec, pod := w.rawRec(k), w.rawPod(k)
	if rec == nil || pod == nil || !ewRefs(rec, id) || ewExited(pod) {
		return
	}
	if rec.Annotations[terwayTypes.PodUID] != string(pod.UID) {
		return
	}
	who := "?"
	if a != nil {
		who = a.kind
	}
	w.c.Violate(fmt.Sprintf("C10/pull/%s-%s-from-running-pod", who, what),
		fmt.Sprintf("interface %d was %s-ed by %s while pod %s (uid %s, phase %s), the instance its record names, is still running; record phase %s",
			id, what, who, k, pod.UID, pod.Status.Phase, rec.Status.Phase), w.tail()...)
}

var ewEdges = map[string]bool{"I-B": true, "B-Dt": true, "Dt-U": true, "U-Bg": true, "Bg-B": true}

func (w *ewWorld) monPhase(a *ewActor, k string, old, new networkv1beta1.Phase, rec *networkv1beta1.PodENI) {
	if old == new {
		return
	}
	o, n := ewPhaseTok(old), ewPhaseTok(new)
	w.c.Count("edge:" + o + "-" + n + ":" + a.kind)
	if n != "Dl" && !ewEdges[o+"-"+n] {
		w.c.Violate(fmt.Sprintf("C10/phase/%s-to-%s", o, n),
			fmt.Sprintf("record %s went from phase %q to %q (by %s), which is not an edge of the documented life cycle", k, old, new, a.kind), w.tail()...)
	}
	if n == "Dl" {
		pod := w.rawPod(k)
		if pod != nil && !ewExited(pod) && w.needsG(pod) && rec.Annotations[terwayTypes.PodUID] == string(pod.UID) {
			w.c.Violate(fmt.Sprintf("C10/gc/%s-marked-record-of-running-pod-deleting", a.kind),
				fmt.Sprintf("record %s was marked Deleting by %s while pod instance %s it names is running and needs it", k, a.kind, pod.UID), w.tail()...)
		}
		if rec.Spec.HaveFixedIP() {
			if a.kind != "G" {
				w.c.Violate("C11/fixed/"+a.kind+"-marked-fixed-record-deleting",
					fmt.Sprintf("fixed-IP record %s was marked Deleting by %s (only the collector may, after the TTL)", k, a.kind), w.tail()...)
				return
			}
			for _, al := range rec.Spec.Allocations {
				tok := ewStratTok(al)
				switch {
				case tok == "E":
				case tok == "N" || tok == "X":
					w.c.Violate("C11/ttl/reaped-allocation-that-must-be-kept",
						fmt.Sprintf("record %s was reaped although allocation %s has strategy %q / %q", k, al.ENI.ID, al.AllocationType.ReleaseStrategy, al.AllocationType.ReleaseAfter), w.tail()...)
				default:
					d, _ := strconv.ParseInt(tok[1:], 10, 64)
					if obs := w.obsV[k]; obs >= 0 && w.now < obs+d {
						w.c.Violate("C11/ttl/reaped-before-ttl",
							fmt.Sprintf("record %s was reaped at t=%d: the pod was last observed at t=%d and allocation %s keeps it for %d s", k, w.now, obs, al.ENI.ID, d), w.tail()...)
					}
				}
			}
		}
	}
}

func (w *ewWorld) monFixedDeleted(cur *networkv1beta1.PodENI, why string) {
	if cur.Spec.HaveFixedIP() {
		w.c.Violate("C11/fixed/pod-controller-deleted-fixed-record", "fixed-IP record "+cur.Name+": "+why, w.tail()...)
	}
}

// monBind: a fixed-IP record that becomes bound names the interfaces and addresses it was created with, all attached.
func (w *ewWorld) monBind(k string, rec *networkv1beta1.PodENI) {
	orig := w.orig[k]
	same := len(orig) == len(rec.Spec.Allocations)
	for i := range orig {
		if !same {
			break
		}
		a, b := orig[i], rec.Spec.Allocations[i]
		if a.ENI.ID != b.ENI.ID || a.IPv4 != b.IPv4 || a.ENI.MAC != b.ENI.MAC {
			same = false
		}
	}
	if !same && rec.Spec.HaveFixedIP() {
		w.c.Violate("C11/rebind/allocations-changed", fmt.Sprintf("fixed-IP record %s was bound with other interfaces / addresses than it was created with", k), w.tail()...)
	}
	for _, al := range rec.Spec.Allocations {
		e := w.cloud.enis[ewParseEni(al.ENI.ID)]
		if e == nil || e.att < 0 || w.cloud.api(e).PrivateIPAddress != al.IPv4 {
			w.c.Violate("C11/rebind/bound-without-interface", fmt.Sprintf("record %s is Bind but interface %s is missing, detached or has another address", k, al.ENI.ID), w.tail()...)
		}
	}
}

// monLeak: the leaked-interface collector only touches what is ours, old and unreferenced.
func (w *ewWorld) monLeak(what string, id int) {
	e := w.cloud.enis[id]
	if e == nil {
		return
	}
	ours := e.owner != "kf" || e.tagKind == 0
	switch {
	case !ours:
		w.c.Violate("C11/leak-gc/"+what+"-foreign-interface", fmt.Sprintf("the collector %s-ed interface %d which does not carry this cluster's controller tags (kind %d)", what, id, e.tagKind), w.tail()...)
	case w.now-e.ctime < ewGrace:
		w.c.Violate("C11/leak-gc/"+what+"-young-interface", fmt.Sprintf("the collector %s-ed interface %d which is %d s old", what, id, w.now-e.ctime), w.tail()...)
	case w.lRefs[id]:
		w.c.Violate("C11/leak-gc/"+what+"-referenced-interface", fmt.Sprintf("the collector %s-ed interface %d which a record it had just listed names", what, id), w.tail()...)
	default:
		if e.owner != "kf" && ewRefs(w.rawRec(e.owner), id) {
			w.c.Violate("C11/leak-gc/"+what+"-interface-referenced-at-reap", fmt.Sprintf("the collector %s-ed interface %d which a record names by now", what, id), w.tail()...)
		}
	}
}

// ---------- environment ----------

func (w *ewWorld) envPod(k string) {
	r := w.r
	w.mu.Lock()
	defer w.mu.Unlock()
	p := w.rawPod(k)
	ctx := context.Background()
	if p == nil {
		sp := w.spec[k]
		uid := w.nextUID[k]
		w.nextUID[k]++
		node := sp.nodes[r.Intn(len(sp.nodes))]
		// a Pending pod only where the previous instance has been dealt with (no record, or a fixed-IP record parked in
		// Unbind): the pod controller does not see a pod without a node, so whatever its predecessor's events still had to
		// trigger must have happened
		if _, pBusy := w.live["P:"+k]; pBusy {
			// a reconciliation of the predecessor is still in flight: it may yet create or change the record
		} else if rec := w.rawRec(k); (rec == nil || (rec.Spec.HaveFixedIP() && rec.Status.Phase == networkv1beta1.ENIPhaseUnbind && rec.DeletionTimestamp.IsZero())) && r.Chance(25) {
			node = -1 // stays Pending for its whole life
			w.c.Count("env:podPending")
		}
		np := w.buildPod(k, uid, node)
		if err := w.raw.Create(ctx, np); err != nil {
			w.anomaly("pod create: " + err.Error())
			return
		}
		w.emit(k, fmt.Sprintf("pe.podCreate %s %s %s", k, b01(w.needsG(np)), b01(ewFixedName(np))), "")
		return
	}
	switch x := r.Intn(10); {
	case x < 3 && p.DeletionTimestamp.IsZero():
		// graceful deletion begins: the object stays, terminating
		if err := w.raw.Delete(ctx, p); err != nil {
			w.anomaly("pod term: " + err.Error())
		}
		w.c.Count("env:podTerm")
	case x < 5 && !ewExited(p):
		p.Status.Phase = corev1.PodSucceeded
		if r.Bool() {
			p.Status.Phase = corev1.PodFailed
		}
		if err := w.raw.Status().Update(ctx, p); err != nil {
			w.anomaly("pod exit: " + err.Error())
			return
		}
		if q := w.rawPod(k); q == nil || !ewExited(q) {
			w.anomaly("pod exit did not stick")
		}
		w.emit(k, "pe.podExit "+k, "")
	default:
		p.Finalizers = nil
		if err := w.raw.Update(ctx, p); err != nil {
			w.anomaly("pod unhold: " + err.Error())
			return
		}
		if w.rawPod(k) != nil {
			if err := w.raw.Delete(ctx, p); err != nil {
				w.anomaly("pod remove: " + err.Error())
				return
			}
		}
		w.emit(k, "pe.podRemove "+k, "")
	}
}

// envDaemon asks the daemon side (pkg/eni Remote.Allocate) whether it would hand the record's interfaces to pod
// instance u of name k right now (one immediate look; the retry loop is cut by the context).
func (w *ewWorld) envDaemon(k string) {
	w.mu.Lock()
	n := w.nextUID[k]
	w.mu.Unlock()
	if n == 0 {
		return
	}
	u := n - 1
	if n > 1 && w.r.Chance(30) {
		u = w.r.Intn(n - 1)
	}
	// The daemon looks at once and then retries every 5 s until its context ends; an acceptance is answered
	// immediately, a refusal never (the goroutine just ends with the context).  How long the harness waits depends on
	// what it would expect itself (so that a loaded machine cannot turn an acceptance into a refusal); what is
	// recorded is what the daemon really answered.
	w.mu.Lock()
	rec0 := w.rawRec(k)
	w.mu.Unlock()
	expect := rec0 != nil && rec0.Status.Phase == networkv1beta1.ENIPhaseBind && rec0.DeletionTimestamp.IsZero() &&
		rec0.Annotations[terwayTypes.PodUID] == ewUID(k, u) && len(rec0.Spec.Allocations) > 0
	patience := 40 * time.Millisecond
	if expect {
		patience = 3 * time.Second
	}
	ctx, cancel := context.WithCancel(context.Background())
	defer cancel()
	ch, _ := eni.NewRemote(w.cl, nil).Allocate(ctx, &daemonTypes.CNI{PodName: k, PodNamespace: ewNS, PodUID: ewUID(k, u)}, &eni.RemoteIPRequest{})
	ok := false
	if ch != nil {
		select {
		case resp := <-ch:
			ok = resp != nil && resp.Err == nil && len(resp.NetworkConfigs) > 0
		case <-time.After(patience):
			// not ready: nothing is sent before the context ends.  End it and listen a little longer: whatever the
			// daemon answers when its wait is cut short (the way its own deadline cuts it) counts as its answer too
			cancel()
			select {
			case resp := <-ch:
				ok = resp != nil && resp.Err == nil && len(resp.NetworkConfigs) > 0
			case <-time.After(60 * time.Millisecond):
			}
		}
	}
	cancel()
	w.mu.Lock()
	defer w.mu.Unlock()
	if ok {
		rec := w.rawRec(k)
		if rec == nil || rec.Status.Phase != networkv1beta1.ENIPhaseBind || !rec.DeletionTimestamp.IsZero() || rec.Annotations[terwayTypes.PodUID] != ewUID(k, u) {
			w.c.Violate("C10/daemon/accepted-record-not-bound-to-that-instance",
				fmt.Sprintf("the daemon took the interfaces of record %s for pod instance %s although the record is not Bind for it", k, ewUID(k, u)), w.tail()...)
		}
	}
	w.c.Count("daemon:accept=" + b01(ok))
	w.emit(k, fmt.Sprintf("pe.dAccept %s %d %s", k, u, b01(ok)), "")
}

func (w *ewWorld) envTick() {
	w.mu.Lock()
	defer w.mu.Unlock()
	for _, a := range w.live {
		if a.kind == "P" && a.inCreate {
			return
		}
	}
	d := int64(ewTickUnit) * int64(Pick(w.r, []int{1, 1, 1, 2, 4, 5, 8, 9, 10, 20}))
	w.now += d
	w.lines = append(w.lines, Line{Op: fmt.Sprintf("pe.tick %d", d), Impl: "ok"})
	w.c.Count("ev:tick")
}

func (w *ewWorld) envForeign() {
	w.mu.Lock()
	defer w.mu.Unlock()
	r := w.r
	id := w.cloud.next
	w.cloud.next++
	e := &ewENI{id: id, owner: "kf", ip: id, att: -1, tagKind: Pick(r, []int{0, 0, 0, 1, 2, 3, 4}), member: r.Chance(35)}
	age := int64(ewTickUnit) * int64(Pick(r, []int{0, 1, 8, 9, 9, 30}))
	if age > w.now {
		age = w.now
	}
	e.ctime = w.now - age
	if r.Chance(45) {
		e.att = r.Intn(3)
	}
	e.ours = e.tagKind == 0
	w.cloud.enis[id] = e
	att := "-"
	if e.att >= 0 {
		att = strconv.Itoa(e.att)
	}
	w.emit("kf", fmt.Sprintf("pe.foreign kf %d %s %s %s %d", id, b01(e.ours), b01(e.member), att, age), "")
}

// ---------- one case ----------

func (w *ewWorld) digest() string {
	w.mu.Lock()
	defer w.mu.Unlock()
	var p []string
	for _, k := range w.allNames() {
		pod := "-"
		if q := w.rawPod(k); q != nil {
			pod = string(q.UID) + ":" + string(q.Status.Phase)
		}
		p = append(p, k+"="+pod+"|"+w.recView(k)+"|"+w.cloudView(k))
	}
	return strings.Join(p, ";")
}

func (w *ewWorld) runCase(seed uint64) {
	r := w.r
	if r.Chance(25) {
		w.profile = 1
	}
	n := 1 + r.Intn(3)
	for i := 0; i < n; i++ {
		k := fmt.Sprintf("k%d", i)
		w.names = append(w.names, k)
		w.spec[k] = w.genSpec()
	}
	w.lines = append(w.lines, Line{Op: fmt.Sprintf("pe.case %d", seed), Impl: "ok"})
	steps := r.Range(25, 110)
	for i := 0; i < steps; i++ {
		w.stepOnce()
	}
	// drain what is in flight (no more faults), then let the two reconcilers run until nothing changes
	for len(w.liveKeys()) > 0 {
		for _, key := range w.liveKeys() {
			w.mu.Lock()
			a := w.live[key]
			w.mu.Unlock()
			if a != nil {
				w.runToEnd(a)
			}
		}
	}
	for round := 0; round < 12; round++ {
		before := w.digest()
		for _, k := range w.names {
			if !w.pendingPod(k) {
				w.runToEnd(w.start("P", k, true))
			}
			w.runToEnd(w.start("E", k, true))
		}
		if w.digest() == before {
			break
		}
		if round == 11 {
			w.mu.Lock()
			w.c.Violate("C10/converge/no-fixed-point", "the two reconcilers keep changing state without any outside change", w.tail()...)
			w.mu.Unlock()
		}
	}
	w.final()
	w.mu.Lock()
	for _, s := range w.anomalies {
		w.c.Count("anomaly:" + s)
		w.c.Violate("C10/harness/"+s, "harness anomaly: "+s, w.tail()...)
	}
	lines := w.lines
	w.mu.Unlock()
	w.c.Add(Case{Lines: lines, Nontrivial: true})
}

func (w *ewWorld) liveKeys() []string {
	w.mu.Lock()
	defer w.mu.Unlock()
	var ks []string
	for k := range w.live {
		ks = append(ks, k)
	}
	sort.Strings(ks)
	return ks
}

func (w *ewWorld) stepOnce() {
	r := w.r
	live := w.liveKeys()
	x := r.Intn(100)
	switch {
	case x < 30 && len(live) > 0:
		w.mu.Lock()
		a := w.live[Pick(r, live)]
		w.mu.Unlock()
		w.advance(a, w.directive(a, true))
	case x < 42 && len(live) > 0:
		w.mu.Lock()
		a := w.live[Pick(r, live)]
		w.mu.Unlock()
		w.runToEnd(a)
	case x < 70:
		kind := Pick(r, []string{"P", "P", "P", "E", "E", "E", "G", "L"})
		if w.profile == 1 {
			kind = Pick(r, []string{"P", "P", "E", "E", "G", "G", "G", "L"})
		}
		name := ""
		if kind == "P" || kind == "E" {
			name = Pick(r, w.names)
		}
		key := kind
		if name != "" {
			key = kind + ":" + name
		}
		w.mu.Lock()
		_, busy := w.live[key]
		w.mu.Unlock()
		if kind == "P" && w.pendingPod(name) {
			busy = true // processPod: events of a pod without a node never reach the pod controller
		}
		if !busy {
			a := w.start(kind, name, false)
			if r.Chance(45) {
				w.runToEnd(a)
			}
		}
	case x < 84:
		w.envPod(Pick(r, w.names))
	case x < 88:
		w.envDaemon(Pick(r, w.names))
	case x < 95:
		w.envTick()
	default:
		w.envForeign()
	}
}

// final: after the fault-free fixed point.
func (w *ewWorld) final() {
	w.mu.Lock()
	defer w.mu.Unlock()
	for _, k := range w.names {
		pod, rec := w.rawPod(k), w.rawRec(k)
		if (pod == nil || ewExited(pod)) && rec != nil && !rec.Spec.HaveFixedIP() {
			w.c.Violate("C10/converge/record-of-deleted-pod-remains",
				fmt.Sprintf("pod %s is gone (or finished) and its record has no fixed address, yet the record is still there in phase %q after the reconcilers reached a fixed point", k, rec.Status.Phase), w.tail()...)
		}
		w.faultMu.Lock()
		clean := !w.faulted[k] && !w.faulted["*"]
		w.faultMu.Unlock()
		if clean && pod != nil && !ewExited(pod) && pod.DeletionTimestamp.IsZero() && rec != nil && rec.Spec.HaveFixedIP() && ewFixedName(pod) &&
			w.needsP(pod) && rec.DeletionTimestamp.IsZero() && rec.Status.Phase != networkv1beta1.ENIPhaseDeleting {
			if rec.Status.Phase != networkv1beta1.ENIPhaseBind || rec.Annotations[terwayTypes.PodUID] != string(pod.UID) {
				key := "C11/rebind/fixed-record-not-rebound"
				if rec.Status.Phase == networkv1beta1.ENIPhaseBinding && rec.Annotations[terwayTypes.PodUID] != string(pod.UID) {
					// the record was being re-bound for the previous instance when that one was replaced
					key += "/binding-foreign-uid"
				}
				w.c.Violate(key,
					fmt.Sprintf("pod %s (uid %s) runs and its fixed-IP record exists, yet at the fixed point the record is in phase %q for uid %q", k, pod.UID, rec.Status.Phase, rec.Annotations[terwayTypes.PodUID]), w.tail()...)
			}
		}
	}
	for _, id := range w.cloud.sortedIDs() {
		e := w.cloud.enis[id]
		if e.owner == "kf" || w.leakedOK[id] {
			continue
		}
		if !ewRefs(w.rawRec(e.owner), id) {
			w.c.Violate("C10/converge/interface-without-record",
				fmt.Sprintf("interface %d created for %s exists at the fixed point although no record names it and no roll-back deletion failed", id, e.owner), w.tail()...)
		}
	}
}

// needsP: would the pod controller create a record for this pod?
func (w *ewWorld) needsP(p *corev1.Pod) bool {
	if p.Spec.HostNetwork || terwayTypes.IgnoredByTerway(p.Labels) {
		return false
	}
	for _, n := range ewNodes {
		if n.name == p.Spec.NodeName {
			if n.vk || n.ignor {
				return false
			}
			return terwayTypes.PodUseENI(p) || n.exclusive
		}
	}
	return false
}
