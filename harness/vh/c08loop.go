package main

// Closed loop for C08 (and the C02 / C03 monitors that only make sense in the loop): the REAL
// ReconcileNode.Reconcile of the cluster IPAM controller against a fake API server (Node CR, pods,
// NodeRuntime, v1 Node) and a fake cloud with fault injection, over histories of pod arrivals and
// departures, teardown reports, cloud drift and failing cloud calls.  Monitors only (no model
// correspondence): quotas at every cloud call, nothing bound is unassigned, failed creation is rolled
// back or stays recorded, record and cloud agree after a full synchronisation, convergence to a fixed point.

import (
	"context"
	"errors"
	"fmt"
	apierrors "k8s.io/apimachinery/pkg/api/errors"
	"k8s.io/apimachinery/pkg/runtime/schema"
	"sigs.k8s.io/controller-runtime/pkg/client/interceptor"
	"sort"
	"strings"
	"sync"
	"time"

	"github.com/aliyun/alibaba-cloud-sdk-go/services/vpc"
	corev1 "k8s.io/api/core/v1"
	metav1 "k8s.io/apimachinery/pkg/apis/meta/v1"
	k8stypes "k8s.io/apimachinery/pkg/types"
	"k8s.io/apimachinery/pkg/util/wait"
	"sigs.k8s.io/controller-runtime/pkg/client"
	"sigs.k8s.io/controller-runtime/pkg/client/fake"
	"sigs.k8s.io/controller-runtime/pkg/reconcile"

	aliyunClient "github.com/AliyunContainerService/terway/pkg/aliyun/client"
	apiErr "github.com/AliyunContainerService/terway/pkg/aliyun/client/errors"
	networkv1beta1 "github.com/AliyunContainerService/terway/pkg/apis/network.alibabacloud.com/v1beta1"
	ctrlreg "github.com/AliyunContainerService/terway/pkg/controller"
	ipamnode "github.com/AliyunContainerService/terway/pkg/controller/multi-ip/node"
	"github.com/AliyunContainerService/terway/pkg/vswitch"
	terwayTypes "github.com/AliyunContainerService/terway/types"
)

type loopENI struct {
	id       string
	idx      int
	status   string // Available | InUse
	attached bool
	ips      map[string]bool // all addresses (both families); primary = 10.1.idx.1
}

type loopCall struct {
	name string
	eni  string
	n    int
	ips  []string
	err  bool
}

type loopCloud struct {
	ctrlreg.Interface // every method the controller does not use panics if called
	mu                sync.Mutex
	enis              map[string]*loopENI
	next              int
	fail              map[string]string // call name -> "before" | "after" (one shot)
	log               []loopCall
	cap4              int
	quota             int // secondary interfaces the instance may have
	w                 *loopWorld
}

func (c *loopCloud) shot(name string) string {
	m := c.fail[name]
	delete(c.fail, name)
	return m
}

func (c *loopCloud) DescribeVSwitchByID(ctx context.Context, id string) (*vpc.VSwitch, error) {
	return &vpc.VSwitch{VSwitchId: id, ZoneId: "zone-a", AvailableIpAddressCount: 1000, CidrBlock: "10.1.0.0/16", Ipv6CidrBlock: "fd01::/64"}, nil
}

func (c *loopCloud) apiENI(e *loopENI) *aliyunClient.NetworkInterface {
	ni := &aliyunClient.NetworkInterface{Status: e.status, NetworkInterfaceID: e.id, MacAddress: fmt.Sprintf("02:00:00:00:02:%02x", e.idx),
		VSwitchID: "vsw-1", Type: aliyunClient.ENITypeSecondary, NetworkInterfaceTrafficMode: "Standard", PrivateIPAddress: fmt.Sprintf("10.1.%d.1", e.idx)}
	if e.attached {
		ni.InstanceID = "i-1"
	}
	var ips []string
	for ip := range e.ips {
		ips = append(ips, ip)
	}
	sort.Strings(ips)
	for _, ip := range ips {
		s := aliyunClient.IPSet{IPAddress: ip, Primary: ip == ni.PrivateIPAddress}
		if strings.Contains(ip, ":") {
			ni.IPv6Set = append(ni.IPv6Set, s)
		} else {
			ni.PrivateIPSets = append(ni.PrivateIPSets, s)
		}
	}
	return ni
}

func (c *loopCloud) DescribeNetworkInterfaceV2(ctx context.Context, opts ...aliyunClient.DescribeNetworkInterfaceOption) ([]*aliyunClient.NetworkInterface, error) {
	o := &aliyunClient.DescribeNetworkInterfaceOptions{}
	for _, x := range opts {
		x.ApplyTo(o)
	}
	c.mu.Lock()
	defer c.mu.Unlock()
	if c.shot("describe") != "" {
		return nil, errors.New("injected: describe")
	}
	if o.NetworkInterfaceIDs == nil {
		// the full synchronisation: from here on the controller knows what the cloud has
		c.w.described, c.w.lostWrite = true, false
	}
	var ids []string
	for id := range c.enis {
		ids = append(ids, id)
	}
	sort.Strings(ids)
	var out []*aliyunClient.NetworkInterface
	for _, id := range ids {
		e := c.enis[id]
		if o.NetworkInterfaceIDs != nil {
			found := false
			for _, w := range *o.NetworkInterfaceIDs {
				if w == id {
					found = true
				}
			}
			if !found {
				continue
			}
		} else if !e.attached {
			continue
		}
		out = append(out, c.apiENI(e))
	}
	return out, nil
}

func (c *loopCloud) CreateNetworkInterfaceV2(ctx context.Context, opts ...aliyunClient.CreateNetworkInterfaceOption) (*aliyunClient.NetworkInterface, error) {
	o := &aliyunClient.CreateNetworkInterfaceOptions{NetworkInterfaceOptions: &aliyunClient.NetworkInterfaceOptions{}}
	for _, x := range opts {
		x.ApplyCreateNetworkInterface(o)
	}
	c.mu.Lock()
	defer c.mu.Unlock()
	n4, n6 := o.NetworkInterfaceOptions.IPCount, o.NetworkInterfaceOptions.IPv6Count
	c.log = append(c.log, loopCall{name: "create", n: n4})
	attached := 0
	for _, e := range c.enis {
		if e.attached {
			attached++
		}
	}
	if c.w.stalePass && c.w.snap != nil {
		// the pass works from an old object: it is judged against what that object records
		if rec := len(c.w.snap.Status.NetworkInterfaces); rec+1 > c.quota {
			c.w.viol("C08/cloud/create-over-quota", fmt.Sprintf("CreateNetworkInterface with %d interfaces in the (stale) record the pass started from, %d allowed", rec, c.quota))
		}
	} else if len(c.enis)+1 > c.quota {
		c.w.viol("C08/cloud/create-over-quota", fmt.Sprintf("CreateNetworkInterface with %d interfaces of the node already there (%d attached), %d allowed", len(c.enis), attached, c.quota))
	}
	if n4 > c.cap4 || n6 > c.cap4 {
		c.w.viol("C08/cloud/create-count", fmt.Sprintf("CreateNetworkInterface with %d/%d addresses, %d allowed", n4, n6, c.cap4))
	}
	if c.shot("create") == "before" {
		return nil, errors.New("injected: create")
	}
	c.next++
	e := &loopENI{id: fmt.Sprintf("eni-c%d", c.next), idx: c.next, status: "Available", ips: map[string]bool{}}
	// an interface always has its primary IPv4 address, whatever count was asked for (the real client sends
	// SecondaryPrivateIpAddressCount = IPCount-1 only for IPCount > 1)
	for k := 1; k <= max(n4, 1); k++ {
		e.ips[fmt.Sprintf("10.1.%d.%d", e.idx, k)] = true
	}
	for k := 1; k <= n6; k++ {
		e.ips[fmt.Sprintf("fd01::%x:%x", e.idx, k)] = true
	}
	c.enis[e.id] = e
	c.w.created = append(c.w.created, e.id)
	return c.apiENI(e), nil
}

func (c *loopCloud) AttachNetworkInterface(ctx context.Context, opts ...aliyunClient.AttachNetworkInterfaceOption) error {
	o := &aliyunClient.AttachNetworkInterfaceOptions{}
	for _, x := range opts {
		x.ApplyTo(o)
	}
	c.mu.Lock()
	defer c.mu.Unlock()
	c.log = append(c.log, loopCall{name: "attach", eni: *o.NetworkInterfaceID})
	if c.shot("attach") != "" {
		return errors.New("injected: attach")
	}
	if e := c.enis[*o.NetworkInterfaceID]; e != nil {
		e.attached, e.status = true, "InUse"
	}
	return nil
}

func (c *loopCloud) DetachNetworkInterface(ctx context.Context, eniID, instanceID, trunkENIID string) error {
	c.mu.Lock()
	defer c.mu.Unlock()
	c.log = append(c.log, loopCall{name: "detach", eni: eniID})
	c.w.checkNotBound("detach", eniID, nil)
	if c.shot("detach") != "" {
		return errors.New("injected: detach")
	}
	if e := c.enis[eniID]; e != nil {
		e.attached, e.status = false, "Available"
	}
	return nil
}

func (c *loopCloud) DeleteNetworkInterfaceV2(ctx context.Context, eniID string) error {
	c.mu.Lock()
	defer c.mu.Unlock()
	c.log = append(c.log, loopCall{name: "delete", eni: eniID})
	c.w.checkNotBound("delete", eniID, nil)
	if m := c.shot("delete"); m == "before" {
		if c.w.delFailedPass == nil {
			c.w.delFailedPass = map[string]int{}
		}
		c.w.delFailedPass[eniID] = c.w.pass
		return errors.New("injected: delete")
	}
	delete(c.enis, eniID)
	return nil
}

func (c *loopCloud) WaitForNetworkInterfaceV2(ctx context.Context, eniID string, status string, bo wait.Backoff, ignoreNotExist bool) (*aliyunClient.NetworkInterface, error) {
	c.mu.Lock()
	defer c.mu.Unlock()
	if c.shot("wait") != "" {
		return nil, errors.New("injected: wait")
	}
	e := c.enis[eniID]
	if e == nil {
		return nil, apiErr.ErrNotFound
	}
	if e.status != status {
		return nil, fmt.Errorf("timeout waiting for %s to become %s", eniID, status)
	}
	return c.apiENI(e), nil
}

func (c *loopCloud) assign(name, eniID string, n int, six bool) ([]aliyunClient.IPSet, error) {
	c.mu.Lock()
	defer c.mu.Unlock()
	c.log = append(c.log, loopCall{name: name, eni: eniID, n: n})
	e := c.enis[eniID]
	if e == nil {
		return nil, apiErr.ErrNotFound
	}
	// judged against what the controller knows: the record it started this pass from (a call that timed out after
	// taking effect leaves the record behind the cloud until the next full synchronisation) - or, once it has read the
	// node's interfaces from the cloud in this pass, the cloud's content.  A pass whose status write was lost has to be
	// followed by such a read before anything is requested (the controller knows its record is stale), so then the
	// cloud's content counts as well.
	real := 0
	for ip := range e.ips {
		if strings.Contains(ip, ":") == six {
			real++
		}
	}
	have, what := 0, "recorded on the interface"
	if c.w.snap != nil {
		if ni := c.w.snap.Status.NetworkInterfaces[eniID]; ni != nil {
			have = len(ni.IPv4)
			if six {
				have = len(ni.IPv6)
			}
		}
	}
	if c.w.described {
		have, what = real, "on the interface in the cloud, which this pass has read"
	} else if c.w.lostWrite {
		have, what = real, "on the interface in the cloud (the status write of the pass that put them there was lost and the controller did not synchronise before asking for more)"
	}
	if have+n > c.cap4 {
		c.w.viol("C08/cloud/assign-over-quota", fmt.Sprintf("%s(%s, %d) with %d addresses of that family %s, %d allowed", name, eniID, n, have, what, c.cap4))
	}
	if c.w.faults == 0 && !c.w.stalePass && real+n > c.cap4 {
		// (a pass that started from an old object is judged against that object only)
		// no cloud call ever failed, so the record cannot legitimately be behind the cloud: the interface's real content counts
		c.w.viol("C08/cloud/assign-over-quota", fmt.Sprintf("%s(%s, %d) with %d addresses of that family on the interface in the cloud (no call has failed), %d allowed", name, eniID, n, real, c.cap4))
	}
	m := c.shot(name)
	if m == "before" {
		return nil, errors.New("injected: " + name)
	}
	var out []aliyunClient.IPSet
	for k := 1; len(out) < n && k < 200; k++ {
		ip := fmt.Sprintf("10.1.%d.%d", e.idx, k)
		if six {
			ip = fmt.Sprintf("fd01::%x:%x", e.idx, k)
		}
		if !e.ips[ip] && !c.w.usedIP[ip] {
			e.ips[ip], c.w.usedIP[ip] = true, true
			out = append(out, aliyunClient.IPSet{IPAddress: ip})
		}
	}
	if m == "after" {
		return nil, errors.New("injected: " + name + " (timeout after effect)")
	}
	return out, nil
}

func (c *loopCloud) AssignPrivateIPAddressV2(ctx context.Context, opts ...aliyunClient.AssignPrivateIPAddressOption) ([]aliyunClient.IPSet, error) {
	o := &aliyunClient.AssignPrivateIPAddressOptions{NetworkInterfaceOptions: &aliyunClient.NetworkInterfaceOptions{}}
	for _, x := range opts {
		x.ApplyAssignPrivateIPAddress(o)
	}
	return c.assign("assign4", o.NetworkInterfaceOptions.NetworkInterfaceID, o.NetworkInterfaceOptions.IPCount, false)
}

func (c *loopCloud) AssignIpv6AddressesV2(ctx context.Context, opts ...aliyunClient.AssignIPv6AddressesOption) ([]aliyunClient.IPSet, error) {
	o := &aliyunClient.AssignIPv6AddressesOptions{NetworkInterfaceOptions: &aliyunClient.NetworkInterfaceOptions{}}
	for _, x := range opts {
		x.ApplyAssignIPv6Addresses(o)
	}
	return c.assign("assign6", o.NetworkInterfaceOptions.NetworkInterfaceID, o.NetworkInterfaceOptions.IPv6Count, true)
}

func (c *loopCloud) unassign(name, eniID string, ips []aliyunClient.IPSet) error {
	c.mu.Lock()
	defer c.mu.Unlock()
	var l []string
	for _, ip := range ips {
		l = append(l, ip.IPAddress)
	}
	c.log = append(c.log, loopCall{name: name, eni: eniID, ips: l})
	if len(l) >= 10 {
		c.w.c.Count("loop-unassign-full-batch")
	}
	c.w.checkNotBound(name, eniID, l)
	if c.shot(name) == "before" {
		return errors.New("injected: " + name)
	}
	if e := c.enis[eniID]; e != nil {
		for _, ip := range l {
			if ip == fmt.Sprintf("10.1.%d.1", e.idx) {
				c.w.viol("C03/cloud/unassign-primary", "the primary address "+ip+" was unassigned")
			}
			delete(e.ips, ip)
		}
	}
	return nil
}
func (c *loopCloud) UnAssignPrivateIPAddressesV2(ctx context.Context, eniID string, ips []aliyunClient.IPSet) error {
	return c.unassign("unassign4", eniID, ips)
}
func (c *loopCloud) UnAssignIpv6AddressesV2(ctx context.Context, eniID string, ips []aliyunClient.IPSet) error {
	return c.unassign("unassign6", eniID, ips)
}

// ---------- the world ----------

type loopWorld struct {
	noFaults, wide bool
	faults         int  // cloud calls made to fail
	conflicts      int  // status writes of the Node CR answered with a conflict
	conflict       bool // the next status write of the Node CR is answered with a conflict
	conflictFired  bool // … and it was, in the current pass
	staleRead      bool // the controller's next read of the Node CR is served from its cache: the object as it was one pass ago
	stalePass      bool // … which happened in the current pass
	rs             *Rng // the stale-read choices
	noStale        bool // a regression seed: the history it was kept for had no stale read
	prevSnap       *networkv1beta1.Node
	podAddr        map[string]string // pod/uid -> the IPv4 address it reports (taken from the persisted record)
	lostWrite      bool              // a pass that changed the cloud lost its status write and no full synchronisation has happened since
	described      bool              // the current pass has read the node's interfaces from the cloud
	pass           int
	lostPass       map[int]bool   // passes whose status write was lost
	delFailedPass  map[string]int // interface -> pass in which its deletion failed without effect
	c              *Ctx
	r              *Rng
	focus          string
	cl             client.WithWatch
	cloud          *loopCloud
	rec            reconcile.Reconciler
	en6            bool
	cap4           int
	quota          int
	minP           int
	maxP           int
	pods           map[string]string // pod name -> uid (existing)
	gone           map[string]string // uid -> name of pods deleted, teardown not yet reported
	reported       map[string]bool   // uid -> teardown reported
	created        []string
	usedIP         map[string]bool
	trace          []string
	viols          [][2]string
	snap           *networkv1beta1.Node // record before the running reconcile
}

func (w *loopWorld) viol(key, what string) {
	w.viols = append(w.viols, [2]string{key, what})
}

func (w *loopWorld) node() *networkv1beta1.Node {
	n := &networkv1beta1.Node{}
	_ = w.cl.Get(context.Background(), k8stypes.NamespacedName{Name: "node-a"}, n)
	return n
}

// checkNotBound: a cloud call that takes addresses away (unassign of `ips`, or detach/delete of the whole interface
// when ips == nil) must not hit an address bound — in the record the controller started from — to a pod that exists
// or whose teardown has not been reported.
func (w *loopWorld) checkNotBound(call, eniID string, ips []string) {
	if w.snap == nil {
		return
	}
	ni := w.snap.Status.NetworkInterfaces[eniID]
	if ni == nil {
		return
	}
	chk := func(m map[string]*networkv1beta1.IP) {
		for k, ip := range m {
			if ip.PodID == "" {
				continue
			}
			if ips != nil {
				hit := false
				for _, x := range ips {
					if x == k {
						hit = true
					}
				}
				if !hit {
					continue
				}
			}
			name := strings.TrimPrefix(ip.PodID, "ns/")
			uid, exists := w.pods[name]
			if exists && ip.PodUID != "" && uid != ip.PodUID {
				exists = false // a later pod of the same name: the binding is the earlier instance's
			}
			if exists || (ip.PodUID != "" && !w.reported[ip.PodUID]) {
				w.viol("C03/cloud/"+call+"-bound-address", fmt.Sprintf("%s on %s takes away %s, bound to %s (exists=%v, teardown reported=%v)", call, eniID, k, ip.PodID, exists, w.reported[ip.PodUID]))
			}
		}
	}
	chk(ni.IPv4)
	chk(ni.IPv6)
}

func newLoopWorld(c *Ctx, r *Rng, focus string) *loopWorld {
	w := &loopWorld{c: c, r: r, focus: focus, pods: map[string]string{}, gone: map[string]string{}, reported: map[string]bool{}, usedIP: map[string]bool{}}
	w.cap4 = 2 + r.Intn(3)
	w.quota = 1 + r.Intn(3)
	w.en6 = r.Intn(3) == 0
	w.maxP = r.Intn(4)
	w.minP = r.Intn(w.maxP + 1)
	// profiles: every third case has no injected fault at all (then record and cloud must agree at every quiet
	// point, not only after a full synchronisation); every fifth has wide interfaces, so that one trim or one
	// demand burst spans more than one batch (10) of addresses
	w.noFaults = r.Intn(3) == 0
	if r.Intn(5) == 0 {
		w.wide = true
		w.cap4 = 12 + r.Intn(8)
		w.quota = 1 + r.Intn(2)
		w.maxP = r.Intn(3)
		w.minP = r.Intn(w.maxP + 1)
	}
	node := &networkv1beta1.Node{ObjectMeta: metav1.ObjectMeta{Name: "node-a"}}
	node.Spec.NodeMetadata = networkv1beta1.NodeMetadata{RegionID: "r", InstanceType: "t", InstanceID: "i-1", ZoneID: "zone-a"}
	node.Spec.NodeCap = networkv1beta1.NodeCap{Adapters: w.quota + 1, IPv4PerAdapter: w.cap4, IPv6PerAdapter: w.cap4}
	node.Spec.ENISpec = &networkv1beta1.ENISpec{EnableIPv4: true, EnableIPv6: w.en6, VSwitchOptions: []string{"vsw-1"}, SecurityGroupIDs: []string{"sg-1"}}
	node.Spec.Pool = &networkv1beta1.PoolSpec{MaxPoolSize: w.maxP, MinPoolSize: w.minP}
	node.Spec.Flavor = []networkv1beta1.Flavor{{NetworkInterfaceType: networkv1beta1.ENITypeSecondary, NetworkInterfaceTrafficMode: networkv1beta1.NetworkInterfaceTrafficModeStandard, Count: w.quota}}
	w.cl = fake.NewClientBuilder().WithScheme(terwayTypes.Scheme).
		WithObjects(node, &corev1.Node{ObjectMeta: metav1.ObjectMeta{Name: "node-a"}}, &networkv1beta1.NodeRuntime{ObjectMeta: metav1.ObjectMeta{Name: "node-a"}}).
		WithStatusSubresource(&networkv1beta1.Node{}, &corev1.Node{}, &networkv1beta1.NodeRuntime{}).
		WithIndex(&corev1.Pod{}, "spec.nodeName", func(o client.Object) []string { return []string{o.(*corev1.Pod).Spec.NodeName} }).
		WithInterceptorFuncs(interceptor.Funcs{
			Get: func(ctx context.Context, c client.WithWatch, key client.ObjectKey, obj client.Object, opts ...client.GetOption) error {
				if n, ok := obj.(*networkv1beta1.Node); ok && w.staleRead && w.prevSnap != nil {
					// a lagging informer cache (or an old leader still running): the pass starts from the object as it was before
					// the previous pass wrote it
					w.staleRead, w.stalePass = false, true
					w.prevSnap.DeepCopyInto(n)
					w.trace = append(w.trace, "  the Node CR was read from a stale cache (resourceVersion "+n.ResourceVersion+")")
					return nil
				}
				return c.Get(ctx, key, obj, opts...)
			},
			SubResourceUpdate: func(ctx context.Context, c client.Client, sub string, obj client.Object, opts ...client.SubResourceUpdateOption) error {
				if _, ok := obj.(*networkv1beta1.Node); ok && w.conflict {
					w.conflict = false
					w.conflictFired = true
					w.trace = append(w.trace, "  status write answered with a conflict")
					return apierrors.NewConflict(schema.GroupResource{Group: "network.alibabacloud.com", Resource: "nodes"}, obj.GetName(), errors.New("injected: the object has been modified"))
				}
				return c.SubResource(sub).Update(ctx, obj, opts...)
			},
		}).Build()
	w.cloud = &loopCloud{enis: map[string]*loopENI{}, fail: map[string]string{}, cap4: w.cap4, quota: w.quota, w: w}
	vsw, _ := vswitch.NewSwitchPool(100, "10m")
	w.rec = ipamnode.VerifNewReconcileNode(w.cl, w.cloud, vsw, time.Hour, 0)
	return w
}

func (w *loopWorld) addPod(name string) {
	uid := fmt.Sprintf("uid-%s-%d", name, w.r.Intn(1<<20))
	p := &corev1.Pod{ObjectMeta: metav1.ObjectMeta{Namespace: "ns", Name: name, UID: k8stypes.UID(uid)}, Spec: corev1.PodSpec{NodeName: "node-a"}}
	if w.cl.Create(context.Background(), p) == nil {
		w.pods[name] = uid
		w.trace = append(w.trace, "pod+ "+name)
	}
}

func (w *loopWorld) delPod(name string) {
	p := &corev1.Pod{}
	if w.cl.Get(context.Background(), k8stypes.NamespacedName{Namespace: "ns", Name: name}, p) == nil {
		_ = w.cl.Delete(context.Background(), p)
		w.gone[w.pods[name]] = name
		delete(w.pods, name)
		w.trace = append(w.trace, "pod- "+name)
	}
}

// reportTeardown: the node agent records the CNI DEL of vanished pods in the NodeRuntime object
func (w *loopWorld) reportTeardown() {
	nr := &networkv1beta1.NodeRuntime{}
	if w.cl.Get(context.Background(), k8stypes.NamespacedName{Name: "node-a"}, nr) != nil {
		return
	}
	if nr.Status.Pods == nil {
		nr.Status.Pods = map[string]*networkv1beta1.RuntimePodStatus{}
	}
	for uid, name := range w.gone {
		nr.Status.Pods[uid] = &networkv1beta1.RuntimePodStatus{PodID: "ns/" + name, Status: map[networkv1beta1.CNIStatus]*networkv1beta1.CNIStatusInfo{
			networkv1beta1.CNIStatusDeleted: {LastUpdateTime: metav1.Now()}}}
		w.reported[uid] = true
		delete(w.gone, uid)
	}
	_ = w.cl.Status().Update(context.Background(), nr)
	w.trace = append(w.trace, "teardown-reported")
}

// kubelet reports the address of pods the record binds
func (w *loopWorld) reportPodIPs() {
	n := w.node()
	for _, ni := range n.Status.NetworkInterfaces {
		for _, ip := range ni.IPv4 {
			if ip.PodID == "" || ip.IP == "" || ip.Status != networkv1beta1.IPStatusValid {
				continue
			}
			name := strings.TrimPrefix(ip.PodID, "ns/")
			if _, ok := w.pods[name]; !ok {
				continue
			}
			p := &corev1.Pod{}
			if w.cl.Get(context.Background(), k8stypes.NamespacedName{Namespace: "ns", Name: name}, p) == nil && p.Status.PodIP == "" {
				p.Status.PodIP = ip.IP
				_ = w.cl.Status().Update(context.Background(), p)
				if w.podAddr == nil {
					w.podAddr = map[string]string{}
				}
				for other, addr := range w.podAddr {
					on := strings.SplitN(other, "/", 2)
					if addr == ip.IP && on[0] != name && w.pods[on[0]] == on[1] {
						w.viol("C02/loop/two-pods-report-one-address", fmt.Sprintf("%s is published as the address of %s while %s, which still exists, reports it as well", ip.IP, name, on[0]))
					}
				}
				w.podAddr[name+"/"+w.pods[name]] = ip.IP
			}
		}
	}
}

func (w *loopWorld) reconcile() (int, error) {
	armed := w.staleRead
	w.staleRead = false // the harness's own read is not the controller's
	cur := w.node()
	w.staleRead = armed
	w.snap = cur
	if w.staleRead && w.prevSnap != nil && w.prevSnap.ResourceVersion != cur.ResourceVersion {
		w.snap = w.prevSnap // what the controller will start from, and what its requests are judged against
	} else {
		w.staleRead = false
	}
	w.pass++
	w.described, w.conflictFired, w.stalePass = false, false, false
	before := len(w.cloud.log)
	time.Sleep(1050 * time.Millisecond) // the reconciler refuses to run twice within a second
	_, err := w.rec.Reconcile(context.Background(), reconcile.Request{NamespacedName: k8stypes.NamespacedName{Name: "node-a"}})
	muts := 0
	w.cloud.mu.Lock()
	for _, c := range w.cloud.log[before:] {
		muts++
		w.trace = append(w.trace, fmt.Sprintf("  cloud %s %s n=%d ips=%v", c.name, c.eni, c.n, c.ips))
	}
	w.cloud.mu.Unlock()
	w.trace = append(w.trace, fmt.Sprintf("reconcile err=%v", err != nil))
	w.staleRead = false
	w.prevSnap = cur
	if w.stalePass {
		w.c.Count("loop-stale-pass")
		if err != nil {
			w.c.Count("loop-stale-pass-write-refused")
		}
	}
	if w.stalePass && err != nil {
		w.conflictFired = true // the API server refused the write of a pass that started from an old object
	}
	if w.conflictFired {
		if w.lostPass == nil {
			w.lostPass = map[int]bool{}
		}
		w.lostPass[w.pass] = true
		if muts > 0 {
			w.lostWrite = true
		}
	}
	w.checkRecord()
	return muts, err
}

// checkRecord: C02 on the persisted record
func (w *loopWorld) checkRecord() {
	n := w.node()
	// a pod that reports an address (it was taken from a persisted record) is never bound to another one
	for _, ni := range n.Status.NetworkInterfaces {
		for k, ip := range ni.IPv4 {
			if ip.PodID == "" {
				continue
			}
			name := strings.TrimPrefix(ip.PodID, "ns/")
			if want, ok := w.podAddr[name+"/"+w.pods[name]]; ok && w.pods[name] != "" && want != k {
				w.viol("C02/loop/reported-address-changed", fmt.Sprintf("%s reports %s (it was bound to it in the published record) and is now bound to %s", ip.PodID, want, k))
			}
		}
	}
	seen := map[string]string{}
	for id, ni := range n.Status.NetworkInterfaces {
		for _, m := range []map[string]*networkv1beta1.IP{ni.IPv4, ni.IPv6} {
			for k, ip := range m {
				if ip.PodID == "" {
					continue
				}
				fam := "4"
				if strings.Contains(k, ":") {
					fam = "6"
				}
				key := ip.PodID + "/" + fam
				if o, dup := seen[key]; dup {
					w.viol("C02/loop/two-addresses", fmt.Sprintf("%s is bound to %s and to %s", ip.PodID, o, k))
				}
				seen[key] = k
				if fam == "6" {
					if v4, ok := seen[ip.PodID+"/4eni"]; ok && v4 != id {
						w.viol("C02/loop/two-interfaces", fmt.Sprintf("%s has addresses on %s and %s", ip.PodID, v4, id))
					}
				} else {
					seen[ip.PodID+"/4eni"] = id
				}
			}
		}
	}
}

func (w *loopWorld) forceFullSync() {
	n := w.node()
	n.Status.NextSyncOpenAPITime = metav1.NewTime(time.Unix(1, 0))
	_ = w.cl.Status().Update(context.Background(), n)
	w.trace = append(w.trace, "force-full-sync")
}

func (w *loopWorld) runCase() {
	r := w.r
	names := []string{"a", "b", "c", "d", "e", "f", "g"}
	if w.wide {
		names = append(names, "h", "i", "j", "k", "l", "m", "n", "o", "p", "q", "r", "s", "t", "u", "v", "w")
	}
	steps := 6 + r.Intn(7)
	for i := 0; i < steps; i++ {
		k := r.Intn(3)
		if w.wide {
			k = r.Intn(9) // bursts
		}
		leaving := w.wide && i > steps/2 // the second half of a wide case is mostly departures: one big trim
		if w.wide && i < 3 {
			k = 6 + r.Intn(8) // fill up first
		}
		if w.wide && i == steps-2 {
			// the node is drained: every pod leaves at once and the agent reports all teardowns
			var all []string
			for name := range w.pods {
				all = append(all, name)
			}
			sort.Strings(all)
			for _, name := range all {
				w.delPod(name)
			}
			w.reportTeardown()
			k = 0
		}
		for ; k > 0; k-- {
			name := names[r.Intn(len(names))]
			if _, ok := w.pods[name]; ok {
				if r.Intn(2) == 0 || leaving {
					w.delPod(name)
				}
			} else if !leaving || r.Intn(4) == 0 {
				w.addPod(name)
			}
		}
		if r.Intn(2) == 0 {
			w.reportTeardown()
		}
		if r.Intn(3) == 0 && !w.noFaults {
			w.faults++
			call := []string{"create", "attach", "wait", "assign4", "assign6", "unassign4", "delete", "detach", "describe"}[r.Intn(9)]
			mode := []string{"before", "after"}[r.Intn(2)]
			w.cloud.fail[call] = mode
			w.trace = append(w.trace, "fault "+call+" "+mode)
		}
		if r.Intn(6) == 0 {
			w.forceFullSync()
		}
		if r.Intn(5) == 0 && !w.noFaults {
			// the Node CR changed under the controller (daemon / node controller wrote it): its status write conflicts
			w.conflict = true
			w.conflicts++
			w.trace = append(w.trace, "fault status-conflict")
		}
		// the stale-read choice has its own generator, so that adding it left the operation choices of every case seed as they were
		// (the regression seeds of runIpamLoop were found without it and run without it)
		if w.rs.Intn(3) == 0 && !w.noStale && !w.noFaults && w.prevSnap != nil {
			w.staleRead = true
			w.conflicts++
			w.trace = append(w.trace, "fault stale-read")
		}
		w.reconcile()
		w.conflict = false
		w.checkRollback()
		w.reportPodIPs()
	}
	// healthy from here on: everything settles
	w.cloud.fail = map[string]string{}
	w.reportTeardown()
	last := -1
	for i := 0; i < 14; i++ {
		m, _ := w.reconcile()
		w.reportPodIPs()
		last = m
		if m == 0 && i > 2 {
			break
		}
	}
	if w.faults == 0 && w.conflicts == 0 && last == 0 {
		// no call ever failed: the record must equal the cloud without the help of a full synchronisation
		w.checkAgreementAs("C08/loop/no-fault/", "with no failed call at all, at a quiet point")
	}
	w.forceFullSync()
	// after the full synchronisation: again until two rounds in a row issue no cloud call
	quietRounds, rounds := 0, 0
	var err error
	for rounds = 0; rounds < 12 && quietRounds < 2; rounds++ {
		var m int
		m, err = w.reconcile()
		w.reportPodIPs()
		if m == 0 && err == nil {
			quietRounds++
		} else {
			quietRounds = 0
		}
	}
	_ = last
	if quietRounds < 2 {
		// not a fixed point: allowed only when demand exceeds capacity
		if w.demand() <= w.capacity() {
			key := "C08/loop/no-fixed-point"
			if w.en6 && w.minP == w.maxP {
				key += "/dual-stack-min-eq-max"
			} else if w.en6 {
				key += "/dual-stack"
			} else if w.minP == w.maxP {
				key += "/min-eq-max"
			}
			w.viol(key, fmt.Sprintf("with a healthy cloud and %d pods for capacity %d the reconciler still issues cloud calls after %d more rounds (err=%v)", w.demand(), w.capacity(), rounds, err))
		}
	}
	w.checkAgreement()
	if quietRounds >= 2 {
		// only a fixed point can be judged for satisfaction; without one, no-fixed-point is the finding
		w.checkSatisfied()
	}
}

func (w *loopWorld) demand() int   { return len(w.pods) }
func (w *loopWorld) capacity() int { return w.quota * w.cap4 }

// checkRollback: an interface created in this round that did not become usable is deleted again or recorded as Deleting
func (w *loopWorld) checkRollback() {
	n := w.node()
	w.cloud.mu.Lock()
	defer w.cloud.mu.Unlock()
	for _, id := range w.created {
		e := w.cloud.enis[id]
		if e == nil {
			continue // deleted again
		}
		if _, ok := n.Status.NetworkInterfaces[id]; !ok && !w.conflictFired {
			w.viol("C08/loop/created-eni-leaked", fmt.Sprintf("%s was created (attached=%v) and is neither deleted nor recorded", id, e.attached))
		}
	}
	w.created = nil
}

// checkAgreement: after a full synchronisation record and cloud agree
func (w *loopWorld) checkAgreement() {
	w.checkAgreementAs("C08/loop/", "after a full synchronisation")
}

func (w *loopWorld) checkAgreementAs(prefix, when string) {
	n := w.node()
	w.cloud.mu.Lock()
	defer w.cloud.mu.Unlock()
	for id, e := range w.cloud.enis {
		ni := n.Status.NetworkInterfaces[id]
		if ni == nil {
			key, why := prefix+"cloud-eni-not-recorded", ""
			if p, ok := w.delFailedPass[id]; ok && w.lostPass[p] && !e.attached {
				key += "/failed-delete-and-lost-status-write"
				why = fmt.Sprintf("; its roll-back deletion failed in pass %d, it was recorded for deletion, and that pass's status write was answered with a conflict", p)
			}
			w.viol(key, fmt.Sprintf(when+": %s (attached=%v) exists in the cloud and is not in the record%s", id, e.attached, why))
			continue
		}
		for ip := range e.ips {
			if ni.IPv4[ip] == nil && ni.IPv6[ip] == nil {
				w.viol(prefix+"cloud-ip-not-recorded", fmt.Sprintf(when+": %s has %s in the cloud and the record does not", id, ip))
			}
		}
	}
	for id, ni := range n.Status.NetworkInterfaces {
		e := w.cloud.enis[id]
		if e == nil {
			w.viol(prefix+"recorded-eni-not-in-cloud", fmt.Sprintf(when+": the record has %s which the cloud does not", id))
			continue
		}
		for ip := range ni.IPv4 {
			if !e.ips[ip] {
				w.viol(prefix+"recorded-ip-not-in-cloud", fmt.Sprintf(when+": the record has %s on %s which the cloud does not", ip, id))
			}
		}
	}
}

// checkSatisfied: within capacity every pod has its addresses, and the idle reserve is inside the band
func (w *loopWorld) checkSatisfied() {
	if w.demand() > w.capacity() {
		return
	}
	n := w.node()
	bound := map[string]int{}
	idle := 0
	for _, ni := range n.Status.NetworkInterfaces {
		for _, ip := range ni.IPv4 {
			if ip.PodID != "" {
				bound[ip.PodID]++
			} else if ip.Status == networkv1beta1.IPStatusValid && ni.Status == "InUse" {
				idle++
			}
		}
	}
	for name := range w.pods {
		if bound["ns/"+name] == 0 {
			var sum []string
			for id, ni := range n.Status.NetworkInterfaces {
				cnt := func(m map[string]*networkv1beta1.IP) string {
					b, i, o := 0, 0, 0
					for _, ip := range m {
						switch {
						case ip.PodID != "":
							b++
						case ip.Status == networkv1beta1.IPStatusValid:
							i++
						default:
							o++
						}
					}
					return fmt.Sprintf("%d bound/%d idle/%d other", b, i, o)
				}
				sum = append(sum, fmt.Sprintf("%s[%s] v4: %s, v6: %s", id, ni.Status, cnt(ni.IPv4), cnt(ni.IPv6)))
			}
			sort.Strings(sum)
			key := "C08/loop/pod-without-address"
			if w.en6 {
				// dual stack: a pod needs both addresses on one interface; idle addresses of the two families that
				// sit on different interfaces satisfy the planner's per-family count but no pod
				both, any4, any6 := false, false, false
				for _, ni := range n.Status.NetworkInterfaces {
					i4, i6 := false, false
					for _, ip := range ni.IPv4 {
						if ip.PodID == "" && ip.Status == networkv1beta1.IPStatusValid {
							i4 = true
						}
					}
					for _, ip := range ni.IPv6 {
						if ip.PodID == "" && ip.Status == networkv1beta1.IPStatusValid {
							i6 = true
						}
					}
					both = both || (i4 && i6)
					any4, any6 = any4 || i4, any6 || i6
				}
				if !both && (any4 || any6) {
					key += "/dual-stack-split-idle"
				}
			}
			w.viol(key, fmt.Sprintf("fixed point reached with %d pods for capacity %d, but %s has no address; record: %s", w.demand(), w.capacity(), name, strings.Join(sum, "; ")))
		}
	}
	if idle > w.maxP && idle > 1 {
		// a primary address cannot be unassigned: one idle address per interface may stay
		enis := len(n.Status.NetworkInterfaces)
		if idle > w.maxP+enis {
			w.viol("C08/loop/idle-above-band", fmt.Sprintf("fixed point with %d idle addresses, max %d (+%d primary)", idle, w.maxP, enis))
		}
	}
	w.c.Count("loop-fixed-point")
}

func runIpamLoops(c *Ctx, focus string) {
	n := c.Scale(64, 320)
	// past failures first: lost synchronisation after two conflicts in a row (fixed 6131003); failed roll-back delete whose
	// record is lost with a conflicting status write (known finding)
	// … and an address the cloud has (assign timed out after taking effect) on an interface whose record has no address of that
	// family left: the full synchronisation must learn it (fixed 7563783)
	seeds := []uint64{13257447658396619023, 187150356967577528, 2798650243160690182}
	for i := 0; i < n; i++ {
		seeds = append(seeds, c.R.U64())
	}
	runIpamLoopSeeds(c, focus, seeds)
}

// the case seeds kept for what they once showed; their histories are fixed: no stale reads are mixed into them
var loopRegressionSeeds = map[uint64]bool{13257447658396619023: true, 187150356967577528: true, 2798650243160690182: true}

// runIpamLoopSeeds runs the closed-loop cases of the given seeds; a violation's trace starts with the line
// `ip.loop <seed>`, which replays exactly that case (the loop is deterministic given its seed).
func runIpamLoopSeeds(c *Ctx, focus string, seeds []uint64) {
	dwQuiet()
	var mu sync.Mutex
	sem := make(chan struct{}, 64) // a case mostly sleeps (the reconciler refuses to run twice within a second)
	var wg sync.WaitGroup
	for _, seed := range seeds {
		wg.Add(1)
		sem <- struct{}{}
		go func(seed uint64) {
			defer wg.Done()
			defer func() { <-sem }()
			sub := &Ctx{Tier: c.Tier, Seed: seed, R: NewRng(seed), Dist: map[string]int{}, Extra: map[string]any{}}
			w := newLoopWorld(sub, sub.R, focus)
			w.rs = NewRng(seed ^ 0x5ca1ab1e)
			w.noStale = loopRegressionSeeds[seed]
			func() {
				defer func() {
					if r := recover(); r != nil {
						w.viol(focus+"/loop/panic", fmt.Sprint(r))
					}
				}()
				w.runCase()
			}()
			mu.Lock()
			defer mu.Unlock()
			for k, v := range sub.Dist {
				c.Dist[k] += v
			}
			c.Dist["loop-cases"]++
			if w.conflicts > 0 {
				c.Dist["loop-cases-with-status-conflict"]++
			}
			if w.faults > 0 {
				c.Dist["loop-cases-with-cloud-fault"]++
			}
			for _, v := range w.viols {
				if strings.HasPrefix(v[0], focus+"/") {
					c.Violate(v[0], v[1], append([]string{fmt.Sprintf("ip.loop %d", seed), fmt.Sprintf("# closed loop, case seed %d (cap=%d quota=%d v6=%v min=%d max=%d)", seed, w.cap4, w.quota, w.en6, w.minP, w.maxP)}, prefixAll("# ", w.trace)...)...)
				}
			}
		}(seed)
	}
	wg.Wait()
}

func prefixAll(p string, l []string) []string {
	out := make([]string, len(l))
	for i, s := range l {
		out[i] = p + s
	}
	return out
}
