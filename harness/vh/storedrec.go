package main

import (
	"fmt"
	"strings"

	terwaydaemon "github.com/AliyunContainerService/terway/daemon"
	"github.com/AliyunContainerService/terway/pkg/storage"
	"github.com/AliyunContainerService/terway/types/daemon"
)

// The daemon's start-up filter over stored records (daemon.go filterENINotFound), reached through the same path
// the builder takes: storage List -> getPodResources -> filterENINotFound (hook VerifLoadPodResources).
//
//	sr.filter <attached> <items>   attached = - | id=mac,…   items = - | t:eniid:id+…  (t = i eniIp, o other)

func srExec(c *Ctx, op string) string {
	f := strings.Fields(op)
	if len(f) != 3 || f[0] != "sr.filter" {
		return "bad-op"
	}
	var attached []*daemon.ENI
	if f[1] != "-" {
		for _, e := range strings.Split(f[1], ",") {
			p := strings.SplitN(e, "=", 2)
			if len(p) != 2 {
				return "bad-op"
			}
			attached = append(attached, &daemon.ENI{ID: unhexStr(p[0]), MAC: unhexStr(p[1])})
		}
	}
	rec := daemon.PodResources{PodInfo: &daemon.PodInfo{Namespace: "ns", Name: "p"}}
	if f[2] != "-" {
		for _, it := range strings.Split(f[2], "+") {
			p := strings.Split(it, ":")
			if len(p) != 3 || (p[0] != "i" && p[0] != "o") {
				return "bad-op"
			}
			ty := daemon.ResourceTypeENIIP
			if p[0] == "o" {
				ty = daemon.ResourceTypeENI
			}
			rec.Resources = append(rec.Resources, daemon.ResourceItem{Type: ty, ENIID: unhexStr(p[1]), ID: unhexStr(p[2])})
		}
	}
	out := protect(func() string {
		db := storage.NewMemoryStorage()
		if err := db.Put("ns/p", rec); err != nil {
			return "err"
		}
		res, err := terwaydaemon.VerifLoadPodResources(db, attached)
		if err != nil || len(res) != 1 {
			return "err"
		}
		var ss []string
		for _, it := range res[0].Resources {
			t := "o"
			if it.Type == daemon.ResourceTypeENIIP {
				t = "i"
			}
			ss = append(ss, fmt.Sprintf("%s:%s:%s", t, hexStr(it.ENIID), hexStr(it.ID)))
		}
		if len(ss) == 0 {
			return "-"
		}
		return strings.Join(ss, "+")
	})
	return out
}

// srRun generates stored records: 0-5 items, eniIp or other, naming their interface by eni_id (attached / gone) or,
// old format, by the MAC in front of the id (attached / gone / no dot / empty id).  prop = the property the run
// belongs to (monitor keys).
func srRun(c *Ctx, prop string, n int) {
	r := c.R
	for i := 0; i < n; i++ {
		na := r.Intn(3)
		var att []string
		for k := 0; k < na; k++ {
			att = append(att, fmt.Sprintf("%s=%s", hexStr(fmt.Sprintf("eni-%d", k)), hexStr(fmt.Sprintf("00:16:3e:00:00:0%d", k))))
		}
		a := "-"
		if len(att) > 0 {
			a = strings.Join(att, ",")
		}
		ni := r.Intn(6)
		var items []string
		stale, legacy := 0, 0
		for k := 0; k < ni; k++ {
			t := "i"
			if r.Chance(15) {
				t = "o"
			}
			e := r.Intn(4) // 3 = an interface that is gone
			eid, id := fmt.Sprintf("eni-%d", e), fmt.Sprintf("00:16:3e:00:00:0%d.10.0.%d.%d", e, e, 10+k)
			switch x := r.Intn(100); {
			case x < 45: // current format
			case x < 85: // old format: no eni_id, the MAC is in the id
				eid = ""
				legacy++
			case x < 90:
				eid, id = "", fmt.Sprintf("00:16:3e:00:00:0%d", e) // no dot
			case x < 95:
				eid, id = "", ""
			default:
				id = ""
			}
			if t == "i" && e >= na {
				stale++
			}
			items = append(items, fmt.Sprintf("%s:%s:%s", t, hexStr(eid), hexStr(id)))
		}
		is := "-"
		if len(items) > 0 {
			is = strings.Join(items, "+")
		}
		op := fmt.Sprintf("sr.filter %s %s", a, is)
		out := srExec(c, op)
		if out == "panic" {
			c.Violate(prop+"/stored-record/panic", "the start-up filter over the stored records (filterENINotFound) panics on this record: the daemon cannot start", op)
		}
		// property-level, model-independent: an item whose interface is attached must reach the pool
		if out != "panic" && out != "err" {
			kept := map[string]int{}
			if out != "-" {
				for _, s := range strings.Split(out, "+") {
					kept[s]++
				}
			}
			for k, it := range items {
				p := strings.Split(it, ":")
				eid, id := unhexStr(p[1]), unhexStr(p[2])
				attachedTo := false
				for j := 0; j < na; j++ {
					if eid != "" && eid == fmt.Sprintf("eni-%d", j) {
						attachedTo = true
					}
					if eid == "" && strings.SplitN(id, ".", 2)[0] == fmt.Sprintf("00:16:3e:00:00:0%d", j) {
						attachedTo = true
					}
				}
				if (p[0] == "o" || attachedTo) && kept[it] == 0 {
					c.Violate(prop+"/stored-record/attached-dropped", fmt.Sprintf("item %d (%s) of the stored record names an attached interface but is not handed to the pool after the restart: the pod loses its address", k, it), op)
				}
			}
		}
		c.Count(fmt.Sprintf("stored-record-items-%d", ni))
		if stale > 0 {
			c.Count("stored-record-with-stale-item")
		}
		if legacy > 0 {
			c.Count("stored-record-old-format")
		}
		c.One(op, out, ni >= 2 && stale > 0)
	}
}
