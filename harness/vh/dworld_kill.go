package main

import (
	"bufio"
	"fmt"
	"os"
	"os/exec"
	"sort"
	"strings"
	"syscall"
	"time"

	terwaydaemon "github.com/AliyunContainerService/terway/daemon"
	"github.com/AliyunContainerService/terway/pkg/storage"
	"github.com/AliyunContainerService/terway/types/daemon"
)

// SIGKILL at an arbitrary instant of a write stream: a writer process opens the resource database the
// way the builder does and performs a seed-determined stream of Put/Delete, acknowledging each on
// stdout after it returned; the parent kills it, reads the file with bolt directly and requires the
// content to be the state after the acknowledged prefix, or after one more (the in-flight) operation.

type dwWOp struct {
	put bool
	key string
	val string
}

func dwWriterOps(seed uint64, n int) []dwWOp {
	r := NewRng(seed ^ 0x5eed)
	ops := make([]dwWOp, n)
	for i := range ops {
		ops[i] = dwWOp{put: r.Intn(3) != 0, key: fmt.Sprintf("ns/k%d", r.Intn(6)), val: fmt.Sprintf("v%d", i)}
	}
	return ops
}

func dwWriterRun(c *Ctx) {
	dwQuiet()
	db, err := terwaydaemon.VerifInitResourceDB()
	if err != nil {
		fmt.Println("open-error", err)
		os.Exit(3)
	}
	out := os.Stdout
	for i, op := range dwWriterOps(c.Seed, 100000) {
		if op.put {
			v := op.val
			err = db.Put(op.key, daemon.PodResources{ContainerID: &v, PodInfo: &daemon.PodInfo{Namespace: "ns", Name: strings.TrimPrefix(op.key, "ns/")}})
		} else {
			err = db.Delete(op.key)
		}
		if err != nil {
			fmt.Fprintln(out, "op-error", err)
			os.Exit(3)
		}
		fmt.Fprintf(out, "ack %d\n", i)
	}
	select {}
}

func dwApply(ops []dwWOp) map[string]string {
	m := map[string]string{}
	for _, o := range ops {
		if o.put {
			m[o.key] = o.val
		} else {
			delete(m, o.key)
		}
	}
	return m
}

func dwMapStr(m map[string]string) string {
	var s []string
	for k, v := range m {
		s = append(s, strings.TrimPrefix(k, "ns/")+"="+v)
	}
	sort.Strings(s)
	return joinOrDash(s)
}

func dwKillRuns(c *Ctx, n int) {
	self, _ := os.Executable()
	for i := 0; i < n; i++ {
		_ = os.Remove(dwDBPath)
		seed := c.R.U64()
		cmd := exec.Command(self, "DW-writer", "--seed", fmt.Sprint(seed))
		stdout, _ := cmd.StdoutPipe()
		if err := cmd.Start(); err != nil {
			c.Extra["kill_error"] = err.Error()
			return
		}
		want := 1 + c.R.Intn(60)
		delay := time.Duration(c.R.Intn(3000)) * time.Microsecond
		acked := -1
		sc := bufio.NewScanner(stdout)
		done := make(chan struct{})
		go func() {
			defer close(done)
			for sc.Scan() {
				var k int
				if _, err := fmt.Sscanf(sc.Text(), "ack %d", &k); err == nil {
					acked = k
					if k+1 >= want {
						time.Sleep(delay)
						_ = cmd.Process.Signal(syscall.SIGKILL)
						// keep draining: acknowledgements already written still count
					}
				}
			}
		}()
		select {
		case <-done:
		case <-time.After(30 * time.Second):
			_ = cmd.Process.Kill()
			<-done
		}
		_ = cmd.Wait()
		nAck := acked + 1
		ops := dwWriterOps(seed, nAck+1)
		disk, err := diskRecords()
		if err != nil {
			c.Violate("C05/kill/unreadable", "database unreadable after SIGKILL: "+err.Error())
			continue
		}
		got := map[string]string{}
		for k, pr := range disk {
			if pr.ContainerID != nil {
				got[k] = *pr.ContainerID
			}
		}
		obs := dwMapStr(got)
		res := "lost"
		if obs == dwMapStr(dwApply(ops[:nAck])) || obs == dwMapStr(dwApply(ops)) {
			res = "durable"
		} else {
			c.Violate("C05/kill/acknowledged-write-lost", fmt.Sprintf("after SIGKILL with %d acknowledged writes the file holds %s; expected %s or %s", nAck, obs, dwMapStr(dwApply(ops[:nAck])), dwMapStr(dwApply(ops))))
		}
		// full reload on open: the reopened store lists exactly the file's records
		st, err := terwaydaemon.VerifInitResourceDB()
		if err == nil {
			objs, _ := st.List()
			mem := map[string]string{}
			for _, o := range objs {
				if pr, ok := o.(daemon.PodResources); ok && pr.ContainerID != nil && pr.PodInfo != nil {
					mem["ns/"+pr.PodInfo.Name] = *pr.ContainerID
				}
			}
			if dwMapStr(mem) != obs {
				res = "lost"
				c.Violate("C05/kill/reload-differs", fmt.Sprintf("reopened store lists %s, file holds %s", dwMapStr(mem), obs))
			}
			_ = storage.VerifClose(st)
		} else {
			c.Violate("C05/kill/reopen-failed", err.Error())
		}
		var enc []string
		for _, o := range ops {
			if o.put {
				enc = append(enc, "P:"+strings.TrimPrefix(o.key, "ns/")+":"+o.val)
			} else {
				enc = append(enc, "D:"+strings.TrimPrefix(o.key, "ns/"))
			}
		}
		c.Add(Case{Lines: []Line{{fmt.Sprintf("dm.kill %s %d %s", strings.Join(enc, ","), nAck, obs), res}}, Nontrivial: true})
		c.Count("kill-runs")
	}
	_ = os.Remove(dwDBPath)
}
