package main

import (
	"context"
	"encoding/hex"
	"encoding/json"
	"fmt"
	"net"
	"os"
	"os/exec"
	"path/filepath"
	"sort"
	"strings"

	"github.com/containernetworking/plugins/pkg/ns"
	"github.com/containernetworking/plugins/pkg/testutils"
	"github.com/vishvananda/netlink"

	"github.com/AliyunContainerService/terway/plugin/datapath"
	dtypes "github.com/AliyunContainerService/terway/plugin/driver/types"
	dutils "github.com/AliyunContainerService/terway/plugin/driver/utils"
	terwayTypes "github.com/AliyunContainerService/terway/types"
)

// C13-child: runs the REAL PolicyRoute.Setup / Teardown against this kernel inside private network and
// mount namespaces (veth pairs stand in for ENIs), and records what the kernel then does
// (`ip rule` dump, `ip route get`) as protocol lines for the Lean FIB model.  Started by runFibChild.
func init() {
	register(&Prop{ID: "C13-child", Run: c13ChildRun})
}

func runFibChild(c *Ctx) {
	self, err := os.Executable()
	if err != nil {
		c.Extra["fib_child_error"] = err.Error()
		return
	}
	dir, err := os.MkdirTemp(filepath.Dir(self), "fib")
	if err != nil {
		c.Extra["fib_child_error"] = err.Error()
		return
	}
	defer os.RemoveAll(dir)
	out := filepath.Join(dir, "child.json")
	cmd := exec.Command("unshare", "-n", "-m", "sh", "-c",
		`mount -t tmpfs tmpfs /run && mkdir -p /run/netns && exec "$0" C13-child --tier "$1" --seed "$2" --out "$3"`,
		self, c.Tier, fmt.Sprint(c.Seed), out)
	if b, err := cmd.CombinedOutput(); err != nil {
		c.Extra["fib_child_error"] = fmt.Sprintf("%v: %s", err, tail(string(b), 600))
		return
	}
	b, err := os.ReadFile(out)
	if err != nil {
		c.Extra["fib_child_error"] = err.Error()
		return
	}
	var res Result
	if err := json.Unmarshal(b, &res); err != nil {
		c.Extra["fib_child_error"] = err.Error()
		return
	}
	for k, v := range res.Extra {
		c.Extra[k] = v
	}
	c.Extra["kernel_scenarios"] = res.Evaluations
	c.Cases = append(c.Cases, res.AllCases...)
	for _, v := range res.Violations {
		c.Violate(v.Key, v.What, v.Lines...)
	}
	for k, v := range res.Distribution {
		c.Dist[k] += v
	}
}

func tail(s string, n int) string {
	if len(s) > n {
		return s[len(s)-n:]
	}
	return s
}

type fibPod struct {
	id      string
	a4      net.IP
	a6      net.IP
	eni     netlink.Link
	gw4     net.IP
	gw6     net.IP
	vethIdx int
	veth    string
	cns     ns.NetNS
	cfgTok  string
}

func ipHex(ip net.IP) string {
	if ip == nil {
		return "-"
	}
	if v4 := ip.To4(); v4 != nil {
		return hex.EncodeToString(v4)
	}
	return hex.EncodeToString(ip.To16())
}

func ruleDump() (string, error) {
	var out []string
	for _, fam := range []int{netlink.FAMILY_V4, netlink.FAMILY_V6} {
		rules, err := netlink.RuleList(fam)
		if err != nil {
			return "", err
		}
		for _, r := range rules {
			if r.Priority <= 0 || r.Priority == 32766 || r.Priority == 32767 {
				continue
			}
			out = append(out, fmt.Sprintf("p%d,s%s,d%s,t%d", r.Priority, netTok(r.Src), netTok(r.Dst), r.Table))
		}
	}
	sort.Strings(out)
	if len(out) == 0 {
		return "-", nil
	}
	return strings.Join(out, " "), nil
}

func routeGet(src, dst net.IP, iif string) string {
	rs, err := netlink.RouteGetWithOptions(dst, &netlink.RouteGetOptions{SrcAddr: src, Iif: iif})
	if err != nil || len(rs) == 0 {
		return "none"
	}
	r := rs[0]
	if r.Type != 1 /* RTN_UNICAST */ {
		return "none"
	}
	return fmt.Sprintf("dev%d,g%s", r.LinkIndex, ipHex(r.Gw))
}

func sysctlW(path, v string) { _ = os.WriteFile(path, []byte(v), 0o644) }

func c13ChildRun(c *Ctx) {
	r := c.R
	ctx := context.Background()
	sysctlW("/proc/sys/net/ipv4/ip_forward", "1")
	sysctlW("/proc/sys/net/ipv4/conf/all/rp_filter", "0")
	sysctlW("/proc/sys/net/ipv4/conf/default/rp_filter", "0")
	sysctlW("/proc/sys/net/ipv6/conf/all/forwarding", "1")
	sysctlW("/proc/sys/net/ipv6/conf/all/disable_ipv6", "0")
	sysctlW("/proc/sys/net/ipv6/conf/default/disable_ipv6", "0")
	if lo, err := netlink.LinkByName("lo"); err == nil {
		_ = netlink.LinkSetUp(lo)
	}
	pr := datapath.NewPolicyRoute()
	c13TeardownOthers(c)
	c13RuleSyncRun(c)
	nScen := c.Scale(6, 40)
	for sc := 0; sc < nScen; sc++ {
		var lines []Line
		add := func(op, impl string) { lines = append(lines, Line{op, impl}) }
		trace := func() []string {
			var t []string
			for _, l := range lines {
				t = append(t, l.Op+" => "+l.Impl)
			}
			return t
		}
		add("fib.reset", "ok")
		// two "ENIs": veth pairs whose far end stays in this namespace
		var enis []netlink.Link
		ok := true
		for e := 0; e < 2; e++ {
			name := fmt.Sprintf("eni%d_%d", sc, e)
			if err := netlink.LinkAdd(&netlink.Veth{LinkAttrs: netlink.LinkAttrs{Name: name, MTU: 1500}, PeerName: name + "p"}); err != nil {
				c.Extra["fib_env_error"] = err.Error()
				ok = false
				break
			}
			l, _ := netlink.LinkByName(name)
			_ = netlink.LinkSetUp(l)
			if p, err := netlink.LinkByName(name + "p"); err == nil {
				_ = netlink.LinkSetUp(p)
			}
			sysctlW("/proc/sys/net/ipv4/conf/"+name+"/rp_filter", "0")
			enis = append(enis, l)
		}
		if !ok {
			break
		}
		dual := r.Chance(40)
		legacy := false // a device-bound rule of an older release is present (set below)
		var pods []*fibPod
		external4 := net.ParseIP("8.8.8.8").To4()
		external6 := net.ParseIP("2001:db8::8")
		check := func(p *fibPod, alive []*fibPod) {
			// independent monitors straight on the kernel
			if got := routeGet(external4, p.a4, enis[0].Attrs().Name); got != fmt.Sprintf("dev%d,g-", p.vethIdx) {
				c.Violate("C13/kernel/to-pod", fmt.Sprintf("traffic to pod %s (%s) is routed to %s, its host veth is dev%d", p.id, p.a4, got, p.vethIdx), trace()...)
			}
			if got := routeGet(p.a4, external4, p.veth); got != fmt.Sprintf("dev%d,g%s", p.eni.Attrs().Index, ipHex(p.gw4)) {
				c.Violate("C13/kernel/from-pod", fmt.Sprintf("traffic from pod %s (%s) is routed to %s, its ENI is dev%d via %s", p.id, p.a4, got, p.eni.Attrs().Index, p.gw4), trace()...)
			}
			if p.a6 != nil {
				if got := routeGet(p.a6, external6, p.veth); got != fmt.Sprintf("dev%d,g%s", p.eni.Attrs().Index, ipHex(p.gw6)) {
					c.Violate("C13/kernel/from-pod-v6", fmt.Sprintf("IPv6 traffic from pod %s is routed to %s, its ENI is dev%d", p.id, got, p.eni.Attrs().Index), trace()...)
				}
			}
		}
		setup := func(id string, a4 net.IP, eniIdx int) *fibPod {
			p := &fibPod{id: id, a4: a4, eni: enis[eniIdx], gw4: net.IPv4(10, byte(eniIdx), 0, 253).To4(), veth: fmt.Sprintf("cali%d%s", sc, id)}
			cn, err := testutils.NewNS()
			if err != nil {
				c.Extra["fib_env_error"] = err.Error()
				return nil
			}
			p.cns = cn
			cfg := &dtypes.SetupConfig{
				DP: dtypes.PolicyRoute, HostVETHName: p.veth, ContainerIfName: "eth0", MTU: 1500, ENIIndex: p.eni.Attrs().Index,
				ContainerIPNet: &terwayTypes.IPNetSet{IPv4: &net.IPNet{IP: a4, Mask: net.CIDRMask(24, 32)}},
				GatewayIP:      &terwayTypes.IPSet{IPv4: p.gw4}, ENIGatewayIP: &terwayTypes.IPSet{}, DefaultRoute: true,
			}
			tok4, tok6, gtok6 := fmt.Sprintf("%s/24", ipHex(a4)), "-", "-"
			if dual {
				p.a6 = net.ParseIP(fmt.Sprintf("fd00:%d::%d", eniIdx, 16+len(pods)+sc*8))
				p.gw6 = net.ParseIP(fmt.Sprintf("fd00:%d::fffd", eniIdx))
				cfg.ContainerIPNet.IPv6 = &net.IPNet{IP: p.a6, Mask: net.CIDRMask(64, 128)}
				cfg.GatewayIP.IPv6 = p.gw6
				tok6, gtok6 = ipHex(p.a6)+"/64", ipHex(p.gw6)
			}
			if err := pr.Setup(ctx, cfg, cn); err != nil {
				add(fmt.Sprintf("# setup %s failed: %v", id, err), "#")
				c.Violate("C13/kernel/setup-error", fmt.Sprintf("PolicyRoute.Setup failed: %v", err), trace()...)
				return nil
			}
			hv, err := netlink.LinkByName(p.veth)
			if err != nil {
				return nil
			}
			p.vethIdx = hv.Attrs().Index
			sysctlW("/proc/sys/net/ipv4/conf/"+p.veth+"/rp_filter", "0")
			p.cfgTok = strings.Join([]string{tok4, tok6, ipHex(p.gw4), gtok6, "-", "-", "-", "-", "0", "1", "0", "-", hexStr("eth0")}, ";")
			add(fmt.Sprintf("fib.setup %s %s %d %d", id, p.cfgTok, p.vethIdx, p.eni.Attrs().Index), "ok")
			c.Count("kernel-setup")
			return p
		}
		dump := func() {
			d, err := ruleDump()
			if err != nil {
				d = "error"
			}
			add("fib.rules", d)
		}
		query := func(p *fibPod) {
			add(fmt.Sprintf("fib.get 4 %s %s %d", ipHex(external4), ipHex(p.a4), enis[0].Attrs().Index), routeGet(external4, p.a4, enis[0].Attrs().Name))
			add(fmt.Sprintf("fib.get 4 %s %s %d", ipHex(p.a4), ipHex(external4), p.vethIdx), routeGet(p.a4, external4, p.veth))
			if p.a6 != nil {
				add(fmt.Sprintf("fib.get 6 %s %s %d", ipHex(p.a6), ipHex(external6), p.vethIdx), routeGet(p.a6, external6, p.veth))
			}
			c.Count("kernel-query")
		}
		teardown := func(p *fibPod, eniKnown bool) {
			tc := &dtypes.TeardownCfg{HostVETHName: p.veth, ContainerIPNet: &terwayTypes.IPNetSet{IPv4: &net.IPNet{IP: p.a4, Mask: net.CIDRMask(24, 32)}}, ENIIndex: p.eni.Attrs().Index}
			if p.a6 != nil {
				tc.ContainerIPNet.IPv6 = &net.IPNet{IP: p.a6, Mask: net.CIDRMask(64, 128)}
			}
			if !eniKnown {
				tc.ENIIndex = 0 // the plugin passes 0 when the ENI is already detached (link.ErrNotFound tolerated)
			}
			err := pr.Teardown(ctx, tc, p.cns)
			res := "ok"
			if err != nil {
				res = "err"
			}
			add("fib.teardown "+p.id, res)
			if legacy {
				// the rest of the plugin's DEL: links of the pod's namespace, then the rules of vanished devices
				res = "ok"
				if err := dutils.GenericTearDown(ctx, p.cns); err != nil {
					res = "err"
				}
				add("fib.clean", res)
				c.Count("kernel-clean-ip-rules")
			}
			_ = p.cns.Close()
			_ = testutils.UnmountNS(p.cns)
			c.Count("kernel-teardown")
			// monitor: nothing of this pod is left
			if d, err := ruleDump(); err == nil && (strings.Contains(d, ipHex(p.a4)+"/32") || (p.a6 != nil && strings.Contains(d, ipHex(p.a6)+"/128"))) {
				c.Violate("C13/kernel/teardown-leak", fmt.Sprintf("rules for pod %s (%s) remain after teardown: %s", p.id, p.a4, d), trace()...)
			}
			if _, err := netlink.LinkByName(p.veth); err == nil {
				c.Violate("C13/kernel/teardown-veth", "host veth remains after teardown", trace()...)
			}
		}
		// stale state: a rule for an address that is about to be re-assigned on the other ENI (lost DEL)
		staleAddr := net.IPv4(10, 0, byte(sc), 77).To4()
		if r.Chance(60) {
			stale := netlink.NewRule()
			stale.Priority = 2048
			stale.Src = &net.IPNet{IP: staleAddr, Mask: net.CIDRMask(32, 32)}
			stale.Table = 1000 + enis[0].Attrs().Index
			if err := netlink.RuleAdd(stale); err == nil {
				add(fmt.Sprintf("fib.stale 2048 4:%s/32 - %d", ipHex(staleAddr), stale.Table), "ok")
				c.Count("kernel-stale-rule")
			}
		}
		// state left by an older release on a node upgraded in place: a pod-priority rule bound to a host veth that is long gone,
		// and the address-only rule of the same (dead) pod; the plugin's DEL cleans them up (utils.CleanIPRules, run by
		// GenericTearDown) - and must take nothing of the living pods with them
		if r.Chance(50) {
			la := net.IPv4(10, 0, byte(sc), 200).To4()
			old := netlink.NewRule()
			old.Priority = 512
			old.Dst = &net.IPNet{IP: la, Mask: net.CIDRMask(32, 32)}
			old.Table = 254
			bound := netlink.NewRule()
			bound.Priority = 2048
			bound.Src = &net.IPNet{IP: la, Mask: net.CIDRMask(32, 32)}
			bound.IifName = fmt.Sprintf("gone%d", sc)
			bound.Table = 1000 + enis[0].Attrs().Index
			if err := netlink.RuleAdd(old); err == nil {
				if err := netlink.RuleAdd(bound); err == nil {
					add(fmt.Sprintf("fib.stale 512 - 4:%s/32 254", ipHex(la)), "ok")
					add(fmt.Sprintf("fib.legacy 2048 4:%s/32 - %d", ipHex(la), bound.Table), "ok")
					legacy = true
					c.Count("kernel-legacy-device-rule")
				} else {
					_ = netlink.RuleDel(old)
				}
			}
		}
		np := 2 + r.Intn(3)
		for k := 0; k < np; k++ {
			a := net.IPv4(10, 0, byte(sc), byte(10+k)).To4()
			eniIdx := r.Intn(2)
			if k == 0 {
				a, eniIdx = staleAddr, 1 // the re-assigned address lives on the second ENI now
			}
			if p := setup(fmt.Sprintf("p%d", k), a, eniIdx); p != nil {
				pods = append(pods, p)
			}
		}
		dump()
		for _, p := range pods {
			query(p)
			check(p, pods)
		}
		// tear some down (one of them with the ENI already gone from the plugin's point of view), re-check the rest
		for len(pods) > 1 {
			i := r.Intn(len(pods))
			teardown(pods[i], r.Chance(60))
			pods = append(pods[:i], pods[i+1:]...)
			dump()
			for _, p := range pods {
				query(p)
				check(p, pods)
			}
			if r.Chance(40) {
				break
			}
		}
		for _, p := range pods {
			teardown(p, true)
		}
		dump()
		for _, e := range enis {
			_ = netlink.LinkDel(e)
		}
		// flush whatever is left so that scenarios stay independent
		for _, fam := range []int{netlink.FAMILY_V4, netlink.FAMILY_V6} {
			if rules, err := netlink.RuleList(fam); err == nil {
				for i := range rules {
					if p := rules[i].Priority; p > 0 && p != 32766 && p != 32767 {
						_ = netlink.RuleDel(&rules[i])
					}
				}
			}
		}
		c.Add(Case{Lines: lines, Nontrivial: true, Note: "kernel"})
	}
}

// c13TeardownOthers: the host-namespace part of the ipvlan datapath's Teardown against this kernel.  The sandbox kernel has no
// ipvlan driver, so Setup cannot run; what Setup leaves in the host namespace for a pod - the <address>/32 and <address>/128
// routes on the slave link - is put there by hand (on a veth standing in for the slave link), then the REAL
// IPvlanDriver.Teardown runs and every route to the pod's addresses must be gone.
func c13TeardownOthers(c *Ctx) {
	r := c.R
	ctx := context.Background()
	veth := &netlink.Veth{LinkAttrs: netlink.LinkAttrs{Name: "ipvl_s"}, PeerName: "ipvl_p"}
	if err := netlink.LinkAdd(veth); err != nil {
		c.Extra["ipvlan_teardown_env_error"] = err.Error()
		return
	}
	defer func() { _ = netlink.LinkDel(veth) }()
	l, err := netlink.LinkByName("ipvl_s")
	if err != nil {
		return
	}
	_ = netlink.LinkSetUp(l)
	if p, err := netlink.LinkByName("ipvl_p"); err == nil {
		_ = netlink.LinkSetUp(p)
	}
	drv := datapath.NewIPVlanDriver()
	for i := 0; i < c.Scale(6, 30); i++ {
		fam := Pick(r, []string{"4", "6", "46", "46"})
		set := &terwayTypes.IPNetSet{}
		var want []*net.IPNet
		if strings.Contains(fam, "4") {
			ip := net.IPv4(10, 77, byte(i), byte(10+r.Intn(200))).To4()
			set.IPv4 = &net.IPNet{IP: ip, Mask: net.CIDRMask(24, 32)}
			want = append(want, &net.IPNet{IP: ip, Mask: net.CIDRMask(32, 32)})
		}
		if strings.Contains(fam, "6") {
			ip := net.ParseIP(fmt.Sprintf("fd77::%x:%x", i, 10+r.Intn(200)))
			set.IPv6 = &net.IPNet{IP: ip, Mask: net.CIDRMask(64, 128)}
			want = append(want, &net.IPNet{IP: ip, Mask: net.CIDRMask(128, 128)})
		}
		okEnv := true
		for _, d := range want {
			if err := netlink.RouteReplace(&netlink.Route{LinkIndex: l.Attrs().Index, Scope: netlink.SCOPE_LINK, Dst: d}); err != nil {
				okEnv = false
			}
		}
		if !okEnv {
			c.Count("ipvlan-teardown-env-skip")
			continue
		}
		op := fmt.Sprintf("# ipvlan-teardown fam=%s", fam)
		err := drv.Teardown(ctx, &dtypes.TeardownCfg{HostVETHName: "none-such", ContainerIPNet: set}, nil)
		left := ""
		for _, d := range want {
			rs, _ := netlink.RouteListFiltered(netlink.FAMILY_ALL, &netlink.Route{Dst: d}, netlink.RT_FILTER_DST)
			if len(rs) > 0 {
				left += " " + d.String()
			}
		}
		if err != nil || left != "" {
			c.Violate("C13/teardown/ipvlan-host-route-left", fmt.Sprintf("ipvlan Teardown (err=%v) of a pod with address families %s leaves the host-namespace route(s)%s on the slave link: traffic to a later owner of the address is misdelivered", err, fam, left), op)
		}
		for _, d := range want {
			_ = netlink.RouteDel(&netlink.Route{LinkIndex: l.Attrs().Index, Scope: netlink.SCOPE_LINK, Dst: d})
		}
		c.Add(Case{Lines: []Line{{op, "#"}}, Nontrivial: fam == "46", Note: "kernel"})
		c.Count("ipvlan-teardown")
	}
}
