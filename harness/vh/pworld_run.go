package main

import (
	"context"
	"fmt"
	"os"
	"sort"
	"strconv"
	"strings"
	"sync"
	"sync/atomic"
	"time"

	"golang.org/x/time/rate"

	"github.com/AliyunContainerService/terway/pkg/eni"
	"github.com/AliyunContainerService/terway/types/daemon"
)

// coded cloud errors (what apiErr.ErrorCodeIs recognises)
type pCodedErr struct{ code string }

func (e pCodedErr) Error() string      { return "cloud error " + e.code }
func (e pCodedErr) HttpStatus() int    { return 403 }
func (e pCodedErr) ErrorCode() string  { return e.code }
func (e pCodedErr) Message() string    { return e.code }
func (e pCodedErr) OriginError() error { return nil }

// ---------- set-up ----------

func newPWorld(c *Ctx, r *Rng) *pWorld {
	w := &pWorld{c: c, r: r, kickCh: make(chan struct{}, 1), roles: map[int64]pRole{}, gidSlot: map[int64]int{}, allocRid: map[int64]int{},
		reqPtr: map[uintptr]int{}, ridDead: map[int]bool{}, reqs: map[int]*pReqInfo{}, held: map[string]map[string][]int{}, heldBy: map[string]string{},
		everUsed: map[int]bool{}, goneWhy: map[string]string{}, goneSeen: map[string]bool{}, loadSaw: map[int64][]string{}, seenSeq: map[string]int{}, bindSeq: map[string]int{}, lastOwner: map[string]string{}, lastStatus: map[int]string{}, stop: make(chan struct{})}
	w.cfgCap = 2 + r.Intn(3)
	w.batch = 1 + r.Intn(3)
	switch r.Intn(4) {
	case 0:
		w.en4, w.en6 = true, true
	case 1:
		w.en4, w.en6 = true, true
	default:
		w.en4, w.en6 = true, false
	}
	w.nslots = 1 + r.Intn(3)
	w.total = w.cfgCap * w.nslots
	w.maxIdles = r.Intn(4)
	w.minIdles = r.Intn(w.maxIdles + 1)
	w.cloud = &pCloud{w: w, enis: map[string]*pENI{}, maxENI: w.nslots}
	return w
}

func (w *pWorld) start(ctx context.Context) error {
	eni.VerifSetRateLimit(rate.Inf)
	pc := &daemon.PoolConfig{EnableIPv4: w.en4, EnableIPv6: w.en6, MaxIPPerENI: w.cfgCap, BatchSize: w.batch,
		Capacity: w.total, MaxENI: w.nslots, MaxPoolSize: w.maxIdles, MinPoolSize: w.minIdles}
	var nis []eni.NetworkInterface
	for i := 0; i < w.nslots; i++ {
		l := eni.NewLocal(nil, "secondary", w.cloud, pc)
		lk := &schedLock{w: w, slot: i, local: l}
		l.VerifSetLocker(lk)
		w.locks = append(w.locks, lk)
		w.locals = append(w.locals, l)
		nis = append(nis, l)
	}
	w.mgr = eni.NewManager(w.minIdles, w.maxIdles, w.total, 0, nis, daemon.EniSelectionPolicyMostIPs, nil)
	go w.scheduler()
	return w.mgr.Run(ctx, &sync.WaitGroup{}, nil)
}

// scheduler grants every free lock to one of its waiters, a random one, after a short random pause that
// lets contenders queue up.
func (w *pWorld) scheduler() {
	rr := NewRng(w.r.U64())
	t := time.NewTicker(40 * time.Microsecond)
	defer t.Stop()
	for {
		select {
		case <-w.stop:
			// let everything run out, then go
			for k := 0; k < 300; k++ {
				for _, l := range w.locks {
					l.grant(func(n int) int { return 0 })
				}
				time.Sleep(time.Millisecond)
			}
			return
		case <-w.kickCh:
		case <-t.C:
		}
		for _, l := range w.locks {
			if rr.Intn(3) == 0 {
				continue // let more contenders arrive
			}
			l.grant(func(n int) int { return rr.Intn(n) })
		}
	}
}

// ---------- harness-side operations ----------

func (w *pWorld) podBusy(pod string) bool {
	for _, q := range w.reqs {
		if q.pod == pod && !q.finished {
			return true
		}
		// a reply goroutine the request may have left behind reaches the lock within microseconds of the request's return;
		// until then it is in no waiter list yet
		if d := atomic.LoadInt64(&q.doneAt); q.pod == pod && d != 0 && time.Now().UnixNano()-d < int64(5*time.Millisecond) {
			return true
		}
	}
	// a request that was served from the cache and then cancelled leaves a reply goroutine behind that still wants the
	// pool lock; the model (and the theorems) assume requests of one pod do not overlap in the pool, so the pod stays
	// busy until that goroutine has run.  (The daemon does not guarantee this after a cancellation: known finding
	// C01/exclusive/stale-reply-after-retry, findings/C01/zz_demo3_test.go.)
	for _, l := range w.locks {
		l.mu.Lock()
		gs := []gInfo{}
		if l.held {
			gs = append(gs, l.cur)
		}
		for _, wt := range l.waiters {
			gs = append(gs, wt.g)
		}
		l.mu.Unlock()
		for _, g := range gs {
			if strings.HasPrefix(g.label, "Allocate.func") {
				w.roleMu.Lock()
				rid := w.allocRid[g.parent]
				w.roleMu.Unlock()
				if q := w.reqs[rid]; q != nil && q.pod == pod {
					return true
				}
			}
		}
	}
	return false
}

func (w *pWorld) opAlloc(ctx context.Context, pod string, nocache bool, pin string) *pReqInfo {
	// a repeat request is pinned to the interface of the address the pod holds (what AllocIP's setRequest does)
	for e := range w.held[pod] {
		pin = e
	}
	req := eni.NewLocalIPRequest()
	req.NoCache = nocache
	req.NetworkInterfaceID = pin
	w.roleMu.Lock()
	w.nextRid++
	rid := w.nextRid
	w.reqPtr[eni.VerifRequestPtr(req)] = rid
	w.roleMu.Unlock()
	heldBefore := map[string]bool{}
	for e, ips := range w.held[pod] {
		for _, id := range ips {
			heldBefore[fmt.Sprintf("%s:%d", e, id)] = true
		}
	}
	cctx, cancel := context.WithCancel(ctx)
	q := &pReqInfo{rid: rid, pod: pod, nocache: nocache, cancel: cancel, done: make(chan struct{}), keep: req}
	w.reqs[rid] = q
	podID := ""
	if pod != "" {
		podID = "ns/" + pod
	}
	go func() {
		defer close(q.done)
		w.setRole(pRole{kind: "alloc", rid: rid, pod: pod, nocache: nocache, pin: pin})
		w.roleMu.Lock()
		w.allocRid[whoAmI().gid] = rid
		w.roleMu.Unlock()
		res, err := w.mgr.Allocate(cctx, &daemon.CNI{PodID: podID, PodName: pod, PodNamespace: "ns"}, &eni.AllocRequest{ResourceRequests: []eni.ResourceRequest{req}})
		q.res, q.err = res, err
		atomic.StoreInt64(&q.doneAt, time.Now().UnixNano())
		if err != nil && len(res) > 0 {
			// what AllocIP does with a failed Allocate: roll back what it returned, except what the pod's
			// record already names (notRecorded)
			var fresh []eni.NetworkResource
			for _, nr := range res {
				if lr, ok := nr.(*eni.LocalIPResource); ok {
					if (lr.IP.IPv4.IsValid() && heldBefore[fmt.Sprintf("%s:%d", lr.ENI.ID, dwAddrID(lr.IP.IPv4.String()))]) ||
						(lr.IP.IPv6.IsValid() && heldBefore[fmt.Sprintf("%s:%d", lr.ENI.ID, dwAddrID(lr.IP.IPv6.String()))]) {
						continue
					}
				}
				fresh = append(fresh, nr)
			}
			res = fresh
			rm := map[string][]int{}
			for _, nr := range res {
				if lr, ok := nr.(*eni.LocalIPResource); ok {
					if lr.IP.IPv4.IsValid() {
						rm[lr.ENI.ID] = append(rm[lr.ENI.ID], dwAddrID(lr.IP.IPv4.String()))
					}
					if lr.IP.IPv6.IsValid() {
						rm[lr.ENI.ID] = append(rm[lr.ENI.ID], dwAddrID(lr.IP.IPv6.String()))
					}
				}
			}
			if len(res) > 0 {
				w.setRole(pRole{kind: "release", pod: pod, res: rm})
				_ = w.mgr.Release(context.Background(), &daemon.CNI{PodID: podID}, &eni.ReleaseRequest{NetworkResources: res})
			}
		}
	}()
	return q
}

// collect finished requests: replies become the harness's ledger of who holds what
func (w *pWorld) collect() {
	var rids []int
	for rid := range w.reqs {
		rids = append(rids, rid)
	}
	sort.Ints(rids)
	for _, rid := range rids {
		q := w.reqs[rid]
		if q.finished {
			continue
		}
		select {
		case <-q.done:
		default:
			continue
		}
		q.finished = true
		if q.err != nil || q.nocache {
			w.c.Count("alloc-" + map[bool]string{true: "preheat", false: "err"}[q.nocache && q.err == nil])
			continue
		}
		w.c.Count("alloc-ok")
		for _, nr := range q.res {
			lr, ok := nr.(*eni.LocalIPResource)
			if !ok {
				continue
			}
			var ips []int
			if lr.IP.IPv4.IsValid() {
				ips = append(ips, dwAddrID(lr.IP.IPv4.String()))
			}
			if lr.IP.IPv6.IsValid() {
				ips = append(ips, dwAddrID(lr.IP.IPv6.String()))
			}
			w.monitorReply(q.pod, lr.ENI.ID, ips)
		}
	}
}

func (w *pWorld) opRelease(pod string) {
	m := w.held[pod]
	if len(m) == 0 {
		return
	}
	var res []eni.NetworkResource
	rm := map[string][]int{}
	for eniID, ips := range m {
		rm[eniID] = ips
		lr := &eni.LocalIPResource{ENI: daemon.ENI{ID: eniID}}
		for _, id := range ips {
			if id >= dwV6Base {
				lr.IP.IPv6 = pAddr(id)
			} else {
				lr.IP.IPv4 = pAddr(id)
			}
			delete(w.heldBy, fmt.Sprintf("%s:%d", eniID, id))
		}
		res = append(res, lr)
		w.record(pEvent{kind: "env", text: fmt.Sprintf("pl.relreq %s %s %s", pod, eniID, idsStr(ips))})
	}
	delete(w.held, pod)
	if w.lastRel == nil {
		w.lastRel = map[string]map[string][]int{}
	}
	w.lastRel[pod] = rm
	w.doRelease(pod, rm, res)
	w.c.Count("release")
}

func (w *pWorld) doRelease(pod string, rm map[string][]int, res []eni.NetworkResource) {
	done := make(chan struct{})
	go func() {
		defer close(done)
		w.setRole(pRole{kind: "release", pod: pod, res: rm})
		_ = w.mgr.Release(context.Background(), &daemon.CNI{PodID: "ns/" + pod}, &eni.ReleaseRequest{NetworkResources: res})
	}()
	select {
	case <-done:
	case <-time.After(10 * time.Second):
		w.violate("C01/harness/release-hang", "Release did not return")
	}
}

// opRepeatRelease: the container runtime repeats a DEL it has already been answered (the daemon could not delete its record,
// say): the same request once more, after the addresses may have gone to other pods.  Not issued while the pod itself holds one
// of them again (then it is that pod's own new binding the request names).
func (w *pWorld) opRepeatRelease(pod string) {
	rm := w.lastRel[pod]
	if len(rm) == 0 {
		return
	}
	var res []eni.NetworkResource
	others := false
	for eniID, ips := range rm {
		lr := &eni.LocalIPResource{ENI: daemon.ENI{ID: eniID}}
		for _, id := range ips {
			switch w.heldBy[fmt.Sprintf("%s:%d", eniID, id)] {
			case pod:
				return
			case "":
			default:
				others = true
			}
			if id >= dwV6Base {
				lr.IP.IPv6 = pAddr(id)
			} else {
				lr.IP.IPv4 = pAddr(id)
			}
		}
		res = append(res, lr)
		w.record(pEvent{kind: "env", text: fmt.Sprintf("pl.relreq %s %s %s", pod, eniID, idsStr(ips))})
	}
	w.doRelease(pod, rm, res)
	w.c.Count("release-repeated")
	if others {
		w.c.Count("release-repeated-address-now-with-another-pod")
	}
}

// releaseGate lets one gated cloud call return
func (w *pWorld) releaseGate(faulty bool) bool {
	w.cloud.mu.Lock()
	if len(w.cloud.gates) == 0 {
		w.cloud.mu.Unlock()
		return false
	}
	i := w.r.Intn(len(w.cloud.gates))
	g := w.cloud.gates[i]
	w.cloud.gates = append(w.cloud.gates[:i], w.cloud.gates[i+1:]...)
	w.cloud.mu.Unlock()
	f := pFault{mode: "ok"}
	if faulty {
		code := []string{"err", "err", "enilimit", "ipexhausted"}[w.r.Intn(4)]
		switch g.call {
		case "create":
			f = pFault{mode: []string{"before", "after"}[w.r.Intn(2)], code: code}
		case "assign4", "assign6":
			n := g.n4 + g.n6
			k := w.r.Intn(3)
			if w.focus == "C06" && w.r.Intn(2) == 0 {
				k = 1 + w.r.Intn(2) // the call takes effect and reports an error
			}
			switch k {
			case 0:
				f = pFault{mode: "before", code: code}
			case 1:
				f = pFault{mode: "partial", code: code, k: w.r.Intn(n + 1)}
			case 2:
				f = pFault{mode: "after", code: code}
			}
		default:
			f = pFault{mode: []string{"before", "after"}[w.r.Intn(2)], code: "err"}
		}
		w.c.Count("fault-" + g.call + "-" + f.mode)
	}
	w.c.Count("cloud-" + g.call)
	g.release <- f
	return true
}

func (w *pWorld) quiet() bool {
	w.cloud.mu.Lock()
	ng := len(w.cloud.gates)
	w.cloud.mu.Unlock()
	if ng > 0 {
		return false
	}
	for _, l := range w.locks {
		if l.busy() {
			return false
		}
	}
	return true
}

// settle waits until nothing moves for longer than the factory worker's batching pause.
func (w *pWorld) settle(max time.Duration) bool {
	deadline := time.Now().Add(max)
	lastEv := -1
	stable := time.Now()
	for time.Now().Before(deadline) {
		w.evMu.Lock()
		n := len(w.events)
		w.evMu.Unlock()
		if n != lastEv || !w.quiet() {
			lastEv = n
			stable = time.Now()
		} else if time.Since(stable) > 450*time.Millisecond {
			return true
		}
		time.Sleep(5 * time.Millisecond)
	}
	return false
}

// ---------- one case ----------

func (w *pWorld) runCase(caseSeed uint64, focus string) {
	ctx, cancelAll := context.WithCancel(context.Background())
	if err := w.start(ctx); err != nil {
		w.violate(focus+"/harness/start", err.Error())
		cancelAll()
		return
	}
	r := w.r
	pods := []string{"p1", "p2", "p3", "p4", "p5", "p6"}
	steps := 30 + r.Intn(40)
	faultRate := []int{0, 10, 25, 40}[r.Intn(4)]
	if focus == "C06" || focus == "C07" {
		faultRate = []int{10, 25, 40, 60}[r.Intn(4)]
	}
	w.focus = focus
	// warm-up: some pods ask, the cloud answers, so that most of the case runs on a populated pool
	if r.Intn(4) != 0 {
		for k := 1 + r.Intn(4); k > 0; k-- {
			p := pods[r.Intn(len(pods))]
			if !w.podBusy(p) {
				w.opAlloc(ctx, p, false, "")
			}
		}
		for k := 0; k < 4; k++ {
			time.Sleep(170 * time.Millisecond)
			for w.releaseGate(false) {
			}
			w.collect()
		}
	}
	var balDone chan struct{}
	balCancel := func() {}
	for i := 0; i < steps; i++ {
		w.collect()
		switch x := r.Intn(112); {
		case x >= 100:
			// let the factory worker's batching pause pass and answer what it asks
			time.Sleep(time.Duration(100+r.Intn(260)) * time.Millisecond)
			for r.Intn(4) != 0 && w.releaseGate(r.Intn(100) < faultRate) {
			}
		case x < 26:
			p := pods[r.Intn(len(pods))]
			if !w.podBusy(p) {
				pin := ""
				if r.Intn(10) == 0 {
					pin = fmt.Sprintf("eni-%d", 1+r.Intn(w.nslots))
				}
				q := w.opAlloc(ctx, p, false, pin)
				if r.Intn(7) == 0 {
					// the caller's deadline passes before the pool has looked at the request: the pool side and the manager
					// side of the hand-over both see a cancelled context
					q.cancel()
					w.c.Count("cancel-at-issue")
				}
				// bursts: several pods ask at once
				for r.Intn(3) == 0 {
					q := pods[r.Intn(len(pods))]
					if !w.podBusy(q) {
						w.opAlloc(ctx, q, false, "")
					}
				}
			}
		case x < 40:
			p := pods[r.Intn(len(pods))]
			if !w.podBusy(p) {
				if r.Intn(4) == 0 {
					w.opRepeatRelease(p)
				} else {
					w.opRelease(p)
				}
			}
		case x < 62:
			w.releaseGate(r.Intn(100) < faultRate)
		case x < 70:
			if balDone == nil {
				balDone = make(chan struct{})
				w.record(pEvent{kind: "env", text: "pl.bal start"})
				d := balDone
				bctx, bc := context.WithCancel(ctx)
				balCancel = bc
				go func() {
					defer close(d)
					w.setRole(pRole{kind: "balance"})
					eni.VerifSyncPool(bctx, w.mgr)
				}()
				w.c.Count("balance")
			}
		case x < 76:
			k := r.Intn(w.nslots)
			w.loadFails = r.Intn(8) == 0
			done := make(chan struct{})
			atomic.StoreInt32(&w.syncRegions, 0)
			race := r.Intn(2) == 0
			if race {
				atomic.StoreInt32(&w.holdSync, 1)
			}
			go func() { defer close(done); w.setRole(pRole{kind: "sync"}); w.locals[k].VerifSync() }()
			if race {
				// a cloud call of a factory worker is answered while the sync is under way: what the sync read from the cloud and
				// what the worker records must not be applied in the wrong order (a sync that gives the lock up between reading
				// and applying is held back until the worker has recorded its answer)
				time.Sleep(time.Duration(300+r.Intn(400)) * time.Microsecond)
				for n := 0; n < 4 && w.releaseGate(false); n++ {
				}
				time.Sleep(time.Duration(600+r.Intn(600)) * time.Microsecond)
				atomic.StoreInt32(&w.holdSync, 0)
				if atomic.SwapInt32(&w.syncHeld, 0) > 0 {
					w.c.Count("sync-second-region-held-back")
				}
				w.kick()
			}
			select {
			case <-done:
			case <-time.After(10 * time.Second):
				w.violate(focus+"/harness/sync-hang", "sync did not return")
			}
			w.loadFails = false
			w.c.Count("sync")
		case x < 82:
			// the cloud loses an address behind the daemon's back
			w.cloud.mu.Lock()
			var cand []string
			for _, e := range w.cloud.enis {
				for id := range e.ips {
					if id != e.primary {
						cand = append(cand, fmt.Sprintf("%s:%d", e.id, id))
					}
				}
			}
			sort.Strings(cand)
			if len(cand) > 0 {
				pick := strings.Split(cand[r.Intn(len(cand))], ":")
				id, _ := strconv.Atoi(pick[1])
				delete(w.cloud.enis[pick[0]].ips, id)
				w.goneWhy[pick[0]+":"+pick[1]] = "remote"
				w.cloud.mu.Unlock()
				w.record(pEvent{kind: "env", text: fmt.Sprintf("pl.env remove %s %d", pick[0], id)})
				w.c.Count("remote-remove")
			} else {
				w.cloud.mu.Unlock()
			}
		case x < 85:
			// a caller gives up
			var live []*pReqInfo
			for _, q := range w.reqs {
				if !q.finished && !q.nocache {
					live = append(live, q)
				}
			}
			sort.Slice(live, func(i, j int) bool { return live[i].rid < live[j].rid })
			if len(live) > 0 {
				live[r.Intn(len(live))].cancel()
				w.c.Count("cancel")
			}
		case x < 90:
			k := r.Intn(w.nslots)
			n := 1 + r.Intn(w.cfgCap+1)
			done := make(chan struct{})
			go func() { defer close(done); w.setRole(pRole{kind: "dispose", n: n}); w.locals[k].Dispose(n) }()
			select {
			case <-done:
			case <-time.After(10 * time.Second):
			}
			w.c.Count("dispose")
		default:
			time.Sleep(time.Duration(20+r.Intn(200)) * time.Millisecond)
		}
		if balDone != nil {
			select {
			case <-balDone:
				w.record(pEvent{kind: "env", text: "pl.bal end"})
				balDone = nil
			default:
			}
		}
		time.Sleep(time.Duration(r.Intn(3000)) * time.Microsecond)
	}
	// drain with a healthy cloud: cancel the callers still waiting, answer every call, run the balancer
	for round := 0; round < 400; round++ {
		w.collect()
		for w.releaseGate(false) {
		}
		if balDone != nil {
			select {
			case <-balDone:
				w.record(pEvent{kind: "env", text: "pl.bal end"})
				balDone = nil
			default:
			}
		}
		if round == 3 {
			for _, q := range w.reqs {
				if !q.finished {
					q.cancel()
				}
			}
			balCancel() // a balancer waiting for pre-heat addresses that cannot come gives up (it would after 2 minutes)
		}
		if round > 3 && balDone == nil && w.settle(600*time.Millisecond) {
			break
		}
		time.Sleep(20 * time.Millisecond)
	}
	w.collect()
	quiet := w.settle(2 * time.Second)
	// final sync of every slot, so that remote removals are seen
	for k := range w.locals {
		done := make(chan struct{})
		kk := k
		go func() { defer close(done); w.setRole(pRole{kind: "sync"}); w.locals[kk].VerifSync() }()
		select {
		case <-done:
		case <-time.After(5 * time.Second):
		}
	}
	w.settleAfterSync()
	if quiet {
		w.monitorFinal()
	} else {
		w.c.Count("not-quiescent")
	}
	cancelAll()
	close(w.stop)
	time.Sleep(5 * time.Millisecond)
	w.linearize(caseSeed)
}

func (w *pWorld) settleAfterSync() {
	for i := 0; i < 50; i++ {
		for w.releaseGate(false) {
		}
		if w.settle(700 * time.Millisecond) {
			return
		}
	}
}

// ---------- monitors (on the implementation; independent of the Lean model) ----------

func (w *pWorld) monitorReply(pod, eniID string, ips []int) {
	w.cloud.mu.Lock()
	e := w.cloud.enis[eniID]
	for _, id := range ips {
		k := fmt.Sprintf("%s:%d", eniID, id)
		if other, ok := w.heldBy[k]; ok && other != pod {
			w.violate("C01/exclusive/two-pods-one-address", fmt.Sprintf("%s was handed to %s while %s still holds it", k, pod, other))
		}
		if e == nil || !e.ips[id] {
			// not in the cloud any more.  Allowed: the pod already held it (a repeat request gets its address
			// back), or the cloud dropped it behind the daemon's back and no sync has seen that yet.
			w.evMu.Lock()
			seenAt, seen := w.seenSeq[k]
			boundAt := w.bindSeq[k]
			w.evMu.Unlock()
			if w.heldBy[k] != pod && (w.goneWhy[k] != "remote" || (seen && seenAt < boundAt)) {
				w.violate("C01/handed/not-assigned", fmt.Sprintf("%s handed to %s is not assigned to that interface in the cloud (%s; a sync applied the removal before the address was bound: %v)", k, pod, orDash(w.goneWhy[k]), seen && seenAt < boundAt))
			}
		}
	}
	w.cloud.mu.Unlock()
	// a repeat request gets the same address
	if old, ok := w.held[pod]; ok {
		for oe, oips := range old {
			if oe != eniID || idsStr(oips) != idsStr(ips) {
				w.violate("C01/repeat/different-address", fmt.Sprintf("%s holding %s:%v was handed %s:%v", pod, oe, oips, eniID, ips))
			}
		}
	}
	w.held[pod] = map[string][]int{eniID: ips}
	for _, id := range ips {
		w.heldBy[fmt.Sprintf("%s:%d", eniID, id)] = pod
	}
	w.record(pEvent{kind: "env", text: fmt.Sprintf("pl.reply %s %s %s", pod, eniID, idsStr(ips))})
}

// monitorCall: the arguments of every cloud call against the cloud's state and the reply ledger at call time
func (w *pWorld) monitorCall(g *pGate) {
	c := w.cloud
	c.mu.Lock()
	defer c.mu.Unlock()
	count := func(e *pENI, six bool) int {
		n := 0
		for id := range e.ips {
			if (id >= dwV6Base) == six {
				n++
			}
		}
		return n
	}
	switch g.call {
	case "create":
		inflight := 0
		for _, o := range c.gates {
			if o.call == "create" {
				inflight++
			}
		}
		if len(c.enis)+inflight+1 > c.maxENI {
			w.violate("C06/create/over-quota", fmt.Sprintf("CreateNetworkInterface with %d interfaces present and %d being created, quota %d", len(c.enis), inflight, c.maxENI))
		}
		if g.n4 > w.cfgCap || g.n6 > w.cfgCap || g.n4 < 1 {
			w.violate("C06/create/count", fmt.Sprintf("CreateNetworkInterface(%d, %d) with %d addresses per interface allowed", g.n4, g.n6, w.cfgCap))
		}
	case "assign4", "assign6":
		six := g.call == "assign6"
		n := g.n4 + g.n6
		if e := c.enis[g.eni]; e != nil {
			if count(e, six)+n > w.cfgCap {
				w.violate("C06/assign/over-cap", fmt.Sprintf("%s(%s, %d) with %d addresses of that family already on the interface, %d allowed", g.call, g.eni, n, count(e, six), w.cfgCap))
			}
		}
		if n < 1 || n > w.batch {
			w.violate("C06/assign/batch", fmt.Sprintf("%s(%s, %d) with batch size %d", g.call, g.eni, n, w.batch))
		}
	case "unassign4", "unassign6":
		e := c.enis[g.eni]
		for _, id := range g.ips {
			if p, ok := w.heldBy[fmt.Sprintf("%s:%d", g.eni, id)]; ok {
				w.violate("C06/unassign/in-use", fmt.Sprintf("%s of %s:%d which %s holds", g.call, g.eni, id, p))
			}
			if e != nil && id == e.primary {
				w.violate("C06/unassign/primary", fmt.Sprintf("%s of the primary address %s:%d", g.call, g.eni, id))
			}
		}
		if len(g.ips) > w.batch {
			w.violate("C06/unassign/batch", fmt.Sprintf("%s of %d addresses with batch size %d", g.call, len(g.ips), w.batch))
		}
	case "delete":
		for k, p := range w.heldBy {
			if strings.HasPrefix(k, g.eni+":") {
				w.violate("C06/delete/in-use", fmt.Sprintf("DeleteNetworkInterface(%s) while %s holds %s", g.eni, p, k))
			}
		}
	}
}

// monitorFinal: at a quiescent point after a sync the pool and the cloud agree, and nobody is marked as
// owner of an address without holding it.
func (w *pWorld) monitorFinal() {
	w.c.Count("final-checks")
	cloud := map[string]bool{}
	w.cloud.mu.Lock()
	for _, e := range w.cloud.enis {
		for id := range e.ips {
			cloud[fmt.Sprintf("%s:%d", e.id, id)] = true
		}
		cloud["eni:"+e.id] = true
	}
	w.cloud.mu.Unlock()
	tracked := map[string]bool{}
	for _, s := range w.mgr.Status() {
		if s.NetworkInterfaceID == "" {
			continue
		}
		tracked["eni:"+s.NetworkInterfaceID] = true
		for _, u := range s.Usage {
			k := fmt.Sprintf("%s:%d", s.NetworkInterfaceID, dwAddrID(u[0]))
			pod := strings.TrimPrefix(u[1], "ns/")
			if u[2] == "Valid" || u[2] == "Deleting" {
				tracked[k] = true
				if !cloud[k] {
					w.violate("C07/agree/tracked-not-in-cloud", fmt.Sprintf("quiescent pool tracks %s (%s) which the cloud does not have", k, u[2]))
				}
			}
			if u[2] == "Deleting" {
				w.violate("C07/quiescent/still-deleting", fmt.Sprintf("quiescent pool with a healthy cloud still has %s marked for deletion", k))
			}
			if pod != "" && w.heldBy[k] != pod {
				w.violate("C07/owner/not-holding", fmt.Sprintf("%s is marked as owned by %s, which holds %v", k, pod, w.held[pod]))
			}
		}
	}
	for k := range cloud {
		if !tracked[k] {
			w.violate("C07/agree/cloud-not-tracked", fmt.Sprintf("the cloud has %s which the quiescent pool does not track (orphan)", k))
		}
	}
	for k, p := range w.heldBy {
		if !tracked[k] {
			// held but invalid (removed remotely) is allowed; held and unknown is not
			found := false
			for _, s := range w.mgr.Status() {
				for _, u := range s.Usage {
					if fmt.Sprintf("%s:%d", s.NetworkInterfaceID, dwAddrID(u[0])) == k {
						found = true
					}
				}
			}
			if !found {
				w.violate("C01/held/untracked", fmt.Sprintf("%s holds %s which the pool no longer tracks", p, k))
			}
		}
	}
}

// ---------- from recorded events to protocol lines ----------

func (w *pWorld) linearize(caseSeed uint64) {
	w.evMu.Lock()
	evs := append([]pEvent(nil), w.events...)
	w.evMu.Unlock()
	w.roleMu.Lock()
	roles := map[int64]pRole{}
	for k, v := range w.roles {
		roles[k] = v
	}
	allocRid := map[int64]int{}
	for k, v := range w.allocRid {
		allocRid[k] = v
	}
	w.roleMu.Unlock()
	var lines []Line
	add := func(op, impl string) { lines = append(lines, Line{op, impl}) }
	add(fmt.Sprintf("pl.init %d %d %s %s %d %d %d %d", w.cfgCap, w.batch, b01(w.en4), b01(w.en6), w.nslots, w.maxIdles, w.minIdles, w.total), "ok")
	// next cloud call of a goroutine after event k and before its next region
	nextCall := func(k int, gid int64) string {
		for j := k + 1; j < len(evs); j++ {
			if evs[j].g.gid != gid {
				continue
			}
			if evs[j].kind == "region" {
				return "-"
			}
			if evs[j].kind == "call" {
				switch evs[j].call {
				case "create":
					return "create:" + evs[j].args
				case "unassign4":
					// the IPv6 batch was fixed in the same region: look for it after this call returns
					u6 := "-"
					for m := j + 1; m < len(evs); m++ {
						if evs[m].g.gid == gid && evs[m].kind == "call" {
							if evs[m].call == "unassign6" {
								u6 = evs[m].args
							}
							break
						}
					}
					return "unassign4:" + evs[j].args + ":" + u6
				case "delete":
					return "delete:" + evs[j].args
				default:
					return evs[j].call + ":" + evs[j].args
				}
			}
		}
		return "-"
	}
	// which alloc region of a request was the accepting one
	lastAlloc := map[int]int{}
	for k, e := range evs {
		if e.kind == "region" && e.label() == "Allocate" {
			if e.hasRole && e.role.kind == "alloc" {
				lastAlloc[e.role.rid] = k
			}
		}
	}
	pendingRet := map[int64]pEvent{} // gid -> result of the cloud call that just returned
	seen := map[int64]bool{}
	prevSnap := map[int]string{}
	for k, e := range evs {
		switch e.kind {
		case "env":
			if strings.HasPrefix(e.text, "pl.bal") {
				if e.text == "pl.bal end" {
					// how many pre-heat requests the balancer started is checked from the requests themselves
					add("pl.bal end", "toAdd="+strconv.Itoa(w.preheatOf(evs, k)))
				} else {
					add(e.text, "ok")
				}
			} else if strings.HasPrefix(e.text, "pl.env") {
				add(e.text, "#")
			}
			continue
		case "ret":
			pendingRet[e.g.gid] = e
			continue
		case "call":
			continue
		}
		// regions
		lbl := e.label()
		first := !seen[e.g.gid]
		seen[e.g.gid] = true
		ro := e.role
		changed := prevSnap[e.slot] != e.snap
		prevOf, hadPrev := prevSnap[e.slot]
		prevSnap[e.slot] = e.snap
		switch {
		case lbl == "Allocate":
			if ro.kind != "alloc" {
				// a pre-heat request of the balancer: its number is the one that newly shows up in the queues
				rid, acc := 0, false
				for _, id := range queuedIDs(e.snap) {
					if !contains(queuedIDs(prevOf), id) {
						rid, acc = id, true
					}
				}
				if acc {
					allocRid[e.g.gid] = rid
				}
				add(fmt.Sprintf("pl.alloc %d %d - 1 - %s | %s", e.slot, rid, b01(acc), e.snap), e.snap)
				continue
			}
			acc := lastAlloc[ro.rid] == k
			if q := w.reqs[ro.rid]; q != nil && q.err != nil && strings.Contains(q.err.Error(), "no eni can handle") {
				acc = false
			}
			add(fmt.Sprintf("pl.alloc %d %d %s %s %s %s | %s", e.slot, ro.rid, orDash(ro.pod), b01(ro.nocache), orDash(ro.pin), b01(acc), e.snap), e.snap)
		case strings.HasPrefix(lbl, "Allocate.func"):
			add(fmt.Sprintf("pl.commit %d %d | %s", e.slot, allocRid[e.g.parent], e.snap), e.snap)
		case lbl == "allocWorker":
			if !changed && hadPrev {
				continue
			}
			add(fmt.Sprintf("pl.w %d %d | %s", e.slot, allocRid[e.g.parent], e.snap), e.snap)
		case strings.HasPrefix(lbl, "allocWorker.func"):
			if changed && hadPrev {
				add(fmt.Sprintf("pl.ro %d | %s", e.slot, e.snap), e.snap)
			}
		case lbl == "factoryAllocWorker":
			ret, has := pendingRet[e.g.gid]
			delete(pendingRet, e.g.gid)
			next := nextCall(k, e.g.gid)
			switch {
			case has && ret.call == "create":
				f := strings.Fields(ret.result)
				cargs := w.lastCallArgs(evs, k, e.g.gid, "create")
				add(fmt.Sprintf("pl.fa created %d %s %s %s %s %s %s %s | %s", e.slot, strings.Replace(cargs, ":", " ", 1), f[0], f[1], f[2], f[3], f[4], next, e.snap), e.snap)
			case has && (ret.call == "assign4" || ret.call == "assign6"):
				f := strings.Fields(ret.result)
				add(fmt.Sprintf("pl.fa %s %d %s %s %s | %s", strings.Replace(ret.call, "assign", "assigned", 1), e.slot, f[0], f[1], next, e.snap), e.snap)
			case first || e.g.viaWait:
				// at the head of its loop: only the Len() side effects
				if changed && hadPrev {
					add(fmt.Sprintf("pl.fa head %d | %s", e.slot, e.snap), e.snap)
				}
			default:
				add(fmt.Sprintf("pl.fa slept %d %s | %s", e.slot, next, e.snap), e.snap)
			}
		case lbl == "factoryDisposeWorker":
			ret, has := pendingRet[e.g.gid]
			delete(pendingRet, e.g.gid)
			next := nextCall(k, e.g.gid)
			in := "wake"
			if has {
				switch ret.call {
				case "delete":
					in = "deleted:" + ret.result
				case "unassign4", "unassign6":
					f := strings.Fields(ret.result)
					in = strings.Replace(ret.call, "unassign", "unassigned", 1) + ":" + f[0] + ":" + f[1]
				}
			}
			if in == "wake" && next == "-" && !(changed && hadPrev) {
				continue
			}
			add(fmt.Sprintf("pl.fd %d %s %s | %s", e.slot, in, next, e.snap), e.snap)
		case lbl == "Release":
			// Manager.Release offers the resource to every Local; the one with that ENI takes it
			eniID := strings.TrimPrefix(strings.Fields(e.snap)[0], "e=")
			if ips, ok := ro.res[eniID]; ok && ro.kind == "release" {
				add(fmt.Sprintf("pl.rel %d %s %s %s | %s", e.slot, eniID, ro.pod, idsStr(ips), e.snap), e.snap)
			} else if changed && hadPrev {
				add(fmt.Sprintf("pl.ro %d Release | %s", e.slot, e.snap), e.snap)
			}
		case lbl == "Dispose":
			if ro.kind == "dispose" {
				add(fmt.Sprintf("pl.disp %d %d | %s", e.slot, ro.n, e.snap), e.snap)
			} else {
				add(fmt.Sprintf("pl.bdisp %d | %s", e.slot, e.snap), e.snap)
			}
		case lbl == "Usage":
			if ro.kind == "balance" {
				add(fmt.Sprintf("pl.usage %d", e.slot), w.usageOf(e.snap))
			}
		case lbl == "sync":
			ret, has := pendingRet[e.g.gid]
			delete(pendingRet, e.g.gid)
			remote := "skip"
			if has && ret.call == "load" {
				remote = ret.result
			}
			add(fmt.Sprintf("pl.sync %d %s | %s", e.slot, remote, e.snap), e.snap)
		default:
			// Priority, Status, notify ...: read-only
			if changed && hadPrev {
				add(fmt.Sprintf("pl.ro %d %s | %s", e.slot, lbl, e.snap), e.snap)
			}
		}
	}
	add("pl.ledger", w.cloud.ledgerStr())
	var acks []string
	for k, p := range w.heldBy {
		acks = append(acks, p+":"+k)
	}
	sort.Strings(acks)
	add("pl.acks", joinOrDash(acks))
	w.lines = nil
	for _, l := range lines {
		w.lines = append(w.lines, l.Op+" => "+l.Impl)
	}
	for _, v := range w.viol {
		w.c.Violate(v[0], v[1], append([]string{fmt.Sprintf("pl.case %d", caseSeed)}, w.lines...)...)
	}
	w.c.Add(Case{Lines: append([]Line{{fmt.Sprintf("pl.case %d", caseSeed), "ok"}}, lines...), Nontrivial: true})
}

func (e pEvent) label() string { return e.g.label }

func queuedIDs(snap string) []int {
	var out []int
	for _, f := range strings.Fields(snap) {
		for _, k := range []string{"a4=", "a6=", "d4=", "d6="} {
			if strings.HasPrefix(f, k) && f[len(k):] != "-" {
				for _, t := range strings.Split(f[len(k):], "+") {
					n, _ := strconv.Atoi(strings.TrimSuffix(t, "x"))
					out = append(out, n)
				}
			}
		}
	}
	return out
}

func contains(l []int, x int) bool {
	for _, v := range l {
		if v == x {
			return true
		}
	}
	return false
}

// lastCallArgs: the arguments of the goroutine's last call of that kind before event k
func (w *pWorld) lastCallArgs(evs []pEvent, k int, gid int64, call string) string {
	for j := k - 1; j >= 0; j-- {
		if evs[j].g.gid == gid && evs[j].kind == "call" && evs[j].call == call {
			return evs[j].args
		}
	}
	return "0:0"
}

// usageOf recomputes what Usage() returns from the recorded state (idle = not in use, first enabled family)
func (w *pWorld) usageOf(snap string) string {
	f := strings.Fields(snap)
	if len(f) < 4 || f[0] == "e=-" || f[1] != "st=inUse" {
		return "0 0"
	}
	idle, inuse := 0, 0
	ips := strings.TrimPrefix(f[3], "ips=")
	if ips != "-" {
		for _, t := range strings.Split(ips, ",") {
			p := strings.Split(t, ":")
			id, _ := strconv.Atoi(p[0])
			six := id >= dwV6Base
			if (w.en4 && six) || (!w.en4 && !six) {
				continue
			}
			if p[1] == "-" {
				idle++
			} else {
				inuse++
			}
		}
	}
	return fmt.Sprintf("%d %d", idle, inuse)
}

// preheatOf counts the pre-heat Allocate requests the balancer run that ended at event k had started
func (w *pWorld) preheatOf(evs []pEvent, k int) int {
	// the balancer's own Manager.Allocate calls run in goroutines created by syncPool
	start := 0
	for j := k - 1; j >= 0; j-- {
		if evs[j].kind == "env" && evs[j].text == "pl.bal start" {
			start = j
			break
		}
	}
	gids := map[int64]bool{}
	for j := start; j < k; j++ {
		if evs[j].kind == "region" && evs[j].label() == "Allocate" {
			if !evs[j].hasRole {
				gids[evs[j].g.gid] = true
			}
		}
	}
	return len(gids)
}

var _ = os.Getenv
