package main

// PodENI world (C10, C11): the REAL pod controller (pkg/controller/pod) and PodENI controller
// (pkg/controller/pod-eni: Reconcile, gcCRPodENIs, gcSecondaryENI/gcMemberENI) over
//   - a fake API server: controller-runtime's fake client behind a wrapper that owns the concurrency
//     semantics (per-object versions that are never reused, Conflict on a stale Update / Status().Update,
//     none on Patch / Delete, finalizer + deletionTimestamp), labels every call with the controller
//     function that made it, parks it until the scheduler releases it, and can fail it;
//   - a fake cloud (interfaces with owner tags, creation time, attachment) with the same gate;
//   - a virtual clock: timestamps are kept in virtual seconds and presented to the code relative to
//     the wall clock (the code only ever looks at differences to time.Now()).
// Every call a controller makes becomes one protocol line `pe.<event> <name> …` whose outcome is the
// API's answer plus the record and the name's interfaces afterwards; the Lean model must accept the
// event and agree on that state.  Monitors judge the same history independently of the model.

import (
	"context"
	"encoding/json"
	"errors"
	"fmt"
	"runtime"
	"sort"
	"strconv"
	"strings"
	"sync"
	"sync/atomic"
	"time"

	"github.com/aliyun/alibaba-cloud-sdk-go/services/ecs"
	"github.com/aliyun/alibaba-cloud-sdk-go/services/vpc"
	corev1 "k8s.io/api/core/v1"
	apierrors "k8s.io/apimachinery/pkg/api/errors"
	metav1 "k8s.io/apimachinery/pkg/apis/meta/v1"
	k8sruntime "k8s.io/apimachinery/pkg/runtime"
	"k8s.io/apimachinery/pkg/runtime/schema"
	k8stypes "k8s.io/apimachinery/pkg/types"
	"k8s.io/apimachinery/pkg/util/wait"
	"sigs.k8s.io/controller-runtime/pkg/client"
	"sigs.k8s.io/controller-runtime/pkg/client/fake"

	aliyunClient "github.com/AliyunContainerService/terway/pkg/aliyun/client"
	apiErr "github.com/AliyunContainerService/terway/pkg/aliyun/client/errors"
	networkv1beta1 "github.com/AliyunContainerService/terway/pkg/apis/network.alibabacloud.com/v1beta1"
	ctrlreg "github.com/AliyunContainerService/terway/pkg/controller"
	podctl "github.com/AliyunContainerService/terway/pkg/controller/pod"
	podeni "github.com/AliyunContainerService/terway/pkg/controller/pod-eni"
	"github.com/AliyunContainerService/terway/pkg/controller/status"
	"github.com/AliyunContainerService/terway/pkg/vswitch"
	terwayTypes "github.com/AliyunContainerService/terway/types"
	"github.com/AliyunContainerService/terway/types/controlplane"
)

const (
	ewNS       = "default"
	ewCluster  = "c-verif"
	ewGrace    = 600
	ewTickUnit = 70 // the clock moves in multiples of 70 s: no age ever equals the 600 s grace, no TTL (≡ 35 mod 70) its boundary
	ewLayout   = "2006-01-02T15:04:05Z"
)

// ---------- actors ----------

type ewDirective struct {
	fault      bool
	childFault map[int]bool
	pauseChild int // index of the child call to park at (-1: none)
}

type ewActor struct {
	kind, name string // P/E per pod name; G, L global (name "")
	resume     chan ewDirective
	dir        ewDirective
	childIdx   int32
	// presented lastSeen (unix seconds) per record name, to notice a changed timestamp on write
	shownLS map[string]int64
	// pod controller bookkeeping for the roll-back monitor
	made       []int
	delFault   bool
	inCreate   bool
	parkedAt   string
	parkedKid  bool
	auxFault   map[string]bool
	sawErr     bool
	startedNow int64
}

func (a *ewActor) key() string {
	if a.name == "" {
		return a.kind
	}
	return a.kind + ":" + a.name
}

type ewActorKey struct{}

func ewActorOf(ctx context.Context) *ewActor {
	a, _ := ctx.Value(ewActorKey{}).(*ewActor)
	return a
}

type ewMsg struct {
	a    *ewActor
	done bool
}

// ---------- cloud ----------

type ewENI struct {
	id      int
	owner   string // pod name whose pod controller created it; "kf" for foreign ones
	ip      int
	att     int // instance index, -1 = not attached
	ctime   int64
	ours    bool
	tagKind int // foreign: 0 ours, 1 other cluster, 2 no creator tag, 3 other creator, 4 unparsable creation time
	member  bool
}

type ewCloud struct {
	ctrlreg.Interface
	w    *ewWorld
	enis map[int]*ewENI
	gone map[int]string // owner of every deleted interface (a late call on it is still attributed to that name)
	next int
}

func ewEniID(id int) string { return fmt.Sprintf("eni-%d", id) }
func ewParseEni(s string) int {
	n, err := strconv.Atoi(strings.TrimPrefix(s, "eni-"))
	if err != nil {
		return -1
	}
	return n
}
func ewInst(i int) string { return fmt.Sprintf("i-%d", i) }
func ewParseInst(s string) int {
	n, err := strconv.Atoi(strings.TrimPrefix(s, "i-"))
	if err != nil {
		return -1
	}
	return n
}

func (c *ewCloud) api(e *ewENI) *aliyunClient.NetworkInterface {
	ni := &aliyunClient.NetworkInterface{
		NetworkInterfaceID: ewEniID(e.id), MacAddress: fmt.Sprintf("02:00:00:00:%02x:%02x", e.id/256, e.id%256),
		VSwitchID: "vsw-1", ZoneID: "zone-a", PrivateIPAddress: fmt.Sprintf("10.9.%d.%d", e.ip/250, e.ip%250+1),
		SecurityGroupIDs: []string{"sg-1"}, Type: aliyunClient.ENITypeSecondary, Status: aliyunClient.ENIStatusAvailable,
		NetworkInterfaceTrafficMode: "Standard",
	}
	if e.member {
		ni.Type = aliyunClient.ENITypeMember
	}
	if e.att >= 0 {
		ni.Status = aliyunClient.ENIStatusInUse
		ni.InstanceID = ewInst(e.att)
		if e.member {
			ni.TrunkNetworkInterfaceID = "eni-trunk"
		}
	}
	age := c.w.now - e.ctime
	ni.CreationTime = time.Now().UTC().Add(-time.Duration(age) * time.Second).Format(ewLayout)
	switch {
	case e.owner != "kf" || e.tagKind == 0:
		ni.Tags = []ecs.Tag{{TagKey: terwayTypes.TagKeyClusterID, TagValue: ewCluster}, {TagKey: terwayTypes.NetworkInterfaceTagCreatorKey, TagValue: terwayTypes.TagTerwayController}}
	case e.tagKind == 1:
		ni.Tags = []ecs.Tag{{TagKey: terwayTypes.TagKeyClusterID, TagValue: "c-other"}, {TagKey: terwayTypes.NetworkInterfaceTagCreatorKey, TagValue: terwayTypes.TagTerwayController}}
	case e.tagKind == 2:
		ni.Tags = []ecs.Tag{{TagKey: terwayTypes.TagKeyClusterID, TagValue: ewCluster}}
	case e.tagKind == 3:
		ni.Tags = []ecs.Tag{{TagKey: terwayTypes.TagKeyClusterID, TagValue: ewCluster}, {TagKey: terwayTypes.NetworkInterfaceTagCreatorKey, TagValue: "someone-else"}}
	case e.tagKind == 4:
		ni.Tags = []ecs.Tag{{TagKey: terwayTypes.TagKeyClusterID, TagValue: ewCluster}, {TagKey: terwayTypes.NetworkInterfaceTagCreatorKey, TagValue: terwayTypes.TagTerwayController}}
		ni.CreationTime = "yesterday"
	}
	return ni
}

func (c *ewCloud) DescribeVSwitchByID(ctx context.Context, id string) (*vpc.VSwitch, error) {
	if a := ewActorOf(ctx); a != nil && a.auxFault["vsw"] {
		delete(a.auxFault, "vsw")
		c.w.noteFault(a)
		return nil, errors.New("injected: describe vswitch")
	}
	return &vpc.VSwitch{VSwitchId: id, ZoneId: "zone-a", AvailableIpAddressCount: 1000, CidrBlock: "10.9.0.0/16", Ipv6CidrBlock: "fd09::/64"}, nil
}

func (c *ewCloud) DescribeInstanceTypes(ctx context.Context, types []string) ([]ecs.InstanceType, error) {
	var out []ecs.InstanceType
	for _, t := range types {
		out = append(out, ecs.InstanceType{InstanceTypeId: t, EniQuantity: 8, EniPrivateIpAddressQuantity: 10, EniIpv6AddressQuantity: 10, EniTotalQuantity: 16, EniTrunkSupported: true})
	}
	return out, nil
}

func (c *ewCloud) CreateNetworkInterface(ctx context.Context, opts ...aliyunClient.CreateNetworkInterfaceOption) (*aliyunClient.NetworkInterface, error) {
	w := c.w
	a, ev, child := w.classify(ctx, "cloud.create", "")
	o := &aliyunClient.CreateNetworkInterfaceOptions{}
	for _, x := range opts {
		x.ApplyCreateNetworkInterface(o)
	}
	fault := w.gate(a, ev, child)
	w.mu.Lock()
	defer w.mu.Unlock()
	if a == nil || ev != "pCloudCreate" {
		w.anomaly("cloud create by " + ev)
		return nil, errors.New("unexpected")
	}
	if fault {
		a.sawErr = true
		w.emit(a.name, fmt.Sprintf("pe.pCloudCreate %s 0 0 0", a.name), "")
		return nil, errors.New("injected: create eni")
	}
	id := c.next
	c.next++
	e := &ewENI{id: id, owner: a.name, ip: id, att: -1, ctime: w.now, ours: true}
	// the tags are what the controller asked for: a creation without them would not be ours
	if o.NetworkInterfaceOptions == nil || o.NetworkInterfaceOptions.Tags[terwayTypes.TagKeyClusterID] != ewCluster ||
		o.NetworkInterfaceOptions.Tags[terwayTypes.NetworkInterfaceTagCreatorKey] != terwayTypes.TagTerwayController {
		w.c.Violate("C11/create/untagged-interface", "an interface was created without this cluster's controller tags")
	}
	c.enis[id] = e
	a.made = append(a.made, id)
	a.inCreate = true
	w.emit(a.name, fmt.Sprintf("pe.pCloudCreate %s 1 %d %d", a.name, id, id), "")
	return c.api(e), nil
}

func (c *ewCloud) DescribeNetworkInterface(ctx context.Context, vpcID string, eniID []string, instanceID string, instanceType string, st string, tags map[string]string) ([]*aliyunClient.NetworkInterface, error) {
	w := c.w
	a, ev, child := w.classify(ctx, "cloud.describe", "")
	fault := w.gate(a, ev, child)
	w.mu.Lock()
	defer w.mu.Unlock()
	switch ev {
	case "eDescribe":
		id := -1
		if len(eniID) == 1 {
			id = ewParseEni(eniID[0])
		}
		if fault {
			a.sawErr = true
			w.emit(a.name, fmt.Sprintf("pe.eDescribe %s %d err", a.name, id), "")
			return nil, errors.New("injected: describe")
		}
		e := c.enis[id]
		if e != nil && instanceType != "" && c.api(e).Type != instanceType {
			// the cloud filters by the type asked for: an interface of another type is not in the answer
			w.c.Count("cloud:describe-type-filter-hides-interface")
			e = nil
		}
		switch {
		case e == nil:
			w.emit(a.name, fmt.Sprintf("pe.eDescribe %s %d absent", a.name, id), "")
			return nil, nil
		case e.att < 0:
			w.emit(a.name, fmt.Sprintf("pe.eDescribe %s %d free", a.name, id), "")
		default:
			w.emit(a.name, fmt.Sprintf("pe.eDescribe %s %d att:%d", a.name, id, e.att), "")
		}
		return []*aliyunClient.NetworkInterface{c.api(e)}, nil
	case "lDescribe":
		inuse := st == aliyunClient.ENIStatusInUse
		w.lEndAll()
		if fault {
			return nil, errors.New("injected: describe")
		}
		var out []*aliyunClient.NetworkInterface
		got := map[string][]int{}
		for _, id := range c.sortedIDs() {
			e := c.enis[id]
			ni := c.api(e)
			if (instanceType != "" && ni.Type != instanceType) || (st != "" && ni.Status != st) {
				continue
			}
			out = append(out, ni)
			got[e.owner] = append(got[e.owner], id)
		}
		for _, k := range w.allNames() {
			w.emit(k, fmt.Sprintf("pe.lDescribe %s %s", k, b01(inuse)), " | got="+ewNats(got[k]))
			w.lOpen[k] = true
		}
		return out, nil
	}
	// anything else (harness-internal or unexpected): plain answer
	var out []*aliyunClient.NetworkInterface
	for _, id := range c.sortedIDs() {
		e := c.enis[id]
		if len(eniID) > 0 {
			found := false
			for _, x := range eniID {
				if ewParseEni(x) == id {
					found = true
				}
			}
			if !found {
				continue
			}
		}
		out = append(out, c.api(e))
	}
	return out, nil
}

func (c *ewCloud) sortedIDs() []int {
	var ids []int
	for id := range c.enis {
		ids = append(ids, id)
	}
	sort.Ints(ids)
	return ids
}

func (c *ewCloud) AttachNetworkInterface(ctx context.Context, opts ...aliyunClient.AttachNetworkInterfaceOption) error {
	w := c.w
	a, ev, child := w.classify(ctx, "cloud.attach", "")
	o := &aliyunClient.AttachNetworkInterfaceOptions{}
	for _, x := range opts {
		x.ApplyTo(o)
	}
	fault := w.gate(a, ev, child)
	w.mu.Lock()
	defer w.mu.Unlock()
	if a == nil || ev != "eAttach" || o.NetworkInterfaceID == nil || o.InstanceID == nil {
		w.anomaly("cloud attach by " + ev)
		return errors.New("unexpected")
	}
	id, inst := ewParseEni(*o.NetworkInterfaceID), ewParseInst(*o.InstanceID)
	e := c.enis[id]
	if fault || e == nil || (e.att >= 0 && e.att != inst) {
		a.sawErr = true
		w.emit(a.name, fmt.Sprintf("pe.eAttach %s %d %d 0", a.name, id, inst), "")
		return errors.New("injected or impossible: attach")
	}
	e.att = inst
	w.emit(a.name, fmt.Sprintf("pe.eAttach %s %d %d 1", a.name, id, inst), "")
	return nil
}

func (c *ewCloud) DetachNetworkInterface(ctx context.Context, eniID, instanceID, trunkENIID string) error {
	w := c.w
	a, ev, child := w.classify(ctx, "cloud.detach", "")
	fault := w.gate(a, ev, child)
	w.mu.Lock()
	defer w.mu.Unlock()
	id := ewParseEni(eniID)
	e := c.enis[id]
	owner := "kf"
	if e != nil {
		owner = e.owner
	} else if o, ok := c.gone[id]; ok {
		owner = o
	}
	switch ev {
	case "eDetach":
		owner = a.name
		if fault {
			a.sawErr = true
			w.emit(owner, fmt.Sprintf("pe.eDetach %s %d 0", owner, id), "")
			return errors.New("injected: detach")
		}
		w.monPull(a, "detach", id)
		if e != nil {
			e.att = -1
		}
		w.emit(owner, fmt.Sprintf("pe.eDetach %s %d 1", owner, id), "")
		return nil
	case "lDetach":
		if fault {
			w.emit(owner, fmt.Sprintf("pe.lDetach %s %d 0", owner, id), "")
			return errors.New("injected: detach")
		}
		w.monLeak("detach", id)
		w.monPull(a, "detach", id)
		if e != nil {
			e.att = -1
		}
		w.emit(owner, fmt.Sprintf("pe.lDetach %s %d 1", owner, id), "")
		return nil
	}
	w.anomaly("cloud detach by " + ev)
	return errors.New("unexpected")
}

func (c *ewCloud) DeleteNetworkInterface(ctx context.Context, eniID string) error {
	w := c.w
	a, ev, child := w.classify(ctx, "cloud.delete", "")
	fault := w.gate(a, ev, child)
	w.mu.Lock()
	defer w.mu.Unlock()
	id := ewParseEni(eniID)
	e := c.enis[id]
	owner := "kf"
	if e != nil {
		owner = e.owner
	} else if o, ok := c.gone[id]; ok {
		owner = o
	}
	if ev != "pCloudDelete" && ev != "eCloudDelete" && ev != "lDelete" {
		w.anomaly("cloud delete by " + ev)
		return errors.New("unexpected")
	}
	if ev != "lDelete" {
		owner = a.name
	}
	evName := "pe." + ev
	if fault || (e != nil && e.att >= 0) {
		if ev == "pCloudDelete" {
			a.delFault = true
		}
		if a != nil {
			a.sawErr = true
		}
		w.emit(owner, fmt.Sprintf("%s %s %d 0", evName, owner, id), "")
		return errors.New("injected or impossible: delete")
	}
	if ev == "lDelete" {
		w.monLeak("delete", id)
	}
	w.monPull(a, "delete", id)
	if e != nil {
		c.gone[id] = e.owner
	}
	delete(c.enis, id)
	w.emit(owner, fmt.Sprintf("%s %s %d 1", evName, owner, id), "")
	return nil
}

func (c *ewCloud) WaitForNetworkInterface(ctx context.Context, eniID string, st string, bo wait.Backoff, ignoreNotExist bool) (*aliyunClient.NetworkInterface, error) {
	w := c.w
	a, ev, child := w.classify(ctx, "cloud.wait", "")
	fault := w.gate(a, ev, child)
	w.mu.Lock()
	defer w.mu.Unlock()
	id := ewParseEni(eniID)
	if a == nil || ev != "eWait" {
		w.anomaly("cloud wait by " + ev)
		return nil, errors.New("unexpected")
	}
	e := c.enis[id]
	var ni *aliyunClient.NetworkInterface
	var err error
	switch {
	case fault:
		err = errors.New("injected: wait")
	case e == nil && ignoreNotExist:
		err = fmt.Errorf("wait: %w", apiErr.ErrNotFound)
	case e == nil:
		err = errors.New("wait: timed out")
	default:
		ni = c.api(e)
		if st != "" && ni.Status != st {
			ni, err = nil, errors.New("wait: timed out")
		}
	}
	okv := err == nil || (errors.Is(err, apiErr.ErrNotFound) && ignoreNotExist)
	if !okv {
		a.sawErr = true
	}
	w.emit(a.name, fmt.Sprintf("pe.eWait %s %d %s", a.name, id, b01(okv)), "")
	return ni, err
}

// ---------- API server ----------

type ewClient struct {
	client.Client // the fake; everything not overridden goes straight to it
	w             *ewWorld
}

type ewStatus struct{ c *ewClient }

func (c *ewClient) Status() client.SubResourceWriter { return &ewStatus{c} }

func (c *ewClient) Get(ctx context.Context, key client.ObjectKey, obj client.Object, opts ...client.GetOption) error {
	w := c.w
	switch o := obj.(type) {
	case *corev1.Pod:
		a, ev, child := w.classify(ctx, "get", "pod")
		if ev == "" {
			if a != nil && a.auxFault["pod"] {
				w.noteFault(a)
				return apierrors.NewInternalError(errors.New("injected"))
			}
			return c.Client.Get(ctx, key, obj, opts...)
		}
		fault := w.gate(a, ev, child)
		w.mu.Lock()
		defer w.mu.Unlock()
		return w.getPod(ctx, a, ev, key.Name, o, fault)
	case *corev1.Node:
		a, ev, child := w.classify(ctx, "get", "node")
		if ev == "" {
			if a != nil && a.auxFault["node"] {
				delete(a.auxFault, "node")
				w.noteFault(a)
				return apierrors.NewInternalError(errors.New("injected"))
			}
			return c.Client.Get(ctx, key, obj, opts...)
		}
		fault := w.gate(a, ev, child)
		w.mu.Lock()
		defer w.mu.Unlock()
		var err error
		if fault {
			err = apierrors.NewInternalError(errors.New("injected")) // the object stays empty, as with a real failure
		} else {
			err = c.Client.Get(ctx, key, obj, opts...)
		}
		switch ev {
		case "eGetNode":
			inst := "-"
			if err == nil {
				if ids := strings.Split(o.Spec.ProviderID, "."); len(ids) == 2 {
					inst = strconv.Itoa(ewParseInst(ids[1]))
				}
			} else {
				a.sawErr = true
			}
			w.emit(a.name, fmt.Sprintf("pe.eGetNode %s %s", a.name, inst), "")
		case "gGetNode":
			if err != nil && w.gCur != "" {
				if q, rec := w.gSeenPod, w.rawRec(w.gCur); q != nil && rec != nil {
					w.c.Count(fmt.Sprintf("gNodeErr:needs=%v,sameuid=%v,phase=%s", w.needsG(q), rec.Annotations[terwayTypes.PodUID] == string(q.UID), ewPhaseTok(rec.Status.Phase)))
				}
				w.emit(w.gCur, fmt.Sprintf("pe.gNodeErr %s", w.gCur), "")
				w.gNodeErr = true
				w.gObserve()
			}
		}
		return err
	case *networkv1beta1.PodENI:
		a, ev, child := w.classify(ctx, "get", "podeni")
		if ev == "" {
			w.mu.Lock()
			defer w.mu.Unlock()
			err := c.Client.Get(ctx, key, obj, opts...)
			if err == nil {
				w.present(a, o)
			}
			return err
		}
		fault := w.gate(a, ev, child)
		w.mu.Lock()
		defer w.mu.Unlock()
		if fault {
			a.sawErr = true
			w.emit(key.Name, fmt.Sprintf("pe.%s %s 1", ev, key.Name), "")
			return apierrors.NewInternalError(errors.New("injected"))
		}
		err := c.Client.Get(ctx, key, obj, opts...)
		if err == nil {
			w.present(a, o)
		}
		w.emit(key.Name, fmt.Sprintf("pe.%s %s 0", ev, key.Name), "")
		return err
	}
	return c.Client.Get(ctx, key, obj, opts...)
}

func (c *ewClient) List(ctx context.Context, list client.ObjectList, opts ...client.ListOption) error {
	w := c.w
	pl, ok := list.(*networkv1beta1.PodENIList)
	if !ok {
		return c.Client.List(ctx, list, opts...)
	}
	a, ev, child := w.classify(ctx, "list", "podeni")
	if ev == "" {
		w.mu.Lock()
		defer w.mu.Unlock()
		err := c.Client.List(ctx, list, opts...)
		for i := range pl.Items {
			w.present(a, &pl.Items[i])
		}
		return err
	}
	fault := w.gate(a, ev, child)
	w.mu.Lock()
	defer w.mu.Unlock()
	if fault {
		return apierrors.NewInternalError(errors.New("injected"))
	}
	err := c.Client.List(ctx, list, opts...)
	if err != nil {
		return err
	}
	sort.Slice(pl.Items, func(i, j int) bool { return pl.Items[i].Name < pl.Items[j].Name })
	for i := range pl.Items {
		w.present(a, &pl.Items[i])
	}
	switch ev {
	case "gList":
		for i := range pl.Items {
			k := pl.Items[i].Name
			w.emit(k, fmt.Sprintf("pe.gList %s", k), "")
			w.gOpen[k] = true
			w.gSnap[k] = pl.Items[i].DeepCopy()
		}
	case "lList":
		w.lRefs = map[int]bool{}
		for i := range pl.Items {
			for _, al := range pl.Items[i].Spec.Allocations {
				w.lRefs[ewParseEni(al.ENI.ID)] = true
			}
		}
		for _, k := range w.allNames() {
			if w.lOpen[k] {
				w.emit(k, fmt.Sprintf("pe.lList %s", k), "")
			}
		}
	}
	return nil
}

func (c *ewClient) Create(ctx context.Context, obj client.Object, opts ...client.CreateOption) error {
	w := c.w
	o, ok := obj.(*networkv1beta1.PodENI)
	if !ok {
		return c.Client.Create(ctx, obj, opts...)
	}
	a, ev, child := w.classify(ctx, "create", "podeni")
	fault := w.gate(a, ev, child)
	w.mu.Lock()
	defer w.mu.Unlock()
	k := o.Name
	ids := ewAllocToks(o.Spec.Allocations, ":")
	if a == nil || ev != "pCreateRec" {
		w.anomaly("record create by " + ev)
		return errors.New("unexpected")
	}
	if fault {
		a.sawErr = true
		w.emit(k, fmt.Sprintf("pe.pCreateRec %s %s err", k, ids), "")
		return apierrors.NewInternalError(errors.New("injected"))
	}
	o.ResourceVersion = ""
	err := c.Client.Create(ctx, obj, opts...)
	if err != nil {
		a.sawErr = true
		w.emit(k, fmt.Sprintf("pe.pCreateRec %s %s stale", k, ids), "")
		return err
	}
	w.ver[k] = w.nextVer[k]
	w.nextVer[k]++
	w.lsV[k] = -1
	w.obsV[k] = -1
	w.orig[k] = append([]networkv1beta1.Allocation(nil), o.Spec.Allocations...)
	a.inCreate = false
	o.ResourceVersion = strconv.Itoa(w.ver[k])
	w.emit(k, fmt.Sprintf("pe.pCreateRec %s %s ok", k, ids), "")
	return nil
}

func (c *ewClient) Delete(ctx context.Context, obj client.Object, opts ...client.DeleteOption) error {
	w := c.w
	o, ok := obj.(*networkv1beta1.PodENI)
	if !ok {
		return c.Client.Delete(ctx, obj, opts...)
	}
	a, ev, child := w.classify(ctx, "delete", "podeni")
	fault := w.gate(a, ev, child)
	w.mu.Lock()
	defer w.mu.Unlock()
	k := o.Name
	if a == nil || (ev != "pDeleteRec" && ev != "eDeleteRec") {
		w.anomaly("record delete by " + ev)
		return errors.New("unexpected")
	}
	if fault {
		a.sawErr = true
		w.emit(k, fmt.Sprintf("pe.%s %s err", ev, k), "")
		return apierrors.NewInternalError(errors.New("injected"))
	}
	cur := w.rawRec(k)
	if cur == nil {
		w.emit(k, fmt.Sprintf("pe.%s %s stale", ev, k), "")
		return apierrors.NewNotFound(schema.GroupResource{Group: "network.alibabacloud.com", Resource: "podenis"}, k)
	}
	if ev == "pDeleteRec" {
		w.monFixedDeleted(cur, "the pod controller deleted the record")
	}
	if cur.DeletionTimestamp.IsZero() {
		if err := c.Client.Delete(ctx, cur); err != nil {
			w.anomaly("raw delete: " + err.Error())
		}
		w.ver[k] = w.nextVer[k]
		w.nextVer[k]++
		if w.rawRec(k) == nil {
			w.anomaly("record had no finalizer")
		}
	}
	w.emit(k, fmt.Sprintf("pe.%s %s ok", ev, k), "")
	return nil
}

// write is the common path of Update and Status().Update (both carry the version that was read).
func (c *ewClient) write(ctx context.Context, o *networkv1beta1.PodENI, statusWrite bool) error {
	w := c.w
	verb := "update"
	if statusWrite {
		verb = "status"
	}
	a, ev, child := w.classify(ctx, verb, "podeni")
	fault := w.gate(a, ev, child)
	w.mu.Lock()
	defer w.mu.Unlock()
	k := o.Name
	if a == nil || ev == "" {
		w.anomaly("record " + verb + " by an unknown caller")
		return errors.New("unexpected")
	}
	if k == "" {
		// podDelete after a failed record lookup writes an empty object: the API server refuses it
		return apierrors.NewBadRequest("name is required")
	}
	ver, _ := strconv.Atoi(o.ResourceVersion)
	line := w.writeLine(ev, k, ver, o)
	if line == "" {
		w.anomaly("record write classified as " + ev)
		return errors.New("unexpected")
	}
	if fault {
		a.sawErr = true
		w.gClose(ev, k)
		w.emit(k, line+" err", "")
		return apierrors.NewInternalError(errors.New("injected"))
	}
	cur := w.rawRec(k)
	if cur == nil || w.ver[k] != ver {
		a.sawErr = true
		w.gClose(ev, k)
		w.emit(k, line+" stale", "")
		if cur == nil {
			return apierrors.NewNotFound(schema.GroupResource{Group: "network.alibabacloud.com", Resource: "podenis"}, k)
		}
		return apierrors.NewConflict(schema.GroupResource{Group: "network.alibabacloud.com", Resource: "podenis"}, k, errors.New("the object has been modified"))
	}
	oldPhase := cur.Status.Phase
	o.ResourceVersion = cur.ResourceVersion
	var err error
	if statusWrite {
		err = c.Client.Status().Update(ctx, o)
	} else {
		err = c.Client.Update(ctx, o)
	}
	if err != nil {
		w.anomaly("raw " + verb + ": " + err.Error())
		return err
	}
	w.ver[k] = w.nextVer[k]
	w.nextVer[k]++
	o.ResourceVersion = strconv.Itoa(w.ver[k])
	now := w.rawRec(k)
	if now == nil {
		// the finalizer went: the record is gone
		delete(w.orig, k)
		delete(w.ver, k)
	} else {
		if statusWrite {
			w.noteLastSeen(a, k, o.Status.PodLastSeen)
			w.monPhase(a, k, oldPhase, now.Status.Phase, now)
			if ev == "eStatusBind" {
				w.monBind(k, now)
				if now.Spec.HaveFixedIP() {
					w.obsV[k] = w.now // the controller looked the pod up to bind: an observation, whatever it writes
				}
			}
		}
	}
	w.gClose(ev, k)
	w.emit(k, line+" ok", "")
	return nil
}

func (c *ewClient) Update(ctx context.Context, obj client.Object, opts ...client.UpdateOption) error {
	if o, ok := obj.(*networkv1beta1.PodENI); ok {
		return c.write(ctx, o, false)
	}
	return c.Client.Update(ctx, obj, opts...)
}

func (s *ewStatus) Update(ctx context.Context, obj client.Object, opts ...client.SubResourceUpdateOption) error {
	if o, ok := obj.(*networkv1beta1.PodENI); ok {
		return s.c.write(ctx, o, true)
	}
	return s.c.Client.Status().Update(ctx, obj, opts...)
}

func (s *ewStatus) Create(ctx context.Context, obj client.Object, sub client.Object, opts ...client.SubResourceCreateOption) error {
	return s.c.Client.Status().Create(ctx, obj, sub, opts...)
}

// patch is the common path of Patch and Status().Patch: no version check.
func (c *ewClient) patch(ctx context.Context, o *networkv1beta1.PodENI, p client.Patch, statusWrite bool) error {
	w := c.w
	verb := "patch"
	if statusWrite {
		verb = "statuspatch"
	}
	a, ev, child := w.classify(ctx, verb, "podeni")
	fault := w.gate(a, ev, child)
	if ev == "gTouch" {
		fault = false // C11 does not quantify over API errors: the lastSeen touch is never failed
	}
	w.mu.Lock()
	defer w.mu.Unlock()
	k := o.Name
	if a != nil && ev != "pPatchLabel" && ev != "gTouch" {
		// a patch where the controllers use a versioned write: it is that write without its version check (the
		// model, which expects the check, disagrees as soon as the version it carries is stale)
		verbW := "update"
		if statusWrite {
			verbW = "status"
		}
		if _, evW, _ := w.classifyAs(ctx, verbW, "podeni"); evW != "" {
			return c.patchAsWrite(ctx, a, evW, o, p, statusWrite, fault)
		}
	}
	if a == nil || (ev != "pPatchLabel" && ev != "gTouch") {
		w.anomaly("record patch by " + ev)
		return errors.New("unexpected")
	}
	if fault {
		a.sawErr = true
		w.gClose(ev, k)
		w.emit(k, fmt.Sprintf("pe.%s %s err", ev, k), "")
		return apierrors.NewInternalError(errors.New("injected"))
	}
	cur := w.rawRec(k)
	if cur == nil {
		w.gClose(ev, k)
		w.emit(k, fmt.Sprintf("pe.%s %s stale", ev, k), "")
		return apierrors.NewNotFound(schema.GroupResource{Group: "network.alibabacloud.com", Resource: "podenis"}, k)
	}
	data, _ := p.Data(o)
	var err error
	if statusWrite {
		err = c.Client.Status().Patch(ctx, o, p)
	} else {
		err = c.Client.Patch(ctx, o, p)
	}
	if err != nil {
		w.anomaly("raw " + verb + ": " + err.Error())
		return err
	}
	w.ver[k] = w.nextVer[k]
	w.nextVer[k]++
	o.ResourceVersion = strconv.Itoa(w.ver[k])
	if statusWrite {
		var m map[string]any
		_ = json.Unmarshal(data, &m)
		if st, ok := m["status"].(map[string]any); ok {
			if _, ok := st["podLastSeen"]; ok {
				w.lsV[k] = w.now
			}
			if _, ok := st["phase"]; ok {
				w.anomaly("a status patch changed the phase")
			}
		}
	}
	w.gClose(ev, k)
	w.emit(k, fmt.Sprintf("pe.%s %s ok", ev, k), "")
	return nil
}

// writeLine is the protocol line of a versioned record write ("" if ev is none).
func (w *ewWorld) writeLine(ev, k string, ver int, o *networkv1beta1.PodENI) string {
	switch ev {
	case "pStatus":
		return fmt.Sprintf("pe.pStatus %s %d %s", k, ver, ewPhaseTok(o.Status.Phase))
	case "pSetUid":
		return fmt.Sprintf("pe.pSetUid %s %d %d", k, ver, ewParseUID(o.Annotations[terwayTypes.PodUID]))
	case "eStatusUnbind":
		return fmt.Sprintf("pe.eStatusUnbind %s %d", k, ver)
	case "eStatusBind":
		return fmt.Sprintf("pe.eStatusBind %s %d %d", k, ver, ewParseInst(o.Status.InstanceID))
	case "eFinalize":
		return fmt.Sprintf("pe.eFinalize %s %d", k, ver)
	case "gReap":
		return fmt.Sprintf("pe.gReap %s %d", k, ver)
	}
	return ""
}

// patchAsWrite (w.mu held): see patch.
func (c *ewClient) patchAsWrite(ctx context.Context, a *ewActor, ev string, o *networkv1beta1.PodENI, p client.Patch, statusWrite bool, fault bool) error {
	w := c.w
	k := o.Name
	ver, _ := strconv.Atoi(o.ResourceVersion)
	line := w.writeLine(ev, k, ver, o)
	if line == "" {
		w.anomaly("record patch classified as " + ev)
		return errors.New("unexpected")
	}
	if fault {
		a.sawErr = true
		w.gClose(ev, k)
		w.emit(k, line+" err", "")
		return apierrors.NewInternalError(errors.New("injected"))
	}
	cur := w.rawRec(k)
	if cur == nil {
		w.gClose(ev, k)
		w.emit(k, line+" stale", "")
		return apierrors.NewNotFound(schema.GroupResource{Group: "network.alibabacloud.com", Resource: "podenis"}, k)
	}
	oldPhase := cur.Status.Phase
	var err error
	if statusWrite {
		err = c.Client.Status().Patch(ctx, o, p)
	} else {
		err = c.Client.Patch(ctx, o, p)
	}
	if err != nil {
		w.anomaly("raw patch: " + err.Error())
		return err
	}
	w.ver[k] = w.nextVer[k]
	w.nextVer[k]++
	o.ResourceVersion = strconv.Itoa(w.ver[k])
	if now := w.rawRec(k); now != nil && statusWrite {
		w.noteLastSeen(a, k, now.Status.PodLastSeen)
		w.monPhase(a, k, oldPhase, now.Status.Phase, now)
		if ev == "eStatusBind" {
			w.monBind(k, now)
		}
	}
	w.gClose(ev, k)
	w.emit(k, line+" ok", "")
	return nil
}

func (c *ewClient) Patch(ctx context.Context, obj client.Object, p client.Patch, opts ...client.PatchOption) error {
	if o, ok := obj.(*networkv1beta1.PodENI); ok {
		return c.patch(ctx, o, p, false)
	}
	return c.Client.Patch(ctx, obj, p, opts...)
}

func (s *ewStatus) Patch(ctx context.Context, obj client.Object, p client.Patch, opts ...client.SubResourcePatchOption) error {
	if o, ok := obj.(*networkv1beta1.PodENI); ok {
		return s.c.patch(ctx, o, p, true)
	}
	return s.c.Client.Status().Patch(ctx, obj, p, opts...)
}

// ---------- world ----------

type ewSpec struct {
	useENI, hostNet, ignored bool
	owner                    string // "", "StatefulSet", "ReplicaSet"
	allocs                   []ewAllocSpec
	nodes                    []int // nodes its incarnations may land on
}
type ewAllocSpec struct {
	fixed    bool
	strategy string // "", "Never", "TTL"
	after    string
	tok      string // E, N, T<d>, X
}

type ewWorld struct {
	mu    sync.Mutex
	c     *Ctx
	r     *Rng
	raw   client.WithWatch
	cl    *ewClient
	cloud *ewCloud
	podR  *podctl.ReconcilePod
	eniR  *podeni.ReconcilePodENI
	now   int64
	sched chan ewMsg
	names []string
	spec  map[string]*ewSpec

	ver, nextVer, nextUID map[string]int
	lsV, obsV             map[string]int64
	orig                  map[string][]networkv1beta1.Allocation
	lines                 []Line
	live                  map[string]*ewActor

	gCur     string
	gNodeErr bool
	gSeenPod *corev1.Pod
	gSeen    string // what G saw for gCur: "", "absent", "present-req", "present-noreq"
	gOpen    map[string]bool
	gSnap    map[string]*networkv1beta1.PodENI
	lOpen    map[string]bool
	lRefs    map[int]bool

	profile   int
	faultMu   sync.Mutex
	faulted   map[string]bool
	leakedOK  map[int]bool // interfaces a faulted roll-back was allowed to leave behind
	anomalies []string
}

var ewNodes = []struct {
	name                 string
	exclusive, vk, ignor bool
}{{"n0", false, false, false}, {"n1", false, false, false}, {"n2", true, false, false}, {"n3", false, true, false}}

type ewNoRecorder struct{}

func (ewNoRecorder) Event(object k8sruntime.Object, eventtype, reason, message string) {}
func (ewNoRecorder) Eventf(object k8sruntime.Object, eventtype, reason, messageFmt string, args ...any) {
}
func (ewNoRecorder) AnnotatedEventf(object k8sruntime.Object, annotations map[string]string, eventtype, reason, messageFmt string, args ...any) {
}

var ewCfgOnce sync.Once

func newEWorld(c *Ctx, r *Rng) *ewWorld {
	ewCfgOnce.Do(func() {
		f := false
		controlplane.SetConfig(&controlplane.Config{ClusterID: ewCluster, VPCID: "vpc-1", IPStack: "ipv4", EnableTrunk: &f})
	})
	w := &ewWorld{c: c, r: r, sched: make(chan ewMsg), spec: map[string]*ewSpec{},
		ver: map[string]int{}, nextVer: map[string]int{}, nextUID: map[string]int{}, lsV: map[string]int64{}, obsV: map[string]int64{},
		orig: map[string][]networkv1beta1.Allocation{}, live: map[string]*ewActor{}, gOpen: map[string]bool{}, gSnap: map[string]*networkv1beta1.PodENI{},
		lOpen: map[string]bool{}, lRefs: map[int]bool{}, leakedOK: map[int]bool{}, faulted: map[string]bool{}}
	b := fake.NewClientBuilder().WithScheme(terwayTypes.Scheme).WithStatusSubresource(&networkv1beta1.PodENI{})
	for i, n := range ewNodes {
		node := &corev1.Node{ObjectMeta: metav1.ObjectMeta{Name: n.name, Labels: map[string]string{
			corev1.LabelTopologyRegion: "cn-x", corev1.LabelTopologyZone: "zone-a", corev1.LabelInstanceTypeStable: "ecs.g7.large"}},
			Spec: corev1.NodeSpec{ProviderID: "cn-x." + ewInst(i)}}
		if n.exclusive {
			node.Labels[terwayTypes.ExclusiveENIModeLabel] = string(terwayTypes.ExclusiveENIOnly)
		}
		if n.vk {
			node.Labels["type"] = "virtual-kubelet"
		}
		b = b.WithObjects(node)
	}
	w.raw = b.Build()
	w.cl = &ewClient{Client: w.raw, w: w}
	w.cloud = &ewCloud{w: w, enis: map[int]*ewENI{}, gone: map[int]string{}}
	sp, _ := vswitch.NewSwitchPool(100, "10m")
	w.podR = podctl.VerifNewReconcilePod(w.cl, w.cloud, sp, ewNoRecorder{}, false, false)
	w.eniR = podeni.VerifNewReconcilePodENI(w.cl, w.cloud, ewNoRecorder{}, status.NewCache[status.NodeStatus](), false, false)
	return w
}

func (w *ewWorld) anomaly(s string) {
	if len(w.anomalies) < 20 {
		w.anomalies = append(w.anomalies, s)
	}
}

func (w *ewWorld) allNames() []string { return append(append([]string(nil), w.names...), "kf") }

func ewNats(l []int) string {
	if len(l) == 0 {
		return "-"
	}
	s := append([]int(nil), l...)
	sort.Ints(s)
	var p []string
	for _, x := range s {
		p = append(p, strconv.Itoa(x))
	}
	return strings.Join(p, "+")
}

// ewStratTok is the release behaviour of one allocation as the record states it.
func ewStratTok(al networkv1beta1.Allocation) string {
	if al.AllocationType.Type != networkv1beta1.IPAllocTypeFixed {
		return "E"
	}
	switch al.AllocationType.ReleaseStrategy {
	case networkv1beta1.ReleaseStrategyNever:
		return "N"
	case networkv1beta1.ReleaseStrategyTTL:
		d, err := time.ParseDuration(al.AllocationType.ReleaseAfter)
		if err != nil || d < 0 || d%time.Second != 0 {
			return "X"
		}
		return fmt.Sprintf("T%d", int64(d/time.Second))
	}
	return "X"
}

func ewAllocToks(als []networkv1beta1.Allocation, sep string) string {
	if len(als) == 0 {
		return "-"
	}
	type it struct {
		id  int
		tok string
	}
	var l []it
	for _, al := range als {
		l = append(l, it{ewParseEni(al.ENI.ID), ewStratTok(al)})
	}
	sort.Slice(l, func(i, j int) bool { return l[i].id < l[j].id })
	var p []string
	for _, x := range l {
		p = append(p, fmt.Sprintf("%d%s%s", x.id, sep, x.tok))
	}
	return strings.Join(p, "+")
}

func ewPhaseTok(p networkv1beta1.Phase) string {
	switch p {
	case networkv1beta1.ENIPhaseInitial:
		return "I"
	case networkv1beta1.ENIPhaseBind:
		return "B"
	case networkv1beta1.ENIPhaseBinding:
		return "Bg"
	case networkv1beta1.ENIPhaseUnbind:
		return "U"
	case networkv1beta1.ENIPhaseDetaching:
		return "Dt"
	case networkv1beta1.ENIPhaseDeleting:
		return "Dl"
	}
	return "?" + string(p)
}

func ewUID(k string, n int) string { return fmt.Sprintf("%s-u%d", k, n) }
func ewParseUID(s string) int {
	i := strings.LastIndex(s, "-u")
	if i < 0 {
		return -1
	}
	n, err := strconv.Atoi(s[i+2:])
	if err != nil {
		return -1
	}
	return n
}

func (w *ewWorld) rawRec(k string) *networkv1beta1.PodENI {
	o := &networkv1beta1.PodENI{}
	if err := w.raw.Get(context.Background(), k8stypes.NamespacedName{Namespace: ewNS, Name: k}, o); err != nil {
		return nil
	}
	return o
}
func (w *ewWorld) rawPod(k string) *corev1.Pod {
	o := &corev1.Pod{}
	if err := w.raw.Get(context.Background(), k8stypes.NamespacedName{Namespace: ewNS, Name: k}, o); err != nil {
		return nil
	}
	return o
}

// present rewrites what a controller sees of a record: the harness version and the virtual lastSeen
// relative to the wall clock.
func (w *ewWorld) present(a *ewActor, o *networkv1beta1.PodENI) {
	k := o.Name
	o.ResourceVersion = strconv.Itoa(w.ver[k])
	if ls, ok := w.lsV[k]; ok && ls >= 0 {
		// 3 s older than it is: a timestamp the code sets to "now" can then never equal one it was shown, so a
		// changed timestamp is always visible as a change (all TTL margins are 35 s)
		o.Status.PodLastSeen = metav1.NewTime(time.Now().Add(-time.Duration(w.now-ls+3) * time.Second).Truncate(time.Second))
	} else {
		o.Status.PodLastSeen = metav1.Time{}
	}
	if a != nil {
		if a.shownLS == nil {
			a.shownLS = map[string]int64{}
		}
		if o.Status.PodLastSeen.IsZero() {
			a.shownLS[k] = 0
		} else {
			a.shownLS[k] = o.Status.PodLastSeen.Unix()
		}
	}
}

// noteLastSeen: a status write that carries another timestamp than the one this actor was shown set it (to now).
func (w *ewWorld) noteLastSeen(a *ewActor, k string, t metav1.Time) {
	var v int64
	if !t.IsZero() {
		v = t.Unix()
	}
	if a.shownLS != nil {
		if shown, ok := a.shownLS[k]; ok && shown == v {
			return
		}
	}
	if v == 0 {
		w.lsV[k] = -1
		return
	}
	if d := time.Now().Unix() - v; d < -2 || d > 2 {
		w.anomaly(fmt.Sprintf("lastSeen written %d s away from now", d))
	}
	w.lsV[k] = w.now
	if a.kind == "E" {
		w.obsV[k] = w.now
	}
}

func (w *ewWorld) recView(k string) string {
	o := w.rawRec(k)
	if o == nil {
		return "absent"
	}
	inst := "-"
	if o.Status.InstanceID != "" {
		inst = strconv.Itoa(ewParseInst(o.Status.InstanceID))
	}
	ls := "-"
	if v, ok := w.lsV[k]; ok && v >= 0 {
		ls = strconv.FormatInt(v, 10)
	}
	return fmt.Sprintf("v%d:%s:u%d:d%s:%s:i%s:ls%s", w.ver[k], ewPhaseTok(o.Status.Phase), ewParseUID(o.Annotations[terwayTypes.PodUID]),
		b01(!o.DeletionTimestamp.IsZero()), ewAllocToks(o.Spec.Allocations, ""), inst, ls)
}

func (w *ewWorld) cloudView(k string) string {
	var p []string
	for _, id := range w.cloud.sortedIDs() {
		e := w.cloud.enis[id]
		if e.owner != k {
			continue
		}
		att := "-"
		if e.att >= 0 {
			att = strconv.Itoa(e.att)
		}
		p = append(p, fmt.Sprintf("e%d:%s", id, att))
	}
	if len(p) == 0 {
		return "-"
	}
	return strings.Join(p, ",")
}

// emit records one protocol line with the implementation's view after it (w.mu held).
func (w *ewWorld) emit(k, op, extra string) {
	w.lines = append(w.lines, Line{Op: op, Impl: "ok | " + w.recView(k) + " | " + w.cloudView(k) + extra})
	w.c.Count("ev:" + strings.TrimPrefix(strings.SplitN(op, " ", 2)[0], "pe."))
}

// ---------- call classification ----------

// label is the innermost function of the two controller packages on the caller's stack.
func ewLabel() (fn string, child bool) {
	pcs := make([]uintptr, 40)
	n := runtime.Callers(3, pcs)
	frames := runtime.CallersFrames(pcs[:n])
	for {
		f, more := frames.Next()
		name := f.Function
		if i := strings.Index(name, "pkg/controller/pod."); i >= 0 && fn == "" {
			fn = name[i+len("pkg/controller/pod."):]
		} else if i := strings.Index(name, "pkg/controller/pod-eni."); i >= 0 && fn == "" {
			fn = name[i+len("pkg/controller/pod-eni."):]
		}
		if strings.Contains(name, ".createENI.func") || strings.Contains(name, ".attachENI.func") {
			child = true
		}
		if !more {
			break
		}
	}
	if i := strings.Index(fn, ")."); i >= 0 {
		fn = fn[i+2:]
	}
	if strings.HasPrefix(fn, "zz_verif") || strings.HasPrefix(fn, "Verif") {
		fn = ""
	}
	return
}

// classify maps (actor, controller function, verb, kind) to the protocol event; "" = not modelled (aux).
func (w *ewWorld) classify(ctx context.Context, verb, kind string) (*ewActor, string, bool) {
	a := ewActorOf(ctx)
	if a == nil {
		return nil, "", false
	}
	fn, child := ewLabel()
	base := fn
	if i := strings.Index(base, ".func"); i >= 0 {
		base = base[:i]
	}
	closure := base != fn
	ev := ""
	switch a.kind {
	case "P":
		switch {
		case verb == "get" && kind == "pod" && base == "Reconcile":
			ev = "pGetPod"
		case verb == "get" && kind == "podeni" && (base == "podDelete" || base == "podCreate") && !closure:
			ev = "pGetRec"
		case verb == "status" && (base == "podDelete" || base == "podCreate" || base == "reConfig"):
			ev = "pStatus"
		case verb == "update" && base == "reConfig":
			ev = "pSetUid"
		case verb == "patch" && base == "reConfig":
			ev = "pPatchLabel"
		case verb == "delete" && base == "podCreate":
			ev = "pDeleteRec"
		case verb == "create" && base == "podCreate":
			ev = "pCreateRec"
		case verb == "cloud.create":
			ev = "pCloudCreate"
		case verb == "cloud.delete" && base == "deleteAllENI":
			ev = "pCloudDelete"
		}
	case "E":
		switch {
		case verb == "get" && kind == "podeni" && base == "Reconcile":
			ev = "eGetRec"
		case verb == "get" && kind == "pod" && base == "podENICreate" && !closure:
			ev = "eGetPod"
		case verb == "get" && kind == "node" && base == "getNode":
			ev = "eGetNode"
		case verb == "delete" && base == "podENICreate":
			ev = "eDeleteRec"
		case verb == "status" && base == "podENICreate":
			ev = "eStatusBind"
		case verb == "status" && base == "detach":
			ev = "eStatusUnbind"
		case verb == "update" && base == "podENIDelete":
			ev = "eFinalize"
		case verb == "cloud.describe" && base == "detachMemberENI":
			ev = "eDescribe"
		case verb == "cloud.detach" && base == "detachMemberENI":
			ev = "eDetach"
		case verb == "cloud.wait":
			ev = "eWait"
		case verb == "cloud.delete" && base == "deleteMemberENI":
			ev = "eCloudDelete"
		case verb == "cloud.attach":
			ev = "eAttach"
		}
	case "G":
		switch {
		case verb == "list" && base == "gcCRPodENIs":
			ev = "gList"
		case verb == "get" && kind == "pod" && base == "gcCRPodENIs":
			ev = "gGetPod"
		case verb == "get" && kind == "node":
			ev = "gGetNode"
		case verb == "statuspatch" && base == "gcCRPodENIs":
			ev = "gTouch"
		case verb == "status" && base == "gcCRPodENIs":
			ev = "gReap"
		}
	case "L":
		switch {
		case verb == "cloud.describe" && (base == "gcSecondaryENI" || base == "gcMemberENI"):
			ev = "lDescribe"
		case verb == "list" && base == "gcENIs":
			ev = "lList"
		case verb == "cloud.delete" && base == "gcENIs":
			ev = "lDelete"
		case verb == "cloud.detach" && base == "gcENIs":
			ev = "lDetach"
		}
	}
	return a, ev, child
}

// classifyAs is classify for a caller one frame deeper (used to ask "what would this call be as another verb").
func (w *ewWorld) classifyAs(ctx context.Context, verb, kind string) (*ewActor, string, bool) {
	return w.classify(ctx, verb, kind)
}

// gate parks a modelled call of an actor's main line until the scheduler releases it; calls of the
// parallel workers of createENI / attachENI run through unless this one was chosen as the pause point.
func (w *ewWorld) gate(a *ewActor, ev string, child bool) (fault bool) {
	if a == nil || ev == "" {
		return false
	}
	if child {
		idx := int(atomic.AddInt32(&a.childIdx, 1) - 1)
		fault = a.dir.childFault[idx]
		if a.dir.pauseChild != idx {
			if fault {
				w.noteFault(a)
			}
			return fault
		}
		a.parkedKid = true
		a.parkedAt = ev
		w.sched <- ewMsg{a: a}
		d := <-a.resume
		a.parkedKid = false
		if fault || d.fault {
			w.noteFault(a)
		}
		return fault || d.fault
	}
	a.parkedAt = ev
	w.sched <- ewMsg{a: a}
	d := <-a.resume
	a.dir = d
	atomic.StoreInt32(&a.childIdx, 0)
	if d.fault {
		w.noteFault(a)
	}
	return d.fault
}

// noteFault: an API / cloud error was injected into a call of this actor (C11's liveness clause is only judged
// for names whose history has none: C11 does not quantify over faults).
func (w *ewWorld) noteFault(a *ewActor) {
	w.faultMu.Lock()
	if a.name != "" {
		w.faulted[a.name] = true
	} else {
		w.faulted["*"] = true
	}
	w.faultMu.Unlock()
}

// ---------- pod reads ----------

func (w *ewWorld) needsG(p *corev1.Pod) bool {
	if p.Spec.HostNetwork || terwayTypes.IgnoredByTerway(p.Labels) {
		return false
	}
	if terwayTypes.PodUseENI(p) {
		return true
	}
	if p.Spec.NodeName == "" {
		return true // not scheduled yet: whatever it will need, its record must be kept
	}
	for _, n := range ewNodes {
		if n.name == p.Spec.NodeName {
			return !n.ignor && !n.vk && n.exclusive
		}
	}
	return false
}

func ewExited(p *corev1.Pod) bool {
	return p.Status.Phase == corev1.PodSucceeded || p.Status.Phase == corev1.PodFailed
}

func (w *ewWorld) getPod(ctx context.Context, a *ewActor, ev, k string, o *corev1.Pod, fault bool) error {
	if fault {
		a.sawErr = true
		switch ev {
		case "gGetPod":
			w.gBegin(k)
			w.emit(k, fmt.Sprintf("pe.gGetPod %s err", k), "")
			delete(w.gOpen, k)
			w.gCur = ""
		default:
			w.emit(k, fmt.Sprintf("pe.%s %s err", ev, k), "")
		}
		return apierrors.NewInternalError(errors.New("injected"))
	}
	err := w.raw.Get(ctx, k8stypes.NamespacedName{Namespace: ewNS, Name: k}, o)
	switch ev {
	case "gGetPod":
		w.gBegin(k)
		if err != nil {
			w.gSeen = "absent"
			w.emit(k, fmt.Sprintf("pe.gGetPod %s absent", k), "")
		} else {
			ex, needs := ewExited(o), w.needsG(o)
			w.gSeen = "present-noreq"
			if !ex && needs {
				w.gSeen = "present-req"
				w.gObserve()
			}
			w.gSeenPod = o.DeepCopy()
			w.emit(k, fmt.Sprintf("pe.gGetPod %s present:%d:%s:%s", k, ewParseUID(string(o.UID)), b01(ex), b01(needs)), "")
		}
	default:
		switch {
		case err != nil:
			w.emit(k, fmt.Sprintf("pe.%s %s absent", ev, k), "")
		case ewExited(o):
			w.emit(k, fmt.Sprintf("pe.%s %s exited", ev, k), "")
		case !o.DeletionTimestamp.IsZero():
			w.emit(k, fmt.Sprintf("pe.%s %s term", ev, k), "")
		default:
			w.emit(k, fmt.Sprintf("pe.%s %s live:%d:%s", ev, k, ewParseUID(string(o.UID)), b01(w.needsG(o))), "")
		}
	}
	return err
}

// ---------- collector bookkeeping ----------

// gBegin: the record collector starts on record k (its pod lookup); whatever it was doing before is over.
func (w *ewWorld) gBegin(k string) {
	if w.gCur != "" && w.gCur != k && w.gOpen[w.gCur] {
		w.emit(w.gCur, fmt.Sprintf("pe.gEnd %s", w.gCur), "")
		delete(w.gOpen, w.gCur)
	}
	w.gCur, w.gNodeErr, w.gSeen, w.gSeenPod = k, false, "", nil
}

func (w *ewWorld) gObserve() {
	k := w.gCur
	if snap := w.gSnap[k]; snap != nil && snap.Spec.HaveFixedIP() {
		w.obsV[k] = w.now
	}
}

func (w *ewWorld) gClose(ev, k string) {
	if ev == "gTouch" || ev == "gReap" {
		delete(w.gOpen, k)
	}
}

func (w *ewWorld) gEndAll() {
	var ks []string
	for k := range w.gOpen {
		ks = append(ks, k)
	}
	sort.Strings(ks)
	for _, k := range ks {
		w.emit(k, fmt.Sprintf("pe.gEnd %s", k), "")
		delete(w.gOpen, k)
	}
	w.gCur = ""
}

func (w *ewWorld) lEndAll() {
	for _, k := range w.allNames() {
		if w.lOpen[k] {
			w.emit(k, fmt.Sprintf("pe.lEnd %s", k), "")
			delete(w.lOpen, k)
		}
	}
}
