package main

import (
	"strconv"
	"strings"
	"sync"
)

// C01, C06 and C07 share the pool world (pworld*.go); each keeps the monitor violations of its own
// property.  Cases run in parallel (each world has its own pool, cloud and scheduler; most of a case's
// wall time is the factory worker's 300 ms batching pause).
func init() {
	for _, id := range []string{"C01", "C06", "C07"} {
		id := id
		register(&Prop{ID: id,
			Run: func(c *Ctx) {
				runPoolWorlds(c, id, nil)
				if id == "C07" {
					// below the pool: the real factory over the real OpenAPI wrappers and metadata client (c07factory.go)
					faRun(c, c.Scale(40, 400))
					// … whose create call is repeated by the pool after an error that hid its effect: unless the cloud recognises the repeat as
					// the same request it creates a second interface nobody tracks - the client-token discipline of the OpenAPI wrappers
					// (C16's generator, model and monitors)
					c16Run(c)
				}
				if id == "C06" {
					// the per-interface limit the pool is started with: limits -> checkInstance / getPoolConfig (c19.go)
					c06ConfigRun(c, c.Scale(400, 8000))
					// which of the interfaces found attached at start-up the pool is told are the trunk / RDMA ones (c07factory.go)
					faAttachedRun(c, c.Scale(80, 800))
				}
				if id == "C01" {
					// exclusivity across a daemon restart (the pool is rebuilt from the stored records by Local.load): the
					// daemon world of C05 with its restart / crash ops; its double-allocation and lost-binding monitors count
					// for C01 under their own names
					// … and the request the daemon builds for a repeated ADD (the stored address and interface it pins the pool to):
					// the same world without restarts (C04's mix of repeated ADDs and DELs), its "repeated ADD got another address" monitor
					for _, focus := range []string{"C05", "C04"} {
						sub := &Ctx{Tier: c.Tier, Seed: c.Seed, R: c.R, Dist: c.Dist, Extra: c.Extra, Replay: c.Replay}
						runDaemonWorld(sub, focus, nil)
						c.Cases = append(c.Cases, sub.Cases...)
						for _, v := range sub.Viol {
							if k, ok := c01DaemonKeys[v.Key]; ok {
								c.Violate(k, v.What, v.Lines...)
							}
						}
					}
				}
			},
			Exec2: func(c *Ctx, ops []string) ([]string, []string) {
				if len(ops) > 0 && strings.HasPrefix(ops[0], "fa.") {
					return ops, faExec(c, ops)
				}
				if len(ops) > 0 && strings.HasPrefix(ops[0], "tok.") {
					return ops, c16Exec(c, ops)
				}
				if len(ops) > 0 && strings.HasPrefix(ops[0], "cap.") {
					return ops, pureExec(c19Exec)(c, ops)
				}
				if len(ops) > 0 && strings.HasPrefix(ops[0], "dm.") {
					sub := &Ctx{Tier: c.Tier, Seed: c.Seed, R: c.R, Dist: c.Dist, Extra: c.Extra, Replay: c.Replay}
					l, o := runDaemonWorld(sub, "C05", ops)
					for _, v := range sub.Viol {
						if k, ok := c01DaemonKeys[v.Key]; ok {
							c.Violate(k, v.What, v.Lines...)
						}
					}
					return l, o
				}
				return runPoolWorlds(c, id, ops)
			},
		})
	}
}

// the daemon world's monitors that are about C01 (one address, one pod; a repeated ADD gets the address the pod holds)
var c01DaemonKeys = map[string]string{
	"C05/double-allocation":               "C01/daemon/double-allocation",
	"C05/restart/binding-lost":            "C01/daemon/restart/binding-lost",
	"C05/restart/two-records-one-address": "C01/daemon/restart/two-records-one-address",
	"C04/repeat-add/different-address":    "C01/daemon/repeat-add/different-address",
}

func runPoolWorlds(c *Ctx, focus string, replay []string) (lines, outs []string) {
	dwQuiet()
	var seeds []uint64
	if replay != nil {
		// a recorded case cannot be re-executed line by line (the schedule is the goroutines'); its case
		// seed regenerates the same operation choices, which is retried until a monitor fires
		for _, op := range replay {
			if strings.HasPrefix(op, "pl.case ") {
				s, _ := strconv.ParseUint(strings.TrimPrefix(op, "pl.case "), 10, 64)
				for k := 0; k < 24; k++ {
					seeds = append(seeds, s)
				}
			}
		}
	} else {
		n := c.Scale(120, 900)
		if c.Extra["pool_cases"] != nil {
			n = c.Extra["pool_cases"].(int)
		}
		for i := 0; i < n; i++ {
			seeds = append(seeds, c.R.U64())
		}
	}
	var mu sync.Mutex
	sem := make(chan struct{}, 24)
	var wg sync.WaitGroup
	found := false
	for _, s := range seeds {
		mu.Lock()
		stop := replay != nil && found
		mu.Unlock()
		if stop {
			break
		}
		wg.Add(1)
		sem <- struct{}{}
		go func(seed uint64) {
			defer wg.Done()
			defer func() { <-sem }()
			sub := &Ctx{Tier: c.Tier, Seed: seed, R: NewRng(seed), Dist: map[string]int{}, Extra: map[string]any{}}
			w := newPWorld(sub, sub.R)
			w.runCase(seed, focus)
			mu.Lock()
			defer mu.Unlock()
			for k, v := range sub.Dist {
				c.Dist[k] += v
			}
			for _, v := range sub.Viol {
				if strings.HasPrefix(v.Key, focus+"/") {
					c.Violate(v.Key, v.What, v.Lines...)
					found = true
				} else {
					c.Dist["other-property-violations-seen"]++
				}
			}
			if replay == nil {
				c.Cases = append(c.Cases, sub.Cases...)
			} else if len(sub.Cases) > 0 && (lines == nil || len(sub.Viol) > 0) {
				lines, outs = nil, nil
				for _, l := range sub.Cases[0].Lines {
					lines, outs = append(lines, l.Op), append(outs, l.Impl)
				}
			}
		}(s)
		if replay != nil {
			wg.Wait()
		}
	}
	wg.Wait()
	return
}

// poolSlice runs a smaller batch of pool-world cases inside another family's check (C04: a failed ADD hands back what it took
// also where requests wait for the cloud; C09: the release step GC and DEL share).  The pool world's monitors of `from` count
// under the keys in remap.
func poolSlice(c *Ctx, from string, n int, remap map[string]string) {
	sub := &Ctx{Tier: c.Tier, Seed: c.Seed, R: c.R, Dist: c.Dist, Extra: map[string]any{"pool_cases": n}, Replay: c.Replay}
	runPoolWorlds(sub, from, nil)
	c.Cases = append(c.Cases, sub.Cases...)
	for _, v := range sub.Viol {
		if k, ok := remap[v.Key]; ok {
			c.Violate(k, v.What, v.Lines...)
		}
	}
}
