package main

import (
	"context"
	"fmt"
	"strconv"
	"strings"
	"sync"
	"time"

	"github.com/aliyun/alibaba-cloud-sdk-go/services/vpc"
	testingclock "k8s.io/utils/clock/testing"

	"github.com/AliyunContainerService/terway/pkg/vswitch"
)

func init() {
	register(&Prop{ID: "C17", Run: func(c *Ctx) {
		c17Run(c)
		// how an exhaustion gets to the pool: the factory's create path over the real pool and the real wrappers (c07factory.go)
		faExhaustRun(c, c.Scale(30, 300))
	}, Exec: func(c *Ctx, ops []string) []string {
		if len(ops) > 0 && strings.HasPrefix(ops[0], "fa.") {
			return faExec(c, ops)
		}
		return c17ExecRecorded(c, ops)
	}, Corpus: [][]string{
		{"vsw.new 10", "vsw.cloud a z 3", "vsw.cloud b z 9", "vsw.cloud c y 50", "vsw.one ordered z 0 a,b,c", "vsw.one most z 0 a,b,c",
			"vsw.get b", "vsw.block b", "vsw.one most z 0 a,b,c", "vsw.tick 10", "vsw.one most z 0 a,b,c", "vsw.tick 1", "vsw.one most z 0 a,b,c"},
		{"vsw.new 10", "vsw.cloud a z 0", "vsw.cloud c y 5", "vsw.one ordered z 0 a,c", "vsw.one ordered z 1 a,c", "vsw.one ordered q 1 c,a"},
		{"vsw.new 10", "vsw.cloud a z 3", "vsw.cloud b z 9", "vsw.cloud c z 9", "vsw.get a", "vsw.get b", "vsw.get c", "vsw.onerand z 0 a,b,c b"},
	}})
}

type fakeVPC struct {
	sw   map[string][2]string
	slow time.Duration // a describe call takes this long (concurrent look-ups share one call)
	mu   sync.Mutex
}

func (f *fakeVPC) DescribeVSwitchByID(ctx context.Context, id string) (*vpc.VSwitch, error) {
	if f.slow > 0 {
		time.Sleep(f.slow)
	}
	f.mu.Lock()
	defer f.mu.Unlock()
	v, ok := f.sw[id]
	if !ok {
		return nil, fmt.Errorf("not found %s", id)
	}
	n, _ := strconv.ParseInt(v[1], 10, 64)
	return &vpc.VSwitch{VSwitchId: id, ZoneId: v[0], AvailableIpAddressCount: n, CidrBlock: "10.0.0.0/24"}, nil
}

type c17State struct {
	pool    *vswitch.SwitchPool
	clock   *testingclock.FakeClock
	cloud   *fakeVPC
	ttl     int
	now     int
	held    []*vswitch.Switch // pointers handed out, with their value at hand-out time
	heldVal []vswitch.Switch
	blocked map[string]int // id -> expiry of the exhausted mark
}

func newC17(ttl int) *c17State {
	clk := testingclock.NewFakeClock(time.Unix(1_000_000, 0))
	return &c17State{pool: vswitch.VerifNewSwitchPoolWithClock(100, time.Duration(ttl)*time.Second, clk), clock: clk,
		cloud: &fakeVPC{sw: map[string][2]string{}}, ttl: ttl, blocked: map[string]int{}}
}

func (s *c17State) hold(sw *vswitch.Switch) {
	s.held = append(s.held, sw)
	s.heldVal = append(s.heldVal, *sw)
}

func c17Exec(c *Ctx, ops []string) []string {
	outs := make([]string, len(ops))
	s := newC17(600)
	ctx := context.Background()
	swStr := func(sw *vswitch.Switch) string { return fmt.Sprintf("%s %s %d", sw.ID, sw.Zone, sw.AvailableIPCount) }
	idsOf := func(x string) []string {
		if x == "-" {
			return nil
		}
		return strings.Split(x, ",")
	}
	idsStr := func(l []string) string {
		if len(l) == 0 {
			return "-"
		}
		return strings.Join(l, ",")
	}
	// view: what the pool answers for each candidate right after the call (lookups are stable across cache fills)
	check := func(op string, trace []string, policy, zone string, ign bool, ids []string, before []string, got *vswitch.Switch, err error) {
		if strings.Join(ids, ",") != strings.Join(before, ",") {
			c.Violate("C17/caller-slice/"+policy, fmt.Sprintf("GetOne(%s) changed the caller's candidate list from %v to %v", policy, before, ids), trace...)
		}
		if got == nil {
			return
		}
		found := false
		for _, id := range before {
			if id == got.ID {
				found = true
			}
		}
		if !found {
			c.Violate("C17/member", fmt.Sprintf("chosen vSwitch %s is not in the candidate list %v", got.ID, before), trace...)
		}
		if !ign && got.Zone != zone {
			c.Violate("C17/zone", fmt.Sprintf("chosen vSwitch %s lies in zone %s, requested %s without fallback", got.ID, got.Zone, zone), trace...)
		}
		if got.AvailableIPCount == 0 {
			c.Violate("C17/free", fmt.Sprintf("chosen vSwitch %s has no free addresses", got.ID), trace...)
		}
		// 'ordered' (and the default policy, which leaves the list as it is) picks the first eligible candidate: no earlier
		// candidate of the list is in the requested zone with free addresses.  Earlier candidates were looked up by GetOne
		// itself, so they are cached; a lookup with an empty cloud reads the cache without filling it.
		if (policy == "ordered" || policy == "default") && got.Zone == zone {
			for _, id := range before {
				if id == got.ID {
					break
				}
				if sw, err := s.pool.GetByID(context.Background(), &fakeVPC{sw: map[string][2]string{}}, id); err == nil && sw.Zone == zone && sw.AvailableIPCount > 0 {
					if exp, ok := s.blocked[id]; ok && s.now <= exp {
						continue
					}
					c.Violate("C17/ordered-first", fmt.Sprintf("policy %s chose %s although %s comes earlier in the list, lies in zone %s and has %d free addresses", policy, got.ID, id, zone, sw.AvailableIPCount), trace...)
				}
			}
		}
		if exp, ok := s.blocked[got.ID]; ok && s.now <= exp {
			c.Violate("C17/blocked", fmt.Sprintf("vSwitch %s chosen at t=%d although reported exhausted until t=%d", got.ID, s.now, exp), trace...)
		}
	}
	for i, op := range ops {
		trace := ops[:i+1]
		outs[i] = protect(func() string {
			f := strings.Fields(op)
			if len(f) == 0 {
				return "bad-op"
			}
			switch f[0] {
			case "vsw.new":
				n, err := strconv.Atoi(f[1])
				if err != nil {
					return "bad-op"
				}
				s = newC17(n)
				return "ok"
			case "vsw.cloud":
				s.cloud.sw[f[1]] = [2]string{f[2], f[3]}
				return "ok"
			case "vsw.cloudrm":
				delete(s.cloud.sw, f[1])
				return "ok"
			case "vsw.add":
				n, _ := strconv.ParseInt(f[3], 10, 64)
				s.pool.Add(&vswitch.Switch{ID: f[1], Zone: f[2], AvailableIPCount: n})
				delete(s.blocked, f[1])
				return "ok"
			case "vsw.tick":
				n, _ := strconv.Atoi(f[1])
				s.clock.Step(time.Duration(n) * time.Second)
				s.now += n
				return "ok"
			case "vsw.get":
				sw, err := s.pool.GetByID(ctx, s.cloud, f[1])
				if err != nil {
					return "err"
				}
				s.hold(sw)
				return swStr(sw)
			case "vsw.getpar":
				// n concurrent look-ups of one id: they share one describe call; afterwards the entry is cached like after a
				// single look-up (so that reporting the vSwitch exhausted takes effect)
				if len(f) != 3 {
					return "bad-op"
				}
				n, err := strconv.Atoi(f[2])
				if err != nil || n < 1 || n > 8 {
					return "bad-op"
				}
				_, wasCached := s.pool.GetByID(ctx, &fakeVPC{sw: map[string][2]string{}}, f[1])
				s.cloud.slow = 25 * time.Millisecond
				res := make([]string, n)
				var wg sync.WaitGroup
				for k := 0; k < n; k++ {
					wg.Add(1)
					go func(k int) {
						defer wg.Done()
						sw, err := s.pool.GetByID(ctx, s.cloud, f[1])
						if err != nil {
							res[k] = "err"
							return
						}
						res[k] = swStr(sw)
					}(k)
				}
				wg.Wait()
				s.cloud.slow = 0
				for _, x := range res[1:] {
					if x != res[0] {
						return "differ"
					}
				}
				if res[0] != "err" {
					if _, err := s.pool.GetByID(ctx, &fakeVPC{sw: map[string][2]string{}}, f[1]); err != nil {
						c.Violate("C17/cache/not-filled-after-shared-lookup", fmt.Sprintf("%d concurrent look-ups of %s succeeded (entry cached before: %v) but the entry is not cached afterwards: reporting it exhausted (Block) has no effect and it is chosen again", n, f[1], wasCached == nil), trace...)
					}
				}
				return res[0]
			case "vsw.block":
				// was the entry cached (only then Block has an effect)?  A lookup with an empty cloud tells.
				if _, err := s.pool.GetByID(ctx, &fakeVPC{sw: map[string][2]string{}}, f[1]); err == nil {
					s.blocked[f[1]] = s.now + s.ttl
				}
				s.pool.Block(f[1])
				return "ok"
			case "vsw.one", "vsw.onerand":
				var policy, zone, ignS, idS, observed string
				if f[0] == "vsw.one" {
					if len(f) != 5 {
						return "bad-op"
					}
					policy, zone, ignS, idS = f[1], f[2], f[3], f[4]
				} else {
					if len(f) != 5 {
						return "bad-op"
					}
					policy, zone, ignS, idS, observed = "random", f[1], f[2], f[3], f[4]
				}
				ids := idsOf(idS)
				before := append([]string(nil), ids...)
				opt := &vswitch.SelectOptions{IgnoreZone: ignS == "1"}
				switch policy {
				case "ordered":
					opt.VSwitchSelectPolicy = vswitch.VSwitchSelectionPolicyOrdered
				case "most":
					opt.VSwitchSelectPolicy = vswitch.VSwitchSelectionPolicyMost
				case "random":
					opt.VSwitchSelectPolicy = vswitch.VSwitchSelectionPolicyRandom
				case "default":
				default:
					return "bad-op"
				}
				got, err := s.pool.GetOne(ctx, s.cloud, zone, ids, opt)
				check(op, trace, policy, zone, ignS == "1", ids, before, got, err)
				res := "err"
				if err == nil && got != nil {
					res = got.ID
					s.hold(got)
				}
				if f[0] == "vsw.onerand" {
					// replay of a recorded random choice cannot force the shuffle: report acceptance of what happened now
					_ = observed
					return "accept " + idsStr(ids) + " #chosen=" + res
				}
				return res + " " + idsStr(ids)
			}
			return "bad-op"
		})
		// handed-out switches must never change under the caller
		for k, h := range s.held {
			if *h != s.heldVal[k] {
				c.Violate("C17/handed-out-mutated", fmt.Sprintf("a *Switch handed out earlier changed from %+v to %+v", s.heldVal[k], *h), trace...)
				s.heldVal[k] = *h
			}
		}
	}
	return outs
}

func c17Run(c *Ctx) {
	r := c.R
	zones := []string{"z", "y", "x"}
	allIDs := []string{"a", "b", "c", "d", "e", "f", "g"}
	for n := 0; n < c.Scale(500, 8000); n++ {
		ttl := Pick(r, []int{5, 10, 600})
		ops := []string{fmt.Sprintf("vsw.new %d", ttl)}
		known := allIDs[:2+r.Intn(len(allIDs)-1)]
		for _, id := range known {
			if r.Chance(85) {
				free := Pick(r, []int{0, 0, 1, 3, 9, 9, 50, r.Intn(100)})
				ops = append(ops, fmt.Sprintf("vsw.cloud %s %s %d", id, Pick(r, zones), free))
			}
		}
		sel, blocks := 0, 0
		// the state needed to emit validated random selections is obtained by running the prefix
		for k := 0; k < 3+r.Intn(c.Scale(12, 25)); k++ {
			switch x := r.Intn(100); {
			case x < 45:
				cnt := r.Intn(6)
				var ids []string
				for j := 0; j < cnt; j++ {
					ids = append(ids, Pick(r, known))
				}
				if r.Chance(10) {
					ids = append(ids, "unknown")
				}
				idS := "-"
				if len(ids) > 0 {
					idS = strings.Join(ids, ",")
				}
				pol := Pick(r, []string{"ordered", "most", "random", "default", "most", "ordered"})
				zone := Pick(r, zones)
				ign := r.Chance(35)
				if pol == "random" {
					for _, id := range ids {
						ops = append(ops, "vsw.get "+id)
					}
					pre := c17Exec(&Ctx{R: r, Dist: map[string]int{}}, append(append([]string(nil), ops...), fmt.Sprintf("vsw.one random %s %s %s", zone, b01(ign), idS)))
					chosen := strings.Fields(pre[len(pre)-1])[0]
					ops = append(ops, fmt.Sprintf("vsw.onerand %s %s %s %s", zone, b01(ign), idS, chosen))
				} else {
					ops = append(ops, fmt.Sprintf("vsw.one %s %s %s %s", pol, zone, b01(ign), idS))
				}
				sel++
				c.Count("select-" + pol)
			case x < 60:
				id := Pick(r, known)
				if r.Chance(70) {
					if r.Chance(25) {
						ops = append(ops, fmt.Sprintf("vsw.getpar %s %d", id, 2+r.Intn(3))) // concurrent selections look the same id up
						c.Count("concurrent-lookup")
					} else {
						ops = append(ops, "vsw.get "+id)
					}
				}
				ops = append(ops, "vsw.block "+id)
				blocks++
				c.Count("block")
				if r.Chance(30) {
					// the entry is read again shortly before it expires, then looked at shortly after: a read must not prolong
					// the exhausted mark (or a stale count)
					ops = append(ops, fmt.Sprintf("vsw.tick %d", ttl-1), "vsw.get "+id, fmt.Sprintf("vsw.tick %d", 1+r.Intn(2)),
						fmt.Sprintf("vsw.one %s %s 1 %s", Pick(r, []string{"ordered", "most"}), Pick(r, zones), id))
					sel++
					c.Count("read-before-expiry")
				}
			case x < 75:
				ops = append(ops, fmt.Sprintf("vsw.tick %d", Pick(r, []int{1, ttl - 1, ttl, ttl + 1, 2 * ttl})))
				c.Count("tick")
			case x < 85:
				ops = append(ops, fmt.Sprintf("vsw.cloud %s %s %d", Pick(r, known), Pick(r, zones), Pick(r, []int{0, 2, 7, 30})))
				c.Count("cloud-change")
			case x < 90:
				ops = append(ops, "vsw.cloudrm "+Pick(r, known))
			case x < 95:
				ops = append(ops, fmt.Sprintf("vsw.add %s %s %d", Pick(r, known), Pick(r, zones), r.Intn(20)))
			default:
				ops = append(ops, "vsw.get "+Pick(r, known))
			}
		}
		outs := c17ExecRecorded(c, ops)
		cs := Case{Nontrivial: sel > 0 && blocks > 0}
		for i := range ops {
			cs.Lines = append(cs.Lines, Line{ops[i], outs[i]})
		}
		c.Add(cs)
	}
}

// c17ExecRecorded runs a generated history; for recorded random selections the line's observed choice
// is what the implementation does in this very run (the shuffle is not reproducible), so the op line is
// rewritten to carry this run's choice before it goes to the model.
func c17ExecRecorded(c *Ctx, ops []string) []string {
	outs := c17Exec(c, ops)
	for i, op := range ops {
		if strings.HasPrefix(op, "vsw.onerand ") {
			f := strings.Fields(op)
			if j := strings.Index(outs[i], " #chosen="); j >= 0 {
				f[4] = outs[i][j+len(" #chosen="):]
				outs[i] = outs[i][:j]
			}
			ops[i] = strings.Join(f, " ")
		}
	}
	return outs
}
