package main

import (
	"context"
	"encoding/json"
	"fmt"
	"net"
	"strings"

	"github.com/containernetworking/plugins/pkg/ns"
	"github.com/containernetworking/plugins/pkg/testutils"
	"github.com/vishvananda/netlink"

	terwaydaemon "github.com/AliyunContainerService/terway/daemon"
	"github.com/AliyunContainerService/terway/pkg/link"
	"github.com/AliyunContainerService/terway/pkg/utils/nodecap"
	"github.com/AliyunContainerService/terway/plugin/datapath"
	dtypes "github.com/AliyunContainerService/terway/plugin/driver/types"
	"github.com/AliyunContainerService/terway/rpc"
	terwayTypes "github.com/AliyunContainerService/terway/types"
	daemonTypes "github.com/AliyunContainerService/terway/types/daemon"
)

// c13RuleSyncRun: the daemon's periodic rule sync (gcPods -> ruleSync) over a pod with one to three policy-route interfaces,
// against this kernel.  Each scenario has network namespaces of its own; the ENI is the loopback device of the "host"
// namespace - the only link this sandbox's kernel reports as *netlink.Device, which is what ruleSync looks for by MAC.  Every
// interface is set up by the REAL PolicyRoute.Setup (fib.setup, one model entry per interface), then the REAL ruleSync runs over
// the NetConf the daemon would have stored (fib.sync), and the rule dump and the route lookups are compared with the model
// before and after.  Kernel monitors: after the sync every address of the pod is still delivered to the host veth of the
// interface that owns it.
func c13RuleSyncRun(c *Ctx) {
	r := c.R
	ctx := context.Background()
	pr := datapath.NewPolicyRoute()
	external4 := net.ParseIP("8.8.8.8").To4()
	for sc := 0; sc < c.Scale(4, 24); sc++ {
		hostNS, err := testutils.NewNS()
		if err != nil {
			c.Extra["rulesync_env_error"] = err.Error()
			return
		}
		podNS, err := testutils.NewNS()
		if err != nil {
			_ = hostNS.Close()
			_ = testutils.UnmountNS(hostNS)
			c.Extra["rulesync_env_error"] = err.Error()
			return
		}
		var lines []Line
		add := func(op, impl string) { lines = append(lines, Line{op, impl}) }
		trace := func() []string {
			var t []string
			for _, l := range lines {
				t = append(t, l.Op+" => "+l.Impl)
			}
			return t
		}
		nIf := 1 + r.Intn(3)
		// one ENI has one subnet and one gateway; the other shape (a subnet per interface behind the same ENI) makes every assertion
		// of an interface replace the default route of the ENI's table - model and kernel must still agree
		oneSubnet := r.Chance(60)
		podName := fmt.Sprintf("multi-%d", sc)
		mac := fmt.Sprintf("02:00:00:00:%02x:01", sc)
		dpCap := Pick(r, []string{"veth", "datapathv2", ""})
		type ifc struct {
			name, veth string
			a4, gw4    net.IP
			vethIdx    int
		}
		var ifs []*ifc
		_ = hostNS.Do(func(_ ns.NetNS) error {
			sysctlW("/proc/sys/net/ipv4/ip_forward", "1")
			sysctlW("/proc/sys/net/ipv4/conf/all/rp_filter", "0")
			sysctlW("/proc/sys/net/ipv4/conf/default/rp_filter", "0")
			eni, err := netlink.LinkByName("lo")
			if err != nil {
				return err
			}
			if _, ok := eni.(*netlink.Device); !ok {
				c.Extra["rulesync_env_error"] = fmt.Sprintf("lo is %T", eni)
				return nil
			}
			hw, _ := net.ParseMAC(mac)
			if err := netlink.LinkSetHardwareAddr(eni, hw); err != nil {
				c.Extra["rulesync_env_error"] = "set mac: " + err.Error()
				return nil
			}
			_ = netlink.LinkSetUp(eni)
			add("fib.reset", "ok")
			var ids []string
			var netConf []*rpc.NetConf
			for k := 0; k < nIf; k++ {
				f := &ifc{name: fmt.Sprintf("eth%d", k), a4: net.IPv4(10, byte(sc), byte(k), byte(10+r.Intn(200))).To4(), gw4: net.IPv4(10, byte(sc), byte(k), 253).To4()}
				if oneSubnet {
					f.a4, f.gw4 = net.IPv4(10, byte(sc), 0, byte(10+60*k+r.Intn(50))).To4(), net.IPv4(10, byte(sc), 0, 253).To4()
				}
				f.veth, _ = link.VethNameForPod(podName, "default", f.name, "cali")
				cfg := &dtypes.SetupConfig{
					DP: dtypes.PolicyRoute, HostVETHName: f.veth, ContainerIfName: f.name, MTU: 1500, ENIIndex: eni.Attrs().Index,
					ContainerIPNet: &terwayTypes.IPNetSet{IPv4: &net.IPNet{IP: f.a4, Mask: net.CIDRMask(24, 32)}},
					GatewayIP:      &terwayTypes.IPSet{IPv4: f.gw4}, ENIGatewayIP: &terwayTypes.IPSet{}, DefaultRoute: k == 0, MultiNetwork: nIf > 1,
				}
				if err := pr.Setup(ctx, cfg, podNS); err != nil {
					add(fmt.Sprintf("# setup %s failed: %v", f.name, err), "#")
					c.Violate("C13/kernel/setup-error", fmt.Sprintf("PolicyRoute.Setup failed: %v", err), trace()...)
					return nil
				}
				hv, err := netlink.LinkByName(f.veth)
				if err != nil {
					return nil
				}
				f.vethIdx = hv.Attrs().Index
				sysctlW("/proc/sys/net/ipv4/conf/"+f.veth+"/rp_filter", "0")
				tok := strings.Join([]string{ipHex(f.a4) + "/24", "-", ipHex(f.gw4), "-", "-", "-", "-", "-", "0", b01(k == 0), b01(nIf > 1), "-", hexStr(f.name)}, ";")
				add(fmt.Sprintf("fib.setup %s %s %d %d", f.name, tok, f.vethIdx, eni.Attrs().Index), "ok")
				ids = append(ids, f.name)
				ifs = append(ifs, f)
				stored := f.name
				if k == 0 && r.Chance(50) {
					stored = "" // the default interface is stored without a name
				}
				netConf = append(netConf, &rpc.NetConf{IfName: stored, DefaultRoute: k == 0,
					BasicInfo: &rpc.BasicInfo{PodIP: &rpc.IPSet{IPv4: f.a4.String()}, PodCIDR: &rpc.IPSet{IPv4: (&net.IPNet{IP: f.a4.Mask(net.CIDRMask(24, 32)), Mask: net.CIDRMask(24, 32)}).String()},
						GatewayIP: &rpc.IPSet{IPv4: f.gw4.String()}},
					ENIInfo: &rpc.ENIInfo{MAC: mac}})
			}
			look := func(when string) {
				d, err := ruleDump()
				if err != nil {
					d = "error"
				}
				add("fib.rules", d)
				for k, f := range ifs {
					via := ifs[(k+1)%len(ifs)]
					got := routeGet(external4, f.a4, via.veth)
					add(fmt.Sprintf("fib.get 4 %s %s %d", ipHex(external4), ipHex(f.a4), via.vethIdx), got)
					if got != fmt.Sprintf("dev%d,g-", f.vethIdx) {
						c.Violate("C13/kernel/rule-sync/to-pod", fmt.Sprintf("%s: traffic for %s (pod interface %s) is routed to %s, the host veth of that interface is dev%d", when, f.a4, f.name, got, f.vethIdx), trace()...)
					}
					add(fmt.Sprintf("fib.get 4 %s %s %d", ipHex(f.a4), ipHex(external4), f.vethIdx), routeGet(f.a4, external4, f.veth))
				}
			}
			look("after setup")
			nodecap.SetNodeCapabilities(nodecap.NodeCapabilityDataPath, dpCap)
			b, _ := json.Marshal(netConf)
			passes := 1 + r.Intn(2)
			for i := 0; i < passes; i++ {
				err = terwaydaemon.VerifRuleSync(ctx, daemonTypes.PodResources{
					PodInfo: &daemonTypes.PodInfo{Name: podName, Namespace: "default", PodNetworkType: daemonTypes.PodNetworkTypeENIMultiIP}, NetConf: string(b)})
				res := "ok"
				if err != nil {
					res = "err"
				}
				add("fib.sync "+strings.Join(ids, " "), res)
				c.Count("kernel-rule-sync")
				c.Count(fmt.Sprintf("kernel-rule-sync-interfaces=%d", nIf))
				c.Count("kernel-rule-sync-one-subnet=" + b01(oneSubnet))
				look("after rule sync")
			}
			return nil
		})
		_ = podNS.Close()
		_ = testutils.UnmountNS(podNS)
		_ = hostNS.Close()
		_ = testutils.UnmountNS(hostNS)
		if len(lines) > 0 {
			c.Add(Case{Lines: lines, Nontrivial: nIf > 1, Note: "kernel"})
		}
	}
}
