package main

import (
	"encoding/hex"
	"fmt"
	"math/big"
	"net"
	"strconv"
	"strings"

	terwaydaemon "github.com/AliyunContainerService/terway/daemon"
	podENITypes "github.com/AliyunContainerService/terway/pkg/apis/network.alibabacloud.com/v1beta1"
	"github.com/AliyunContainerService/terway/pkg/eni"
	"github.com/AliyunContainerService/terway/rpc"
	"github.com/AliyunContainerService/terway/types"
	"github.com/AliyunContainerService/terway/types/daemon"
)

func init() {
	register(&Prop{ID: "C12", Run: c12Run, Exec: c12Exec, Corpus: [][]string{
		{"nc.default 65746831:0 65746830:0"}, {"nc.default 65746830:1 65746831:1"}, {"nc.default 65746831:1"}, {"nc.default -:0 65746831:1"},
		{"nc.remote - - 0a000005;0a000000/24;-;-;65746830;1;4:0a0a0000/16;eni-1;6d6163"},
		{"nc.remote - - 0a000005;0a000004/31;-;-;65746830;1;-;eni-1;6d6163"},
		{"nc.remote 747275 eni-1=7 0a000005;0a000000/24;-;-;65746830;1;-;eni-1;6d6163 0a000105;0a000100/24;-;-;65746831;0;-;eni-2;6d6163"},
		{"nc.dp v 0 0"}, {"nc.dp e 0 1"}, {"nc.dp m 1 1"}, {"nc.dp m 0 1"},
		{"nc.parse m 0 65746830 100 200 0 8000 0a000005;0a000000/24;0a0000fd;-;-;-;-;1;4:0a0a0000/16;-;0;0"},
	}})
}

func hexIPStr(h string) string {
	if h == "-" {
		return ""
	}
	n, _ := new(big.Int).SetString(h, 16)
	return net.IP(n.FillBytes(make([]byte, len(h)/2))).String()
}
func cidrTokStr(c string) string {
	switch c {
	case "-":
		return ""
	case "bad":
		return "not-a-cidr"
	}
	p := strings.SplitN(c, "/", 2)
	return hexIPStr(p[0]) + "/" + p[1]
}
func ipHexTok(s string, w int) string {
	if s == "" {
		return "-"
	}
	ip := net.ParseIP(s)
	if ip == nil {
		return "unparsable"
	}
	if w == 32 {
		if ip.To4() == nil {
			return "wrong-family"
		}
		return hex.EncodeToString(ip.To4())
	}
	return hex.EncodeToString(ip.To16())
}
func cidrHexTok(s string, w int) string {
	if s == "" {
		return "-"
	}
	ip, n, err := net.ParseCIDR(s)
	if err != nil {
		return "bad"
	}
	ones, _ := n.Mask.Size()
	return ipHexTok(ip.String(), w) + "/" + strconv.Itoa(ones)
}

func confTok(c *rpc.NetConf) string {
	bi := c.GetBasicInfo()
	var ex []string
	for _, r := range c.GetExtraRoutes() {
		ip, _, err := net.ParseCIDR(r.Dst)
		if err != nil {
			ex = append(ex, "4:bad")
			continue
		}
		if ip.To4() != nil {
			ex = append(ex, "4:"+cidrHexTok(r.Dst, 32))
		} else {
			ex = append(ex, "6:"+cidrHexTok(r.Dst, 128))
		}
	}
	exs := "-"
	if len(ex) > 0 {
		exs = strings.Join(ex, "+")
	}
	return strings.Join([]string{ipHexTok(bi.GetPodIP().GetIPv4(), 32), cidrHexTok(bi.GetPodCIDR().GetIPv4(), 32), ipHexTok(bi.GetGatewayIP().GetIPv4(), 32),
		ipHexTok(bi.GetPodIP().GetIPv6(), 128), cidrHexTok(bi.GetPodCIDR().GetIPv6(), 128), ipHexTok(bi.GetGatewayIP().GetIPv6(), 128),
		hexStr(c.IfName), b01(c.DefaultRoute), exs, hexStr(c.GetENIInfo().GetMAC()), b01(c.GetENIInfo().GetTrunk()), fmt.Sprint(c.GetENIInfo().GetVid())}, ";")
}

// c12Default runs the real defaultForNetConf and the "exactly one default route" monitor.
func c12Default(c *Ctx, op string, confs []*rpc.NetConf) string {
	before := make([]bool, len(confs))
	for i, x := range confs {
		before[i] = x.DefaultRoute
	}
	err := terwaydaemon.VerifDefaultForNetConf(confs)
	if err != nil {
		if strings.Contains(err.Error(), "dumplicated") {
			return "err:dup"
		}
		return "err:noif"
	}
	n, primary, flags := 0, false, ""
	for i, x := range confs {
		if x.DefaultRoute {
			n++
		}
		if x.IfName == "" || x.IfName == "eth0" {
			primary = true
		}
		if before[i] && !x.DefaultRoute {
			c.Violate("C12/default/cleared", "a default route flag set by the allocation was cleared", op)
		}
		flags += b01(x.DefaultRoute)
	}
	if len(confs) > 0 && n != 1 {
		c.Violate("C12/default/count", fmt.Sprintf("accepted a reply with %d default-route interfaces", n), op)
	}
	if len(confs) > 0 && !primary {
		c.Violate("C12/default/primary", "accepted a reply without the primary interface", op)
	}
	return "ok " + flags
}

func c12ExecLocal(c *Ctx, op string) string {
	f := strings.Fields(op)
	switch f[0] {
	case "nc.meta":
		return c12Meta(c, op)
	case "nc.crd":
		return c12CRD(c, op, f)
	case "nc.default":
		var confs []*rpc.NetConf
		for _, e := range f[1:] {
			p := strings.SplitN(e, ":", 2)
			if len(p) != 2 {
				return "bad-op"
			}
			confs = append(confs, &rpc.NetConf{IfName: unhexStr(p[0]), DefaultRoute: p[1] == "1"})
		}
		return c12Default(c, op, confs)
	case "nc.remote":
		if len(f) < 3 {
			return "bad-op"
		}
		trunk := daemon.ENI{}
		if f[1] != "-" {
			trunk = daemon.ENI{ID: "eni-trunk", MAC: unhexStr(f[1]), GatewayIP: types.IPSet{IPv4: net.ParseIP("10.255.0.253")}}
		}
		pe := podENITypes.PodENI{Status: podENITypes.PodENIStatus{ENIInfos: map[string]podENITypes.ENIInfo{}}}
		if f[2] != "-" {
			for _, kv := range strings.Split(f[2], ",") {
				p := strings.SplitN(kv, "=", 2)
				v, _ := strconv.Atoi(p[1])
				pe.Status.ENIInfos[p[0]] = podENITypes.ENIInfo{ID: p[0], Vid: v}
			}
		}
		type want struct{ ip4, c4, ip6, c6 string }
		var wants []want
		for _, a := range f[3:] {
			p := strings.Split(a, ";")
			if len(p) != 9 {
				return "bad-op"
			}
			al := podENITypes.Allocation{IPv4: hexIPStr(p[0]), IPv4CIDR: cidrTokStr(p[1]), IPv6: hexIPStr(p[2]), IPv6CIDR: cidrTokStr(p[3]),
				Interface: unhexStr(p[4]), DefaultRoute: p[5] == "1", ENI: podENITypes.ENI{ID: p[7], MAC: unhexStr(p[8])}}
			if p[6] != "-" {
				for _, r := range strings.Split(p[6], "+") {
					al.ExtraRoutes = append(al.ExtraRoutes, podENITypes.Route{Dst: cidrTokStr(r[2:])})
				}
			}
			pe.Spec.Allocations = append(pe.Spec.Allocations, al)
			wants = append(wants, want{p[0], p[1], p[2], p[3]})
		}
		confs := eni.VerifNewRemoteIPResource(trunk, pe).ToRPC()
		if confs == nil {
			if len(pe.Spec.Allocations) == 0 {
				return "empty"
			}
			return "nil"
		}
		// monitors: address inside the reported subnet, gateway = third-from-last, different from the pod address
		var toks []string
		for _, x := range confs {
			toks = append(toks, confTok(x))
			for _, fam := range []struct{ ip, cidr, gw string }{
				{x.BasicInfo.PodIP.IPv4, x.BasicInfo.PodCIDR.IPv4, x.BasicInfo.GatewayIP.IPv4},
				{x.BasicInfo.PodIP.IPv6, x.BasicInfo.PodCIDR.IPv6, x.BasicInfo.GatewayIP.IPv6}} {
				if fam.ip == "" {
					if fam.cidr != "" || fam.gw != "" {
						c.Violate("C12/remote/family-leak", "subnet/gateway reported for a family without an address", op)
					}
					continue
				}
				_, n, err := net.ParseCIDR(fam.cidr)
				gw := net.ParseIP(fam.gw)
				if err != nil || gw == nil {
					c.Violate("C12/remote/incomplete", fmt.Sprintf("configuration with address %s but subnet %q gateway %q", fam.ip, fam.cidr, fam.gw), op)
					continue
				}
				if !n.Contains(gw) {
					c.Violate("C12/remote/gw-outside", fmt.Sprintf("gateway %s outside the reported subnet %s", gw, n), op)
				}
				last := make(net.IP, len(n.IP))
				for i := range last {
					last[i] = n.IP[i] | ^n.Mask[i]
				}
				third := new(big.Int).Sub(new(big.Int).SetBytes(last), big.NewInt(2))
				gb := gw.To4()
				if gb == nil {
					gb = gw.To16()
				}
				if new(big.Int).SetBytes(gb).Cmp(third) != 0 {
					c.Violate("C12/remote/gw-not-reserved", fmt.Sprintf("gateway %s is not the reserved third-from-last address of %s", gw, n), op)
				}
				if gw.Equal(net.ParseIP(fam.ip)) {
					c.Violate("C12/remote/gw-equals-pod", fmt.Sprintf("gateway equals the pod address %s", fam.ip), op)
				}
			}
		}
		return strings.Join(toks, " ")
	}
	return "bad-op"
}

func c12ParseMonitor(c *Ctx, op, out string) {
	if out == "panic" {
		c.Violate("C12/parse/panic", "parseSetupConf panics on a daemon configuration", op)
		return
	}
	f := strings.Fields(op)
	conf := strings.Split(f[8], ";")
	if out == "err" {
		if conf[1] != "bad" && conf[4] != "bad" && !strings.Contains(conf[8], "bad") {
			c.Violate("C12/parse/rejected", "the plugin rejects a well-formed configuration", op)
		}
		return
	}
	kv := map[string]string{}
	for _, t := range strings.Fields(out) {
		p := strings.SplitN(t, "=", 2)
		if len(p) == 2 {
			kv[p[0]] = p[1]
		}
	}
	wantAddr := func(ip, cidr string) string {
		if ip == "-" || cidr == "-" || cidr == "bad" {
			return "-"
		}
		return ip + "/" + strings.SplitN(cidr, "/", 2)[1]
	}
	if kv["a4"] != wantAddr(conf[0], conf[1]) || kv["a6"] != wantAddr(conf[3], conf[4]) {
		c.Violate("C12/parse/address", fmt.Sprintf("plugin recovered %s %s from %s %s", kv["a4"], kv["a6"], wantAddr(conf[0], conf[1]), wantAddr(conf[3], conf[4])), op)
	}
	if kv["gw4"] != conf[2] || kv["gw6"] != conf[5] {
		c.Violate("C12/parse/gateway", "plugin recovered a different gateway", op)
	}
	if conf[8] != "-" {
		var want []string
		for _, r := range strings.Split(conf[8], "+") {
			gw := conf[5]
			if r[0] == '4' {
				gw = conf[2]
			}
			want = append(want, r+">"+gw)
		}
		if kv["routes"] != strings.Join(want, "+") {
			c.Violate("C12/parse/routes", fmt.Sprintf("extra routes %s, expected %s (each with its family's gateway)", kv["routes"], strings.Join(want, "+")), op)
		}
	}
	pi, _ := strconv.Atoi(f[4])
	pe, _ := strconv.Atoi(f[5])
	ri, _ := strconv.Atoi(f[6])
	re, _ := strconv.Atoi(f[7])
	wi, we := pi, pe
	if ri > 0 {
		wi = ri / 8
	}
	if re > 0 {
		we = re / 8
	}
	if kv["in"] != fmt.Sprint(wi) || kv["eg"] != fmt.Sprint(we) {
		c.Violate("C12/parse/limits", fmt.Sprintf("limits in=%s eg=%s, expected %d %d", kv["in"], kv["eg"], wi, we), op)
	}
	if kv["dr"] != conf[7] {
		c.Violate("C12/parse/default-route", "default-route flag not recovered", op)
	}
}

func c12Exec(c *Ctx, ops []string) []string {
	outs := make([]string, len(ops))
	var ext []string
	var extIdx []int
	for i, op := range ops {
		switch {
		case strings.HasPrefix(op, "nc.parse "), strings.HasPrefix(op, "nc.dp "):
			ext = append(ext, op)
			extIdx = append(extIdx, i)
		default:
			outs[i] = protect(func() string { return c12ExecLocal(c, op) })
		}
	}
	if len(ext) > 0 {
		res, err := runTestDriver("VERIF_TERWAYPLUGIN_TEST", ext, false)
		for k, i := range extIdx {
			if err != nil {
				outs[i] = "driver-error"
				c.Extra["plugin_driver_error"] = err.Error()
				continue
			}
			outs[i] = res[k]
			if strings.HasPrefix(ops[i], "nc.parse ") {
				c12ParseMonitor(c, ops[i], res[k])
			}
		}
	}
	return outs
}

func c12Run(c *Ctx) {
	r := c.R
	c12CRDRun(c, c.Scale(300, 5000))
	// local results from interfaces described by the instance metadata at start-up (c12meta.go)
	c12MetaRun(c, c.Scale(60, 600))
	var ops []string
	ifs := []string{"", "eth0", "eth1", "net1", "eth0", "eth2"}
	for i := 0; i < c.Scale(1500, 30000); i++ {
		n := r.Intn(6)
		var es []string
		for k := 0; k < n; k++ {
			dr := r.Chance(25)
			es = append(es, hexStr(Pick(r, ifs))+":"+b01(dr))
		}
		ops = append(ops, strings.TrimSpace("nc.default "+strings.Join(es, " ")))
		c.Count("default")
	}
	for _, t := range []string{"v", "e", "m"} {
		for _, s := range []string{"0", "1", "2", "3"} { // filter, vlan, key absent, some other string
			for _, tr := range []string{"0", "1"} {
				ops = append(ops, fmt.Sprintf("nc.dp %s %s %s", t, s, tr))
			}
		}
	}
	genCidr := func(w int) (string, string) { // (cidr token, pod ip hex) with the pod address not a reserved one
		switch x := r.Intn(100); {
		case x < 6:
			return "-", fmt.Sprintf("%0*x", w/4, 5)
		case x < 10:
			return "bad", fmt.Sprintf("%0*x", w/4, 5)
		}
		n := Pick(r, []int{w - 1, w - 2, w - 3, w - 4, w - 8, w - 8, w - 12, w - 16, w - 16})
		if r.Chance(4) {
			n = w
		}
		base := new(big.Int)
		if w == 32 {
			base.SetUint64(uint64(Pick(r, []uint32{0x0a000000, 0xc0a80000, 0xac100000, 0x00010000})) + uint64(r.Intn(200))<<8)
		} else {
			base.SetString("fd000000000000000000000000000000", 16)
			base.Add(base, new(big.Int).Lsh(big.NewInt(int64(r.Intn(1000))), 64))
		}
		host := new(big.Int).Lsh(big.NewInt(1), uint(w-n))
		base.AndNot(base, new(big.Int).Sub(host, big.NewInt(1)))
		// the cloud never hands out the reserved third-from-last address: keep the pod address away from it
		off := big.NewInt(0)
		if host.Cmp(big.NewInt(8)) >= 0 {
			off = big.NewInt(int64(1 + r.Intn(4)))
		}
		ip := new(big.Int).Add(base, off)
		return fmt.Sprintf("%0*x/%d", w/4, base, n), fmt.Sprintf("%0*x", w/4, ip)
	}
	for i := 0; i < c.Scale(1200, 25000); i++ {
		trunk := r.Chance(35)
		var allocs, vids []string
		na := 1 + r.Intn(4)
		if r.Chance(3) {
			na = 0
		}
		for k := 0; k < na; k++ {
			ip4, c4, ip6, c6 := "-", "-", "-", "-"
			fam := r.Intn(3)
			if fam != 1 {
				c4, ip4 = genCidr(32)
			}
			if fam != 0 {
				c6, ip6 = genCidr(128)
			}
			ex := "-"
			if r.Chance(35) {
				var xs []string
				for j := 0; j < 1+r.Intn(2); j++ {
					if r.Bool() {
						xs = append(xs, fmt.Sprintf("4:%08x/%d", 0x0a0a0000+r.Intn(4)<<16, 16))
					} else {
						xs = append(xs, fmt.Sprintf("6:fd0100000000000000000000%08x/%d", 0, 96))
					}
				}
				ex = strings.Join(xs, "+")
			}
			id := fmt.Sprintf("eni-%d", k)
			if trunk && r.Chance(92) {
				vids = append(vids, fmt.Sprintf("%s=%d", id, 1+r.Intn(4000)))
			}
			ifn := ""
			if k > 0 || r.Chance(50) {
				ifn = fmt.Sprintf("eth%d", k)
			}
			dr := (k == 0 && r.Chance(60)) || r.Chance(8)
			allocs = append(allocs, strings.Join([]string{ip4, c4, ip6, c6, hexStr(ifn), b01(dr), ex, id, hexStr("00:16:3e:00:00:0" + fmt.Sprint(k))}, ";"))
		}
		tm, vs := "-", "-"
		if trunk {
			tm = hexStr("00:16:3e:ff:ff:01")
			if len(vids) > 0 {
				vs = strings.Join(vids, ",")
			}
		}
		op := strings.TrimSpace(fmt.Sprintf("nc.remote %s %s %s", tm, vs, strings.Join(allocs, " ")))
		ops = append(ops, op)
		c.Count("remote")
		// the same allocation result goes on through defaultForNetConf and the plugin's parser (composition)
		out := protect(func() string { return c12ExecLocal(&Ctx{R: r, Dist: map[string]int{}}, op) })
		if out != "nil" && out != "empty" && out != "bad-op" && out != "panic" {
			var es []string
			for _, conf := range strings.Fields(out) {
				p := strings.Split(conf, ";")
				es = append(es, p[6]+":"+p[7])
				ops = append(ops, fmt.Sprintf("nc.parse %s %s %s %d %d %d %d %s", Pick(r, []string{"e", "m"}), Pick(r, []string{"0", "1", "1", "2", "2", "3"}), hexStr("eth0"),
					Pick(r, []int{0, 0, 1000, 1 << 20}), Pick(r, []int{0, 500, 1 << 22}), Pick(r, []int{0, 0, 7, 8000, 1 << 25}), Pick(r, []int{0, 0, 8, 123456}), conf))
				c.Count("parse")
			}
			ops = append(ops, "nc.default "+strings.Join(es, " "))
			c.Count("default-after-remote")
		} else {
			c.Count("remote-" + out)
		}
	}
	// malformed stream for the parser
	for i := 0; i < c.Scale(100, 2000); i++ {
		conf := strings.Join([]string{"0a000005", Pick(r, []string{"bad", "-", "0a000000/24"}), Pick(r, []string{"-", "0a0000fd"}), "-", Pick(r, []string{"-", "bad"}), "-",
			"-", "1", Pick(r, []string{"-", "4:0a0a0000/16", "6:fd010000000000000000000000000000/96"}), "-", b01(r.Bool()), "3"}, ";")
		ops = append(ops, fmt.Sprintf("nc.parse m %s %s 1 2 3 4 %s", Pick(r, []string{"0", "1", "2", "3"}), hexStr("eth0"), conf))
		c.Count("parse-malformed")
	}
	outs := c12Exec(c, ops)
	for i, op := range ops {
		nt := strings.HasPrefix(op, "nc.remote") && outs[i] != "nil" || strings.HasPrefix(op, "nc.parse") && outs[i] != "err" || strings.HasPrefix(op, "nc.default") && strings.Count(op, ":") >= 2
		c.One(op, outs[i], nt)
	}
}
