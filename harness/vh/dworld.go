package main

// The "daemon world": the REAL networkService (AllocIP / ReleaseIP / GetIPInfo / gcPods), the REAL
// eni.Manager + eni.Local pools, the REAL bolt-backed resource database opened by the builder's own
// InitResourceDB, and the REAL pkg/k8s adapter, over
//   - a fake API server (controller-runtime fake client + interceptors: per-pod gates, error
//     injection, server-side spec.nodeName field selection),
//   - a fake cloud (factory.Factory answering LoadNetworkInterface / GetAttachedNetworkInterface).
// It runs in a child process inside private mount+network namespaces with a tmpfs on
// /var/lib/cni/terway (the builder's database path is fixed).  Used by C04, C05 and C09.

import (
	"bytes"
	"context"
	"encoding/json"
	"errors"
	"fmt"
	"io"
	"net"
	"net/netip"
	"os"
	"path/filepath"
	"runtime"
	"sort"
	"strconv"
	"strings"
	"sync"
	"time"

	"github.com/boltdb/bolt"
	"github.com/go-logr/logr"
	corev1 "k8s.io/api/core/v1"
	apierrors "k8s.io/apimachinery/pkg/api/errors"
	metav1 "k8s.io/apimachinery/pkg/apis/meta/v1"
	"k8s.io/apimachinery/pkg/fields"
	k8stypes "k8s.io/apimachinery/pkg/types"
	"k8s.io/klog/v2"
	"sigs.k8s.io/controller-runtime/pkg/client"
	"sigs.k8s.io/controller-runtime/pkg/client/fake"
	"sigs.k8s.io/controller-runtime/pkg/client/interceptor"
	logf "sigs.k8s.io/controller-runtime/pkg/log"

	terwaydaemon "github.com/AliyunContainerService/terway/daemon"
	"github.com/AliyunContainerService/terway/pkg/eni"
	"github.com/AliyunContainerService/terway/pkg/k8s"
	"github.com/AliyunContainerService/terway/pkg/storage"
	"github.com/AliyunContainerService/terway/rpc"
	terwayTypes "github.com/AliyunContainerService/terway/types"
	"github.com/AliyunContainerService/terway/types/daemon"
)

const (
	dwNS      = "ns"
	dwNode    = "node-a"
	dwOther   = "node-b"
	dwDBPath  = "/var/lib/cni/terway/ResRelation.db"
	dwV6Base  = 1000000
	dwTimeout = 20 * time.Second
)

// ---------- address / name encoding ----------

func dwENIID(tok string) string { return "eni-" + strings.TrimPrefix(tok, "e") }
func dwENITok(id string) string { return "e" + strings.TrimPrefix(id, "eni-") }
func dwENIMAC(i int) string {
	if i == 1 {
		return "00:00:00:00:00:00" // the loopback device: the one "ENI" whose link exists in the private netns
	}
	return fmt.Sprintf("02:00:00:00:00:%02x", i)
}
func dwAddr(id int) netip.Addr {
	if id >= dwV6Base {
		n := id - dwV6Base
		return netip.MustParseAddr(fmt.Sprintf("fd00::%x:%x", n/100, n%100))
	}
	return netip.MustParseAddr(fmt.Sprintf("10.0.%d.%d", id/100, id%100))
}
func dwAddrID(s string) int {
	a, err := netip.ParseAddr(s)
	if err != nil {
		return -1
	}
	if a.Is4() {
		b := a.As4()
		return int(b[2])*100 + int(b[3])
	}
	b := a.As16()
	return dwV6Base + (int(b[12])<<8|int(b[13]))*100 + (int(b[14])<<8 | int(b[15]))
}

// ---------- fake cloud ----------

type dwCloud struct {
	mu         sync.Mutex
	enis       map[string][]int // eni token -> address ids (v4 and v6)
	order      []string
	unexpected []string
}

func (c *dwCloud) eniObj(tok string) *daemon.ENI {
	i, _ := strconv.Atoi(strings.TrimPrefix(tok, "e"))
	_, cidr4, _ := net.ParseCIDR(fmt.Sprintf("10.0.%d.0/24", i))
	_, cidr6, _ := net.ParseCIDR(fmt.Sprintf("fd00::%x:0/112", i))
	return &daemon.ENI{
		ID: dwENIID(tok), MAC: dwENIMAC(i),
		PrimaryIP:   terwayTypes.IPSet{IPv4: net.ParseIP(fmt.Sprintf("10.0.%d.1", i))},
		GatewayIP:   terwayTypes.IPSet{IPv4: net.ParseIP(fmt.Sprintf("10.0.%d.253", i)), IPv6: net.ParseIP(fmt.Sprintf("fd00::%x:fd", i))},
		VSwitchCIDR: terwayTypes.IPNetSet{IPv4: cidr4, IPv6: cidr6},
		VSwitchID:   "vsw-1",
	}
}
func (c *dwCloud) CreateNetworkInterface(ipv4, ipv6 int, eniType string) (*daemon.ENI, []netip.Addr, []netip.Addr, error) {
	c.note("CreateNetworkInterface")
	return nil, nil, nil, errors.New("unexpected cloud call")
}
func (c *dwCloud) AssignNIPv4(eniID string, count int, mac string) ([]netip.Addr, error) {
	c.note("AssignNIPv4")
	return nil, errors.New("unexpected cloud call")
}
func (c *dwCloud) AssignNIPv6(eniID string, count int, mac string) ([]netip.Addr, error) {
	c.note("AssignNIPv6")
	return nil, errors.New("unexpected cloud call")
}
func (c *dwCloud) UnAssignNIPv4(eniID string, ips []netip.Addr, mac string) error {
	c.note("UnAssignNIPv4")
	return errors.New("unexpected cloud call")
}
func (c *dwCloud) UnAssignNIPv6(eniID string, ips []netip.Addr, mac string) error {
	c.note("UnAssignNIPv6")
	return errors.New("unexpected cloud call")
}
func (c *dwCloud) DeleteNetworkInterface(eniID string) error {
	c.note("DeleteNetworkInterface")
	return errors.New("unexpected cloud call")
}
func (c *dwCloud) note(s string) {
	c.mu.Lock()
	c.unexpected = append(c.unexpected, s)
	c.mu.Unlock()
}
func (c *dwCloud) LoadNetworkInterface(mac string) ([]netip.Addr, []netip.Addr, error) {
	c.mu.Lock()
	defer c.mu.Unlock()
	for tok, ids := range c.enis {
		i, _ := strconv.Atoi(strings.TrimPrefix(tok, "e"))
		if dwENIMAC(i) != mac {
			continue
		}
		var v4, v6 []netip.Addr
		for _, id := range ids {
			if id >= dwV6Base {
				v6 = append(v6, dwAddr(id))
			} else {
				v4 = append(v4, dwAddr(id))
			}
		}
		return v4, v6, nil
	}
	return nil, nil, errors.New("eni not found")
}
func (c *dwCloud) GetAttachedNetworkInterface(preferTrunkID string) ([]*daemon.ENI, error) {
	c.mu.Lock()
	defer c.mu.Unlock()
	var r []*daemon.ENI
	for _, tok := range c.order {
		if _, ok := c.enis[tok]; ok {
			r = append(r, c.eniObj(tok))
		}
	}
	return r, nil
}
func (c *dwCloud) list() string {
	c.mu.Lock()
	defer c.mu.Unlock()
	var out []string
	for _, tok := range c.order {
		ids := append([]int(nil), c.enis[tok]...)
		sort.Ints(ids)
		for _, id := range ids {
			out = append(out, fmt.Sprintf("%s:%d", tok, id))
		}
	}
	if len(out) == 0 {
		return "-"
	}
	return strings.Join(out, ",")
}

// ---------- fake API server ----------

type dwAPI struct {
	mu     sync.Mutex
	cl     client.WithWatch
	gates  map[string]*dwGate // pod -> armed gate
	failOn map[string]bool    // pod -> Get fails with a server error
	failLs bool               // List fails
}
type dwGate struct {
	arrived chan struct{}
	open    chan struct{}
}

func newDwAPI() *dwAPI {
	a := &dwAPI{gates: map[string]*dwGate{}, failOn: map[string]bool{}}
	a.cl = fake.NewClientBuilder().WithScheme(terwayTypes.Scheme).WithInterceptorFuncs(interceptor.Funcs{
		Get: func(ctx context.Context, c client.WithWatch, key client.ObjectKey, obj client.Object, opts ...client.GetOption) error {
			if _, ok := obj.(*corev1.Pod); ok {
				a.mu.Lock()
				g := a.gates[key.Name]
				if g != nil {
					delete(a.gates, key.Name)
				}
				a.mu.Unlock()
				if g != nil {
					close(g.arrived)
					<-g.open
				}
				a.mu.Lock()
				fail := a.failOn[key.Name]
				a.mu.Unlock()
				if fail {
					return apierrors.NewInternalError(errors.New("injected"))
				}
			}
			return c.Get(ctx, key, obj, opts...)
		},
		List: func(ctx context.Context, c client.WithWatch, list client.ObjectList, opts ...client.ListOption) error {
			a.mu.Lock()
			fail := a.failLs
			a.mu.Unlock()
			if fail {
				return apierrors.NewInternalError(errors.New("injected"))
			}
			if err := c.List(ctx, list, opts...); err != nil {
				return err
			}
			// what the API server does with the raw field selector the adapter sends
			lo := &client.ListOptions{}
			lo.ApplyOptions(opts)
			if pl, ok := list.(*corev1.PodList); ok && lo.Raw != nil && lo.Raw.FieldSelector != "" {
				sel, err := fields.ParseSelector(lo.Raw.FieldSelector)
				if err != nil {
					return err
				}
				var keep []corev1.Pod
				for _, p := range pl.Items {
					if sel.Matches(fields.Set{"spec.nodeName": p.Spec.NodeName, "metadata.name": p.Name, "metadata.namespace": p.Namespace}) {
						keep = append(keep, p)
					}
				}
				pl.Items = keep
			}
			return nil
		},
	}).Build()
	return a
}

func (a *dwAPI) pod(name string) *corev1.Pod {
	p := &corev1.Pod{}
	if err := a.cl.Get(context.Background(), k8stypes.NamespacedName{Namespace: dwNS, Name: name}, p); err != nil {
		return nil
	}
	return p
}

// direct (un-intercepted) view for the harness: the interceptor only wraps calls through a.cl, so the
// harness temporarily sees gates/fails too; use rawPod for truth.
func (a *dwAPI) rawPod(name string) *corev1.Pod {
	a.mu.Lock()
	g, f := a.gates[name], a.failOn[name]
	delete(a.gates, name)
	delete(a.failOn, name)
	a.mu.Unlock()
	p := a.pod(name)
	a.mu.Lock()
	if g != nil {
		a.gates[name] = g
	}
	if f {
		a.failOn[name] = true
	}
	a.mu.Unlock()
	return p
}

// ---------- recording wrapper around the real adapter ----------

// dwRecK8s passes everything to the real pkg/k8s adapter and remembers what GetPod last answered per
// pod: that answer is an input of the daemon's decision (the model is given it), not something the
// harness predicts.
type dwRecK8s struct {
	k8s.Kubernetes
	mu   sync.Mutex
	last map[string]string
}

func (r *dwRecK8s) GetPod(ctx context.Context, namespace, name string, cache bool) (*daemon.PodInfo, error) {
	pi, err := r.Kubernetes.GetPod(ctx, namespace, name, cache)
	v := "E"
	switch {
	case err == nil:
		v = "F" + b01(pi.IPStickTime != 0)
	case apierrors.IsNotFound(err):
		v = "N"
	}
	r.mu.Lock()
	r.last[name] = v
	r.mu.Unlock()
	return pi, err
}

func (r *dwRecK8s) take(name string) string {
	r.mu.Lock()
	defer r.mu.Unlock()
	v, ok := r.last[name]
	delete(r.last, name)
	if !ok {
		return "-"
	}
	return v
}

// ---------- an observing network interface: which pod UID every Release is reported for ----------

type dwObserver struct {
	mu   sync.Mutex
	seen [][2]string // (podID, podUID)
}

func (o *dwObserver) Allocate(ctx context.Context, cni *daemon.CNI, request eni.ResourceRequest) (chan *eni.AllocResp, []eni.Trace) {
	return nil, []eni.Trace{{Condition: eni.ResourceTypeMismatch}}
}
func (o *dwObserver) Release(ctx context.Context, cni *daemon.CNI, request eni.NetworkResource) (bool, error) {
	o.mu.Lock()
	o.seen = append(o.seen, [2]string{cni.PodID, cni.PodUID})
	o.mu.Unlock()
	return false, nil // the next interface handles it (CRDV2 does the same)
}
func (o *dwObserver) Priority() int   { return 1 << 20 }
func (o *dwObserver) Dispose(int) int { return 0 }
func (o *dwObserver) Run(ctx context.Context, podResources []daemon.PodResources, wg *sync.WaitGroup) error {
	return nil
}
func (o *dwObserver) take() [][2]string {
	o.mu.Lock()
	defer o.mu.Unlock()
	r := o.seen
	o.seen = nil
	return r
}

// ---------- crash-injecting store wrapper ----------

type dwCrash struct{}

type dwStore struct {
	storage.Storage
	mu    sync.Mutex
	key   string // armed for this key
	wrote bool   // die after (true) or before (false) the write
	fired bool
}

func (s *dwStore) arm(key string, wrote bool) {
	s.mu.Lock()
	s.key, s.wrote, s.fired = key, wrote, false
	s.mu.Unlock()
}
func (s *dwStore) disarm() bool {
	s.mu.Lock()
	defer s.mu.Unlock()
	f := s.fired
	s.key, s.fired = "", false
	return f
}
func (s *dwStore) hit(key string) (bool, bool) {
	s.mu.Lock()
	defer s.mu.Unlock()
	if s.key != "" && s.key == key && !s.fired {
		s.fired = true
		return true, s.wrote
	}
	return false, false
}
func (s *dwStore) Put(key string, v interface{}) error {
	if hit, wrote := s.hit(key); hit {
		if wrote {
			_ = s.Storage.Put(key, v)
		}
		panic(dwCrash{})
	}
	return s.Storage.Put(key, v)
}
func (s *dwStore) Delete(key string) error {
	if hit, wrote := s.hit(key); hit {
		if wrote {
			_ = s.Storage.Delete(key)
		}
		panic(dwCrash{})
	}
	return s.Storage.Delete(key)
}

// ---------- the world ----------

type dwParked struct {
	kind, cid string
	done      chan dwReply
	gate      *dwGate
}
type dwReply struct {
	reply   string
	ips     []int
	crashed bool
}

type dWorld struct {
	crd, dual   bool
	api         *dwAPI
	k8s         *dwRecK8s
	podCache    storage.Storage
	cloud       *dwCloud
	db          *dwStore
	mgr         *eni.Manager
	svc         terwaydaemon.VerifService
	cancel      context.CancelFunc
	wg          *sync.WaitGroup
	parked      map[string]*dwParked
	order       []string // parked pods, newest first (the model's pending list)
	gcBlocked   chan error
	cached      map[string]bool // pods whose PodInfo the adapter has cached: value = stick
	hasCache    map[string]bool
	c           *Ctx
	focus       string
	lines       []string // the protocol lines of the current case (for violation replays)
	pendingViol [][2]string
	cancelDelay int
	obs         *dwObserver
	abort       bool // the case ends here (a recorded finding happened; later states are its consequences)
}

func dwQuiet() {
	logf.SetLogger(logr.Discard())
	klog.SetOutput(io.Discard)
	klog.LogToStderr(false)
}

// violate records a monitor violation; the replay lines are attached once the current op's own
// protocol line exists (flushViolations).
func (w *dWorld) violate(key, what string) {
	w.pendingViol = append(w.pendingViol, [2]string{key, what})
}

func (w *dWorld) flushViolations() {
	for _, v := range w.pendingViol {
		w.c.Violate(v[0], v[1], append([]string(nil), w.lines...)...)
	}
	w.pendingViol = nil
}

func (w *dWorld) close() {
	if w.cancel != nil {
		w.cancel()
		w.cancel = nil
	}
	if w.db != nil {
		_ = storage.VerifClose(w.db.Storage)
		w.db = nil
	}
}

// start builds the service from the on-disk database and the cloud's attached ENIs (what the builder does).
func (w *dWorld) start() error {
	inner, err := terwaydaemon.VerifInitResourceDB()
	if err != nil {
		return err
	}
	w.db = &dwStore{Storage: inner}
	attached, _ := w.cloud.GetAttachedNetworkInterface("")
	podRes, err := terwaydaemon.VerifLoadPodResources(w.db, attached)
	if err != nil {
		return err
	}
	w.obs = &dwObserver{}
	nis := []eni.NetworkInterface{w.obs}
	total := 0
	for _, ni := range attached {
		w.cloud.mu.Lock()
		n := 0
		for _, id := range w.cloud.enis[dwENITok(ni.ID)] {
			if id < dwV6Base {
				n++
			}
		}
		w.cloud.mu.Unlock()
		total += n
		// the pool is exactly full: no request ever has to go to the cloud
		nis = append(nis, eni.NewLocal(ni, "secondary", w.cloud, &daemon.PoolConfig{
			EnableIPv4: true, EnableIPv6: w.dual, MaxIPPerENI: n, BatchSize: 1, Capacity: total, MaxENI: len(attached),
		}))
	}
	w.mgr = eni.NewManager(0, 1<<20, total, 0, nis, daemon.EniSelectionPolicyMostIPs, nil)
	ctx, cancel := context.WithCancel(context.Background())
	w.cancel = cancel
	w.wg = &sync.WaitGroup{}
	if err := w.mgr.Run(ctx, w.wg, podRes); err != nil {
		return err
	}
	ipam := terwayTypes.IPAMType(terwayTypes.IPAMTypeDefault)
	if w.crd {
		ipam = terwayTypes.IPAMTypeCRD
	}
	w.svc = terwaydaemon.VerifNewNetworkService(daemon.ModeENIMultiIP, w.k8s, w.db, w.mgr, ipam, true, w.dual)
	return nil
}

// restart: snapshot the database file as a crash would leave it, drop the old process state, start again.
func (w *dWorld) restart() error {
	snap := dwDBPath + ".snap"
	if err := copyFile(dwDBPath, snap); err != nil {
		return err
	}
	w.close()
	if err := os.Rename(snap, dwDBPath); err != nil {
		return err
	}
	w.parked = map[string]*dwParked{}
	w.order = nil
	return w.start()
}

func copyFile(src, dst string) error {
	b, err := os.ReadFile(src)
	if err != nil {
		return err
	}
	return os.WriteFile(dst, b, 0o600)
}

// ---------- observation ----------

type dwRec struct {
	uid      string // not part of the compared state: the pod UID stored with the record
	cid, eni string
	ips      []int
	stick    bool
}
type dwEnt struct {
	eni   string
	ip    int
	owner string
	valid bool
}
type dwState struct {
	db   map[string]dwRec
	pool []dwEnt
}

func (w *dWorld) recOf(pr daemon.PodResources) (string, dwRec) {
	r := dwRec{}
	if pr.ContainerID != nil {
		r.cid = *pr.ContainerID
	}
	name := ""
	if pr.PodInfo != nil {
		name = pr.PodInfo.Name
		r.stick = pr.PodInfo.IPStickTime != 0
		r.uid = pr.PodInfo.PodUID
	}
	for _, it := range pr.Resources {
		if it.Type != daemon.ResourceTypeENIIP {
			continue
		}
		r.eni = dwENITok(it.ENIID)
		if it.IPv4 != "" {
			r.ips = append(r.ips, dwAddrID(it.IPv4))
		}
		if it.IPv6 != "" {
			r.ips = append(r.ips, dwAddrID(it.IPv6))
		}
	}
	return name, r
}

func (w *dWorld) observe() dwState {
	st := dwState{db: map[string]dwRec{}}
	objs, _ := w.db.List()
	for _, o := range objs {
		pr, ok := o.(daemon.PodResources)
		if !ok {
			continue
		}
		n, r := w.recOf(pr)
		st.db[n] = r
	}
	for _, s := range w.mgr.Status() {
		for _, u := range s.Usage {
			owner := strings.TrimPrefix(u[1], dwNS+"/")
			st.pool = append(st.pool, dwEnt{eni: dwENITok(s.NetworkInterfaceID), ip: dwAddrID(u[0]), owner: owner, valid: u[2] == "Valid"})
		}
	}
	sort.Slice(st.pool, func(i, j int) bool {
		if st.pool[i].eni != st.pool[j].eni {
			return st.pool[i].eni < st.pool[j].eni
		}
		return st.pool[i].ip < st.pool[j].ip
	})
	return st
}

func idsStr(ids []int) string {
	if len(ids) == 0 {
		return "-"
	}
	s := make([]string, len(ids))
	for i, v := range ids {
		s[i] = strconv.Itoa(v)
	}
	return strings.Join(s, "+")
}

func (w *dWorld) stateStr(st dwState) string {
	var names []string
	for n := range st.db {
		names = append(names, n)
	}
	sort.Strings(names)
	var db []string
	for _, n := range names {
		r := st.db[n]
		db = append(db, fmt.Sprintf("%s:%s:%s:%s:%s", n, orDash(r.cid), orDash(r.eni), idsStr(r.ips), b01(r.stick)))
	}
	var pool []string
	for _, e := range st.pool {
		v := ""
		if !e.valid {
			v = "!"
		}
		pool = append(pool, fmt.Sprintf("%s:%d=%s%s", e.eni, e.ip, orDash(e.owner), v))
	}
	pend := append([]string(nil), w.order...)
	return "db=" + joinOrDash(db) + " pool=" + joinOrDash(pool) + " pend=" + joinOrDash(pend)
}

func orDash(s string) string {
	if s == "" {
		return "-"
	}
	return s
}
func joinOrDash(s []string) string {
	if len(s) == 0 {
		return "-"
	}
	return strings.Join(s, ",")
}

func owned(st dwState, p string) map[string]bool {
	m := map[string]bool{}
	for _, e := range st.pool {
		if e.owner == p {
			m[fmt.Sprintf("%s:%d", e.eni, e.ip)] = true
		}
	}
	return m
}

// pickFrom: which entries served an ADD of p, read off the pool before/after.
func pickStr(ents []dwEnt) string {
	sort.Slice(ents, func(i, j int) bool { return ents[i].ip < ents[j].ip })
	var s []string
	for _, e := range ents {
		v := "1"
		if !e.valid {
			v = "0"
		}
		s = append(s, fmt.Sprintf("%s:%d:%s:%s", e.eni, e.ip, orDash(e.owner), v))
	}
	return joinOrDash(s)
}

// entriesBefore returns the pre-state entries with the given (eni, ip) keys.
func entriesBefore(pre dwState, eniTok string, ips []int) []dwEnt {
	var r []dwEnt
	for _, ip := range ips {
		for _, e := range pre.pool {
			if e.eni == eniTok && e.ip == ip {
				r = append(r, e)
			}
		}
	}
	return r
}

// ---------- truth about the API (independent of the adapter under test) ----------

func podSticky(pod *corev1.Pod) bool {
	for _, o := range pod.OwnerReferences {
		if strings.EqualFold(o.Kind, "StatefulSet") {
			return true
		}
	}
	return false
}

// gcView: pods live on this node (sandbox not exited), and for every other pod with a record whether it
// exists on this node according to the API server.
func (w *dWorld) gcView(st dwState) (string, string, map[string]string) {
	var live, ex []string
	cls := map[string]string{}
	var names []string
	for n := range st.db {
		names = append(names, n)
	}
	sort.Strings(names)
	for _, n := range names {
		pod := w.api.rawPod(n)
		onNode := pod != nil && pod.Spec.NodeName == dwNode
		exited := pod != nil && (pod.Status.Phase == corev1.PodFailed || pod.Status.Phase == corev1.PodSucceeded)
		w.api.mu.Lock()
		fail := w.api.failOn[n]
		w.api.mu.Unlock()
		switch {
		case onNode && !exited:
			live = append(live, n)
			cls[n] = "live"
		case fail:
			ex = append(ex, n+"=E")
			cls[n] = "apierr"
		case onNode:
			ex = append(ex, n+"=1")
			cls[n] = "exists"
		default:
			ex = append(ex, n+"=0")
			cls[n] = "absent"
		}
	}
	return joinOrDash(live), joinOrDash(ex), cls
}

// ---------- requests ----------

// call runs one RPC to its reply and then waits until the pool side of it is finished: Local.Allocate
// hands the result over in a goroutine of its own (Local.commit), which may still be running (or not yet
// scheduled) when AllocIP has already returned an error.
func (w *dWorld) call(kind, p, cid string, cancelled bool) dwReply {
	rep := w.call1(kind, p, cid, cancelled)
	if kind == "add" {
		w.settle()
	}
	return rep
}

func (w *dWorld) settle() {
	deadline := time.Now().Add(5 * time.Second)
	buf := make([]byte, 1<<20)
	for {
		n := runtime.Stack(buf, true)
		for n == len(buf) && len(buf) < 1<<28 {
			// the dump was cut off (goroutines pile up over a long run, the newest come last): a reply goroutine could hide
			// in the part that is missing
			buf = make([]byte, 2*len(buf))
			n = runtime.Stack(buf, true)
		}
		if !bytes.Contains(buf[:n], []byte("eni.(*Local).Allocate.func")) && !bytes.Contains(buf[:n], []byte("eni.(*Local).commit")) {
			return
		}
		if time.Now().After(deadline) {
			w.c.Count("settle-timeout")
			return
		}
		time.Sleep(20 * time.Microsecond)
	}
}

func (w *dWorld) call1(kind, p, cid string, cancelled bool) dwReply {
	ch := make(chan dwReply, 1)
	go func() {
		var rep dwReply
		defer func() {
			if r := recover(); r != nil {
				if _, ok := r.(dwCrash); ok {
					rep.crashed = true
					rep.reply = "crashed"
				} else {
					rep.reply = fmt.Sprintf("panic:%v", r)
				}
			}
			ch <- rep
		}()
		ctx, cancel := context.WithTimeout(context.Background(), dwTimeout)
		defer cancel()
		if cancelled {
			// the request's context ends while it is being served
			d := time.Duration(w.cancelDelay) * time.Microsecond
			go func() {
				time.Sleep(d)
				cancel()
			}()
		}
		switch kind {
		case "add":
			r, err := w.svc.AllocIP(ctx, &rpc.AllocIPRequest{K8SPodName: p, K8SPodNamespace: dwNS, K8SPodInfraContainerId: cid, Netns: "/proc/1/ns/net", IfName: "eth0"})
			rep = replyOf(err, func() []*rpc.NetConf { return r.NetConfs })
		case "del":
			_, err := w.svc.ReleaseIP(ctx, &rpc.ReleaseIPRequest{K8SPodName: p, K8SPodNamespace: dwNS, K8SPodInfraContainerId: cid})
			rep = replyOf(err, func() []*rpc.NetConf { return nil })
		case "get":
			r, err := w.svc.GetIPInfo(ctx, &rpc.GetInfoRequest{K8SPodName: p, K8SPodNamespace: dwNS, K8SPodInfraContainerId: cid})
			rep = replyOf(err, func() []*rpc.NetConf { return r.NetConfs })
		}
	}()
	select {
	case r := <-ch:
		return r
	case <-time.After(dwTimeout + 5*time.Second):
		return dwReply{reply: "hang"}
	}
}

func replyOf(err error, confs func() []*rpc.NetConf) dwReply {
	if err != nil {
		var te *terwayTypes.Error
		if errors.As(err, &te) && te.Code == terwayTypes.ErrPodIsProcessing {
			return dwReply{reply: "processing"}
		}
		return dwReply{reply: "err"}
	}
	var ids []int
	for _, c := range confs() {
		if c.BasicInfo != nil && c.BasicInfo.PodIP != nil {
			if c.BasicInfo.PodIP.IPv4 != "" {
				ids = append(ids, dwAddrID(c.BasicInfo.PodIP.IPv4))
			}
			if c.BasicInfo.PodIP.IPv6 != "" {
				ids = append(ids, dwAddrID(c.BasicInfo.PodIP.IPv6))
			}
		}
	}
	return dwReply{reply: "ok", ips: ids}
}

func (r dwReply) str() string {
	if r.reply == "ok" {
		return "ok " + idsStr(r.ips)
	}
	return r.reply
}

// diskRecords reads a copy of the database file with bolt directly (independent of pkg/storage).
func diskRecords() (map[string]daemon.PodResources, error) {
	tmp := filepath.Join(filepath.Dir(dwDBPath), "probe.db")
	if err := copyFile(dwDBPath, tmp); err != nil {
		return nil, err
	}
	defer os.Remove(tmp)
	db, err := bolt.Open(tmp, 0o600, &bolt.Options{Timeout: time.Second})
	if err != nil {
		return nil, err
	}
	defer db.Close()
	out := map[string]daemon.PodResources{}
	err = db.View(func(tx *bolt.Tx) error {
		b := tx.Bucket([]byte("relation"))
		if b == nil {
			return nil
		}
		return b.ForEach(func(k, v []byte) error {
			var pr daemon.PodResources
			if err := json.Unmarshal(v, &pr); err != nil {
				return err
			}
			out[string(k)] = pr
			return nil
		})
	})
	return out, err
}

// checkDisk: the on-disk records equal the in-memory mirror (durability of every acknowledged ADD/DEL).
func (w *dWorld) checkDisk(st dwState, when string) {
	disk, err := diskRecords()
	if err != nil {
		w.violate("C05/disk/unreadable", "database file unreadable: "+err.Error())
		return
	}
	got := map[string]dwRec{}
	for _, pr := range disk {
		n, r := w.recOf(pr)
		got[n] = r
	}
	if fmt.Sprint(sortedRecs(got)) != fmt.Sprint(sortedRecs(st.db)) {
		w.violate("C05/disk/differs-from-memory/"+when, fmt.Sprintf("on-disk records %v differ from the in-memory mirror %v after an acknowledged operation", sortedRecs(got), sortedRecs(st.db)))
	}
	w.c.Count("disk-checks")
}

func sortedRecs(m map[string]dwRec) []string {
	var s []string
	for n, r := range m {
		s = append(s, fmt.Sprintf("%s:%s:%s:%s:%s", n, r.cid, r.eni, idsStr(r.ips), b01(r.stick)))
	}
	sort.Strings(s)
	return s
}

// createPod etc.: API mutations
func (w *dWorld) apiCreate(p string, stick bool, node string) {
	if old := w.api.rawPod(p); old != nil {
		_ = w.api.cl.Delete(context.Background(), old)
	}
	pod := &corev1.Pod{ObjectMeta: metav1.ObjectMeta{Namespace: dwNS, Name: p, UID: k8stypes.UID("uid-" + p + "-" + strconv.Itoa(w.c.R.Intn(1<<30)))},
		Spec: corev1.PodSpec{NodeName: node}, Status: corev1.PodStatus{Phase: corev1.PodRunning}}
	if stick {
		pod.OwnerReferences = []metav1.OwnerReference{{Kind: "StatefulSet", Name: "sts", APIVersion: "apps/v1", UID: "u"}}
	}
	_ = w.api.cl.Create(context.Background(), pod)
}
