package main

import (
	"context"
	"encoding/json"
	"fmt"
	"os"
	"os/exec"
	"path/filepath"
	"sort"
	"strconv"
	"strings"
	"time"

	corev1 "k8s.io/api/core/v1"

	k8sad "github.com/AliyunContainerService/terway/pkg/k8s"
	"github.com/AliyunContainerService/terway/pkg/storage"
	terwayTypes "github.com/AliyunContainerService/terway/types"
	"github.com/AliyunContainerService/terway/types/daemon"
)

// exec runs one command (the tokens of a protocol line that are not observations) on the real
// service and returns the full protocol line and the implementation's canonical outcome.
func (w *dWorld) exec(cmd []string) (string, string) {
	line, out := w.exec1(cmd)
	w.lines = append(w.lines, line+" => "+out)
	w.flushViolations()
	return line, out
}

func (w *dWorld) exec1(cmd []string) (string, string) {
	if strings.HasPrefix(cmd[0], "#") {
		// harness-side events (API server, cloud, a GC attempt that must block): the model ignores them
		// (`dm.env …` prints `#`), but they are part of the replay
		l, o := w.exec2(cmd)
		return "dm.env " + strings.TrimPrefix(l, "#"), o
	}
	return w.exec2(cmd)
}

func (w *dWorld) exec2(cmd []string) (string, string) {
	switch cmd[0] {
	case "dm.init":
		return w.opInit(cmd)
	case "#api.create":
		w.apiCreate(cmd[1], cmd[2] == "1", cmd[3])
		return strings.Join(cmd, " "), "#"
	case "#api.delete":
		if p := w.api.rawPod(cmd[1]); p != nil {
			_ = w.api.cl.Delete(context.Background(), p)
		}
		return strings.Join(cmd, " "), "#"
	case "#api.phase":
		if p := w.api.rawPod(cmd[1]); p != nil {
			p.Status.Phase = corev1.PodPhase(cmd[2])
			// the phase lives in the status subresource: a plain Update would silently drop it
			_ = w.api.cl.Status().Update(context.Background(), p)
			if q := w.api.rawPod(cmd[1]); q == nil || string(q.Status.Phase) != cmd[2] {
				w.c.Violate(w.focus+"/harness/pod-phase-not-written", "the fake API server did not take the pod phase "+cmd[2])
			}
		}
		return strings.Join(cmd, " "), "#"
	case "#api.err":
		w.api.mu.Lock()
		if cmd[2] == "1" {
			w.api.failOn[cmd[1]] = true
		} else {
			delete(w.api.failOn, cmd[1])
		}
		w.api.mu.Unlock()
		return strings.Join(cmd, " "), "#"
	case "#api.forget":
		// the adapter's pod cache expires an entry (k8s.clean after its timeout)
		_ = w.podCache.Delete(dwNS + "/" + cmd[1])
		return strings.Join(cmd, " "), "#"
	case "#cloud.detach":
		w.cloud.mu.Lock()
		delete(w.cloud.enis, cmd[1])
		w.cloud.mu.Unlock()
		return strings.Join(cmd, " "), "#"
	case "dm.add", "dm.del", "dm.get", "dm.addc":
		return w.opRequest(cmd)
	case "dm.enter":
		return w.opEnter(cmd)
	case "dm.leave":
		return w.opLeave(cmd)
	case "#gcblocked":
		return w.opGCBlocked(cmd)
	case "dm.gc":
		return w.opGC(cmd)
	case "dm.restart":
		return w.opRestart(cmd)
	case "dm.crash":
		return w.opCrash(cmd)
	}
	return strings.Join(cmd, " "), "bad-op"
}

// dm.init <crd> <dual> <layout e1:3;e2:2>
func (w *dWorld) opInit(cmd []string) (string, string) {
	w.close()
	_ = os.Remove(dwDBPath)
	w.crd, w.dual = cmd[1] == "1", cmd[2] == "1"
	w.api = newDwAPI()
	w.podCache = storage.NewMemoryStorage()
	svc := &terwayTypes.IPNetSet{}
	svc.SetIPNet("172.16.0.0/16")
	w.k8s = &dwRecK8s{Kubernetes: k8sad.VerifNewK8S(w.api.cl, daemon.ModeENIMultiIP, dwNode, w.podCache, svc), last: map[string]string{}}
	w.cloud = &dwCloud{enis: map[string][]int{}}
	for _, part := range strings.Split(cmd[3], ";") {
		kv := strings.Split(part, ":")
		n, _ := strconv.Atoi(kv[1])
		i, _ := strconv.Atoi(strings.TrimPrefix(kv[0], "e"))
		var ids []int
		for k := 1; k <= n; k++ {
			ids = append(ids, i*100+k)
			if w.dual {
				ids = append(ids, dwV6Base+i*100+k)
			}
		}
		w.cloud.enis[kv[0]] = ids
		w.cloud.order = append(w.cloud.order, kv[0])
	}
	w.parked = map[string]*dwParked{}
	w.order = nil
	w.gcBlocked = nil
	if err := w.start(); err != nil {
		return strings.Join(cmd, " ") + " " + w.cloud.list(), "start-error:" + err.Error()
	}
	return strings.Join(cmd, " ") + " " + w.cloud.list(), w.stateStr(w.observe())
}

// dm.add|del|get|addc <p> <cid>
func (w *dWorld) opRequest(cmd []string) (string, string) {
	kind, p, cid := strings.TrimPrefix(cmd[0], "dm."), cmd[1], cmd[2]
	pre := w.observe()
	_, inflight := w.parked[p]
	implKind := kind
	if kind == "addc" {
		implKind = "add"
	}
	if kind == "addc" {
		w.cancelDelay = w.c.R.Intn(120)
		if w.c.R.Intn(4) == 0 {
			w.cancelDelay = 0
		}
	}
	w.obs.take()
	rep := w.call(implKind, p, cid, kind == "addc")
	view := w.k8s.take(p)
	if old, ok := pre.db[p]; ok && kind == "del" && old.cid == cid {
		// the teardown is reported for the sandbox the DEL is for: the pod UID stored at its ADD, also when a new
		// pod of the same name exists by now
		for _, seen := range w.obs.take() {
			if seen[1] != old.uid {
				w.violate("C03/daemon/teardown-reported-for-wrong-uid", fmt.Sprintf("DEL of %s (sandbox %s, set up for pod UID %s) reported the teardown for UID %q", p, cid, old.uid, seen[1]))
			}
			w.c.Count("teardown-reports")
		}
	}
	post := w.observe()
	if kind == "addc" && rep.reply == "ok" {
		// served before the context ended: an ordinary ADD
		kind, cmd = "add", append([]string{"dm.add"}, cmd[1:]...)
		w.c.Count("addc-served")
	}
	line := fmt.Sprintf("%s %s %s %s", cmd[0], p, cid, view)
	if kind == "add" {
		line += " " + w.pickOf(pre, post, p, rep)
	}
	if kind == "addc" {
		pick, back := w.pickOfFailed(pre, post, p)
		line += " " + pick + " " + back
	}
	w.monitorRequest(kind, p, cid, view, inflight, pre, post, rep)
	return line, rep.str() + " | " + w.stateStr(post)
}

// pickOf: the pre-state entries that served a successful ADD (its reply names them; the record names the ENI)
func (w *dWorld) pickOf(pre, post dwState, p string, rep dwReply) string {
	if rep.reply != "ok" || len(rep.ips) == 0 {
		return "-"
	}
	r, ok := post.db[p]
	if !ok {
		return "-"
	}
	return pickStr(entriesBefore(pre, r.eni, rep.ips))
}

// pickOfFailed: what a failed ADD did to the pool: entries newly bound to p (kept), or entries of p that
// it handed back
func (w *dWorld) pickOfFailed(pre, post dwState, p string) (string, string) {
	po, qo := owned(pre, p), owned(post, p)
	var gained, lost []dwEnt
	for _, e := range pre.pool {
		k := fmt.Sprintf("%s:%d", e.eni, e.ip)
		if !po[k] && qo[k] {
			gained = append(gained, e)
		}
		if po[k] && !qo[k] {
			lost = append(lost, e)
		}
	}
	if len(gained) > 0 {
		// together with entries it already held on that interface
		for _, e := range pre.pool {
			k := fmt.Sprintf("%s:%d", e.eni, e.ip)
			if po[k] && qo[k] && e.eni == gained[0].eni {
				gained = append(gained, e)
			}
		}
		return pickStr(gained), "0"
	}
	if len(lost) > 0 {
		return pickStr(lost), "1"
	}
	return "-", "1"
}

func (w *dWorld) opEnter(cmd []string) (string, string) {
	p, kind, cid := cmd[1], cmd[2], cmd[3]
	line := "dm.enter " + p + " " + kind + " " + cid
	if _, ok := w.parked[p]; ok {
		pre := w.observe()
		rep := w.call(kind, p, cid, false)
		post := w.observe()
		w.monitorRequest(kind, p, cid, "-", true, pre, post, rep)
		return line, rep.str() + " | " + w.stateStr(post)
	}
	g := &dwGate{arrived: make(chan struct{}), open: make(chan struct{})}
	w.api.mu.Lock()
	w.api.gates[p] = g
	w.api.mu.Unlock()
	pk := &dwParked{kind: kind, cid: cid, done: make(chan dwReply, 1), gate: g}
	go func() { pk.done <- w.call(kind, p, cid, false) }()
	select {
	case <-g.arrived:
	case rep := <-pk.done:
		// it never reached GetPod
		w.api.mu.Lock()
		delete(w.api.gates, p)
		w.api.mu.Unlock()
		return line, rep.str() + " | " + w.stateStr(w.observe())
	case <-time.After(dwTimeout):
		return line, "hang"
	}
	w.parked[p] = pk
	w.order = append([]string{p}, w.order...)
	w.c.Count("parked")
	return line, "ok - | " + w.stateStr(w.observe())
}

func (w *dWorld) opLeave(cmd []string) (string, string) {
	p := cmd[1]
	pk, ok := w.parked[p]
	if !ok {
		return "dm.leave " + p, "not-parked"
	}
	pre := w.observe()
	close(pk.gate.open)
	var rep dwReply
	select {
	case rep = <-pk.done:
	case <-time.After(dwTimeout + 10*time.Second):
		rep = dwReply{reply: "hang"}
	}
	delete(w.parked, p)
	for i, q := range w.order {
		if q == p {
			w.order = append(w.order[:i:i], w.order[i+1:]...)
			break
		}
	}
	if len(w.parked) == 0 && w.gcBlocked != nil {
		select {
		case <-w.gcBlocked:
		case <-time.After(dwTimeout):
			w.violate("C09/gc/never-resumes", "a GC pass that waited for an in-flight request never finished")
		}
		w.gcBlocked = nil
		w.api.mu.Lock()
		w.api.failLs = false
		w.api.mu.Unlock()
	}
	post := w.observe()
	view := w.k8s.take(p)
	line := fmt.Sprintf("dm.leave %s %s %s %s", p, pk.kind, pk.cid, view)
	if pk.kind == "add" {
		line += " " + w.pickOf(pre, post, p, rep)
	}
	w.monitorRequest(pk.kind, p, pk.cid, view, false, pre, post, rep)
	return line, rep.str() + " | " + w.stateStr(post)
}

// #gcblocked: a GC pass started while a request is in flight must wait for it.  (The pass is made to
// give up as soon as it gets the lock, so that it has no effect of its own.)
func (w *dWorld) opGCBlocked(cmd []string) (string, string) {
	if len(w.parked) == 0 || w.gcBlocked != nil {
		return "#gcblocked", "#"
	}
	pre := w.stateStr(w.observe())
	w.api.mu.Lock()
	w.api.failLs = true
	w.api.mu.Unlock()
	ch := make(chan error, 1)
	go func() { ch <- w.svc.VerifGCPods(context.Background()) }()
	select {
	case <-ch:
		w.violate("C09/gc/runs-with-request-in-flight", "gcPods completed while a request for "+strings.Join(w.order, ",")+" was in flight")
		// the same fact seen from C05: a pass that is not excluded from requests applies its (by then stale) "pod is gone"
		// verdicts to records and bindings a request writes meanwhile - an acknowledged ADD can lose its record and address
		w.violate("C05/gc/not-excluded-from-requests", "a GC pass ran to completion while a request for "+strings.Join(w.order, ",")+" was in flight: what it decided from its snapshot is applied over what the request acknowledges")
		w.api.mu.Lock()
		w.api.failLs = false
		w.api.mu.Unlock()
	case <-time.After(30 * time.Millisecond):
		w.gcBlocked = ch
	}
	if post := w.stateStr(w.observe()); post != pre {
		w.violate("C09/gc/effect-with-request-in-flight", "state changed by a GC pass started while a request was in flight: "+pre+" -> "+post)
	}
	w.c.Count("gc-blocked")
	return "#gcblocked", "#"
}

func (w *dWorld) opGC(cmd []string) (string, string) {
	if len(w.parked) > 0 {
		return "dm.gc - -", "blocked"
	}
	pre := w.observe()
	live, ex, cls := w.gcView(pre)
	err := w.svc.VerifGCPods(context.Background())
	post := w.observe()
	res := "ok"
	if err != nil {
		res = "err"
	}
	w.monitorGC(pre, post, cls, err)
	return "dm.gc " + live + " " + ex, res + " | " + w.stateStr(post)
}

func (w *dWorld) opRestart(cmd []string) (string, string) {
	for p := range w.parked { // a restart with requests in flight: they die with the process
		close(w.parked[p].gate.open)
	}
	pre := w.observe()
	w.checkDisk(pre, "restart")
	if err := w.restart(); err != nil {
		return "dm.restart " + w.cloud.list(), "start-error:" + err.Error()
	}
	w.gcBlocked = nil
	w.api.mu.Lock()
	w.api.failLs = false
	w.api.mu.Unlock()
	post := w.observe()
	w.monitorRestart(pre, post, "")
	return "dm.restart " + w.cloud.list(), w.stateStr(post)
}

// dm.crash <p> <kind> <cid> <wrote>: the process dies in the database write of this request
func (w *dWorld) opCrash(cmd []string) (string, string) {
	p, kind, cid, wrote := cmd[1], cmd[2], cmd[3], cmd[4] == "1"
	if len(w.parked) > 0 {
		return strings.Join(cmd, " "), "bad-op"
	}
	pre := w.observe()
	w.db.arm(dwNS+"/"+p, wrote)
	rep := w.call(kind, p, cid, false)
	view := w.k8s.take(p)
	fired := w.db.disarm()
	mid := w.observe()
	pick := "-"
	if kind == "add" {
		// what the pool handed out, whether or not the reply was ever sent
		var got []dwEnt
		qo := owned(mid, p)
		var eniTok string
		for _, e := range mid.pool {
			if qo[fmt.Sprintf("%s:%d", e.eni, e.ip)] {
				eniTok = e.eni
			}
		}
		if r, ok := mid.db[p]; ok && rep.reply != "err" {
			eniTok = r.eni
		}
		for _, e := range pre.pool {
			if qo[fmt.Sprintf("%s:%d", e.eni, e.ip)] && e.eni == eniTok {
				got = append(got, e)
			}
		}
		if rep.reply == "ok" || rep.crashed {
			pick = pickStr(got)
		}
	}
	if !fired {
		w.c.Count("crash-no-write")
	} else {
		w.c.Count("crash-" + kind + "-wrote" + b01(wrote))
	}
	if err := w.restart(); err != nil {
		return strings.Join(cmd, " "), "start-error:" + err.Error()
	}
	post := w.observe()
	w.monitorRestart(pre, post, p)
	// durability of the request itself when it was acknowledged
	if rep.reply == "ok" && kind == "add" {
		if r, ok := post.db[p]; !ok || idsStr(r.ips) != idsStr(rep.ips) {
			w.violate("C05/ack/add-lost", fmt.Sprintf("ADD of %s acknowledged with %v but the restarted service has record %v", p, rep.ips, post.db[p]))
		}
	}
	line := fmt.Sprintf("dm.crash %s %s %s %s %s %s %s", p, kind, cid, view, pick, b01(wrote && fired), w.cloud.list())
	return line, w.stateStr(post)
}

// ---------- monitors (on the implementation's own observations; independent of the Lean model) ----------

func sameState(w *dWorld, a, b dwState) bool { return w.stateStr(a) == w.stateStr(b) }

func (w *dWorld) monitorRequest(kind, p, cid, view string, inflight bool, pre, post dwState, rep dwReply) {
	w.c.Count("req-" + kind + "-" + strings.SplitN(rep.reply, ":", 2)[0])
	if rep.reply == "hang" || strings.HasPrefix(rep.reply, "panic") {
		w.violate("C04/request/"+rep.reply, fmt.Sprintf("%s %s %s: %s", kind, p, cid, rep.reply))
		return
	}
	if inflight {
		// a request for a pod that already has one in flight
		if rep.reply != "processing" {
			w.violate("C04/concurrent/not-rejected/"+kind, fmt.Sprintf("%s for %s while another request for it is in flight was answered %q, not 'processing'", kind, p, rep.str()))
		}
		if !sameState(w, pre, post) {
			w.violate("C04/concurrent/effect/"+kind, fmt.Sprintf("%s for %s while another request is in flight changed state: %s -> %s", kind, p, w.stateStr(pre), w.stateStr(post)))
		}
		w.c.Count("concurrent-same-pod")
		return
	}
	if rep.reply == "processing" {
		w.violate("C04/processing/spurious", fmt.Sprintf("%s for %s rejected as processing with no request in flight", kind, p))
		return
	}
	old, had := pre.db[p]
	stale := had && old.cid != cid
	switch kind {
	case "del":
		if stale {
			w.c.Count("stale-del")
			if !sameState(w, pre, post) {
				w.violate("C04/stale-del/effect", fmt.Sprintf("DEL of %s with sandbox %s (recorded %s) changed state: %s -> %s", p, cid, old.cid, w.stateStr(pre), w.stateStr(post)))
			}
		}
		if !had {
			w.c.Count("repeat-del")
			if !sameState(w, pre, post) {
				w.violate("C04/repeat-del/effect", fmt.Sprintf("DEL of %s with no record changed state: %s -> %s", p, w.stateStr(pre), w.stateStr(post)))
			}
		}
		if had && !stale && rep.reply == "ok" {
			// acknowledged DEL of the current sandbox: either sticky (kept) or fully released
			if _, still := post.db[p]; !still {
				for k := range owned(post, p) {
					if owned(pre, p)[k] {
						w.violate("C04/del/address-kept", fmt.Sprintf("DEL of %s removed the record but %s is still bound to it", p, k))
					}
				}
			}
		}
	case "get":
		if stale {
			w.c.Count("stale-get")
			if len(rep.ips) != 0 {
				w.violate("C04/stale-get/returns-allocation", fmt.Sprintf("GET of %s with sandbox %s (recorded %s) returned %v", p, cid, old.cid, rep.ips))
			}
		}
		if !sameState(w, pre, post) {
			w.violate("C04/get/effect", fmt.Sprintf("GET of %s changed state: %s -> %s", p, w.stateStr(pre), w.stateStr(post)))
		}
	case "add", "addc":
		if rep.reply == "ok" {
			// a repeated ADD returns the address the pod already holds
			if had && len(old.ips) > 0 {
				held := true
				for _, e := range entriesBefore(pre, old.eni, old.ips) {
					if e.owner != p {
						held = false
					}
				}
				if held && len(entriesBefore(pre, old.eni, old.ips)) == len(old.ips) {
					w.c.Count("repeat-add")
					if idsStr(rep.ips) != idsStr(old.ips) {
						w.violate("C04/repeat-add/different-address", fmt.Sprintf("ADD of %s holding %v on %s returned %v", p, old.ips, old.eni, rep.ips))
					}
				}
			}
			// what was handed out is bound to the pod and to nobody else, and recorded
			r, ok := post.db[p]
			if !ok || r.cid != cid || idsStr(r.ips) != idsStr(rep.ips) {
				w.violate("C04/add/record-mismatch", fmt.Sprintf("ADD of %s answered %v but the record is %v", p, rep.ips, post.db[p]))
				// the same fact is what a restart relies on (C05: an acknowledged ADD is recorded, with its sandbox)
				w.violate("C05/ack/record-mismatch", fmt.Sprintf("ADD of %s for sandbox %s was acknowledged with %v but the stored record is %v: a restart (or the late DEL of the old sandbox) works from that record", p, cid, rep.ips, post.db[p]))
			} else {
				for _, e := range entriesBefore(post, r.eni, r.ips) {
					if e.owner != p {
						w.violate("C04/add/not-bound", fmt.Sprintf("ADD of %s answered %v but %s:%d is bound to %q", p, rep.ips, e.eni, e.ip, e.owner))
					}
				}
				for _, e := range entriesBefore(pre, r.eni, r.ips) {
					if e.owner != "" && e.owner != p {
						w.violate("C05/double-allocation", fmt.Sprintf("ADD of %s was given %s:%d which was bound to %s", p, e.eni, e.ip, e.owner))
					}
				}
			}
			wantFam := 1
			if w.dual {
				wantFam = 2
			}
			if len(rep.ips) != wantFam {
				w.violate("C04/add/families", fmt.Sprintf("ADD of %s answered %v, want %d addresses", p, rep.ips, wantFam))
			}
		} else {
			// an ADD that fails hands back every address it took
			w.c.Count("failed-add")
			po := owned(pre, p)
			for k := range owned(post, p) {
				if !po[k] {
					key := "C04/failed-add/address-kept"
					if kind == "addc" {
						key = "C04/add-cancelled/address-kept"
					}
					w.violate(key, fmt.Sprintf("failed ADD of %s left %s bound to it", p, k))
				}
			}
			// ... and nothing else: the address of an acknowledged ADD stays the pod's
			if had {
				qo := owned(post, p)
				for _, ip := range old.ips {
					k := fmt.Sprintf("%s:%d", old.eni, ip)
					if po[k] && !qo[k] {
						w.violate("C05/failed-readd/releases-acknowledged-address", fmt.Sprintf("a failed repeat ADD of %s released %s, which its acknowledged ADD (sandbox %s) still records; the address can now be given to another pod", p, k, old.cid))
						w.abort = true // the record is stale from here on: what follows is a consequence
					}
				}
			}
			if fmt.Sprint(sortedRecs(pre.db)) != fmt.Sprint(sortedRecs(post.db)) {
				w.violate("C04/failed-add/record-changed", fmt.Sprintf("failed ADD of %s changed the records: %v -> %v", p, sortedRecs(pre.db), sortedRecs(post.db)))
			}
		}
	}
	// no request touches another pod's allocation
	for q, r := range pre.db {
		if q == p {
			continue
		}
		if r2, ok := post.db[q]; !ok || fmt.Sprint(r2) != fmt.Sprint(r) {
			w.violate("C04/other-pod/record-changed", fmt.Sprintf("%s of %s changed the record of %s", kind, p, q))
		}
	}
	for _, e := range pre.pool {
		if e.owner != "" && e.owner != p {
			for _, f := range post.pool {
				if f.eni == e.eni && f.ip == e.ip && f.owner != e.owner {
					w.violate("C04/other-pod/binding-changed", fmt.Sprintf("%s of %s changed the owner of %s:%d from %s to %q", kind, p, e.eni, e.ip, e.owner, f.owner))
				}
			}
		}
	}
	if rep.reply == "ok" && (kind == "add" || kind == "del") && w.c.R.Intn(4) == 0 {
		w.checkDisk(post, kind)
	}
}

func (w *dWorld) monitorGC(pre, post dwState, cls map[string]string, err error) {
	if err != nil {
		w.violate("C09/gc/error", "gcPods returned "+err.Error())
	}
	for n, r := range pre.db {
		r2, still := post.db[n]
		w.c.Count("gc-" + cls[n])
		switch cls[n] {
		case "live", "exists", "apierr":
			if !still || fmt.Sprint(r2) != fmt.Sprint(r) {
				w.violate("C09/gc/touched-"+cls[n], fmt.Sprintf("GC changed the record of %s (%s): %v -> %v", n, cls[n], r, post.db[n]))
			}
			po, qo := owned(pre, n), owned(post, n)
			for k := range po {
				if !qo[k] {
					w.violate("C09/gc/released-"+cls[n], fmt.Sprintf("GC released %s of %s (%s)", k, n, cls[n]))
				}
			}
		case "absent":
			if still {
				// only a sticky address gets one more period
				if !(r.stick && !w.crd && !r2.stick) {
					w.violate("C09/gc/absent-not-collected", fmt.Sprintf("GC kept the record of the vanished pod %s: %v -> %v", n, r, r2))
				}
				w.c.Count("gc-unstick")
			} else {
				for _, e := range entriesBefore(post, r.eni, r.ips) {
					if e.owner == n {
						w.violate("C09/gc/absent-address-kept", fmt.Sprintf("GC removed the record of %s but %s:%d is still bound to it", n, e.eni, e.ip))
					}
				}
				w.c.Count("gc-collected")
			}
		}
	}
	for n := range post.db {
		if _, ok := pre.db[n]; !ok {
			w.violate("C09/gc/record-created", "GC created a record for "+n)
		}
	}
}

// monitorRestart: every stored binding whose interface and address are still reported is re-applied, and
// nothing else is bound.  `inflight` is the pod whose request died with the process.
func (w *dWorld) monitorRestart(pre, post dwState, inflight string) {
	w.c.Count("restarts")
	attached := map[string]bool{}
	for _, e := range post.pool {
		attached[fmt.Sprintf("%s:%d", e.eni, e.ip)] = true
	}
	want := map[string]string{}
	for n, r := range post.db {
		for _, ip := range r.ips {
			k := fmt.Sprintf("%s:%d", r.eni, ip)
			if attached[k] {
				if o, dup := want[k]; dup {
					w.violate("C05/restart/two-records-one-address", fmt.Sprintf("records of %s and %s both name %s", o, n, k))
				}
				want[k] = n
			}
		}
	}
	for _, e := range post.pool {
		k := fmt.Sprintf("%s:%d", e.eni, e.ip)
		if want[k] != e.owner {
			key := "C05/restart/binding-lost"
			if want[k] == "" {
				key = "C05/restart/unacknowledged-address-kept"
			}
			w.violate(key, fmt.Sprintf("after restart %s is bound to %q, the stored records say %q", k, e.owner, want[k]))
		}
	}
	// acknowledged allocations survive: every record of the old process (other than the in-flight pod's) is still there
	for n, r := range pre.db {
		if n == inflight {
			continue
		}
		if r2, ok := post.db[n]; !ok || fmt.Sprint(r2) != fmt.Sprint(r) {
			w.violate("C05/restart/record-lost", fmt.Sprintf("record of %s changed over the restart: %v -> %v", n, r, post.db[n]))
		}
	}
	for n := range post.db {
		if _, ok := pre.db[n]; !ok && n != inflight {
			w.violate("C05/restart/record-appeared", "record of "+n+" appeared over the restart")
		}
	}
}

// ---------- generator ----------

func (w *dWorld) pods() []string { return []string{"p1", "p2", "p3", "p4", "p5"} }

func (w *dWorld) genCase(focus string) {
	r := w.c.R
	w.lines = nil
	w.abort = false
	var lines []Line
	do := func(cmd ...string) string {
		l, o := w.exec(cmd)
		lines = append(lines, Line{l, o})
		return o
	}
	nEni := 1 + r.Intn(3)
	var lay []string
	for i := 1; i <= nEni; i++ {
		lay = append(lay, fmt.Sprintf("e%d:%d", i, 1+r.Intn(3)))
	}
	crd := r.Intn(8) == 0
	do("dm.init", b01(crd), b01(r.Intn(2) == 0), strings.Join(lay, ";"))
	pods := w.pods()
	cidN := map[string]int{}
	curCid := func(p string) string { return fmt.Sprintf("c%s-%d", p[1:], cidN[p]) }
	pickCid := func(p string) string {
		switch r.Intn(5) {
		case 0:
			if cidN[p] > 0 {
				return fmt.Sprintf("c%s-%d", p[1:], r.Intn(cidN[p]+1))
			}
		case 1:
			cidN[p]++
		}
		return curCid(p)
	}
	for _, p := range pods {
		if r.Intn(5) != 0 {
			do("#api.create", p, b01(r.Intn(3) == 0), dwNode)
		}
	}
	n := 12 + r.Intn(20)
	for i := 0; i < n && !w.abort; i++ {
		p := pods[r.Intn(len(pods))]
		if w.gcBlocked != nil {
			// a GC pass is waiting for the write lock: new readers queue behind it, so only requests that
			// are rejected before the lock, and completions, can be issued
			if r.Intn(2) == 0 {
				q := w.order[r.Intn(len(w.order))]
				do([]string{"dm.add", "dm.del", "dm.get"}[r.Intn(3)], q, pickCid(q))
			} else {
				do("dm.leave", w.order[len(w.order)-1-r.Intn(len(w.order))])
			}
			continue
		}
		x := r.Intn(100)
		wAdd, wDel, wGet, wConc, wGC, wRestart, wCrash, wAPI := 22, 14, 8, 14, 12, 6, 6, 18
		switch focus {
		case "C04":
			wConc, wAdd, wDel, wGet = 24, 24, 16, 12
			wGC, wRestart, wCrash = 5, 3, 2
		case "C05":
			wRestart, wCrash, wConc, wGC = 14, 16, 6, 6
		case "C09":
			wGC, wAPI, wConc = 26, 24, 10
		}
		tot := wAdd + wDel + wGet + wConc + wGC + wRestart + wCrash + wAPI
		x = r.Intn(tot)
		// macros: short scripted bursts around the rare events
		if len(w.parked) == 0 && focus == "C03" && r.Intn(6) == 0 {
			// the pod is re-created under its name while the old sandbox is still there; then the DEL arrives
			do("dm.add", p, pickCid(p))
			do("#api.create", p, "0", dwNode)
			do("dm.del", p, curCid(p))
			continue
		}
		if len(w.parked) == 0 && r.Intn(14) == 0 {
			switch {
			case focus == "C09" || r.Intn(3) == 0:
				// a pod with a record vanishes in one of the ways a node sees, possibly with its lookup failing
				do("dm.add", p, pickCid(p))
				switch r.Intn(4) {
				case 0:
					do("#api.delete", p)
				case 1:
					do("#api.phase", p, []string{"Succeeded", "Failed"}[r.Intn(2)])
				case 2:
					do("#api.create", p, b01(r.Intn(2) == 0), dwOther)
				case 3:
					do("#api.delete", p)
					do("#api.forget", p)
				}
				if r.Intn(2) == 0 {
					do("#api.err", p, "1")
				}
				for k := 1 + r.Intn(3); k > 0; k-- {
					do("dm.gc")
				}
				do("#api.err", p, "0")
				do("dm.gc")
			default:
				// requests whose context ends while they are served
				for k := 3 + r.Intn(6); k > 0; k-- {
					do("dm.addc", p, pickCid(p))
					if r.Intn(2) == 0 {
						do("dm.del", p, curCid(p))
					}
				}
			}
			continue
		}
		switch {
		case x < wAdd:
			if r.Intn(12) == 0 {
				do("dm.addc", p, pickCid(p))
			} else {
				do("dm.add", p, pickCid(p))
			}
		case x < wAdd+wDel:
			do("dm.del", p, pickCid(p))
		case x < wAdd+wDel+wGet:
			do("dm.get", p, pickCid(p))
		case x < wAdd+wDel+wGet+wConc:
			if len(w.parked) > 0 && r.Intn(3) != 0 {
				switch r.Intn(4) {
				case 0:
					do("dm.leave", w.order[r.Intn(len(w.order))])
				case 1:
					q := w.order[r.Intn(len(w.order))]
					do([]string{"dm.add", "dm.del", "dm.get"}[r.Intn(3)], q, pickCid(q))
				case 2:
					q := w.order[r.Intn(len(w.order))]
					do("dm.enter", q, []string{"add", "del", "get"}[r.Intn(3)], pickCid(q))
				case 3:
					do("#gcblocked")
				}
			} else {
				do("dm.enter", p, []string{"add", "add", "del", "get"}[r.Intn(4)], pickCid(p))
			}
		case x < wAdd+wDel+wGet+wConc+wGC:
			if len(w.parked) > 0 {
				do("#gcblocked")
			} else {
				for k := 1 + r.Intn(3); k > 0; k-- {
					do("dm.gc")
				}
			}
		case x < wAdd+wDel+wGet+wConc+wGC+wRestart:
			for len(w.order) > 0 {
				do("dm.leave", w.order[0])
			}
			if w.gcBlocked == nil {
				if r.Intn(4) == 0 && len(w.cloud.enis) > 1 {
					do("#cloud.detach", w.cloud.order[r.Intn(len(w.cloud.order))])
				}
				do("dm.restart")
			}
		case x < wAdd+wDel+wGet+wConc+wGC+wRestart+wCrash:
			if len(w.parked) == 0 {
				do("dm.crash", p, []string{"add", "add", "del"}[r.Intn(3)], pickCid(p), b01(r.Intn(2) == 0))
			}
		default:
			switch r.Intn(7) {
			case 0, 1:
				do("#api.delete", p)
			case 2:
				do("#api.create", p, b01(r.Intn(3) == 0), []string{dwNode, dwNode, dwNode, dwOther}[r.Intn(4)])
			case 3:
				do("#api.phase", p, []string{"Succeeded", "Failed", "Running"}[r.Intn(3)])
			case 4:
				do("#api.err", p, b01(r.Intn(3) != 0))
			case 5:
				do("#api.forget", p)
			case 6:
				do("#api.create", p, b01(r.Intn(2) == 0), dwNode)
			}
		}
	}
	for len(w.order) > 0 {
		do("dm.leave", w.order[0])
	}
	if !w.abort && (focus == "C09" || r.Intn(3) == 0) {
		do("dm.gc")
		do("dm.gc")
		do("dm.gc")
	}
	if len(w.cloud.unexpected) > 0 {
		w.c.Extra["unexpected_cloud_calls"] = fmt.Sprint(w.cloud.unexpected)
	}
	w.c.Add(Case{Lines: lines, Nontrivial: true})
	w.close()
}

// cmdOf strips the observation tokens from a protocol line (replay).
func dwCmdOf(line string) []string {
	t := strings.Fields(line)
	if len(t) == 0 {
		return nil
	}
	switch t[0] {
	case "dm.init":
		return t[:4]
	case "dm.add", "dm.del", "dm.get", "dm.addc":
		return t[:3]
	case "dm.enter":
		return t[:4]
	case "dm.leave":
		return t[:2]
	case "dm.gc", "dm.restart":
		return t[:1]
	case "dm.crash":
		// dm.crash p kind cid view pick wrote cloud  ->  dm.crash p kind cid wrote
		if len(t) >= 7 {
			return []string{t[0], t[1], t[2], t[3], t[6]}
		}
		return t
	case "dm.env":
		if len(t) < 2 {
			return nil
		}
		return append([]string{"#" + t[1]}, t[2:]...)
	}
	return t
}

func init() {
	register(&Prop{ID: "DW-child", Run: dwChildRun, Exec2: dwChildExec})
	register(&Prop{ID: "DW-writer", Run: dwWriterRun})
}

func dwChildRun(c *Ctx) {
	dwQuiet()
	focus := os.Getenv("DW_FOCUS")
	w := &dWorld{c: c, focus: focus}
	n := c.Scale(60, 1500)
	for i := 0; i < n; i++ {
		w.genCase(focus)
	}
	if focus == "C05" {
		dwKillRuns(c, c.Scale(6, 80))
	}
}

func dwChildExec(c *Ctx, ops []string) ([]string, []string) {
	dwQuiet()
	// a history with a request whose context ends while it is served depends on the goroutine schedule:
	// replay it until a monitor fires (at most 40 times)
	tries := 1
	for _, op := range ops {
		if strings.HasPrefix(op, "dm.addc") {
			tries = 40
		}
	}
	var lines, outs []string
	focus := os.Getenv("DW_FOCUS")
	hit := func() bool {
		for _, v := range c.Viol {
			if strings.HasPrefix(v.Key, focus+"/") {
				return true
			}
		}
		return false
	}
	for t := 0; t < tries && !hit(); t++ {
		lines, outs = dwReplayOnce(c, ops)
	}
	return lines, outs
}

func dwReplayOnce(c *Ctx, ops []string) ([]string, []string) {
	w := &dWorld{c: c}
	var lines, outs []string
	for _, op := range ops {
		if strings.HasPrefix(op, "dm.kill") {
			lines, outs = append(lines, op), append(outs, "durable")
			continue
		}
		cmd := dwCmdOf(op)
		if len(cmd) == 0 || (w.db == nil && cmd[0] != "dm.init") {
			lines, outs = append(lines, op), append(outs, "bad-op")
			continue
		}
		l, o := w.exec(cmd)
		lines, outs = append(lines, l), append(outs, o)
	}
	w.close()
	return lines, outs
}

// runDaemonWorld is how C04 / C05 / C09 run the world: a child in private namespaces with a tmpfs
// where the builder keeps its database.
func runDaemonWorld(c *Ctx, focus string, replay []string) (lines, outs []string) {
	self, err := os.Executable()
	if err != nil {
		c.Extra["dw_child_error"] = err.Error()
		return
	}
	dir, err := os.MkdirTemp(filepath.Dir(self), "dw")
	if err != nil {
		c.Extra["dw_child_error"] = err.Error()
		return
	}
	defer os.RemoveAll(dir)
	out := filepath.Join(dir, "child.json")
	extra := ""
	if replay != nil {
		rf := filepath.Join(dir, "replay.ops")
		_ = os.WriteFile(rf, []byte(strings.Join(replay, "\n")+"\n"), 0o644)
		extra = rf
	}
	cmd := exec.Command("unshare", "-n", "-m", "sh", "-c",
		`mount -t tmpfs tmpfs /run && mkdir -p /var/lib/cni/terway && mount -t tmpfs tmpfs /var/lib/cni/terway && ip link set lo up; if [ -n "$4" ]; then exec "$0" DW-child --tier "$1" --seed "$2" --out "$3" --replay "$4"; else exec "$0" DW-child --tier "$1" --seed "$2" --out "$3"; fi`,
		self, c.Tier, fmt.Sprint(c.Seed), out, extra)
	cmd.Env = append(os.Environ(), "DW_FOCUS="+focus)
	if b, err := cmd.CombinedOutput(); err != nil {
		c.Extra["dw_child_error"] = fmt.Sprintf("%v: %s", err, tail(string(b), 1500))
		c.Violate(focus+"/harness/child-failed", "the daemon-world child process failed: "+tail(string(b), 300))
		return
	}
	b, err := os.ReadFile(out)
	if err != nil {
		c.Extra["dw_child_error"] = err.Error()
		return
	}
	var res Result
	if err := json.Unmarshal(b, &res); err != nil {
		c.Extra["dw_child_error"] = err.Error()
		return
	}
	for k, v := range res.Extra {
		c.Extra[k] = v
	}
	for _, v := range res.Violations {
		if strings.HasPrefix(v.Key, focus+"/") {
			c.Violate(v.Key, v.What, v.Lines...)
		} else {
			c.Count("other-property-violations-seen")
		}
	}
	for k, v := range res.Distribution {
		c.Dist[k] += v
	}
	if replay != nil {
		if len(res.AllCases) > 0 {
			for _, l := range res.AllCases[0].Lines {
				lines, outs = append(lines, l.Op), append(outs, l.Impl)
			}
		}
		return
	}
	c.Cases = append(c.Cases, res.AllCases...)
	return
}

var _ = sort.Strings
