package main

import "strings"

// C04, C05 and C09 share the daemon world (dworld*.go); each runs it with its own op mix and keeps the
// monitor violations of its own property.
func init() {
	for _, id := range []string{"C04", "C05", "C09"} {
		id := id
		register(&Prop{ID: id,
			Run: func(c *Ctx) {
				runDaemonWorld(c, id, nil)
				if id == "C05" {
					// the restart path between the stored records and the pool (storedrec.go)
					srRun(c, "C05", c.Scale(400, 8000))
				}
			},
			Exec2: func(c *Ctx, ops []string) ([]string, []string) {
				if len(ops) > 0 && strings.HasPrefix(ops[0], "sr.") {
					outs := make([]string, len(ops))
					for i, op := range ops {
						outs[i] = srExec(c, op)
					}
					return ops, outs
				}
				return runDaemonWorld(c, id, ops)
			},
		})
	}
}
