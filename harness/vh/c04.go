package main

import "strings"

// C04, C05 and C09 share the daemon world (dworld*.go); each runs it with its own op mix and keeps the
// monitor violations of its own property.
func init() {
	for _, id := range []string{"C04", "C05", "C09"} {
		id := id
		register(&Prop{ID: id,
			Run: func(c *Ctx) {
				runDaemonWorld(c, id, nil)
				if id == "C04" {
					// where requests wait for the cloud (dual stack with split idle addresses, cancellation while waiting)
					poolSlice(c, "C07", c.Scale(60, 400), map[string]string{"C07/owner/not-holding": "C04/pool/failed-add-keeps-address"})
				}
				if id == "C09" {
					// the release step GC shares with DEL, on pools with invalidated addresses
					poolSlice(c, "C07", c.Scale(60, 400), map[string]string{"C07/owner/not-holding": "C09/pool/released-address-still-owned"})
				}
				if id == "C05" {
					// the restart path between the stored records and the pool (storedrec.go)
					srRun(c, "C05", c.Scale(400, 8000))
				}
			},
			Exec2: func(c *Ctx, ops []string) ([]string, []string) {
				if len(ops) > 0 && strings.HasPrefix(ops[0], "pl.") {
					remap := map[string]string{"C07/owner/not-holding": map[string]string{"C04": "C04/pool/failed-add-keeps-address", "C09": "C09/pool/released-address-still-owned"}[id]}
					sub := &Ctx{Tier: c.Tier, Seed: c.Seed, R: c.R, Dist: c.Dist, Extra: map[string]any{}, Replay: c.Replay}
					l, o := runPoolWorlds(sub, "C07", ops)
					for _, v := range sub.Viol {
						if k, ok := remap[v.Key]; ok && k != "" {
							c.Violate(k, v.What, v.Lines...)
						}
					}
					return l, o
				}
				if len(ops) > 0 && strings.HasPrefix(ops[0], "sr.") {
					outs := make([]string, len(ops))
					for i, op := range ops {
						outs[i] = srExec(c, op)
					}
					return ops, outs
				}
				return runDaemonWorld(c, id, ops)
			},
		})
	}
}
