package main

// C04, C05 and C09 share the daemon world (dworld*.go); each runs it with its own op mix and keeps the
// monitor violations of its own property.
func init() {
	for _, id := range []string{"C04", "C05", "C09"} {
		id := id
		register(&Prop{ID: id,
			Run:   func(c *Ctx) { runDaemonWorld(c, id, nil) },
			Exec2: func(c *Ctx, ops []string) ([]string, []string) { return runDaemonWorld(c, id, ops) },
		})
	}
}
