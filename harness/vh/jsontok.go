package main

import (
	"encoding/hex"
	"encoding/json"
	"fmt"
	"sort"
	"strings"
)

// token form of JSON documents shared with the Lean driver: n t f i:<int> s:<hex> [ v* ] { (k:<hex> v)* }

func tokShow(v any) string {
	switch x := v.(type) {
	case nil:
		return "n"
	case bool:
		if x {
			return "t"
		}
		return "f"
	case json.Number:
		return "i:" + x.String()
	case int:
		return fmt.Sprintf("i:%d", x)
	case float64:
		return fmt.Sprintf("i:%d", int64(x))
	case string:
		return "s:" + hexStr(x)
	case []any:
		s := "[ "
		for _, e := range x {
			s += tokShow(e) + " "
		}
		return s + "]"
	case map[string]any:
		keys := make([]string, 0, len(x))
		for k := range x {
			keys = append(keys, k)
		}
		sort.Strings(keys)
		s := "{ "
		for _, k := range keys {
			s += "k:" + hexStr(k) + " " + tokShow(x[k]) + " "
		}
		return s + "}"
	}
	return "?"
}

func tokParse(t []string) (any, []string, bool) {
	if len(t) == 0 {
		return nil, nil, false
	}
	switch tok := t[0]; {
	case tok == "n":
		return nil, t[1:], true
	case tok == "t":
		return true, t[1:], true
	case tok == "f":
		return false, t[1:], true
	case strings.HasPrefix(tok, "i:"):
		return json.Number(tok[2:]), t[1:], true
	case strings.HasPrefix(tok, "s:"):
		return unhexStr(tok[2:]), t[1:], true
	case tok == "[":
		arr := []any{}
		r := t[1:]
		for len(r) > 0 && r[0] != "]" {
			v, r2, ok := tokParse(r)
			if !ok {
				return nil, nil, false
			}
			arr, r = append(arr, v), r2
		}
		if len(r) == 0 {
			return nil, nil, false
		}
		return arr, r[1:], true
	case tok == "{":
		m := map[string]any{}
		r := t[1:]
		for len(r) > 0 && r[0] != "}" {
			if !strings.HasPrefix(r[0], "k:") {
				return nil, nil, false
			}
			b, _ := hex.DecodeString(strings.TrimPrefix(r[0][2:], "-"))
			v, r2, ok := tokParse(r[1:])
			if !ok {
				return nil, nil, false
			}
			m[string(b)], r = v, r2
		}
		if len(r) == 0 {
			return nil, nil, false
		}
		return m, r[1:], true
	}
	return nil, nil, false
}

func mustJSON(v any) []byte {
	b, _ := json.Marshal(v)
	return b
}

func parseJSONNum(b []byte) (any, error) {
	d := json.NewDecoder(strings.NewReader(string(b)))
	d.UseNumber()
	var v any
	err := d.Decode(&v)
	return v, err
}
