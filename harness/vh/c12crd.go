package main

import (
	"context"
	"fmt"
	"net"
	"strconv"
	"strings"
	"time"

	corev1 "k8s.io/api/core/v1"
	metav1 "k8s.io/apimachinery/pkg/apis/meta/v1"
	"sigs.k8s.io/controller-runtime/pkg/client/fake"

	networkv1beta1 "github.com/AliyunContainerService/terway/pkg/apis/network.alibabacloud.com/v1beta1"
	"github.com/AliyunContainerService/terway/pkg/eni"
	terwayIP "github.com/AliyunContainerService/terway/pkg/ip"
	terwayTypes "github.com/AliyunContainerService/terway/types"
	"github.com/AliyunContainerService/terway/types/daemon"
)

// nc.crd <pod> <eni>…  eni = id/inUse/ip:valid:pod,…   (CRD mode: the REAL CRDV2.Allocate -> LocalIPResource.ToRPC over a
// fake API server holding the node's IPAM record).  Interface k (eni-k) lives in its own vSwitch 10.k.0.0/24 / fd00:k::/64;
// address n is 10.k.0.n, n >= 1000 is the IPv6 address fd00:k::(n-1000).
func c12CRD(c *Ctx, op string, f []string) string {
	if len(f) < 3 {
		return "bad-op"
	}
	pod := f[1]
	node := &networkv1beta1.Node{ObjectMeta: metav1.ObjectMeta{Name: "node-a"}}
	node.Spec.ENISpec = &networkv1beta1.ENISpec{EnableIPv4: true, EnableIPv6: true}
	node.Status.NetworkInterfaces = map[string]*networkv1beta1.NetworkInterface{}
	type own struct {
		k      int
		v4, v6 string
	}
	for _, t := range f[2:] {
		p := strings.Split(t, "/")
		if len(p) != 3 || !strings.HasPrefix(p[0], "eni-") {
			return "bad-op"
		}
		k, _ := strconv.Atoi(strings.TrimPrefix(p[0], "eni-"))
		ni := &networkv1beta1.NetworkInterface{ID: p[0], Status: "InUse", MacAddress: fmt.Sprintf("00:16:3e:00:00:%02x", k), VSwitchID: fmt.Sprintf("vsw-%d", k),
			IPv4CIDR: fmt.Sprintf("10.%d.0.0/24", k), IPv6CIDR: fmt.Sprintf("fd00:%d::/64", k), IPv4: map[string]*networkv1beta1.IP{}, IPv6: map[string]*networkv1beta1.IP{},
			NetworkInterfaceType: networkv1beta1.ENITypeSecondary, NetworkInterfaceTrafficMode: networkv1beta1.NetworkInterfaceTrafficModeStandard}
		if p[1] != "1" {
			ni.Status = "Attaching"
		}
		if p[2] != "-" {
			for _, x := range strings.Split(p[2], ",") {
				g := strings.Split(x, ":")
				if len(g) != 3 {
					return "bad-op"
				}
				n, _ := strconv.Atoi(g[0])
				ip := &networkv1beta1.IP{Status: networkv1beta1.IPStatusValid}
				if g[1] != "1" {
					ip.Status = networkv1beta1.IPStatusDeleting
				}
				if g[2] != "-" {
					ip.PodID, ip.PodUID = g[2], "uid-"+g[2]
				}
				if n >= 1000 {
					ip.IP = fmt.Sprintf("fd00:%d::%x", k, n-1000)
					ni.IPv6[ip.IP] = ip
				} else {
					ip.IP = fmt.Sprintf("10.%d.0.%d", k, n)
					ni.IPv4[ip.IP] = ip
				}
			}
		}
		node.Status.NetworkInterfaces[p[0]] = ni
	}
	cl := fake.NewClientBuilder().WithScheme(terwayTypes.Scheme).WithObjects(node, &corev1.Node{ObjectMeta: metav1.ObjectMeta{Name: "node-a"}}).
		WithStatusSubresource(&networkv1beta1.Node{}).Build()
	if err := cl.Status().Update(context.Background(), node); err != nil {
		return "err-harness"
	}
	r := eni.VerifNewCRDV2(cl, terwayTypes.Scheme, "node-a")
	ctx, cancel := context.WithTimeout(context.Background(), 2*time.Second)
	defer cancel()
	ch, _ := r.Allocate(ctx, &daemon.CNI{PodID: pod, PodUID: "uid-" + pod, PodName: pod}, eni.NewLocalIPRequest())
	if ch == nil {
		return "refused"
	}
	var resp *eni.AllocResp
	select {
	case resp = <-ch:
	case <-ctx.Done():
		return "none"
	}
	if resp == nil || resp.Err != nil || len(resp.NetworkConfigs) != 1 {
		return "none"
	}
	lr, ok := resp.NetworkConfigs[0].(*eni.LocalIPResource)
	if !ok {
		return "none"
	}
	// property-level, on what the plugin receives: the address lies inside the reported subnet, the gateway is that subnet's
	// reserved one, the MAC names the interface that holds the address
	for _, nc := range lr.ToRPC() {
		bi := nc.GetBasicInfo()
		if bi == nil {
			continue
		}
		chk := func(fam, ipS, cidrS, gwS string) {
			if ipS == "" {
				return
			}
			_, cidr, err := net.ParseCIDR(cidrS)
			ip := net.ParseIP(ipS)
			if err != nil || ip == nil || !cidr.Contains(ip) {
				c.Violate("C12/crd/address-outside-subnet", fmt.Sprintf("CRD result: pod %s address %s is not inside the reported subnet %s", fam, ipS, cidrS), op)
				return
			}
			if want := terwayIP.DeriveGatewayIP(cidrS); gwS != want {
				c.Violate("C12/crd/gateway", fmt.Sprintf("CRD result: %s gateway %s, the reported subnet %s reserves %s", fam, gwS, cidrS, want), op)
			}
		}
		chk("IPv4", bi.GetPodIP().GetIPv4(), bi.GetPodCIDR().GetIPv4(), bi.GetGatewayIP().GetIPv4())
		chk("IPv6", bi.GetPodIP().GetIPv6(), bi.GetPodCIDR().GetIPv6(), bi.GetGatewayIP().GetIPv6())
		if ni := node.Status.NetworkInterfaces[lr.ENI.ID]; ni == nil || nc.GetENIInfo().GetMAC() != ni.MacAddress {
			c.Violate("C12/crd/mac", "CRD result: the MAC does not belong to the reported interface "+lr.ENI.ID, op)
		}
	}
	return lr.ENI.ID
}

func c12CRDRun(c *Ctx, n int) {
	r := c.R
	for i := 0; i < n; i++ {
		ne := 1 + r.Intn(5)
		owner := 1 + r.Intn(ne)
		dual := r.Chance(50)
		var enis []string
		for k := 1; k <= ne; k++ {
			var ips []string
			used := map[int]bool{}
			for j, m := 0, 1+r.Intn(4); j < m; j++ {
				a := 2 + r.Intn(200)
				if used[a] {
					continue
				}
				used[a] = true
				podOf := Pick(r, []string{"-", "-", "other", "q"})
				ips = append(ips, fmt.Sprintf("%d:%s:%s", a, b01(r.Chance(85)), podOf))
				if dual && r.Chance(70) {
					ips = append(ips, fmt.Sprintf("%d:%s:%s", 1000+a, b01(r.Chance(85)), podOf))
				}
			}
			inUse := r.Chance(85)
			if k == owner {
				inUse = true
				ips = append(ips, "250:1:p")
				if dual {
					ips = append(ips, "1250:1:p")
				}
			} else if r.Chance(15) {
				ips = append(ips, "251:0:p") // an address of the pod that is being deleted elsewhere: not a holder
			}
			enis = append(enis, fmt.Sprintf("eni-%d/%s/%s", k, b01(inUse), strings.Join(ips, ",")))
		}
		op := "nc.crd p " + strings.Join(enis, " ")
		out := protect(func() string { return c12ExecLocal(c, op) })
		c.One(op, out, ne >= 2)
		c.Count("crd")
	}
}
