package main

import (
	"bufio"
	"context"
	"errors"
	"fmt"
	"os"
	"os/exec"
	"path/filepath"
	"strconv"
	"strings"
	"time"

	metav1 "k8s.io/apimachinery/pkg/apis/meta/v1"
	k8stypes "k8s.io/apimachinery/pkg/types"
	"k8s.io/apimachinery/pkg/util/wait"
	"sigs.k8s.io/controller-runtime/pkg/client/fake"

	networkv1beta1 "github.com/AliyunContainerService/terway/pkg/apis/network.alibabacloud.com/v1beta1"
	"github.com/AliyunContainerService/terway/pkg/backoff"
	"github.com/AliyunContainerService/terway/pkg/eni"
	terwayTypes "github.com/AliyunContainerService/terway/types"
	"github.com/AliyunContainerService/terway/types/daemon"
)

// C15, "ConfigMap content": eni_conf's backoff_override reaches the daemon's wait loops.  `rm.alloc <steps> <rec> <trunk>` sets the
// override of wait_podeni_status through the real MergeConfigAndUnmarshal + backoff.OverrideBackoff (steps = 0: the member is left
// out) and runs the daemon's real Remote.Allocate (the PodENI path of a CNI ADD) against a record in the given state; the outcome
// is what the caller of Allocate receives.  Allocate answers from a goroutine of its own, which the harness cannot recover:
// the ops run in a child process (vh C15-remote-child), and an op the child dies in has the outcome `panic`.
//
//	rec: absent | deleting | notbind | otheruid | othertrunk | noalloc | good
func init() {
	register(&Prop{ID: "C15-remote-child", Run: func(c *Ctx) {
		in, out := os.Getenv("VH_RM_IN"), os.Getenv("VH_RM_OUT")
		fo, err := os.Create(out)
		if err != nil {
			os.Exit(3)
		}
		for _, op := range readOps(in) {
			fmt.Fprintln(fo, rmAllocOne(op))
			_ = fo.Sync()
		}
		_ = fo.Close()
		os.Exit(0)
	}})
}

func rmAllocOne(op string) string {
	f := strings.Fields(op)
	if len(f) != 4 || f[0] != "rm.alloc" {
		return "bad-op"
	}
	steps, err := strconv.Atoi(f[1])
	if err != nil || steps < 0 || steps > 6 {
		return "bad-op"
	}
	// (the members of wait.Backoff have no JSON names of their own and the decoder is case sensitive: a lower-case "steps" is
	// ignored, which is one more way to arrive at 0 steps)
	conf := `{"backoff_override":{"wait_podeni_status":{"Duration":1000000,"Factor":1,"Steps":` + f[1] + `}}}`
	if steps == 0 {
		conf = `{"backoff_override":{"wait_podeni_status":{"Duration":1000000,"Factor":1,"steps":3}}}`
	}
	cfg, err := daemon.MergeConfigAndUnmarshal(nil, []byte(conf))
	if err != nil {
		return "env-error:config"
	}
	backoff.OverrideBackoff(cfg.BackoffOverride)
	if backoff.Backoff(backoff.WaitPodENIStatus).Steps != steps {
		return "env-error:override"
	}
	pe := &networkv1beta1.PodENI{ObjectMeta: metav1.ObjectMeta{Namespace: "ns", Name: "p", Annotations: map[string]string{terwayTypes.PodUID: "uid-1"}, Finalizers: []string{"verif/hold"}},
		Spec:   networkv1beta1.PodENISpec{Allocations: []networkv1beta1.Allocation{{ENI: networkv1beta1.ENI{ID: "eni-1", MAC: "00:16:3e:00:00:01"}, IPv4: "10.0.0.5", IPv4CIDR: "10.0.0.0/24"}}},
		Status: networkv1beta1.PodENIStatus{Phase: networkv1beta1.ENIPhaseBind, TrunkENIID: "eni-trunk"}}
	switch f[2] {
	case "absent", "deleting", "good":
	case "notbind":
		pe.Status.Phase = networkv1beta1.ENIPhaseBinding
	case "otheruid":
		pe.Annotations[terwayTypes.PodUID] = "uid-0"
	case "othertrunk":
		pe.Status.TrunkENIID = "eni-trunk-old"
	case "noalloc":
		pe.Spec.Allocations = nil
	default:
		return "bad-op"
	}
	b := fake.NewClientBuilder().WithScheme(terwayTypes.Scheme).WithStatusSubresource(&networkv1beta1.PodENI{})
	if f[2] != "absent" {
		b = b.WithObjects(pe)
	}
	cl := b.Build()
	if f[2] != "absent" {
		st := pe.Status
		got := &networkv1beta1.PodENI{}
		if err := cl.Get(context.Background(), k8stypes.NamespacedName{Namespace: "ns", Name: "p"}, got); err != nil {
			return "env-error:get"
		}
		got.Status = st
		if err := cl.Status().Update(context.Background(), got); err != nil {
			return "env-error:status"
		}
	}
	if f[2] == "deleting" {
		if err := cl.Delete(context.Background(), pe); err != nil {
			return "env-error:delete"
		}
	}
	var trunk *daemon.ENI
	switch f[3] {
	case "1":
		trunk = &daemon.ENI{ID: "eni-trunk", Trunk: true}
	case "0":
	default:
		return "bad-op"
	}
	ctx, cancel := context.WithTimeout(context.Background(), 5*time.Second)
	defer cancel()
	ch, _ := eni.NewRemote(cl, trunk).Allocate(ctx, &daemon.CNI{PodName: "p", PodNamespace: "ns", PodUID: "uid-1"}, &eni.RemoteIPRequest{})
	if ch == nil {
		return "refused"
	}
	select {
	case resp := <-ch:
		if resp == nil {
			return "nil-reply"
		}
		if resp.Err == nil {
			if len(resp.NetworkConfigs) == 0 {
				return "ok-empty"
			}
			return "ok"
		}
		var te *terwayTypes.Error
		switch {
		case errors.As(resp.Err, &te):
			return "err:" + string(te.Code)
		case wait.Interrupted(resp.Err):
			return "err:timeout"
		}
		return "err:other"
	case <-time.After(4 * time.Second):
		return "none"
	}
}

// rmExec runs rm.alloc ops in child processes; an op the child dies in is answered `panic` (or `crash`) and the rest goes to a new child
func rmExec(c *Ctx, ops []string) []string {
	outs := make([]string, len(ops))
	self, err := os.Executable()
	if err != nil {
		for i := range outs {
			outs[i] = "env-error:self"
		}
		return outs
	}
	for from := 0; from < len(ops); {
		dir, err := os.MkdirTemp(filepath.Dir(self), "rm")
		if err != nil {
			outs[from] = "env-error:tmp"
			from++
			continue
		}
		in, out := filepath.Join(dir, "in"), filepath.Join(dir, "out")
		_ = os.WriteFile(in, []byte(strings.Join(ops[from:], "\n")+"\n"), 0o644)
		cmd := exec.Command(self, "C15-remote-child")
		cmd.Env = append(os.Environ(), "VH_RM_IN="+in, "VH_RM_OUT="+out)
		b, runErr := cmd.CombinedOutput()
		n := 0
		if fo, err := os.Open(out); err == nil {
			sc := bufio.NewScanner(fo)
			for sc.Scan() && from+n < len(ops) {
				outs[from+n] = sc.Text()
				n++
			}
			_ = fo.Close()
		}
		_ = os.RemoveAll(dir)
		from += n
		if from < len(ops) {
			// the child died in ops[from]
			what := "crash"
			if runErr != nil && strings.Contains(string(b), "panic:") {
				what = "panic"
			}
			outs[from] = what
			c.Extra["remote_child_died"] = tail(string(b), 600)
			from++
		}
	}
	for i, op := range ops {
		if outs[i] == "panic" || outs[i] == "crash" {
			c.Violate("C15/configmap/backoff-override/panic", "the daemon dies in Remote.Allocate (CNI ADD of a PodENI pod) with this backoff_override of eni_conf: "+outs[i], op)
		}
	}
	return outs
}

func rmRun(c *Ctx, n int) {
	r := c.R
	var ops []string
	for i := 0; i < n; i++ {
		steps := Pick(r, []int{0, 0, 1, 1, 2, 3})
		ops = append(ops, fmt.Sprintf("rm.alloc %d %s %s", steps, Pick(r, []string{"absent", "deleting", "notbind", "otheruid", "othertrunk", "noalloc", "good", "good"}), b01(r.Chance(50))))
	}
	outs := rmExec(c, ops)
	for i, op := range ops {
		c.One(op, outs[i], outs[i] == "ok")
		c.Count("remote-allocate:" + outs[i])
	}
}
