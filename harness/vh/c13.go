package main

import (
	"encoding/hex"
	"fmt"
	"math/big"
	"net"
	"sort"
	"strconv"
	"strings"

	cnitypes "github.com/containernetworking/cni/pkg/types"
	"github.com/vishvananda/netlink"
	"golang.org/x/sys/unix"

	"github.com/AliyunContainerService/terway/plugin/datapath"
	"github.com/AliyunContainerService/terway/plugin/driver/nic"
	dtypes "github.com/AliyunContainerService/terway/plugin/driver/types"
	terwayTypes "github.com/AliyunContainerService/terway/types"
)

func init() {
	register(&Prop{ID: "C13", Run: c13Run, Exec: pureExec(c13Exec), Corpus: [][]string{
		{"dp.gen contPolicy 0a000005/24;-;0a0000fd;-;-;-;-;-;0;1;0;-;65746830 3 - 0"},
		{"dp.gen hostPeerPolicy 0a000005/24;fd000000000000000000000000000005/64;0a0000fd;fd00000000000000fffffffffffffffd;-;-;-;-;0;1;0;-;65746830 7 76657468 1005"},
		{"dp.gen eniPolicy 0a000005/24;fd000000000000000000000000000005/64;0a0000fd;fd00000000000000fffffffffffffffd;-;-;0a0001fd;fd00000000000001fffffffffffffffd;1;1;0;-;65746830 5 656e69 1005"},
		{"dp.gen contIPVlan 0a000005/24;-;0a0000fd;-;0a000009;-;-;-;1;1;1;-;65746830 4 - 0"},
		{"dp.gen contExclusive -;fd000000000000000000000000000005/64;-;fd00000000000000fffffffffffffffd;-;-;-;-;0;1;1;4:0a0a0000/16>0a0000fd;65746831 4 - 0"},
		{"dp.gen contVlan 0a000005/24;-;0a0000fd;-;-;-;-;-;0;0;1;4:0a0a0000/16>-;65746831 4 - 0"},
	}})
}

func hexToIP(h string) net.IP {
	if h == "-" {
		return nil
	}
	n, _ := new(big.Int).SetString(h, 16)
	return net.IP(n.FillBytes(make([]byte, len(h)/2)))
}
func ipLenTok(t string) *net.IPNet {
	if t == "-" {
		return nil
	}
	p := strings.SplitN(t, "/", 2)
	ip := hexToIP(p[0])
	n, _ := strconv.Atoi(p[1])
	return &net.IPNet{IP: ip, Mask: net.CIDRMask(n, len(ip)*8)}
}
func hostNet(h string) *net.IPNet {
	ip := hexToIP(h)
	if ip == nil {
		return nil
	}
	return &net.IPNet{IP: ip, Mask: net.CIDRMask(len(ip)*8, len(ip)*8)}
}

func ipTok(ip net.IP) (string, string) { // (family, hex)
	if ip == nil {
		return "", "-"
	}
	if v4 := ip.To4(); v4 != nil {
		return "4", hex.EncodeToString(v4)
	}
	return "6", hex.EncodeToString(ip.To16())
}
func netTok(n *net.IPNet) string {
	if n == nil {
		return "-"
	}
	f, h := ipTok(n.IP)
	ones, _ := n.Mask.Size()
	if f == "" { // nil address inside a prefix
		if len(n.Mask) == 4 {
			return fmt.Sprintf("4:%08x/%d", 0, ones)
		}
		return fmt.Sprintf("6:%032x/%d", 0, ones)
	}
	return fmt.Sprintf("%s:%s/%d", f, h, ones)
}

type c13Cfg struct {
	cfg    *dtypes.SetupConfig
	famOn  map[string]bool
	extraN int
}

func parseC13Cfg(tok string) (*c13Cfg, bool) {
	p := strings.Split(tok, ";")
	if len(p) != 13 {
		return nil, false
	}
	cfg := &dtypes.SetupConfig{
		ContainerIPNet: &terwayTypes.IPNetSet{IPv4: ipLenTok(p[0]), IPv6: ipLenTok(p[1])},
		GatewayIP:      &terwayTypes.IPSet{IPv4: hexToIP(p[2]), IPv6: hexToIP(p[3])},
		HostIPSet:      &terwayTypes.IPNetSet{IPv4: hostNet(p[4]), IPv6: hostNet(p[5])},
		ENIGatewayIP:   &terwayTypes.IPSet{IPv4: hexToIP(p[6]), IPv6: hexToIP(p[7])},
		StripVlan:      p[8] == "1", DefaultRoute: p[9] == "1", MultiNetwork: p[10] == "1",
		ContainerIfName: unhexStr(p[12]), MTU: 1500,
	}
	n := 0
	if p[11] != "-" {
		for _, e := range strings.Split(p[11], ",") {
			x := strings.SplitN(e, ">", 2)
			d := ipLenTok(x[0][2:])
			cfg.ExtraRoutes = append(cfg.ExtraRoutes, cnitypes.Route{Dst: *d, GW: hexToIP(x[1])})
			n++
		}
	}
	return &c13Cfg{cfg: cfg, famOn: map[string]bool{"4": p[0] != "-", "6": p[1] != "-"}, extraN: n}, true
}

var (
	peerMAC, _ = net.ParseMAC("02:00:00:00:00:01")
	ownMAC, _  = net.ParseMAC("02:00:00:00:00:02")
)

func confCanon(c *nic.Conf) (string, []string) {
	var addrs, routes, rules, neighs, sys []string
	for _, a := range c.Addrs {
		s := netTok(a.IPNet)
		if a.Scope == int(netlink.SCOPE_HOST) || a.Flags&unix.IFA_F_NODAD != 0 {
			s += "*"
		}
		addrs = append(addrs, s)
	}
	for _, r := range c.Routes {
		_, g := ipTok(r.Gw)
		scope, on := "U", "-"
		if r.Scope == netlink.SCOPE_LINK {
			scope = "L"
		}
		if r.Flags&int(netlink.FLAG_ONLINK) != 0 {
			on = "O"
		}
		routes = append(routes, fmt.Sprintf("t%d,d%s,g%s,dev%d,%s,%s", r.Table, netTok(r.Dst), g, r.LinkIndex, scope, on))
	}
	for _, r := range c.Rules {
		o := "-"
		if r.OifName != "" {
			o = hexStr(r.OifName)
		}
		rules = append(rules, fmt.Sprintf("p%d,s%s,d%s,o%s,t%d", r.Priority, netTok(r.Src), netTok(r.Dst), o, r.Table))
	}
	for _, n := range c.Neighs {
		f, h := ipTok(n.IP)
		m := "fixed"
		switch n.HardwareAddr.String() {
		case peerMAC.String():
			m = "peer"
		case ownMAC.String():
			m = "own"
		}
		neighs = append(neighs, fmt.Sprintf("%s:%s,dev%d,%s", f, h, n.LinkIndex, m))
	}
	for _, v := range c.SysCtl {
		if len(v) == 2 {
			sys = append(sys, v[0]+"="+v[1])
		} else {
			sys = append(sys, "malformed")
		}
	}
	sort.Strings(sys)
	j := func(l []string) string {
		if len(l) == 0 {
			return "-"
		}
		return strings.Join(l, " ")
	}
	name := "-"
	if c.IfName != "" {
		name = hexStr(c.IfName)
	}
	all := append(append(append(append([]string{}, addrs...), routes...), rules...), neighs...)
	return fmt.Sprintf("if=%s | addrs %s | routes %s | rules %s | neighs %s | sysctl %s | strip=%s", name, j(addrs), j(routes), j(rules), j(neighs), j(sys), b01(c.StripVlan)), all
}

func c13Exec(c *Ctx, op string) string {
	return protect(func() string {
		f := strings.Fields(op)
		if len(f) != 6 || f[0] != "dp.gen" {
			return "bad-op"
		}
		pc, ok := parseC13Cfg(f[2])
		if !ok {
			return "bad-op"
		}
		idx, _ := strconv.Atoi(f[3])
		name := unhexStr(f[4])
		table, _ := strconv.Atoi(f[5])
		link := &netlink.Dummy{LinkAttrs: netlink.LinkAttrs{Index: idx, Name: name, HardwareAddr: ownMAC}}
		var conf *nic.Conf
		cont := false
		switch f[1] {
		case "contPolicy":
			conf, cont = datapath.VerifGenerateContCfgForPolicy(pc.cfg, link, peerMAC), true
		case "hostPeerPolicy":
			conf = datapath.GenerateHostPeerCfgForPolicy(pc.cfg, link, table)
		case "eniPolicy":
			conf = datapath.GenerateENICfgForPolicy(pc.cfg, link, table)
		case "contIPVlan":
			conf, cont = datapath.VerifGenerateContCfgForIPVlan(pc.cfg, link), true
		case "slaveIPVlan":
			conf = datapath.VerifGenerateSlaveLinkCfgForIPVlan(pc.cfg, link)
		case "eniIPVlan":
			conf = datapath.VerifGenerateENICfgForIPVlan(pc.cfg, link)
		case "contExclusive":
			conf, cont = datapath.VerifGenerateContCfgForExclusiveENI(pc.cfg, link), true
		case "contVlan":
			conf, cont = datapath.VerifGenerateContCfgForVlan(pc.cfg, link), true
		default:
			return "bad-op"
		}
		out, _ := confCanon(conf)
		// monitors, evaluated on the real generator's output
		if cont {
			// rules are installed last, when the interface already has its name inside the pod: a rule that names
			// the outgoing interface must name that one, or the kernel stores it detached and it never matches
			for _, r := range conf.Rules {
				if r.OifName != "" && r.OifName != pc.cfg.ContainerIfName {
					c.Violate("C13/oif-rule/"+f[1], fmt.Sprintf("rule for outgoing interface %q, the pod's interface is %q", r.OifName, pc.cfg.ContainerIfName), op)
				}
			}
		}
		if f[1] == "eniPolicy" {
			// traffic sourced from the pod leaves via that interface's gateway: the default route of the interface's table
			// goes to the gateway of the interface the table belongs to - the trunk's own gateway for a trunk member
			// (StripVlan), the pod subnet's gateway otherwise
			for _, fam := range []string{"4", "6"} {
				if !pc.famOn[fam] {
					continue
				}
				want := pc.cfg.GatewayIP.IPv4
				if pc.cfg.StripVlan {
					want = pc.cfg.ENIGatewayIP.IPv4
				}
				if fam == "6" {
					want = pc.cfg.GatewayIP.IPv6
					if pc.cfg.StripVlan {
						want = pc.cfg.ENIGatewayIP.IPv6
					}
				}
				found := false
				for _, r := range conf.Routes {
					if r.Table != table || r.Dst == nil {
						continue
					}
					ones, _ := r.Dst.Mask.Size()
					if ff, _ := ipTok(r.Dst.IP); ff != fam || ones != 0 {
						continue
					}
					found = true
					if !r.Gw.Equal(want) {
						c.Violate("C13/eni-table-gateway", fmt.Sprintf("the default route of table %d (family %s, trunk=%v) goes via %v, the interface's gateway is %v", table, fam, pc.cfg.StripVlan, r.Gw, want), op)
					}
				}
				if !found {
					c.Violate("C13/eni-table-gateway", fmt.Sprintf("no default route of family %s in table %d", fam, table), op)
				}
			}
		}
		for _, fam := range []string{"4", "6"} {
			if pc.famOn[fam] {
				continue
			}
			for _, a := range conf.Addrs {
				if ff, _ := ipTok(a.IP); ff == fam {
					c.Violate("C13/disabled-family/"+f[1], "address of a disabled family configured", op)
				}
			}
			extra := 0
			for _, r := range conf.Routes {
				if r.Dst != nil {
					if ff, _ := ipTok(r.Dst.IP); ff == fam || (ff == "" && len(r.Dst.Mask)*8 == map[string]int{"4": 32, "6": 128}[fam]) {
						extra++
					}
				}
			}
			userFam := 0
			for _, e := range pc.cfg.ExtraRoutes {
				if ff, _ := ipTok(e.Dst.IP); ff == fam {
					userFam++
				}
			}
			if extra > userFam || (!cont && extra > 0) {
				c.Violate("C13/disabled-family/"+f[1], fmt.Sprintf("%d routes of disabled family %s (user extra routes of that family: %d)", extra, fam, userFam), op)
			}
			for _, r := range conf.Rules {
				for _, n := range []*net.IPNet{r.Src, r.Dst} {
					if n != nil {
						if ff, _ := ipTok(n.IP); ff == fam {
							c.Violate("C13/disabled-family/"+f[1], "rule of a disabled family configured", op)
						}
					}
				}
			}
			for _, n := range conf.Neighs {
				if ff, _ := ipTok(n.IP); ff == fam {
					c.Violate("C13/disabled-family/"+f[1], "neighbour of a disabled family configured", op)
				}
			}
			if fam == "6" && len(conf.SysCtl) > 0 {
				c.Violate("C13/disabled-family/"+f[1], "IPv6 sysctls written although IPv6 is disabled", op)
			}
		}
		if cont {
			userDefault := false
			for _, e := range pc.cfg.ExtraRoutes {
				if ones, _ := e.Dst.Mask.Size(); ones == 0 {
					userDefault = true
				}
			}
			for _, fam := range []string{"4", "6"} {
				n := 0
				for _, r := range conf.Routes {
					if r.Table != 0 || r.Dst == nil {
						continue
					}
					ones, _ := r.Dst.Mask.Size()
					ff, _ := ipTok(r.Dst.IP)
					if ones == 0 && ff == fam {
						n++
					}
				}
				want := 0
				if pc.cfg.DefaultRoute && pc.famOn[fam] {
					want = 1
				}
				if n != want && !userDefault {
					c.Violate("C13/one-default/"+f[1], fmt.Sprintf("%d main-table default routes for family %s inside the pod, expected %d", n, fam, want), op)
				}
			}
		}
		return out
	})
}

func c13GenCfg(r *Rng, needHost, needEniGw bool) string {
	fam := r.Intn(3)
	ip4, ip6, gw4, gw6, h4, h6, e4, e6 := "-", "-", "-", "-", "-", "-", "-", "-"
	if fam != 1 {
		base := uint32(0x0a000000 + r.Intn(4)<<8)
		ip4 = fmt.Sprintf("%08x/%d", base+uint32(2+r.Intn(200)), 24)
		gw4 = fmt.Sprintf("%08x", base+253)
		h4 = fmt.Sprintf("%08x", 0xc0a80001+uint32(r.Intn(3)))
		e4 = fmt.Sprintf("%08x", 0x0a0001fd)
	}
	if fam != 0 {
		ip6 = fmt.Sprintf("fd00000000000000000000000000%04x/%d", 2+r.Intn(60000), 64)
		gw6 = "fd00000000000000fffffffffffffffd"
		h6 = fmt.Sprintf("fd0100000000000000000000000000%02x", 1+r.Intn(200))
		e6 = "fd00000000000001fffffffffffffffd"
	}
	if !needHost && r.Chance(50) { // the host IP set follows the allocation's families; absent for some callers
		h4, h6 = "-", "-"
	}
	if !needEniGw && r.Chance(50) {
		e4, e6 = "-", "-"
	}
	ex := "-"
	if r.Chance(35) {
		var xs []string
		for j := 0; j < 1+r.Intn(2); j++ {
			if r.Bool() {
				g := "-"
				if r.Bool() {
					g = fmt.Sprintf("%08x", 0x0a0000fd)
				}
				xs = append(xs, fmt.Sprintf("4:%08x/%d>%s", 0x0a0a0000+r.Intn(4)<<16, 16, g))
			} else {
				g := "-"
				if r.Bool() {
					g = "fd00000000000000fffffffffffffffd"
				}
				xs = append(xs, fmt.Sprintf("6:fd02000000000000000000000000%04x/%d>%s", 0, 112, g))
			}
		}
		ex = strings.Join(xs, ",")
	}
	return strings.Join([]string{ip4, ip6, gw4, gw6, h4, h6, e4, e6, b01(r.Chance(40)), b01(r.Chance(70)), b01(r.Chance(35)), ex, hexStr(Pick(r, []string{"eth0", "eth1", "net1"}))}, ";")
}

func c13Run(c *Ctx) {
	r := c.R
	runFibChild(c) // the real Setup/Teardown against this kernel, validated by the FIB model
	gens := []string{"contPolicy", "hostPeerPolicy", "eniPolicy", "contIPVlan", "slaveIPVlan", "eniIPVlan", "contExclusive", "contVlan"}
	for i := 0; i < c.Scale(4000, 80000); i++ {
		g := gens[i%len(gens)]
		cfg := c13GenCfg(r, strings.Contains(g, "IPVlan"), g == "eniPolicy")
		idx := 2 + r.Intn(30)
		op := fmt.Sprintf("dp.gen %s %s %d %s %d", g, cfg, idx, hexStr(Pick(r, []string{"eth1", "veth1234", "eni0"})), 1000+idx)
		c.One(op, c13Exec(c, op), !strings.Contains(cfg, "-;-;-;-"))
		c.Count(g)
	}
}
