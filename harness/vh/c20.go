package main

import (
	"context"
	"encoding/json"
	"fmt"
	"reflect"
	"strings"

	corev1 "k8s.io/api/core/v1"
	metav1 "k8s.io/apimachinery/pkg/apis/meta/v1"
	"sigs.k8s.io/controller-runtime/pkg/client"
	"sigs.k8s.io/controller-runtime/pkg/client/fake"

	terwayTypes "github.com/AliyunContainerService/terway/types"

	jsonpatch "github.com/evanphx/json-patch"

	"github.com/AliyunContainerService/terway/types/daemon"
)

func init() {
	register(&Prop{ID: "C20", Run: c20Run, Exec: c20Exec, Corpus: [][]string{
		{"cfg.merge { k:61 i:1 k:62 { k:63 n k:64 i:2 } } | { k:62 { k:64 n k:65 i:3 } k:66 n }"},
		{"cfg.merge { k:61 i:1 } | { }"},
		{"cfg.merge { k:61 { k:78 i:1 } } | { k:61 [ { k:79 n } ] }"},
		{"cni.chain 1 1 0 0 - 0 [ { k:74797065 s:746572776179 k:656e6969705f7669727475616c5f74797065 s:6970766c616e } ]"},
		{"cni.chain 0 0 0 0 - 0 [ { k:74797065 s:746572776179 k:656e6969705f7669727475616c5f74797065 s:6970766c616e } { k:74797065 s:63696c69756d2d636e69 } ]"},
	}})
}

// refMerge is RFC 7396 as written in the RFC (independent of evanphx and of the Lean model).
func refMerge(target, patch any) any {
	pm, ok := patch.(map[string]any)
	if !ok {
		return patch
	}
	tm, ok := target.(map[string]any)
	if !ok {
		tm = map[string]any{}
	} else {
		c := map[string]any{}
		for k, v := range tm {
			c[k] = v
		}
		tm = c
	}
	for k, v := range pm {
		if v == nil {
			delete(tm, k)
		} else {
			tm[k] = refMerge(tm[k], v)
		}
	}
	return tm
}

func c20Merge(c *Ctx, op string) string {
	f := strings.Fields(op)
	bar := -1
	for i, t := range f {
		if t == "|" {
			bar = i
		}
	}
	if bar < 0 {
		return "bad-op"
	}
	base, r1, ok1 := tokParse(f[1:bar])
	top, r2, ok2 := tokParse(f[bar+1:])
	if !ok1 || !ok2 || len(r1) != 0 || len(r2) != 0 {
		return "bad-op"
	}
	bj, tj := mustJSON(base), mustJSON(top)
	out := "err"
	if merged, err := jsonpatch.MergePatch(bj, tj); err == nil {
		if v, err := parseJSONNum(merged); err == nil {
			out = tokShow(v)
		} else {
			out = "invalid-json"
		}
	}
	// monitors at the level users observe: the Config produced by the real MergeConfigAndUnmarshal
	_, baseIsObj := base.(map[string]any)
	_, topIsObj := top.(map[string]any)
	if baseIsObj && topIsObj {
		plain, errPlain := daemon.MergeConfigAndUnmarshal(nil, bj)
		empty, errEmpty := daemon.MergeConfigAndUnmarshal([]byte("{}"), bj)
		if (errPlain == nil) != (errEmpty == nil) || (errPlain == nil && !reflect.DeepEqual(plain, empty)) {
			c.Violate("C20/merge/empty-overlay", "an empty overlay changes the configuration", op)
		}
		cfg1, err1 := daemon.MergeConfigAndUnmarshal(tj, bj)
		ref := refMerge(base, top)
		refCfg := &daemon.Config{}
		errRef := json.Unmarshal(mustJSON(ref), refCfg)
		if err1 == nil && errRef == nil && !reflect.DeepEqual(cfg1, refCfg) {
			c.Violate("C20/merge/not-merge-patch", fmt.Sprintf("MergeConfigAndUnmarshal differs from RFC 7396: got %+v want %+v", *cfg1, *refCfg), op)
		}
		if (err1 == nil) != (errRef == nil) {
			c.Violate("C20/merge/error-mismatch", fmt.Sprintf("MergeConfigAndUnmarshal error=%v, RFC 7396 reference error=%v", err1, errRef), op)
		}
		// the control plane's way to the same configuration (ConfigFromConfigMap: the cluster ConfigMap, over it the ConfigMap the node's
		// terway-config label names): the overlay applied there must give what the already-merged document gives on its own
		viaLabel, errL := cfgFromConfigMaps(string(bj), string(tj))
		merged, errM := cfgFromConfigMaps(string(mustJSON(ref)), "")
		if len(bj) > 2 && ((errL == nil) != (errM == nil) || (errL == nil && !reflect.DeepEqual(viaLabel, merged))) {
			c.Violate("C20/merge/node-configmap-not-applied", fmt.Sprintf("ConfigFromConfigMap with the node's dynamic ConfigMap gives %+v (err %v), the merged document alone gives %+v (err %v)", viaLabel, errL, merged, errM), op)
		}
		c.Count("merge-via-node-configmap")
		if err1 == nil && errRef == nil {
			cfg2, err2 := daemon.MergeConfigAndUnmarshal(tj, mustJSON(ref))
			if err2 != nil || !reflect.DeepEqual(cfg1, cfg2) {
				c.Violate("C20/merge/not-idempotent", "applying the overlay twice differs from applying it once", op)
			}
		}
	}
	return out
}

// cfgFromConfigMaps runs the real daemon.ConfigFromConfigMap for node n1 over a fake API server holding kube-system/eni-config
// (eni_conf = base) and, if overlay is not empty, kube-system/dyn (eni_conf = overlay) with the node labelled terway-config=dyn.
func cfgFromConfigMaps(base, overlay string) (*daemon.Config, error) {
	node := &corev1.Node{ObjectMeta: metav1.ObjectMeta{Name: "n1", Labels: map[string]string{}}}
	objs := []client.Object{node, &corev1.ConfigMap{ObjectMeta: metav1.ObjectMeta{Namespace: "kube-system", Name: "eni-config"}, Data: map[string]string{"eni_conf": base}}}
	if overlay != "" {
		node.Labels["terway-config"] = "dyn"
		objs = append(objs, &corev1.ConfigMap{ObjectMeta: metav1.ObjectMeta{Namespace: "kube-system", Name: "dyn"}, Data: map[string]string{"eni_conf": overlay}})
	}
	cl := fake.NewClientBuilder().WithScheme(terwayTypes.Scheme).WithObjects(objs...).Build()
	return daemon.ConfigFromConfigMap(context.Background(), cl, "n1")
}

// runChainDriver executes the chain ops through the tagged test driver of cmd/terway-cli in private
// mount and network namespaces.
func runChainDriver(ops []string) ([]string, error) {
	return runTestDriver("VERIF_TERWAYCLI_TEST", ops, true)
}

func typeOf(p any) string {
	m, _ := p.(map[string]any)
	s, _ := m["type"].(string)
	return s
}

func c20ChainMonitor(c *Ctx, op, out string) {
	if strings.HasPrefix(out, "panic") {
		c.Violate("C20/chain/panic", "terway-cli panics on this CNI configuration ("+out+")", op)
		c.Violate("C15/cni-config/panic", "terway-cli panics on this CNI configuration ("+out+"): a malformed value must be ignored or reported as an error", op)
		return
	}
	f := strings.Fields(op)
	if f[0] == "cni.gen" {
		f = f[2:] // <old> <list> come before the fields of cni.chain
	}
	ebpf := f[1] == "1"
	in, _, _ := tokParse(f[7:])
	inArr, _ := in.([]any)
	if out == "invalid-json" || out == "bad-header" || out == "panic" {
		c.Violate("C20/chain/"+out, "generated CNI configuration list is not valid: "+out, op)
		return
	}
	if strings.HasPrefix(out, "err") || strings.HasPrefix(out, "env-error") || out == "bad-op" {
		return
	}
	o, _, ok := tokParse(strings.Fields(out))
	outArr, _ := o.([]any)
	if !ok {
		return
	}
	var want []string
	for _, p := range inArr {
		if typeOf(p) == "cilium-cni" && !ebpf {
			continue
		}
		want = append(want, typeOf(p))
	}
	var got []string
	for _, p := range outArr {
		got = append(got, typeOf(p))
	}
	g := strings.Join(got, ",")
	w := strings.Join(want, ",")
	if g != w && g != strings.TrimPrefix(w+",cilium-cni", ",") {
		c.Violate("C20/chain/order", fmt.Sprintf("output plugin types [%s] are not the input order [%s] (+ optional chainer)", g, w), op)
	}
	lastDP := ""
	hasCilium := false
	for _, p := range outArr {
		m, _ := p.(map[string]any)
		switch typeOf(p) {
		case "cilium-cni":
			hasCilium = true
		case "terway":
			vt, has := m["eniip_virtual_type"]
			if ebpf {
				s, _ := vt.(string)
				if s != "veth" && s != "ipvlan" && s != "datapathv2" {
					c.Violate("C20/chain/virtual-type", fmt.Sprintf("eniip_virtual_type %v outside the supported set", vt), op)
				}
				bm, _ := m["bandwidth_mode"].(string)
				if bm != "edt" && bm != "tc" {
					c.Violate("C20/chain/bandwidth-mode", fmt.Sprintf("bandwidth_mode %v outside the supported set", m["bandwidth_mode"]), op)
				}
				lastDP = s
			} else if has {
				c.Violate("C20/chain/virtual-type-without-ebpf", "eniip_virtual_type kept on a kernel without eBPF", op)
			}
			if _, ok := m["cniVersion"]; ok {
				c.Violate("C20/chain/member-version", "cniVersion kept inside a member plugin", op)
			}
		}
	}
	if !ebpf && hasCilium {
		c.Violate("C20/chain/chainer-without-ebpf", "an eBPF chainer is present on a kernel without eBPF support", op)
	}
	if ebpf && (lastDP == "ipvlan" || lastDP == "datapathv2") && !hasCilium {
		c.Violate("C20/chain/chainer-missing", "datapath "+lastDP+" selected but no eBPF chainer in the list", op)
	}
}

func c20Exec(c *Ctx, ops []string) []string {
	outs := make([]string, len(ops))
	var chainOps []string
	var chainIdx []int
	for i, op := range ops {
		switch {
		case strings.HasPrefix(op, "cfg.merge "):
			outs[i] = protect(func() string { return c20Merge(c, op) })
		case strings.HasPrefix(op, "cni.chain "), strings.HasPrefix(op, "cni.gen "):
			chainOps = append(chainOps, op)
			chainIdx = append(chainIdx, i)
		default:
			outs[i] = "bad-op"
		}
	}
	if len(chainOps) > 0 {
		res, err := runChainDriver(chainOps)
		for k, i := range chainIdx {
			if err != nil {
				outs[i] = "driver-error"
				c.Extra["chain_driver_error"] = err.Error()
				continue
			}
			outs[i] = res[k]
			c20ChainMonitor(c, ops[i], res[k])
		}
	}
	return outs
}

var c20Keys = []string{"a", "b", "c", "max_pool_size", "min_pool_size", "vswitches", "security_groups", "eni_tags", "ip_stack", "access_key", "access_secret", "enable_eni_trunking", "extra_routes", "x"}

func genJSON(r *Rng, depth int, configish bool) any {
	switch x := r.Intn(10); {
	case depth <= 0 || x < 3:
		switch r.Intn(5) {
		case 0:
			return nil
		case 1:
			return r.Bool()
		case 2:
			return r.Intn(20)
		default:
			return Pick(r, []string{"", "v", "ipv4", "dual", "LTAI-key", "sg-1", "vsw-1"})
		}
	case x < 5:
		n := r.Intn(3)
		arr := []any{}
		for i := 0; i < n; i++ {
			arr = append(arr, genJSON(r, depth-1, configish))
		}
		return arr
	default:
		n := r.Intn(4)
		m := map[string]any{}
		for i := 0; i < n; i++ {
			m[Pick(r, c20Keys)] = genJSON(r, depth-1, configish)
		}
		return m
	}
}

// genConfig builds a document shaped like the real eni_conf, so that most cases decode into Config.
func genConfig(r *Rng, overlay bool) map[string]any {
	m := map[string]any{}
	put := func(p int, k string, v func() any) {
		if r.Chance(p) {
			if overlay && r.Chance(20) {
				m[k] = nil
			} else {
				m[k] = v()
			}
		}
	}
	put(70, "version", func() any { return "1" })
	put(60, "max_pool_size", func() any { return r.Intn(30) })
	put(60, "min_pool_size", func() any { return r.Intn(10) })
	put(50, "ip_stack", func() any { return Pick(r, []string{"ipv4", "dual", "ipv6"}) })
	put(50, "access_key", func() any { return Pick(r, []string{"LTAI-cluster", "LTAI-node"}) })
	put(50, "access_secret", func() any { return Pick(r, []string{"s3cr3t", "other"}) })
	put(50, "security_group", func() any { return Pick(r, []string{"sg-1", "sg-2"}) })
	put(40, "security_groups", func() any {
		l := []any{}
		for i := 0; i < r.Intn(3); i++ {
			l = append(l, fmt.Sprintf("sg-%d", r.Intn(4)))
		}
		return l
	})
	put(60, "vswitches", func() any {
		z := map[string]any{}
		for i := 0; i < 1+r.Intn(2); i++ {
			var l any = []any{fmt.Sprintf("vsw-%d", r.Intn(4))}
			if overlay && r.Chance(25) {
				l = nil
			}
			z[Pick(r, []string{"zone-a", "zone-b", "zone-c"})] = l
		}
		return z
	})
	put(40, "eni_tags", func() any {
		z := map[string]any{}
		for i := 0; i < r.Intn(3); i++ {
			var v any = Pick(r, []string{"1", "2"})
			if overlay && r.Chance(25) {
				v = nil
			}
			z[Pick(r, []string{"k1", "k2", "k3"})] = v
		}
		return z
	})
	put(30, "enable_eni_trunking", func() any { return r.Bool() })
	put(20, "kube_client_qps", func() any { return r.Intn(50) })
	return m
}

// c15ChainRun: CNI configuration lists whose terway entry carries values of every JSON kind in the fields terway-cli
// reads, through both steps of `terway-cli cni` (mergeConfigList, then storeRuntimeConfig) - C15's "CNI configuration" clause.
func c15ChainRun(c *Ctx, n int) {
	r := c.R
	kinds := []any{nil, true, false, 0, 7, 1.5, "", "ebpf", "iptables", "veth", "IPVlan", "datapathv2", "bogus", []any{"ebpf"}, map[string]any{"a": 1}}
	var ops []string
	for i := 0; i < n; i++ {
		p := map[string]any{"type": "terway"}
		for _, k := range []string{"network_policy_provider", "eniip_virtual_type", "bandwidth_mode", "capabilities", "cniVersion", "name"} {
			if r.Chance(45) {
				p[k] = Pick(r, kinds)
			}
		}
		if r.Chance(8) {
			p["type"] = Pick(r, kinds)
		}
		plugins := []any{p}
		if r.Chance(30) {
			plugins = append(plugins, map[string]any{"type": Pick(r, []any{"portmap", "tuning", 3, nil})})
		}
		ops = append(ops, chainOrGen(r, len(plugins))+fmt.Sprintf(" %s %s %s %s %s %s %s", b01(r.Chance(75)), b01(r.Chance(50)), b01(r.Chance(50)), b01(r.Chance(40)),
			Pick(r, []string{"-", "-", "t", "f"}), b01(r.Chance(25)), tokShow(plugins)))
	}
	outs := c20Exec(c, ops)
	for i, op := range ops {
		c.One(op, outs[i], strings.HasPrefix(outs[i], "[ {"))
		c.Count("cni-config")
	}
}

// chainOrGen: one list in four goes through the whole first step of `terway-cli cni` (processInput: the files under /etc/eni,
// the kernel probes, the file at --output, where an earlier run may have left a shorter or a longer list) instead of
// mergeConfigList alone; a single plugin also comes as 10-terway.conf without a conflist.
func chainOrGen(r *Rng, nPlugins int) string {
	if !r.Chance(25) {
		return "cni.chain"
	}
	list := "1"
	if nPlugins == 1 && r.Chance(40) {
		list = "0"
	}
	return "cni.gen " + Pick(r, []string{"none", "short", "long", "long"}) + " " + list
}

func c20Run(c *Ctx) {
	r := c.R
	for i := 0; i < c.Scale(2500, 40000); i++ {
		var base, top any
		switch r.Intn(10) {
		case 0, 1, 2, 3, 4:
			base, top = genConfig(r, false), genConfig(r, true)
			c.Count("merge-configish")
		case 5, 6, 7:
			base, top = genJSON(r, 4, false), genJSON(r, 4, false)
			if _, ok := base.(map[string]any); !ok && r.Chance(70) {
				base = map[string]any{"a": base}
			}
			if _, ok := top.(map[string]any); !ok && r.Chance(70) {
				top = map[string]any{"a": top}
			}
			c.Count("merge-random-tree")
		case 8:
			base, top = genConfig(r, false), map[string]any{}
			c.Count("merge-empty-overlay")
		default:
			base = genConfig(r, false)
			top = refMerge(map[string]any{}, genConfig(r, false)) // overlay without nulls
			c.Count("merge-null-free-overlay")
		}
		op := "cfg.merge " + tokShow(base) + " | " + tokShow(top)
		out := protect(func() string { return c20Merge(c, op) })
		tm, _ := top.(map[string]any)
		c.One(op, out, len(tm) > 0 && out != "err")
	}
	// chain: generated once, executed in one batch by the package-main test driver
	var ops []string
	vtypes := []any{nil, "veth", "Veth", "VETH", "ipvlan", "IPVlan", "datapathv2", "DataPathV2", "", "bogus", 7}
	npps := []any{nil, nil, "iptables", "ebpf", "ebpf", 5}
	for i := 0; i < c.Scale(1200, 20000); i++ {
		var plugins []any
		n := r.Intn(5)
		if r.Chance(60) {
			n = 1 + r.Intn(2)
		}
		for k := 0; k < n; k++ {
			p := map[string]any{}
			switch x := r.Intn(100); {
			case x < 55:
				p["type"] = "terway"
				if v := Pick(r, vtypes); v != nil {
					p["eniip_virtual_type"] = v
				}
				if v := Pick(r, npps); v != nil {
					p["network_policy_provider"] = v
				}
				if r.Chance(30) {
					p["capabilities"] = map[string]any{"bandwidth": true}
				}
				if r.Chance(20) {
					p["bandwidth_mode"] = "old"
				}
			case x < 75:
				p["type"] = "cilium-cni"
				if r.Chance(50) {
					p["enable-debug"] = r.Bool()
				}
			case x < 90:
				p["type"] = Pick(r, []string{"portmap", "bandwidth", "tuning"})
			case x < 95:
				p["type"] = 3
			default:
			}
			if r.Chance(30) {
				p["cniVersion"] = "0.3.1"
			}
			if r.Chance(30) {
				p["name"] = "terway"
			}
			plugins = append(plugins, p)
		}
		if plugins == nil {
			plugins = []any{}
		}
		op := chainOrGen(r, len(plugins)) + fmt.Sprintf(" %s %s %s %s %s %s %s", b01(r.Chance(75)), b01(r.Chance(50)), b01(r.Chance(50)), b01(r.Chance(40)),
			Pick(r, []string{"-", "-", "t", "f"}), b01(r.Chance(25)), tokShow(plugins))
		ops = append(ops, op)
	}
	outs := c20Exec(c, ops)
	for i, op := range ops {
		c.One(op, outs[i], strings.HasPrefix(outs[i], "[ {"))
		if strings.HasPrefix(op, "cni.gen ") {
			c.Count("chain-through-files-old-" + strings.Fields(op)[1])
		}
		switch {
		case strings.HasPrefix(outs[i], "err"):
			c.Count("chain-" + outs[i])
		case strings.Contains(outs[i], hexStr("cilium-cni")):
			c.Count("chain-with-chainer")
		default:
			c.Count("chain-plain")
		}
	}
}
