package main

// The "pool world" (C01, C06, C07): the REAL eni.Manager over REAL eni.Local pools whose mutex is
// replaced (hook VerifSetLocker) by a Locker of the harness.  Every lock region of every goroutine
// (request path, reply goroutine, per-request worker, factory worker, dispose worker, balancer, sync)
// is granted by the harness's scheduler in a random order and recorded together with the Local's state
// at its end (hook VerifStateLocked); every cloud call blocks at a gate of the fake cloud until the
// harness lets it return with a result of its choice (success, error before the effect, error after a
// partial or the full effect, quota / exhaustion codes).  The recorded regions are the protocol lines
// the Lean pool model replays one by one.

import (
	"bytes"
	"context"
	"errors"
	"fmt"
	"net"
	"net/netip"
	"regexp"
	"runtime"
	"sort"
	"strconv"
	"strings"
	"sync"
	"sync/atomic"
	"time"

	apiErr "github.com/AliyunContainerService/terway/pkg/aliyun/client/errors"
	"github.com/AliyunContainerService/terway/pkg/eni"
	terwayTypes "github.com/AliyunContainerService/terway/types"
	"github.com/AliyunContainerService/terway/types/daemon"
)

// ---------- goroutine identity ----------

var (
	reGID     = regexp.MustCompile(`^goroutine (\d+) \[`)
	reCreated = regexp.MustCompile(`created by (\S+) in goroutine (\d+)`)
	reEniFn   = regexp.MustCompile(`terway/pkg/eni\.\(\*(?:Local|Manager)\)\.([A-Za-z0-9_.]+)\(`)
)

type gInfo struct {
	gid     int64
	parent  int64
	label   string // innermost pkg/eni (*Local) function on the stack
	viaWait bool
}

func whoAmI() gInfo {
	buf := make([]byte, 16384)
	n := runtime.Stack(buf, false)
	b := buf[:n]
	var g gInfo
	if m := reGID.FindSubmatch(b); m != nil {
		g.gid, _ = strconv.ParseInt(string(m[1]), 10, 64)
	}
	if m := reCreated.FindSubmatch(b); m != nil {
		g.parent, _ = strconv.ParseInt(string(m[2]), 10, 64)
	}
	if m := reEniFn.FindSubmatch(b); m != nil {
		g.label = string(m[1])
	}
	g.viaWait = bytes.Contains(b, []byte("sync.(*Cond).Wait"))
	return g
}

// ---------- events ----------

type pEvent struct {
	kind    string // region | call | ret | reply | env
	slot    int
	g       gInfo
	snap    string // region: the Local's state at the end
	call    string // call/ret: create|assign4|assign6|unassign4|unassign6|delete|load
	args    string
	result  string
	text    string // reply / env: ready-made line
	role    pRole  // region: what the goroutine was doing for the harness at that time
	hasRole bool
}

// ---------- the scheduling lock ----------

type pWaiter struct {
	ch chan struct{}
	g  gInfo
}

type schedLock struct {
	w       *pWorld
	slot    int
	local   *eni.Local
	mu      sync.Mutex
	held    bool
	cur     gInfo
	waiters []*pWaiter
}

func (s *schedLock) Lock() {
	wt := &pWaiter{ch: make(chan struct{}), g: whoAmI()}
	s.mu.Lock()
	s.waiters = append(s.waiters, wt)
	s.mu.Unlock()
	s.w.kick()
	<-wt.ch
}

func (s *schedLock) Unlock() {
	st := s.local.VerifStateLocked()
	s.w.record(pEvent{kind: "region", slot: s.slot, g: s.cur, snap: s.w.snapStr(st)})
	s.mu.Lock()
	s.held = false
	s.mu.Unlock()
	s.w.kick()
}

// grant hands the lock to one of the waiters (scheduler's choice).
func (s *schedLock) grant(pick func(n int) int) bool {
	s.mu.Lock()
	defer s.mu.Unlock()
	if s.held || len(s.waiters) == 0 {
		return false
	}
	i := pick(len(s.waiters))
	wt := s.waiters[i]
	if wt.g.label == "sync" {
		// a sync that comes back for the lock a second time (it would have to have given it up in between) can be held
		// back for a moment, so that a cloud answer arriving meanwhile is recorded first
		if n := atomic.LoadInt32(&s.w.syncRegions); n >= 1 && atomic.LoadInt32(&s.w.holdSync) == 1 {
			atomic.AddInt32(&s.w.syncHeld, 1)
			return false
		}
		atomic.AddInt32(&s.w.syncRegions, 1)
	}
	s.waiters = append(s.waiters[:i], s.waiters[i+1:]...)
	s.held = true
	s.cur = wt.g
	close(wt.ch)
	return true
}

func (s *schedLock) busy() bool {
	s.mu.Lock()
	defer s.mu.Unlock()
	return s.held || len(s.waiters) > 0
}

// ---------- fake cloud with gates ----------

type pGate struct {
	g       gInfo
	slot    int
	call    string
	eni     string
	n4, n6  int
	ips     []int
	release chan pFault
	arrived time.Time
}

type pFault struct {
	mode string // ok | before | partial | after
	code string // err | enilimit | ipexhausted
	k    int    // partial: how many take effect
}

type pENI struct {
	id      string
	idx     int
	primary int
	ips     map[int]bool // both families
}

type pCloud struct {
	w      *pWorld
	mu     sync.Mutex
	enis   map[string]*pENI
	next   int
	gates  []*pGate
	maxENI int
}

func pAddr(id int) netip.Addr {
	if id >= dwV6Base {
		n := id - dwV6Base
		return netip.MustParseAddr(fmt.Sprintf("fd00::%x:%x", n/100, n%100))
	}
	return netip.MustParseAddr(fmt.Sprintf("10.0.%d.%d", id/100, id%100))
}

func (c *pCloud) gate(call, eniID string, n4, n6 int, ips []int) pFault {
	g := &pGate{g: whoAmI(), call: call, eni: eniID, n4: n4, n6: n6, ips: ips, release: make(chan pFault, 1), arrived: time.Now()}
	g.slot = c.w.slotOfGID(g.g.gid)
	args := ""
	switch call {
	case "create":
		args = fmt.Sprintf("%d:%d", n4, n6)
	case "assign4":
		args = strconv.Itoa(n4)
	case "assign6":
		args = strconv.Itoa(n6)
	case "unassign4", "unassign6":
		args = idsStr(ips)
	case "delete":
		args = eniID
	}
	c.w.monitorCall(g)
	c.w.record(pEvent{kind: "call", slot: g.slot, g: g.g, call: call, args: args})
	c.mu.Lock()
	c.gates = append(c.gates, g)
	c.mu.Unlock()
	c.w.kick()
	return <-g.release
}

func pErr(code string) error {
	switch code {
	case "enilimit":
		return pCodedErr{apiErr.ErrEniPerInstanceLimitExceeded}
	case "ipexhausted":
		return pCodedErr{apiErr.InvalidVSwitchIDIPNotEnough}
	}
	return errors.New("injected cloud error")
}

func (c *pCloud) eniObj(e *pENI) *daemon.ENI {
	_, cidr4, _ := net.ParseCIDR(fmt.Sprintf("10.0.%d.0/24", e.idx))
	_, cidr6, _ := net.ParseCIDR(fmt.Sprintf("fd00::%x:0/112", e.idx))
	return &daemon.ENI{ID: e.id, MAC: fmt.Sprintf("02:00:00:00:01:%02x", e.idx),
		PrimaryIP:   terwayTypes.IPSet{IPv4: net.ParseIP(pAddr(e.primary).String())},
		GatewayIP:   terwayTypes.IPSet{IPv4: net.ParseIP(fmt.Sprintf("10.0.%d.253", e.idx)), IPv6: net.ParseIP(fmt.Sprintf("fd00::%x:fd", e.idx))},
		VSwitchCIDR: terwayTypes.IPNetSet{IPv4: cidr4, IPv6: cidr6}, VSwitchID: "vsw-1"}
}

func (c *pCloud) fresh(e *pENI, six bool, n int) []int {
	var out []int
	for k := 1; len(out) < n && k < 100; k++ {
		id := e.idx*100 + k
		if six {
			id += dwV6Base
		}
		if !e.ips[id] && !c.w.everUsed[id] {
			e.ips[id] = true
			c.w.everUsed[id] = true
			out = append(out, id)
		}
	}
	return out
}

func addrs(ids []int) []netip.Addr {
	var r []netip.Addr
	for _, id := range ids {
		r = append(r, pAddr(id))
	}
	return r
}

func (c *pCloud) CreateNetworkInterface(ipv4, ipv6 int, eniType string) (*daemon.ENI, []netip.Addr, []netip.Addr, error) {
	f := c.gate("create", "", ipv4, ipv6, nil)
	c.mu.Lock()
	defer c.mu.Unlock()
	if f.mode == "before" {
		c.w.record(pEvent{kind: "ret", call: "create", g: whoAmI(), result: fmt.Sprintf("- 0 - - %s", f.code)})
		return nil, nil, nil, pErr(f.code)
	}
	c.next++
	e := &pENI{id: fmt.Sprintf("eni-%d", c.next), idx: c.next, ips: map[int]bool{}}
	c.enis[e.id] = e
	v4 := c.fresh(e, false, ipv4)
	e.primary = v4[0]
	v6 := c.fresh(e, true, ipv6)
	c.w.record(pEvent{kind: "env", text: fmt.Sprintf("pl.env cloud add %s %s", e.id, idsStr(append(append([]int(nil), v4...), v6...)))})
	if f.mode == "after" {
		// the interface exists, the call reports an error: the factory contract is to return it with the error
		c.w.record(pEvent{kind: "ret", call: "create", g: whoAmI(), result: fmt.Sprintf("%s %d %s %s %s", e.id, e.primary, idsStr(v4), idsStr(v6), f.code)})
		return c.eniObj(e), addrs(v4), addrs(v6), pErr(f.code)
	}
	c.w.record(pEvent{kind: "ret", call: "create", g: whoAmI(), result: fmt.Sprintf("%s %d %s %s -", e.id, e.primary, idsStr(v4), idsStr(v6))})
	return c.eniObj(e), addrs(v4), addrs(v6), nil
}

func (c *pCloud) assign(call, eniID string, six bool, count int) ([]netip.Addr, error) {
	n4, n6 := count, 0
	if six {
		n4, n6 = 0, count
	}
	f := c.gate(call, eniID, n4, n6, nil)
	c.mu.Lock()
	defer c.mu.Unlock()
	e := c.enis[eniID]
	if f.mode == "before" || e == nil {
		code := f.code
		if code == "" {
			code = "err"
		}
		c.w.record(pEvent{kind: "ret", call: call, g: whoAmI(), result: "- " + code})
		return nil, pErr(code)
	}
	k := count
	if f.mode == "partial" {
		k = f.k
	}
	got := c.fresh(e, six, k)
	if len(got) > 0 {
		c.w.record(pEvent{kind: "env", text: fmt.Sprintf("pl.env cloud add %s %s", e.id, idsStr(got))})
	}
	if f.mode == "ok" {
		c.w.record(pEvent{kind: "ret", call: call, g: whoAmI(), result: idsStr(got) + " -"})
		return addrs(got), nil
	}
	c.w.record(pEvent{kind: "ret", call: call, g: whoAmI(), result: idsStr(got) + " " + f.code})
	return addrs(got), pErr(f.code)
}

func (c *pCloud) AssignNIPv4(eniID string, count int, mac string) ([]netip.Addr, error) {
	return c.assign("assign4", eniID, false, count)
}
func (c *pCloud) AssignNIPv6(eniID string, count int, mac string) ([]netip.Addr, error) {
	return c.assign("assign6", eniID, true, count)
}

func (c *pCloud) unassign(call, eniID string, ips []netip.Addr) error {
	var ids []int
	for _, a := range ips {
		ids = append(ids, dwAddrID(a.String()))
	}
	sort.Ints(ids)
	f := c.gate(call, eniID, 0, 0, ids)
	c.mu.Lock()
	defer c.mu.Unlock()
	e := c.enis[eniID]
	if f.mode != "before" && e != nil {
		for _, id := range ids {
			delete(e.ips, id)
			c.w.goneWhy[fmt.Sprintf("%s:%d", eniID, id)] = "unassigned"
		}
		c.w.record(pEvent{kind: "env", text: fmt.Sprintf("pl.env cloud del %s %s", eniID, idsStr(ids))})
	}
	ok := f.mode == "ok"
	c.w.record(pEvent{kind: "ret", call: call, g: whoAmI(), result: idsStr(ids) + " " + b01(ok)})
	if !ok {
		return pErr("err")
	}
	return nil
}
func (c *pCloud) UnAssignNIPv4(eniID string, ips []netip.Addr, mac string) error {
	return c.unassign("unassign4", eniID, ips)
}
func (c *pCloud) UnAssignNIPv6(eniID string, ips []netip.Addr, mac string) error {
	return c.unassign("unassign6", eniID, ips)
}

func (c *pCloud) DeleteNetworkInterface(eniID string) error {
	f := c.gate("delete", eniID, 0, 0, nil)
	c.mu.Lock()
	defer c.mu.Unlock()
	if f.mode != "before" {
		delete(c.enis, eniID)
		c.w.record(pEvent{kind: "env", text: "pl.env cloud gone " + eniID})
	}
	ok := f.mode == "ok"
	c.w.record(pEvent{kind: "ret", call: "delete", g: whoAmI(), result: b01(ok)})
	if !ok {
		return pErr("err")
	}
	return nil
}

// LoadNetworkInterface is called with the Local's lock held (sync): it is not gated.
func (c *pCloud) LoadNetworkInterface(mac string) ([]netip.Addr, []netip.Addr, error) {
	c.mu.Lock()
	defer c.mu.Unlock()
	for _, e := range c.enis {
		if fmt.Sprintf("02:00:00:00:01:%02x", e.idx) != mac {
			continue
		}
		if c.w.loadFails {
			c.w.record(pEvent{kind: "ret", call: "load", g: whoAmI(), result: "err"})
			return nil, nil, errors.New("metadata unavailable")
		}
		var ids []int
		for id := range e.ips {
			ids = append(ids, id)
		}
		sort.Ints(ids)
		var v4, v6 []netip.Addr
		for _, id := range ids {
			if id >= dwV6Base {
				v6 = append(v6, pAddr(id))
			} else {
				v4 = append(v4, pAddr(id))
			}
		}
		// what this read no longer shows counts as "seen by the sync" once the sync has applied it (the end of its
		// lock region), not when the metadata was read: an address handed out in between was not yet seen as removed
		var missed []string
		for k := range c.w.goneWhy {
			if strings.HasPrefix(k, e.id+":") {
				missed = append(missed, k)
			}
		}
		c.w.evMu.Lock()
		c.w.loadSaw[whoAmI().gid] = missed
		c.w.evMu.Unlock()
		c.w.record(pEvent{kind: "ret", call: "load", g: whoAmI(), result: idsStr(ids)})
		return v4, v6, nil
	}
	c.w.record(pEvent{kind: "ret", call: "load", g: whoAmI(), result: "err"})
	return nil, nil, errors.New("eni not found")
}

func (c *pCloud) GetAttachedNetworkInterface(preferTrunkID string) ([]*daemon.ENI, error) {
	return nil, nil
}

func (c *pCloud) ledgerStr() string {
	c.mu.Lock()
	defer c.mu.Unlock()
	var out []string
	for _, e := range c.enis {
		for id := range e.ips {
			out = append(out, fmt.Sprintf("%s:%d", e.id, id))
		}
	}
	sort.Strings(out)
	return joinOrDash(out)
}

// ---------- the world ----------

type pRole struct {
	kind    string           // alloc | release | dispose | balance | sync
	res     map[string][]int // release: eni -> addresses
	rid     int
	pod     string
	nocache bool
	pin     string
	n       int
}

type pReqInfo struct {
	rid      int
	pod      string
	nocache  bool
	cancel   context.CancelFunc
	done     chan struct{}
	err      error
	res      eni.NetworkResources
	finished bool
	doneAt   int64               // UnixNano at which Manager.Allocate returned (atomic)
	keep     *eni.LocalIPRequest // keeps the request's address from being reused while the case runs
}

type pWorld struct {
	c                     *Ctx
	r                     *Rng
	cfgCap                int
	batch                 int
	en4, en6              bool
	nslots                int
	maxIdles              int
	minIdles              int
	total                 int
	locks                 []*schedLock
	locals                []*eni.Local
	mgr                   *eni.Manager
	cloud                 *pCloud
	evMu                  sync.Mutex
	events                []pEvent
	kickCh                chan struct{}
	syncHeld              int32
	syncRegions, holdSync int32 // lock regions of the sync under way; whether a further one is held back
	roleMu                sync.Mutex
	roles                 map[int64]pRole // gid -> what the goroutine is doing for the harness
	gidSlot               map[int64]int   // worker gid -> slot (from its regions)
	allocRid              map[int64]int   // gid that ran Manager.Allocate -> request number
	reqPtr                map[uintptr]int
	ridDead               map[int]bool
	reqs                  map[int]*pReqInfo
	nextRid               int
	held                  map[string]map[string][]int // pod -> eni -> ips (from replies)
	heldBy                map[string]string           // "eni:ip" -> pod
	lastRel               map[string]map[string][]int // pod -> the last release request made for it (eni -> ips)
	everUsed              map[int]bool
	goneWhy               map[string]string  // "eni:ip" -> remote | unassigned
	goneSeen              map[string]bool    // a sync has applied a cloud listing without it since
	loadSaw               map[int64][]string // sync goroutine -> addresses its metadata read missed (applied at its next lock region)
	seenSeq               map[string]int     // "eni:ip" -> event number of the sync region that applied the removal
	bindSeq               map[string]int     // "eni:ip" -> event number of the lock region that last gave it a new owner
	lastOwner             map[string]string
	lastStatus            map[int]string
	loadFails             bool
	stop                  chan struct{}
	lines                 []string
	viol                  [][2]string
	balancing             bool
	focus                 string
}

func (w *pWorld) record(e pEvent) {
	if e.kind == "region" {
		w.roleMu.Lock()
		e.role, e.hasRole = w.roles[e.g.gid]
		w.roleMu.Unlock()
	}
	w.evMu.Lock()
	if e.kind == "region" {
		if _, ok := w.gidSlot[e.g.gid]; !ok {
			w.gidSlot[e.g.gid] = e.slot
		}
		seq := len(w.events)
		// who owns which address after this region (from the Local's own state)
		var eniID string
		for _, f := range strings.Fields(e.snap) {
			if strings.HasPrefix(f, "e=") {
				eniID = strings.TrimPrefix(f, "e=")
			}
			if strings.HasPrefix(f, "ips=") && f != "ips=-" {
				for _, t := range strings.Split(strings.TrimPrefix(f, "ips="), ",") {
					p := strings.Split(t, ":")
					if len(p) < 2 {
						continue
					}
					k := eniID + ":" + p[0]
					if p[1] != "-" && w.lastOwner[k] != p[1] {
						w.bindSeq[k] = seq
					}
					w.lastOwner[k] = p[1]
				}
			}
		}
		// an interface must not go to Deleting while a live request waits on it (queued or already ordered)
		var st string
		live := false
		for _, f := range strings.Fields(e.snap) {
			if strings.HasPrefix(f, "st=") {
				st = strings.TrimPrefix(f, "st=")
			}
			for _, q := range []string{"a4=", "a6=", "d4=", "d6="} {
				if strings.HasPrefix(f, q) && f != q+"-" {
					for _, t := range strings.Split(strings.TrimPrefix(f, q), "+") {
						if !strings.HasSuffix(t, "x") {
							live = true
						}
					}
				}
			}
		}
		if st == "deleting" && w.lastStatus[e.slot] != "deleting" && live && e.g.label == "Dispose" {
			w.viol = append(w.viol, [2]string{"C06/dispose/while-request-waits",
				fmt.Sprintf("interface %s went to Deleting while a request is still waiting on it: %s", eniID, e.snap)})
		}
		w.lastStatus[e.slot] = st
		if missed, ok := w.loadSaw[e.g.gid]; ok {
			for _, k := range missed {
				if _, done := w.seenSeq[k]; !done {
					w.seenSeq[k] = seq
				}
				w.goneSeen[k] = true
			}
			delete(w.loadSaw, e.g.gid)
		}
	}
	w.events = append(w.events, e)
	w.evMu.Unlock()
}

func (w *pWorld) slotOfGID(gid int64) int {
	w.evMu.Lock()
	defer w.evMu.Unlock()
	if s, ok := w.gidSlot[gid]; ok {
		return s
	}
	return -1
}

func (w *pWorld) kick() {
	select {
	case w.kickCh <- struct{}{}:
	default:
	}
}

func (w *pWorld) setRole(r pRole) {
	g := whoAmI()
	w.roleMu.Lock()
	w.roles[g.gid] = r
	w.roleMu.Unlock()
}

// ridOf: the harness's number for a queued request; requests the pool made itself (the balancer's
// pre-heat requests) are numbered when first seen.  Go may reuse the address of a collected request for a
// new one: an entry that is alive under a number already seen dead is a new request.
func (w *pWorld) ridOf(ptr uintptr, done bool) int {
	w.roleMu.Lock()
	defer w.roleMu.Unlock()
	if id, ok := w.reqPtr[ptr]; ok && !(w.ridDead[id] && !done) {
		if done {
			w.ridDead[id] = true
		}
		return id
	}
	w.nextRid++
	w.reqPtr[ptr] = w.nextRid
	if done {
		w.ridDead[w.nextRid] = true
	}
	return w.nextRid
}

// snapStr: canonical state of a Local (requests whose worker is gone are not listed: Len() drops them)
func (w *pWorld) snapStr(st eni.VerifLocalState) string {
	var ips []string
	type ent struct {
		id int
		s  string
	}
	var es []ent
	for _, l := range [][]eni.VerifIP{st.V4, st.V6} {
		for _, v := range l {
			id := dwAddrID(v.IP)
			stc := map[string]string{"Valid": "v", "Invalid": "i", "Deleting": "d", "Init": "n"}[v.Status]
			es = append(es, ent{id, fmt.Sprintf("%d:%s:%s:%s", id, orDash(strings.TrimPrefix(v.Pod, "ns/")), stc, b01(v.Primary))})
		}
	}
	sort.Slice(es, func(i, j int) bool { return es[i].id < es[j].id })
	for _, e := range es {
		ips = append(ips, e.s)
	}
	q := func(l []eni.VerifReq) string {
		var ids []string
		for _, r := range l {
			t := strconv.Itoa(w.ridOf(r.Ptr, r.Done))
			if r.Done {
				t += "x" // the worker is gone; the entry stays until the next Len() on the slice
			}
			ids = append(ids, t)
		}
		if len(ids) == 0 {
			return "-"
		}
		return strings.Join(ids, "+")
	}
	status := map[string]string{"Init": "init", "Creating": "creating", "InUse": "inUse", "Deleting": "deleting"}[st.Status]
	return fmt.Sprintf("e=%s st=%s inh=%s ips=%s a4=%s a6=%s d4=%s d6=%s", orDash(st.ENI), status, b01(st.Inhibit), joinOrDash(ips),
		q(st.Alloc4), q(st.Alloc6), q(st.Dang4), q(st.Dang6))
}

func (w *pWorld) violate(key, what string) {
	w.evMu.Lock()
	w.viol = append(w.viol, [2]string{key, what})
	w.evMu.Unlock()
}
