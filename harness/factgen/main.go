// factgen regenerates lean/TerwayModel/Generated/Consts.lean from /repo's current source.
//
// It is deliberately tiny: a go/ast walk that picks named integer/string facts out of anchored
// functions (a composite-literal field, a slice bound, the literal operand of a binary expression,
// a call argument, a package constant).  The Lean models import these definitions, so a changed
// constant changes the model and the proofs are re-checked against what the code says now.  A fact
// that can no longer be located is a broken tie and makes factgen exit non-zero.
package main

import (
	"fmt"
	"go/ast"
	"go/parser"
	"go/printer"
	"go/token"
	"os"
	"path/filepath"
	"strconv"
	"strings"
)

type fact struct {
	Name string // Lean identifier
	Type string // Nat | Int | String
	File string // relative to repo root
	Func string // function name ("" = package level); methods as Recv.Name
	Sel  string // selector, see locate
	Doc  string
}

var facts = []fact{
	// C14
	{"u32SrcOff4", "Nat", "pkg/tc/u32.go", "U32IPv4Src", "field Off 0", "offset of the IPv4 source key"},
	{"u32DstOff4", "Nat", "plugin/datapath/ipvlan_linux.go", "dstIPRule", "field offset 0", "offset of the IPv4 destination key"},
	{"u32SrcOff6Base", "Nat", "pkg/tc/u32.go", "U32IPv6Src", "fieldlits Off 0 0", "8 in Off: int32(8 + 4*i)"},
	{"u32SrcOff6Step", "Nat", "pkg/tc/u32.go", "U32IPv6Src", "fieldlits Off 0 1", "4 in Off: int32(8 + 4*i)"},
	{"routeTableBase", "Nat", "plugin/driver/utils/utils_linux.go", "GetRouteTableID", "binlit + 0", "1000 + linkIndex"},
	{"vethHashLen", "Nat", "pkg/link/veth.go", "VethNameForPod", "slicehigh 0", "hex digest truncation"},
	{"gatewayIndex", "Int", "pkg/ip/ip.go", "DeriveGatewayIP", "callarg GetIPAtIndex 1 0", "index passed to GetIPAtIndex"},
	// C13
	{"dpToContainerPriority", "Nat", "plugin/datapath/consts_linux.go", "", "const toContainerPriority", "ip rule priority of the to-pod rule"},
	{"dpFromContainerPriority", "Nat", "plugin/datapath/consts_linux.go", "", "const fromContainerPriority", "ip rule priority of the from-pod rule"},
	// C15
	{"bwKilo", "Nat", "pkg/k8s/k8s.go", "", "const KILOBYTE", "unit multiplier"},
	{"bwMega", "Nat", "pkg/k8s/k8s.go", "", "const MEGABYTE", "unit multiplier"},
	{"bwGiga", "Nat", "pkg/k8s/k8s.go", "", "const GIGABYTE", "unit multiplier"},
	{"bwTera", "Nat", "pkg/k8s/k8s.go", "", "const TERABYTE", "unit multiplier"},
	{"bwNoLetterGuard", "Nat", "pkg/k8s/k8s.go", "parseBandwidth", "guard i < 0", "1 iff the 'no unit letter' index is guarded before slicing"},
	{"filterRechecksLen", "Nat", "daemon/daemon.go", "filterENINotFound", "forcond j < len(podResources[i].Resources)", "1 iff the loop that removes stale items in place re-reads the slice length on every iteration"},
	{"bwUnitsT", "CharLists", "pkg/k8s/k8s.go", "parseBandwidth", "caselit 0", "unit spellings"},
	{"bwUnitsG", "CharLists", "pkg/k8s/k8s.go", "parseBandwidth", "caselit 1", "unit spellings"},
	{"bwUnitsM", "CharLists", "pkg/k8s/k8s.go", "parseBandwidth", "caselit 2", "unit spellings"},
	{"bwUnitsK", "CharLists", "pkg/k8s/k8s.go", "parseBandwidth", "caselit 3", "unit spellings"},
	{"bwUnitsB", "CharLists", "pkg/k8s/k8s.go", "parseBandwidth", "caselit 4", "unit spellings"},
}

type constDef struct {
	expr ast.Expr
	iota int64
}

type env struct {
	fset   *token.FileSet
	file   *ast.File
	consts map[string]constDef
	iota   int64
}

var timeUnits = map[string]int64{"Nanosecond": 1, "Microsecond": 1e3, "Millisecond": 1e6, "Second": 1e9, "Minute": 60e9, "Hour": 3600e9}

func (e *env) eval(x ast.Expr) (int64, bool) {
	switch v := x.(type) {
	case *ast.BasicLit:
		if v.Kind == token.INT {
			n, err := strconv.ParseInt(v.Value, 0, 64)
			return n, err == nil
		}
	case *ast.ParenExpr:
		return e.eval(v.X)
	case *ast.UnaryExpr:
		n, ok := e.eval(v.X)
		if !ok {
			return 0, false
		}
		switch v.Op {
		case token.SUB:
			return -n, true
		case token.ADD:
			return n, true
		}
	case *ast.BinaryExpr:
		a, ok1 := e.eval(v.X)
		b, ok2 := e.eval(v.Y)
		if !ok1 || !ok2 {
			return 0, false
		}
		switch v.Op {
		case token.ADD:
			return a + b, true
		case token.SUB:
			return a - b, true
		case token.MUL:
			return a * b, true
		case token.QUO:
			if b != 0 {
				return a / b, true
			}
		case token.SHL:
			return a << uint(b), true
		}
	case *ast.CallExpr:
		if len(v.Args) == 1 {
			switch f := v.Fun.(type) {
			case *ast.Ident:
				switch f.Name {
				case "int", "int8", "int16", "int32", "int64", "uint", "uint8", "uint16", "uint32", "uint64":
					return e.eval(v.Args[0])
				}
			case *ast.SelectorExpr:
				if f.Sel.Name == "Duration" {
					return e.eval(v.Args[0])
				}
			}
		}
	case *ast.Ident:
		if v.Name == "iota" {
			return e.iota, true
		}
		if c, ok := e.consts[v.Name]; ok {
			save := e.iota
			e.iota = c.iota
			n, ok := e.eval(c.expr)
			e.iota = save
			return n, ok
		}
	case *ast.SelectorExpr:
		if p, ok := v.X.(*ast.Ident); ok && p.Name == "time" {
			if u, ok := timeUnits[v.Sel.Name]; ok {
				return u, true
			}
		}
	}
	return 0, false
}

func funcName(d *ast.FuncDecl) string {
	if d.Recv != nil && len(d.Recv.List) == 1 {
		t := d.Recv.List[0].Type
		if s, ok := t.(*ast.StarExpr); ok {
			t = s.X
		}
		if id, ok := t.(*ast.Ident); ok {
			return id.Name + "." + d.Name.Name
		}
	}
	return d.Name.Name
}

func calleeName(c *ast.CallExpr) string {
	switch f := c.Fun.(type) {
	case *ast.Ident:
		return f.Name
	case *ast.SelectorExpr:
		return f.Sel.Name
	}
	return ""
}

// locate returns the expression (or string) selected inside root.
func (e *env) locate(root ast.Node, sel string) (int64, string, error) {
	f := strings.Fields(sel)
	atoi := func(s string) int { n, _ := strconv.Atoi(s); return n }
	var found []ast.Expr
	switch f[0] {
	case "field": // field <Key> <k>
		ast.Inspect(root, func(n ast.Node) bool {
			if kv, ok := n.(*ast.KeyValueExpr); ok {
				if id, ok := kv.Key.(*ast.Ident); ok && id.Name == f[1] {
					found = append(found, kv.Value)
				}
			}
			return true
		})
		return e.pick(found, atoi(f[2]), sel)
	case "fieldlits": // fieldlits <Key> <k> <j>: j-th int literal under the k-th field value
		ast.Inspect(root, func(n ast.Node) bool {
			if kv, ok := n.(*ast.KeyValueExpr); ok {
				if id, ok := kv.Key.(*ast.Ident); ok && id.Name == f[1] {
					found = append(found, kv.Value)
				}
			}
			return true
		})
		if atoi(f[2]) >= len(found) {
			return 0, "", fmt.Errorf("selector %q: field not found", sel)
		}
		var lits []ast.Expr
		ast.Inspect(found[atoi(f[2])], func(n ast.Node) bool {
			if b, ok := n.(*ast.BasicLit); ok && b.Kind == token.INT {
				lits = append(lits, b)
			}
			return true
		})
		return e.pick(lits, atoi(f[3]), sel)
	case "slicehigh": // slicehigh <k>
		ast.Inspect(root, func(n ast.Node) bool {
			if s, ok := n.(*ast.SliceExpr); ok && s.High != nil {
				found = append(found, s.High)
			}
			return true
		})
		return e.pick(found, atoi(f[1]), sel)
	case "binlit": // binlit <op> <k>: literal operand of the k-th binary expression with that operator
		ast.Inspect(root, func(n ast.Node) bool {
			if b, ok := n.(*ast.BinaryExpr); ok && b.Op.String() == f[1] {
				if l, ok := b.X.(*ast.BasicLit); ok && l.Kind == token.INT {
					found = append(found, l)
				} else if l, ok := b.Y.(*ast.BasicLit); ok && l.Kind == token.INT {
					found = append(found, l)
				}
			}
			return true
		})
		return e.pick(found, atoi(f[2]), sel)
	case "callarg": // callarg <Fun> <i> <k>
		ast.Inspect(root, func(n ast.Node) bool {
			if c, ok := n.(*ast.CallExpr); ok && calleeName(c) == f[1] && atoi(f[2]) < len(c.Args) {
				found = append(found, c.Args[atoi(f[2])])
			}
			return true
		})
		return e.pick(found, atoi(f[3]), sel)
	case "const": // const <Name>
		c, ok := e.consts[f[1]]
		if !ok {
			return 0, "", fmt.Errorf("const %s not found", f[1])
		}
		if b, ok := c.expr.(*ast.BasicLit); ok && b.Kind == token.STRING {
			s, _ := strconv.Unquote(b.Value)
			return 0, s, nil
		}
		return e.pick([]ast.Expr{&ast.Ident{Name: f[1]}}, 0, sel)
	case "guard": // guard <text>: 1 if an if-statement whose condition prints as <text> exists in the function, else 0
		want := strings.Join(f[1:], " ")
		found := int64(0)
		ast.Inspect(root, func(n ast.Node) bool {
			if is, ok := n.(*ast.IfStmt); ok {
				var sb strings.Builder
				printer.Fprint(&sb, e.fset, is.Cond)
				if sb.String() == want {
					found = 1
				}
			}
			return true
		})
		return found, "", nil
	case "forcond": // forcond <text>: 1 if a for-statement whose condition prints as <text> exists in the function, else 0
		want := strings.Join(f[1:], " ")
		found := int64(0)
		ast.Inspect(root, func(n ast.Node) bool {
			if fs, ok := n.(*ast.ForStmt); ok && fs.Cond != nil {
				var sb strings.Builder
				printer.Fprint(&sb, e.fset, fs.Cond)
				if sb.String() == want {
					found = 1
				}
			}
			return true
		})
		return found, "", nil
	case "caselit": // caselit <k>: all string literals of the k-th case clause list, joined by ","
		var clauses []*ast.CaseClause
		ast.Inspect(root, func(n ast.Node) bool {
			if c, ok := n.(*ast.CaseClause); ok {
				clauses = append(clauses, c)
			}
			return true
		})
		k := atoi(f[1])
		if k >= len(clauses) {
			return 0, "", fmt.Errorf("selector %q: case clause not found", sel)
		}
		var ss []string
		for _, x := range clauses[k].List {
			if b, ok := x.(*ast.BasicLit); ok && b.Kind == token.STRING {
				s, _ := strconv.Unquote(b.Value)
				ss = append(ss, s)
			}
		}
		return 0, strings.Join(ss, ","), nil
	}
	return 0, "", fmt.Errorf("unknown selector %q", sel)
}

func (e *env) pick(found []ast.Expr, k int, sel string) (int64, string, error) {
	if k >= len(found) {
		return 0, "", fmt.Errorf("selector %q: only %d candidates", sel, len(found))
	}
	if b, ok := found[k].(*ast.BasicLit); ok && b.Kind == token.STRING {
		s, _ := strconv.Unquote(b.Value)
		return 0, s, nil
	}
	n, ok := e.eval(found[k])
	if !ok {
		return 0, "", fmt.Errorf("selector %q: not a constant integer expression", sel)
	}
	return n, "", nil
}

func main() {
	if len(os.Args) != 3 {
		fmt.Fprintln(os.Stderr, "usage: factgen <repo> <out.lean>")
		os.Exit(2)
	}
	repo, out := os.Args[1], os.Args[2]
	cache := map[string]*env{}
	var sb strings.Builder
	sb.WriteString("-- GENERATED by /verif/harness/factgen from /repo's current source. Do not edit.\nnamespace Terway.Gen\n")
	failed := false
	for _, ft := range facts {
		e, ok := cache[ft.File]
		if !ok {
			fset := token.NewFileSet()
			af, err := parser.ParseFile(fset, filepath.Join(repo, ft.File), nil, 0)
			if err != nil {
				fmt.Fprintf(os.Stderr, "factgen: %s: %v\n", ft.File, err)
				failed = true
				continue
			}
			e = &env{fset: fset, file: af, consts: map[string]constDef{}}
			for _, d := range af.Decls {
				if g, ok := d.(*ast.GenDecl); ok && (g.Tok == token.CONST || g.Tok == token.VAR) {
					var last []ast.Expr
					for idx, s := range g.Specs {
						vs := s.(*ast.ValueSpec)
						vals := vs.Values
						if len(vals) == 0 && g.Tok == token.CONST {
							vals = last // implicit repetition inside a const block
						} else {
							last = vals
						}
						for i, n := range vs.Names {
							if i < len(vals) {
								e.consts[n.Name] = constDef{vals[i], int64(idx)}
							}
						}
					}
				}
			}
			cache[ft.File] = e
		}
		var root ast.Node = e.file
		if ft.Func != "" {
			root = nil
			for _, d := range e.file.Decls {
				if fd, ok := d.(*ast.FuncDecl); ok && funcName(fd) == ft.Func {
					root = fd
				}
			}
			if root == nil {
				fmt.Fprintf(os.Stderr, "factgen: BROKEN-TIE %s: function %s not found in %s\n", ft.Name, ft.Func, ft.File)
				failed = true
				continue
			}
		}
		n, s, err := e.locate(root, ft.Sel)
		if err != nil {
			fmt.Fprintf(os.Stderr, "factgen: BROKEN-TIE %s (%s:%s): %v\n", ft.Name, ft.File, ft.Func, err)
			failed = true
			continue
		}
		fmt.Fprintf(&sb, "/-- %s  [%s:%s %s] -/\n", ft.Doc, ft.File, ft.Func, ft.Sel)
		switch ft.Type {
		case "Nat":
			if n < 0 {
				fmt.Fprintf(os.Stderr, "factgen: BROKEN-TIE %s: negative value %d for a Nat fact\n", ft.Name, n)
				failed = true
				continue
			}
			fmt.Fprintf(&sb, "def %s : Nat := %d\n", ft.Name, n)
		case "Int":
			if n < 0 {
				fmt.Fprintf(&sb, "def %s : Int := -%d\n", ft.Name, -n)
			} else {
				fmt.Fprintf(&sb, "def %s : Int := %d\n", ft.Name, n)
			}
		case "String":
			fmt.Fprintf(&sb, "def %s : String := %s\n", ft.Name, strconv.Quote(s))
		case "CharLists": // comma separated spellings as lists of characters (kernel-reducible, unlike String ops)
			var items []string
			for _, w := range strings.Split(s, ",") {
				var cs []string
				for _, r := range w {
					cs = append(cs, fmt.Sprintf("Char.ofNat %d", r))
				}
				items = append(items, "["+strings.Join(cs, ", ")+"]")
			}
			fmt.Fprintf(&sb, "def %s : List (List Char) := [%s]  -- %s\n", ft.Name, strings.Join(items, ", "), strconv.Quote(s))
		}
	}
	sb.WriteString("end Terway.Gen\n")
	if failed {
		os.Exit(1)
	}
	old, _ := os.ReadFile(out)
	if string(old) != sb.String() {
		if err := os.WriteFile(out, []byte(sb.String()), 0o644); err != nil {
			fmt.Fprintln(os.Stderr, err)
			os.Exit(2)
		}
		fmt.Println("factgen: Consts.lean updated")
	}
}
