import TerwayModel.Driver.Common
import TerwayModel.Driver.Net
import TerwayModel.Driver.Token
import TerwayModel.Driver.VSwitch
import TerwayModel.Driver.Bandwidth
import TerwayModel.Driver.Capacity
import TerwayModel.Driver.Json
import TerwayModel.Driver.NetConf
import TerwayModel.Driver.Datapath
import TerwayModel.Driver.Webhook
import TerwayModel.Driver.Daemon
import TerwayModel.Driver.Pool
import TerwayModel.Driver.Ipam
import TerwayModel.Driver.PodEni
import TerwayModel.Driver.StoredRec
import TerwayModel.Driver.Agent
import TerwayModel.Driver.Factory
import TerwayModel.Driver.Remote
/-
`drv`: reads one operation per line (`<model>.<op> arg…`), prints one canonical line per input.
Malformed or unknown lines print `bad-op` — never a default value.
-/
open Terway.Drv

structure St where
  tok : Token.St := {}
  vsw : VSwitch.St := VSwitch.St.init
  fib : DatapathD.FibSt := {}
  dm : DaemonD.St := DaemonD.St.init
  pl : PoolD.St := {}
  pe : PodEniD.St := {}
  ag : Terway.Agent.St := {}

def dispatch (st : St) (line : String) : St × String :=
  match words line with
  | [] => (st, "bad-op")
  | "#" :: _ => (st, "#")   -- monitor-only line of the harness: echoed, not modelled
  | head :: args =>
    match head.splitOn "." with
    | ["net", op] => (st, (Net.step op args).getD "bad-op")
    | ["bw", op] => (st, (Bandwidth.step op args).getD "bad-op")
    | ["fa", op] => (st, (FactoryD.step op args).getD "bad-op")
    | ["sr", op] => (st, (StoredRecD.step op args).getD "bad-op")
    | ["rm", op] => (st, (RemoteD.step op args).getD "bad-op")
    | ["cap", op] => (st, (Capacity.step op args).getD "bad-op")
    | ["fib", op] =>
      match DatapathD.fibStep st.fib op args with
      | some (t, o) => ({ st with fib := t }, o)
      | none => (st, "bad-op")
    | ["dp", op] => (st, (DatapathD.step op args).getD "bad-op")
    | ["wh", op] => (st, (WebhookD.step op args).getD "bad-op")
    | ["nc", op] => (st, (NetConfD.step op args).getD "bad-op")
    | ["cfg", op] => (st, (JsonD.step op args).getD "bad-op")
    | ["cni", "gen"] => (st, (JsonD.genStep args).getD "bad-op")
    | ["cni", op] => (st, (JsonD.chainStep op args).getD "bad-op")
    | ["ip", op] => (st, (IpamD.step op args).getD "bad-op")
    | ["rt", op] =>
      match AgentD.step st.ag op args with
      | some (t, o) => ({ st with ag := t }, o)
      | none => (st, "bad-op")
    | ["pe", op] =>
      match PodEniD.step st.pe op args with
      | some (t, o) => ({ st with pe := t }, o)
      | none => (st, "bad-op")
    | ["pl", op] =>
      match PoolD.step st.pl op args with
      | some (t, o) => ({ st with pl := t }, o)
      | none => (st, "bad-op")
    | ["dm", op] =>
      match DaemonD.step st.dm op args with
      | some (t, o) => ({ st with dm := t }, o)
      | none => (st, "bad-op")
    | ["tok", op] =>
      match Token.step st.tok op args with
      | some (t, o) => ({ st with tok := t }, o)
      | none => (st, "bad-op")
    | ["vsw", op] =>
      match VSwitch.step st.vsw op args with
      | some (t, o) => ({ st with vsw := t }, o)
      | none => (st, "bad-op")
    | _ => (st, "bad-op")

partial def loop (h : IO.FS.Stream) (out : IO.FS.Stream) (st : St) : IO Unit := do
  let line ← h.getLine
  if line.isEmpty then return ()
  let l := (line.dropEndWhile (fun c => c == '\n' || c == '\r')).toString
  let (st', o) := dispatch st l
  out.putStrLn (o.replace "\n" " ")   -- one line per operation, whatever a `Repr` instance prints
  loop h out st'

def main : IO Unit := do
  let stdin ← IO.getStdin
  let stdout ← IO.getStdout
  loop stdin stdout {}
  stdout.flush
