import TerwayModel.Model.Fib
/-
C13 — the programmed datapath routes pod traffic as intended and is fully removed.
Part A: what the generators emit (all datapaths, container side; policy route host side).
Part B: routing over the FIB model for the policy-route (veth) datapath, any number of pods per ENI.
-/
namespace Terway.Props.C13
open Terway.Datapath Terway.Fib

/-! ## Part A — generators -/

/-- nothing of family `f` in a configuration, apart from the user's own extra routes -/
def FamFree (cf : Conf) (f : Fam) (user : List Route) : Prop :=
  (∀ a ∈ cf.addrs, a.pfx.fam ≠ f) ∧
  (∀ r ∈ cf.routes, r.dst.fam = f → r ∈ user) ∧
  (∀ r ∈ cf.rules, (∀ p, r.src = some p → p.fam ≠ f) ∧ (∀ p, r.dst = some p → p.fam ≠ f)) ∧
  (∀ n ∈ cf.neighs, n.fam ≠ f) ∧
  (f = .v6 → cf.sysctl6 = none)

def otherFam : Fam → Fam
  | .v4 => .v6
  | .v6 => .v4

/-- main-table default routes of family `f` -/
def mainDefaults (cf : Conf) (f : Fam) : List Route :=
  cf.routes.filter fun r => r.table == 0 && r.dst == Pfx.default f

theorem multiNet_fam (c : Cfg) (f : Fam) (link a : Nat) :
    (∀ r ∈ (multiNet c f link a).1, (∀ p, r.src = some p → p.fam = f) ∧ r.dst = none) ∧
    (∀ r ∈ (multiNet c f link a).2, r.dst.fam = f ∧ r.table ≠ 0) := by
  unfold multiNet
  split
  · constructor
    · intro r hr; simp at hr; subst hr; simp [Pfx.host]
    · intro r hr; simp at hr; subst hr; simp [Pfx.default, tableOf, Gen.routeTableBase]
  · simp

theorem oifRule_spec (c : Cfg) (link : Nat) : ∀ r ∈ oifRule c link, r.src = none ∧ r.dst = none := by
  intro r hr; unfold oifRule at hr; split at hr
  · simp at hr; subst hr; simp
  · cases hr

theorem maxMaskAddrs_fam (c : Cfg) (f : Fam) (h : c.ip f = none) : ∀ a ∈ maxMaskAddrs c, a.pfx.fam ≠ f := by
  intro a ha
  unfold maxMaskAddrs at ha
  cases f <;> (simp only [Cfg.ip] at h) <;> cases h4 : c.ip4 <;> cases h6 : c.ip6 <;> simp_all [Pfx.host] <;> (subst ha; simp)

theorem subnetAddrs_fam (c : Cfg) (f : Fam) (h : c.ip f = none) : ∀ a ∈ subnetAddrs c, a.pfx.fam ≠ f := by
  intro a ha
  unfold subnetAddrs at ha
  cases f <;> (simp only [Cfg.ip] at h) <;> cases h4 : c.ip4 <;> cases h6 : c.ip6 <;> simp_all <;> (subst ha; simp)

/-- **Nothing is created for a disabled family** — policy-route container side. -/
theorem c13_disabled_family_contPolicy (c : Cfg) (link : Nat) (f : Fam) (h : c.ip f = none) :
    FamFree (genContPolicy c link) f (extraRoutes c link) := by
  have hg : contPolicyFam c f link = ([], [], []) := by unfold contPolicyFam; rw [h]
  have ho := oifRule_spec c link
  have other : ∀ g, g ≠ f →
      (∀ r ∈ (contPolicyFam c g link).1, r.dst.fam = g) ∧
      (∀ r ∈ (contPolicyFam c g link).2.1, (∀ p, r.src = some p → p.fam = g) ∧ r.dst = none) ∧
      (∀ n ∈ (contPolicyFam c g link).2.2, n.fam = g) := by
    intro g _
    unfold contPolicyFam
    cases hi : c.ip g with
    | none => simp
    | some an =>
      obtain ⟨a, n⟩ := an
      have hm := multiNet_fam c g link a
      simp only
      refine ⟨?_, ?_, ?_⟩
      · intro r hr
        simp only [List.mem_append] at hr
        rcases hr with (hr | hr) | hr
        · split at hr <;> simp at hr; subst hr; simp [Pfx.default]
        · split at hr <;> simp at hr; subst hr; simp [Pfx.host]
        · exact (hm.2 r hr).1
      · intro r hr; exact hm.1 r hr
      · intro n hn; simp at hn; subst hn; rfl
  unfold genContPolicy FamFree
  cases f with
  | v4 =>
    have o6 := other .v6 (by decide)
    rw [show contPolicyFam c .v4 link = ([], [], []) from hg]
    refine ⟨maxMaskAddrs_fam c .v4 h, ?_, ?_, ?_, by intro e; cases e⟩
    · intro r hr hf
      simp only [List.nil_append, List.mem_append] at hr
      rcases hr with hr | hr
      · have := o6.1 r hr; rw [this] at hf; cases hf
      · exact hr
    · intro r hr
      simp only [List.append_nil, List.nil_append, List.mem_append] at hr
      rcases hr with hr | hr
      · have := ho r hr; simp [this.1, this.2]
      · have := o6.2.1 r hr
        exact ⟨fun p hp => by rw [this.1 p hp]; decide, fun p hp => by rw [this.2] at hp; cases hp⟩
    · intro n hn
      simp only [List.nil_append] at hn
      rw [o6.2.2 n hn]; decide
  | v6 =>
    have o4 := other .v4 (by decide)
    rw [show contPolicyFam c .v6 link = ([], [], []) from hg]
    have h6 : c.ip6 = none := h
    refine ⟨maxMaskAddrs_fam c .v6 h, ?_, ?_, ?_, by intro _; simp [h6]⟩
    · intro r hr hf
      simp only [List.append_nil, List.mem_append] at hr
      rcases hr with hr | hr
      · have := o4.1 r hr; rw [this] at hf; cases hf
      · exact hr
    · intro r hr
      simp only [List.append_nil, List.mem_append] at hr
      rcases hr with hr | hr
      · have := ho r hr; simp [this.1, this.2]
      · have := o4.2.1 r hr
        exact ⟨fun p hp => by rw [this.1 p hp]; decide, fun p hp => by rw [this.2] at hp; cases hp⟩
    · intro n hn
      simp only [List.append_nil] at hn
      rw [o4.2.2 n hn]; decide

/-- **Exactly one default route per enabled family inside the pod** (in the main table) when this is
    the default-route interface, none otherwise — policy-route container side; with several networks
    the additional default route lives in the per-link table only. -/
theorem c13_one_default_contPolicy (c : Cfg) (link : Nat) (f : Fam) (hex : ∀ e ∈ c.extra, e.1.len ≠ 0) :
    (mainDefaults (genContPolicy c link) f).length = if c.defaultRoute ∧ (c.ip f).isSome then 1 else 0 := by
  have hextra : (extraRoutes c link).filter (fun r => r.table == 0 && r.dst == Pfx.default f) = [] := by
    unfold extraRoutes
    rw [List.filter_eq_nil_iff]
    intro r hr
    simp only [List.mem_map] at hr
    obtain ⟨⟨d, gw⟩, he, rfl⟩ := hr
    have := hex (d, gw) he
    cases gw <;> simp [Pfx.default] <;> intro hd <;> (rw [hd] at this; simp at this)
  have fam : ∀ g, ((contPolicyFam c g link).1.filter (fun r => r.table == 0 && r.dst == Pfx.default f)).length =
      if g = f ∧ c.defaultRoute ∧ (c.ip g).isSome then 1 else 0 := by
    intro g
    unfold contPolicyFam
    cases hi : c.ip g with
    | none => simp
    | some an =>
      obtain ⟨a, n⟩ := an
      have hm := (multiNet_fam c g link a).2
      have hmn : (multiNet c g link a).2.filter (fun r => r.table == 0 && r.dst == Pfx.default f) = [] := by
        rw [List.filter_eq_nil_iff]; intro r hr; have := (hm r hr).2; simp [this]
      simp only [List.filter_append, hmn, List.append_nil, List.length_append]
      by_cases hd : c.defaultRoute = true <;> by_cases he : c.extra.isEmpty = true <;> by_cases hgf : g = f <;>
        simp [hd, he, hgf, Pfx.default, Pfx.host, linkIP] <;> (try (cases g <;> cases f <;> simp_all [Fam.bits]))
  unfold mainDefaults genContPolicy
  simp only [List.filter_append, hextra, List.append_nil, List.length_append, fam]
  cases f <;> simp [Cfg.ip] <;> (by_cases hd : c.defaultRoute = true <;> simp [hd])

macro "fam_close" : tactic => `(tactic|
  (first
    | done
    | (intro r hr
       first
        | (rcases hr with ⟨_, rfl⟩ | rfl | hr <;> simp_all)
        | (rcases hr with ⟨_, rfl⟩ | hr <;> simp_all)
        | (rcases hr with rfl | rfl | rfl <;> simp_all)
        | (rcases hr with rfl | rfl <;> simp_all)
        | (rcases hr with rfl | hr <;> simp_all)
        | (subst hr; simp_all)
        | (cases hr)
        | simp_all)))

/-- nothing for a disabled family — vlan container side -/
theorem c13_disabled_family_contVlan (c : Cfg) (link : Nat) (f : Fam) (h : c.ip f = none) :
    FamFree (genContVlan c link) f (extraRoutes c link) := by
  unfold FamFree genContVlan contDirectFam multiNet oifRule subnetAddrs
  cases f <;> simp only [Cfg.ip] at h <;> rcases h4 : c.ip4 with _ | ⟨a4, n4⟩ <;> rcases h6 : c.ip6 with _ | ⟨a6, n6⟩ <;>
    simp_all [Cfg.ip, Cfg.gw, Pfx.host, Pfx.default] <;>
    (refine ⟨?_, ?_⟩ <;> intro r hr <;> (try (split at hr)) <;> revert r <;> fam_close)

/-- nothing for a disabled family — exclusive-ENI container side -/
theorem c13_disabled_family_contExclusive (c : Cfg) (link : Nat) (f : Fam) (h : c.ip f = none) :
    FamFree (genContExclusive c link) f (extraRoutes c link) := by
  unfold FamFree genContExclusive contDirectFam multiNet oifRule subnetAddrs maxMaskAddrs
  cases f <;> simp only [Cfg.ip] at h <;> rcases h4 : c.ip4 with _ | ⟨a4, n4⟩ <;> rcases h6 : c.ip6 with _ | ⟨a6, n6⟩ <;>
    simp_all [Cfg.ip, Cfg.gw, Pfx.host, Pfx.default] <;>
    (repeat' apply And.intro) <;> (try (intro r hr <;> (try (split at hr)) <;> revert r <;> fam_close)) <;>
    (try (split <;> simp_all)) <;> (try simp_all) <;> (try (rename_i hmem; cases hmem))

/-- nothing for a disabled family — ipvlan container side, slave link and ENI -/
theorem c13_disabled_family_contIPVlan (c : Cfg) (link : Nat) (f : Fam) (h : c.ip f = none) :
    FamFree (genContIPVlan c link) f [] := by
  unfold FamFree genContIPVlan contIPVlanFam multiNet oifRule
  cases f <;> simp only [Cfg.ip] at h <;> rcases h4 : c.ip4 with _ | ⟨a4, n4⟩ <;> rcases h6 : c.ip6 with _ | ⟨a6, n6⟩ <;>
    simp_all [Cfg.ip, Cfg.gw, Cfg.host, Pfx.host, Pfx.default] <;>
    (repeat' apply And.intro) <;> (try (intro r hr <;> (try (split at hr)) <;> revert r <;> fam_close)) <;>
    (try (split <;> simp_all)) <;> (try simp_all) <;> (try (rename_i hmem; cases hmem))

theorem c13_disabled_family_slaveIPVlan (c : Cfg) (link : Nat) (f : Fam) (h : c.ip f = none) :
    FamFree (genSlaveIPVlan c link) f [] := by
  unfold FamFree genSlaveIPVlan
  cases f <;> simp only [Cfg.ip] at h <;> rcases h4 : c.ip4 with _ | ⟨a4, n4⟩ <;> rcases h6 : c.ip6 with _ | ⟨a6, n6⟩ <;>
    simp_all [Cfg.ip, Cfg.host, Pfx.host]

theorem c13_disabled_family_eniIPVlan (c : Cfg) (name : String) (f : Fam) (h : c.ip f = none) :
    FamFree (genENIIPVlan c name) f [] := by
  unfold FamFree genENIIPVlan
  cases f <;> simp only [Cfg.ip] at h <;> simp_all

/-- nothing for a disabled family — policy route, host side (host veth and ENI) -/
theorem c13_disabled_family_hostPeer (c : Cfg) (veth : Nat) (name : String) (table : Nat) (f : Fam) (h : c.ip f = none) :
    FamFree (genHostPeerPolicy c veth name table) f [] := by
  unfold FamFree genHostPeerPolicy hostPeerFam
  cases f <;> simp only [Cfg.ip] at h <;> rcases h4 : c.ip4 with _ | ⟨a4, n4⟩ <;> rcases h6 : c.ip6 with _ | ⟨a6, n6⟩ <;>
    simp_all [Cfg.ip, Pfx.host] <;>
    (refine ⟨?_, ?_⟩ <;> (try (intro r hr <;> (try (split at hr)) <;> revert r <;> fam_close)) <;> (try (split <;> simp_all)))

theorem c13_disabled_family_eniPolicy (c : Cfg) (eni : Nat) (name : String) (table : Nat) (f : Fam) (h : c.ip f = none)
    (hh : c.host f = none) : FamFree (genENIPolicy c eni name table) f [] := by
  unfold FamFree genENIPolicy
  cases f <;> simp only [Cfg.ip, Cfg.host] at h hh <;> rcases h4 : c.ip4 with _ | ⟨a4, n4⟩ <;> rcases h6 : c.ip6 with _ | ⟨a6, n6⟩ <;>
    rcases g4 : c.host4 with _ | b4 <;> rcases g6 : c.host6 with _ | b6 <;>
    simp_all [Pfx.host, Pfx.default] <;> (try (intro r hr; rcases hr with rfl | rfl <;> simp))

theorem extra_no_default (c : Cfg) (link : Nat) (f : Fam) (hex : ∀ e ∈ c.extra, e.1.len ≠ 0) :
    (extraRoutes c link).filter (fun r => r.table == 0 && r.dst == Pfx.default f) = [] := by
  unfold extraRoutes
  rw [List.filter_eq_nil_iff]
  intro r hr
  simp only [List.mem_map] at hr
  obtain ⟨⟨d, gw⟩, he, rfl⟩ := hr
  have := hex (d, gw) he
  cases gw <;> simp [Pfx.default] <;> intro hd <;> (rw [hd] at this; simp at this)

theorem tableOf_ne_zero (link : Nat) : tableOf link ≠ 0 := by
  unfold tableOf Gen.routeTableBase; omega

/-- exactly one main-table default route per enabled family on the default-route interface — vlan -/
theorem c13_one_default_contVlan (c : Cfg) (link : Nat) (f : Fam) (hex : ∀ e ∈ c.extra, e.1.len ≠ 0) :
    (mainDefaults (genContVlan c link) f).length = if c.defaultRoute ∧ (c.ip f).isSome then 1 else 0 := by
  have ht : (tableOf link == 0) = false := by simp [tableOf_ne_zero link]
  unfold mainDefaults genContVlan
  simp only [List.filter_append, extra_no_default c link f hex, List.append_nil, List.length_append]
  unfold contDirectFam multiNet
  cases f <;> rcases h4 : c.ip4 with _ | ⟨a4, n4⟩ <;> rcases h6 : c.ip6 with _ | ⟨a6, n6⟩ <;>
    cases hd : c.defaultRoute <;> cases hm : c.multiNetwork <;>
    simp [Cfg.ip, h4, h6, hd, hm, Pfx.default, Pfx.host, ht, List.filter_cons]

/-- the same for the exclusive-ENI container side -/
theorem c13_one_default_contExclusive (c : Cfg) (link : Nat) (f : Fam) (hex : ∀ e ∈ c.extra, e.1.len ≠ 0) :
    (mainDefaults (genContExclusive c link) f).length = if c.defaultRoute ∧ (c.ip f).isSome then 1 else 0 := by
  have ht : (tableOf link == 0) = false := by simp [tableOf_ne_zero link]
  unfold mainDefaults genContExclusive
  simp only [List.filter_append, extra_no_default c link f hex, List.append_nil, List.length_append]
  unfold contDirectFam multiNet
  cases f <;> rcases h4 : c.ip4 with _ | ⟨a4, n4⟩ <;> rcases h6 : c.ip6 with _ | ⟨a6, n6⟩ <;>
    cases hd : c.defaultRoute <;> cases hm : c.multiNetwork <;>
    simp [Cfg.ip, h4, h6, hd, hm, Pfx.default, Pfx.host, ht, List.filter_cons, Fam.bits]

/-- the same for the ipvlan container side -/
theorem c13_one_default_contIPVlan (c : Cfg) (link : Nat) (f : Fam) :
    (mainDefaults (genContIPVlan c link) f).length = if c.defaultRoute ∧ (c.ip f).isSome then 1 else 0 := by
  have ht : (tableOf link == 0) = false := by simp [tableOf_ne_zero link]
  unfold mainDefaults genContIPVlan contIPVlanFam multiNet
  cases f <;> rcases h4 : c.ip4 with _ | ⟨a4, n4⟩ <;> rcases h6 : c.ip6 with _ | ⟨a6, n6⟩ <;>
    cases hd : c.defaultRoute <;> cases hm : c.multiNetwork <;>
    simp [Cfg.ip, h4, h6, hd, hm, Pfx.default, Pfx.host, ht, List.filter_cons, Fam.bits]

/-! ## Part B — routing over the FIB model (policy-route datapath) -/

theorem insertRule_perm (r : Rule) (l : List Rule) : (insertRule r l).Perm (r :: l) := by
  induction l with
  | nil => exact List.Perm.refl _
  | cons x xs ih =>
    simp only [insertRule]
    split
    · exact List.Perm.refl _
    · exact (List.Perm.cons x ih).trans (List.Perm.swap r x xs)

theorem sortRules_perm (l : List Rule) : (sortRules l).Perm l := by
  induction l with
  | nil => exact List.Perm.refl _
  | cons x xs ih => exact (insertRule_perm x _).trans (List.Perm.cons x ih)

def PrioLE (a b : Rule) : Prop := a.prio ≤ b.prio

theorem insertRule_sorted (r : Rule) (l : List Rule) (h : l.Pairwise PrioLE) : (insertRule r l).Pairwise PrioLE := by
  induction l with
  | nil => simp [insertRule]
  | cons x xs ih =>
    simp only [insertRule]
    have hx := List.pairwise_cons.mp h
    split
    · rename_i hlt
      refine List.pairwise_cons.mpr ⟨?_, h⟩
      intro z hz
      simp only [List.mem_cons] at hz
      rcases hz with rfl | hz
      · unfold PrioLE; omega
      · have := hx.1 z hz; unfold PrioLE at *; omega
    · rename_i hge
      refine List.pairwise_cons.mpr ⟨?_, ih hx.2⟩
      intro z hz
      have := (insertRule_perm r xs).subset hz
      simp only [List.mem_cons] at this
      rcases this with rfl | hz'
      · unfold PrioLE; omega
      · exact hx.1 z hz'

theorem sortRules_sorted (l : List Rule) : (sortRules l).Pairwise PrioLE := by
  induction l with
  | nil => simp [sortRules]
  | cons x xs ih => exact insertRule_sorted x _ ih

/-- in a priority-sorted list the answer comes from the strictly-lowest-priority rule that yields a route -/
theorem firstYield_sorted (h : Host) (k : Pkt) (r0 : Rule) (rt : Route) (l : List Rule) (hs : l.Pairwise PrioLE)
    (hm : r0 ∈ l) (hy : yield h k r0 = some rt)
    (hmin : ∀ r ∈ l, (yield h k r).isSome → r0.prio < r.prio ∨ r = r0) : firstYield h k l = some rt := by
  induction l with
  | nil => cases hm
  | cons x xs ih =>
    simp only [firstYield]
    by_cases hx : x = r0
    · subst hx; rw [hy]
    · have hmem : r0 ∈ xs := by
        simp only [List.mem_cons] at hm
        rcases hm with rfl | hm
        · exact absurd rfl hx
        · exact hm
      have hle : x.prio ≤ r0.prio := (List.pairwise_cons.mp hs).1 r0 hmem
      have hnone : yield h k x = none := by
        cases hyx : yield h k x with
        | none => rfl
        | some v =>
          have := hmin x (by simp) (by simp [hyx])
          rcases this with hlt | heq
          · omega
          · exact absurd heq hx
      rw [hnone]
      exact ih (List.pairwise_cons.mp hs).2 hmem (fun r hr hyr => hmin r (by simp [hr]) hyr)

theorem lookup_min (h : Host) (k : Pkt) (r0 : Rule) (rt : Route) (hm : r0 ∈ h.rules) (hy : yield h k r0 = some rt)
    (hmin : ∀ r ∈ h.rules, (yield h k r).isSome → r0.prio < r.prio ∨ r = r0) : lookup h k = some rt := by
  unfold lookup
  exact firstYield_sorted h k r0 rt _ (sortRules_sorted _) ((sortRules_perm _).symm.subset hm) hy
    (fun r hr => hmin r ((sortRules_perm _).subset hr))

/-- longest prefix: a matching route that is strictly longer than every other matching route (or equal to it) wins -/
theorem bestRoute_spec (f : Fam) (dst : Nat) (rs : List Route) (rt : Route) (hm : rt ∈ rs)
    (hc : pfxContains rt.dst f dst = true)
    (hbest : ∀ x ∈ rs, pfxContains x.dst f dst = true → x.dst.len < rt.dst.len ∨ x = rt) :
    bestRoute f dst rs = some rt := by
  induction rs with
  | nil => cases hm
  | cons x xs ih =>
    simp only [bestRoute]
    by_cases hxm : rt ∈ xs
    · have hb := ih hxm (fun y hy => hbest y (by simp [hy]))
      rw [hb]
      by_cases hxc : pfxContains x.dst f dst = true
      · simp only [hxc, if_true]
        rcases hbest x (by simp) hxc with hlt | heq
        · simp [hlt]
        · subst heq; split <;> rfl
      · simp [hxc]
    · have hx : x = rt := by
        simp only [List.mem_cons] at hm
        rcases hm with rfl | hm
        · rfl
        · exact absurd hm hxm
      subst hx
      simp only [hc, if_true]
      cases hb : bestRoute f dst xs with
      | none => rfl
      | some y =>
        simp only
        -- y is a matching member of xs, hence not longer than x
        have hy : y ∈ xs ∧ pfxContains y.dst f dst = true := by
          clear ih hbest hxm hm
          induction xs generalizing y with
          | nil => simp [bestRoute] at hb
          | cons z zs ihz =>
            simp only [bestRoute] at hb
            by_cases hzc : pfxContains z.dst f dst = true
            · simp only [hzc, if_true] at hb
              cases hbz : bestRoute f dst zs with
              | none => simp only [hbz] at hb; injection hb with hb; subst hb; exact ⟨by simp, hzc⟩
              | some w =>
                simp only [hbz] at hb
                split at hb
                · injection hb with hb; subst hb
                  have := ihz w hbz; exact ⟨by simp [this.1], this.2⟩
                · injection hb with hb; subst hb; exact ⟨by simp, hzc⟩
            · simp only [hzc] at hb
              have := ihz y hb
              exact ⟨by simp [this.1], this.2⟩
        rcases hbest y (by simp [hy.1]) hy.2 with hlt | heq
        · have : ¬ y.dst.len > x.dst.len := by omega
          simp [this]
        · subst heq; split <;> rfl

/-! ### membership in what the generators put into the host namespace -/

def toRule (f : Fam) (a : Nat) : Rule := { prio := toContainerPrio, dst := some (Pfx.host f a), table := mainTable }
def fromRule (f : Fam) (a : Nat) (t : Nat) : Rule := { prio := fromContainerPrio, src := some (Pfx.host f a), table := t }
def vethRoute (f : Fam) (a : Nat) (veth : Nat) : Route := { dst := Pfx.host f a, dev := veth, scopeLink := true }

theorem mem_hostRules (p : Pod) (r : Rule) :
    r ∈ p.hostRules ↔ ∃ f a n, p.cfg.ip f = some (a, n) ∧ (r = toRule f a ∨ r = fromRule f a (tableOf p.eni)) := by
  unfold Pod.hostRules genHostPeerPolicy hostPeerFam
  constructor
  · intro h
    simp only [List.mem_append] at h
    rcases h with h | h
    · cases h4 : p.cfg.ip .v4 with
      | none => simp [h4] at h
      | some an =>
        obtain ⟨a, n⟩ := an
        simp only [h4, List.mem_cons, List.not_mem_nil, or_false] at h
        exact ⟨.v4, a, n, h4, by rcases h with h | h <;> simp [h, toRule, fromRule]⟩
    · cases h6 : p.cfg.ip .v6 with
      | none => simp [h6] at h
      | some an =>
        obtain ⟨a, n⟩ := an
        simp only [h6, List.mem_cons, List.not_mem_nil, or_false] at h
        exact ⟨.v6, a, n, h6, by rcases h with h | h <;> simp [h, toRule, fromRule]⟩
  · rintro ⟨f, a, n, hip, hr⟩
    simp only [List.mem_append]
    cases f with
    | v4 => left; simp only [hip, List.mem_cons, List.not_mem_nil, or_false]; rcases hr with rfl | rfl <;> simp [toRule, fromRule]
    | v6 => right; simp only [hip, List.mem_cons, List.not_mem_nil, or_false]; rcases hr with rfl | rfl <;> simp [toRule, fromRule]

theorem mem_vethRoutes (p : Pod) (rt : Route) :
    rt ∈ p.vethRoutes ↔ ∃ f a n, p.cfg.ip f = some (a, n) ∧ rt = vethRoute f a p.veth := by
  unfold Pod.vethRoutes genHostPeerPolicy hostPeerFam
  constructor
  · intro h
    simp only [List.mem_append] at h
    rcases h with h | h
    · cases h4 : p.cfg.ip .v4 with
      | none => simp [h4] at h
      | some an => obtain ⟨a, n⟩ := an; simp only [h4, List.mem_singleton] at h; exact ⟨.v4, a, n, h4, by simp [h, vethRoute]⟩
    · cases h6 : p.cfg.ip .v6 with
      | none => simp [h6] at h
      | some an => obtain ⟨a, n⟩ := an; simp only [h6, List.mem_singleton] at h; exact ⟨.v6, a, n, h6, by simp [h, vethRoute]⟩
  · rintro ⟨f, a, n, hip, rfl⟩
    simp only [List.mem_append]
    cases f with
    | v4 => left; simp [hip, vethRoute]
    | v6 => right; simp [hip, vethRoute]

/-- the default route of family `f` that a pod's ENI gets in the ENI's own table -/
def eniDefault (p : Pod) (f : Fam) : Route :=
  { table := tableOf p.eni, dst := Pfx.default f, gw := if p.cfg.stripVlan then p.cfg.eniGw f else p.cfg.gw f, dev := p.eni, onlink := true }

/-- the IPv6 link route to the gateway, in the main table -/
def eniGwLink (p : Pod) : Route :=
  { dst := Pfx.host .v6 ((if p.cfg.stripVlan then p.cfg.eniGw .v6 else p.cfg.gw .v6).getD 0), dev := p.eni, scopeLink := true }

theorem mem_eniRoutes (p : Pod) (rt : Route) :
    rt ∈ p.eniRoutes ↔ ((p.cfg.ip4.isSome ∧ rt = eniDefault p .v4) ∨ (p.cfg.ip6.isSome ∧ (rt = eniGwLink p ∨ rt = eniDefault p .v6))) := by
  unfold Pod.eniRoutes genENIPolicy
  simp only [List.mem_append]
  constructor
  · rintro (h | h)
    · split at h
      · rename_i h4; simp only [List.mem_singleton] at h; left; exact ⟨h4, by rw [h]; rfl⟩
      · cases h
    · split at h
      · rename_i h6
        simp only [List.mem_cons, List.not_mem_nil, or_false] at h
        right; refine ⟨h6, ?_⟩
        rcases h with h | h
        · left; rw [h]; rfl
        · right; rw [h]; rfl
      · cases h
  · rintro (⟨h4, rfl⟩ | ⟨h6, h⟩)
    · left; simp only [h4, if_true, List.mem_singleton]; rfl
    · right; simp only [h6, if_true, List.mem_cons, List.not_mem_nil, or_false]
      rcases h with rfl | rfl
      · left; rfl
      · right; rfl

/-- assumptions about the node the theorems are stated under -/
structure WF (base : List Route) (pods : List Pod) : Prop where
  /-- an address is held by one pod (C01 / C02) -/
  uniqueAddr : ∀ p ∈ pods, ∀ q ∈ pods, ∀ f a n m, p.cfg.ip f = some (a, n) → q.cfg.ip f = some (a, m) → p = q
  /-- the node's own routes live in the main table and are not host routes for pod addresses -/
  baseMain : ∀ b ∈ base, tableId b.table = mainTable
  baseShort : ∀ b ∈ base, b.dst.len < b.dst.fam.bits
  /-- pod addresses are addresses: inside the family's range -/
  addrRange : ∀ p ∈ pods, ∀ f a n, p.cfg.ip f = some (a, n) → a < 2 ^ f.bits
  /-- an ENI gateway is not a pod address -/
  gwNotPod : ∀ p ∈ pods, ∀ q ∈ pods, ∀ a n, q.cfg.ip .v6 = some (a, n) → (eniGwLink p).dst.addr ≠ a
  /-- pods on one ENI agree on the ENI's gateway (they share the ENI's configuration) -/
  sameEni : ∀ p ∈ pods, ∀ q ∈ pods, ∀ f, p.eni = q.eni → eniDefault p f = eniDefault q f

theorem pfxContains_host (f g : Fam) (a b : Nat) : pfxContains (Pfx.host f a) g b = true ↔ f = g ∧ a = b := by
  unfold pfxContains Pfx.host
  simp only [Bool.and_eq_true, beq_iff_eq]
  constructor
  · rintro ⟨h1, h2⟩; subst h1; simp at h2; exact ⟨rfl, h2.symm⟩
  · rintro ⟨h1, h2⟩; subst h1; subst h2; simp

theorem pfxContains_default (f g : Fam) (b : Nat) (hb : b < 2 ^ g.bits) : pfxContains (Pfx.default f) g b = true ↔ f = g := by
  unfold pfxContains Pfx.default
  simp only [Bool.and_eq_true, beq_iff_eq, Nat.sub_zero, Nat.zero_div]
  constructor
  · exact fun h => h.1
  · intro h; exact ⟨h, Nat.div_eq_of_lt hb⟩

theorem prio_order : toContainerPrio < fromContainerPrio ∧ fromContainerPrio < mainRule.prio := by
  simp [toContainerPrio, fromContainerPrio, mainRule, Gen.dpToContainerPriority, Gen.dpFromContainerPriority]

theorem tableOf_ne_main (e : Nat) : tableId (tableOf e) ≠ mainTable := by
  unfold tableId tableOf mainTable Gen.routeTableBase
  split <;> omega

theorem mem_host_rules (base : List Route) (pods : List Pod) (r : Rule) :
    r ∈ (hostState base pods).rules ↔ r = mainRule ∨ ∃ p ∈ pods, r ∈ p.hostRules := by
  simp [hostState, List.mem_flatMap]

theorem mem_host_routes (base : List Route) (pods : List Pod) (rt : Route) :
    rt ∈ (hostState base pods).routes ↔ rt ∈ base ∨ ∃ p ∈ pods, rt ∈ p.vethRoutes ∨ rt ∈ p.eniRoutes := by
  simp [hostState, List.mem_flatMap]

/-- a host namespace that contains exactly the main rule, the node's own routes and what the
    policy-route datapath set up for `pods` -/
def HostIs (h : Host) (base : List Route) (pods : List Pod) : Prop :=
  (∀ r, r ∈ h.rules ↔ r = mainRule ∨ ∃ p ∈ pods, r ∈ p.hostRules) ∧
  (∀ rt, rt ∈ h.routes ↔ rt ∈ base ∨ ∃ p ∈ pods, rt ∈ p.vethRoutes ∨ rt ∈ p.eniRoutes)

theorem hostState_is (base : List Route) (pods : List Pod) : HostIs (hostState base pods) base pods :=
  ⟨mem_host_rules base pods, mem_host_routes base pods⟩

/-- **Traffic for a pod's address is delivered to that pod's host-side interface**, whatever the
    source and whatever other pods (also on the same ENI) are set up. -/
theorem c13_to_pod_gen (h : Host) (base : List Route) (pods : List Pod) (hh : HostIs h base pods) (wf : WF base pods) (p : Pod) (hp : p ∈ pods)
    (f : Fam) (a n : Nat) (hip : p.cfg.ip f = some (a, n)) (src : Nat) :
    lookup h ⟨f, src, a⟩ = some (vethRoute f a p.veth) := by
  have hrule : toRule f a ∈ h.rules :=
    (hh.1 _).mpr (Or.inr ⟨p, hp, (mem_hostRules p _).mpr ⟨f, a, n, hip, Or.inl rfl⟩⟩)
  apply lookup_min _ _ (toRule f a) _ hrule
  · -- the rule matches and the main table's best route is the pod's host route
    unfold yield
    have hm : ruleMatches (toRule f a) ⟨f, src, a⟩ = true := by
      simp [ruleMatches, toRule, optContains, (pfxContains_host f f a a).mpr ⟨rfl, rfl⟩]
    rw [if_pos hm]
    apply bestRoute_spec
    · simp only [List.mem_filter, beq_iff_eq]
      refine ⟨(hh.2 _).mpr (Or.inr ⟨p, hp, Or.inl ((mem_vethRoutes p _).mpr ⟨f, a, n, hip, rfl⟩)⟩), ?_⟩
      simp [vethRoute, toRule, tableId, mainTable]
    · exact (pfxContains_host f f a a).mpr ⟨rfl, rfl⟩
    · intro x hx hxc
      simp only [List.mem_filter, beq_iff_eq] at hx
      rcases (hh.2 _).mp hx.1 with hb | ⟨q, hq, hv | he⟩
      · left
        have hlen := wf.baseShort x hb
        have hfam : x.dst.fam = f := by
          unfold pfxContains at hxc; simp only [Bool.and_eq_true, beq_iff_eq] at hxc; exact hxc.1
        rw [hfam] at hlen
        simpa [vethRoute, Pfx.host] using hlen
      · obtain ⟨g, b, m, hqip, rfl⟩ := (mem_vethRoutes q x).mp hv
        have := (pfxContains_host g f b a).mp hxc
        obtain ⟨rfl, rfl⟩ := this
        have hpq := wf.uniqueAddr p hp q hq g b n m hip hqip
        subst hpq
        right; rfl
      · rcases (mem_eniRoutes q x).mp he with ⟨_, rfl⟩ | ⟨_, rfl | rfl⟩
        · exfalso
          have := hx.2
          simp only [eniDefault, toRule] at this
          exact tableOf_ne_main q.eni (by simpa [tableId, mainTable] using this)
        · exfalso
          have hc := (pfxContains_host .v6 f _ a).mp hxc
          obtain ⟨rfl, hga⟩ := hc
          exact wf.gwNotPod q hq p hp a n hip (by simpa [eniGwLink, Pfx.host] using hga)
        · exfalso
          have := hx.2
          simp only [eniDefault, toRule] at this
          exact tableOf_ne_main q.eni (by simpa [tableId, mainTable] using this)
  · -- no rule of lower or equal priority competes
    intro r hr hy
    rcases (hh.1 _).mp hr with rfl | ⟨q, _, hq⟩
    · left; have := prio_order; simp only [toRule]; omega
    · obtain ⟨g, b, m, _, hrr⟩ := (mem_hostRules q r).mp hq
      rcases hrr with rfl | rfl
      · right
        unfold yield at hy
        split at hy
        · rename_i hm
          simp only [ruleMatches, toRule, optContains, Bool.and_eq_true] at hm
          obtain ⟨rfl, rfl⟩ := (pfxContains_host g f b a).mp hm.1.2
          rfl
        · simp at hy
      · left; have := prio_order; simp only [toRule, fromRule]; omega

/-- **Traffic sourced from a pod leaves through the ENI that owns the address, via that ENI's
    gateway** (table `1000 + ifindex`), for every destination that is not a pod on this node. -/
theorem c13_from_pod_gen (h : Host) (base : List Route) (pods : List Pod) (hh : HostIs h base pods) (wf : WF base pods) (p : Pod) (hp : p ∈ pods)
    (f : Fam) (a n : Nat) (hip : p.cfg.ip f = some (a, n)) (dst : Nat) (hdr : dst < 2 ^ f.bits)
    (hnot : ∀ q ∈ pods, ∀ m, q.cfg.ip f ≠ some (dst, m)) :
    lookup h ⟨f, a, dst⟩ = some (eniDefault p f) := by
  have hrule : fromRule f a (tableOf p.eni) ∈ h.rules :=
    (hh.1 _).mpr (Or.inr ⟨p, hp, (mem_hostRules p _).mpr ⟨f, a, n, hip, Or.inr rfl⟩⟩)
  have hsome : ∀ g : Fam, p.cfg.ip g = (match g with | .v4 => p.cfg.ip4 | .v6 => p.cfg.ip6) := by intro g; cases g <;> rfl
  apply lookup_min _ _ (fromRule f a (tableOf p.eni)) _ hrule
  · unfold yield
    have hm : ruleMatches (fromRule f a (tableOf p.eni)) ⟨f, a, dst⟩ = true := by
      simp [ruleMatches, fromRule, optContains, (pfxContains_host f f a a).mpr ⟨rfl, rfl⟩]
    rw [if_pos hm]
    apply bestRoute_spec
    · simp only [List.mem_filter, beq_iff_eq]
      refine ⟨(hh.2 _).mpr (Or.inr ⟨p, hp, Or.inr ((mem_eniRoutes p _).mpr ?_)⟩), by simp [eniDefault, fromRule]⟩
      cases f with
      | v4 => left; exact ⟨by have := hsome .v4; simp only at this; rw [← this, hip]; rfl, rfl⟩
      | v6 => right; exact ⟨by have := hsome .v6; simp only at this; rw [← this, hip]; rfl, Or.inr rfl⟩
    · exact (pfxContains_default f f dst hdr).mpr rfl
    · intro x hx hxc
      simp only [List.mem_filter, beq_iff_eq] at hx
      have htab : tableId x.table = tableId (tableOf p.eni) := by simpa [fromRule] using hx.2
      rcases (hh.2 _).mp hx.1 with hb | ⟨q, hq, hv | he⟩
      · exfalso; exact tableOf_ne_main p.eni (by rw [← htab]; exact wf.baseMain x hb)
      · exfalso
        obtain ⟨g, b, m, _, rfl⟩ := (mem_vethRoutes q x).mp hv
        exact tableOf_ne_main p.eni (by rw [← htab]; simp [vethRoute, tableId])
      · have heni : ∀ g, x = eniDefault q g → x = eniDefault p f := by
          intro g hxg
          subst hxg
          have hfam : g = f := (pfxContains_default g f dst hdr).mp hxc
          subst hfam
          have hte : q.eni = p.eni := by
            simp only [eniDefault, tableId, tableOf, Gen.routeTableBase] at htab
            have h1 : ¬ (1000 + q.eni = 0) := by omega
            have h2 : ¬ (1000 + p.eni = 0) := by omega
            simp only [h1, h2, if_false] at htab
            omega
          exact (wf.sameEni q hq p hp g hte)
        rcases (mem_eniRoutes q x).mp he with ⟨_, hx4⟩ | ⟨_, hx6 | hx6⟩
        · right; exact heni .v4 hx4
        · exfalso; subst hx6; exact tableOf_ne_main p.eni (by rw [← htab]; simp [eniGwLink, tableId])
        · right; exact heni .v6 hx6
  · intro r hr hy
    rcases (hh.1 _).mp hr with rfl | ⟨q, hq, hqr⟩
    · left; have := prio_order; simp only [fromRule]; omega
    · obtain ⟨g, b, m, hqip, hrr⟩ := (mem_hostRules q r).mp hqr
      rcases hrr with rfl | rfl
      · -- a to-pod rule would need the destination to be that pod's address
        exfalso
        unfold yield at hy
        split at hy
        · rename_i hm
          simp only [ruleMatches, toRule, optContains, Bool.and_eq_true] at hm
          obtain ⟨rfl, rfl⟩ := (pfxContains_host g f b dst).mp hm.1.2
          exact hnot q hq m hqip
        · simp at hy
      · right
        unfold yield at hy
        split at hy
        · rename_i hm
          simp only [ruleMatches, fromRule, optContains, Bool.and_eq_true] at hm
          obtain ⟨rfl, rfl⟩ := (pfxContains_host g f b a).mp hm.1.1
          have := wf.uniqueAddr p hp q hq g b n m hip hqip
          subst this; rfl
        · simp at hy

theorem c13_to_pod (base : List Route) (pods : List Pod) (wf : WF base pods) (p : Pod) (hp : p ∈ pods)
    (f : Fam) (a n : Nat) (hip : p.cfg.ip f = some (a, n)) (src : Nat) :
    lookup (hostState base pods) ⟨f, src, a⟩ = some (vethRoute f a p.veth) :=
  c13_to_pod_gen _ base pods (hostState_is base pods) wf p hp f a n hip src

theorem c13_from_pod (base : List Route) (pods : List Pod) (wf : WF base pods) (p : Pod) (hp : p ∈ pods)
    (f : Fam) (a n : Nat) (hip : p.cfg.ip f = some (a, n)) (dst : Nat) (hdr : dst < 2 ^ f.bits)
    (hnot : ∀ q ∈ pods, ∀ m, q.cfg.ip f ≠ some (dst, m)) :
    lookup (hostState base pods) ⟨f, a, dst⟩ = some (eniDefault p f) :=
  c13_from_pod_gen _ base pods (hostState_is base pods) wf p hp f a n hip dst hdr hnot

/-! ### the kernel programming: stale rules for a reused address are replaced -/

theorem mem_ensureRule (rules : List Rule) (r x : Rule) :
    x ∈ ensureRule rules r ↔ x = r ∨ (x ∈ rules ∧ ruleKey x ≠ ruleKey r) := by
  unfold ensureRule
  simp only [List.mem_append, List.mem_filter, Bool.or_eq_true, decide_eq_true_eq]
  constructor
  · rintro (⟨hm, hk | he⟩ | hx)
    · exact Or.inr ⟨hm, hk⟩
    · exact Or.inl he
    · split at hx
      · cases hx
      · simp at hx; exact Or.inl hx
  · rintro (rfl | ⟨hm, hk⟩)
    · by_cases h : x ∈ rules
      · exact Or.inl ⟨h, Or.inr rfl⟩
      · right; simp [h]
    · exact Or.inl ⟨hm, Or.inl hk⟩

/-- after `EnsureIPRule r`, `r` is there and it is the only rule with its key: a stale rule for the
    same address pointing to another ENI's table is gone -/
theorem c13_ensure_rule_replaces_stale (rules : List Rule) (r : Rule) :
    r ∈ ensureRule rules r ∧ ∀ x ∈ ensureRule rules r, ruleKey x = ruleKey r → x = r := by
  constructor
  · exact (mem_ensureRule rules r r).mpr (Or.inl rfl)
  · intro x hx hk
    rcases (mem_ensureRule rules r x).mp hx with h | ⟨_, hne⟩
    · exact h
    · exact absurd hk hne

theorem mem_ensureAll (rs : List Rule) : ∀ (rules : List Rule) (x : Rule),
    rs.Pairwise (fun a b => ruleKey a ≠ ruleKey b) →
    (x ∈ rs.foldl ensureRule rules ↔ x ∈ rs ∨ (x ∈ rules ∧ ∀ r ∈ rs, ruleKey x ≠ ruleKey r)) := by
  induction rs with
  | nil => intro rules x _; simp
  | cons r rs ih =>
    intro rules x hp
    have hp' := List.pairwise_cons.mp hp
    simp only [List.foldl_cons]
    rw [ih (ensureRule rules r) x hp'.2, mem_ensureRule]
    constructor
    · rintro (h | ⟨h1 | ⟨h1, h2⟩, h3⟩)
      · exact Or.inl (by simp [h])
      · exact Or.inl (by simp [h1])
      · right; refine ⟨h1, ?_⟩
        intro y hy
        simp only [List.mem_cons] at hy
        rcases hy with rfl | hy
        · exact h2
        · exact h3 y hy
    · rintro (h | ⟨h1, h2⟩)
      · simp only [List.mem_cons] at h
        rcases h with rfl | h
        · exact Or.inr ⟨Or.inl rfl, fun y hy => hp'.1 y hy⟩
        · exact Or.inl h
      · exact Or.inr ⟨Or.inr ⟨h1, h2 r (by simp)⟩, fun y hy => h2 y (by simp [hy])⟩

/-- the rules a pod's setup ensures have pairwise different keys -/
theorem hostRules_keys (p : Pod) : p.hostRules.Pairwise (fun a b => ruleKey a ≠ ruleKey b) := by
  have hp : toContainerPrio ≠ fromContainerPrio := by
    simp [toContainerPrio, fromContainerPrio, Gen.dpToContainerPriority, Gen.dpFromContainerPriority]
  unfold Pod.hostRules genHostPeerPolicy hostPeerFam
  rcases h4 : p.cfg.ip .v4 with _ | ⟨a4, n4⟩ <;> rcases h6 : p.cfg.ip .v6 with _ | ⟨a6, n6⟩ <;>
    simp [ruleKey, hp, Ne.symm hp, Pfx.host]

/-- **Setting a pod up on a host that still holds stale rules for its address** (a lost DEL, then the
    address re-assigned, possibly on another ENI): afterwards the rules with the pod's keys are
    exactly the pod's own. -/
theorem c13_setup_replaces_stale_rules (h : Host) (p : Pod) (x : Rule) :
    x ∈ (setupPod h p).rules ↔ x ∈ p.hostRules ∨ (x ∈ h.rules ∧ ∀ r ∈ p.hostRules, ruleKey x ≠ ruleKey r) := by
  unfold setupPod
  exact mem_ensureAll p.hostRules h.rules x (hostRules_keys p)

/-! ### the daemon's periodic rule sync -/

theorem ensureRule_noop (rules : List Rule) (r : Rule) (hm : r ∈ rules) (hu : ∀ x ∈ rules, ruleKey x = ruleKey r → x = r) :
    ensureRule rules r = rules := by
  unfold ensureRule
  simp only [hm, if_true, List.append_nil]
  apply List.filter_eq_self.mpr
  intro x hx
  by_cases hk : ruleKey x = ruleKey r
  · simp [hu x hx hk]
  · simp [hk]

theorem ensureRules_noop (rs : List Rule) (rules : List Rule)
    (h : ∀ r ∈ rs, r ∈ rules ∧ ∀ x ∈ rules, ruleKey x = ruleKey r → x = r) : rs.foldl ensureRule rules = rules := by
  induction rs with
  | nil => rfl
  | cons r rs ih =>
    simp only [List.foldl_cons]
    rw [ensureRule_noop rules r (h r (by simp)).1 (h r (by simp)).2]
    exact ih fun q hq => h q (by simp [hq])

theorem ensureRoutes_noop (rts : List Route) (routes : List Route) (h : ∀ rt ∈ rts, rt ∈ routes) :
    rts.foldl ensureRoute routes = routes := by
  induction rts with
  | nil => rfl
  | cons rt rts ih =>
    simp only [List.foldl_cons]
    have : ensureRoute routes rt = routes := by unfold ensureRoute; simp [h rt (by simp)]
    rw [this]
    exact ih fun q hq => h q (by simp [hq])

/-- what "this interface of the pod is set up on the host" means: its rules are there and nothing else has their keys, its
    routes are there -/
def SetUp (h : Host) (p : Pod) : Prop :=
  (∀ r ∈ p.hostRules, r ∈ h.rules ∧ ∀ x ∈ h.rules, ruleKey x = ruleKey r → x = r) ∧ (∀ rt ∈ p.eniRoutes ++ p.vethRoutes, rt ∈ h.routes)

/-- **The periodic rule sync changes nothing on a host where every interface of the pod is set up**: in particular each
    address of a multi-interface pod stays routed to the host veth of the interface that owns it.  (The sync asserts each
    interface with that interface's own host veth; a sync that used one veth for all of them would not be `ruleSync`.) -/
theorem c13_rule_sync_noop (h : Host) (ifaces : List Pod) (hs : ∀ p ∈ ifaces, SetUp h p) : ruleSync h ifaces = h := by
  unfold ruleSync
  induction ifaces with
  | nil => rfl
  | cons p ps ih =>
    simp only [List.foldl_cons]
    have hp := hs p (by simp)
    have : setupPod h p = h := by
      unfold setupPod
      rw [ensureRules_noop p.hostRules h.rules hp.1, ensureRoutes_noop _ h.routes hp.2]
    rw [this]
    exact ih fun q hq => hs q (by simp [hq])

/-- non-vacuity: two interfaces of one pod on one ENI (one subnet, one gateway), set up one after the other - the sync over both changes nothing, and a
    sync that asserted the second interface's address on the first interface's host veth would (the route moves) -/
example :
    let c0 : Cfg := { ip4 := some (0x0a00000a, 24), ip6 := none, gw4 := some 0x0a0000fd, gw6 := none, host4 := none, host6 := none,
                      eniGw4 := none, eniGw6 := none, stripVlan := false, defaultRoute := true, multiNetwork := true, extra := [], ifName := "eth0" }
    let c1 : Cfg := { c0 with ip4 := some (0x0a00000b, 24), defaultRoute := false, ifName := "eth1" }
    let p0 : Pod := { cfg := c0, veth := 2, eni := 1 }
    let p1 : Pod := { cfg := c1, veth := 3, eni := 1 }
    let h := setupPod (setupPod { rules := [mainRule], routes := [] } p0) p1
    (ruleSync h [p0, p1]).routes = h.routes ∧ (ruleSync h [p0, p1]).rules = h.rules ∧
    (ruleSync h [p0, { p1 with veth := 2 }]).routes ≠ h.routes := by decide

theorem eq_of_ruleKey (l : List Rule) (hpw : l.Pairwise (fun a b => ruleKey a ≠ ruleKey b)) (x r : Rule) (hx : x ∈ l) (hr : r ∈ l)
    (hk : ruleKey x = ruleKey r) : x = r := by
  induction l with
  | nil => cases hx
  | cons a l ih =>
    have ⟨h1, h2⟩ := List.pairwise_cons.mp hpw
    simp only [List.mem_cons] at hx hr
    rcases hx with rfl | hx <;> rcases hr with rfl | hr
    · rfl
    · exact absurd hk (h1 r hr)
    · exact absurd hk.symm (h1 x hx)
    · exact ih h2 hx hr

/-- setting an interface up establishes the rules part of `SetUp` for it, on any host (stale rules included) -/
theorem c13_setup_rules_setUp (h : Host) (p : Pod) :
    ∀ r ∈ p.hostRules, r ∈ (setupPod h p).rules ∧ ∀ x ∈ (setupPod h p).rules, ruleKey x = ruleKey r → x = r := by
  intro r hr
  constructor
  · exact (c13_setup_replaces_stale_rules h p r).mpr (Or.inl hr)
  · intro x hx hk
    rcases (c13_setup_replaces_stale_rules h p x).mp hx with hx' | ⟨_, hne⟩
    · exact eq_of_ruleKey p.hostRules (hostRules_keys p) x r hx' hr hk
    · exact absurd hk (hne r hr)

/-! ### `CleanIPRules`: run at every DEL -/

/-- **Cleaning up after vanished devices removes nothing that belongs to another pod**: a rule that is not bound to a device
    and is not about the address of a dead rule stays -/
theorem c13_clean_keeps_others (rules : List Rule) (r : Rule) (hm : r ∈ rules) (ho : r.oif = none)
    (hd : optIn r.dst (deadNets rules) = false) (hs : optIn r.src (deadNets rules) = false) : r ∈ cleanRules rules := by
  unfold cleanRules
  simp [List.mem_filter, hm, ho, hd, hs]

/-- … and every device-bound rule of the pod priorities goes, with the address-only rules for its address -/
theorem c13_clean_removes_dead (rules : List Rule) (r : Rule) (hm : r ∈ cleanRules rules) (hp : isPodPrio r = true) :
    r.oif = none ∧ optIn r.dst (deadNets rules) = false ∧ optIn r.src (deadNets rules) = false := by
  unfold cleanRules at hm
  have hm2 := (List.mem_filter.mp hm).2
  simp only [hp, Bool.true_and, Bool.not_eq_true', Bool.or_eq_false_iff] at hm2
  refine ⟨?_, hm2.1.2, hm2.2⟩
  cases h : r.oif with
  | none => rfl
  | some x => simp [h] at hm2

/-- without device-bound rules there is nothing to clean -/
theorem c13_clean_noop (rules : List Rule) (h : ∀ r ∈ rules, r.oif = none) : cleanRules rules = rules := by
  have hd : deadRules rules = [] := by
    unfold deadRules
    apply List.filter_eq_nil_iff.mpr
    intro r hr; simp [h r hr]
  unfold cleanRules deadNets
  rw [hd]
  apply List.filter_eq_self.mpr
  intro r hr
  have h1 : optIn r.dst [] = false := by unfold optIn; cases r.dst <;> simp
  have h2 : optIn r.src [] = false := by unfold optIn; cases r.src <;> simp
  simp [h r hr, h1, h2]

example :
    let dead : Rule := { prio := fromContainerPrio, src := some (Pfx.host .v4 0x0a0000c8), oif := some "gone", table := 1002 }
    let old : Rule := { prio := toContainerPrio, dst := some (Pfx.host .v4 0x0a0000c8), table := mainTable }
    let live : Rule := { prio := toContainerPrio, dst := some (Pfx.host .v4 0x0a00000a), table := mainTable }
    cleanRules [mainRule, old, live, dead] = [mainRule, live] := by decide

/-! ### teardown -/

theorem prio_ne : toContainerPrio ≠ fromContainerPrio ∧ mainRule.prio ≠ toContainerPrio ∧ mainRule.prio ≠ fromContainerPrio := by
  simp [toContainerPrio, fromContainerPrio, mainRule, Gen.dpToContainerPriority, Gen.dpFromContainerPriority]

theorem selects_own (f : Fam) (a t : Nat) : teardownSelects f a (toRule f a) = true ∧ teardownSelects f a (fromRule f a t) = true := by
  simp [teardownSelects, toRule, fromRule]

theorem selects_other (f g : Fam) (a b t : Nat) (h : ¬ (g = f ∧ b = a)) :
    teardownSelects f a (toRule g b) = false ∧ teardownSelects f a (fromRule g b t) = false ∧ teardownSelects f a mainRule = false := by
  have hp := prio_ne
  have hne : Pfx.host g b ≠ Pfx.host f a := by
    intro e; simp only [Pfx.host, Pfx.mk.injEq] at e; exact h ⟨e.1, e.2.1⟩
  refine ⟨?_, ?_, ?_⟩
  · simp [teardownSelects, toRule, hp.1, hne]
  · simp [teardownSelects, fromRule, Ne.symm hp.1, hne]
  · simp [teardownSelects, hp.2.1, hp.2.2]

def podSel (p : Pod) (r : Rule) : Bool :=
  (match p.cfg.ip4 with | some (a, _) => teardownSelects .v4 a r | none => false) ||
  (match p.cfg.ip6 with | some (a, _) => teardownSelects .v6 a r | none => false)

theorem podSel_iff (p : Pod) (r : Rule) : podSel p r = true ↔ ∃ f a n, p.cfg.ip f = some (a, n) ∧ teardownSelects f a r = true := by
  unfold podSel
  constructor
  · intro h
    simp only [Bool.or_eq_true] at h
    rcases h with h | h
    · cases h4 : p.cfg.ip4 with
      | none => simp [h4] at h
      | some an => obtain ⟨a, n⟩ := an; simp only [h4] at h; exact ⟨.v4, a, n, h4, h⟩
    · cases h6 : p.cfg.ip6 with
      | none => simp [h6] at h
      | some an => obtain ⟨a, n⟩ := an; simp only [h6] at h; exact ⟨.v6, a, n, h6, h⟩
  · rintro ⟨f, a, n, hip, hs⟩
    simp only [Bool.or_eq_true]
    cases f with
    | v4 => left; have : p.cfg.ip4 = some (a, n) := hip; simp only [this]; exact hs
    | v6 => right; have : p.cfg.ip6 = some (a, n) := hip; simp only [this]; exact hs

theorem teardown_rules_eq (p : Pod) (h : Host) : (teardown p h).rules = h.rules.filter fun r => !podSel p r := rfl

/-- **Teardown removes every rule and host-side route the pod's setup created, and nothing that
    belongs to another pod; ENI-level objects (the ENI table's default route) are shared and stay.** -/
theorem c13_teardown_exact (base : List Route) (pods : List Pod) (wf : WF base pods) (p : Pod) (hp : p ∈ pods) :
    (∀ r ∈ p.hostRules, r ∉ (teardown p (hostState base pods)).rules) ∧
    (∀ rt ∈ p.vethRoutes, rt ∉ (teardown p (hostState base pods)).routes) ∧
    (∀ q ∈ pods, q ≠ p → ∀ r ∈ q.hostRules, r ∈ (teardown p (hostState base pods)).rules) ∧
    (∀ q ∈ pods, q.veth ≠ p.veth → ∀ rt ∈ q.vethRoutes, rt ∈ (teardown p (hostState base pods)).routes) ∧
    (∀ q ∈ pods, q.eni ≠ p.veth → ∀ rt ∈ q.eniRoutes, rt ∈ (teardown p (hostState base pods)).routes) ∧
    mainRule ∈ (teardown p (hostState base pods)).rules := by
  refine ⟨?_, ?_, ?_, ?_, ?_, ?_⟩
  · intro r hr hmem
    rw [teardown_rules_eq] at hmem
    simp only [List.mem_filter, Bool.not_eq_true'] at hmem
    obtain ⟨f, a, n, hip, hrr⟩ := (mem_hostRules p r).mp hr
    have : podSel p r = true := (podSel_iff p r).mpr ⟨f, a, n, hip, by rcases hrr with rfl | rfl; exact (selects_own f a 0).1; exact (selects_own f a _).2⟩
    rw [this] at hmem; exact absurd hmem.2 (by simp)
  · intro rt hrt hmem
    obtain ⟨f, a, n, _, rfl⟩ := (mem_vethRoutes p rt).mp hrt
    simp [teardown, vethRoute] at hmem
  · intro q hq hne r hr
    rw [teardown_rules_eq]
    simp only [List.mem_filter, Bool.not_eq_true']
    refine ⟨(mem_host_rules _ _ _).mpr (Or.inr ⟨q, hq, hr⟩), ?_⟩
    cases hs : podSel p r with
    | false => rfl
    | true =>
      exfalso
      obtain ⟨f, a, n, hip, hsel⟩ := (podSel_iff p r).mp hs
      obtain ⟨g, b, m, hqip, hrr⟩ := (mem_hostRules q r).mp hr
      by_cases hsame : g = f ∧ b = a
      · obtain ⟨rfl, rfl⟩ := hsame
        exact hne (wf.uniqueAddr q hq p hp g b m n hqip hip)
      · have := selects_other f g a b (tableOf q.eni) hsame
        rcases hrr with rfl | rfl
        · rw [this.1] at hsel; cases hsel
        · rw [this.2.1] at hsel; cases hsel
  · intro q hq hne rt hrt
    obtain ⟨f, a, n, _, rfl⟩ := (mem_vethRoutes q rt).mp hrt
    simp only [teardown, List.mem_filter, bne_iff_ne, ne_eq]
    exact ⟨(mem_host_routes _ _ _).mpr (Or.inr ⟨q, hq, Or.inl hrt⟩), by simpa [vethRoute] using hne⟩
  · intro q hq hne rt hrt
    simp only [teardown, List.mem_filter, bne_iff_ne, ne_eq]
    refine ⟨(mem_host_routes _ _ _).mpr (Or.inr ⟨q, hq, Or.inr hrt⟩), ?_⟩
    rcases (mem_eniRoutes q rt).mp hrt with ⟨_, rfl⟩ | ⟨_, rfl | rfl⟩ <;> simpa [eniDefault, eniGwLink] using hne
  · rw [teardown_rules_eq]
    simp only [List.mem_filter, Bool.not_eq_true']
    refine ⟨(mem_host_rules _ _ _).mpr (Or.inl rfl), ?_⟩
    cases hs : podSel p mainRule with
    | false => rfl
    | true =>
      obtain ⟨f, a, n, _, hsel⟩ := (podSel_iff p mainRule).mp hs
      have := (selects_other f f a (a + 1) 0 (by omega)).2.2
      rw [this] at hsel; cases hsel

/-- after teardown the other pods are still reached, and still leave through their ENI -/
theorem c13_teardown_keeps_others_reachable (base : List Route) (pods : List Pod) (wf : WF base pods) (p q : Pod)
    (hp : p ∈ pods) (hq : q ∈ pods) (hne : q ≠ p) (f : Fam) (a n : Nat) (hip : q.cfg.ip f = some (a, n)) :
    toRule f a ∈ (teardown p (hostState base pods)).rules ∧ fromRule f a (tableOf q.eni) ∈ (teardown p (hostState base pods)).rules := by
  have h := (c13_teardown_exact base pods wf p hp).2.2.1 q hq hne
  exact ⟨h _ ((mem_hostRules q _).mpr ⟨f, a, n, hip, Or.inl rfl⟩), h _ ((mem_hostRules q _).mpr ⟨f, a, n, hip, Or.inr rfl⟩)⟩

end Terway.Props.C13
