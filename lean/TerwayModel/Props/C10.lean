import TerwayModel.Proofs.PodEniProps
/-
C10 — PodENI follows its state machine and an ENI is never pulled from a live pod.
Model: `TerwayModel/Model/PodEni.lean` (pod controller, PodENI controller, record collector and leaked-interface
collector for one pod name, one event per API-server / cloud call, every interleaving of the four actors with
the pod's life, with the clock and with failing calls).  Invariants: `Proofs/PodEni*.lean`, proved for every
accepted event; every theorem below quantifies over all histories `evs` from the empty world.
-/
namespace Terway.Props.C10
open Terway.PE

/-! ### (a) the phases a record goes through -/

/-- FULL STATEMENT (false of the model as of the code, see `c10_undocumented_edge_reachable`): every phase change is an
    edge of the documented life cycle (`documented`: initial → Bind, Bind → Detaching → Unbind → Binding → Bind,
    anything → Deleting). -/
def OnlyDocumented : Prop :=
  ∀ evs s ev t r r', run {} evs = some s → step s ev = some t → s.rcd = some r → t.rcd = some r' →
    r'.phase = r.phase ∨ documented r.phase r'.phase

/-- PARTIAL: every phase change in every history is a documented edge or one of the two known extra edges
    (`undocumented`: initial → Detaching and Binding → Detaching, for a fixed-address record whose pod went away
    before the attach completed; known findings `C10/phase/I-to-Dt`, `C10/phase/Bg-to-Dt`).
    In particular Unbind never goes back to Detaching (the defect repaired by 1c9af3e), nothing leaves Deleting,
    and Bind is only reached from the initial phase or from Binding. -/
theorem c10_phase_edges_partial {evs : List Ev} {s t : St} {ev : Ev} {r r' : Rec}
    (hreach : run {} evs = some s) (hs : step s ev = some t) (hr : s.rcd = some r) (hr' : t.rcd = some r') :
    r'.phase = r.phase ∨ documented r.phase r'.phase ∨ undocumented r.phase r'.phase :=
  Edges.step (Inv.init.run hreach) hs r r' hr hr'

/-- witness: a fixed-address pod is created, gets its record, and finishes before the interface was attached -/
def wEvs : List Ev :=
  [.podCreate true true, .pStart, .pGetPod (.live 0 true), .pGetRec false, .pCloudCreate true 0 0,
   .pCreateRec [(0, .never)] .ok, .pDone, .podExit, .pStart, .pGetPod .exited, .pGetRec false]
def wR : Rec :=
  { ver := 0, phase := .initial, uid := 0, del := false, allocs := [{ eni := 0, ip := 0, strat := .never }], inst := none, lastSeen := none }
def wS : St := (run {} wEvs).getD {}
def wT : St := (step wS (.pStatus 0 .detaching .ok)).getD {}

/-- the extra edge really is reachable (so the full statement is false of the model, as it is of the code):
    a fixed-address pod finishes before its interface was attached -/
theorem c10_undocumented_edge_reachable : ¬ OnlyDocumented := by
  intro h
  have := h wEvs wS (.pStatus 0 .detaching .ok) wT wR { wR with ver := 1, phase := .detaching }
    (by decide) (by decide) (by decide) (by decide)
  simp [documented, wR] at this

/-- nothing ever leaves the Deleting phase -/
theorem c10_deleting_is_final {evs : List Ev} {s t : St} {ev : Ev} {r r' : Rec}
    (hreach : run {} evs = some s) (hs : step s ev = some t) (hr : s.rcd = some r) (hr' : t.rcd = some r')
    (hd : r.phase = .deleting) : r'.phase = .deleting := by
  rcases c10_phase_edges_partial hreach hs hr hr' with h | h | h
  · rw [h, hd]
  · simp [documented, hd] at h; exact h
  · simp [undocumented, hd] at h

/-- a record only disappears once its deletion has been requested -/
theorem c10_removed_only_when_deleting {evs : List Ev} {s t : St} {ev : Ev} {r : Rec}
    (hreach : run {} evs = some s) (hs : step s ev = some t) (hr : s.rcd = some r) (hr' : t.rcd = none) : r.del = true :=
  Removed.step (Inv.init.run hreach) hs r hr hr'

/-- … and deletion is requested only for a record that is in phase Deleting (the PodENI controller) or — the one
    path that does not pass through Deleting — is bound to another pod instance than the one that exists, has no
    fixed address and whose own instance is not running (the pod controller's direct delete) -/
theorem c10_delete_requested_only {evs : List Ev} {s t : St} {ev : Ev} {r r' : Rec}
    (hreach : run {} evs = some s) (hs : step s ev = some t) (hr : s.rcd = some r) (hr' : t.rcd = some r')
    (h0 : r.del = false) (h1 : r'.del = true) :
    (ev = .eDeleteRec .ok ∧ r.phase = .deleting) ∨ (ev = .pDeleteRec .ok ∧ r.fixed = false ∧ NotRunning s r.uid) :=
  DelReq.step (Inv.init.run hreach) hs r r' hr hr' h0 h1

/-! ### (b) an interface is never pulled from a running pod instance -/

/-- in every history, whatever the interleaving of the two controllers, the two collectors, the pod's life, the
    clock and failing calls: no detach and no delete (`pulls`) ever hits an interface named by the record of the
    pod instance that exists and has not finished (`Protected`) -/
theorem c10_no_pull_from_running_pod {evs : List Ev} {s t : St} {ev : Ev} {id : Nat}
    (hreach : run {} evs = some s) (hs : step s ev = some t) (hp : pulls ev = some id) : ¬ Protected s id :=
  NoPull.step (Inv.init.run hreach) hs id hp

/-- non-vacuity: a running pod with a bound record is a reachable state in which its interface is protected -/
def vEvs : List Ev :=
  [.podCreate true true, .pStart, .pGetPod (.live 0 true), .pGetRec false, .pCloudCreate true 0 0,
   .pCreateRec [(0, .elastic)] .ok, .pDone, .eStart, .eGetRec false, .eGetPod (.live 0 true), .eGetNode (some 1),
   .eAttach 0 1 true, .eWait 0 true, .eStatusBind 0 1 .ok, .eDone]
def vS : St := (run {} vEvs).getD {}
example : run {} vEvs = some vS ∧ Protected vS 0 :=
  ⟨by decide,
   ⟨{ ver := 1, phase := .bind, uid := 0, del := false, allocs := [{ eni := 0, ip := 0, strat := .elastic }], inst := some 1, lastSeen := none },
    { uid := 0, exited := false, needs := true, fixedName := true }, by decide, by decide, by decide, rfl, rfl⟩⟩

/-- the daemon hands an interface to a pod only under a record that is Bind for that pod's uid (pkg/eni/remote.go:
    120-171): the record that names a running pod instance is never on its way out -/
theorem c10_record_of_running_pod_stays {evs : List Ev} {s : St} {c : Rec} {q : Pod}
    (hreach : run {} evs = some s) (hc : s.rcd = some c) (hq : s.pod = some q) (hu : q.uid = c.uid) (hx : q.exited = false) :
    c.phase ≠ .detaching ∧ c.phase ≠ .deleting ∧ c.del = false := by
  have hI := Inv.init.run hreach
  have := hI.i2.fJ2 c hc
  simp only [NotRunning] at this
  refine ⟨fun h => ?_, fun h => ?_, ?_⟩
  · have := this (.inl h) q hq hu; simp [hx] at this
  · have := this (.inr (.inl h)) q hq hu; simp [hx] at this
  · cases hd : c.del
    · rfl
    · have := this (.inr (.inr hd)) q hq hu; simp [hx] at this

/-- the daemon (Remote.Allocate) takes a record's interfaces for pod instance `u` only when the record is Bind,
    not being deleted, owned by `u` and not empty; it refuses in every other case -/
theorem c10_daemon_accepts_only_bound_record_of_that_instance {s t : St} {u : Nat} {ok : Bool}
    (hs : step s (.dAccept u ok) = some t) :
    ok = true ↔ ∃ c, s.rcd = some c ∧ c.phase = .bind ∧ c.uid = u ∧ c.del = false ∧ c.allocs ≠ [] := by
  simp only [step, stepD] at hs
  split at hs
  · rename_i h
    have h' : ok = daemonAccepts s u := by simpa using h
    rw [h']
    unfold daemonAccepts
    cases hr : s.rcd with
    | none => simp
    | some c =>
      simp only [Bool.and_eq_true, Bool.not_eq_true', beq_iff_eq, Option.some.injEq, exists_eq_left']
      constructor
      · rintro ⟨⟨⟨h1, h2⟩, h3⟩, h4⟩; exact ⟨h2, h3, h1, by simpa using h4⟩
      · rintro ⟨h2, h3, h1, h4⟩; exact ⟨⟨⟨h1, h2⟩, h3⟩, by simpa using h4⟩
  · cases hs

/-! ### (d) failed creation is rolled back -/

/-- between reconciliations of the pod controller every interface in the cloud is somebody else's, named by the
    record, or was left behind by a roll-back whose own delete call failed -/
theorem c10_no_interface_without_record {evs : List Ev} {s : St} {en : Eni}
    (hreach : run {} evs = some s) (hidle : s.p = .idle) (hen : en ∈ s.cloud) :
    en.id ∈ s.ext ∨ (∃ c, s.rcd = some c ∧ en.id ∈ c.enis) ∨ en.id ∈ s.leaked := by
  have hI := Inv.init.run hreach
  have hacc := hI.i4.fAcc en hen
  by_cases h1 : en.id ∈ s.ext
  · exact .inl h1
  by_cases h2 : en.id ∈ s.leaked
  · exact .inr (.inr h2)
  refine .inr (.inl ?_)
  cases hr : s.rcd with
  | none => exact absurd (hacc h1 h2 (by simp [hr]) (by simp [hidle]) (by simp [hidle])) id
  | some c =>
    by_cases h3 : en.id ∈ c.enis
    · exact ⟨c, rfl, h3⟩
    · exact absurd (hacc h1 h2 (by intro c' hc'; cases hr ▸ hc'; exact h3) (by simp [hidle]) (by simp [hidle])) id

/-- the pod controller cannot end a reconciliation while it still holds interfaces it created: it records them,
    deletes them, or a delete call failed -/
theorem c10_reconciliation_ends_clean {s t : St} (hs : step s .pDone = some t) :
    (∀ u made f, s.p = .creating u made f → made = []) ∧ (∀ rem, s.p = .rollback rem → rem = []) := by
  simp only [step, stepP] at hs
  constructor
  · intro u made f h; rw [h] at hs; cases made <;> simp_all
  · intro rem h; rw [h] at hs; cases rem <;> simp_all

/-- interfaces are only ever abandoned by a failed roll-back delete -/
theorem c10_leaked_only_by_failed_delete {evs : List Ev} {s t : St} {ev : Ev}
    (hreach : run {} evs = some s) (hs : step s ev = some t) (hl : t.leaked ≠ s.leaked) : failedDelete ev = true :=
  Leaked.step (Inv.init.run hreach) hs hl

end Terway.Props.C10
