import TerwayModel.Proofs.Daemon
/-
C04 — stale, duplicate and concurrent CNI requests are harmless.
Model: `TerwayModel/Model/Daemon.lean`; invariant and helper lemmas: `TerwayModel/Proofs/Daemon.lean`.
-/
namespace Terway.Props.C04
open Terway.Daemon

/-! ## concurrent requests for one pod -/

/-- while a request for `p` is in flight, any other request for `p` is answered `processing` and has no effect -/
theorem c04_concurrent_rejected (s : Svc) (k : Kind) (p cid : String) (v : PodGet) (h : p ∈ s.pending) :
    request s k p cid v = (s, .processing) := by
  simp [request, h]

/-- ... from the moment the first request passes the guard until it leaves -/
theorem c04_rejected_until_leave (s : Svc) (k : Kind) (p cid : String) (v : PodGet) (h : p ∉ s.pending) :
    let s' := (enter s p).1
    request s' k p cid v = (s', .processing) ∧ enter s' p = (s', .processing) := by
  simp [enter, request, h]

/-- a request for another pod is not held up -/
theorem c04_other_pod_served (s : Svc) (k : Kind) (q cid : String) (v : PodGet) (h : q ∉ s.pending) :
    request s k q cid v = body s k q cid v := by
  simp [request, h]

/-- when the in-flight request finishes the pod can be served again -/
theorem c04_leave_clears (s : Svc) (k : Kind) (p cid : String) (v : PodGet) (h : s.pending = [p]) :
    (leave s k p cid v).1.pending = [] := by
  simp [leave, h]

/-! ## stale sandbox IDs -/

/-- a DEL carrying another sandbox ID than the recorded one releases nothing -/
theorem c04_stale_del_no_effect (s : Svc) (p cid : String) (v : PodGet) (r : Rec)
    (hr : dbGet s.db p = some r) (hc : cid ≠ r.cid) : (delBody s p cid v).1 = s := by
  unfold delBody
  cases v <;> simp [hr, hc]

/-- a status query carrying another sandbox ID does not return the current allocation -/
theorem c04_stale_get_hides (s : Svc) (p cid : String) (v : PodGet) (r : Rec)
    (hr : dbGet s.db p = some r) (hc : cid ≠ r.cid) :
    (getBody s p cid v).2 = .ok [] ∨ (getBody s p cid v).2 = .err := by
  unfold getBody
  cases v <;> simp [hr, hc]

/-- a status query never changes anything -/
theorem c04_get_no_effect (s : Svc) (p cid : String) (v : PodGet) : (getBody s p cid v).1 = s := by
  unfold getBody
  cases v <;> simp only
  cases dbGet s.db p <;> simp only
  split <;> rfl

/-! ## repeated requests -/

/-- repeating a completed ADD (whatever sandbox ID it carries) returns the address the pod holds -/
theorem c04_repeat_add_same_address (s : Svc) (hI : Inv s) (p cid : String) (v : PodGet) (pick : List Ent) (r : Rec)
    (hr : dbGet s.db p = some r)
    (hatt : ∀ ip ∈ r.ips, ∃ e ∈ s.pool, e.eni = r.eni ∧ e.ip = ip)
    (s' : Svc) (ips : List Nat) (hadd : addBody s p cid v pick = (s', .ok ips)) : ips = r.ips := by
  unfold addBody at hadd
  cases v with
  | notFound => simp at hadd
  | error => simp at hadd
  | found stick =>
    simp only at hadd
    by_cases h0 : pick = []
    · simp [h0] at hadd
    · rw [if_neg h0] at hadd
      by_cases hp : pickOK s p pick = true
      · rw [if_pos hp] at hadd
        obtain ⟨eni, sp⟩ := pickOK_spec hp
        have hips : ips = pick.map (·.ip) := by
          have := congrArg Prod.snd hadd
          simp only [Reply.ok.injEq] at this
          exact this.symm
        rw [hips]
        have hpin := sp.pin r hr
        have hsh := hI.shape p r hr
        apply Shape.eq_of_subset sp.shape hsh
        intro a ha
        simp only [List.mem_map] at ha
        obtain ⟨pe, hpe, rfl⟩ := ha
        have spe := sp.each pe hpe
        -- the record has an address of the same family; its entry is the pod's own
        obtain ⟨b, hb, hfam⟩ := Shape.has_fam sp.shape (List.mem_map.mpr ⟨pe, hpe, rfl⟩) r.ips hsh
        obtain ⟨eb, hebm, heb1, heb2⟩ := hatt b hb
        have hown : OwnIn s.pool p eni pe.v6 :=
          ⟨eb, hebm, heb1.trans hpin, by simp only [Ent.v6, heb2]; exact hfam,
            hI.bound p r hr eb hebm heb1 (heb2 ▸ hb)⟩
        obtain ⟨r', hr', _, f2⟩ := hI.recorded pe spe.mem p (spe.own hown)
        rw [hr] at hr'; cases hr'
        exact f2
      · rw [if_neg hp] at hadd
        simp at hadd

/-- a DEL for a pod without a record is a no-op -/
theorem c04_del_without_record_noop (s : Svc) (p cid : String) (v : PodGet) (h : dbGet s.db p = none) :
    (delBody s p cid v).1 = s := by
  unfold delBody
  cases v <;> simp [h]

/-- repeating a DEL is a no-op -/
theorem c04_repeat_del_noop (s : Svc) (p cid : String) (v : PodGet) :
    (delBody (delBody s p cid v).1 p cid v).1 = (delBody s p cid v).1 := by
  cases v with
  | error => simp [delBody]
  | notFound => simp [delBody]
  | found stick =>
    cases hr : dbGet s.db p with
    | none => simp [delBody, hr]
    | some r =>
      by_cases hc : cid ≠ r.cid
      · have : (delBody s p cid (.found stick)).1 = s := c04_stale_del_no_effect s p cid _ r hr hc
        rw [this, this]
      · by_cases hs : s.crd = true ∨ (!stick) = true
        · have h1 : (delBody s p cid (.found stick)).1 = { s with pool := release s.pool p r.eni r.ips, db := dbDel s.db p } := by
            simp only [delBody, hr]; rw [if_neg hc, if_pos hs]
          rw [h1]
          apply c04_del_without_record_noop
          exact dbGet_dbDel_self _ _
        · have h1 : (delBody s p cid (.found stick)).1 = s := by
            simp only [delBody, hr]; rw [if_neg hc, if_neg hs]
          rw [h1, h1]

/-- an acknowledged DEL of the current sandbox of a non-sticky pod removes the record and unbinds its addresses -/
theorem c04_del_releases (s : Svc) (p : String) (r : Rec) (hr : dbGet s.db p = some r) :
    let s' := (delBody s p r.cid (.found false)).1
    dbGet s'.db p = none ∧ ∀ e ∈ s'.pool, e.eni = r.eni → e.ip ∈ r.ips → e.owner ≠ some p := by
  have h1 : (delBody s p r.cid (.found false)).1 = { s with pool := release s.pool p r.eni r.ips, db := dbDel s.db p } := by
    simp [delBody, hr]
  simp only [h1]
  refine ⟨dbGet_dbDel_self _ _, ?_⟩
  intro e he h1 h2 ho
  obtain ⟨e0, _, k1, k2, _, hc⟩ := mem_release he
  rcases hc with ⟨_, _, _, hn⟩ | ⟨hn, ho'⟩
  · rw [hn] at ho; cases ho
  · exact hn ⟨k1 ▸ h1, k2 ▸ h2, ho' ▸ ho⟩

/-! ## an ADD that fails hands back every address it took -/

/-- failing before the pool was asked (pod lookup failed, or no interface can serve): nothing changes -/
theorem c04_failed_add_before_pool (s : Svc) (p cid : String) (v : PodGet) (pick : List Ent)
    (h : v ≠ .found true ∧ v ≠ .found false ∨ pick = []) : addBody s p cid v pick = (s, .err) := by
  unfold addBody
  rcases h with ⟨h1, h2⟩ | h
  · cases v with
    | found st => cases st <;> simp_all
    | notFound => rfl
    | error => rfl
  · cases v <;> simp [h]

/-- failing after the pool served it (the request context ended): the addresses it took are free again,
    an address the pod held before the request is still the pod's, and nothing else changed -/
theorem c04_failed_add_hands_back (s : Svc) (hI : Inv s) (p : String) (pick : List Ent) :
    (addFailBody s p pick true).1 = s :=
  addFail_good_noop hI

/-- no request for `p` changes what another pod `q` has: its record, and the binding of every address the
    record names -/
theorem c04_other_pods_untouched (s : Svc) (hI : Inv s) (k : Kind) (hk : k.Good) (p q cid : String) (v : PodGet)
    (hq : q ≠ p) (r : Rec) (hr : dbGet s.db q = some r) :
    let s' := (body s k p cid v).1
    dbGet s'.db q = some r ∧ ∀ e ∈ s'.pool, e.eni = r.eni → e.ip ∈ r.ips → e.owner = some q := by
  have hdb : dbGet (body s k p cid v).1.db q = some r := by
    cases k with
    | add pick =>
      simp only [body, addBody]
      cases v <;> simp only <;> try exact hr
      split
      · exact hr
      · split
        · simp only; rw [dbGet_dbPut_ne _ _ _ _ hq]; exact hr
        · exact hr
    | addFail pick back =>
      simp only [body, addFailBody]
      split
      · exact hr
      · split <;> exact hr
    | del =>
      simp only [body, delBody]
      cases v <;> simp only <;> try exact hr
      cases dbGet s.db p <;> simp only <;> try exact hr
      split
      · exact hr
      · split
        · simp only; rw [dbGet_dbDel_ne _ _ _ hq]; exact hr
        · exact hr
    | get => rw [show (body s .get p cid v).1 = s from c04_get_no_effect s p cid v]; exact hr
  exact ⟨hdb, (hI.body_pres hk p cid v).bound q r hdb⟩

/-! ## non-vacuity and the shape of the repaired defect -/

def e101 : Ent := { eni := "e1", ip := 101, owner := none, valid := true }
def s0 : Svc := boot false false [("e1", 101), ("e1", 102)]

/-- the hypotheses of the theorems above are met by a concrete served pod -/
example : (addBody s0 "p1" "c1" (.found false) [e101]).2 = .ok [101] := by decide
example : dbGet (addBody s0 "p1" "c1" (.found false) [e101]).1.db "p1" = some { cid := "c1", eni := "e1", ips := [101], stick := false } := by decide
example : Inv s0 := Inv.boot_pres false false (by decide)

/-- the defect repaired by "fix: eni manager loses resources handed over after the request context is
    done": a failing ADD that keeps what it took leaves an address bound to a pod without a record -/
theorem c04_kept_address_is_a_leak :
    let s' := (addFailBody s0 "p1" [e101] false).1
    dbGet s'.db "p1" = none ∧ { e101 with owner := some "p1" } ∈ s'.pool := by decide

end Terway.Props.C04
