import TerwayModel.Model.Token
/-
C16 — A retried cloud mutation reuses its idempotency token.
-/
namespace Terway.Props.C16
open Terway.Token

/-! ## helper lemmas about the LRU list -/

theorem lookup_without_ne (c : Cache) (h k : Nat) (hk : k ≠ h) :
    lookup (without c k) h = lookup c h := by
  induction c with
  | nil => rfl
  | cons e c ih =>
    obtain ⟨a, v⟩ := e
    by_cases ha : a = k
    · subst ha; simp [without, lookup, hk, ih]
    · by_cases hh : a = h
      · subst hh; simp [without, lookup, ha]
      · simp [without, lookup, ha, hh, ih]

theorem lookup_without_self (c : Cache) (h : Nat) : lookup (without c h) h = none := by
  induction c with
  | nil => rfl
  | cons e c ih =>
    obtain ⟨a, v⟩ := e
    by_cases ha : a = h <;> simp [without, lookup, ha, ih]

theorem without_without (c : Cache) (k : Nat) : without (without c k) k = without c k := by
  induction c with
  | nil => rfl
  | cons e c ih =>
    obtain ⟨a, v⟩ := e
    by_cases ha : a = k <;> simp [without, ha, ih]

theorem lookup_putFront_self (c : Cache) (h : Nat) (v : List Nat) : lookup (putFront c h v) h = some v := by
  simp [putFront, lookup]

theorem lookup_putFront_ne (c : Cache) (h k : Nat) (v : List Nat) (hk : k ≠ h) :
    lookup (putFront c k v) h = lookup c h := by
  simp [putFront, lookup, hk, lookup_without_ne c h k hk]

/-- position of key `h` counted from the most-recently-used end (length when absent) -/
def pos (c : Cache) (h : Nat) : Nat :=
  match c with
  | [] => 0
  | (k, _) :: rest => if k = h then 0 else pos rest h + 1

theorem pos_without_le (c : Cache) (h k : Nat) (hk : k ≠ h) : pos (without c k) h ≤ pos c h := by
  induction c with
  | nil => simp [without, pos]
  | cons e c ih =>
    obtain ⟨a, v⟩ := e
    by_cases ha : a = k
    · have e1 : without ((a, v) :: c) k = without c k := by simp [without, ha]
      have h1 : pos ((a, v) :: c) h = pos c h + 1 := by
        have : a ≠ h := by rw [ha]; exact hk
        simp [pos, this]
      rw [e1, h1]; omega
    · have e1 : without ((a, v) :: c) k = (a, v) :: without c k := by simp [without, ha]
      have h1 : pos ((a, v) :: c) h = if a = h then 0 else pos c h + 1 := rfl
      have h2 : pos ((a, v) :: without c k) h = if a = h then 0 else pos (without c k) h + 1 := rfl
      rw [e1, h1, h2]; split <;> omega

theorem pos_putFront_ne (c : Cache) (h k : Nat) (v : List Nat) (hk : k ≠ h) :
    pos (putFront c k v) h ≤ pos c h + 1 := by
  have := pos_without_le c h k hk
  simp [putFront, pos, hk]; omega

theorem pos_lt_length_of_lookup (c : Cache) (h : Nat) (v : List Nat) (hl : lookup c h = some v) :
    pos c h < c.length := by
  induction c with
  | nil => simp [lookup] at hl
  | cons e c ih =>
    obtain ⟨a, w⟩ := e
    simp only [lookup] at hl
    simp only [pos, List.length_cons]
    split
    · omega
    · rename_i hne; simp [hne] at hl; have := ih hl; omega

theorem lookup_dropLast (c : Cache) (h : Nat) (hp : pos c h + 1 < c.length) :
    lookup c.dropLast h = lookup c h ∧ pos c.dropLast h = pos c h := by
  induction c with
  | nil => simp at hp
  | cons e c ih =>
    obtain ⟨a, w⟩ := e
    cases c with
    | nil => simp only [pos, List.length_cons, List.length_nil] at hp; split at hp <;> omega
    | cons e2 c2 =>
      by_cases ha : a = h
      · simp [List.dropLast_cons_cons, lookup, pos, ha]
      · have hpe : pos ((a, w) :: e2 :: c2) h = pos (e2 :: c2) h + 1 := by simp [pos, ha]
        rw [hpe] at hp
        simp only [List.length_cons] at hp
        have := ih (by simp only [List.length_cons]; omega)
        simp only [List.dropLast_cons_cons] at this ⊢
        simp only [lookup, pos, ha, if_false] at this ⊢
        exact ⟨this.1, by rw [this.2]⟩

theorem lookup_evict (cap : Nat) (c : Cache) (h : Nat) (v : List Nat) (hl : lookup c h = some v)
    (hp : pos c h < cap) : lookup (evict cap c) h = some v ∧ pos (evict cap c) h = pos c h := by
  unfold evict
  split
  · have := lookup_dropLast c h (by omega)
    rw [this.1, this.2]; exact ⟨hl, rfl⟩
  · exact ⟨hl, rfl⟩

/-- residency bundle: key `h` holds stack `v` at position `< n` -/
def Resident (c : Cache) (h : Nat) (v : List Nat) (n : Nat) : Prop := lookup c h = some v ∧ pos c h < n

theorem resident_touch_ne (c : Cache) (h k : Nat) (v : List Nat) (n : Nat) (hk : k ≠ h)
    (hr : Resident c h v n) : Resident (touch c k) h v (n + 1) := by
  unfold touch
  split
  · exact ⟨by rw [lookup_putFront_ne _ _ _ _ hk]; exact hr.1, by have := pos_putFront_ne c h k ‹_› hk; have := hr.2; omega⟩
  · exact ⟨hr.1, by have := hr.2; omega⟩

theorem resident_without_ne (c : Cache) (h k : Nat) (v : List Nat) (n : Nat) (hk : k ≠ h)
    (hr : Resident c h v n) : Resident (without c k) h v n :=
  ⟨by rw [lookup_without_ne _ _ _ hk]; exact hr.1, by have := pos_without_le c h k hk; have := hr.2; omega⟩

theorem resident_add_ne (cap : Nat) (c : Cache) (h k : Nat) (v w : List Nat) (n : Nat) (hk : k ≠ h)
    (hr : Resident c h v n) (hn : n < cap) : Resident (add cap c k w) h v (n + 1) := by
  have hl : lookup (putFront c k w) h = some v := by rw [lookup_putFront_ne _ _ _ _ hk]; exact hr.1
  have hp : pos (putFront c k w) h < n + 1 := by have := pos_putFront_ne c h k w hk; have := hr.2; omega
  unfold add
  split
  · exact ⟨hl, hp⟩
  · have := lookup_evict cap _ h v hl (by omega)
    exact ⟨this.1, by rw [this.2]; exact hp⟩

/-- when `k` is already the front entry, re-adding it does not push `h` further back -/
theorem resident_add_front (cap : Nat) (c : Cache) (h k : Nat) (v w u : List Nat) (n : Nat) (hk : k ≠ h)
    (hr : Resident (putFront c k u) h v n) : Resident (add cap (putFront c k u) k w) h v n := by
  have e : without (putFront c k u) k = without c k := by
    show without ((k, u) :: without c k) k = without c k
    simp [without, without_without]
  unfold add
  rw [lookup_putFront_self]
  simp only
  have e2 : putFront (putFront c k u) k w = (k, w) :: without c k := by
    show (k, w) :: without (putFront c k u) k = _
    rw [e]
  rw [e2]
  have h1 := hr.1
  have h2 := hr.2
  unfold Resident
  simp only [putFront, lookup, pos, hk, if_false] at h1 h2 ⊢
  exact ⟨h1, h2⟩

/-- one operation on another hash moves `h` back by at most one place and keeps its stack -/
theorem resident_step (g : Gen) (h : Nat) (v : List Nat) (n : Nat) (op : Op) (hop : op.hash ≠ h)
    (hr : Resident g.cache h v n) (hn : n < g.cap) :
    Resident (step g op).cache h v (n + 1) ∧ (step g op).cap = g.cap := by
  cases op with
  | gen k =>
    simp only [Op.hash] at hop
    simp only [step, generate]
    cases hlk : lookup g.cache k with
    | none =>
      simp only [touch, hlk]
      exact ⟨⟨hr.1, by have := hr.2; omega⟩, trivial⟩
    | some uuids =>
      simp only
      cases hgl : uuids.getLast? with
      | none =>
        simp only
        exact ⟨resident_touch_ne _ _ _ _ _ hop hr, trivial⟩
      | some id =>
        simp only
        refine ⟨?_, trivial⟩
        have ht : touch g.cache k = putFront g.cache k uuids := by simp [touch, hlk]
        have hr1 : Resident (putFront g.cache k uuids) h v (n + 1) := by
          rw [← ht]; exact resident_touch_ne _ _ _ _ _ hop hr
        split
        · rw [ht]; exact resident_without_ne _ _ _ _ _ hop hr1
        · rw [ht]; exact resident_add_front _ _ _ _ _ _ _ _ hop hr1
  | put k t =>
    simp only [Op.hash] at hop
    simp only [step, putBack]
    refine ⟨?_, trivial⟩
    cases hlk : lookup g.cache k with
    | none => simp only; exact resident_add_ne _ _ _ _ _ _ _ hop hr hn
    | some uuids =>
      simp only
      have ht : touch g.cache k = putFront g.cache k uuids := by simp [touch, hlk]
      have hr1 : Resident (putFront g.cache k uuids) h v (n + 1) := by
        rw [← ht]; exact resident_touch_ne _ _ _ _ _ hop hr
      rw [ht]; exact resident_add_front _ _ _ _ _ _ _ _ hop hr1

theorem resident_run (ops : List Op) (g : Gen) (h : Nat) (v : List Nat) (n : Nat)
    (hops : ∀ op ∈ ops, op.hash ≠ h) (hr : Resident g.cache h v n) (hn : n + ops.length ≤ g.cap) :
    Resident (run g ops).cache h v (n + ops.length) := by
  induction ops generalizing g n with
  | nil => simpa [run] using hr
  | cons op ops ih =>
    simp only [run, List.foldl_cons]
    have hs := resident_step g h v n op (hops op (by simp)) hr (by simp at hn; omega)
    have := ih (step g op) (n + 1) (fun o ho => hops o (by simp [ho])) hs.1
      (by rw [hs.2]; simp at hn; omega)
    simp only [run] at this
    simp only [List.length_cons]
    rw [show n + (ops.length + 1) = n + 1 + ops.length by omega]
    exact this

theorem generate_of_resident (g : Gen) (h : Nat) (s : List Nat) (t : Nat)
    (hl : lookup g.cache h = some (s ++ [t])) : (generate g h).2 = t := by
  simp [generate, hl]

theorem putBack_resident (g : Gen) (h : Nat) (t : Nat) (hc : 0 < g.cap) :
    ∃ s, Resident (putBack g h t).cache h (s ++ [t]) 1 := by
  unfold putBack
  cases hlk : lookup g.cache h with
  | none =>
    refine ⟨[], ?_⟩
    simp only [add, hlk, List.nil_append]
    have h1 : lookup (putFront g.cache h [t]) h = some [t] := lookup_putFront_self _ _ _
    have h2 : pos (putFront g.cache h [t]) h = 0 := by simp [putFront, pos]
    have := lookup_evict g.cap _ h [t] h1 (by omega)
    exact ⟨this.1, by rw [this.2, h2]; omega⟩
  | some uuids =>
    refine ⟨uuids, ?_⟩
    simp only [touch, hlk, add, lookup_putFront_self]
    exact ⟨lookup_putFront_self _ _ _, by simp [putFront, pos]⟩

/-! ## C16 clause 1: the retry carries the failed attempt's token -/

/-- A failed request puts its token back (`rollBackFunc`); any operations for *other* parameter
    hashes may follow, as long as fewer of them than the LRU capacity; the retry with the same
    parameters then draws exactly that token.  (The bound is forced by the bounded cache, default
    500 entries: see `c16_eviction_witness`.) -/
theorem c16_retry_same_token (g : Gen) (h : Nat) (t : Nat) (ops : List Op)
    (hops : ∀ op ∈ ops, op.hash ≠ h) (hlen : ops.length < g.cap) :
    (generate (run (putBack g h t) ops) h).2 = t := by
  obtain ⟨s, hr⟩ := putBack_resident g h t (by omega)
  have hcap : (putBack g h t).cap = g.cap := rfl
  have := resident_run ops (putBack g h t) h (s ++ [t]) 1 hops hr (by rw [hcap]; omega)
  exact generate_of_resident _ h s t this.1

/-- the residency bound cannot be dropped: with capacity 1, one failed request for another
    parameter set evicts the token and the retry gets a fresh one -/
theorem c16_eviction_witness :
    (generate (run (putBack (Gen.new 1) 7 100) [Op.put 8 200]) 7).2 ≠ 100 := by decide

/-! ## C16 clause 2: requests in flight never share a token -/

/-- occurrences of token `t` in the cached stacks -/
def tc (c : Cache) (t : Nat) : Nat :=
  match c with
  | [] => 0
  | (_, v) :: rest => v.count t + tc rest t

/-- every token exists at most once (in a stack or handed out), and is older than `next` -/
def Inv (g : Gen) : Prop := ∀ t, tc g.cache t + g.out.count t ≤ 1 ∧ (g.next ≤ t → tc g.cache t + g.out.count t = 0)

theorem tc_without_le (c : Cache) (k : Nat) (t : Nat) : tc (without c k) t ≤ tc c t := by
  induction c with
  | nil => simp [without, tc]
  | cons e c ih =>
    obtain ⟨a, v⟩ := e
    by_cases ha : a = k <;> simp only [without, ha, if_true, if_false, tc] <;> omega

theorem tc_split (c : Cache) (k : Nat) (v : List Nat) (t : Nat) (hl : lookup c k = some v) :
    v.count t + tc (without c k) t ≤ tc c t := by
  induction c with
  | nil => simp [lookup] at hl
  | cons e c ih =>
    obtain ⟨a, w⟩ := e
    by_cases ha : a = k
    · simp only [lookup, ha, if_true, Option.some.injEq] at hl
      subst hl
      have := tc_without_le c k t
      simp only [without, ha, if_true, tc]; omega
    · simp only [lookup, ha, if_false] at hl
      have := ih hl
      simp only [without, ha, if_false, tc]; omega

theorem tc_dropLast_le (c : Cache) (t : Nat) : tc c.dropLast t ≤ tc c t := by
  induction c with
  | nil => simp [tc]
  | cons e c ih =>
    obtain ⟨a, w⟩ := e
    cases c with
    | nil => simp [tc]
    | cons e2 c2 => simp only [List.dropLast_cons_cons, tc] at *; omega

theorem tc_evict_le (cap : Nat) (c : Cache) (t : Nat) : tc (evict cap c) t ≤ tc c t := by
  unfold evict; split
  · exact tc_dropLast_le c t
  · exact Nat.le_refl _

theorem tc_putFront (c : Cache) (k : Nat) (v : List Nat) (t : Nat) :
    tc (putFront c k v) t = v.count t + tc (without c k) t := by simp [putFront, tc]

theorem tc_add_le (cap : Nat) (c : Cache) (k : Nat) (v : List Nat) (t : Nat) :
    tc (add cap c k v) t ≤ v.count t + tc (without c k) t := by
  unfold add; split
  · rw [tc_putFront]; exact Nat.le_refl _
  · have := tc_evict_le cap (putFront c k v) t; rw [tc_putFront] at this; exact this

theorem tc_touch (c : Cache) (k : Nat) (t : Nat) : tc (touch c k) t ≤ tc c t := by
  unfold touch; split
  · rename_i v hv; rw [tc_putFront]; exact tc_split c k v t hv
  · exact Nat.le_refl _

theorem without_touch (c : Cache) (k : Nat) : without (touch c k) k = without c k := by
  unfold touch; split
  · simp [putFront, without, without_without]
  · rfl

theorem count_dropLast_getLast (l : List Nat) (id t : Nat) (h : l.getLast? = some id) :
    l.count t = l.dropLast.count t + (if id = t then 1 else 0) := by
  have : l = l.dropLast ++ [id] := by
    rw [List.getLast?_eq_some_iff] at h
    obtain ⟨ys, rfl⟩ := h
    simp
  conv => lhs; rw [this]
  simp [List.count_append, List.count_cons]

theorem inv_new (cap : Nat) : Inv (Gen.new cap) := by
  intro t; simp [Gen.new, tc]

theorem inv_generate (g : Gen) (h : Nat) (hi : Inv g) : Inv (generate g h).1 := by
  have fresh : Inv { g with cache := touch g.cache h, next := g.next + 1, out := g.next :: g.out,
                            prov := (g.next, h) :: g.prov } := by
    intro t
    have := hi t
    have ht := tc_touch g.cache h t
    show tc (touch g.cache h) t + (g.next :: g.out).count t ≤ 1 ∧
      (g.next + 1 ≤ t → tc (touch g.cache h) t + (g.next :: g.out).count t = 0)
    simp only [List.count_cons]
    by_cases e : g.next = t
    · subst e
      have z := (hi g.next).2 (Nat.le_refl _)
      simp; omega
    · have : (g.next == t) = false := by simp [e]
      simp only [this]
      constructor
      · simp; omega
      · intro hle; have := (hi t).2 (by omega); simp; omega
  unfold generate
  cases hlk : lookup g.cache h with
  | none => simpa using fresh
  | some uuids =>
    simp only
    cases hgl : uuids.getLast? with
    | none => simpa using fresh
    | some id =>
      simp only
      intro t
      have hit := hi t
      have hsplit := tc_split g.cache h uuids t hlk
      have hcnt := count_dropLast_getLast uuids id t hgl
      have hcache : tc (if uuids.dropLast = [] then without (touch g.cache h) h
                        else add g.cap (touch g.cache h) h uuids.dropLast) t
                    ≤ uuids.dropLast.count t + tc (without g.cache h) t := by
        split
        · rw [without_touch]; omega
        · have := tc_add_le g.cap (touch g.cache h) h uuids.dropLast t
          rw [without_touch] at this; exact this
      simp only [List.count_cons]
      by_cases e : id = t
      · subst e
        simp only [if_true] at hcnt
        simp only [beq_self_eq_true, if_true]
        constructor
        · omega
        · intro hle; have := hit.2 hle; omega
      · have : (id == t) = false := by simp [e]
        simp only [e, if_false] at hcnt
        simp only [this]
        constructor
        · simp; omega
        · intro hle; have := hit.2 hle; simp; omega

/-- `putBack` is called by the roll-back closure with the token that very request was given:
    the token is outstanding (contract of the call sites in ecs.go / ecs_2.go / eflo_2.go) -/
theorem inv_putBack (g : Gen) (h : Nat) (t : Nat) (hi : Inv g) (hout : t ∈ g.out) : Inv (putBack g h t) := by
  intro x
  have hx := hi x
  have hcache : tc (putBack g h t).cache x ≤ tc g.cache x + (if t = x then 1 else 0) := by
    unfold putBack
    cases hlk : lookup g.cache h with
    | none =>
      simp only
      have := tc_add_le g.cap g.cache h [t] x
      have := tc_without_le g.cache h x
      simp only [List.count_cons, List.count_nil] at *
      split <;> simp_all <;> omega
    | some uuids =>
      simp only
      have := tc_add_le g.cap (touch g.cache h) h (uuids ++ [t]) x
      rw [without_touch] at this
      have := tc_split g.cache h uuids x hlk
      simp only [List.count_append, List.count_cons, List.count_nil] at *
      split <;> simp_all <;> omega
  have hcount : (g.out.erase t).count x = g.out.count x - (if t = x then 1 else 0) := by
    rw [List.count_erase]; split <;> simp_all
  have hpos : t = x → 0 < g.out.count x := by
    intro e; subst e; exact List.count_pos_iff.mpr hout
  show tc (putBack g h t).cache x + (g.out.erase t).count x ≤ 1 ∧
    (g.next ≤ x → tc (putBack g h t).cache x + (g.out.erase t).count x = 0)
  rw [hcount]
  by_cases e : t = x
  · have := hpos e
    simp only [e, if_true] at *
    constructor
    · omega
    · intro hle; have := hx.2 hle; omega
  · simp only [e, if_false] at *
    constructor
    · omega
    · intro hle; have := hx.2 hle; omega

/-- the token a request is given is held by no other request in flight -/
theorem c16_inflight_distinct (g : Gen) (h : Nat) (hi : Inv g) : (generate g h).2 ∉ g.out := by
  intro hmem
  have hpos : 0 < g.out.count (generate g h).2 := List.count_pos_iff.mpr hmem
  unfold generate at hpos
  cases hlk : lookup g.cache h with
  | none =>
    simp only [hlk] at hpos
    have := (hi g.next).2 (Nat.le_refl _); omega
  | some uuids =>
    simp only [hlk] at hpos
    cases hgl : uuids.getLast? with
    | none => simp only [hgl] at hpos; have := (hi g.next).2 (Nat.le_refl _); omega
    | some id =>
      simp only [hgl] at hpos
      have := tc_split g.cache h uuids id hlk
      have hc := count_dropLast_getLast uuids id id hgl
      simp only [if_true] at hc
      have := (hi id).1
      omega

/-- reachable states: arbitrary interleavings of issue and roll-back that respect the contract -/
inductive Reach : Gen → Prop where
  | init (cap : Nat) : Reach (Gen.new cap)
  | gen (g : Gen) (h : Nat) : Reach g → Reach (generate g h).1
  | put (g : Gen) (h : Nat) (t : Nat) : Reach g → t ∈ g.out → Reach (putBack g h t)

theorem inv_reach (g : Gen) (hr : Reach g) : Inv g := by
  induction hr with
  | init cap => exact inv_new cap
  | gen g h _ ih => exact inv_generate g h ih
  | put g h t _ hout ih => exact inv_putBack g h t ih hout

/-- for every history of concurrent issue / roll-back: a newly issued token is not in flight -/
theorem c16_inflight_distinct_reachable (g : Gen) (h : Nat) (hr : Reach g) : (generate g h).2 ∉ g.out :=
  c16_inflight_distinct g h (inv_reach g hr)

/-! ## C16 clause 3: different parameters never share a token -/

/-- every cached token was first issued under the hash it is stored under; provenance is a function -/
def ProvInv (g : Gen) : Prop :=
  (∀ k s, lookup g.cache k = some s → ∀ t ∈ s, (t, k) ∈ g.prov) ∧ (∀ t k, (t, k) ∈ g.prov → t < g.next)

theorem mem_of_lookup_without (c : Cache) (k h : Nat) (s : List Nat) (hl : lookup (without c h) k = some s) :
    lookup c k = some s ∧ k ≠ h := by
  by_cases e : k = h
  · subst e; rw [lookup_without_self] at hl; cases hl
  · rw [lookup_without_ne _ _ _ (Ne.symm e)] at hl; exact ⟨hl, e⟩

theorem lookup_dropLast_some (c : Cache) (k : Nat) (s : List Nat) (hl : lookup c.dropLast k = some s) :
    lookup c k = some s := by
  induction c with
  | nil => simp [lookup] at hl
  | cons e c ih =>
    obtain ⟨a, w⟩ := e
    cases c with
    | nil => simp [lookup] at hl
    | cons e2 c2 =>
      simp only [List.dropLast_cons_cons, lookup] at hl ⊢
      split
      · rename_i ha; simpa [ha] using hl
      · rename_i ha; simp only [ha, if_false] at hl; exact ih hl

theorem lookup_evict_some (cap : Nat) (c : Cache) (k : Nat) (s : List Nat) (hl : lookup (evict cap c) k = some s) :
    lookup c k = some s := by
  unfold evict at hl; split at hl
  · exact lookup_dropLast_some c k s hl
  · exact hl

theorem lookup_putFront_cases (c : Cache) (h k : Nat) (v s : List Nat) (hl : lookup (putFront c h v) k = some s) :
    (k = h ∧ s = v) ∨ (k ≠ h ∧ lookup c k = some s) := by
  by_cases e : k = h
  · subst e; rw [lookup_putFront_self] at hl; left; exact ⟨rfl, by cases hl; rfl⟩
  · rw [lookup_putFront_ne _ _ _ _ (Ne.symm e)] at hl; right; exact ⟨e, hl⟩

theorem lookup_add_cases (cap : Nat) (c : Cache) (h k : Nat) (v s : List Nat) (hl : lookup (add cap c h v) k = some s) :
    (k = h ∧ s = v) ∨ (k ≠ h ∧ lookup c k = some s) := by
  unfold add at hl; split at hl
  · exact lookup_putFront_cases c h k v s hl
  · exact lookup_putFront_cases c h k v s (lookup_evict_some _ _ _ _ hl)

theorem lookup_touch_some (c : Cache) (h k : Nat) (s : List Nat) (hl : lookup (touch c h) k = some s) :
    lookup c k = some s := by
  unfold touch at hl; split at hl
  · rename_i v hv
    rcases lookup_putFront_cases c h k v s hl with ⟨rfl, rfl⟩ | ⟨_, h2⟩
    · exact hv
    · exact h2
  · exact hl

theorem provInv_new (cap : Nat) : ProvInv (Gen.new cap) := by
  constructor
  · intro k s hl; simp [Gen.new, lookup] at hl
  · intro t k hm; simp [Gen.new] at hm

theorem provInv_generate (g : Gen) (h : Nat) (hi : ProvInv g) : ProvInv (generate g h).1 := by
  have fresh : ProvInv { g with cache := touch g.cache h, next := g.next + 1, out := g.next :: g.out,
                                prov := (g.next, h) :: g.prov } := by
    constructor
    · intro k s hl t ht
      have := hi.1 k s (lookup_touch_some _ _ _ _ hl) t ht
      exact List.mem_cons_of_mem _ this
    · intro t k hm
      simp only [List.mem_cons, Prod.mk.injEq] at hm
      rcases hm with ⟨rfl, _⟩ | hm
      · show g.next < g.next + 1; omega
      · have := hi.2 t k hm; show t < g.next + 1; omega
  unfold generate
  cases hlk : lookup g.cache h with
  | none => simpa using fresh
  | some uuids =>
    simp only
    cases hgl : uuids.getLast? with
    | none => simpa using fresh
    | some id =>
      simp only
      refine ⟨?_, hi.2⟩
      intro k s hl t ht
      split at hl
      · have := mem_of_lookup_without _ _ _ _ hl
        exact hi.1 k s (lookup_touch_some _ _ _ _ this.1) t ht
      · rcases lookup_add_cases _ _ _ _ _ _ hl with ⟨rfl, rfl⟩ | ⟨_, h2⟩
        · exact hi.1 k uuids hlk t ((List.dropLast_subset _ ht))
        · exact hi.1 k s (lookup_touch_some _ _ _ _ h2) t ht

/-- the roll-back closure captures the hash it generated the token with -/
theorem provInv_putBack (g : Gen) (h : Nat) (t : Nat) (hi : ProvInv g) (hp : (t, h) ∈ g.prov) :
    ProvInv (putBack g h t) := by
  refine ⟨?_, hi.2⟩
  intro k s hl x hx
  unfold putBack at hl
  cases hlk : lookup g.cache h with
  | none =>
    simp only [hlk] at hl
    rcases lookup_add_cases _ _ _ _ _ _ hl with ⟨rfl, rfl⟩ | ⟨_, h2⟩
    · simp at hx; subst hx; exact hp
    · exact hi.1 k s h2 x hx
  | some uuids =>
    simp only [hlk] at hl
    rcases lookup_add_cases _ _ _ _ _ _ hl with ⟨rfl, rfl⟩ | ⟨_, h2⟩
    · simp only [List.mem_append, List.mem_singleton] at hx
      rcases hx with hx | rfl
      · exact hi.1 k uuids hlk x hx
      · exact hp
    · exact hi.1 k s (lookup_touch_some _ _ _ _ h2) x hx

/-- the token issued for parameter hash `h` was first issued for `h` -/
theorem c16_token_belongs_to_hash (g : Gen) (h : Nat) (hi : ProvInv g) :
    ((generate g h).2, h) ∈ (generate g h).1.prov := by
  unfold generate
  cases hlk : lookup g.cache h with
  | none => simp
  | some uuids =>
    simp only
    cases hgl : uuids.getLast? with
    | none => simp
    | some id =>
      simp only
      exact hi.1 h uuids hlk id (List.mem_of_getLast? hgl)

/-- a token has one provenance: it is never issued for two different parameter hashes -/
theorem c16_provenance_functional (g : Gen) (hi : ProvInv g) (hp : g.prov.Pairwise (fun a b => a.1 ≠ b.1))
    (h : Nat) : (generate g h).1.prov.Pairwise (fun a b => a.1 ≠ b.1) := by
  unfold generate
  have fresh : ((g.next, h) :: g.prov).Pairwise (fun a b => a.1 ≠ b.1) := by
    refine List.Pairwise.cons ?_ hp
    intro b hb; have := hi.2 b.1 b.2 (by cases b; exact hb); show g.next ≠ b.1; omega
  cases hlk : lookup g.cache h with
  | none => simpa using fresh
  | some uuids =>
    simp only
    cases hgl : uuids.getLast? with
    | none => simpa using fresh
    | some id => simpa using hp

/-! ## C16 clause 4: the parameter hash does not depend on map iteration order -/

theorem eq_of_nodup_map_fst {l : List (String × String)} (hn : (l.map (·.1)).Nodup)
    {a b : String × String} (ha : a ∈ l) (hb : b ∈ l) (h : a.1 = b.1) : a = b := by
  induction l with
  | nil => cases ha
  | cons x xs ih =>
    simp only [List.map_cons, List.nodup_cons, List.mem_map, not_exists, not_and] at hn
    simp only [List.mem_cons] at ha hb
    rcases ha with rfl | ha <;> rcases hb with rfl | hb
    · rfl
    · exact absurd h.symm (hn.1 b hb)
    · exact absurd h (hn.1 a ha)
    · exact ih hn.2 ha hb

theorem tagLE_trans (a b c : String × String) : tagLE a b = true → tagLE b c = true → tagLE a c = true := by
  simp only [tagLE, decide_eq_true_eq]; exact String.le_trans

theorem tagLE_total (a b : String × String) : (tagLE a b || tagLE b a) = true := by
  simp only [tagLE, Bool.or_eq_true, decide_eq_true_eq]; exact String.le_total a.1 b.1

/-- Two iteration orders of the same tag map (a map has distinct keys) give the same hash input. -/
theorem c16_hash_order_independent (p : CreateParams) (t1 t2 : List (String × String))
    (hperm : t1.Perm t2) (hkeys : (t1.map (·.1)).Nodup) :
    createHashInput p t1 = createHashInput p t2 := by
  unfold createHashInput sortTags
  congr 1
  apply List.Perm.eq_of_pairwise (le := fun a b => tagLE a b = true)
  · intro a b ha hb hab hba
    simp only [tagLE, decide_eq_true_eq] at hab hba
    have hk : a.1 = b.1 := String.le_antisymm hab hba
    have ha1 : a ∈ t1 := (List.mergeSort_perm t1 tagLE).subset ha
    have hb1 : b ∈ t1 := hperm.symm.subset ((List.mergeSort_perm t2 tagLE).subset hb)
    exact eq_of_nodup_map_fst hkeys ha1 hb1 hk
  · exact List.pairwise_mergeSort tagLE_trans tagLE_total t1
  · exact List.pairwise_mergeSort tagLE_trans tagLE_total t2
  · exact ((List.mergeSort_perm t1 tagLE).trans hperm).trans (List.mergeSort_perm t2 tagLE).symm

/-- different tag sets give different hash inputs (the hash itself is MD5: collision-freeness assumed) -/
theorem c16_hash_input_determines_tags (p1 p2 : CreateParams) (t1 t2 : List (String × String))
    (h : createHashInput p1 t1 = createHashInput p2 t2) : t1.Perm t2 := by
  unfold createHashInput sortTags at h
  have := (Prod.mk.injEq _ _ _ _ ▸ h).2
  exact ((List.mergeSort_perm t1 tagLE).symm.trans (this ▸ List.Perm.refl _)).trans (List.mergeSort_perm t2 tagLE)

/-! ## non-vacuity -/
example : (generate (run (putBack (Gen.new 500) 7 100) [Op.gen 8, Op.put 8 0, Op.gen 9]) 7).2 = 100 := by decide
example : Reach (putBack (generate (Gen.new 3) 5).1 5 0) := Reach.put _ 5 0 (Reach.gen _ 5 (Reach.init 3)) (by decide)

end Terway.Props.C16
