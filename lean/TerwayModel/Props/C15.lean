import TerwayModel.Model.Bandwidth
import TerwayModel.Proofs.StoredRec
import TerwayModel.Model.Remote
/-
C15 — user-controlled input can be rejected but can never crash a component (bandwidth part), and
well-formed bandwidth values are accepted with or without a unit and scale monotonically.
-/
namespace Terway.Props.C15
open Terway.Bandwidth

theorem indexFunc_lt (p : Char → Bool) (s : List Char) (k : Nat) (h : indexFunc p s = some k) : k < s.length := by
  induction s generalizing k with
  | nil => simp [indexFunc] at h
  | cons c cs ih =>
    simp only [indexFunc] at h
    split at h
    · injection h with h; subst h; simp
    · cases hi : indexFunc p cs with
      | none => simp [hi] at h
      | some j =>
        simp [hi] at h
        subst h
        have := ih j hi
        simp only [List.length_cons]; omega

/-- **No annotation value makes `parseBandwidth` panic**, whatever the letter/space/upper-case tables
    are.  Proved for the code as it is now: the regenerated fact `bwNoLetterGuard` must be 1. -/
theorem c15_bandwidth_total (cfg : Cfg) (s : List Char) : parseBandwidth cfg s ≠ .panic := by
  unfold parseBandwidth
  split
  · simp
  · simp only
    generalize hs1 : (trim cfg.isSpace s).map cfg.upper = s1
    have hguard : Gen.bwNoLetterGuard = 1 := rfl
    cases hi : indexFunc cfg.isLetter s1 with
    | none =>
      simp only [hguard, true_and]
      have : ((-1 : Int) < 0) := by decide
      simp only [this, if_true]
      simp only [slicePrefix, sliceSuffix]
      have h1 : (0 : Int) ≤ (s1.length : Int) ∧ (s1.length : Int) ≤ (s1.length : Int) := by omega
      simp only [h1, and_self, if_true]
      split <;> (try split) <;> (try split) <;> simp
    | some k =>
      have hk := indexFunc_lt _ _ _ hi
      simp only [hguard, true_and]
      have : ¬ ((k : Int) < 0) := by omega
      simp only [this, if_false]
      simp only [slicePrefix, sliceSuffix]
      have h1 : (0 : Int) ≤ (k : Int) ∧ (k : Int) ≤ (s1.length : Int) := by omega
      simp only [h1, and_self, if_true]
      split <;> (try split) <;> (try split) <;> simp

/-! ## values without a unit are accepted as bytes -/

def isDigit (c : Char) : Bool := '0' ≤ c ∧ c ≤ '9'

/-- the tables treat decimal digits as digits: not letters, not spaces, unchanged by upper-casing -/
structure DigitFriendly (cfg : Cfg) : Prop where
  notLetter : ∀ c, isDigit c = true → cfg.isLetter c = false
  notSpace  : ∀ c, isDigit c = true → cfg.isSpace c = false
  upperId   : ∀ c, isDigit c = true → cfg.upper c = c

/-- numeric value of a digit string -/
def digitsVal (ds : List Char) : Nat := ds.foldl (fun acc c => 10 * acc + (c.toNat - 48)) 0

theorem digitVal_of_isDigit (c : Char) (h : isDigit c = true) : digitVal? c = some (c.toNat - 48) := by
  unfold digitVal?
  unfold isDigit at h
  simp only [decide_eq_true_eq] at h
  simp [h]

theorem scanDec_digits (ds : List Char) (hd : ∀ c ∈ ds, isDigit c = true) (m : Nat) (sd : Bool) (prev : Prev)
    (hne : (sd = true ∧ prev ≠ .underscore) ∨ ds ≠ []) :
    scanDec ds m 0 false sd prev = some (ds.foldl (fun acc c => 10 * acc + (c.toNat - 48)) m, 0) := by
  induction ds generalizing m sd prev with
  | nil =>
    rcases hne with h | h
    · simp [scanDec, h.1, h.2]
    · exact absurd rfl h
  | cons c cs ih =>
    have hc := digitVal_of_isDigit c (hd c (by simp))
    simp only [scanDec, hc, List.foldl_cons]
    have := ih (fun x hx => hd x (by simp [hx])) (10 * m + (c.toNat - 48)) true .digit (Or.inl ⟨rfl, by decide⟩)
    simpa using this

theorem parseDec_digits (ds : List Char) (hd : ∀ c ∈ ds, isDigit c = true) (hne : ds ≠ []) :
    parseDec ds = some { neg := false, mant := digitsVal ds, scale := 0 } := by
  cases ds with
  | nil => exact absurd rfl hne
  | cons c cs =>
    have hc : isDigit c = true := hd c (by simp)
    have h1 : c ≠ '+' := by intro e; subst e; revert hc; decide
    have h2 : c ≠ '-' := by intro e; subst e; revert hc; decide
    have hs := scanDec_digits (c :: cs) hd 0 false .start (Or.inr hne)
    have hm : splitSign (c :: cs) = (false, c :: cs) := by
      unfold splitSign
      split
      · rename_i heq; injection heq with heq _; exact absurd heq h1
      · rename_i heq; injection heq with heq _; exact absurd heq h2
      · rfl
    unfold parseDec
    rw [hm]
    simp only [hs, digitsVal, Option.map_some]

theorem dropWhile_none (p : Char → Bool) (l : List Char) (h : ∀ c ∈ l, p c = false) : l.dropWhile p = l := by
  cases l with
  | nil => rfl
  | cons c cs => simp [List.dropWhile, h c (by simp)]

theorem trim_id (p : Char → Bool) (l : List Char) (h : ∀ c ∈ l, p c = false) : trim p l = l := by
  unfold trim
  rw [dropWhile_none p l h, dropWhile_none p l.reverse (fun c hc => h c (List.mem_reverse.mp hc)), List.reverse_reverse]

theorem map_id_on (f : Char → Char) (l : List Char) (h : ∀ c ∈ l, f c = c) : l.map f = l := by
  induction l with
  | nil => rfl
  | cons c cs ih => simp [h c (by simp), ih (fun x hx => h x (by simp [hx]))]

theorem indexFunc_none (p : Char → Bool) (l : List Char) (h : ∀ c ∈ l, p c = false) : indexFunc p l = none := by
  induction l with
  | nil => rfl
  | cons c cs ih => simp [indexFunc, h c (by simp), ih (fun x hx => h x (by simp [hx]))]

theorem mult_empty : mult [] = some 1 := by decide

/-- **A well-formed value without a unit is accepted, as bytes.** -/
theorem c15_bandwidth_unitless (cfg : Cfg) (hc : DigitFriendly cfg) (ds : List Char)
    (hd : ∀ c ∈ ds, isDigit c = true) (hne : ds ≠ []) (hpos : digitsVal ds ≠ 0) :
    parseBandwidth cfg ds = .ok (digitsVal ds) := by
  have h1 : trim cfg.isSpace ds = ds := trim_id _ _ (fun c h => hc.notSpace c (hd c h))
  have h2 : ds.map cfg.upper = ds := map_id_on _ _ (fun c h => hc.upperId c (hd c h))
  have h3 : indexFunc cfg.isLetter ds = none := indexFunc_none _ _ (fun c h => hc.notLetter c (hd c h))
  have hguard : Gen.bwNoLetterGuard = 1 := rfl
  have hemp : ds.isEmpty = false := by cases ds <;> simp_all
  unfold parseBandwidth
  simp only [hemp, h1, h2, h3, hguard, true_and]
  have : ((-1 : Int) < 0) := by decide
  simp only [this, if_true, slicePrefix, sliceSuffix]
  have hb : (0 : Int) ≤ (ds.length : Int) ∧ (ds.length : Int) ≤ (ds.length : Int) := by omega
  simp only [hb, and_self, if_true, Int.toNat_natCast, List.take_length, List.drop_length]
  rw [parseDec_digits ds hd hne]
  simp only [Bool.false_eq_true, false_or, hpos, if_false]
  rw [mult_empty]
  simp [value]

/-- the ASCII tables of the driver are digit friendly (so the theorem is not vacuous) -/
theorem asciiCfg_digitFriendly : DigitFriendly asciiCfg := by
  have e0 : ('0' : Char).val.toNat = 48 := rfl
  have e9 : ('9' : Char).val.toNat = 57 := rfl
  have ea : ('a' : Char).val.toNat = 97 := rfl
  have ez : ('z' : Char).val.toNat = 122 := rfl
  have eA : ('A' : Char).val.toNat = 65 := rfl
  have eZ : ('Z' : Char).val.toNat = 90 := rfl
  constructor <;> intro c h <;> simp only [isDigit, decide_eq_true_eq] at h
  · simp only [asciiCfg, decide_eq_false_iff_not, not_or]
    simp only [Char.le_def, UInt32.le_iff_toNat_le] at *
    omega
  · simp only [asciiCfg, decide_eq_false_iff_not, not_or]
    have hv : 48 ≤ c.val.toNat := by
      simp only [Char.le_def, UInt32.le_iff_toNat_le] at h; omega
    refine ⟨?_, ?_, ?_, ?_, ?_, ?_⟩ <;> intro e <;> subst e <;> revert hv <;> decide
  · simp only [asciiCfg]
    have : ¬ ('a' ≤ c ∧ c ≤ 'z') := by
      simp only [Char.le_def, UInt32.le_iff_toNat_le] at *
      omega
    simp [this]

/-! ## scaling is monotone in the unit -/

/-- for the same numeric part, a larger multiplier never gives a smaller value -/
theorem c15_bandwidth_monotone (d : Dec) (m1 m2 : Nat) (h : m1 ≤ m2) : value d m1 ≤ value d m2 :=
  Nat.div_le_div_right (Nat.mul_le_mul_left _ h)

/-- the multipliers grow with the unit: B < K < M < G < T -/
theorem c15_units_ordered : 1 < Gen.bwKilo ∧ Gen.bwKilo < Gen.bwMega ∧ Gen.bwMega < Gen.bwGiga ∧ Gen.bwGiga < Gen.bwTera := by
  decide

/-- which spellings select which multiplier -/
theorem c15_unit_table :
    mult ['B'] = some 1 ∧ mult ['K'] = some Gen.bwKilo ∧ mult ['K','B'] = some Gen.bwKilo ∧ mult ['K','I','B'] = some Gen.bwKilo ∧
    mult ['M'] = some Gen.bwMega ∧ mult ['M','B'] = some Gen.bwMega ∧ mult ['M','I','B'] = some Gen.bwMega ∧
    mult ['G'] = some Gen.bwGiga ∧ mult ['G','B'] = some Gen.bwGiga ∧ mult ['G','I','B'] = some Gen.bwGiga ∧
    mult ['T'] = some Gen.bwTera ∧ mult ['T','B'] = some Gen.bwTera ∧ mult ['T','I','B'] = some Gen.bwTera ∧
    mult ['X'] = none ∧ mult ['K','I'] = none := by decide

/-! ## stored records: the start-up filter -/

/-- **No stored record makes the daemon's start-up filter index out of range**, whatever items the record holds and
    whatever is attached.  Proved for the code as it is now: the regenerated fact `filterRechecksLen` must be 1
    (the loop that removes stale items in place re-reads the slice length). -/
theorem c15_stored_filter_total (att : Stored.Attached) (rs : List Stored.Item) : Stored.filter att rs ≠ none := by
  have hfact : Gen.filterRechecksLen = 1 := rfl
  unfold Stored.filter Stored.filterWith
  rw [hfact]
  obtain ⟨out, h⟩ := Stored.loop_recheck_some att (rs.length + 1) rs.length 0 rs
  simp [h]

/-- the hypothesis is needed: with the bound fixed at loop entry (`for j := range items`) a record with a stale
    item that is not the last one crashes the daemon at every start -/
theorem c15_stored_filter_range_loop_panics :
    Stored.filterWith false [] [⟨true, "eni-gone", "a"⟩, ⟨true, "eni-gone", "b"⟩] = none := by decide

/-! ## ConfigMap content in a wait loop: `backoff_override` and the daemon's wait for a PodENI record -/

open Terway.Remote in
/-- **Whatever number of steps `eni_conf` configures - none included - the caller of `Remote.Allocate` gets an answer**, and
    with no step at all it is the time-out (the record was never read, so there is nothing to hand over or to describe) -/
theorem c15_remote_zero_steps_times_out (trunk : Bool) (r : Rec) : poll trunk r 0 = .timeout := rfl

open Terway.Remote in
/-- with at least one step the answer is decided by the record alone: handed over exactly when one look accepts it, refused
    for good exactly when one look fails for good, timed out otherwise - the number of steps changes nothing while the record
    does not change -/
theorem c15_remote_answer_is_the_records (trunk : Bool) (r : Rec) (n : Nat) :
    poll trunk r (n + 1) = (match look trunk r with | .done => .ok | .fail => .notReady | .again => .timeout) := by
  induction n with
  | zero => simp [poll]; cases look trunk r <;> rfl
  | succ k ih =>
    rw [poll]
    cases h : look trunk r <;> simp
    rw [ih, h]

open Terway.Remote in
/-- handed over only if the record is Bind for this pod instance, not being deleted, with interfaces, on this daemon's trunk -/
theorem c15_remote_ok_only_if_ready (trunk : Bool) (r : Rec) (n : Nat) (h : poll trunk r n = .ok) :
    r = .good ∨ (r = .otherTrunk ∧ trunk = false) := by
  cases n with
  | zero => simp [poll] at h
  | succ k =>
    rw [c15_remote_answer_is_the_records] at h
    cases r <;> cases trunk <;> simp_all [look]

/-! ## non-vacuity -/
example : Remote.poll true .good 1 = .ok ∧ Remote.poll true .otherTrunk 3 = .notReady ∧ Remote.poll false .notBind 3 = .timeout := by decide
example : Stored.filter [("eni-1", "m1")] [⟨true, "eni-gone", "a"⟩, ⟨true, "eni-1", "b"⟩, ⟨true, "", "m1.10.0.0.1"⟩, ⟨true, "", "m2.10.0.0.2"⟩] =
    some [⟨true, "eni-1", "b"⟩, ⟨true, "", "m1.10.0.0.1"⟩] := by decide
example : parseBandwidth asciiCfg ['1','0','0','0'] = .ok 1000 := by decide
example : parseBandwidth asciiCfg ['1','0','m'] = .ok 10485760 := by decide
example : parseBandwidth asciiCfg [] = .err := by decide

end Terway.Props.C15
