import TerwayModel.Proofs.Pool
import TerwayModel.Model.Factory
/-
C07 — node pool and cloud agree; failed calls leave no orphans.
-/
namespace Terway.Props.C07
open Terway.Pool

/-! ## everything a cloud call returns is tracked, whether the call reported success or an error -/

theorem mem_putIPs_new (l new : List IP) (a : IP) (h : a ∈ new) : a ∈ putIPs l new := by
  unfold putIPs; exact List.mem_append_right _ h

/-- addresses returned by `AssignNIPvX` — with or without an error — are tracked from the region that consumes
    the result on: as usable addresses on success, as addresses to hand back on error -/
theorem c07_assigned_addresses_tracked (s : Slot) (six : Bool) (res : AssignRes) (ip : Nat) (h : ip ∈ res.ips) :
    ∃ a ∈ (s.assigned six res).ips, a.ip = ip ∧ a.owner = none ∧ a.st = (if res.err.isSome then .deleting else .valid) := by
  unfold Slot.assigned
  cases he : res.err with
  | some c =>
    simp only
    rw [(same_onError _ c).1]
    exact ⟨{ ip := ip, owner := none, st := .deleting, primary := false },
      mem_putIPs_new _ _ _ (by simp only [newIPs, List.mem_map]; exact ⟨ip, h, by simp⟩), rfl, rfl, by simp⟩
  | none =>
    simp only
    exact ⟨{ ip := ip, owner := none, st := .valid, primary := false },
      mem_putIPs_new _ _ _ (by simp only [newIPs, List.mem_map]; exact ⟨ip, h, by simp⟩), rfl, rfl, by simp⟩

/-- an interface returned by `CreateNetworkInterface` is tracked even when the call reports an error: the slot
    keeps it, in `deleting` state, so that the dispose worker hands it back -/
theorem c07_created_eni_tracked (s : Slot) (v4n v6n : Nat) (res : CreateRes) (e : String) (he : res.eni = some e) :
    (s.created v4n v6n res).eni = some e ∧ (res.err.isSome → (s.created v4n v6n res).status = .deleting) := by
  unfold Slot.created
  cases hr : res.err with
  | some c => simp [he]
  | none =>
    simp only [he]
    refine ⟨?_, by simp⟩
    show (Slot.pop (Slot.pop { s with eni := some e } false v4n) true v6n).eni = some e
    rw [(same_pop _ true v6n).2.1, (same_pop _ false v4n).2.1]

/-- ... and on success its addresses are in the pool -/
theorem c07_created_addresses_tracked (s : Slot) (v4n v6n : Nat) (res : CreateRes) (hr : res.err = none) (ip : Nat)
    (h : ip ∈ res.v4 ++ res.v6) (hfam : ∀ i ∈ res.v4, ∀ j ∈ res.v6, i ≠ j) :
    ∃ a ∈ (s.created v4n v6n res).ips, a.ip = ip ∧ a.st = .valid := by
  unfold Slot.created
  simp only [hr]
  rcases List.mem_append.mp h with h4 | h6
  · refine ⟨{ ip := ip, owner := none, st := .valid, primary := some res.primary == some ip }, ?_, rfl, rfl⟩
    unfold putIPs
    apply List.mem_append_left
    simp only [List.mem_filter, List.mem_append, Bool.not_eq_true', List.any_eq_false, beq_iff_eq]
    refine ⟨Or.inr (by simp only [newIPs, List.mem_map]; exact ⟨ip, h4, rfl⟩), ?_⟩
    intro b hb
    simp only [newIPs, List.mem_map] at hb
    obtain ⟨j, hj, rfl⟩ := hb
    exact fun e => hfam ip h4 j hj e.symm
  · exact ⟨{ ip := ip, owner := none, st := .valid, primary := false },
      mem_putIPs_new _ _ _ (by simp only [newIPs, List.mem_map]; exact ⟨ip, h6, by simp⟩), rfl, rfl⟩

/-! ## nothing is forgotten before the cloud confirmed -/

/-- a failed unassign call leaves the addresses tracked (still marked, to be retried) -/
theorem c07_failed_unassign_keeps (s : Slot) (ips : List Nat) : s.unassigned ips false = s := by
  simp [Slot.unassigned]

/-- a failed delete call leaves the interface tracked (still in `deleting` state, to be retried) -/
theorem c07_failed_delete_keeps (s : Slot) : s.deleted false = s := by
  simp [Slot.deleted]

/-- a confirmed unassign forgets exactly the addresses it was called with -/
theorem c07_unassign_forgets_exactly (s : Slot) (ips : List Nat) (a : IP) :
    a ∈ (s.unassigned ips true).ips ↔ a ∈ s.ips ∧ a.ip ∉ ips := by
  simp [Slot.unassigned, removeIPs]

/-- the dispose worker keeps going while anything is marked: it waits only when no address is marked (and the
    interface is not in `deleting` state) -/
theorem c07_dispose_worker_retries (c : Cfg) (dn : List Nat) (s : Slot) (e : String) (he : s.eni = some e)
    (hst : s.status ≠ .deleting) (hw : s.fdPlanOK c dn .wait = true) : ∀ a ∈ s.ips, a.st ≠ .deleting := by
  unfold Slot.fdPlanOK at hw
  simp only [he] at hw
  have hs : (s.status == ESt.deleting) = false := by simpa using hst
  rw [hs] at hw
  simp only [Bool.false_eq_true, if_false] at hw
  split at hw
  · rename_i hempty
    simp only [Bool.and_eq_true, List.isEmpty_iff] at hempty
    intro a ha hd
    have : a.ip ∈ deletingOf (fam a.v6 s.ips) := by
      simp only [deletingOf, fam, List.mem_map, List.mem_filter, beq_iff_eq]
      exact ⟨a, ⟨⟨ha, rfl⟩, hd⟩, rfl⟩
    cases hv : a.v6 with
    | true => rw [hv, hempty.2] at this; cases this
    | false => rw [hv, hempty.1] at this; cases this
  · simp at hw

/-! ## no address stays marked as owned by a pod that holds none -/

/-- a reply that cannot be handed over (the caller is gone) un-binds every address the request had bound;
    what the pod held before the request stays bound -/
theorem c07_undelivered_reply_unbinds (l : List IP) (pod : String) (ips fresh : List Nat) (a : IP)
    (ha : a ∈ commitIPs l pod ips fresh false) (hf : a.ip ∈ fresh) : a.owner ≠ some pod := by
  rw [commitIPs_eq] at ha
  simp only [Bool.false_eq_true, if_false, releaseIPs_eq] at ha
  obtain ⟨b, _, rfl⟩ := List.mem_map.mp ha
  by_cases c1 : b.ip ∈ fresh ∧ b.owner = some pod
  · rw [if_pos c1]; simp
  · rw [if_neg c1] at hf ⊢
    intro ho; exact c1 ⟨hf, ho⟩

/-- a release by the owner clears the owner -/
theorem c07_release_unbinds (l : List IP) (pod : String) (ips : List Nat) (a : IP)
    (ha : a ∈ releaseIPs l pod ips) (hi : a.ip ∈ ips) : a.owner ≠ some pod := by
  rw [releaseIPs_eq] at ha
  obtain ⟨b, _, rfl⟩ := List.mem_map.mp ha
  by_cases c1 : b.ip ∈ ips ∧ b.owner = some pod
  · rw [if_pos c1]; simp
  · rw [if_neg c1] at hi ⊢
    intro ho; exact c1 ⟨hi, ho⟩

/-! ## the balancer's arithmetic -/

/-- with more idle addresses than `maxIdles` the surplus is exactly what brings the reserve down to `maxIdles`;
    with fewer than `minIdles` (and room left) the deficit is exactly what brings it up to `minIdles`; inside
    the band nothing is asked for -/
theorem c07_balance_band (idles inuses maxI minI total : Nat) (hmm : minI ≤ maxI) :
    let (toDel, toAdd) := balance idles inuses maxI minI total
    (maxI ≤ idles → idles - toDel = maxI ∧ toAdd = 0) ∧
    (idles < minI → idles + inuses < total → idles + toAdd = minI ∧ toDel = 0) ∧
    (minI ≤ idles → idles ≤ maxI → toDel = 0 ∧ toAdd = 0) ∧
    (idles + inuses ≥ total → toAdd = 0) := by
  simp only [balance]
  refine ⟨?_, ?_, ?_, ?_⟩
  · intro h; constructor
    · omega
    · split <;> omega
  · intro h1 h2; constructor
    · rw [if_neg (by omega)]; omega
    · omega
  · intro h1 h2; constructor
    · omega
    · split <;> omega
  · intro h; rw [if_pos h]

/-! ### below the pool: what the factory reports -/

/-- whatever the cloud assigned on a call comes back to the pool — with or without an error (the metadata wait timing
    out is an error *after* the effect): returned ≥ added; and a call without error returned exactly what was asked -/
theorem c07_factory_reports_what_took_effect (n : Nat) (refused shows : Bool) :
    (Factory.assign n refused shows).added ≤ (Factory.assign n refused shows).returned ∧
    ((Factory.assign n refused shows).err = false → (Factory.assign n refused shows).returned = n) := by
  unfold Factory.assign
  cases refused <;> cases shows <;> simp

end Terway.Props.C07
