import TerwayModel.Proofs.Daemon
import TerwayModel.Proofs.StoredRec
/-
C05 — a daemon restart keeps acknowledged allocations and never double-allocates.
Model: `restart` / `crash` / `Store` in `TerwayModel/Model/Daemon.lean`; invariant: `TerwayModel/Proofs/Daemon.lean`.
-/
namespace Terway.Props.C05
open Terway.Daemon

/-! ## the invariant holds after every history -/

/-- from a fresh start, after any sequence of requests (overlapping or not), GC passes, restarts and
    crashes inside the database write of a request, the invariant holds: pool keys distinct, one
    record per pod, a recorded address that is in the pool is bound to its pod, every binding is recorded,
    and no two records name one address.  (`Op.Good` excludes only a failing ADD that keeps what it took: the
    defect repaired in `Manager.Allocate`.) -/
theorem c05_invariant_all_histories (crd dual : Bool) (cloud : List (String × Nat)) (hc : cloud.Nodup)
    (ops : List Op) (hg : ∀ op ∈ ops, op.Good) : Inv (run (boot crd dual cloud) ops) :=
  (Inv.boot_pres crd dual hc).run_pres hg

/-- hence in every reachable state an acknowledged (recorded) address is bound to its pod, and to no
    other pod's record -/
theorem c05_acknowledged_exclusive (crd dual : Bool) (cloud : List (String × Nat)) (hc : cloud.Nodup)
    (ops : List Op) (hg : ∀ op ∈ ops, op.Good) (p q : String) (r rq : Rec) (hpq : p ≠ q) :
    let s := run (boot crd dual cloud) ops
    dbGet s.db p = some r → dbGet s.db q = some rq →
      (∀ e ∈ s.pool, e.eni = r.eni → e.ip ∈ r.ips → e.owner = some p) ∧
      (r.eni = rq.eni → ∀ ip ∈ r.ips, ip ∉ rq.ips) := by
  intro s hr hq
  have hI : Inv s := c05_invariant_all_histories crd dual cloud hc ops hg
  exact ⟨hI.bound p r hr, fun he ip hi => hI.noShare p q r rq hr hq hpq he ip hi⟩

/-- an ADD never hands out an address another pod's record names -/
theorem c05_add_never_takes_recorded (s : Svc) (hI : Inv s) (p q cid : String) (v : PodGet) (pick : List Ent)
    (hpq : q ≠ p) (rq : Rec) (hq : dbGet s.db q = some rq) (s' : Svc) (ips : List Nat)
    (hadd : addBody s p cid v pick = (s', .ok ips)) (r' : Rec) (hr' : dbGet s'.db p = some r') :
    r'.eni = rq.eni → ∀ ip ∈ r'.ips, ip ∉ rq.ips := by
  have hI' : Inv s' := by
    have := hI.body_pres (k := .add pick) trivial p cid v
    simp only [body, hadd] at this
    exact this
  have hq' : dbGet s'.db q = some rq := by
    unfold addBody at hadd
    cases v with
    | notFound => simp at hadd
    | error => simp at hadd
    | found st =>
      simp only at hadd
      split at hadd
      · simp at hadd
      · split at hadd
        · have := congrArg Prod.fst hadd
          simp only at this
          rw [← this]
          simp only
          rw [dbGet_dbPut_ne _ _ _ _ hpq]; exact hq
        · simp at hadd
  intro he ip hi
  exact hI'.noShare p q r' rq hr' hq' (Ne.symm hpq) he ip hi

/-! ## restart -/

/-- after a restart every recorded address the cloud still reports is in the pool, valid, and bound to its pod -/
theorem c05_restart_keeps_acknowledged (s : Svc) (hI : Inv s) (cloud : List (String × Nat))
    (p : String) (r : Rec) (hr : dbGet s.db p = some r) (ip : Nat) (hi : ip ∈ r.ips) (hc : (r.eni, ip) ∈ cloud) :
    { eni := r.eni, ip := ip, owner := some p, valid := true } ∈ (restart s cloud).pool := by
  simp only [restart, List.mem_map]
  refine ⟨(r.eni, ip), hc, ?_⟩
  simp only
  rw [ownerOf_eq hI.dbKeys hI.noShare hr hi]

/-- ... and an address no record names is free: whatever a request that was never acknowledged (never
    recorded) took becomes reusable -/
theorem c05_restart_frees_unrecorded (s : Svc) (cloud : List (String × Nat)) (eni : String) (ip : Nat)
    (h : ∀ p r, (p, r) ∈ s.db → ¬ (r.eni = eni ∧ ip ∈ r.ips)) :
    ∀ e ∈ (restart s cloud).pool, e.eni = eni → e.ip = ip → e.owner = none := by
  intro e he h1 h2
  obtain ⟨_, _, ho⟩ := mem_restart_pool he
  rw [ho, h1, h2]
  exact ownerOf_none h

/-- the restarted pool holds exactly what the cloud reports, nothing of the old process's memory -/
theorem c05_restart_pool_is_cloud (s : Svc) (cloud : List (String × Nat)) :
    (restart s cloud).pool.map key = cloud ∧ (restart s cloud).pending = [] ∧ (restart s cloud).db = s.db := by
  refine ⟨?_, rfl, rfl⟩
  simp only [restart, List.map_map]
  have : (key ∘ fun (x : String × Nat) => ({ eni := x.1, ip := x.2, owner := ownerOf s.db x.1 x.2, valid := true } : Ent)) = id := by
    funext x; simp [key]
  rw [this, List.map_id]

/-! ## crash points inside a request -/

/-- dying before the database write: the restarted service is as if the request had never been made -/
theorem c05_crash_before_write (s : Svc) (k : Kind) (p cid : String) (v : PodGet) (cloud : List (String × Nat)) :
    crash s k p cid v false cloud = restart s cloud := by
  simp [crash]

/-- dying after the database write (before the reply): the restarted service is the one restarted after
    the completed request -/
theorem c05_crash_after_write (s : Svc) (k : Kind) (p cid : String) (v : PodGet) (cloud : List (String × Nat)) :
    crash s k p cid v true cloud = restart { (body s k p cid v).1 with pending := s.pending } cloud := by
  simp only [crash, restart, if_true]
  have hcrd : (body s k p cid v).1.crd = s.crd := by
    cases k <;> simp only [body, addBody, addFailBody, delBody, getBody]
    · cases v <;> simp only <;> (repeat' split) <;> rfl
    · (repeat' split) <;> rfl
    · cases v <;> simp only <;> (repeat' split) <;> rfl
    · cases v <;> simp only <;> (repeat' split) <;> rfl
  rw [body_dual, hcrd]

/-- an acknowledged ADD is recorded (sandbox, interface, addresses) before the reply -/
theorem c05_ack_add_recorded (s s' : Svc) (p cid : String) (v : PodGet) (pick : List Ent) (ips : List Nat)
    (h : addBody s p cid v pick = (s', .ok ips)) :
    ∃ r, dbGet s'.db p = some r ∧ r.cid = cid ∧ r.ips = ips := by
  unfold addBody at h
  cases v with
  | notFound => simp at h
  | error => simp at h
  | found st =>
    simp only at h
    split at h
    · simp at h
    · split at h
      · have h1 := congrArg Prod.fst h
        have h2 := congrArg Prod.snd h
        simp only [Reply.ok.injEq] at h1 h2
        rw [← h1]
        exact ⟨_, dbGet_dbPut_self _ _ _, rfl, h2⟩
      · simp at h

/-! ## the record store: disk first, memory second, full reload on open -/

open Store in
/-- completed writes: the mirror equals the file, and the file is the fold of the writes -/
theorem c05_store_mirror (ops : List (Bool × String × String)) :
    (ops.foldl write ⟨[], []⟩).mem = (ops.foldl write ⟨[], []⟩).disk ∧ (ops.foldl write ⟨[], []⟩).disk = disk ops := by
  have gen : ∀ (st : St), st.mem = st.disk →
      (ops.foldl write st).mem = (ops.foldl write st).disk ∧ (ops.foldl write st).disk = ops.foldl Store.apply st.disk := by
    induction ops with
    | nil => intro st h; exact ⟨h, rfl⟩
    | cons o rest ih =>
      intro st h
      simp only [List.foldl_cons]
      have := ih (write st o) (by simp [write, writeMem, writeDisk, h])
      simpa [write, writeMem, writeDisk] using this
  exact gen ⟨[], []⟩ rfl

/-- where a write can be cut short -/
inductive CutAt where
  | beforeDisk | betweenDiskAndMemory | afterMemory

open Store in
def cut (s : St) (o : Bool × String × String) : CutAt → St
  | .beforeDisk => s
  | .betweenDiskAndMemory => writeDisk s o
  | .afterMemory => write s o

open Store in
/-- SIGKILL at any instant of a write stream: after the acknowledged prefix `ops` and a cut anywhere in the
    next write `o`, the reopened store holds the state after `ops` or after `ops ++ [o]` — every
    acknowledged write is there, nothing else than the one in-flight write may be -/
theorem c05_kill_durable (ops : List (Bool × String × String)) (o : Bool × String × String) (c : CutAt) :
    let st := reopen (cut (ops.foldl write ⟨[], []⟩) o c)
    (st.mem = disk ops ∨ st.mem = disk (ops ++ [o])) ∧ st.mem = st.disk := by
  have hm := (c05_store_mirror ops).2
  cases c <;> simp [cut, reopen, writeDisk, write, writeMem, hm, disk, List.foldl_append]

/-! ## non-vacuity, and the recorded finding -/

def e101 : Ent := { eni := "e1", ip := 101, owner := none, valid := true }
def e101p : Ent := { eni := "e1", ip := 101, owner := some "p1", valid := true }
def cloud0 : List (String × Nat) := [("e1", 101), ("e1", 102)]

/-- a served pod keeps its address over a restart, and a second pod is given the other one -/
example : (run (boot false false cloud0) [.req (.add [e101]) "p1" "c1" (.found false), .restart cloud0]).pool.map (·.owner)
    = [some "p1", none] := by decide

/-- the defect repaired by "fix: a canceled repeated allocation released the address the pod already held":
    a repeat ADD that fails after the pool served it leaves the pod's acknowledged address bound, so the next
    pod is given another one (before the repair the second pod's record named 101 as well) -/
theorem c05_failed_repeat_keeps_address :
    let s := run (boot false false cloud0)
      [.req (.add [e101]) "p1" "c1" (.found false),
       .req (.addFail [e101p] true) "p1" "c2" (.found false),
       .req (.add [{ eni := "e1", ip := 102, owner := none, valid := true }]) "p2" "c3" (.found false)]
    (dbGet s.db "p1").map (·.ips) = some [101] ∧ (dbGet s.db "p2").map (·.ips) = some [102] ∧
    s.pool.map (·.owner) = [some "p1", some "p2"] := by decide

/-- ... and the pool refuses to give the held address to the other pod -/
example : (run (boot false false cloud0)
      [.req (.add [e101]) "p1" "c1" (.found false),
       .req (.addFail [e101p] true) "p1" "c2" (.found false),
       .req (.add [e101]) "p2" "c3" (.found false)]).db.map (·.1) = ["p1"] := by decide

/-! ### the start-up filter between the stored records and the pool (daemon.go `filterENINotFound`) -/

/-- what the restarted daemon hands to the pool is a sub-list of the stored record: nothing is invented -/
theorem c05_startup_filter_sublist (att : Stored.Attached) (rs out : List Stored.Item)
    (h : Stored.filter att rs = some out) : out.Sublist rs :=
  Stored.loop_sublist _ att _ _ _ rs out h

/-- every stored item whose interface is still attached reaches the pool: named by `eni_id`, or — records written
    without it — by the MAC in front of its `id`; items of other types always do -/
theorem c05_startup_filter_keeps_attached (att : Stored.Attached) (rs out : List Stored.Item)
    (h : Stored.filter att rs = some out) (it : Stored.Item) (hit : it ∈ rs)
    (hatt : it.eniIp = false ∨ (it.eniID ≠ "" ∧ ∃ e ∈ att, e.1 = it.eniID) ∨
            (it.eniID = "" ∧ ∃ e ∈ att, e.2 = Stored.idMac it.id)) : it ∈ out := by
  refine Stored.loop_keeps _ att _ _ _ rs out h it hit ?_
  unfold Stored.stale
  rcases hatt with h0 | ⟨hne, e, he, hid⟩ | ⟨hemp, e, he, hmac⟩
  · simp [h0]
  · have : (att.any fun x => x.1 == it.eniID) = true := List.any_eq_true.mpr ⟨e, he, by simp [hid]⟩
    simp [hne, this]
  · have : (att.any fun x => x.2 == Stored.idMac it.id) = true := List.any_eq_true.mpr ⟨e, he, by simp [hmac]⟩
    simp [hemp, this]

example : Stored.filter [("eni-1", "m1")] [⟨true, "", "m1.10.0.0.1"⟩] = some [⟨true, "", "m1.10.0.0.1"⟩] := by decide

end Terway.Props.C05
