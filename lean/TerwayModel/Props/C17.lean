import TerwayModel.Model.Factory
import TerwayModel.Model.VSwitch
/-
C17 — vSwitch selection honours zone, capacity and policy without side effects.
-/
namespace Terway.Props.C17
open Terway.VSwitch

/-! ## the switch a lookup yields, and its stability under cache fills -/

/-- what `GetByID` answers for `id` in state `p` -/
def resolve (p : Pool) (id : String) : Option Sw :=
  match cached p id with
  | some sw => some sw
  | none => assoc p.cloud id

/-- the cloud answers a lookup with the vSwitch that was asked for -/
def WellKeyed (p : Pool) : Prop := ∀ id sw, assoc p.cloud id = some sw → sw.id = id

theorem getByID_result (p : Pool) (id : String) : (getByID p id).2 = resolve p id := by
  unfold getByID resolve
  cases cached p id with
  | some sw => rfl
  | none => simp only; cases assoc p.cloud id <;> rfl

theorem getByID_cloud (p : Pool) (id : String) : (getByID p id).1.cloud = p.cloud := by
  unfold getByID
  cases cached p id with
  | some sw => rfl
  | none => simp only; cases assoc p.cloud id <;> rfl

theorem assoc_remove_ne {α : Type} (c : List (String × α)) (k id : String) (h : k ≠ id) :
    assoc (remove c k) id = assoc c id := by
  induction c with
  | nil => rfl
  | cons e c ih =>
    obtain ⟨a, v⟩ := e
    by_cases ha : a = k
    · subst ha; simp [remove, assoc, h, ih]
    · by_cases hb : a = id
      · subst hb; simp [remove, assoc, ha]
      · simp [remove, assoc, ha, hb, ih]

theorem getByID_resolve (p : Pool) (hk : WellKeyed p) (id id' : String) :
    resolve (getByID p id).1 id' = resolve p id' := by
  unfold getByID
  cases hc : cached p id with
  | some sw => rfl
  | none =>
    simp only
    cases ha : assoc p.cloud id with
    | none => rfl
    | some sw =>
      simp only
      have hid : sw.id = id := hk id sw ha
      by_cases e : id' = id
      · subst e
        have : cached (store p sw) id' = some sw := by
          simp [cached, store, assoc, hid]
        show resolve (store p sw) id' = resolve p id'
        unfold resolve; rw [this]; simp [hc, ha]
      · have : cached (store p sw) id' = cached p id' := by
          simp only [cached, store, assoc, hid, if_neg (Ne.symm e)]
          rw [assoc_remove_ne _ _ _ (Ne.symm e)]
        show resolve (store p sw) id' = resolve p id'
        unfold resolve; rw [this]; rfl

/-! ## the selection as a pure function of the resolved candidates -/

/-- the loop of `GetOne` over already resolved candidates -/
def pickL (zone : String) (ign : Bool) : List Sw → List Sw → Option Sw
  | [], fb => fb.find? fun s => s.free ≠ 0
  | sw :: rest, fb =>
    if sw.zone ≠ zone then pickL zone ign rest (if ign then fb ++ [sw] else fb)
    else if sw.free = 0 then pickL zone ign rest fb
    else some sw

theorem scan_eq (zone : String) (ign : Bool) (ids : List String) :
    ∀ (p : Pool) (fb : List Sw), WellKeyed p →
      (scan zone ign p ids fb).2 = pickL zone ign (ids.filterMap (resolve p)) fb ∧
      (∀ id, resolve (scan zone ign p ids fb).1 id = resolve p id) ∧
      (scan zone ign p ids fb).1.cloud = p.cloud := by
  induction ids with
  | nil => intro p fb _; simp [scan, pickL]
  | cons id rest ih =>
    intro p fb hk
    have hr := getByID_result p id
    have hc := getByID_cloud p id
    have hs := getByID_resolve p hk id
    have hk' : WellKeyed (getByID p id).1 := by unfold WellKeyed; rw [hc]; exact hk
    have hfm : ∀ l : List String, l.filterMap (resolve (getByID p id).1) = l.filterMap (resolve p) := by
      intro l; congr 1; funext x; exact hs x
    unfold scan
    cases hg : getByID p id with
    | mk p' r =>
      rw [hg] at hr hc hs hk' hfm
      cases r with
      | none =>
        simp only
        have := ih p' fb hk'
        rw [hfm] at this
        simp only [List.filterMap_cons, ← hr]
        exact ⟨this.1, fun x => by rw [this.2.1 x, hs x], by rw [this.2.2, hc]⟩
      | some sw =>
        simp only [List.filterMap_cons, ← hr, pickL]
        by_cases hz : sw.zone ≠ zone
        · simp only [if_pos hz]
          have := ih p' (if ign then fb ++ [sw] else fb) hk'
          rw [hfm] at this
          exact ⟨this.1, fun x => by rw [this.2.1 x, hs x], by rw [this.2.2, hc]⟩
        · simp only [if_neg hz]
          by_cases hf : sw.free = 0
          · simp only [if_pos hf]
            have := ih p' fb hk'
            rw [hfm] at this
            exact ⟨this.1, fun x => by rw [this.2.1 x, hs x], by rw [this.2.2, hc]⟩
          · simp only [if_neg hf]
            exact ⟨trivial, hs, hc⟩

theorem collect_eq (ids : List String) :
    ∀ (p : Pool), WellKeyed p →
      (collect p ids).2 = ids.filterMap (resolve p) ∧
      (∀ id, resolve (collect p ids).1 id = resolve p id) ∧ (collect p ids).1.cloud = p.cloud := by
  induction ids with
  | nil => intro p _; simp [collect]
  | cons id rest ih =>
    intro p hk
    have hr := getByID_result p id
    have hc := getByID_cloud p id
    have hs := getByID_resolve p hk id
    have hk' : WellKeyed (getByID p id).1 := by unfold WellKeyed; rw [hc]; exact hk
    have hfm : rest.filterMap (resolve (getByID p id).1) = rest.filterMap (resolve p) := by
      congr 1; funext x; exact hs x
    unfold collect
    cases hg : getByID p id with
    | mk p' r =>
      rw [hg] at hr hc hs hk' hfm
      have := ih p' hk'
      rw [hfm] at this
      cases r with
      | none =>
        simp only [List.filterMap_cons, ← hr]
        exact ⟨this.1, fun x => by rw [this.2.1 x, hs x], by rw [this.2.2, hc]⟩
      | some sw =>
        simp only [List.filterMap_cons, ← hr]
        exact ⟨by rw [this.1], fun x => by rw [this.2.1 x, hs x], by rw [this.2.2, hc]⟩

theorem insertDesc_perm (x : Sw) (l : List Sw) : (insertDesc x l).Perm (x :: l) := by
  induction l with
  | nil => exact List.Perm.refl _
  | cons y ys ih =>
    simp only [insertDesc]
    split
    · exact List.Perm.refl _
    · exact (List.Perm.cons y ih).trans (List.Perm.swap x y ys)

theorem sortMost_perm (l : List Sw) : (sortMost l).Perm l := by
  induction l with
  | nil => exact List.Perm.refl _
  | cons x xs ih => exact (insertDesc_perm x _).trans (List.Perm.cons x ih)

def Desc (a b : Sw) : Prop := a.free ≥ b.free

theorem insertDesc_sorted (x : Sw) (l : List Sw) (h : l.Pairwise Desc) : (insertDesc x l).Pairwise Desc := by
  induction l with
  | nil => simp [insertDesc]
  | cons y ys ih =>
    simp only [insertDesc]
    have hy := List.pairwise_cons.mp h
    split
    · rename_i hge
      refine List.pairwise_cons.mpr ⟨?_, h⟩
      intro z hz
      simp only [List.mem_cons] at hz
      rcases hz with rfl | hz
      · exact hge
      · have := hy.1 z hz; unfold Desc at *; omega
    · rename_i hlt
      refine List.pairwise_cons.mpr ⟨?_, ih hy.2⟩
      intro z hz
      have := (insertDesc_perm x ys).subset hz
      simp only [List.mem_cons] at this
      rcases this with rfl | hz'
      · unfold Desc; omega
      · exact hy.1 z hz'

theorem sortMost_sorted (l : List Sw) : (sortMost l).Pairwise Desc := by
  induction l with
  | nil => simp [sortMost]
  | cons x xs ih => exact insertDesc_sorted x _ ih

/-- candidates as `GetOne` sees them -/
def cands (p : Pool) (ids : List String) : List Sw := ids.filterMap (resolve p)

/-- every switch the pool can answer with carries the id it is stored under -/
def KeyedResolve (p : Pool) : Prop := ∀ id sw, resolve p id = some sw → sw.id = id

theorem filterMap_resolve_ids (p : Pool) (hk : KeyedResolve p) (l : List Sw)
    (hl : ∀ s ∈ l, resolve p s.id = some s) : (l.map (·.id)).filterMap (resolve p) = l := by
  induction l with
  | nil => rfl
  | cons s l ih =>
    simp only [List.map_cons, List.filterMap_cons, hl s (by simp)]
    rw [ih (fun x hx => hl x (by simp [hx]))]

theorem mem_cands (p : Pool) (hk : KeyedResolve p) (ids : List String) (s : Sw) (hs : s ∈ cands p ids) :
    s.id ∈ ids ∧ resolve p s.id = some s := by
  unfold cands at hs
  simp only [List.mem_filterMap] at hs
  obtain ⟨id, hid, hr⟩ := hs
  have := hk id s hr
  subst this
  exact ⟨hid, hr⟩

/-- `GetOne` reduced to the pure selection over the resolved candidates -/
theorem getOne_choice (p : Pool) (hw : WellKeyed p) (hk : KeyedResolve p) (zone : String) (ign : Bool)
    (ids rho : List String) :
    (getOne p .ordered zone ign ids rho).choice = pickL zone ign (cands p ids) [] ∧
    (getOne p .random zone ign ids rho).choice = pickL zone ign (cands p rho) [] ∧
    (getOne p .most zone ign ids rho).choice = pickL zone ign (sortMost (cands p ids)) [] := by
  refine ⟨?_, ?_, ?_⟩
  · simp only [getOne]; exact (scan_eq zone ign ids p [] hw).1
  · simp only [getOne]; exact (scan_eq zone ign rho p [] hw).1
  · simp only [getOne]
    have hc := collect_eq ids p hw
    cases hcol : collect p ids with
    | mk p1 sws =>
      rw [hcol] at hc
      simp only at hc
      have hw1 : WellKeyed p1 := by unfold WellKeyed; rw [hc.2.2]; exact hw
      have hs := scan_eq zone ign ((sortMost sws).map (·.id)) p1 [] hw1
      simp only
      rw [hs.1]
      have hres : (fun id => resolve p1 id) = resolve p := by funext x; exact hc.2.1 x
      have : List.filterMap (resolve p1) ((sortMost sws).map (·.id)) = sortMost sws := by
        have e : resolve p1 = resolve p := hres
        rw [e]
        apply filterMap_resolve_ids p hk
        intro s hs
        have : s ∈ cands p ids := by
          rw [hc.1] at hs
          exact (sortMost_perm _).subset hs
        exact (mem_cands p hk ids s this).2
      rw [this, hc.1]; rfl

/-! ## C17: what the selection guarantees -/

def Elig (zone : String) (s : Sw) : Prop := s.zone = zone ∧ s.free ≠ 0

/-- Characterisation of the loop: either the first in-zone candidate with free addresses, or — only
    when there is none — a candidate from the fallback list with free addresses. -/
theorem pickL_spec (zone : String) (ign : Bool) (l : List Sw) :
    ∀ (fb : List Sw) (sw : Sw), pickL zone ign l fb = some sw →
      (Elig zone sw ∧ ∃ pre post, l = pre ++ sw :: post ∧ ∀ s ∈ pre, ¬ Elig zone s) ∨
      ((∀ s ∈ l, ¬ Elig zone s) ∧ sw.free ≠ 0 ∧ (sw ∈ fb ∨ (ign = true ∧ sw ∈ l ∧ sw.zone ≠ zone))) := by
  induction l with
  | nil =>
    intro fb sw h
    simp only [pickL] at h
    right
    have := List.find?_some h
    have hm := List.mem_of_find?_eq_some h
    exact ⟨by simp, by simpa using this, Or.inl hm⟩
  | cons x rest ih =>
    intro fb sw h
    simp only [pickL] at h
    by_cases hz : x.zone ≠ zone
    · rw [if_pos hz] at h
      rcases ih _ sw h with ⟨he, pre, post, hl, hp⟩ | ⟨hn, hf, hm⟩
      · left
        refine ⟨he, x :: pre, post, by simp [hl], ?_⟩
        intro s hs
        simp only [List.mem_cons] at hs
        rcases hs with rfl | hs
        · exact fun e => hz e.1
        · exact hp s hs
      · right
        refine ⟨?_, hf, ?_⟩
        · intro s hs
          simp only [List.mem_cons] at hs
          rcases hs with rfl | hs
          · exact fun e => hz e.1
          · exact hn s hs
        · rcases hm with hm | ⟨hi, hm, hzz⟩
          · by_cases hi : ign = true
            · simp only [hi, if_true, List.mem_append, List.mem_singleton] at hm
              rcases hm with hm | rfl
              · exact Or.inl hm
              · exact Or.inr ⟨hi, by simp, hz⟩
            · simp only [hi] at hm
              exact Or.inl hm
          · exact Or.inr ⟨hi, by simp [hm], hzz⟩
    · rw [if_neg hz] at h
      have hz' : x.zone = zone := by simpa using hz
      by_cases hf : x.free = 0
      · rw [if_pos hf] at h
        rcases ih _ sw h with ⟨he, pre, post, hl, hp⟩ | ⟨hn, hf2, hm⟩
        · left
          refine ⟨he, x :: pre, post, by simp [hl], ?_⟩
          intro s hs
          simp only [List.mem_cons] at hs
          rcases hs with rfl | hs
          · exact fun e => e.2 hf
          · exact hp s hs
        · right
          refine ⟨?_, hf2, ?_⟩
          · intro s hs
            simp only [List.mem_cons] at hs
            rcases hs with rfl | hs
            · exact fun e => e.2 hf
            · exact hn s hs
          · rcases hm with hm | ⟨hi, hm, hzz⟩
            · exact Or.inl hm
            · exact Or.inr ⟨hi, by simp [hm], hzz⟩
      · rw [if_neg hf] at h; simp only [Option.some.injEq] at h
        subst h
        left
        exact ⟨⟨hz', hf⟩, [], rest, rfl, by simp⟩

/-- if some candidate is in the zone with free addresses, an in-zone one is chosen (never the fallback, never an error) -/
theorem pickL_complete (zone : String) (ign : Bool) (l : List Sw) :
    ∀ (fb : List Sw), (∃ s ∈ l, Elig zone s) → ∃ sw, pickL zone ign l fb = some sw ∧ Elig zone sw := by
  induction l with
  | nil => intro fb h; obtain ⟨s, hs, _⟩ := h; cases hs
  | cons x rest ih =>
    intro fb h
    simp only [pickL]
    by_cases hz : x.zone ≠ zone
    · simp only [if_pos hz]
      apply ih
      obtain ⟨s, hs, he⟩ := h
      simp only [List.mem_cons] at hs
      rcases hs with rfl | hs
      · exact absurd he.1 hz
      · exact ⟨s, hs, he⟩
    · simp only [if_neg hz]
      have hz' : x.zone = zone := by simpa using hz
      by_cases hf : x.free = 0
      · simp only [if_pos hf]
        apply ih
        obtain ⟨s, hs, he⟩ := h
        simp only [List.mem_cons] at hs
        rcases hs with rfl | hs
        · exact absurd hf he.2
        · exact ⟨s, hs, he⟩
      · simp only [if_neg hf]
        exact ⟨x, rfl, hz', hf⟩

section
variable (p : Pool) (hw : WellKeyed p) (hk : KeyedResolve p) (zone : String) (ign : Bool) (ids rho : List String)
include hw hk

/-- the choice comes from the caller's candidate list, and has free addresses (policy ordered) -/
theorem c17_member_free_ordered (sw : Sw) (h : (getOne p .ordered zone ign ids rho).choice = some sw) :
    sw.id ∈ ids ∧ sw.free ≠ 0 := by
  rw [(getOne_choice p hw hk zone ign ids rho).1] at h
  rcases pickL_spec zone ign _ [] sw h with ⟨he, pre, post, hl, _⟩ | ⟨_, hf, hm⟩
  · have : sw ∈ cands p ids := by rw [hl]; simp
    exact ⟨(mem_cands p hk ids sw this).1, he.2⟩
  · rcases hm with hm | ⟨_, hm, _⟩
    · cases hm
    · exact ⟨(mem_cands p hk ids sw hm).1, hf⟩

/-- the same for policy most -/
theorem c17_member_free_most (sw : Sw) (h : (getOne p .most zone ign ids rho).choice = some sw) :
    sw.id ∈ ids ∧ sw.free ≠ 0 := by
  rw [(getOne_choice p hw hk zone ign ids rho).2.2] at h
  have sub : ∀ s, s ∈ sortMost (cands p ids) → s ∈ cands p ids := fun s hs => (sortMost_perm _).subset hs
  rcases pickL_spec zone ign _ [] sw h with ⟨he, pre, post, hl, _⟩ | ⟨_, hf, hm⟩
  · have : sw ∈ sortMost (cands p ids) := by rw [hl]; simp
    exact ⟨(mem_cands p hk ids sw (sub sw this)).1, he.2⟩
  · rcases hm with hm | ⟨_, hm, _⟩
    · cases hm
    · exact ⟨(mem_cands p hk ids sw (sub sw hm)).1, hf⟩

/-- the same for policy random, where `rho` is any permutation of the candidate list -/
theorem c17_member_free_random (hperm : rho.Perm ids) (sw : Sw)
    (h : (getOne p .random zone ign ids rho).choice = some sw) : sw.id ∈ ids ∧ sw.free ≠ 0 := by
  rw [(getOne_choice p hw hk zone ign ids rho).2.1] at h
  rcases pickL_spec zone ign _ [] sw h with ⟨he, pre, post, hl, _⟩ | ⟨_, hf, hm⟩
  · have : sw ∈ cands p rho := by rw [hl]; simp
    exact ⟨hperm.subset (mem_cands p hk rho sw this).1, he.2⟩
  · rcases hm with hm | ⟨_, hm, _⟩
    · cases hm
    · exact ⟨hperm.subset (mem_cands p hk rho sw hm).1, hf⟩

/-- zone: without fallback the choice lies in the requested zone; with fallback a foreign-zone
    vSwitch is only chosen when no in-zone candidate has free addresses (all three policies share
    the loop, stated on it) -/
theorem c17_zone (l : List Sw) (sw : Sw) (h : pickL zone ign l [] = some sw) :
    (ign = false → sw.zone = zone) ∧ (sw.zone ≠ zone → ∀ s ∈ l, ¬ Elig zone s) := by
  rcases pickL_spec zone ign l [] sw h with ⟨he, _⟩ | ⟨hn, _, hm⟩
  · exact ⟨fun _ => he.1, fun hne => absurd he.1 hne⟩
  · rcases hm with hm | ⟨hi, _, _⟩
    · cases hm
    · exact ⟨fun hf => by simp [hi] at hf, fun _ => hn⟩

/-- `ordered` picks the first eligible candidate of the caller's list -/
theorem c17_ordered_first (sw : Sw) (h : (getOne p .ordered zone ign ids rho).choice = some sw)
    (hz : sw.zone = zone) :
    ∃ pre post, cands p ids = pre ++ sw :: post ∧ ∀ s ∈ pre, ¬ Elig zone s := by
  rw [(getOne_choice p hw hk zone ign ids rho).1] at h
  rcases pickL_spec zone ign _ [] sw h with ⟨_, pre, post, hl, hp⟩ | ⟨_, _, hm⟩
  · exact ⟨pre, post, hl, hp⟩
  · rcases hm with hm | ⟨_, _, hne⟩
    · cases hm
    · exact absurd hz hne

/-- `most` picks an in-zone candidate with the most free addresses among the eligible ones -/
theorem c17_most_max (sw : Sw) (h : (getOne p .most zone ign ids rho).choice = some sw)
    (hz : sw.zone = zone) : ∀ s ∈ cands p ids, Elig zone s → s.free ≤ sw.free := by
  rw [(getOne_choice p hw hk zone ign ids rho).2.2] at h
  intro s hs he
  have hs' : s ∈ sortMost (cands p ids) := (sortMost_perm _).symm.subset hs
  have hsorted : (sortMost (cands p ids)).Pairwise Desc := sortMost_sorted _
  rcases pickL_spec zone ign _ [] sw h with ⟨_, pre, post, hl, hp⟩ | ⟨_, _, hm⟩
  · rw [hl] at hs' hsorted
    simp only [List.mem_append, List.mem_cons] at hs'
    rcases hs' with hpre | rfl | hpost
    · exact absurd he (hp s hpre)
    · exact Int.le_refl _
    · have := (List.pairwise_append.mp hsorted).2.1
      have := (List.pairwise_cons.mp this).1 s hpost
      exact this
  · rcases hm with hm | ⟨_, _, hne⟩
    · cases hm
    · exact absurd hz hne

/-- an eligible in-zone candidate is never passed over in favour of an error or a fallback -/
theorem c17_complete (h : ∃ s ∈ cands p ids, Elig zone s) :
    ∃ sw, (getOne p .ordered zone ign ids rho).choice = some sw ∧ Elig zone sw := by
  rw [(getOne_choice p hw hk zone ign ids rho).1]
  exact pickL_complete zone ign _ [] h

/-- the caller's candidate slice is the same list after the call, for every policy -/
theorem c17_caller_list_untouched (policy : Policy) :
    (getOne p policy zone ign ids rho).caller = ids := by
  cases policy <;> simp [getOne]

/-- a vSwitch whose cached entry says "no free addresses" is never chosen -/
theorem c17_exhausted_not_chosen (policy : Policy) (hperm : rho.Perm ids) (id : String) (s0 : Sw)
    (hr : resolve p id = some s0) (h0 : s0.free = 0) (sw : Sw)
    (h : (getOne p policy zone ign ids rho).choice = some sw) : sw.id ≠ id := by
  intro e
  have key : ∀ l : List Sw, (∀ s ∈ l, resolve p s.id = some s) → pickL zone ign l [] = some sw → False := by
    intro l hl hp
    rcases pickL_spec zone ign l [] sw hp with ⟨he, pre, post, hll, _⟩ | ⟨_, hf, hm⟩
    · have : resolve p sw.id = some sw := hl sw (by rw [hll]; simp)
      rw [e, hr] at this
      injection this with this
      subst this
      exact he.2 h0
    · rcases hm with hm | ⟨_, hm, _⟩
      · cases hm
      · have : resolve p sw.id = some sw := hl sw hm
        rw [e, hr] at this
        injection this with this
        subst this
        exact hf h0
  have gc := getOne_choice p hw hk zone ign ids rho
  cases policy with
  | ordered => rw [gc.1] at h; exact key _ (fun s hs => (mem_cands p hk ids s hs).2) h
  | random => rw [gc.2.1] at h; exact key _ (fun s hs => (mem_cands p hk rho s hs).2) h
  | most =>
    rw [gc.2.2] at h
    exact key _ (fun s hs => (mem_cands p hk ids s ((sortMost_perm _).subset hs)).2) h

end

/-! ## Block: the exhausted mark lasts until the cache entry expires -/

theorem block_marks (p : Pool) (id : String) (s : Sw) (h : cached p id = some s) (dt : Nat) (hdt : dt ≤ p.ttl) :
    ∃ s0, resolve (tick (block p id) dt) id = some s0 ∧ s0.free = 0 := by
  have hb : block p id =
      { p with cache := (id, { sw := { s with free := 0 }, expiry := p.now + p.ttl }) :: remove p.cache id } := by
    simp only [block, h]
  refine ⟨{ s with free := 0 }, ?_, rfl⟩
  rw [hb]
  have hc : cached (tick { p with cache := (id, { sw := { s with free := 0 }, expiry := p.now + p.ttl }) :: remove p.cache id } dt) id
      = some { s with free := 0 } := by
    simp only [cached, tick, assoc, if_true]
    have : p.now + dt ≤ p.now + p.ttl := by omega
    simp [this]
  unfold resolve; rw [hc]

/-! ## the keyed-ness hypotheses are invariants of the pool operations -/

def CacheKeyed (p : Pool) : Prop := ∀ id e, assoc p.cache id = some e → e.sw.id = id

theorem keyedResolve_of (p : Pool) (hc : CacheKeyed p) (hw : WellKeyed p) : KeyedResolve p := by
  intro id sw h
  unfold resolve cached at h
  cases ha : assoc p.cache id with
  | none => rw [ha] at h; exact hw id sw h
  | some e =>
    rw [ha] at h
    by_cases hle : p.now ≤ e.expiry
    · simp only [hle, if_true] at h; injection h with h; rw [← h]; exact hc id e ha
    · simp only [hle, if_false] at h; exact hw id sw h

theorem cacheKeyed_store (p : Pool) (sw : Sw) (hc : CacheKeyed p) : CacheKeyed (store p sw) := by
  intro id e h
  simp only [store, assoc] at h
  split at h
  · rename_i heq; injection h with h; subst h; exact heq
  · rename_i hne; rw [assoc_remove_ne _ _ _ hne] at h; exact hc id e h

theorem cacheKeyed_getByID (p : Pool) (id : String) (hc : CacheKeyed p) : CacheKeyed (getByID p id).1 := by
  unfold getByID
  cases cached p id with
  | some sw => exact hc
  | none =>
    simp only
    cases assoc p.cloud id with
    | none => exact hc
    | some sw => exact cacheKeyed_store p sw hc

theorem cached_keyed (p : Pool) (hc : CacheKeyed p) (id : String) (s : Sw) (h : cached p id = some s) : s.id = id := by
  unfold cached at h
  cases ha : assoc p.cache id with
  | none => rw [ha] at h; cases h
  | some e =>
    rw [ha] at h
    by_cases hle : p.now ≤ e.expiry
    · simp only [hle, if_true] at h; injection h with h; rw [← h]; exact hc id e ha
    · simp only [hle, if_false] at h; cases h

theorem cacheKeyed_block (p : Pool) (id : String) (hc : CacheKeyed p) : CacheKeyed (block p id) := by
  unfold block
  cases h : cached p id with
  | none => exact hc
  | some s =>
    intro id' e he
    simp only [assoc] at he
    split at he
    · rename_i heq; injection he with he; subst he; subst heq; exact cached_keyed p hc _ s h
    · rename_i hne; rw [assoc_remove_ne _ _ _ hne] at he; exact hc id' e he

theorem cacheKeyed_tick (p : Pool) (dt : Nat) (hc : CacheKeyed p) : CacheKeyed (tick p dt) := hc

theorem cacheKeyed_scan (zone : String) (ign : Bool) (ids : List String) :
    ∀ (p : Pool) (fb : List Sw), CacheKeyed p → CacheKeyed (scan zone ign p ids fb).1 := by
  induction ids with
  | nil => intro p fb h; exact h
  | cons id rest ih =>
    intro p fb h
    have hg := cacheKeyed_getByID p id h
    unfold scan
    cases hgb : getByID p id with
    | mk p' r =>
      rw [hgb] at hg
      cases r with
      | none => exact ih p' fb hg
      | some sw =>
        simp only
        split
        · exact ih p' _ hg
        · split
          · exact ih p' fb hg
          · exact hg

theorem cacheKeyed_collect (ids : List String) : ∀ (p : Pool), CacheKeyed p → CacheKeyed (collect p ids).1 := by
  induction ids with
  | nil => intro p h; exact h
  | cons id rest ih =>
    intro p h
    have hg := cacheKeyed_getByID p id h
    unfold collect
    cases hgb : getByID p id with
    | mk p' r =>
      rw [hgb] at hg
      cases r with
      | none => exact ih p' hg
      | some sw => exact ih p' hg

theorem cacheKeyed_getOne (p : Pool) (policy : Policy) (zone : String) (ign : Bool) (ids rho : List String)
    (hc : CacheKeyed p) : CacheKeyed (getOne p policy zone ign ids rho).pool := by
  cases policy with
  | ordered => exact cacheKeyed_scan zone ign ids p [] hc
  | random => exact cacheKeyed_scan zone ign rho p [] hc
  | most =>
    simp only [getOne]
    exact cacheKeyed_scan zone ign _ _ [] (cacheKeyed_collect ids p hc)

/-- non-vacuity: a concrete pool in which ordered, most and blocked behave differently -/
def demoPool : Pool :=
  { ttl := 10, now := 0, cache := [],
    cloud := [("a", ⟨"a", "z", 3⟩), ("b", ⟨"b", "z", 9⟩), ("c", ⟨"c", "y", 50⟩)] }

example : (getOne demoPool .ordered "z" false ["a", "b", "c"] []).choice = some ⟨"a", "z", 3⟩ := by decide
example : (getOne demoPool .most "z" false ["a", "b", "c"] []).choice = some ⟨"b", "z", 9⟩ := by decide
example : (getOne (block (getByID demoPool "b").1 "b") .most "z" false ["a", "b", "c"] []).choice = some ⟨"a", "z", 3⟩ := by decide
example : (getOne demoPool .ordered "q" true ["a", "b", "c"] []).choice = some ⟨"a", "z", 3⟩ := by decide

/-- **A vSwitch the cloud reported exhausted to the factory is not named by a later create request** (while its cache entry
    lives): of two orders in a row over candidates that are all exhausted, the second sends no create request at all, and the
    first names every candidate exactly once -/
theorem c17_factory_exhausted_not_chosen_again (n : Nat) :
    (Factory.exhaustTwice n).2 = [] ∧ (Factory.exhaustTwice n).1 = List.range n := by
  have h1 : (Factory.exhaustOrder n []).1 = List.range n := by
    unfold Factory.exhaustOrder; simp
  have h2 : (Factory.exhaustOrder n []).2 = List.range n := by
    unfold Factory.exhaustOrder; simp
  have h3 : (Factory.exhaustOrder n (List.range n)).1 = [] := by
    unfold Factory.exhaustOrder
    apply List.filter_eq_nil_iff.mpr
    intro i hi
    simp [hi]
  unfold Factory.exhaustTwice
  constructor
  · show (Factory.exhaustOrder n (Factory.exhaustOrder n []).2).1 = []
    rw [h2]; exact h3
  · show (Factory.exhaustOrder n []).1 = List.range n
    exact h1

example : Factory.exhaustTwice 2 = ([0, 1], []) := by decide

end Terway.Props.C17
