import TerwayModel.Proofs.Pool
import TerwayModel.Model.Capacity
import TerwayModel.Model.Factory
/-
C06 — the node pool stays within cloud quotas and never disposes what is in use.
-/
namespace Terway.Props.C06
open Terway.Pool

/-- in every reachable state, on every interface and in each family: addresses tracked (valid, invalid or
    awaiting unassignment) plus addresses asked for and not yet answered never exceed the per-ENI limit -/
theorem c06_tracked_plus_asked_within_limit (cfg : Cfg) (n : Nat) (hb : cfg.batch ≤ cfg.cap) (evs : List Ev) (p : Pool)
    (hr : (Pool.init cfg n).run evs = some p) (i : Nat) :
    (fam false (p.slot i).ips).length + (p.slot i).plan4 ≤ cfg.cap ∧ (fam true (p.slot i).ips).length + (p.slot i).plan6 ≤ cfg.cap := by
  obtain ⟨hI, hc⟩ := (Pool.Inv.init cfg n).run hb evs hr
  have := hI.slotOK i
  rw [hc] at this
  exact ⟨this.cap4, this.cap6⟩

/-- what the factory worker decides to ask for on an existing interface fits the free slots of the interface,
    and never exceeds the batch size -/
theorem c06_assign_request_fits (c : Cfg) (dn : List Nat) (s : Slot) (e : String) (he : s.eni = some e) (a b : Nat)
    (hp : s.faPlan c dn = .assign a b) :
    a ≤ c.cap - (fam false s.ips).length ∧ b ≤ c.cap - (fam true s.ips).length ∧ a ≤ c.batch ∧ b ≤ c.batch := by
  unfold Slot.faPlan at hp
  simp only [he, Option.isNone_some, Bool.false_eq_true, if_false, FaPlan.assign.injEq] at hp
  obtain ⟨rfl, rfl⟩ := hp
  exact ⟨Nat.min_le_right _ _, Nat.min_le_right _ _,
    Nat.le_trans (Nat.min_le_left _ _) (Nat.min_le_left _ _), Nat.le_trans (Nat.min_le_left _ _) (Nat.min_le_left _ _)⟩

/-- a new interface is only asked for by a slot that has none, with at most `batch` addresses per family: the
    number of interfaces never exceeds the number of slots (the node's quota) -/
theorem c06_create_only_without_eni (c : Cfg) (dn : List Nat) (s : Slot) (a b : Nat) (hp : s.faPlan c dn = .create a b) :
    s.eni = none ∧ 1 ≤ a ∧ a ≤ c.batch ∨ c.batch = 0 := by
  unfold Slot.faPlan at hp
  cases he : s.eni with
  | some e => simp [he] at hp
  | none =>
    simp only [he, Option.isNone_none, if_true, FaPlan.create.injEq] at hp
    obtain ⟨rfl, _⟩ := hp
    by_cases hz : c.batch = 0
    · exact Or.inr hz
    · left
      refine ⟨rfl, ?_, Nat.min_le_left _ _⟩
      have : 1 ≤ max (live dn s.alloc4).length 1 := Nat.le_max_right _ _
      exact Nat.le_min.mpr ⟨by omega, this⟩

/-- an interface is only asked for when every live queued request was admitted under the limit, and a slot
    holds at most one interface (`Slot.eni : Option String`): with `n` slots at most `n` interfaces exist -/
theorem c06_created_goes_to_empty_slot (p p' : Pool) (i v4n v6n : Nat) (res : CreateRes)
    (hs : p.step (.faCreated i v4n v6n res) = some p') :
    (p.slot i).eni = none ∧ (p.slot i).status = .creating ∧ res.v4.length ≤ v4n ∧ res.v6.length ≤ v6n ∧
    (∀ e, res.eni = some e → ∀ s ∈ p.slots, s.eni ≠ some e) := by
  simp only [Pool.step] at hs
  obtain ⟨hc, _⟩ := ite_some_eq hs
  simp only [Bool.and_eq_true, decide_eq_true_eq, beq_iff_eq, Bool.or_eq_true] at hc
  obtain ⟨⟨⟨⟨⟨⟨⟨⟨⟨⟨hst, hen⟩, _⟩, _⟩, hl4⟩, hl6⟩, _⟩, _⟩, _⟩, _⟩, hfresh⟩ := hc
  refine ⟨by simpa using hen, hst, hl4, hl6, ?_⟩
  intro e he s hsm
  rw [he] at hfresh
  simp only [List.all_eq_true, bne_iff_ne, ne_eq] at hfresh
  exact hfresh s hsm

/-! ## never unassign what is held, never the primary address -/

/-- in every reachable state an address marked for unassignment is held by nobody and is not primary: whatever
    batch of marked addresses the dispose worker takes, it contains no held and no primary address -/
theorem c06_marked_is_idle_and_secondary (cfg : Cfg) (n : Nat) (hb : cfg.batch ≤ cfg.cap) (evs : List Ev) (p : Pool)
    (hr : (Pool.init cfg n).run evs = some p) (i : Nat) (a : IP) (ha : a ∈ (p.slot i).ips) (hd : a.st = .deleting) :
    a.owner = none ∧ a.primary = false :=
  (((Pool.Inv.init cfg n).run hb evs hr).1.slotOK i).del a ha hd

/-- the dispose worker's batch consists of marked addresses only, at most `batch` per family -/
theorem c06_unassign_batch (c : Cfg) (dn : List Nat) (s : Slot) (u4 u6 : List Nat) (hp : s.fdPlanOK c dn (.unassign u4 u6) = true) :
    (∀ ip ∈ u4, ∃ a ∈ s.ips, a.ip = ip ∧ a.st = .deleting) ∧ (∀ ip ∈ u6, ∃ a ∈ s.ips, a.ip = ip ∧ a.st = .deleting) ∧
    u4.length ≤ c.batch ∧ u6.length ≤ c.batch := by
  unfold Slot.fdPlanOK at hp
  cases he : s.eni with
  | none => simp [he] at hp
  | some e =>
    simp only [he] at hp
    split at hp
    · split at hp <;> simp at hp
    · split at hp
      · simp at hp
      · simp only [Bool.and_eq_true, decide_eq_true_eq, List.all_eq_true] at hp
        obtain ⟨⟨⟨⟨⟨h4, h6⟩, _⟩, _⟩, l4⟩, l6⟩ := hp
        have mem : ∀ (six : Bool) (ip : Nat), ip ∈ deletingOf (fam six s.ips) → ∃ a ∈ s.ips, a.ip = ip ∧ a.st = .deleting := by
          intro six ip hip
          simp only [deletingOf, fam, List.mem_map, List.mem_filter, beq_iff_eq] at hip
          obtain ⟨a, ⟨⟨ha, _⟩, hs⟩, rfl⟩ := hip
          exact ⟨a, ha, rfl, hs⟩
        exact ⟨fun ip hip => mem false ip (h4 ip hip), fun ip hip => mem true ip (h6 ip hip),
          by rw [l4]; exact Nat.min_le_left _ _, by rw [l6]; exact Nat.min_le_left _ _⟩

/-- shrinking the pool only marks addresses nobody holds, and never the primary one -/
theorem c06_dispose_marks_only_idle (p p' : Pool) (h : p.Inv) (i n : Nat) (m4 m6 : List Nat)
    (hs : p.step (.dispose i n (.marks m4 m6)) = some p') :
    ∀ a ∈ (p.slot i).ips, a.ip ∈ m4 ++ m6 → a.owner = none := by
  simp only [Pool.step] at hs
  obtain ⟨hc, _⟩ := ite_some_eq hs
  have hm : disposeMarksOK (fam false (p.slot i).ips) n m4 = true ∧ disposeMarksOK (fam true (p.slot i).ips) n m6 = true := by
    unfold Slot.disposeOK at hc
    split at hc
    · simp at hc
    · split at hc
      · simp at hc
      · simp only [Bool.and_eq_true] at hc
        exact ⟨hc.1.1.1, hc.1.1.2⟩
  intro a ha hi
  rcases List.mem_append.mp hi with q | q
  · exact disposeMarks_unowned (h.slotOK i).keys hm.1 ha q
  · exact disposeMarks_unowned (h.slotOK i).keys hm.2 ha q

theorem c06_primary_never_marked (l : List IP) (marks : List Nat) (a : IP) (ha : a ∈ l) (hp : a.primary = true) :
    (if a.ip ∈ marks ∧ (!a.primary) = true then ({ a with st := .deleting } : IP) else a) = a := by
  simp [hp]

/-! ## never delete an interface that is in use or has requests pending -/

/-- the dispose worker deletes an interface only in `deleting` state with no address held and no live request waiting
    on it — neither queued for the factory nor already ordered (`dang`, counted since fix 4f8432b) -/
theorem c06_delete_only_unused (c : Cfg) (dn : List Nat) (s : Slot) (e : String) (hp : s.fdPlanOK c dn (.delete e) = true) :
    s.eni = some e ∧ s.status = .deleting ∧ (∀ a ∈ s.ips, a.owner = none) ∧ live dn s.alloc4 = [] ∧ live dn s.alloc6 = [] ∧
      live dn s.dang4 = [] ∧ live dn s.dang6 = [] := by
  unfold Slot.fdPlanOK at hp
  cases he : s.eni with
  | none => simp [he] at hp
  | some e' =>
    simp only [he] at hp
    split at hp
    · rename_i hst
      split at hp
      · rename_i hcd
        simp only [beq_iff_eq, FdPlan.delete.injEq] at hp
        unfold Slot.canDispose at hcd
        simp only [he, Option.isNone_some, Bool.false_or, Bool.and_eq_true, Bool.not_eq_true', List.any_eq_false,
          List.isEmpty_iff] at hcd
        refine ⟨by rw [hp], by simpa using hst, ?_, hcd.1.1.1.2, hcd.1.1.2, hcd.1.2, hcd.2⟩
        intro a ha
        simpa [IP.inUse] using hcd.1.1.1.1 a ha
      · simp at hp
    · split at hp <;> simp at hp

/-- an interface with a live request waiting on it (queued, or already ordered and waiting for its address) is never
    marked for deletion by `Dispose` -/
theorem c06_no_whole_dispose_while_request_waits (dn : List Nat) (s : Slot) (n : Nat) (e : String) (he : s.eni = some e)
    (hw : live dn s.alloc4 ≠ [] ∨ live dn s.alloc6 ≠ [] ∨ live dn s.dang4 ≠ [] ∨ live dn s.dang6 ≠ []) :
    s.disposeOK dn n .wholeENI = false := by
  cases h : s.disposeOK dn n .wholeENI with
  | false => rfl
  | true =>
    exfalso
    unfold Slot.disposeOK at h
    split at h
    · simp at h
    · split at h
      · rename_i hc
        simp only [Bool.and_eq_true] at hc
        have hcd := hc.2
        unfold Slot.canDispose at hcd
        simp only [he, Option.isNone_some, Bool.false_or, Bool.and_eq_true, List.isEmpty_iff] at hcd
        rcases hw with h1 | h1 | h1 | h1
        · exact h1 hcd.1.1.1.2
        · exact h1 hcd.1.1.2
        · exact h1 hcd.1.2
        · exact h1 hcd.2
      · simp at h

/-- a whole-interface dispose is only chosen when the interface is unused -/
theorem c06_whole_eni_only_unused (dn : List Nat) (s : Slot) (n : Nat) (h : s.disposeOK dn n .wholeENI = true) :
    s.canDispose dn = true ∨ s.eni = none := by
  unfold Slot.disposeOK at h
  split at h
  · simp at h
  · split at h
    · rename_i hc
      simp only [Bool.and_eq_true] at hc
      exact Or.inl hc.2
    · simp at h

/-! ## non-vacuity -/

def sDemo : Slot :=
  { eni := some "e", status := .inUse, alloc4 := [1, 2, 3], alloc6 := [], dang4 := [], dang6 := [], inhibit := false,
    ips := [{ ip := 101, owner := some "p", st := .valid, primary := true }, { ip := 102, owner := none, st := .deleting, primary := false }] }

/-- with 3 addresses allowed, 2 on the interface (one of them awaiting unassignment) and 3 requests queued,
    batch 2: one address is asked for, not two -/
example : sDemo.faPlan { cap := 3, batch := 2, en4 := true, en6 := false } [] = .assign 1 0 := by decide

/-! ### the per-interface limit the pool is started with is the instance type's, for both families -/

/-- the pool has ONE per-interface limit (`MaxIPPerENI`, which `getPoolConfig` sets to the type's IPv4 quota); IPv6 is
    left switched on in multi-IP mode only when the type's IPv6 quota per interface equals that IPv4 quota, so the
    single limit of `c06_tracked_plus_asked_within_limit` is the type's quota in each family that is enabled -/
theorem c06_pool_limit_is_type_quota (l : Capacity.Limits) (cfg : Capacity.Cfg) (os : Bool)
    (h6 : (Capacity.checkInstance l .multiIP cfg os).ipv6 = true) :
    (Capacity.poolConfig cfg .multiIP l).maxIPPerENI = l.ipv6Per ∧ 0 < l.ipv6Per := by
  unfold Capacity.checkInstance at h6
  simp only [decide_eq_true_eq, Capacity.Limits.supportIPv6, Capacity.Limits.supportMultiIPIPv6] at h6
  obtain ⟨_, hpos, hmulti⟩ := h6
  have heq : l.ipv6Per = l.ipv4Per := by
    by_cases h : l.ipv6Per = l.ipv4Per
    · exact h
    · exfalso; apply hmulti; simp [h]
  refine ⟨?_, by simpa using hpos⟩
  simp [Capacity.poolConfig, heq]

/-- **The pool is told which interface is the trunk and which are RDMA** (the flags behind "never deletes the trunk or an RDMA
    interface"): whenever the cloud is asked at start-up, every interface gets exactly the flags of its type - also a second
    Trunk-type interface besides the preferred one, also with trunking switched off -/
theorem c06_attached_flags_are_types (trunking erdma tags : Bool) (preferred : Option Nat) (tys : List Factory.Ty)
    (h : Factory.asksCloud trunking erdma tags preferred tys.length = true) (i : Nat) (hi : i < tys.length) :
    (Factory.attached trunking erdma tags preferred tys)[i]? = some (decide (tys[i] = .trunk), decide (tys[i] = .rdma)) := by
  unfold Factory.attached
  simp [h, hi]

example : Factory.attached false false true (some 0) [.trunk, .trunk, .rdma] = [(true, false), (true, false), (false, true)] := by decide

end Terway.Props.C06
