import TerwayModel.Model.NetConf
import TerwayModel.Props.C14
/-
C12 — every ADD yields a complete, self-consistent network configuration.
-/
namespace Terway.Props.C12
open Terway.NetConf Terway.Net

def countDefault (l : List Entry) : Nat := (l.filter (·.defaultRoute)).length

def b2n (b : Bool) : Nat := if b then 1 else 0

theorem scan_spec (l : List Entry) : ∀ (seen r : Bool), scanDefault l seen = some r →
    countDefault l + b2n seen ≤ 1 ∧ b2n r = countDefault l + b2n seen := by
  induction l with
  | nil => intro seen r h; simp only [scanDefault] at h; injection h with h; subst h; cases seen <;> simp [countDefault, b2n]
  | cons e l ih =>
    intro seen r h
    simp only [scanDefault] at h
    split at h
    · cases h
    · rename_i hc
      have := ih _ r h
      cases hd : e.defaultRoute <;> cases seen <;> simp_all [countDefault, b2n, List.filter] <;> omega

theorem setFirst_names (l : List Entry) : (setFirstDefault l).map (·.ifName) = l.map (·.ifName) := by
  induction l with
  | nil => rfl
  | cons e l ih => simp only [setFirstDefault]; split <;> simp [ih]

theorem setFirst_count (l : List Entry) (hex : l.any (fun e => isDefaultIf e.ifName) = true) (h0 : countDefault l = 0) :
    countDefault (setFirstDefault l) = 1 := by
  induction l with
  | nil => simp at hex
  | cons e l ih =>
    simp only [setFirstDefault]
    have he : e.defaultRoute = false := by
      cases hd : e.defaultRoute
      · rfl
      · simp [countDefault, List.filter, hd] at h0
    have hl : countDefault l = 0 := by simpa [countDefault, List.filter, he] using h0
    split
    · simpa [countDefault, List.filter] using hl
    · rename_i hn
      have hex' : l.any (fun e => isDefaultIf e.ifName) = true := by simpa [List.any, hn] using hex
      have := ih hex' hl
      simpa [countDefault, List.filter, he] using this

/-- **Exactly one default-route interface, the primary interface is present, nothing but that one
    flag is touched.** -/
theorem c12_one_default (l l' : List Entry) (h : defaultForNetConf l = .ok l') (hne : l ≠ []) :
    countDefault l' = 1 ∧ (l'.any fun e => isDefaultIf e.ifName) = true ∧ l'.map (·.ifName) = l.map (·.ifName) := by
  cases l with
  | nil => exact absurd rfl hne
  | cons e rest =>
    simp only [defaultForNetConf] at h
    cases hs : scanDefault (e :: rest) false with
    | none => simp [hs] at h
    | some seen =>
      simp only [hs] at h
      have sp := scan_spec _ _ _ hs
      by_cases hany : ((e :: rest).any fun e => isDefaultIf e.ifName) = true
      · simp only [hany, Bool.not_true, Bool.false_eq_true, if_false] at h
        cases seen
        · simp only [Bool.false_eq_true, if_false] at h
          injection h with h; subst h
          have h0 : countDefault (e :: rest) = 0 := by simp [b2n] at sp; omega
          refine ⟨setFirst_count _ hany h0, ?_, setFirst_names _⟩
          have := setFirst_names (e :: rest)
          rw [List.any_eq_true] at hany ⊢
          obtain ⟨x, hx, hxd⟩ := hany
          have hmem : x.ifName ∈ (setFirstDefault (e :: rest)).map (·.ifName) := by
            rw [this]; exact List.mem_map.mpr ⟨x, hx, rfl⟩
          obtain ⟨y, hy, hyn⟩ := List.mem_map.mp hmem
          exact ⟨y, hy, by rw [hyn]; exact hxd⟩
        · simp only [if_true] at h
          injection h with h; subst h
          exact ⟨by simp [b2n] at sp; omega, hany, rfl⟩
      · simp [hany] at h

/-- two default routes are always refused, and so is a list without the primary interface -/
theorem c12_rejects (l : List Entry) :
    (2 ≤ countDefault l → defaultForNetConf l = .error .dupDefault) ∧
    (l ≠ [] → countDefault l ≤ 1 → (l.any fun e => isDefaultIf e.ifName) = false → defaultForNetConf l = .error .noDefaultIf) := by
  constructor
  · intro h2
    cases l with
    | nil => simp [countDefault] at h2
    | cons e rest =>
      simp only [defaultForNetConf]
      cases hs : scanDefault (e :: rest) false with
      | none => rfl
      | some seen => have := scan_spec _ _ _ hs; simp [b2n] at this; omega
  · intro hne h1 hany
    cases l with
    | nil => exact absurd rfl hne
    | cons e rest =>
      simp only [defaultForNetConf]
      cases hs : scanDefault (e :: rest) false with
      | none =>
        -- a duplicate would need two defaults
        exfalso
        have : ∀ (l : List Entry) (seen : Bool), scanDefault l seen = none → 2 ≤ countDefault l + b2n seen := by
          intro l
          induction l with
          | nil => intro seen h; simp [scanDefault] at h
          | cons a l ih =>
            intro seen h
            simp only [scanDefault] at h
            split at h
            · rename_i hc; simp [countDefault, List.filter, hc.1, hc.2, b2n]
            · have := ih _ h
              cases hd : a.defaultRoute <;> cases seen <;> simp_all [countDefault, b2n, List.filter] <;> omega
        have := this _ _ hs
        simp [b2n] at this; omega
      | some seen => simp [hany]

/-! ## addresses, subnet and gateway of a PodENI allocation -/

/-- the trunk decoration leaves addresses, subnets, gateways, routes and flags alone -/
theorem decorate_fields (tm : Option String) (vids : List (String × Nat)) (id : String) (base c : NetConf)
    (h : decorate tm vids id base = some c) :
    c.ip4 = base.ip4 ∧ c.cidr4 = base.cidr4 ∧ c.gw4 = base.gw4 ∧ c.ip6 = base.ip6 ∧ c.cidr6 = base.cidr6 ∧
    c.gw6 = base.gw6 ∧ c.extra = base.extra ∧ c.defaultRoute = base.defaultRoute ∧ c.ifName = base.ifName := by
  unfold decorate at h
  cases tm with
  | none => simp only at h; injection h with h; subst h; simp
  | some t =>
    simp only at h
    cases hv : vids.lookup id with
    | none => simp [hv] at h
    | some vid => simp only [hv] at h; injection h with h; subst h; simp

theorem famOK_spec (w : Nat) (ip : Option Nat) (c : Cidr) (h : famOK w ip c = true) (x : Nat) (hx : ip = some x) :
    ∃ addr n g, c = .ok addr n ∧ deriveGateway w addr n = some g ∧ allocGw w ip c = some g := by
  subst hx
  unfold famOK allocGw at h
  unfold allocGw
  cases c with
  | empty => simp at h
  | bad => simp [gatewayOf] at h
  | ok addr n =>
    cases hg : deriveGateway w addr n with
    | none => simp [gatewayOf, hg] at h
    | some g => exact ⟨addr, n, g, rfl, hg, by simp [gatewayOf, hg]⟩

/-- the IPv4 gateway a PodENI NetConf carries is the one derived from the reported subnet; the
    configuration is withheld (nil) when the subnet is missing, unparsable or too small -/
theorem c12_gateway_v4 (tm : Option String) (vids : List (String × Nat)) (a : Alloc) (c : NetConf) (ip : Nat)
    (h : allocToRPC tm vids a = some c) (hip : a.ip4 = some ip) :
    ∃ addr n g, a.cidr4 = .ok addr n ∧ c.cidr4 = .ok addr n ∧ c.ip4 = some ip ∧ c.gw4 = some g ∧
      deriveGateway 32 addr n = some g := by
  unfold allocToRPC at h
  split at h
  · rename_i hok
    simp only [Bool.and_eq_true] at hok
    obtain ⟨addr, n, g, hc, hd, hg⟩ := famOK_spec 32 a.ip4 a.cidr4 hok.1 ip hip
    have hf := decorate_fields _ _ _ _ _ h
    refine ⟨addr, n, g, hc, ?_, ?_, ?_, hd⟩
    · rw [hf.2.1]; simp [baseConf, hip, hc]
    · rw [hf.1]; simp [baseConf, hip]
    · rw [hf.2.2.1]; simpa [baseConf] using hg
  · cases h

/-- hence inside the subnet, with exactly two larger addresses in it (C14) -/
theorem c12_gateway_in_subnet (tm : Option String) (vids : List (String × Nat)) (a : Alloc) (c : NetConf) (ip : Nat)
    (h : allocToRPC tm vids a = some c) (hip : a.ip4 = some ip) :
    ∃ addr n g, c.cidr4 = .ok addr n ∧ c.gw4 = some g ∧
      C14.InSubnet 32 addr n g ∧ C14.InSubnet 32 addr n (g + 2) ∧ ¬ C14.InSubnet 32 addr n (g + 3) := by
  obtain ⟨addr, n, g, _, hc, _, hg, hd⟩ := c12_gateway_v4 tm vids a c ip h hip
  have := C14.c14_gateway_third_from_last 32 addr n g hd
  exact ⟨addr, n, g, hc, hg, this.1, this.2.2.1, this.2.2.2⟩

/-- the gateway differs from the pod address unless the pod was given the reserved third-from-last
    address itself (which the cloud never hands out: environment assumption) -/
theorem c12_gateway_ne_pod (addr n g ip : Nat) (hd : deriveGateway 32 addr n = some g)
    (hres : ip + 2 ≠ subnetLast 32 addr n) : g ≠ ip := by
  unfold deriveGateway ipAtNegIndex at hd
  have hb : Int.toNat (-(Gen.gatewayIndex + 1)) = 2 := by decide
  rw [hb] at hd
  simp only at hd
  split at hd
  · injection hd with hd; omega
  · cases hd

/-! ## the plugin's view -/

/-- **One datapath, determined solely by IP type, trunking and VLAN mode** (the complete table) -/
theorem c12_datapath_table :
    getDataPath .vpcIP false false = .vpcRoute ∧ getDataPath .vpcIP true true = .vpcRoute ∧
    getDataPath .vpcENI false false = .exclusiveENI ∧ getDataPath .vpcENI true false = .exclusiveENI ∧
    getDataPath .vpcENI false true = .vlan ∧ getDataPath .vpcENI true true = .vlan ∧
    getDataPath .eniMultiIP false false = .ipvlan ∧ getDataPath .eniMultiIP true false = .ipvlan ∧
    getDataPath .eniMultiIP false true = .ipvlan ∧ getDataPath .eniMultiIP true true = .vlan := by decide

/-- whatever else differs between two configurations, the datapath only follows the triple -/
theorem c12_datapath_solely (t : IPType) (s : Bool) (argIf1 argIf2 : String) (a b c d a' b' c' d' : Nat) (c1 c2 : NetConf)
    (s1 s2 : Setup) (h1 : parseSetup t s argIf1 a b c d c1 = .ok s1) (h2 : parseSetup t s argIf2 a' b' c' d' c2 = .ok s2)
    (ht : c1.trunk = c2.trunk) : s1.dp = s2.dp := by
  unfold parseSetup at h1 h2
  split at h1 <;> split at h2 <;> simp_all
  rw [← h1, ← h2]

/-- **The plugin recovers exactly what the daemon sent** for a PodENI allocation: it never fails on
    a configuration `ToRPC` produced, the container address is the pod address with the subnet's
    prefix length, the gateway is the derived one, every extra route gets the gateway of its own
    family, limits are the daemon's unless a positive runtime rate (bits/s → bytes/s) overrides them. -/
theorem c12_roundtrip (tm : Option String) (vids : List (String × Nat)) (a : Alloc) (c : NetConf)
    (t : IPType) (s : Bool) (argIf : String) (pi pe ri re : Nat)
    (h : allocToRPC tm vids a = some c) :
    ∃ cfg, parseSetup t s argIf pi pe ri re c = .ok cfg ∧
      (∀ ip addr n, a.ip4 = some ip → a.cidr4 = .ok addr n → cfg.addr4 = some (ip, n) ∧ cfg.gw4 = deriveGateway 32 addr n) ∧
      (∀ ip addr n, a.ip6 = some ip → a.cidr6 = .ok addr n → cfg.addr6 = some (ip, n) ∧ cfg.gw6 = deriveGateway 128 addr n) ∧
      (a.ip4 = none → cfg.addr4 = none ∧ cfg.gw4 = none) ∧
      cfg.routes = a.extra.map (fun (v4, d, n) => (v4, d, n, if v4 then cfg.gw4 else cfg.gw6)) ∧
      cfg.ingress = (if ri > 0 then ri / 8 else pi) ∧ cfg.egress = (if re > 0 then re / 8 else pe) ∧
      cfg.defaultRoute = a.defaultRoute := by
  unfold allocToRPC at h
  split at h
  · rename_i hok
    simp only [Bool.and_eq_true] at hok
    have hf := decorate_fields _ _ _ _ _ h
    have h4 := famOK_spec 32 a.ip4 a.cidr4 hok.1
    have h6 := famOK_spec 128 a.ip6 a.cidr6 hok.2
    have hb4 : ∃ r, buildIPNet c.ip4 c.cidr4 = .ok r ∧
        (∀ ip addr n, a.ip4 = some ip → a.cidr4 = .ok addr n → r = some (ip, n)) ∧ (a.ip4 = none → r = none) := by
      rw [hf.1, hf.2.1]
      cases hi : a.ip4 with
      | none =>
        refine ⟨none, ?_, ?_, ?_⟩
        · simp [baseConf, hi, buildIPNet]
        · intro _ _ _ hh; cases hh
        · intro _; rfl
      | some ip =>
        obtain ⟨addr, n, g, hc, _, _⟩ := h4 ip hi
        refine ⟨some (ip, n), ?_, ?_, ?_⟩
        · simp [baseConf, hi, hc, buildIPNet]
        · intro ip' addr' n' h1 h2; cases h1; rw [hc] at h2; cases h2; rfl
        · intro hh; cases hh
    have hb6 : ∃ r, buildIPNet c.ip6 c.cidr6 = .ok r ∧
        (∀ ip addr n, a.ip6 = some ip → a.cidr6 = .ok addr n → r = some (ip, n)) := by
      rw [hf.2.2.2.1, hf.2.2.2.2.1]
      cases hi : a.ip6 with
      | none =>
        refine ⟨none, ?_, ?_⟩
        · simp [baseConf, hi, buildIPNet]
        · intro _ _ _ hh; cases hh
      | some ip =>
        obtain ⟨addr, n, g, hc, _, _⟩ := h6 ip hi
        refine ⟨some (ip, n), ?_, ?_⟩
        · simp [baseConf, hi, hc, buildIPNet]
        · intro ip' addr' n' h1 h2; cases h1; rw [hc] at h2; cases h2; rfl
    obtain ⟨r4, hr4, hr4a, hr4n⟩ := hb4
    obtain ⟨r6, hr6, hr6a⟩ := hb6
    refine ⟨_, by unfold parseSetup; rw [hr4, hr6], ?_, ?_, ?_, ?_, rfl, rfl, ?_⟩
    · intro ip addr n hi hc
      refine ⟨hr4a ip addr n hi hc, ?_⟩
      show c.gw4 = _
      rw [hf.2.2.1]; simp [baseConf, allocGw, hi, hc, gatewayOf]
    · intro ip addr n hi hc
      refine ⟨hr6a ip addr n hi hc, ?_⟩
      show c.gw6 = _
      rw [hf.2.2.2.2.2.1]; simp [baseConf, allocGw, hi, hc, gatewayOf]
    · intro hn
      refine ⟨hr4n hn, ?_⟩
      show c.gw4 = none
      rw [hf.2.2.1]; simp [baseConf, allocGw, hn]
    · show List.map _ c.extra = _
      rw [hf.2.2.2.2.2.2.1]; rfl
    · show c.defaultRoute = _
      rw [hf.2.2.2.2.2.2.2.1]; rfl
  · cases h

/-! ## non-vacuity -/
example : defaultForNetConf [⟨"eth1", false⟩, ⟨"eth0", false⟩] = .ok [⟨"eth1", false⟩, ⟨"eth0", true⟩] := by rfl
example : defaultForNetConf [⟨"eth0", true⟩, ⟨"eth1", true⟩] = .error .dupDefault := by rfl
example : defaultForNetConf [⟨"eth1", true⟩] = .error .noDefaultIf := by rfl

/-- CRD mode: the interface a result describes (subnet, gateway, MAC) is in use and holds a valid address bound to
    the pod — not merely some interface of the node -/
theorem c12_crd_result_describes_owner (enis : List CrdEni) (pod id : String) (h : crdOwner enis pod = some id) :
    ∃ e ∈ enis, e.id = id ∧ e.inUse = true ∧ ∃ a ∈ e.ips, a.2.1 = true ∧ a.2.2 = pod := by
  unfold crdOwner at h
  cases hf : enis.find? (fun e => e.inUse && e.ips.any fun a => a.2.1 && a.2.2 == pod) with
  | none => rw [hf] at h; cases h
  | some e =>
    rw [hf] at h
    simp only [Option.map_some, Option.some.injEq] at h
    have hm := List.mem_of_find?_eq_some hf
    have hp := List.find?_some hf
    simp only [Bool.and_eq_true, List.any_eq_true, beq_iff_eq] at hp
    obtain ⟨hu, a, ha, hv, hpod⟩ := hp
    exact ⟨e, hm, h, hu, a, ha, hv, hpod⟩

/-- a local result from an interface listed at start-up carries a gateway and a subnet for every enabled family: the IPv4
    ones always, the IPv6 ones exactly on an IPv6 node -/
theorem c12_startup_result_has_gateway (v6 : Bool) (k : Nat) :
    (metaNetConf v6 k).gw6.isSome = v6 ∧ (metaNetConf v6 k).cidr6.isSome = v6 := by
  cases v6 <;> simp [metaNetConf]

example : metaNetConf true 0 = { gw4 := "10.0.0.253", gw6 := some "fd00::fffd", cidr4 := "10.0.0.0/24", cidr6 := some "fd00::/64" } := by decide
example : (metaNetConf true 171).gw6 = some "fd00:ab::fffd" ∧ (metaNetConf false 171).gw6 = none := by decide

end Terway.Props.C12
