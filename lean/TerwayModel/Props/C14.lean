import TerwayModel.Model.Net
/-
C14 — Address classifiers, derived gateways and interface names are exact.
Property theorems only.  Everything here is about `Model/Net.lean`; the tie to the Go code is
the correspondence run of `vh C14` plus the regenerated constants in `Generated/Consts.lean`.
-/
namespace Terway.Props.C14
open Terway.Net

/-! ## Specification side (independent of the code) -/

/-- "address `a` lies in `ip/n`": the first `n` bits, counted from the most significant, agree -/
def PrefixEq32 (a ip : BitVec 32) (n : Nat) : Prop := ∀ j, j < n → a.getMsbD j = ip.getMsbD j

/-- bit `j` (from the most significant) of a four-word IPv6 address -/
def bit6 (a : Addr6) (j : Nat) : Bool := (a.getD (j / 32) 0#32).getMsbD (j % 32)
def PrefixEq6 (a ip : Addr6) (n : Nat) : Prop := ∀ j, j < n → bit6 a j = bit6 ip j

/-- header layout (RFC 791 / RFC 8200): byte offset of source / destination address -/
def ipv4SrcOff : Nat := 12
def ipv4DstOff : Nat := 16
def ipv6SrcOff : Nat := 8

/-- the 32-bit word an IPv4 packet carries at byte offset `off` (only the two address words matter) -/
def pktWord4 (src dst : BitVec 32) (off : Nat) : Option (BitVec 32) :=
  if off = ipv4SrcOff then some src else if off = ipv4DstOff then some dst else none

/-- the word of the IPv6 source address found at byte offset `off` -/
def pktWord6 (src : Addr6) (off : Nat) : Option (BitVec 32) :=
  if ipv6SrcOff ≤ off ∧ (off - ipv6SrcOff) % 4 = 0 ∧ (off - ipv6SrcOff) / 4 < 4
  then some (src.getD ((off - ipv6SrcOff) / 4) 0#32) else none

def keyMatchesPkt4 (k : Key) (src dst : BitVec 32) : Prop :=
  ∃ w, pktWord4 src dst k.off = some w ∧ k.matches w = true
def keysMatchPkt6 (ks : List Key) (src : Addr6) : Prop :=
  ∀ k ∈ ks, ∃ w, pktWord6 src k.off = some w ∧ k.matches w = true

/-! ## helper lemma (bit extensionality, kernel only) -/

theorem and_mask_eq_iff {w : Nat} (a ip : BitVec w) (n : Nat) (hn : n ≤ w) :
    (a &&& (BitVec.allOnes w <<< (w - n)) = ip &&& (BitVec.allOnes w <<< (w - n))) ↔
      ∀ j, j < n → a.getMsbD j = ip.getMsbD j := by
  constructor
  · intro h j hj
    have := congrArg (fun x => x.getLsbD (w - 1 - j)) h
    simp only [BitVec.getLsbD_and, BitVec.getLsbD_shiftLeft, BitVec.getLsbD_allOnes] at this
    have h1 : w - 1 - j < w := by omega
    have h2 : ¬ (w - 1 - j < w - n) := by omega
    have h3 : w - 1 - j - (w - n) < w := by omega
    simp only [h1, h2, h3, decide_true, decide_false, Bool.not_false, Bool.and_true] at this
    rw [BitVec.getMsbD_eq_getLsbD, BitVec.getMsbD_eq_getLsbD]
    simp [this]
  · intro h
    apply BitVec.eq_of_getLsbD_eq
    intro i hi
    simp only [BitVec.getLsbD_and, BitVec.getLsbD_shiftLeft, BitVec.getLsbD_allOnes]
    by_cases hk : i < w - n
    · simp [hk]
    · have := h (w - 1 - i) (by omega)
      rw [BitVec.getMsbD_eq_getLsbD, BitVec.getMsbD_eq_getLsbD] at this
      have e : w - 1 - (w - 1 - i) = i := by omega
      have h1 : w - 1 - i < w := by omega
      rw [e] at this
      simp only [h1, decide_true, Bool.true_and] at this
      simp [this]

theorem matches_iff (ip a : BitVec 32) (n : Nat) (hn : n ≤ 32) (off : Nat) :
    ({ off := off, mask := mask32 n, val := ip &&& mask32 n } : Key).matches a = true ↔ PrefixEq32 a ip n := by
  unfold Key.matches mask32 PrefixEq32
  simp only [beq_iff_eq]
  exact and_mask_eq_iff a ip n hn

/-! ## C14 clause 1: classifier keys are exact -/

/-- IPv4 source key: a packet matches exactly when its source address lies in the CIDR -/
theorem c14_u32_v4_src (ip src dst : BitVec 32) (n : Nat) (hn : n ≤ 32) :
    keyMatchesPkt4 (u32v4Src ip n) src dst ↔ PrefixEq32 src ip n := by
  unfold keyMatchesPkt4 pktWord4 u32v4Src
  simp only [Gen.u32SrcOff4, ipv4SrcOff, if_true]
  constructor
  · rintro ⟨w, hw, hm⟩
    cases hw
    exact (matches_iff ip src n hn 12).mp hm
  · intro h
    exact ⟨src, rfl, (matches_iff ip src n hn 12).mpr h⟩

/-- IPv4 destination key (`dstIPRule`): matches exactly when the destination lies in the CIDR -/
theorem c14_u32_v4_dst (ip src dst : BitVec 32) (n : Nat) (hn : n ≤ 32) :
    keyMatchesPkt4 (u32v4Dst ip n) src dst ↔ PrefixEq32 dst ip n := by
  unfold keyMatchesPkt4 pktWord4 u32v4Dst
  simp only [Gen.u32DstOff4, ipv4SrcOff, ipv4DstOff]
  constructor
  · rintro ⟨w, hw, hm⟩
    simp at hw
    cases hw
    exact (matches_iff ip dst n hn 16).mp hm
  · intro h
    exact ⟨dst, by simp, (matches_iff ip dst n hn 16).mpr h⟩

/-- **A filter found installed and kept classifies exactly the CIDR it is kept for**: `setupFilters` keeps an installed filter
    only when its key is the rule's own, so what the kept filter matches is the destination's membership in `ip/n` -/
theorem c14_kept_filter_exact (ip ip' src dst : BitVec 32) (n n' : Nat) (hn : n ≤ 32) (hk : keepsInstalled ip n ip' n' = true) :
    keyMatchesPkt4 (u32v4Dst ip' n') src dst ↔ PrefixEq32 dst ip n := by
  unfold keepsInstalled at hk
  rw [of_decide_eq_true hk]
  exact c14_u32_v4_dst ip src dst n hn

example : keepsInstalled 0xa9fe0000#32 16 0xa9fe0000#32 16 = true ∧ keepsInstalled 0xa9fe0000#32 24 0xa9fe0000#32 16 = false := by decide

theorem mask32_zero_matches (n : Nat) (h : mask32 n = 0#32) (a ip : BitVec 32) :
    a &&& mask32 n = ip &&& mask32 n := by simp [h]

/-- IPv6 source keys: the conjunction of the emitted keys holds exactly when the 128-bit source
    address lies in the prefix.  `n = 0` gives no key at all and matches everything. -/
theorem c14_u32_v6_src (ip src : Addr6) (n : Nat) (hn : n ≤ 128) :
    keysMatchPkt6 (u32v6Src ip n) src ↔ PrefixEq6 src ip n := by
  have words : keysMatchPkt6 (u32v6Src ip n) src ↔
      ∀ i, i < 4 → src.getD i 0#32 &&& mask32 (wordPrefix n i) = ip.getD i 0#32 &&& mask32 (wordPrefix n i) := by
    unfold keysMatchPkt6 u32v6Src
    constructor
    · intro h i hi
      by_cases hm : mask32 (wordPrefix n i) = 0#32
      · exact mask32_zero_matches _ hm _ _
      · have := h { off := Gen.u32SrcOff6Base + Gen.u32SrcOff6Step * i, mask := mask32 (wordPrefix n i),
                    val := ip.getD i 0#32 &&& mask32 (wordPrefix n i) }
          (by simp only [List.mem_filterMap, List.mem_range]; exact ⟨i, hi, by simp [hm]⟩)
        obtain ⟨w, hw, hmm⟩ := this
        simp only [pktWord6, ipv6SrcOff, Gen.u32SrcOff6Base, Gen.u32SrcOff6Step] at hw
        have e1 : (8 + 4 * i - 8) / 4 = i := by omega
        have e2 : (8 + 4 * i - 8) % 4 = 0 := by omega
        simp only [e1, e2, hi] at hw
        simp at hw
        subst hw
        simpa [Key.matches] using hmm
    · intro h k hk
      simp only [List.mem_filterMap, List.mem_range] at hk
      obtain ⟨i, hi, hk⟩ := hk
      by_cases hm : mask32 (wordPrefix n i) = 0#32
      · simp [hm] at hk
      · simp only [hm, ne_eq, not_false_eq_true, if_true, Option.some.injEq] at hk
        subst hk
        refine ⟨src.getD i 0#32, ?_, ?_⟩
        · simp only [pktWord6, ipv6SrcOff, Gen.u32SrcOff6Base, Gen.u32SrcOff6Step]
          have e1 : (8 + 4 * i - 8) / 4 = i := by omega
          have e2 : (8 + 4 * i - 8) % 4 = 0 := by omega
          simp [hi]
        · simpa [Key.matches] using h i hi
  rw [words]
  unfold PrefixEq6 bit6
  constructor
  · intro h j hj
    have hw : wordPrefix n (j / 32) ≤ 32 := by unfold wordPrefix; omega
    have := (and_mask_eq_iff (src.getD (j/32) 0#32) (ip.getD (j/32) 0#32) (wordPrefix n (j/32)) hw).mp
      (h (j/32) (by omega)) (j % 32) (by unfold wordPrefix; omega)
    exact this
  · intro h i hi
    have hw : wordPrefix n i ≤ 32 := by unfold wordPrefix; omega
    apply (and_mask_eq_iff (src.getD i 0#32) (ip.getD i 0#32) (wordPrefix n i) hw).mpr
    intro j hj
    have hj' : j < 32 ∧ j < n - 32 * i := by unfold wordPrefix at hj; omega
    have := h (32 * i + j) (by omega)
    have e1 : (32 * i + j) / 32 = i := by omega
    have e2 : (32 * i + j) % 32 = j := by omega
    rw [e1, e2] at this
    exact this

/-- prefix length 0 emits no IPv6 key (and `FilterBySrcIP` then applies no filter) -/
theorem c14_u32_v6_zero (ip : Addr6) : u32v6Src ip 0 = [] := by
  simp [u32v6Src, wordPrefix, mask32]

/-! ## C14 clause 2: the derived gateway -/

/-- `x` lies in the subnet of `addr/n` over `w`-bit addresses: same network part -/
def InSubnet (w addr n x : Nat) : Prop := x / 2 ^ (w - n) = addr / 2 ^ (w - n)

theorem inSubnet_iff_range (w addr n x : Nat) :
    InSubnet w addr n x ↔ subnetFirst w addr n ≤ x ∧ x ≤ subnetLast w addr n := by
  unfold InSubnet subnetLast subnetFirst
  have hp : 0 < 2 ^ (w - n) := Nat.two_pow_pos _
  generalize 2 ^ (w - n) = P at hp
  constructor
  · intro h
    have h1 := Nat.div_add_mod x P
    have h2 := Nat.mod_lt x hp
    rw [h] at h1
    have : P * (addr / P) = addr / P * P := Nat.mul_comm _ _
    omega
  · rintro ⟨h1, h2⟩
    have : addr / P * P ≤ x := h1
    have h3 : x < (addr / P + 1) * P := by rw [Nat.add_mul]; omega
    apply Nat.le_antisymm
    · exact Nat.le_of_lt_succ ((Nat.div_lt_iff_lt_mul hp).mpr h3)
    · exact (Nat.le_div_iff_mul_le hp).mpr h1

/-- the derived gateway is the third-from-last address of the subnet: it is inside, exactly two
    larger addresses are inside, and the next one is outside -/
theorem c14_gateway_third_from_last (w addr n g : Nat) (h : deriveGateway w addr n = some g) :
    InSubnet w addr n g ∧ InSubnet w addr n (g + 1) ∧ InSubnet w addr n (g + 2) ∧
      ¬ InSubnet w addr n (g + 3) := by
  simp only [inSubnet_iff_range]
  unfold deriveGateway ipAtNegIndex at h
  have hb : Int.toNat (-(Gen.gatewayIndex + 1)) = 2 := by decide
  rw [hb] at h
  simp only at h
  split at h
  · injection h with h
    omega
  · cases h

/-- it is empty exactly when the subnet has fewer than three addresses -/
theorem c14_gateway_none_iff (w addr n : Nat) :
    deriveGateway w addr n = none ↔ 2 ^ (w - n) < 3 := by
  unfold deriveGateway ipAtNegIndex subnetLast
  have hb : Int.toNat (-(Gen.gatewayIndex + 1)) = 2 := by decide
  rw [hb]
  have hp : 0 < 2 ^ (w - n) := Nat.two_pow_pos _
  simp only
  split <;> simp <;> omega

/-- the gateway depends only on the subnet, not on which address of it was given -/
theorem c14_gateway_subnet_only (w a b n : Nat) (h : InSubnet w a n b) :
    deriveGateway w b n = deriveGateway w a n := by
  unfold InSubnet at h
  unfold deriveGateway ipAtNegIndex subnetLast subnetFirst
  rw [h]

/-! ## C14 clause 3: routing-table numbers -/

theorem c14_table_injective (i j : Nat) (h : tableID i = tableID j) : i = j := by
  unfold tableID at h; omega

/-- never collides with the kernel's reserved tables (default 253, main 254, local 255, unspec 0) -/
theorem c14_table_not_reserved (i : Nat) : 255 < tableID i := by
  unfold tableID Gen.routeTableBase; omega

/-! ## C14 clause 4: host-side interface names -/

theorem c14_veth_length (pfx : List Char) (ns name ifn : List UInt8) :
    (vethName pfx ns name ifn).length = pfx.length + 11 := by
  unfold vethName
  simp [Sha1.hex_length, Gen.vethHashLen]

/-- at most 15 bytes (IFNAMSIZ − 1) exactly when the prefix has at most four (ASCII) characters -/
theorem c14_veth_fits (pfx : List Char) (ns name ifn : List UInt8) :
    (vethName pfx ns name ifn).length ≤ 15 ↔ pfx.length ≤ 4 := by
  rw [c14_veth_length]; omega

/-- `eth0` and the empty interface name are deliberately the same interface -/
theorem c14_veth_eth0 (pfx : List Char) (ns name : List UInt8) :
    vethName pfx ns name eth0 = vethName pfx ns name [] := by
  simp [vethName, vethPreimage, normIf]

/-- for one pod, different (normalised) interface names give different hash inputs; the names can
    then only coincide on a collision of SHA-1 truncated to 44 bits (cryptographic assumption,
    see trusted base) -/
theorem c14_veth_preimage_injective (ns name i1 i2 : List UInt8)
    (h : vethPreimage ns name i1 = vethPreimage ns name i2) : normIf i1 = normIf i2 := by
  unfold vethPreimage at h
  exact List.append_cancel_left h

/-! ## non-vacuity -/

example : PrefixEq32 0x0a010203#32 0x0a010000#32 16 ∧ ¬ PrefixEq32 0x0a020203#32 0x0a010000#32 16 := by
  constructor
  · rw [← matches_iff 0x0a010000#32 _ 16 (by decide) 12]; decide
  · rw [← matches_iff 0x0a010000#32 _ 16 (by decide) 12]; decide
example : deriveGateway 32 0xC0A80100 24 = some 0xC0A801FD := by decide
example : deriveGateway 32 0xC0A80100 31 = none := by decide
example : deriveGateway 32 0 8 = some 0x00FFFFFD := by decide
example : (u32v6Src [0xfd000000#32, 0#32, 0#32, 1#32] 64).length = 2 := by decide

end Terway.Props.C14
