import TerwayModel.Model.Ipam
/-
C02 — cluster IPAM binds each IP to one pod and each pod to one ENI.
`assignOK` (Model/Ipam.lean) is the relation between the per-node record before and after
`assignIPFromLocalPool`; every outcome of the real function must satisfy it (correspondence check), and
everything it admits satisfies the statements below.
-/
namespace Terway.Props.C02
open Terway.Ipam

/-- an address is bound to at most one pod: the record has one `podID` per address entry, and the assignment step
    never moves a binding from one pod to another -/
theorem c02_binding_never_moves (erdmaOn : Bool) (pods : List Pod) (pre post : Record) (e : Eni) (x y : Entry)
    (h : entryChangeOK erdmaOn pods pre post e x y = true) : x.pod = y.pod ∨ x.pod = "" := by
  unfold entryChangeOK at h
  simp only [Bool.and_eq_true, beq_iff_eq] at h
  obtain ⟨_, hc⟩ := h
  by_cases h1 : x.pod = y.pod
  · exact Or.inl h1
  · rw [if_neg h1] at hc
    by_cases h2 : x.pod = ""
    · exact Or.inr h2
    · rw [if_neg h2] at hc; cases hc

/-- a new binding goes to a pod of the node that needs an address of that family and has none; the address is
    exactly the one the pod already reports (re-adoption) or — when it reports none — a valid address, bound to
    nobody, on an interface that is in use, RDMA interfaces going to RDMA pods only (and other pods never getting
    them when RDMA is enabled); an IPv6 address comes from the interface of the pod's IPv4 address -/
theorem c02_new_binding_sound (erdmaOn : Bool) (pods : List Pod) (pre post : Record) (e : Eni) (x y : Entry)
    (h : entryChangeOK erdmaOn pods pre post e x y = true) (hn : x.pod = "") (hy : y.pod ≠ "") :
    ∃ p, podOf pods y.pod = some p ∧ y.uid = p.uid ∧ p.needs x.six = true ∧ boundTo pre p.id x.six = [] ∧
      y.ip = x.ip ∧ y.status = x.status ∧
      (match p.reported x.six with
       | some ip => ip = x.ip
       | none => e.status = .inUse ∧ x.status = .valid ∧ (if p.erdma then e.hp = true else ¬ (erdmaOn = true ∧ e.hp = true)) ∧
                 (x.six = true → v6Follows post p e = true)) := by
  unfold entryChangeOK at h
  simp only [Bool.and_eq_true, beq_iff_eq] at h
  obtain ⟨⟨⟨e1, e2⟩, _⟩, hc⟩ := h
  have h1 : ¬ x.pod = y.pod := by rw [hn]; exact fun e => hy e.symm
  rw [if_neg h1, if_pos hn] at hc
  cases hp : podOf pods y.pod with
  | none => rw [hp] at hc; cases hc
  | some p =>
    rw [hp] at hc
    simp only [Bool.and_eq_true, beq_iff_eq, List.isEmpty_iff] at hc
    obtain ⟨⟨⟨hu, hneed⟩, hemp⟩, hrep⟩ := hc
    refine ⟨p, rfl, hu, hneed, hemp, e1.symm, e2.symm, ?_⟩
    cases hr : p.reported x.six with
    | some ip => rw [hr] at hrep; simpa using hrep
    | none =>
      rw [hr] at hrep
      simp only [Bool.and_eq_true, Bool.or_eq_true, Bool.not_eq_true'] at hrep
      obtain ⟨hel, hv6⟩ := hrep
      unfold eligible at hel
      simp only [Bool.and_eq_true, beq_iff_eq] at hel
      obtain ⟨⟨⟨s1, s2⟩, _⟩, s4⟩ := hel
      refine ⟨s1, s2, ?_, ?_⟩
      · by_cases hpe : p.erdma = true
        · simp only [hpe, if_true] at s4 ⊢; exact s4
        · simp only [hpe, Bool.false_eq_true, if_false] at s4 ⊢
          intro hc
          simp only [Bool.not_eq_true', Bool.and_eq_false_iff] at s4
          rcases s4 with q | q
          · rw [q] at hc; cases hc.1
          · rw [q] at hc; cases hc.2
      · intro h6
        rcases hv6 with h | h
        · rw [h6] at h; cases h
        · exact h

/-- a pod is bound to at most one address of each family: the step never gives a second one (`max 1 …` covers
    records taken over in a malformed state, which it does not make worse) -/
theorem c02_one_address_per_family (erdmaOn : Bool) (pods : List Pod) (pre post : Record) (h : assignOK erdmaOn pods pre post = true)
    (p : Pod) (hp : p ∈ pods) (six : Bool) : (boundTo post p.id six).length ≤ max 1 (boundTo pre p.id six).length := by
  unfold assignOK at h
  simp only [Bool.and_eq_true] at h
  have := List.all_eq_true.mp h.1.2 p hp
  have := List.all_eq_true.mp this six (by cases six <;> simp)
  simpa using this

/-- in particular, from a record in which every pod has at most one address per family, so has the result -/
theorem c02_wellformed_preserved (erdmaOn : Bool) (pods : List Pod) (pre post : Record) (h : assignOK erdmaOn pods pre post = true)
    (hw : ∀ p ∈ pods, ∀ six, (boundTo pre p.id six).length ≤ 1) : ∀ p ∈ pods, ∀ six, (boundTo post p.id six).length ≤ 1 := by
  intro p hp six
  have := c02_one_address_per_family erdmaOn pods pre post h p hp six
  have := hw p hp six
  omega

/-- the step changes bindings only: no address appears, disappears or changes status -/
theorem c02_entries_kept (erdmaOn : Bool) (pods : List Pod) (pre post : Record) (e : Eni) (x y : Entry)
    (h : entryChangeOK erdmaOn pods pre post e x y = true) : x.ip = y.ip ∧ x.status = y.status ∧ x.primary = y.primary := by
  unfold entryChangeOK at h
  simp only [Bool.and_eq_true, beq_iff_eq] at h
  exact ⟨h.1.1.1, h.1.1.2, h.1.2⟩

/-! ## non-vacuity -/

def x1 : Entry := { ip := 101, status := .valid, pod := "", uid := "", primary := true }
def x2 : Entry := { ip := 1000101, status := .valid, pod := "", uid := "", primary := false }
def y1 : Entry := { ip := 101, status := .valid, pod := "p1", uid := "u1", primary := true }
def y2 : Entry := { ip := 1000101, status := .valid, pod := "p1", uid := "u1", primary := false }
def eA : Eni := { id := "eni-1", status := .inUse, typ := .secondary, hp := false, ips := [x1, x2] }
def eB : Eni := { id := "eni-1", status := .inUse, typ := .secondary, hp := false, ips := [y1, y2] }
def p1 : Pod := { id := "p1", uid := "u1", need4 := true, need6 := true, erdma := false, ip4 := none, ip6 := none }
def p1v4 : Pod := { id := "p1", uid := "u1", need4 := true, need6 := false, erdma := false, ip4 := none, ip6 := none }

example : assignOK false [p1] [eA] [eB] = true := by unfold assignOK; decide
/-- leaving the pod without address although one is free is not an admitted outcome in single stack -/
example : assignOK false [p1v4] [eA] [eA] = false := by unfold assignOK; decide

/-! ## RDMA pods only: how a pod is classified -/

/-- a pod is asked an RDMA interface for only if RDMA is enabled on the node and one of ITS OWN containers has a
    non-zero RDMA limit — whatever other pods are listed before or after it -/
theorem c02_rdma_only_for_rdma_pods (en4 en6 erdmaOn : Bool) (before after : List RawPod) (p : RawPod)
    (r : String × Bool × Bool × Bool) (hr : r ∈ getPods en4 en6 erdmaOn (before ++ p :: after)) (hn : r.1 = p.name)
    (huniq : ∀ q ∈ before ++ after, q.name ≠ p.name) :
    r.2.2.2 = (erdmaOn && (p.erdmaInit || p.erdmaMain)) := by
  unfold getPods at hr
  simp only [List.filterMap_append, List.filterMap_cons, List.mem_append] at hr
  have other : ∀ l : List RawPod, (∀ q ∈ l, q.name ≠ p.name) → r ∉ l.filterMap (classify en4 en6 erdmaOn) := by
    intro l hl hm
    obtain ⟨q, hq, hc⟩ := List.mem_filterMap.mp hm
    unfold classify at hc
    split at hc
    · cases hc
    · simp only [Option.some.injEq] at hc
      exact hl q hq (by rw [← hn, ← hc])
  rcases hr with h | h
  · exact absurd h (other before fun q hq => huniq q (List.mem_append_left _ hq))
  · cases hc : classify en4 en6 erdmaOn p with
    | none =>
      rw [hc] at h
      exact absurd h (other after fun q hq => huniq q (List.mem_append_right _ hq))
    | some v =>
      rw [hc] at h
      rcases List.mem_cons.mp h with h | h
      · unfold classify at hc
        split at hc
        · cases hc
        · simp only [Option.some.injEq] at hc
          rw [h, ← hc]
      · exact absurd h (other after fun q hq => huniq q (List.mem_append_right _ hq))

/-! ## cloud drift: the full synchronisation's merge -/

/-- an address known to both the record and the cloud keeps its recorded entry — in particular an address bound to a
    pod stays bound and valid whatever state the cloud reports it in -/
theorem c02_merge_keeps_known (remote current : List Entry) (x : Entry) (hx : x ∈ current)
    (hr : ∃ r ∈ remote, r.ip = x.ip) : x ∈ mergeEntries remote current := by
  unfold mergeEntries
  refine List.mem_append_left _ (List.mem_filter.mpr ⟨hx, ?_⟩)
  obtain ⟨r, hr, hip⟩ := hr
  exact List.any_eq_true.mpr ⟨r, hr, by simp [hip]⟩

/-- after the merge the record holds exactly the addresses the cloud reports -/
theorem c02_merge_ips (remote current : List Entry) (ip : Nat) :
    (∃ x ∈ mergeEntries remote current, x.ip = ip) ↔ (∃ r ∈ remote, r.ip = ip) := by
  unfold mergeEntries
  constructor
  · rintro ⟨x, hx, rfl⟩
    rcases List.mem_append.mp hx with h | h
    · obtain ⟨_, hany⟩ := List.mem_filter.mp h
      obtain ⟨r, hr, hip⟩ := List.any_eq_true.mp hany
      exact ⟨r, hr, by simpa using hip⟩
    · exact ⟨x, (List.mem_filter.mp h).1, rfl⟩
  · rintro ⟨r, hr, rfl⟩
    by_cases hc : current.any (·.ip == r.ip) = true
    · obtain ⟨x, hx, hip⟩ := List.any_eq_true.mp hc
      refine ⟨x, List.mem_append_left _ (List.mem_filter.mpr ⟨hx, List.any_eq_true.mpr ⟨r, hr, ?_⟩⟩), by simpa using hip⟩
      have : x.ip = r.ip := by simpa using hip
      simp [this]
    · exact ⟨r, List.mem_append_right _ (List.mem_filter.mpr ⟨hr, by simpa using hc⟩), rfl⟩

/-- the merge binds nothing: an entry of the result is a recorded entry or is what the cloud reported -/
theorem c02_merge_no_new_binding (remote current : List Entry) (x : Entry) (hx : x ∈ mergeEntries remote current) :
    x ∈ current ∨ x ∈ remote := by
  unfold mergeEntries at hx
  rcases List.mem_append.mp hx with h | h
  · exact .inl (List.mem_filter.mp h).1
  · exact .inr (List.mem_filter.mp h).1

example : mergeEntries [{ ip := 1, status := .deleting, pod := "", uid := "", primary := false }, { ip := 3, status := .valid, pod := "", uid := "", primary := false }]
    [{ ip := 1, status := .valid, pod := "p", uid := "u", primary := false }, { ip := 2, status := .valid, pod := "", uid := "", primary := false }] =
    [{ ip := 1, status := .valid, pod := "p", uid := "u", primary := false }, { ip := 3, status := .valid, pod := "", uid := "", primary := false }] := by decide

end Terway.Props.C02
