import TerwayModel.Proofs.Pool
/-
C01 — a node never hands the same IP to two live pods.
Model: `TerwayModel/Model/Pool.lean` (one transition = one lock region of `eni.Local`); invariant:
`TerwayModel/Proofs/Pool.lean`.
-/
namespace Terway.Props.C01
open Terway.Pool

/-- after ANY interleaving of lock regions (request path, reply goroutines, per-request workers, factory
    worker, dispose worker, balancer, sync) and ANY results of the cloud calls, from a fresh pool:
    every address has one entry (hence one owner), nothing marked for unassignment is held, the addresses
    of a reply on its way are bound to the pod it goes to, and tracked + asked-for fits the per-ENI limit -/
theorem c01_invariant_all_interleavings (cfg : Cfg) (n : Nat) (hb : cfg.batch ≤ cfg.cap) (evs : List Ev) (p : Pool)
    (hr : (Pool.init cfg n).run evs = some p) : p.Inv :=
  ((Pool.Inv.init cfg n).run hb evs hr).1

/-- an address has one entry on its interface: two pods cannot both be its owner -/
theorem c01_one_owner_per_address (p : Pool) (h : p.Inv) (i : Nat) (a b : IP) (ha : a ∈ (p.slot i).ips) (hb : b ∈ (p.slot i).ips)
    (e : a.ip = b.ip) : a.owner = b.owner := by
  rw [(h.slotOK i).keys.eq ha hb e]

/-- a request served at once is served with entries of that interface that are the pod's own or valid and
    held by nobody -/
theorem c01_direct_serves_own_or_free (p p' : Pool) (h : p.Inv) (i : Nat) (r : Req) (pin : String) (pick : List IP)
    (hs : p.step (.allocate i r pin (.direct pick)) = some p') :
    ∀ a ∈ pick, a ∈ (p.slot i).ips ∧ a.st ≠ .deleting ∧ (a.owner = some r.pod ∨ (a.owner = none ∧ a.st = .valid)) := by
  simp only [Pool.step] at hs
  obtain ⟨hc, _⟩ := ite_some_eq hs
  simp only [Bool.and_eq_true] at hc
  have hpk := allocOutcome_direct hc.1
  intro a ha
  have hp := List.all_eq_true.mp hpk a ha
  have h1 := peekOK_not_deleting (h.slotOK i).del hp
  refine ⟨h1.1, h1.2.1, ?_⟩
  unfold peekOK at hp
  simp only [Bool.and_eq_true, decide_eq_true_eq, beq_iff_eq] at hp
  obtain ⟨_, hcnd⟩ := hp
  split at hcnd
  · left; simpa using hcnd
  · right
    simp only [IP.allocatable, IP.inUse, Bool.and_eq_true, beq_iff_eq, Bool.not_eq_true', Option.isSome_eq_false_iff,
      Option.isNone_iff_eq_none] at hcnd
    exact ⟨hcnd.2, hcnd.1⟩

/-- the same for a request that had to wait for the cloud -/
theorem c01_worker_serves_own_or_free (p p' : Pool) (h : p.Inv) (i r : Nat) (pick : List IP) (d : Bool)
    (hs : p.step (.workerServe i r pick d) = some p') :
    ∃ rq, p.req? r = some rq ∧ ∀ a ∈ pick, a ∈ (p.slot i).ips ∧ a.st ≠ .deleting ∧ (a.owner = some rq.pod ∨ a.owner = none) := by
  simp only [Pool.step] at hs
  cases hrq : p.req? r with
  | none => rw [hrq] at hs; cases hs
  | some rq =>
    rw [hrq] at hs
    simp only at hs
    obtain ⟨hc, _⟩ := ite_some_eq hs
    simp only [Bool.and_eq_true] at hc
    refine ⟨rq, rfl, ?_⟩
    intro a ha
    exact peekOK_not_deleting (h.slotOK i).del (List.all_eq_true.mp hc.2 a ha)

/-- a repeated request for a pod that holds an address of a family on the interface is served with that
    address, not with another one -/
theorem c01_repeat_served_with_held (l : List IP) (pod : String) (six : Bool) (a held : IP)
    (hp : pod ≠ "") (hh : held ∈ l) (hf : held.v6 = six) (ho : held.owner = some pod) (hk : peekOK l pod six a = true) :
    a.owner = some pod := by
  unfold peekOK at hk
  simp only [Bool.and_eq_true, decide_eq_true_eq, beq_iff_eq] at hk
  obtain ⟨_, hc⟩ := hk
  have hany : (fam six l).any (·.owner == some pod) = true := by
    apply List.any_eq_true.mpr
    exact ⟨held, by simp [fam, hh, hf], by simp [ho]⟩
  rw [if_pos ⟨hp, hany⟩] at hc
  simpa using hc

/-- between `Local.Allocate` binding the addresses and the reply being handed over, no other request can take
    them: they stay bound to the pod the reply goes to -/
theorem c01_reply_addresses_stay_bound (p : Pool) (h : p.Inv) (c : Pending) (hc : c ∈ p.commits) :
    ∀ ip ∈ c.pick, ∃ a ∈ (p.slot c.slot).ips, a.ip = ip ∧ a.owner = some c.pod :=
  h.commits c hc

/-- an address the periodic sync has seen removed from the cloud is no longer valid, hence never offered to a
    pod that does not already hold it -/
theorem c01_removed_address_not_offered (l : List IP) (remote : List Nat) (pod : String) (six : Bool) (a : IP)
    (ha : a ∈ syncIPs l remote) (hr : a.ip ∉ remote) (hk : peekOK (syncIPs l remote) pod six a = true) : a.owner = some pod := by
  have hnv : a.st ≠ .valid := by
    rw [syncIPs_eq] at ha
    obtain ⟨b, _, rfl⟩ := List.mem_map.mp ha
    by_cases c1 : b.st = .valid ∧ b.ip ∉ remote
    · rw [if_pos c1]; simp
    · rw [if_neg c1] at hr ⊢
      intro hv; exact c1 ⟨hv, hr⟩
  unfold peekOK at hk
  simp only [Bool.and_eq_true, decide_eq_true_eq, beq_iff_eq] at hk
  obtain ⟨_, hc⟩ := hk
  split at hc
  · simpa using hc
  · simp only [IP.allocatable, Bool.and_eq_true, beq_iff_eq] at hc
    exact absurd hc.1 hnv

/-- an address the dispose worker has been given (marked for unassignment) is never offered either -/
theorem c01_deleting_address_not_offered (p : Pool) (h : p.Inv) (i : Nat) (pod : String) (six : Bool) (a : IP)
    (hk : peekOK (p.slot i).ips pod six a = true) : a.st ≠ .deleting :=
  (peekOK_not_deleting (h.slotOK i).del hk).2.1

/-! ## non-vacuity: a concrete interleaving the model accepts -/

def cfg0 : Cfg := { cap := 2, batch := 1, en4 := true, en6 := false }
def r1 : Req := { id := 1, pod := "p1", nocache := false }

example : ((Pool.init cfg0 1).run
    [.allocate 0 r1 "" .queued, .faPlanned 0,
     .faCreated 0 1 0 { eni := some "eni-1", primary := 101, v4 := [101], v6 := [], err := none },
     .workerServe 0 1 [{ ip := 101, owner := none, st := .valid, primary := true }] true]).map
      (fun p => (p.slot 0).ips.map (·.owner)) = some [some "p1"] := by decide

end Terway.Props.C01
