import TerwayModel.Model.Ipam
import TerwayModel.Proofs.Daemon
import TerwayModel.Proofs.Agent
/-
C03 — an address is reclaimed only after the pod is gone and its teardown confirmed.
Controller side: `release` (releasePodNotFound), `trimEniOK` (releaseUnUsedIP), `assignOK` in `Model/Ipam.lean`.
Node-agent side: the DEL path of the daemon model (`Model/Daemon.lean`).
-/
namespace Terway.Props.C03
open Terway.Ipam

/-- an address is unbound by the release step only when its pod is not on the node any more and — unless
    the binding is a legacy one without UID — the node agent's latest report for that UID is `deleted` -/
theorem c03_release_only_when_gone_and_confirmed (pods : List Pod) (rt : Runtime) (x : Entry)
    (hb : x.pod ≠ "") (hu : (releaseEntry pods rt x).pod ≠ x.pod) :
    podOf pods x.pod = none ∧ (x.uid = "" ∨ rt x.uid = some true) := by
  unfold releaseEntry at hu
  rw [if_neg hb] at hu
  cases hp : podOf pods x.pod with
  | some p => rw [hp] at hu; simp at hu
  | none =>
    rw [hp] at hu
    refine ⟨rfl, ?_⟩
    by_cases h1 : x.uid = ""
    · exact Or.inl h1
    · right
      simp only [ne_eq, h1, not_false_eq_true, if_true] at hu
      cases hr : rt x.uid with
      | none => rw [hr] at hu; simp at hu
      | some b =>
        cases b
        · rw [hr] at hu; simp at hu
        · rfl

/-- ... and then it does become free -/
theorem c03_release_when_gone_and_confirmed (pods : List Pod) (rt : Runtime) (x : Entry)
    (hg : podOf pods x.pod = none) (hc : x.uid = "" ∨ rt x.uid = some true) : (releaseEntry pods rt x).pod = "" := by
  unfold releaseEntry
  by_cases hb : x.pod = ""
  · rw [if_pos hb]; exact hb
  · rw [if_neg hb, hg]
    rcases hc with h | h
    · simp [h]
    · by_cases h1 : x.uid = ""
      · simp [h1]
      · simp [h1, h]

/-- the pod exists: its address stays bound (only the UID is re-stamped) -/
theorem c03_release_keeps_existing (pods : List Pod) (rt : Runtime) (x : Entry) (p : Pod) (hp : podOf pods x.pod = some p)
    (hb : x.pod ≠ "") : (releaseEntry pods rt x).pod = x.pod ∧ (releaseEntry pods rt x).uid = p.uid := by
  unfold releaseEntry
  rw [if_neg hb, hp]
  exact ⟨rfl, rfl⟩

/-- the release step never touches address, status or primary flag, and binds nothing -/
theorem c03_release_changes_binding_only (pods : List Pod) (rt : Runtime) (x : Entry) :
    (releaseEntry pods rt x).ip = x.ip ∧ (releaseEntry pods rt x).status = x.status ∧ (releaseEntry pods rt x).primary = x.primary ∧
    ((releaseEntry pods rt x).pod = x.pod ∨ (releaseEntry pods rt x).pod = "") := by
  unfold releaseEntry
  split
  · exact ⟨rfl, rfl, rfl, Or.inl rfl⟩
  · split
    · exact ⟨rfl, rfl, rfl, Or.inl rfl⟩
    · split
      · split
        · exact ⟨rfl, rfl, rfl, Or.inr rfl⟩
        · exact ⟨rfl, rfl, rfl, Or.inl rfl⟩
      · exact ⟨rfl, rfl, rfl, Or.inr rfl⟩

/-- when the NodeRuntime object cannot be read nothing is released -/
theorem c03_release_needs_runtime (pods : List Pod) (r : Record) : release pods none r = r := rfl

/-- the whole record: every interface keeps its identity and every entry is the released form of the entry
    at the same place -/
theorem c03_release_is_entrywise (pods : List Pod) (rt : Runtime) (r : Record) :
    release pods (some rt) r = r.map fun e => { e with ips := e.ips.map (releaseEntry pods rt) } := rfl

/-! ## pool trimming and interface release skip addresses with an owner -/

theorem mem_zip_self {α : Type} {l : List α} {p : α × α} (h : p ∈ l.zip l) : p.1 = p.2 := by
  induction l with
  | nil => simp at h
  | cons z t ih =>
    simp only [List.zip_cons_cons, List.mem_cons] at h
    rcases h with e | e
    · rw [e]
    · exact ih e

theorem ite_none_some {α : Type} {c : Prop} [Decidable c] {x : Option α} {b : α} (h : (if c then none else x) = some b) : ¬ c ∧ x = some b := by
  by_cases hc : c
  · rw [if_pos hc] at h; cases h
  · rw [if_neg hc] at h; exact ⟨hc, h⟩

/-- whatever `releaseUnUsedIP` does to an interface: an entry changes only from valid to deleting and only when
    it is bound to nobody and not primary; bindings are untouched; the interface as a whole is given up only
    when nothing on it is bound and it is an ordinary secondary interface -/
theorem c03_trim_only_idle (a b : Eni) (toDel : Int) (n : Int) (h : trimEniOK a b toDel = some n) :
    (b.status ≠ a.status → inUseN a.ips = 0 ∧ a.typ = .secondary ∧ a.hp = false ∧ b.ips = a.ips) ∧
    (∀ xy ∈ a.ips.zip b.ips, xy.1.pod = xy.2.pod ∧ xy.1.uid = xy.2.uid ∧ xy.1.ip = xy.2.ip ∧
      (xy.1.status ≠ xy.2.status → xy.1.pod = "" ∧ xy.1.primary = false ∧ xy.2.status = .deleting)) := by
  unfold trimEniOK at h
  obtain ⟨_, h⟩ := ite_none_some h
  by_cases hw : trimWhole a toDel = true
  · rw [if_pos hw] at h
    by_cases hb : (b.status == .deleting && a.ips == b.ips) = true
    · simp only [Bool.and_eq_true, beq_iff_eq] at hb
      unfold trimWhole at hw
      simp only [Bool.and_eq_true, beq_iff_eq, decide_eq_true_eq, Bool.not_eq_true'] at hw
      refine ⟨fun _ => ⟨hw.1.1.1.1, hw.1.2, hw.2, hb.2.symm⟩, ?_⟩
      intro xy hxy
      rw [← hb.2] at hxy
      rw [mem_zip_self hxy]
      exact ⟨rfl, rfl, rfl, fun hne => absurd rfl hne⟩
    · rw [if_neg hb] at h; cases h
  · rw [if_neg hw] at h
    obtain ⟨hst, h⟩ := ite_none_some h
    by_cases hc : (trimEntriesOK a b && trimMarked a b false == trimExpect a toDel false && trimMarked a b true == trimExpect a toDel true) = true
    · simp only [Bool.and_eq_true] at hc
      refine ⟨fun hne => absurd (by simpa using hst : a.status = b.status).symm hne, ?_⟩
      intro xy hxy
      have := List.all_eq_true.mp hc.1.1 xy hxy
      simp only [Bool.and_eq_true, beq_iff_eq, Bool.or_eq_true, Bool.not_eq_true'] at this
      obtain ⟨⟨⟨⟨e1, e2⟩, e3⟩, _⟩, e5⟩ := this
      refine ⟨e2, e3, e1, ?_⟩
      intro hne
      rcases e5 with e | e
      · exact absurd e hne
      · exact ⟨e.1.2, e.2, e.1.1.2⟩
    · rw [if_neg hc] at h; cases h

/-! ## the assignment step never unbinds -/

/-- `assignIPFromLocalPool` leaves every existing binding where it is (since the repair c284911: also the IPv4
    binding of a pod for which no IPv6 address can be found) -/
theorem c03_assign_never_unbinds (erdmaOn : Bool) (pods : List Pod) (pre post : Record) (e : Eni) (x y : Entry)
    (h : entryChangeOK erdmaOn pods pre post e x y = true) (hb : x.pod ≠ "") : y.pod = x.pod := by
  unfold entryChangeOK at h
  simp only [Bool.and_eq_true] at h
  obtain ⟨_, hc⟩ := h
  by_cases h1 : (x.pod == y.pod) = true
  · exact (by simpa using h1 : x.pod = y.pod).symm
  · rw [if_neg h1] at hc
    have : (x.pod == "") = false := by simpa using hb
    rw [this] at hc
    simp at hc

/-! ## node agent: teardown is reported for the sandbox the DEL was for -/

open Terway.Daemon in
/-- a DEL for another sandbox than the recorded one (an old sandbox of a pod that has been set up again) does not
    touch the record nor the pool: nothing is reported as torn down for the new sandbox -/
theorem c03_agent_ignores_stale_del (s : Svc) (p cid : String) (v : PodGet) (r : Rec)
    (hr : dbGet s.db p = some r) (hc : cid ≠ r.cid) : (delBody s p cid v).1 = s := by
  unfold delBody
  cases v <;> simp [hr, hc]

/-! ## node agent: what is written into the NodeRuntime object (Model/Agent.lean) -/

/-- **in every history** of processed DELs, report passes, IPAM reconciliations of the NodeRuntime, clean-up passes
    (with any answers of the API server, including failed look-ups) and failed writes: a pod UID is reported as
    torn down (`deleted` stamp in the NodeRuntime) only if the daemon processed a CNI DEL for it or the API
    server answered "no such pod on this node" for it during a clean-up pass -/
theorem c03_agent_reports_only_processed_or_verified (evs : List Agent.Ev) (e : Agent.Entry)
    (he : e ∈ (Agent.run {} evs).rt) (hd : e.deleted = true) :
    e.uid ∈ (Agent.run {} evs).dels ∨ e.uid ∈ (Agent.run {} evs).verified :=
  (Agent.Inv.init.run evs).1 e he hd

/-- one clean-up pass stamps `deleted` only on entries that are not recorded locally, whose `initial` stamp is older
    than 30 s, whose pod id is well-formed and for which the API server answered "absent": a failed look-up
    (`Verdict.failed`) or a present pod never leads to a report -/
theorem c03_agent_clean_needs_absent (s : Agent.St) (l : List Nat) (v : Nat → Agent.Verdict) (ok : Bool) (e : Agent.Entry)
    (he : e ∈ (Agent.step s (.clean l v ok)).rt) (hd : e.deleted = true) :
    (∃ e0 ∈ s.rt, e0.uid = e.uid ∧ e0.deleted = true) ∨
    (v e.uid = .absent ∧ e.uid ∉ l ∧ ∃ e0 ∈ s.rt, e0.uid = e.uid ∧ e0.recent = false ∧ e0.okID = true) := by
  simp only [Agent.step] at he
  split at he
  · simp only [List.mem_map] at he
    obtain ⟨e0, he0, rfl⟩ := he
    by_cases hc : Agent.cleanHits l v e0 = true
    · right
      simp only [hc, if_true]
      unfold Agent.cleanHits at hc
      simp only [Bool.and_eq_true, Bool.not_eq_true', beq_iff_eq] at hc
      obtain ⟨⟨⟨⟨h1, _⟩, h3⟩, h4⟩, h5⟩ := hc
      refine ⟨h5, ?_, e0, he0, rfl, h3, h4⟩
      intro hm
      have : l.contains e0.uid = true := by simpa using hm
      rw [this] at h1; cases h1
    · left
      simp only [hc] at hd ⊢
      exact ⟨e0, he0, rfl, hd⟩
  · exact .inl ⟨e, he, rfl, hd⟩

/-- a processed DEL is reported by the next report pass that succeeds -/
theorem c03_agent_processed_del_reported (s : Agent.St) (uid : Nat) (okID : Bool) :
    ∃ e ∈ (Agent.step (Agent.step s (.del uid okID)) (.sync true)).rt, e.uid = uid ∧ e.deleted = true := by
  have key : ∀ (ps : List (Nat × Bool)) (rt : List Agent.Entry), (∃ p ∈ ps, p.1 = uid) ∨ (∃ e ∈ rt, e.uid = uid ∧ e.deleted = true) →
      ∃ e ∈ ps.foldl (fun rt p => Agent.setDeleted rt p.1 p.2) rt, e.uid = uid ∧ e.deleted = true := by
    intro ps
    induction ps with
    | nil => intro rt h; rcases h with ⟨p, hp, _⟩ | h; · cases hp
             · exact h
    | cons q qs ih =>
      intro rt h
      simp only [List.foldl_cons]
      apply ih
      by_cases hq : q.1 = uid
      · right
        unfold Agent.setDeleted
        by_cases hany : (rt.any (·.uid == q.1)) = true
        · rw [if_pos hany]
          obtain ⟨x, hx, hxu⟩ := List.any_eq_true.mp hany
          have hxu' : x.uid = q.1 := by simpa using hxu
          exact ⟨{ x with deleted := true }, List.mem_map.mpr ⟨x, hx, by simp [hxu']⟩, by simp [hxu', hq], rfl⟩
        · rw [if_neg hany]
          exact ⟨_, List.mem_append_right _ (List.mem_singleton.mpr rfl), hq, rfl⟩
      · rcases h with ⟨p, hp, hpu⟩ | ⟨e, he, heu, hed⟩
        · rcases List.mem_cons.mp hp with rfl | hp'
          · exact absurd hpu hq
          · exact .inl ⟨p, hp', hpu⟩
        · right
          unfold Agent.setDeleted
          by_cases hany : (rt.any (·.uid == q.1)) = true
          · rw [if_pos hany]
            refine ⟨e, List.mem_map.mpr ⟨e, he, ?_⟩, heu, hed⟩
            have : e.uid ≠ q.1 := by rw [heu]; exact fun h => hq h.symm
            simp [this]
          · rw [if_neg hany]
            exact ⟨e, List.mem_append_left _ he, heu, hed⟩
  have hp : ∃ p ∈ (Agent.step s (.del uid okID)).pending, p.1 = uid := by
    simp only [Agent.step]
    split
    · rename_i hany
      obtain ⟨x, hx, hxu⟩ := List.any_eq_true.mp hany
      have hxu' : x.1 = uid := by simpa using hxu
      exact ⟨(uid, okID), List.mem_map.mpr ⟨x, hx, by simp [hxu']⟩, rfl⟩
    · exact ⟨(uid, okID), List.mem_append_right _ (List.mem_singleton.mpr rfl), rfl⟩
  have hne : (Agent.step s (.del uid okID)).pending.isEmpty = false := by
    obtain ⟨p, hp', _⟩ := hp
    cases h : (Agent.step s (.del uid okID)).pending with
    | nil => rw [h] at hp'; cases hp'
    | cons _ _ => rfl
  generalize Agent.step s (.del uid okID) = s1 at hp hne ⊢
  have hstep : (Agent.step s1 (.sync true)).rt = s1.pending.foldl (fun rt p => Agent.setDeleted rt p.1 p.2) s1.rt := by
    simp [Agent.step, hne]
  rw [hstep]
  exact key _ _ (.inl hp)

/-! ## non-vacuity -/

example : ((Agent.run {} [.back [(1, true)] true, .age, .clean [] (fun _ => .failed) true]).rt.map (·.deleted)) = [false] := by decide
example : ((Agent.run {} [.back [(1, true)] true, .age, .clean [] (fun _ => .absent) true]).rt.map (·.deleted)) = [true] := by decide
example : ((Agent.run {} [.back [(1, true)] true, .clean [] (fun _ => .absent) true]).rt.map (·.deleted)) = [false] := by decide


def x0 : Entry := { ip := 102, status := .valid, pod := "p1", uid := "u1", primary := false }

example : (releaseEntry [] (fun u => if u = "u1" then some true else none) x0).pod = "" := by decide
example : (releaseEntry [] (fun _ => some false) x0).pod = "p1" := by decide
example : (releaseEntry [] (fun _ => none) x0).pod = "p1" := by decide
example : (releaseEntry [{ id := "p1", uid := "u2", need4 := true, need6 := false, erdma := false, ip4 := none, ip6 := none }]
    (fun _ => some true) x0).uid = "u2" := by decide

end Terway.Props.C03
