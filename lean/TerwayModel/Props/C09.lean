import TerwayModel.Proofs.Daemon
/-
C09 — vanished pods are garbage-collected on the node; existing pods never are.
Model: `gcDecide` / `gcDb` / `gcPool` / `gcPass` in `TerwayModel/Model/Daemon.lean`.
-/
namespace Terway.Props.C09
open Terway.Daemon

/-- the pods a pass must leave alone: live on the node, confirmed by the API server, or not confirmed absent
    because the lookup failed -/
def Keeps (g : GcView) (p : String) : Prop := p ∈ g.live ∨ apiExists g p ≠ some false

theorem gcDecide_keep_iff (crd : Bool) (g : GcView) (p : String) (r : Rec) :
    gcDecide crd g p r = .keep ↔ Keeps g p := by
  unfold gcDecide Keeps
  by_cases h : p ∈ g.live
  · simp [h]
  · simp only [h, if_false, false_or]
    cases apiExists g p with
    | none => simp
    | some b => cases b <;> simp <;> split <;> simp

/-- a pass never runs while a request is in flight (it needs the service's write lock) -/
theorem c09_excluded_while_in_flight (s : Svc) (g : GcView) (h : s.pending ≠ []) : gcPass s g = none := by
  simp [gcPass, h]

theorem gcPass_some {s s' : Svc} {g : GcView} (h : gcPass s g = some s') :
    s' = { s with db := gcDb s.crd g s.db, pool := gcPool s.crd g s.db s.pool } := by
  unfold gcPass at h
  split at h
  · cases h
  · cases h; rfl

/-- a pod that is running, or whose absence the API server did not confirm, keeps its record and every
    address bound to it -/
theorem c09_existing_untouched (s s' : Svc) (g : GcView) (hk : (s.db.map (·.1)).Nodup) (p : String)
    (hkeep : Keeps g p) (h : gcPass s g = some s') :
    dbGet s'.db p = dbGet s.db p ∧ ∀ e ∈ s.pool, e.owner = some p → e ∈ s'.pool := by
  rw [gcPass_some h]
  constructor
  · show dbGet (gcDb s.crd g s.db) p = _
    rw [gcDb_get hk]
    cases hr : dbGet s.db p with
    | none => rfl
    | some r => simp [gcOut, (gcDecide_keep_iff s.crd g p r).mpr hkeep]
  · intro e he ho
    show e ∈ gcPool s.crd g s.db s.pool
    rw [gcPool_eq_map, List.mem_map]
    refine ⟨e, he, ?_⟩
    rcases gcEnt_cases s.crd g s.db e with ⟨q, r, _, hc, hq, _, _, _⟩ | ⟨_, heq⟩
    · rw [ho] at hq; cases hq
      have := (gcDecide_keep_iff s.crd g p r).mpr hkeep
      rw [this] at hc; cases hc
    · exact heq

/-- a record disappears only for a pod that is not live and that the API server confirmed absent -/
theorem c09_only_absent_collected (s s' : Svc) (g : GcView) (hk : (s.db.map (·.1)).Nodup) (p : String) (r : Rec)
    (hr : dbGet s.db p = some r) (h : gcPass s g = some s') (hgone : dbGet s'.db p = none) :
    p ∉ g.live ∧ apiExists g p = some false := by
  rw [gcPass_some h] at hgone
  change dbGet (gcDb s.crd g s.db) p = none at hgone
  rw [gcDb_get hk, hr] at hgone
  simp only [Option.bind_some, gcOut] at hgone
  have hnk : ¬ Keeps g p := by
    intro hk'
    rw [(gcDecide_keep_iff s.crd g p r).mpr hk'] at hgone
    cases hgone
  unfold Keeps at hnk
  simp only [not_or, ne_eq] at hnk
  exact ⟨hnk.1, Decidable.not_not.mp hnk.2⟩

theorem gcEnt_owner {crd : Bool} {g : GcView} {db : List (String × Rec)} {e : Ent} {q : String}
    (h : (gcEnt crd g db e).owner = some q) : e.owner = some q ∧ gcEnt crd g db e = e := by
  rcases gcEnt_cases crd g db e with ⟨_, _, _, _, _, _, _, heq⟩ | ⟨_, heq⟩
  · rw [heq] at h; cases h
  · rw [heq] at h; exact ⟨h, heq⟩

/-- within two passes the record of a vanished pod is gone and every address it names is unbound
    (a sticky address gets exactly one extra pass) -/
theorem c09_absent_collected_within_two_passes (s s1 s2 : Svc) (g : GcView) (hk : (s.db.map (·.1)).Nodup)
    (p : String) (hlive : p ∉ g.live) (habs : apiExists g p = some false)
    (h1 : gcPass s g = some s1) (h2 : gcPass s1 g = some s2) :
    dbGet s2.db p = none ∧
    ∀ r, dbGet s.db p = some r → ∀ e ∈ s2.pool, e.eni = r.eni → e.ip ∈ r.ips → e.owner ≠ some p := by
  have e1 := gcPass_some h1
  have e2 := gcPass_some h2
  have hk1 : (s1.db.map (·.1)).Nodup := by
    rw [e1]; exact (gcDb_keys_sublist _ _ _).nodup hk
  have hcrd : s1.crd = s.crd := by rw [e1]
  have hnk : ∀ r, gcDecide s.crd g p r ≠ .keep := by
    intro r hkp
    rcases (gcDecide_keep_iff s.crd g p r).mp hkp with h | h
    · exact hlive h
    · exact h habs
  -- a non-sticky record is collected at once
  have hcollect : ∀ r, r.stick = false → gcDecide s.crd g p r = .collect := by
    intro r hs
    unfold gcDecide
    simp [hlive, habs, hs]
  have hdb1 : dbGet s1.db p = (dbGet s.db p).bind (gcOut s.crd g p) := by
    rw [e1]; exact gcDb_get hk p
  have hdb2 : dbGet s2.db p = (dbGet s1.db p).bind (gcOut s.crd g p) := by
    rw [e2, ← hcrd]; exact gcDb_get hk1 p
  constructor
  · rw [hdb2, hdb1]
    cases hr : dbGet s.db p with
    | none => rfl
    | some r =>
      simp only [Option.bind_some, gcOut]
      cases hd : gcDecide s.crd g p r with
      | keep => exact absurd hd (hnk r)
      | collect => rfl
      | unstick => simp [gcOut, hcollect { r with stick := false } rfl]
  · intro r hr e2' he2 k1 k2 ho
    rw [e2] at he2
    change e2' ∈ gcPool s1.crd g s1.db s1.pool at he2
    rw [gcPool_eq_map, List.mem_map] at he2
    obtain ⟨e1', he1, rfl⟩ := he2
    obtain ⟨ho1, heq1⟩ := gcEnt_owner ho
    rw [heq1] at k1 k2
    rw [e1] at he1
    change e1' ∈ gcPool s.crd g s.db s.pool at he1
    rw [gcPool_eq_map, List.mem_map] at he1
    obtain ⟨e0, he0, rfl⟩ := he1
    obtain ⟨ho0, heq0⟩ := gcEnt_owner ho1
    rw [heq0] at k1 k2 heq1 ho
    -- e0 is bound to p and names an address of r, yet survived both passes unreleased
    cases hd : gcDecide s.crd g p r with
    | keep => exact absurd hd (hnk r)
    | collect =>
      rcases gcEnt_cases s.crd g s.db e0 with ⟨_, _, _, _, _, _, _, heq⟩ | ⟨hno, _⟩
      · rw [heq] at ho1; cases ho1
      · exact hno p r (dbGet_mem hr) hd ho0 k1 k2
    | unstick =>
      have hr1 : dbGet s1.db p = some { r with stick := false } := by
        rw [hdb1, hr]; simp [gcOut, hd]
      have hc1 : gcDecide s1.crd g p { r with stick := false } = .collect := by
        rw [hcrd]; exact hcollect _ rfl
      rcases gcEnt_cases s1.crd g s1.db e0 with ⟨_, _, _, _, _, _, _, heq⟩ | ⟨hno, _⟩
      · rw [heq] at ho; cases ho
      · exact hno p _ (dbGet_mem hr1) hc1 ho0 k1 k2

theorem gcDb_all_keep {crd : Bool} {g : GcView} {db : List (String × Rec)}
    (h : ∀ pr ∈ db, gcDecide crd g pr.1 pr.2 = .keep) : gcDb crd g db = db := by
  induction db with
  | nil => rfl
  | cons hd t ih =>
    obtain ⟨p, r⟩ := hd
    unfold gcDb
    rw [h (p, r) (by simp)]
    simp only
    rw [ih (fun pr hpr => h pr (by simp [hpr]))]

theorem gcPool_all_keep {crd : Bool} {g : GcView} {db : List (String × Rec)} (pool : List Ent)
    (h : ∀ pr ∈ db, gcDecide crd g pr.1 pr.2 = .keep) : gcPool crd g db pool = pool := by
  induction db generalizing pool with
  | nil => rfl
  | cons hd t ih =>
    obtain ⟨p, r⟩ := hd
    unfold gcPool
    have := h (p, r) (by simp)
    simp only at this
    rw [this]
    simp only [reduceCtorEq, if_false]
    exact ih pool (fun pr hpr => h pr (by simp [hpr]))

/-- repeated passes are idempotent: after two passes over an unchanged world a third changes nothing -/
theorem c09_idempotent (s s1 s2 : Svc) (g : GcView) (hk : (s.db.map (·.1)).Nodup)
    (h1 : gcPass s g = some s1) (h2 : gcPass s1 g = some s2) : gcPass s2 g = some s2 := by
  have e1 := gcPass_some h1
  have e2 := gcPass_some h2
  have hk1 : (s1.db.map (·.1)).Nodup := by rw [e1]; exact (gcDb_keys_sublist _ _ _).nodup hk
  have hk2 : (s2.db.map (·.1)).Nodup := by rw [e2]; exact (gcDb_keys_sublist _ _ _).nodup hk1
  have hcrd1 : s1.crd = s.crd := by rw [e1]
  have hcrd2 : s2.crd = s.crd := by rw [e2, ← hcrd1]
  have hp2 : s2.pending = [] := by
    rw [e2, e1]
    unfold gcPass at h1
    split at h1
    · cases h1
    · rename_i hp; simpa using hp
  -- every record left after two passes is one the pass keeps
  have hall : ∀ pr ∈ s2.db, gcDecide s2.crd g pr.1 pr.2 = .keep := by
    intro pr hpr
    obtain ⟨q, r2⟩ := pr
    have g2 := mem_dbGet hk2 hpr
    have hdb2 : dbGet s2.db q = (dbGet s1.db q).bind (gcOut s.crd g q) := by
      rw [e2, ← hcrd1]; exact gcDb_get hk1 q
    have hdb1 : dbGet s1.db q = (dbGet s.db q).bind (gcOut s.crd g q) := by
      rw [e1]; exact gcDb_get hk q
    rw [hcrd2]
    simp only
    rw [hdb2] at g2
    cases hr1 : dbGet s1.db q with
    | none => rw [hr1] at g2; cases g2
    | some r1 =>
      rw [hr1] at g2
      simp only [Option.bind_some, gcOut] at g2
      cases hd1 : gcDecide s.crd g q r1 with
      | keep =>
        exact (gcDecide_keep_iff _ g q r2).mpr ((gcDecide_keep_iff _ g q r1).mp hd1)
      | collect => rw [hd1] at g2; cases g2
      | unstick =>
        -- r1 would have to be sticky, but the first pass either kept it (then it is kept again) or un-stuck it
        exfalso
        rw [hdb1] at hr1
        cases hr0 : dbGet s.db q with
        | none => rw [hr0] at hr1; cases hr1
        | some r0 =>
          rw [hr0] at hr1
          simp only [Option.bind_some, gcOut] at hr1
          cases hd0 : gcDecide s.crd g q r0 with
          | keep =>
            have := (gcDecide_keep_iff s.crd g q r1).mpr ((gcDecide_keep_iff _ g q r0).mp hd0)
            rw [this] at hd1; cases hd1
          | collect => rw [hd0] at hr1; cases hr1
          | unstick =>
            rw [hd0] at hr1
            simp only [Option.some.injEq] at hr1
            subst hr1
            unfold gcDecide at hd1
            split at hd1
            · cases hd1
            · split at hd1 <;> simp at hd1
  unfold gcPass
  rw [if_neg (by simp [hp2])]
  rw [gcDb_all_keep hall, gcPool_all_keep _ hall]

/-- the outcome of a pass for one pod depends on that pod's own record and on what is known about that pod
    only: a pod whose lookup fails, or whose record is in any other state, does not change what happens
    to the others -/
theorem c09_outcome_independent (crd : Bool) (g : GcView) (db db' : List (String × Rec))
    (hk : (db.map (·.1)).Nodup) (hk' : (db'.map (·.1)).Nodup) (q : String) (h : dbGet db q = dbGet db' q) :
    dbGet (gcDb crd g db) q = dbGet (gcDb crd g db') q := by
  rw [gcDb_get hk, gcDb_get hk', h]

/-- a pass keeps the invariant (in particular: a recorded address stays bound to its pod, no two records
    name one address) -/
theorem c09_pass_keeps_invariant (s s' : Svc) (g : GcView) (hI : Inv s) (h : gcPass s g = some s') : Inv s' := by
  rw [gcPass_some h]; exact hI.gc_pres g

/-! ## non-vacuity -/

def sDemo : Svc :=
  { db := [("gone", { cid := "c", eni := "e1", ips := [101], stick := true }), ("alive", { cid := "c", eni := "e1", ips := [102], stick := false })],
    pool := [{ eni := "e1", ip := 101, owner := some "gone", valid := true }, { eni := "e1", ip := 102, owner := some "alive", valid := true }],
    pending := [], crd := false, dual := false }
def gDemo : GcView := { live := ["alive"], exists_ := [("gone", some false)] }

example : (gcPass sDemo gDemo).map (·.db.map (·.1)) = some ["gone", "alive"] := by decide
example : ((gcPass sDemo gDemo).bind (gcPass · gDemo)).map (·.db.map (·.1)) = some ["alive"] := by decide
example : ((gcPass sDemo gDemo).bind (gcPass · gDemo)).map (·.pool.map (·.owner)) = some [none, some "alive"] := by decide

end Terway.Props.C09
