import TerwayModel.Proofs.PodEniProps
/-
C11 — fixed IPs survive recreation; the leak collector only reaps what is provably ours and stale.
Model: `TerwayModel/Model/PodEni.lean`; invariants `Proofs/PodEni*.lean`.  Every theorem quantifies over all
histories `evs` from the empty world: all pod lifecycles, all interleavings of the pod controller, the PodENI
controller and the two collectors, all clock steps, all populations of foreign interfaces.
-/
namespace Terway.Props.C11
open Terway.PE

/-! ### the same interface and address come back -/

/-- as long as the record exists its allocations (interface ids, addresses, release strategies) never change:
    no event rewrites them, whatever it does to the phase, the owner uid or the attachment -/
theorem c11_allocations_never_change {evs : List Ev} {s t : St} {ev : Ev} {r r' : Rec}
    (hreach : run {} evs = some s) (hs : step s ev = some t) (hr : s.rcd = some r) (hr' : t.rcd = some r') :
    r'.allocs = r.allocs :=
  AllocsSame.step (Inv.init.run hreach) hs r r' hr hr'

/-- `runKeeping`: a history during which the record is never removed -/
def runKeeping (s : St) : List Ev → Option St
  | [] => some s
  | ev :: rest => match step s ev with
    | some t => if t.rcd.isSome then runKeeping t rest else none
    | none => none

theorem runKeeping_run {s t : St} {evs : List Ev} (h : runKeeping s evs = some t) : run s evs = some t := by
  induction evs generalizing s with
  | nil => simpa [runKeeping, run] using h
  | cons ev rest ih =>
    simp only [runKeeping] at h
    split at h
    · rename_i u hu
      split at h
      · simp only [run, hu]; exact ih h
      · cases h
    · cases h

theorem run_append {s t u : St} {a b : List Ev} (h1 : run s a = some t) (h2 : run t b = some u) : run s (a ++ b) = some u := by
  induction a generalizing s with
  | nil => simp [run] at h1; subst h1; simpa using h2
  | cons ev rest ih =>
    simp only [run] at h1
    split at h1
    · rename_i v hv; simp only [List.cons_append, run, hv]; exact ih h1
    · cases h1

/-- a fixed-address pod that is recreated under the same name gets the same interfaces and addresses back: over
    any history in which the record survives (detach, unbind, take-over by the new uid, binding, bind …) the
    allocations at the end are those at the beginning -/
theorem c11_same_interface_after_recreation {evs rest : List Ev} {s t : St} {r : Rec}
    (hreach : run {} evs = some s) (hr : s.rcd = some r) (hrest : runKeeping s rest = some t) :
    ∃ r', t.rcd = some r' ∧ r'.allocs = r.allocs := by
  induction rest generalizing s evs r with
  | nil => simp [runKeeping] at hrest; subst hrest; exact ⟨r, hr, rfl⟩
  | cons ev tl ih =>
    simp only [runKeeping] at hrest
    split at hrest
    · rename_i u hu
      split at hrest
      · rename_i hsome
        obtain ⟨r1, hr1⟩ := Option.isSome_iff_exists.mp hsome
        have hsame := c11_allocations_never_change hreach hu hr hr1
        have hreach' : run {} (evs ++ [ev]) = some u := run_append hreach (by simp [run, hu])
        obtain ⟨r', h1, h2⟩ := ih hreach' hr1 hrest
        exact ⟨r', h1, h2.trans hsame⟩
      · cases hrest
    · cases hrest

/-- the record becomes Bind only when every interface it names is attached to the instance written into it -/
theorem c11_bind_means_attached {evs : List Ev} {s t : St} {ver inst : Nat} {c : Rec}
    (hreach : run {} evs = some s) (hs : step s (.eStatusBind ver inst .ok) = some t) (hc : s.rcd = some c) :
    ∀ a ∈ c.allocs, attachedTo s.cloud a.eni inst = true := by
  simp only [step] at hs
  exact BindAtt.stepE (Inv.init.run hreach) hs ver inst rfl c hc

/-- an interface keeps its address for as long as it exists -/
theorem c11_address_of_interface_never_changes {evs : List Ev} {s t : St} {ev : Ev} {en en' : Eni}
    (hreach : run {} evs = some s) (hs : step s ev = some t) (h : en ∈ s.cloud) (h' : en' ∈ t.cloud)
    (hid : en'.id = en.id) : en'.ip = en.ip :=
  IpSame.step (Inv.init.run hreach) hs en h en' h' hid

/-! ### the record of a fixed address is kept for its TTL -/

/-- the collector reaps (marks Deleting) a record only if every fixed allocation has release strategy TTL with a
    well-formed duration `d`, and `d` has fully elapsed since the controller last observed the pod (`obs`: the
    time of the last bind and of the last collector pass that found the pod).  A `Never` allocation, an unknown
    strategy or a malformed duration anywhere in the record keeps it forever. -/
theorem c11_reaped_only_after_ttl {evs : List Ev} {s t : St} {ver : Nat} {c : Rec} {a : Alloc}
    (hreach : run {} evs = some s) (hs : step s (.gReap ver .ok) = some t) (hc : s.rcd = some c)
    (ha : a ∈ c.allocs) (hf : a.fixed = true) :
    ∃ d, a.strat = .ttl d ∧ ∀ o, s.obs = some o → o + d ≤ s.now := by
  simp only [step] at hs
  exact Ttl.stepG (Inv.init.run hreach) hs ver rfl c hc a ha hf

/-- nobody but the collector's TTL decision sends a fixed-address record to Deleting, and its deletion is only
    requested once it is in Deleting -/
theorem c11_fixed_record_only_reaped_by_collector {evs : List Ev} {s t : St} {ev : Ev} {c c' : Rec}
    (hreach : run {} evs = some s) (hs : step s ev = some t) (hc : s.rcd = some c) (hf : c.fixed = true)
    (hc' : t.rcd = some c') :
    ((c'.phase = .deleting ∧ c.phase ≠ .deleting) → ∃ ver, ev = .gReap ver .ok) ∧
    ((c'.del = true ∧ c.del = false) → c.phase = .deleting) :=
  OnlyG.step (Inv.init.run hreach) hs c c' hc hf hc'

/-- the collector's vote, allocation by allocation, is exactly the documented rule -/
theorem c11_keep_rule (allocs : List Alloc) (ls : Option Nat) (now : Nat) :
    keep allocs ls now = true ↔
      ∃ a ∈ allocs, a.strat = .never ∨ a.strat = .bad ∨ ∃ d t, a.strat = .ttl d ∧ ls = some t ∧ now < t + d := by
  simp only [keep, List.any_eq_true]
  constructor
  · rintro ⟨a, ha, hk⟩
    refine ⟨a, ha, ?_⟩
    cases hs : a.strat with
    | elastic => simp [hs, allocKeeps] at hk
    | never => exact .inl rfl
    | bad => exact .inr (.inl rfl)
    | ttl d =>
      cases ls with
      | none => simp [hs, allocKeeps] at hk
      | some t => simp [hs, allocKeeps] at hk; exact .inr (.inr ⟨d, t, rfl, rfl, hk⟩)
  · rintro ⟨a, ha, h⟩
    refine ⟨a, ha, ?_⟩
    rcases h with h | h | ⟨d, t, h1, h2, h3⟩
    · simp [h, allocKeeps]
    · simp [h, allocKeeps]
    · simp [h1, h2, allocKeeps, h3]

/-- order independence: the vote does not depend on the order of the allocations -/
theorem c11_keep_order_independent {a b : List Alloc} (h : a.Perm b) (ls : Option Nat) (now : Nat) :
    keep a ls now = keep b ls now := by
  simp only [keep]
  exact h.any_eq

/-! ### the leaked-interface collector -/

/-- whatever the population of the cloud (foreign tags, other clusters, young, referenced, any status): an
    interface the collector deletes or detaches carries this cluster's controller tags, was created at least the
    grace period (600 s) ago, and is named by no record — at the moment it is reaped -/
theorem c11_leak_collector_reaps_only_ours_old_unreferenced {evs : List Ev} {s t : St} {id : Nat} {ok : Bool} {ev : Ev}
    (hreach : run {} evs = some s) (hev : ev = .lDelete id ok ∨ ev = .lDetach id ok) (hs : step s ev = some t) :
    (∀ en ∈ s.cloud, en.id = id → en.ours = true ∧ en.ctime + grace ≤ s.now) ∧
    (∀ c, s.rcd = some c → id ∉ c.enis) := by
  have hI := Inv.init.run hreach
  rcases hev with rfl | rfl <;> simp only [step] at hs
  · exact LeakReap.stepL hI hs id ok (.inl rfl)
  · exact LeakReap.stepL hI hs id ok (.inr rfl)

/-- the candidates are computed exactly as the rule says -/
theorem c11_leak_candidate_rule (now : Nat) (e : Eni) :
    leakCand now e = true ↔ e.ours = true ∧ e.ctime + 600 ≤ now := by
  simp only [leakCand, grace, Bool.and_eq_true]
  constructor
  · rintro ⟨h1, h2⟩; exact ⟨h1, of_decide_eq_true h2⟩
  · rintro ⟨h1, h2⟩; exact ⟨h1, decide_eq_true h2⟩

/-- non-vacuity: an old unreferenced interface of ours is in fact reaped -/
def lEvs : List Ev :=
  [.podCreate true true, .pStart, .pGetPod (.live 0 true), .pGetRec false, .pCloudCreate true 0 0,
   .pCreateRec [(0, .elastic)] .err, .pCloudDelete 0 false, .pDone, .tick 700, .lDescribe false, .lList]
def lS : St := (run {} lEvs).getD {}
example : run {} lEvs = some lS ∧ (step lS (.lDelete 0 true)).isSome = true := ⟨by decide, by decide⟩

end Terway.Props.C11
