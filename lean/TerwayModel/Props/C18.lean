import TerwayModel.Model.Webhook
/-
C18 — the admission webhook only touches pods it owns and always emits a complete spec.
-/
namespace Terway.Props.C18
open Terway.Webhook

/-! ## pods that are none of the webhook's business -/

theorem c18_host_network_unchanged (inp : Input) (h : inp.pod.hostNetwork = true) : admitPod inp = .allowed := by
  simp [admitPod, gate, h]

theorem c18_ignored_unchanged (inp : Input) (h : inp.pod.ignored = true) : admitPod inp = .allowed := by
  unfold admitPod gate
  by_cases h1 : inp.pod.hostNetwork = true
  · simp [h1]
  · by_cases h2 : inp.pod.containers = 0 <;> simp [h1, h2, h]

/-- outside centralized-IPAM mode a pod without network annotations that matches no definition and
    does not ask for an ENI is admitted unchanged -/
theorem c18_no_match_unchanged (inp : Input) (hg : gate inp.pod = none) (hc : inp.ipamCRD = false) (hu : inp.pod.useENI = false)
    (ha : inp.annoNets = some []) (hr : inp.reqs = some []) (hm : matchOne inp.pod.fixedName inp.pns = none)
    (hns : inp.pns = [] ∨ inp.nsExists = true) : admitPod inp = .allowed := by
  have hne : (!inp.pns.isEmpty && !inp.nsExists) = false := by
    rcases hns with h | h <;> simp [h]
  simp [admitPod, hg, source, ha, hr, requests, hm, hc, hu, hne]

/-- any two of the three network annotations together are refused -/
theorem c18_conflict_denied (inp : Input) (h0 : inp.pod.hostNetwork = false) (h1 : inp.pod.containers ≠ 0)
    (h2 : inp.pod.ignored = false)
    (hc : (inp.pod.hasNetworks = true ∧ inp.pod.hasRequest = true) ∨ (inp.pod.hasNetworks = true ∧ inp.pod.hasPN = true) ∨
          (inp.pod.hasRequest = true ∧ inp.pod.hasPN = true)) : admitPod inp = .denied "exclusive" := by
  unfold admitPod gate
  simp only [h0, h1, h2, Bool.false_eq_true, if_false]
  rcases hc with ⟨a, b⟩ | ⟨a, b⟩ | ⟨a, b⟩ <;> simp [a, b]

/-! ## the validate-and-default loop -/

def NetOK (fixedName : Bool) (n : Net) : Prop :=
  1 ≤ n.iface.utf8ByteSize ∧ n.iface.utf8ByteSize ≤ 5 ∧ n.sgs.length ≤ 10 ∧ n.fixed.isSome = true ∧
  (n.fixed = some true → fixedName = true)

theorem validate_spec (fn : Bool) (nets : List Net) : ∀ (seen : List String) (ns : List Net) (req af : Bool),
    validate fn nets seen = .ok (ns, req, af) →
    ns.map (·.iface) = nets.map (·.iface) ∧ ns.map (·.vsw) = nets.map (·.vsw) ∧ ns.map (·.sgs) = nets.map (·.sgs) ∧
    ns.map (·.attachENI) = nets.map (·.attachENI) ∧
    (∀ n ∈ ns, NetOK fn n ∧ n.iface ∉ seen) ∧ (ns.map (·.iface)).Nodup ∧
    (req = false → ∀ n ∈ ns, n.vsw ≠ [] ∧ n.sgs ≠ []) := by
  induction nets with
  | nil => intro seen ns req af h; simp only [validate] at h; injection h with h; simp at h; obtain ⟨rfl, rfl, rfl⟩ := h; simp
  | cons n rest ih =>
    intro seen ns req af h
    simp only [validate] at h
    split at h
    · cases h
    · rename_i hsg
      split at h
      · cases h
      · rename_i hlen
        split at h
        · cases h
        · rename_i hdup
          split at h
          · cases h
          · rename_i hfix
            cases hv : validate fn rest (n.iface :: seen) with
            | error e => simp [hv] at h
            | ok r =>
              obtain ⟨ns', req', af'⟩ := r
              simp only [hv] at h
              injection h with h
              simp only [Prod.mk.injEq] at h
              obtain ⟨rfl, rfl, rfl⟩ := h
              have := ih (n.iface :: seen) ns' req' af' hv
              obtain ⟨i1, i2, i3, i4, i5, i6, i7⟩ := this
              refine ⟨by simp [i1], by simp [i2], by simp [i3], by simp [i4], ?_, ?_, ?_⟩
              · intro m hm
                simp only [List.mem_cons] at hm
                rcases hm with rfl | hm
                · refine ⟨⟨by simp only; omega, by simp only; omega, by simpa using hsg, by simp, ?_⟩, hdup⟩
                  intro hf
                  simp only [Option.some.injEq, decide_eq_true_eq] at hf
                  by_cases hfn : fn = true
                  · exact hfn
                  · exfalso; apply hfix; exact ⟨hf, by simp [hfn]⟩
                · have := i5 m hm
                  exact ⟨this.1, fun hs => this.2 (by simp [hs])⟩
              · simp only [List.map_cons, List.nodup_cons]
                refine ⟨?_, i6⟩
                intro hmem
                obtain ⟨m, hm, hmi⟩ := List.mem_map.mp hmem
                exact (i5 m hm).2 (by simp [hmi])
              · intro hreq m hm
                simp only [Bool.or_eq_false_iff, List.isEmpty_eq_false_iff] at hreq
                simp only [List.mem_cons] at hm
                rcases hm with rfl | hm
                · exact ⟨hreq.1.2, hreq.2⟩
                · exact i7 hreq.1.1 m hm

theorem fillDefaults_spec (cl : List String × List String) (nets : List Net) :
    (fillDefaults cl nets).map (·.iface) = nets.map (·.iface) ∧
    (∀ fn, (∀ n ∈ nets, NetOK fn n) → cl.2.length ≤ 10 → ∀ n ∈ fillDefaults cl nets, NetOK fn n) ∧
    (cl.1 ≠ [] → cl.2 ≠ [] → ∀ n ∈ fillDefaults cl nets, n.iface = "eth0" → n.vsw ≠ [] ∧ n.sgs ≠ []) ∧
    (fillDefaults cl nets).length = nets.length := by
  unfold fillDefaults
  refine ⟨?_, ?_, ?_, by simp⟩
  · simp only [List.map_map]
    congr 1; funext n; simp only [Function.comp]; split <;> rfl
  · intro fn hok hcl m hm
    obtain ⟨n, hn, rfl⟩ := List.mem_map.mp hm
    have := hok n hn
    unfold NetOK at *
    split
    · refine ⟨this.1, this.2.1, ?_, this.2.2.2.1, this.2.2.2.2⟩
      simp only; split
      · exact hcl
      · exact this.2.2.1
    · exact this
  · intro h1 h2 m hm heth
    obtain ⟨n, hn, rfl⟩ := List.mem_map.mp hm
    by_cases he : n.iface = "eth0"
    · simp only [he, if_true]
      constructor
      · split
        · exact h1
        · rename_i hne; simpa using hne
      · split
        · exact h2
        · rename_i hne; simpa using hne
    · simp [he] at heth

/-! ## what a patched pod carries -/

theorem gate_not_patched (p : Pod) (r : Resp) (h : gate p = some r) : ∀ a b c d, r ≠ .patched a b c d := by
  unfold gate at h
  intro a b c d e
  subst e
  split at h
  · cases h
  · split at h
    · cases h
    · split at h
      · cases h
      · split at h <;> cases h

theorem source_not_patched (inp : Input) (r : Resp) (h : source inp = .error r) : ∀ a b c d, r ≠ .patched a b c d := by
  unfold source at h
  intro a b c d e
  subst e
  cases ha : inp.annoNets with
  | none => simp [ha] at h
  | some fa =>
    simp only [ha] at h
    split at h
    · cases h
    · cases hr : inp.reqs with
      | none => simp [hr] at h
      | some rs =>
        simp only [hr] at h
        cases hq : requests inp.pns rs 0 with
        | error e => simp [hq] at h
        | ok v =>
          obtain ⟨n, z⟩ := v
          simp only [hq] at h
          split at h
          · cases h
          · split at h
            · cases h
            · cases hm : matchOne inp.pod.fixedName inp.pns with
              | some pn => simp [hm] at h
              | none => simp only [hm] at h; split at h <;> cases h

/-- the pieces `admitPod` assembles; used to state the theorems without repeating the whole function -/
theorem admit_patched (inp : Input) (nets : List Net) (pa : Option String) (res : Option (String × Nat)) (zt : List (List String))
    (h : admitPod inp = .patched nets pa res zt) :
    ∃ nets0 vsz ns req af,
      validate inp.pod.fixedName nets0 [] = .ok (ns, req, af) ∧
      (nets = ns ∧ req = false ∨ ∃ cl, inp.cluster = some cl ∧ req = true ∧ nets = fillDefaults cl ns) ∧
      res = resourceOf inp nets ∧ zt = zoneTerms inp (prevZones inp af) vsz := by
  unfold admitPod at h
  cases hg : gate inp.pod with
  | some r => simp only [hg] at h; exact absurd h (gate_not_patched _ r hg _ _ _ _)
  | none =>
    simp only [hg] at h
    cases hs : source inp with
    | error r => simp only [hs] at h; exact absurd h (source_not_patched inp r hs _ _ _ _)
    | ok v =>
      obtain ⟨nets0, pnAnno, vsz⟩ := v
      simp only [hs] at h
      unfold finish at h
      cases hv : validate inp.pod.fixedName nets0 [] with
      | error e => cases e <;> simp [hv] at h
      | ok r =>
        obtain ⟨ns, req, af⟩ := r
        simp only [hv] at h
        refine ⟨nets0, vsz, ns, req, af, hv, ?_⟩
        cases req with
        | false =>
          simp only [Bool.false_eq_true, if_false] at h
          injection h with h1 h2 h3 h4
          subst h1
          exact ⟨Or.inl ⟨rfl, rfl⟩, h3.symm, h4.symm⟩
        | true =>
          simp only [if_true] at h
          cases hc : inp.cluster with
          | none => simp [hc] at h
          | some cl =>
            simp only [hc] at h
            injection h with h1 h2 h3 h4
            subst h1
            exact ⟨Or.inr ⟨cl, rfl, rfl, rfl⟩, h3.symm, h4.symm⟩

/-- **Complete spec**: interface names are unique and 1–5 bytes long, at most ten security groups per
    entry (given the cluster configuration itself respects the limit — `ConfigFromConfigMap` refuses
    more), the allocation type is set, and Fixed only on pods with a stable name. -/
theorem c18_complete_spec (inp : Input) (nets : List Net) (pa : Option String) (res : Option (String × Nat)) (zt : List (List String))
    (h : admitPod inp = .patched nets pa res zt) (hcl : ∀ cl, inp.cluster = some cl → cl.2.length ≤ 10) :
    (nets.map (·.iface)).Nodup ∧ ∀ n ∈ nets, NetOK inp.pod.fixedName n := by
  obtain ⟨nets0, vsz, ns, req, af, hv, hn, _, _⟩ := admit_patched inp nets pa res zt h
  have hs := validate_spec _ nets0 [] ns req af hv
  rcases hn with ⟨rfl, _⟩ | ⟨cl, hc, _, rfl⟩
  · exact ⟨hs.2.2.2.2.2.1, fun n hn => (hs.2.2.2.2.1 n hn).1⟩
  · have hf := fillDefaults_spec cl ns
    refine ⟨by rw [hf.1]; exact hs.2.2.2.2.2.1, ?_⟩
    exact hf.2.1 _ (fun n hn => (hs.2.2.2.2.1 n hn).1) (hcl cl hc)

/-- vSwitches and security groups are present on every entry that did not need defaults, and on
    `eth0` after defaulting from a non-empty cluster configuration. -/
theorem c18_vsw_sg_present_partial (inp : Input) (nets : List Net) (pa : Option String) (res : Option (String × Nat)) (zt : List (List String))
    (h : admitPod inp = .patched nets pa res zt) (hcl : ∀ cl, inp.cluster = some cl → cl.1 ≠ [] ∧ cl.2 ≠ []) :
    ∀ n ∈ nets, n.iface = "eth0" → n.vsw ≠ [] ∧ n.sgs ≠ [] := by
  obtain ⟨nets0, vsz, ns, req, af, hv, hn, _, _⟩ := admit_patched inp nets pa res zt h
  have hs := validate_spec _ nets0 [] ns req af hv
  rcases hn with ⟨rfl, hreq⟩ | ⟨cl, hc, _, rfl⟩
  · intro n hn _; exact hs.2.2.2.2.2.2 hreq n hn
  · have hf := fillDefaults_spec cl ns
    exact hf.2.2.1 (hcl cl hc).1 (hcl cl hc).2

/-- The full clause ("each entry has vSwitches and security groups") is FALSE on the current tree for
    entries other than `eth0`: defaults are only filled for `eth0`, so a user-supplied entry without
    vSwitches passes admission as it is.  Kept visible; see the known finding C18/complete/unfilled. -/
theorem c18_non_eth0_unfilled_witness :
    ∃ inp nets pa res zt, admitPod inp = .patched nets pa res zt ∧ ∃ n ∈ nets, n.vsw = [] :=
  ⟨{ pod := ⟨false, 1, false, true, false, false, true, false, false⟩,
     annoNets := some [⟨"eth1", [], [], none, false⟩], reqs := some [], pns := [], nsExists := true, prevZone := none,
     ipamCRD := false, inject := false, enableTrunk := false, cluster := some (["vsw-1"], ["sg-1"]) },
   _, _, _, _, rfl, ⟨"eth1", [], [], some false, false⟩, by simp [fillDefaults], rfl⟩

/-- with resource injection on, the device request equals the number of networks -/
theorem c18_device_request (inp : Input) (nets : List Net) (pa : Option String) (res : Option (String × Nat)) (zt : List (List String))
    (h : admitPod inp = .patched nets pa res zt) (hi : inp.inject = true) (hne : nets ≠ []) :
    ∃ name, res = some (name, nets.length) ∧ (name = "eni" ∨ name = "member-eni") ∧
      (name = "member-eni" → inp.enableTrunk = true ∧ ∀ n ∈ nets, n.attachENI = false) := by
  obtain ⟨_, _, _, _, _, _, _, hres, _⟩ := admit_patched inp nets pa res zt h
  have hemp : nets.isEmpty = false := by cases nets <;> simp_all
  rw [hres]
  unfold resourceOf
  simp only [hi, hemp, Bool.not_true, Bool.or_self, Bool.false_eq_true, if_false]
  by_cases ht : inp.enableTrunk = true
  · by_cases ha : nets.any (·.attachENI) = true
    · exact ⟨"eni", by simp [ht, ha], Or.inl rfl, by intro h; exact absurd h (by decide)⟩
    · refine ⟨"member-eni", by simp [ht, ha], Or.inr rfl, fun _ => ⟨ht, ?_⟩⟩
      intro n hn
      simp only [List.any_eq_true, not_exists, not_and, Bool.not_eq_true] at ha
      exact ha n hn
  · exact ⟨"eni", by simp [ht], Or.inl rfl, by intro h; exact absurd h (by decide)⟩

/-- … whatever the pod template already declared for the device resources: after admission the injected kind is
    present exactly once, with the number of networks as its quantity -/
theorem c18_device_request_overrides_declared (pre : Option Nat) (name : String) (k : Nat) :
    (name, k) ∈ finalResources pre (some (name, k)) ∧ ∀ q, (name, q) ∈ finalResources pre (some (name, k)) → q = k := by
  unfold finalResources
  refine ⟨by simp, ?_⟩
  intro q hq
  simp only [List.mem_append, List.mem_filter, List.mem_singleton, Prod.mk.injEq] at hq
  rcases hq with ⟨_, h⟩ | ⟨_, h⟩
  · simp at h
  · exact h

/-- the zone term for network-request pods lists only zones in which every requested network has a vSwitch -/
theorem c18_zone_subset (pns : List PN) (rs : List Req) : ∀ (idx : Nat) (nets : List Net) (zones : List String),
    requests pns rs idx = .ok (nets, zones) →
    nets.length = rs.length ∧
    ∀ z ∈ zones, ∀ r ∈ rs, ∃ p, pns.find? (·.name = r.network) = some p ∧ z ∈ p.zones ∧ p.ready = true := by
  induction rs with
  | nil => intro idx nets zones h; simp only [requests] at h; injection h with h; simp at h; obtain ⟨rfl, rfl⟩ := h; simp
  | cons r rest ih =>
    intro idx nets zones h
    simp only [requests] at h
    cases hf : pns.find? (·.name = r.network) with
    | none => simp [hf] at h
    | some p =>
      simp only [hf] at h
      split at h
      · cases h
      · rename_i hready
        split at h
        · cases h
        · cases hr : requests pns rest (idx + 1) with
          | error e => simp [hr] at h
          | ok v =>
            obtain ⟨nets', zones'⟩ := v
            simp only [hr] at h
            injection h with h
            simp only [Prod.mk.injEq] at h
            obtain ⟨rfl, rfl⟩ := h
            have := ih (idx + 1) nets' zones' hr
            refine ⟨by simp [this.1], ?_⟩
            intro z hz q hq
            have hrd : p.ready = true := by simpa using hready
            simp only [List.mem_cons] at hq
            split at hz
            · rename_i hemp
              rcases hq with rfl | hq
              · exact ⟨p, hf, hz, hrd⟩
              · simp only [List.isEmpty_iff] at hemp; subst hemp; cases hq
            · simp only [inter, List.mem_filter, decide_eq_true_eq] at hz
              rcases hq with rfl | hq
              · exact ⟨p, hf, hz.1, hrd⟩
              · exact this.2 z hz.2 q hq

/-- a definition is only matched when it is ready, every selector it has accepts the pod, it has at
    least one selector, and Fixed definitions only match pods with a stable name -/
theorem c18_match_sound (fn : Bool) (pns : List PN) (p : PN) (h : matchOne fn pns = some p) :
    p ∈ pns ∧ p.ready = true ∧ p.podSel ≠ some false ∧ p.nsSel ≠ some false ∧
    (p.podSel.isSome = true ∨ p.nsSel.isSome = true) ∧ (p.fixed = true → fn = true) := by
  induction pns with
  | nil => simp [matchOne] at h
  | cons q rest ih =>
    simp only [matchOne] at h
    split at h
    · have := ih h; exact ⟨by simp [this.1], this.2⟩
    · rename_i hr
      split at h
      · have := ih h; exact ⟨by simp [this.1], this.2⟩
      · rename_i hf
        split at h
        · have := ih h; exact ⟨by simp [this.1], this.2⟩
        · rename_i hp
          split at h
          · have := ih h; exact ⟨by simp [this.1], this.2⟩
          · rename_i hn
            split at h
            · rename_i hs
              injection h with h; subst h
              refine ⟨by simp, by simpa using hr, hp, hn, by simpa using hs, ?_⟩
              intro hfx
              by_cases hfn : fn = true
              · exact hfn
              · exfalso; apply hf; simp [hfn, hfx]
            · have := ih h; exact ⟨by simp [this.1], this.2⟩

/-- Fixed allocations are refused for pods without a stable name -/
theorem c18_fixed_needs_stable_name (inp : Input) (nets : List Net) (pa : Option String) (res : Option (String × Nat)) (zt : List (List String))
    (h : admitPod inp = .patched nets pa res zt) (hcl : ∀ cl, inp.cluster = some cl → cl.2.length ≤ 10) :
    ∀ n ∈ nets, n.fixed = some true → inp.pod.fixedName = true :=
  fun n hn hf => ((c18_complete_spec inp nets pa res zt h hcl).2 n hn).2.2.2.2 hf

/-- DaemonSet pods get no zone term -/
theorem c18_daemonset_no_affinity (inp : Input) (nets : List Net) (pa : Option String) (res : Option (String × Nat)) (zt : List (List String))
    (h : admitPod inp = .patched nets pa res zt) (hd : inp.pod.daemonSet = true) : zt = [] := by
  obtain ⟨_, _, _, _, _, _, _, _, hz⟩ := admit_patched inp nets pa res zt h
  rw [hz]; simp [zoneTerms, hd]

end Terway.Props.C18
