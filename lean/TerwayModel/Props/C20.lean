import TerwayModel.Model.Json
import TerwayModel.Model.CniChain
/-
C20 — layered configuration composes predictably; the generated CNI chain is coherent.
-/
namespace Terway.Props.C20
open Terway.Json

/-! ## association-list facts -/

theorem lookup_put_self (d : Kvs) (k : String) (v : Json) : lookup (put d k v) k = some v := by
  induction d with
  | nil => simp [put, lookup]
  | cons e d ih =>
    obtain ⟨a, c⟩ := e
    by_cases h : a = k <;> simp [put, lookup, h, ih]

theorem lookup_put_ne (d : Kvs) (k k' : String) (v : Json) (h : k ≠ k') : lookup (put d k v) k' = lookup d k' := by
  induction d with
  | nil => simp [put, lookup, h]
  | cons e d ih =>
    obtain ⟨a, c⟩ := e
    by_cases ha : a = k
    · subst ha; simp [put, lookup, h]
    · by_cases hb : a = k'
      · subst hb; simp [put, lookup, ha]
      · simp [put, lookup, ha, hb, ih]

theorem lookup_erase_self (d : Kvs) (k : String) : lookup (erase d k) k = none := by
  induction d with
  | nil => rfl
  | cons e d ih =>
    obtain ⟨a, c⟩ := e
    by_cases h : a = k <;> simp [erase, lookup, h, ih]

theorem lookup_erase_ne (d : Kvs) (k k' : String) (h : k ≠ k') : lookup (erase d k) k' = lookup d k' := by
  induction d with
  | nil => rfl
  | cons e d ih =>
    obtain ⟨a, c⟩ := e
    by_cases ha : a = k
    · subst ha; simp [erase, lookup, h, ih]
    · by_cases hb : a = k'
      · subst hb; simp [erase, lookup, ha]
      · simp [erase, lookup, ha, hb, ih]

/-- the value a patch member `v` leaves under its key, given the base value `c` -/
def combine (c : Option Json) (v : Json) : Json :=
  match c with
  | none => prune v
  | some .null => prune v
  | some cur => mergeVal cur v

/-- one patch member applied to the document -/
def stepDoc (d : Kvs) (k : String) (v : Json) : Kvs :=
  if v.isNull then erase d k else put d k (combine (lookup d k) v)

theorem mergeKvs_cons (d : Kvs) (k : String) (v : Json) (rest : Kvs) :
    mergeKvs d ((k, v) :: rest) = mergeKvs (stepDoc d k v) rest := by
  cases v <;> simp only [mergeKvs, stepDoc, Json.isNull, combine, if_true, Bool.false_eq_true, if_false] <;>
    (cases h : lookup d k with
     | none => rfl
     | some c => cases c <;> rfl)

theorem lookup_stepDoc_ne (d : Kvs) (k k' : String) (v : Json) (h : k ≠ k') : lookup (stepDoc d k v) k' = lookup d k' := by
  unfold stepDoc; split
  · exact lookup_erase_ne d k k' h
  · exact lookup_put_ne d k k' _ h

theorem lookup_stepDoc_self (d : Kvs) (k : String) (v : Json) :
    lookup (stepDoc d k v) k = if v.isNull then none else some (combine (lookup d k) v) := by
  unfold stepDoc; split
  · exact lookup_erase_self d k
  · exact lookup_put_self d k _

/-! ## C20 clause 1: merge-patch laws -/

/-- an empty overlay changes nothing -/
theorem c20_empty_overlay (d : Kvs) : mergePatch (.obj d) (.obj []) = some (.obj d) := by
  simp [mergePatch, mergeKvs]

/-- keys absent from the overlay keep the base value -/
theorem c20_absent_keeps (p : Kvs) : ∀ (d : Kvs) (k : String), k ∉ keys p → lookup (mergeKvs d p) k = lookup d k := by
  induction p with
  | nil => intro d k _; simp [mergeKvs]
  | cons e p ih =>
    intro d k hk
    obtain ⟨a, v⟩ := e
    simp only [keys, List.map_cons, List.mem_cons, not_or] at hk
    rw [mergeKvs_cons, ih _ k (by simpa [keys] using hk.2)]
    exact lookup_stepDoc_ne d a k v (Ne.symm hk.1)

/-- what a key-unique overlay leaves under each key: the overlay member combined with the base
    value (deleted for `null`), or the untouched base value -/
theorem lookup_mergeKvs (p : Kvs) (hu : (keys p).Nodup) :
    ∀ (d : Kvs) (k : String), lookup (mergeKvs d p) k =
      match lookup p k with
      | none => lookup d k
      | some v => if v.isNull then none else some (combine (lookup d k) v) := by
  induction p with
  | nil => intro d k; simp [mergeKvs, lookup]
  | cons e p ih =>
    intro d k
    obtain ⟨a, v⟩ := e
    simp only [keys, List.map_cons, List.nodup_cons] at hu
    rw [mergeKvs_cons]
    by_cases hak : a = k
    · subst hak
      have hnot : a ∉ keys p := hu.1
      rw [c20_absent_keeps p _ a hnot, lookup_stepDoc_self]
      simp [lookup]
    · rw [ih (by simpa [keys] using hu.2) _ k]
      simp only [lookup, hak, if_false]
      rw [lookup_stepDoc_ne d a k v hak]

/-- a key present in the overlay with a scalar value takes that value -/
theorem c20_present_wins (d p : Kvs) (hu : (keys p).Nodup) (k : String) (v : Json) (hv : lookup p k = some v)
    (hs : (∃ b, v = .bool b) ∨ (∃ n, v = .num n) ∨ (∃ s, v = .str s)) : lookup (mergeKvs d p) k = some v := by
  rw [lookup_mergeKvs p hu d k, hv]
  rcases hs with ⟨b, rfl⟩ | ⟨n, rfl⟩ | ⟨s, rfl⟩ <;> simp only [Json.isNull, Bool.false_eq_true, if_false] <;>
    (unfold combine; cases lookup d k with
     | none => simp [prune]
     | some c => cases c <;> simp [prune, mergeVal])

/-- a key set to `null` in the overlay is removed -/
theorem c20_null_deletes (d p : Kvs) (hu : (keys p).Nodup) (k : String) (hv : lookup p k = some .null) :
    lookup (mergeKvs d p) k = none := by
  rw [lookup_mergeKvs p hu d k, hv]; simp [Json.isNull]

/-! ## idempotence: applying an overlay twice equals applying it once -/

theorem erase_absent (x : Kvs) (k : String) (h : lookup x k = none) : erase x k = x := by
  induction x with
  | nil => rfl
  | cons e x ih =>
    obtain ⟨a, c⟩ := e
    by_cases ha : a = k
    · simp [lookup, ha] at h
    · simp only [lookup, ha, if_false] at h
      simp [erase, ha, ih h]

theorem put_same (x : Kvs) (k : String) (c : Json) (h : lookup x k = some c) : put x k c = x := by
  induction x with
  | nil => simp [lookup] at h
  | cons e x ih =>
    obtain ⟨a, c'⟩ := e
    by_cases ha : a = k
    · simp only [lookup, ha, if_true, Option.some.injEq] at h
      subst h; simp [put, ha]
    · simp only [lookup, ha, if_false] at h
      simp [put, ha, ih h]

/-- a document that already holds what every patch member would leave is a fixed point -/
theorem mergeKvs_fixed (p : Kvs) : ∀ (x : Kvs),
    (∀ k v, (k, v) ∈ p → (v.isNull = true → lookup x k = none) ∧
      (v.isNull = false → ∃ c, lookup x k = some c ∧ combine (some c) v = c)) → mergeKvs x p = x := by
  induction p with
  | nil => intro x _; simp [mergeKvs]
  | cons e p ih =>
    intro x h
    obtain ⟨a, v⟩ := e
    have hstep : stepDoc x a v = x := by
      have ha := h a v (by simp)
      unfold stepDoc
      cases hv : v.isNull
      · obtain ⟨c, hc, hcomb⟩ := ha.2 hv
        simp only [Bool.false_eq_true, if_false]
        rw [hc, hcomb]; exact put_same x a c hc
      · simp only [if_true]; exact erase_absent x a (ha.1 hv)
    rw [mergeKvs_cons, hstep]
    exact ih x (fun k v hm => h k v (by simp [hm]))

theorem lookup_of_mem (p : Kvs) (hu : (keys p).Nodup) (k : String) (v : Json) (hm : (k, v) ∈ p) : lookup p k = some v := by
  induction p with
  | nil => cases hm
  | cons e p ih =>
    obtain ⟨a, c⟩ := e
    simp only [keys, List.map_cons, List.nodup_cons] at hu
    simp only [List.mem_cons, Prod.mk.injEq] at hm
    rcases hm with ⟨rfl, rfl⟩ | hm
    · simp [lookup]
    · have : a ≠ k := by
        intro e; subst e
        exact hu.1 (List.mem_map.mpr ⟨(a, v), hm, rfl⟩)
      simp only [lookup, this, if_false]
      exact ih (by simpa [keys] using hu.2) hm

theorem prune_nonnull (v : Json) (h : v.isNull = false) : (prune v).isNull = false := by
  cases v <;> simp_all [prune, Json.isNull]

theorem mergeVal_nonnull (cur v : Json) (h : v.isNull = false) : (mergeVal cur v).isNull = false := by
  cases v <;> cases cur <;> simp_all [mergeVal, prune, Json.isNull]

theorem combine_some (c v : Json) (h : c.isNull = false) : combine (some c) v = mergeVal c v := by
  cases c <;> simp_all [combine, Json.isNull]

theorem pruneKvs_cons (k : String) (v : Json) (rest : Kvs) :
    pruneKvs ((k, v) :: rest) = if v.isNull then pruneKvs rest else (k, prune v) :: pruneKvs rest := by
  cases v <;> simp [pruneKvs, Json.isNull]

theorem lookup_pruneKvs_absent (p : Kvs) (k : String) (h : k ∉ keys p) : lookup (pruneKvs p) k = none := by
  induction p with
  | nil => simp [pruneKvs, lookup]
  | cons e p ih =>
    obtain ⟨a, v⟩ := e
    simp only [keys, List.map_cons, List.mem_cons, not_or] at h
    rw [pruneKvs_cons]
    split
    · exact ih (by simpa [keys] using h.2)
    · simp only [lookup, Ne.symm h.1, if_false]; exact ih (by simpa [keys] using h.2)

theorem lookup_pruneKvs (p : Kvs) (hu : (keys p).Nodup) (k : String) (v : Json) (hm : (k, v) ∈ p) :
    lookup (pruneKvs p) k = if v.isNull then none else some (prune v) := by
  induction p with
  | nil => cases hm
  | cons e p ih =>
    obtain ⟨a, c⟩ := e
    simp only [keys, List.map_cons, List.nodup_cons] at hu
    simp only [List.mem_cons, Prod.mk.injEq] at hm
    rw [pruneKvs_cons]
    rcases hm with ⟨rfl, rfl⟩ | hm
    · split
      · exact lookup_pruneKvs_absent p _ hu.1
      · simp [lookup]
    · have hne : a ≠ k := by
        intro e; subst e
        exact hu.1 (List.mem_map.mpr ⟨(a, v), hm, rfl⟩)
      split
      · exact ih (by simpa [keys] using hu.2) hm
      · simp only [lookup, hne, if_false]; exact ih (by simpa [keys] using hu.2) hm

/-- what one member of an overlay must satisfy for the overlay to be idempotent -/
def Absorbs (v : Json) : Prop :=
  mergeVal (prune v) v = prune v ∧ ∀ cur, mergeVal (mergeVal cur v) v = mergeVal cur v

theorem pruneKvs_fixed (p : Kvs) (hu : (keys p).Nodup)
    (hm : ∀ k v, (k, v) ∈ p → v.isNull = false → Absorbs v) : mergeKvs (pruneKvs p) p = pruneKvs p := by
  apply mergeKvs_fixed
  intro k v hkv
  have hl := lookup_pruneKvs p hu k v hkv
  constructor
  · intro hn; simpa [hn] using hl
  · intro hn
    refine ⟨prune v, by simpa [hn] using hl, ?_⟩
    rw [combine_some _ _ (prune_nonnull v hn)]
    exact (hm k v hkv hn).1

theorem mergeKvs_idem (d p : Kvs) (hu : (keys p).Nodup)
    (hm : ∀ k v, (k, v) ∈ p → v.isNull = false → Absorbs v) : mergeKvs (mergeKvs d p) p = mergeKvs d p := by
  apply mergeKvs_fixed
  intro k v hkv
  have hl := lookup_mergeKvs p hu d k
  rw [lookup_of_mem p hu k v hkv] at hl
  constructor
  · intro hn; simpa [hn] using hl
  · intro hn
    simp only [hn, Bool.false_eq_true, if_false] at hl
    refine ⟨_, hl, ?_⟩
    have ha := hm k v hkv hn
    unfold combine
    cases hd : lookup d k with
    | none =>
      show combine (some (prune v)) v = prune v
      rw [combine_some _ _ (prune_nonnull v hn)]; exact ha.1
    | some c =>
      cases c with
      | null =>
        show combine (some (prune v)) v = prune v
        rw [combine_some _ _ (prune_nonnull v hn)]; exact ha.1
      | bool b => show combine (some (mergeVal (.bool b) v)) v = _; rw [combine_some _ _ (mergeVal_nonnull _ v hn)]; exact ha.2 _
      | num n => show combine (some (mergeVal (.num n) v)) v = _; rw [combine_some _ _ (mergeVal_nonnull _ v hn)]; exact ha.2 _
      | str s => show combine (some (mergeVal (.str s) v)) v = _; rw [combine_some _ _ (mergeVal_nonnull _ v hn)]; exact ha.2 _
      | arr xs => show combine (some (mergeVal (.arr xs) v)) v = _; rw [combine_some _ _ (mergeVal_nonnull _ v hn)]; exact ha.2 _
      | obj kvs => show combine (some (mergeVal (.obj kvs) v)) v = _; rw [combine_some _ _ (mergeVal_nonnull _ v hn)]; exact ha.2 _

mutual
/-- well-formed overlay: objects have distinct keys (they come out of a Go map), and a non-object
    member is unchanged by `pruneNulls` (no `null` inside the objects of its arrays) -/
def Good : Json → Prop
  | .obj kvs => (keys kvs).Nodup ∧ GoodKvs kvs
  | v => prune v = v
def GoodKvs : Kvs → Prop
  | [] => True
  | (_, v) :: rest => Good v ∧ GoodKvs rest
end

mutual
theorem absorbs_of_good : (v : Json) → Good v → Absorbs v
  | .obj pv, hg => by
    have hg' : (keys pv).Nodup ∧ GoodKvs pv := by simpa [Good] using hg
    have hm := absorbs_members pv hg'.2
    constructor
    · simp only [prune, mergeVal]
      rw [pruneKvs_fixed pv hg'.1 hm]
    · intro cur
      cases cur <;> simp only [mergeVal] <;>
        first
          | rw [pruneKvs_fixed pv hg'.1 hm]
          | rw [mergeKvs_idem _ pv hg'.1 hm]
  | .null, _ => by constructor <;> (try intro cur) <;> (try cases cur) <;> simp [mergeVal, prune]
  | .bool b, _ => by constructor <;> (try intro cur) <;> (try cases cur) <;> simp [mergeVal, prune]
  | .num n, _ => by constructor <;> (try intro cur) <;> (try cases cur) <;> simp [mergeVal, prune]
  | .str s, _ => by constructor <;> (try intro cur) <;> (try cases cur) <;> simp [mergeVal, prune]
  | .arr xs, hg => by
    have hp : prune (.arr xs) = .arr xs := by simpa [Good] using hg
    constructor
    · rw [hp]; simp only [mergeVal]; exact hp
    · intro cur
      cases cur <;> simp only [mergeVal] <;> (try rw [hp]) <;> simp only [mergeVal] <;> (try exact hp)
theorem absorbs_members : (p : Kvs) → GoodKvs p → ∀ k v, (k, v) ∈ p → v.isNull = false → Absorbs v
  | [], _ => by intro k v h; cases h
  | (a, c) :: rest, hg => by
    have hg' : Good c ∧ GoodKvs rest := by simpa [GoodKvs] using hg
    intro k v h _
    simp only [List.mem_cons, Prod.mk.injEq] at h
    rcases h with ⟨_, rfl⟩ | h
    · exact absorbs_of_good v hg'.1
    · exact absorbs_members rest hg'.2 k v h ‹_›
end

/-- **Applying an overlay twice equals applying it once** (document level, evanphx semantics), for
    overlays whose objects have distinct keys and whose arrays contain no object with a `null` member. -/
theorem c20_idempotent (d p : Kvs) (hg : Good (.obj p)) :
    mergeKvs (mergeKvs d p) p = mergeKvs d p := by
  have hg' : (keys p).Nodup ∧ GoodKvs p := by simpa [Good] using hg
  exact mergeKvs_idem d p hg'.1 (absorbs_members p hg'.2)

/-- The side condition on arrays cannot be dropped for this library: when an array replaces an
    object, evanphx keeps the `null` members of the array's objects the first time and prunes them
    the second time.  (At the level of the decoded `Config` both decode alike; the harness checks
    idempotence there on the real `MergeConfigAndUnmarshal`.) -/
theorem c20_idempotent_needs_clean_arrays :
    let d : Kvs := [("a", .obj [("x", .num 1)])]
    let p : Kvs := [("a", .arr [.obj [("y", .null)]])]
    mergeKvs (mergeKvs d p) p ≠ mergeKvs d p := by
  simp [mergeKvs, lookup, put, mergeVal, prune, pruneList, pruneKvs]

/-! ## C20 clause 2: the generated CNI plugin chain -/

section chain
open Terway.CniChain

def typeOf : Json → Option String
  | .obj kvs => strOf (lookup kvs "type")
  | _ => none

def vtypeOf : Json → Option Json
  | .obj kvs => lookup kvs "eniip_virtual_type"
  | _ => none

def bwOf : Json → Option Json
  | .obj kvs => lookup kvs "bandwidth_mode"
  | _ => none

/-- an input plugin is kept unless it is the eBPF chainer on a kernel without eBPF -/
def keep (env : Env) (p : Json) : Bool := !(typeOf p = some "cilium-cni" && !env.ebpf)

/-- what holds of every plugin of the output list -/
def PluginOK (env : Env) (p : Json) : Prop :=
  (env.ebpf = false → typeOf p ≠ some "cilium-cni") ∧
  (typeOf p = some "terway" →
    if env.ebpf then
      (vtypeOf p = some (.str "veth") ∨ vtypeOf p = some (.str "ipvlan") ∨ vtypeOf p = some (.str "datapathv2")) ∧
      (bwOf p = some (.str "edt") ∨ bwOf p = some (.str "tc"))
    else vtypeOf p = none)

structure AccInv (env : Env) (acc : Acc) : Prop where
  plugins : ∀ p ∈ acc.out, PluginOK env p
  require : env.ebpf = true → (acc.datapath = "ipvlan" ∨ acc.datapath = "datapathv2") → acc.require = true
  exist : acc.exist = true → ∃ p ∈ acc.out, typeOf p = some "cilium-cni"

theorem type_after_strip (kvs : Kvs) :
    lookup (erase (erase kvs "cniVersion") "name") "type" = lookup kvs "type" := by
  rw [lookup_erase_ne _ _ _ (by decide), lookup_erase_ne _ _ _ (by decide)]

theorem inv_append (env : Env) (acc : Acc) (hi : AccInv env acc) (q : Json) (hq : PluginOK env q)
    (req : Bool) (dp : String) (ex : Bool) (edt : Bool) (npp : String)
    (hreq : env.ebpf = true → (dp = "ipvlan" ∨ dp = "datapathv2") → req = true)
    (hex : ex = true → acc.exist = true ∨ typeOf q = some "cilium-cni") :
    AccInv env { require := req, exist := ex, datapath := dp, edt := edt, npp := npp, out := acc.out ++ [q] } := by
  refine ⟨?_, hreq, ?_⟩
  · intro r hr
    simp only [List.mem_append, List.mem_singleton] at hr
    rcases hr with hr | rfl
    · exact hi.plugins r hr
    · exact hq
  · intro h
    rcases hex h with h1 | h1
    · obtain ⟨r, hr, hrt⟩ := hi.exist h1
      exact ⟨r, by simp [hr], hrt⟩
    · exact ⟨q, by simp, h1⟩

theorem stepTerway_spec (env : Env) (acc acc' : Acc) (kvs : Kvs) (npp : String) (hi : AccInv env acc)
    (hts : strOf (lookup kvs "type") = some "terway") (h : stepTerway env acc kvs npp = .ok acc') :
    AccInv env acc' ∧ acc'.out.map typeOf = acc.out.map typeOf ++ [some "terway"] := by
  unfold stepTerway at h
  by_cases he : env.ebpf = false
  · simp only [he, if_true] at h
    injection h with h; subst h
    have hty : typeOf (.obj (erase kvs "eniip_virtual_type")) = some "terway" := by
      simp only [typeOf]; rw [lookup_erase_ne _ _ _ (by decide), hts]
    refine ⟨inv_append env acc hi _ ⟨fun _ => by rw [hty]; simp, fun _ => ?_⟩ _ _ _ _ _
      (fun hf => by simp [he] at hf) (fun hx => Or.inl hx), by simp [hty]⟩
    simp only [he, Bool.false_eq_true, if_false, vtypeOf]; exact lookup_erase_self _ _
  · have he' : env.ebpf = true := by simpa using he
    simp only [he', Bool.true_eq_false, if_false] at h
    generalize (chooseDatapath env npp ((strOf (lookup kvs "eniip_virtual_type")).getD "veth")).getD acc.datapath = dp at h
    by_cases hv : dp = "veth"
    · simp only [hv, if_true] at h
      injection h with h; subst h
      have hty : typeOf (.obj (put (put kvs "eniip_virtual_type" (.str "veth")) "bandwidth_mode" (.str "tc"))) = some "terway" := by
        simp only [typeOf]; rw [lookup_put_ne _ _ _ _ (by decide), lookup_put_ne _ _ _ _ (by decide), hts]
      refine ⟨inv_append env acc hi _ ⟨fun hf => by simp [he'] at hf, fun _ => ?_⟩ _ _ _ _ _
        (fun _ hd => by simp at hd) (fun hx => Or.inl hx), by simp [hty]⟩
      simp only [he', if_true, vtypeOf, bwOf]
      exact ⟨Or.inl (by rw [lookup_put_ne _ _ _ _ (by decide), lookup_put_self]), Or.inr (by rw [lookup_put_self])⟩
    · simp only [hv, if_false] at h
      by_cases hiv : dp = "ipvlan" ∨ dp = "datapathv2"
      · simp only [hiv, if_true] at h
        injection h with h; subst h
        have hty : typeOf (.obj (put (put kvs "eniip_virtual_type" (.str dp)) "bandwidth_mode"
            (.str (if acc.edt = true then "edt" else "tc")))) = some "terway" := by
          simp only [typeOf]; rw [lookup_put_ne _ _ _ _ (by decide), lookup_put_ne _ _ _ _ (by decide), hts]
        refine ⟨inv_append env acc hi _ ⟨fun hf => by simp [he'] at hf, fun _ => ?_⟩ _ _ _ _ _
          (fun _ _ => rfl) (fun hx => Or.inl hx), by simp [hty]⟩
        simp only [he', if_true, vtypeOf, bwOf]
        refine ⟨?_, ?_⟩
        · rw [lookup_put_ne _ _ _ _ (by decide), lookup_put_self]
          rcases hiv with rfl | rfl <;> simp
        · rw [lookup_put_self]; cases acc.edt <;> simp
      · simp [hiv] at h

/-- one loop iteration: the type sequence grows by the kept plugin, the invariant is preserved -/
theorem step_spec (env : Env) (acc acc' : Acc) (p : Json) (hi : AccInv env acc)
    (h : stepPlugin env acc p = .ok acc') :
    AccInv env acc' ∧
    acc'.out.map typeOf = acc.out.map typeOf ++ (if keep env p then [typeOf p] else []) := by
  cases p with
  | obj kvs0 =>
    simp only [stepPlugin] at h
    have hty0 : typeOf (.obj kvs0) = strOf (lookup (erase (erase kvs0 "cniVersion") "name") "type") := by
      simp [typeOf, type_after_strip]
    generalize erase (erase kvs0 "cniVersion") "name" = kvs at h hty0
    cases hts : strOf (lookup kvs "type") with
    | none => simp [hts] at h
    | some ty =>
      simp only [hts] at h
      have htyp : typeOf (.obj kvs0) = some ty := by rw [hty0, hts]
      by_cases hc : ty = "cilium-cni"
      · subst hc
        simp only [if_true] at h
        by_cases he : env.ebpf = false
        · simp only [he, if_true] at h
          injection h with h; subst h
          exact ⟨hi, by simp [keep, htyp, he]⟩
        · have he' : env.ebpf = true := by simpa using he
          simp only [he', Bool.true_eq_false, if_false] at h
          injection h with h; subst h
          have hnew : typeOf (.obj (put kvs "datapath" (.str acc.datapath))) = some "cilium-cni" := by
            simp only [typeOf]; rw [lookup_put_ne _ _ _ _ (by decide)]; exact hts
          refine ⟨inv_append env acc hi _ ⟨fun hf => by simp [he'] at hf, fun ht => by rw [hnew] at ht; simp at ht⟩
            _ _ _ _ _ (fun _ _ => rfl) (fun _ => Or.inr hnew), ?_⟩
          simp [keep, htyp, he', hnew]
      · simp only [hc, if_false] at h
        by_cases ht : ty = "terway"
        · subst ht
          simp only [if_true] at h
          cases hn : nppOf acc kvs with
          | error e => simp [hn] at h
          | ok npp =>
            simp only [hn] at h
            have := stepTerway_spec env acc acc' kvs npp hi hts h
            refine ⟨this.1, ?_⟩
            rw [this.2]; simp [keep, htyp]
        · simp only [ht, if_false] at h
          injection h with h; subst h
          have hnew : typeOf (.obj kvs) = some ty := by simp [typeOf, hts]
          refine ⟨inv_append env acc hi _ ⟨fun _ hf => hc (by rw [hnew] at hf; injection hf),
            fun hf => absurd (by rw [hnew] at hf; injection hf) ht⟩ _ _ _ _ _ hi.require (fun hx => Or.inl hx), ?_⟩
          have hkeep : keep env (.obj kvs0) = true := by simp [keep, htyp, hc]
          simp [hkeep, hnew, htyp]
  | null => simp [stepPlugin] at h
  | bool b => simp [stepPlugin] at h
  | num n => simp [stepPlugin] at h
  | str s => simp [stepPlugin] at h
  | arr xs => simp [stepPlugin] at h

theorem run_spec (env : Env) (ps : List Json) : ∀ (acc acc' : Acc), AccInv env acc → runPlugins env acc ps = .ok acc' →
    AccInv env acc' ∧ acc'.out.map typeOf = acc.out.map typeOf ++ (ps.filter (keep env)).map typeOf := by
  induction ps with
  | nil => intro acc acc' hi h; simp only [runPlugins] at h; injection h with h; subst h; exact ⟨hi, by simp⟩
  | cons p ps ih =>
    intro acc acc' hi h
    simp only [runPlugins] at h
    cases hs : stepPlugin env acc p with
    | error e => simp [hs] at h
    | ok acc1 =>
      simp only [hs] at h
      have h1 := step_spec env acc acc1 p hi hs
      have h2 := ih acc1 acc' h1.1 h
      refine ⟨h2.1, ?_⟩
      rw [h2.2, h1.2]
      by_cases hk : keep env p = true <;> simp [List.filter, hk]

theorem init_inv (env : Env) : AccInv env { edt := env.edt } := by
  refine ⟨?_, ?_, ?_⟩
  · intro p h; cases h
  · intro _ h
    have e : ({ edt := env.edt } : Acc).datapath = "" := rfl
    rw [e] at h
    rcases h with h | h <;> exact absurd h (by decide)
  · intro h; cases h

/-- **Order**: the output keeps the input plugin order (the eBPF chainer is dropped on a kernel
    without eBPF), followed by at most one appended chainer. -/
theorem c20_chain_order (env : Env) (ps out : List Json) (h : mergeConfigList env ps = .ok out) :
    ∃ tail, (tail = [] ∨ tail = [some "cilium-cni"]) ∧
      out.map typeOf = (ps.filter (keep env)).map typeOf ++ tail := by
  unfold mergeConfigList at h
  cases hr : runPlugins env { edt := env.edt } ps with
  | error e => simp [hr] at h
  | ok acc =>
    simp only [hr] at h
    injection h with h
    have := (run_spec env ps _ acc (init_inv env) hr).2
    simp only [List.map_nil, List.nil_append] at this
    split at h
    · subst h; exact ⟨[some "cilium-cni"], Or.inr rfl, by simp [this, chainer, typeOf, lookup, strOf]⟩
    · subst h; exact ⟨[], Or.inl rfl, by simp [this]⟩

/-- **Domain**: every terway plugin carries a virtual type and a bandwidth mode from the supported
    sets when eBPF is available (no virtual type at all otherwise), and **no chainer on a kernel
    without eBPF support**. -/
theorem c20_chain_domain (env : Env) (ps out : List Json) (h : mergeConfigList env ps = .ok out) :
    ∀ p ∈ out, PluginOK env p := by
  unfold mergeConfigList at h
  cases hr : runPlugins env { edt := env.edt } ps with
  | error e => simp [hr] at h
  | ok acc =>
    simp only [hr] at h
    injection h with h
    have hinv := (run_spec env ps _ acc (init_inv env) hr).1
    intro p hp
    split at h
    · rename_i hcond
      subst h
      simp only [List.mem_append, List.mem_singleton] at hp
      rcases hp with hp | rfl
      · exact hinv.plugins p hp
      · refine ⟨fun hf => by simp [hf] at hcond, fun ht => ?_⟩
        simp [chainer, typeOf, lookup, strOf] at ht
    · subst h; exact hinv.plugins p hp

theorem c20_no_chainer_without_ebpf (env : Env) (ps out : List Json) (h : mergeConfigList env ps = .ok out)
    (he : env.ebpf = false) : ∀ p ∈ out, typeOf p ≠ some "cilium-cni" :=
  fun p hp => (c20_chain_domain env ps out h p hp).1 he

/-- **Chainer present when required**: with eBPF, if the datapath selected by the (last) terway
    plugin is ipvlan or datapath v2, the output contains an eBPF chainer. -/
theorem c20_chainer_when_required (env : Env) (ps out : List Json) (acc : Acc)
    (hr : runPlugins env { edt := env.edt } ps = .ok acc) (h : mergeConfigList env ps = .ok out)
    (he : env.ebpf = true) (hd : acc.datapath = "ipvlan" ∨ acc.datapath = "datapathv2") :
    ∃ p ∈ out, typeOf p = some "cilium-cni" := by
  have hinv := (run_spec env ps _ acc (init_inv env) hr).1
  have hreq := hinv.require he hd
  unfold mergeConfigList at h
  simp only [hr] at h
  injection h with h
  by_cases hex : acc.exist = true
  · obtain ⟨q, hq, hqt⟩ := hinv.exist hex
    have : ¬ (env.ebpf = true ∧ acc.require = true ∧ (!acc.exist) = true) := by simp [hex]
    simp only [this, if_false] at h
    subst h; exact ⟨q, hq, hqt⟩
  · have : env.ebpf = true ∧ acc.require = true ∧ (!acc.exist) = true := ⟨he, hreq, by simpa using hex⟩
    simp only [this, and_self, if_true] at h
    subst h
    exact ⟨chainer acc.datapath, by simp, by simp [chainer, typeOf, lookup, strOf]⟩

/-- **Datapath decision table**: a supported requested type always selects a supported datapath;
    veth is upgraded to datapath v2 exactly when the provider is eBPF and the node allows it, ipvlan
    exactly when the switch says so; anything else selects nothing (and the plugin is then rejected
    unless an earlier plugin already fixed the datapath). -/
theorem c20_datapath_decision (env : Env) (npp vtype : String) :
    (lower vtype = "veth" ∨ lower vtype = "" →
      chooseDatapath env npp vtype = some (if npp = "ebpf" ∧ allowEBPF env = true then "datapathv2" else "veth")) ∧
    (lower vtype = "ipvlan" → chooseDatapath env npp vtype = some (if env.switchV2 then "datapathv2" else "ipvlan")) ∧
    (lower vtype = "datapathv2" → chooseDatapath env npp vtype = some "datapathv2") ∧
    (lower vtype ≠ "veth" → lower vtype ≠ "" → lower vtype ≠ "ipvlan" → lower vtype ≠ "datapathv2" →
      chooseDatapath env npp vtype = none) := by
  unfold chooseDatapath
  refine ⟨?_, ?_, ?_, ?_⟩
  · intro h; simp [h]
  · intro h; simp [h]
  · intro h; simp [h]
  · intro h1 h2 h3 h4; simp [h1, h2, h3, h4]

/-- `allowEBPFNetworkPolicy`: a recorded capability wins, then an existing cilium_net link, then the request -/
theorem c20_allow_ebpf_table (env : Env) :
    (env.prevCilium = some true → allowEBPF env = true) ∧ (env.prevCilium = some false → allowEBPF env = false) ∧
    (env.prevCilium = none → env.ciliumLink = true → allowEBPF env = true) ∧
    (env.prevCilium = none → env.ciliumLink = false → allowEBPF env = env.policy) := by
  unfold allowEBPF
  refine ⟨?_, ?_, ?_, ?_⟩ <;> intro h <;> simp [h] <;> intro h2 <;> simp [h2]

/-- C20, "the list generated on a node": what a run of `terway-cli cni` leaves at `--output` is the rendering of the list it
generated, whatever an earlier run left there (a longer file, a shorter one, none) -/
theorem c20_generated_file_is_the_new_list (render : List Json → List UInt8) (env : Env) (ps out : List Json) (old : List UInt8)
    (h : mergeConfigList env ps = .ok out) : generate render env ps old = .ok (render out) := by
  simp [generate, h, writeFile]

theorem c20_generated_file_ignores_previous (render : List Json → List UInt8) (env : Env) (ps : List Json) (old old' : List UInt8) :
    generate render env ps old = generate render env ps old' := by
  unfold generate; cases mergeConfigList env ps <;> rfl

/-- why the truncation matters: a write at offset 0 that does not truncate leaves the tail of a longer old file behind the
new document -/
theorem c20_overwrite_keeps_tail (old new : List UInt8) (h : new.length < old.length) : overwrite old new ≠ new := by
  intro he
  have hl := congrArg List.length he
  simp [overwrite] at hl
  omega

example : overwrite [1, 2, 3, 4] [9, 9] = [9, 9, 3, 4] ∧ writeFile [1, 2, 3, 4] [9, 9] = [9, 9] := by decide

end chain

end Terway.Props.C20
