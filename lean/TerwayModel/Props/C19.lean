import TerwayModel.Model.Capacity
/-
C19 — advertised node capacity never exceeds what the instance can deliver (capacity ratio at its
default 1 and no positive capacity shift).
-/
namespace Terway.Props.C19
open Terway.Capacity

/-! ## instance-type limits -/

/-- `getInstanceType` clamps every per-interface quantity at zero -/
theorem c19_limits_nonneg (t : InstanceType) :
    0 ≤ (getInstanceType t).ipv4Per ∧ 0 ≤ (getInstanceType t).ipv6Per ∧ 0 ≤ (getInstanceType t).member ∧
    0 ≤ (getInstanceType t).maxMember ∧ 0 ≤ (getInstanceType t).erdmaAdapters := by
  simp only [getInstanceType]; omega

/-- the member-ENI limit is total − eni, and zero without trunk support -/
theorem c19_member_limit (t : InstanceType) :
    (getInstanceType t).member ≤ max (t.eniTotal - t.eniQuantity) 0 ∧
    (t.trunkSupported = false → (getInstanceType t).member = 0 ∧ (getInstanceType t).maxMember = 0) := by
  simp only [getInstanceType]
  constructor
  · split <;> omega
  · intro h; simp [h]

/-- RDMA interfaces that may be used: never more than the type has, at most two, none on small types -/
theorem c19_erdma_res (l : Limits) :
    0 ≤ l.erdmaRes ∧ l.erdmaRes ≤ 2 ∧ (0 ≤ l.erdmaAdapters → l.erdmaRes ≤ l.erdmaAdapters) ∧
    (0 < l.erdmaRes → 2 < l.adapters ∧ 0 < l.erdmaAdapters) := by
  unfold Limits.erdmaRes
  split
  · omega
  · split <;> omega

/-! ## daemon (legacy pool) -/

/-- interface slots: at most the attachable secondary interfaces -/
theorem c19_slots_daemon (cfg : Cfg) (mode : Mode) (l : Limits) (hs : cfg.eniCapShift ≤ 0) (ha : 1 ≤ l.adapters) :
    (poolConfig cfg mode l).maxENI ≤ l.adapters - 1 := by
  cases mode <;> simp only [poolConfig]
  · split <;> omega
  · omega

/-- pod-IP capacity: slots × addresses per interface, at most (adapters − 1) × addresses per interface -/
theorem c19_ip_capacity_daemon (cfg : Cfg) (mode : Mode) (l : Limits) (hs : cfg.eniCapShift ≤ 0) (ha : 1 ≤ l.adapters)
    (hip : 0 ≤ l.ipv4Per) :
    (poolConfig cfg mode l).capacity = (poolConfig cfg mode l).maxENI * (poolConfig cfg mode l).maxIPPerENI ∧
    (poolConfig cfg mode l).capacity ≤ (l.adapters - 1) * l.ipv4Per := by
  have hm := c19_slots_daemon cfg mode l hs ha
  cases mode
  · simp only [poolConfig] at hm ⊢
    exact ⟨trivial, Int.mul_le_mul_of_nonneg_right hm hip⟩
  · simp only [poolConfig]
    exact ⟨by simp, Int.mul_nonneg (by omega) hip⟩

/-- pool watermarks: 0 ≤ min ≤ max ≤ capacity (non-negative configured sizes, no capacity shift) -/
theorem c19_watermarks (cfg : Cfg) (mode : Mode) (l : Limits) (hs : cfg.eniCapShift = 0) (ha : 1 ≤ l.adapters)
    (hip : 0 ≤ l.ipv4Per) (hmax : 0 ≤ cfg.maxPool) (hmin : 0 ≤ cfg.minPool) :
    0 ≤ (poolConfig cfg mode l).minPool ∧ (poolConfig cfg mode l).minPool ≤ (poolConfig cfg mode l).maxPool ∧
    (poolConfig cfg mode l).maxPool ≤ (poolConfig cfg mode l).capacity := by
  cases mode
  · simp only [poolConfig]
    generalize hM : (if cfg.maxENI > 0 ∧ cfg.maxENI < l.adapters + cfg.eniCapShift - 1 then cfg.maxENI
      else l.adapters + cfg.eniCapShift - 1) = maxENI
    have hMnn : 0 ≤ maxENI := by rw [← hM]; split <;> omega
    have hcap : 0 ≤ maxENI * l.ipv4Per := Int.mul_nonneg hMnn hip
    generalize maxENI * l.ipv4Per = capacity at hcap
    have hminE : cfg.minENI > 0 → 0 ≤ cfg.minENI * l.ipv4Per := fun h => Int.mul_nonneg (by omega) hip
    generalize cfg.minENI * l.ipv4Per = me at hminE
    by_cases hcrd : cfg.ipamCRD = true
    · simp only [hcrd, if_true]; omega
    · simp only [hcrd]
      by_cases h1 : cfg.maxPool > capacity <;> by_cases h2 : cfg.minENI > 0 <;> simp only [h1, h2, if_true, if_false]
      all_goals (have := hminE; split <;> omega)
  · simp [poolConfig]

/-- RDMA capacity: usable RDMA interfaces × addresses per interface, only when enabled -/
theorem c19_erdma_capacity (cfg : Cfg) (mode : Mode) (l : Limits) (hip : 0 ≤ l.ipv4Per) (he : 0 ≤ l.erdmaAdapters) :
    (poolConfig cfg mode l).erdmaCap ≤ l.erdmaAdapters * l.ipv4Per ∧
    (cfg.enableERDMA = false → (poolConfig cfg mode l).erdmaCap = 0) := by
  have hr := c19_erdma_res l
  cases mode <;> simp only [poolConfig]
  · constructor
    · split
      · exact Int.mul_le_mul_of_nonneg_right (hr.2.2.1 he) hip
      · exact Int.mul_nonneg he hip
    · intro h; simp [h]
  · exact ⟨Int.mul_nonneg he hip, fun _ => trivial⟩

/-- features the instance type lacks are switched off by the daemon -/
theorem c19_feature_gating_daemon (l : Limits) (mode : Mode) (cfg : Cfg) (os : Bool) :
    (l.ipv6Per ≤ 0 → (checkInstance l mode cfg os).ipv6 = false) ∧
    (mode = .multiIP → l.ipv6Per ≠ l.ipv4Per → (checkInstance l mode cfg os).ipv6 = false) ∧
    (l.member ≤ 0 → (checkInstance l mode cfg os).trunk = false) ∧
    (l.erdmaRes ≤ 0 → (checkInstance l mode cfg os).erdma = false) ∧
    (os = false → (checkInstance l mode cfg os).erdma = false) := by
  simp only [checkInstance, Limits.supportIPv6, Limits.supportMultiIPIPv6]
  refine ⟨?_, ?_, ?_, ?_, ?_⟩
  · intro h; simp; intro _ h2; omega
  · intro hm hne; simp [hm, hne]
  · intro h; simp; intro _; omega
  · intro h; simp; intro _ h2; omega
  · intro h; simp [h]

/-! ## CRD mode: Node CR switches, flavor, controller annotations -/

theorem slots_flavorOf (t e : Bool) (std : Int) :
    slots (flavorOf t e std) = (if t then 1 else 0) + (if e then 1 else 0) + std := by
  cases t <;> cases e <;> simp [slots, flavorOf] <;> omega

theorem flavor_arith (cap : NodeCap) (sw : Switches) :
    (if hasTrunk cap sw then 1 else 0) + (if hasErdma cap sw then 1 else 0) + afterErdma cap sw = cap.adapters - 1 ∧
    (1 ≤ cap.adapters → 0 ≤ afterErdma cap sw) := by
  unfold afterErdma hasErdma afterTrunk hasTrunk
  cases sw.trunk <;> cases sw.erdma <;> simp <;> (constructor <;> (try intro _) <;> (repeat' split) <;> omega)

theorem mem_flavorOf (t e : Bool) (std : Int) (f : Flavor) :
    f ∈ flavorOf t e std ↔ (t = true ∧ f = ⟨.trunk, 1⟩) ∨ (e = true ∧ f = ⟨.erdma, 1⟩) ∨ f = ⟨.standard, std⟩ := by
  cases t <;> cases e <;> simp [flavorOf]

/-- CRD mode: the interface slots sum to exactly the attachable secondary interfaces, none negative -/
theorem c19_flavor_slots (cap : NodeCap) (sw : Switches) (ha : 1 ≤ cap.adapters) :
    slots (flavor cap sw) = cap.adapters - 1 ∧ (∀ f ∈ flavor cap sw, 0 ≤ f.count) := by
  have h := flavor_arith cap sw
  constructor
  · unfold flavor; rw [slots_flavorOf]; exact h.1
  · intro f hf
    unfold flavor at hf
    rw [mem_flavorOf] at hf
    have := h.2 ha
    rcases hf with ⟨_, rfl⟩ | ⟨_, rfl⟩ | rfl
    · decide
    · decide
    · exact this

/-- a trunk / RDMA slot exists only when the feature is enabled, and then exactly one -/
theorem c19_flavor_gated (cap : NodeCap) (sw : Switches) (f : Flavor) (hf : f ∈ flavor cap sw) :
    (f.kind = .trunk → sw.trunk = true ∧ f.count = 1) ∧ (f.kind = .erdma → sw.erdma = true ∧ f.count = 1) := by
  unfold flavor at hf
  rw [mem_flavorOf] at hf
  have ht : hasTrunk cap sw = true → sw.trunk = true := by unfold hasTrunk; cases sw.trunk <;> simp
  have he : hasErdma cap sw = true → sw.erdma = true := by unfold hasErdma; cases sw.erdma <;> simp
  rcases hf with ⟨h1, rfl⟩ | ⟨h2, rfl⟩ | rfl
  · exact ⟨fun _ => ⟨ht h1, rfl⟩, fun h => (by cases h)⟩
  · exact ⟨fun h => (by cases h), fun _ => ⟨he h2, rfl⟩⟩
  · exact ⟨fun h => (by cases h), fun h => (by cases h)⟩

theorem annoIPs_flavorOf (t e : Bool) (std ip : Int) :
    annoIPs false (flavorOf t e std) ip = (if t then ip else 0) + std * ip ∧ annoIPs true (flavorOf t e std) ip = std := by
  cases t <;> cases e <;> simp [annoIPs, flavorOf]

/-- the controller's `max-available-ip` (and the exclusive-ENI device count): at most slots × addresses
    per interface, resp. at most the attachable secondary interfaces -/
theorem c19_anno_ips (cap : NodeCap) (sw : Switches) (ha : 1 ≤ cap.adapters) (hip : 0 ≤ cap.ipv4Per) :
    annoIPs false (flavor cap sw) cap.ipv4Per ≤ (cap.adapters - 1) * cap.ipv4Per ∧
    annoIPs true (flavor cap sw) cap.ipv4Per ≤ cap.adapters - 1 := by
  have h := flavor_arith cap sw
  have hnn := h.2 ha
  unfold flavor
  rw [(annoIPs_flavorOf _ _ _ _).1, (annoIPs_flavorOf _ _ _ _).2]
  constructor
  · have e : (cap.adapters - 1) * cap.ipv4Per =
        ((if hasTrunk cap sw then 1 else 0) + (if hasErdma cap sw then 1 else 0) + afterErdma cap sw) * cap.ipv4Per := by
      rw [h.1]
    rw [e, Int.add_mul, Int.add_mul]
    have hk : 0 ≤ afterErdma cap sw * cap.ipv4Per := Int.mul_nonneg hnn hip
    generalize afterErdma cap sw * cap.ipv4Per = k at hk
    cases hasTrunk cap sw <;> cases hasErdma cap sw <;> simp <;> omega
  · have h1 := h.1
    generalize hasTrunk cap sw = t at h1
    generalize hasErdma cap sw = e at h1
    cases t <;> cases e <;> simp at h1 <;> omega

/-- CRD-mode feature switches follow the instance type -/
theorem c19_feature_gating_crd (cap : NodeCap) (cfg : Cfg) (os excl : Bool) (s : Switches)
    (h : crdSwitches cap cfg os excl = some s) :
    (cap.member ≤ 0 → s.trunk = false) ∧ (excl = true → s.trunk = false) ∧
    (cap.eriQuantity ≤ 0 → s.erdma = false) ∧ (os = false → s.erdma = false) ∧
    (cfg.ipStack = .dual → cap.ipv6Per ≠ cap.ipv4Per → s.ipv6 = false) ∧
    (cfg.ipStack = .ipv4 → s.ipv6 = false) := by
  unfold crdSwitches at h
  cases hs : cfg.ipStack <;> simp only [hs, Option.map_some, Option.map_none, Option.some.injEq] at h
  · subst h
    refine ⟨?_, ?_, ?_, ?_, ?_, ?_⟩ <;> intros <;> simp <;> (try (intros; omega)) <;> (try simp_all)
  · subst h
    refine ⟨?_, ?_, ?_, ?_, ?_, ?_⟩ <;> intros <;> simp <;> (try (intros; omega)) <;> (try simp_all)
  · subst h
    refine ⟨?_, ?_, ?_, ?_, ?_, ?_⟩ <;> intros <;> simp <;> (try (intros; omega)) <;> (try simp_all)
  · cases h

/-- Full statement of the IPv6 clause ("an instance type without IPv6 support never has IPv6
    advertised") is FALSE for the CRD-mode reconciler on the current tree: with `ip_stack: ipv6`
    the switch is set without looking at the instance type (and with `dual` when both quantities
    are 0).  Kept visible; see the known finding C19/crd/ipv6-not-gated. -/
theorem c19_crd_ipv6_not_gated_witness :
    ∃ cap cfg s, crdSwitches cap cfg false false = some s ∧ cap.ipv6Per = 0 ∧ s.ipv6 = true :=
  ⟨⟨4, 10, 0, 0, 0⟩, ⟨0, 0, 5, 0, 0, false, false, true, .ipv6⟩, _, rfl, rfl, rfl⟩

/-- the part that does hold -/
theorem c19_crd_ipv6_gated_partial (cap : NodeCap) (cfg : Cfg) (os excl : Bool) (s : Switches)
    (h : crdSwitches cap cfg os excl = some s) (hd : cfg.ipStack = .dual) (h4 : 0 < cap.ipv4Per)
    (h6 : cap.ipv6Per ≤ 0) : s.ipv6 = false := by
  exact (c19_feature_gating_crd cap cfg os excl s h).2.2.2.2.1 hd (by omega)

theorem nodeRes_exclusive (fl : List Flavor) (sw : Switches) (ready : Bool) (m : Int) :
    nodeRes true fl sw ready m = some ("eni", annoIPs true fl 0) := by
  simp [nodeRes, annoIPs]

/-- member-ENI resource reported only with trunk enabled and ready, and it is the member limit; the
    exclusive-ENI device count is the standard slot count, at most the attachable secondary interfaces -/
theorem c19_node_res (excl : Bool) (cap : NodeCap) (sw : Switches) (ready : Bool) (r : String × Int)
    (ha : 1 ≤ cap.adapters) (h : nodeRes excl (flavor cap sw) sw ready cap.member = some r) :
    (excl = true → r.2 ≤ cap.adapters - 1) ∧ (excl = false → sw.trunk = true ∧ r.2 = cap.member) := by
  cases excl
  · unfold nodeRes at h
    simp only [Bool.false_eq_true, if_false] at h
    split at h
    · rename_i ht; injection h with h; subst h; exact ⟨by simp, fun _ => ⟨ht.1, rfl⟩⟩
    · cases h
  · rw [nodeRes_exclusive] at h
    injection h with h; subst h
    refine ⟨fun _ => ?_, by simp⟩
    have := flavor_arith cap sw
    unfold flavor
    rw [(annoIPs_flavorOf _ _ _ _).2]
    have h1 := this.1
    have h2 := this.2 ha
    generalize hasTrunk cap sw = t at h1
    generalize hasErdma cap sw = e at h1
    cases t <;> cases e <;> simp at h1 <;> omega

/-! ## non-vacuity -/
example : (poolConfig ⟨0, 0, 5, 0, 0, false, false, false, .ipv4⟩ .multiIP (getInstanceType ⟨4, 10, 10, 14, 0, true⟩)).capacity = 30 := by decide
example : flavor ⟨8, 10, 10, 6, 2⟩ ⟨true, true, true, true⟩ = [⟨.trunk, 1⟩, ⟨.erdma, 1⟩, ⟨.standard, 5⟩] := by decide

/-! ### the capacity in the Node CR is that of the node's current instance type -/

/-- the invariant: the stored capacity is the limits of the stored type -/
def CapFollows (cr : Option NodeCR) : Prop := ∀ c, cr = some c → c.capOf = some c.md.type

theorem nodeReconcile_follows (cr : Option NodeCR) (info : NodeMeta) (f : Bool) (h : CapFollows cr) :
    CapFollows (nodeReconcile cr info f).1 := by
  intro c hc
  unfold nodeReconcile at hc
  cases cr with
  | none =>
    cases f
    · simp at hc; subst hc; rfl
    · simp at hc
  | some c0 =>
    simp only at hc
    by_cases hm : c0.md = info
    · rw [if_pos hm] at hc; simp at hc; subst hc; exact h c0 rfl
    · rw [if_neg hm] at hc
      cases f
      · simp at hc; subst hc; rfl
      · simp at hc; subst hc; exact h c0 rfl

/-- **in every history of reconciles** (instance type, instance id, zone and region labels changing in any way
    between them, limits lookups failing at any of them) that starts without a Node CR, whenever a reconcile
    succeeds the CR records the node's current instance type and carries that type's limits — in particular after an
    in-place resize under the same instance id; everything the controllers advertise from `Spec.NodeCap`
    (`c19_anno_ips`, `c19_node_res`, `c19_slots_crd`) is therefore bounded by the current type -/
theorem c19_nodecap_follows_type (hist : List (NodeMeta × Bool)) (info : NodeMeta) (f : Bool) :
    (nodeReconcile (nodeRun none hist) info f).2 = true →
    ∃ c, (nodeReconcile (nodeRun none hist) info f).1 = some c ∧ c.md = info ∧ c.capOf = some info.type := by
  have hinv : ∀ (h : List (NodeMeta × Bool)) (cr : Option NodeCR), CapFollows cr → CapFollows (nodeRun cr h) := by
    intro h
    induction h with
    | nil => intro cr hc; exact hc
    | cons x xs ih => intro cr hc; exact ih _ (nodeReconcile_follows cr x.1 x.2 hc)
  have h0 : CapFollows (nodeRun none hist) := hinv hist none (by intro c hc; cases hc)
  generalize nodeRun none hist = cr at h0
  intro hok
  unfold nodeReconcile at hok ⊢
  cases cr with
  | none =>
    cases f
    · exact ⟨_, rfl, rfl, rfl⟩
    · simp at hok
  | some c0 =>
    simp only at hok ⊢
    by_cases hm : c0.md = info
    · rw [if_pos hm]; exact ⟨c0, rfl, hm, by rw [h0 c0 rfl, hm]⟩
    · rw [if_neg hm] at hok ⊢
      cases f
      · exact ⟨_, rfl, rfl, rfl⟩
      · simp at hok

/-- non-vacuity: an in-place resize (same id, type 1 → type 2) -/
example : nodeRun none [(⟨1, 7, 0, 0⟩, false), (⟨2, 7, 0, 0⟩, false)] = some ⟨⟨2, 7, 0, 0⟩, some 2⟩ := by decide

end Terway.Props.C19
