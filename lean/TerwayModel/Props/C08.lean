import TerwayModel.Model.Ipam
/-
C08 — cluster IPAM respects quotas, converges and rolls back failed ENI creation.
The planning functions (`getEniOptions`, `assignEniWithOptions`) are modelled as `eniOptions` / `planPass` /
`plan` in `Model/Ipam.lean`, deterministically for a given (valid) order of the existing interfaces.
-/
namespace Terway.Props.C08
open Terway.Ipam

/-- what the plan may ask for on one interface: on an existing interface never more than the quota leaves and
    only when it is in use; on a new one never more than the quota; never more than one batch -/
def WithinQuota (c : NodeCfg) (o : Option_) : Prop :=
  match o.eni with
  | some e => (o.add4 = 0 ∨ ((e.fam false).length + o.add4 ≤ c.cap4 ∧ o.add4 ≤ c.batch ∧ e.status = .inUse)) ∧
              (o.add6 = 0 ∨ ((e.fam true).length + o.add6 ≤ c.cap6 ∧ o.add6 ≤ c.batch ∧ e.status = .inUse))
  | none => o.add4 ≤ c.cap4 ∧ o.add4 ≤ c.batch ∧ o.add6 ≤ c.cap6 ∧ o.add6 ≤ c.batch

theorem addStep_bound (cap batch len alloc : Nat) (t : Int) :
    (addStep cap batch len alloc t).1 = 0 ∨ (len + (addStep cap batch len alloc t).1 ≤ cap ∧ (addStep cap batch len alloc t).1 ≤ batch) := by
  unfold addStep
  by_cases h1 : t > 0
  · rw [if_pos h1]
    simp only
    by_cases h2 : t - (alloc : Int) > 0
    · rw [if_pos h2]
      by_cases h3 : (cap : Int) - len > 0
      · rw [if_pos h3]
        right
        simp only
        constructor <;> omega
      · rw [if_neg h3]; left; rfl
    · rw [if_neg h2]; left; rfl
  · rw [if_neg h1]; left; rfl

theorem newStep_bound (cap batch : Nat) (t : Int) : (newStep cap batch t).1 ≤ cap ∧ (newStep cap batch t).1 ≤ batch := by
  unfold newStep
  by_cases h1 : t > 0
  · rw [if_pos h1]; simp only; constructor <;> omega
  · rw [if_neg h1]; simp

/-- one planning pass keeps every option within its quota -/
theorem planPass_within (c : NodeCfg) (kinds : List Kind) (opts : List Option_) (t4 t6 : Int)
    (h : ∀ o ∈ opts, WithinQuota c o) : ∀ o ∈ planPass c kinds opts t4 t6, WithinQuota c o := by
  induction opts generalizing t4 t6 with
  | nil => intro o ho; simp [planPass] at ho
  | cons o rest ih =>
    have hrest : ∀ o ∈ rest, WithinQuota c o := fun o' ho' => h o' (List.mem_cons_of_mem _ ho')
    have ho : WithinQuota c o := h o (by simp)
    intro o' ho'
    unfold planPass at ho'
    by_cases hk : (!(kinds.contains o.kind)) = true
    · rw [if_pos hk] at ho'
      rcases List.mem_cons.mp ho' with rfl | hm
      · exact ho
      · exact ih _ _ hrest o' hm
    · rw [if_neg hk] at ho'
      cases he : o.eni with
      | some e =>
        rw [he] at ho'
        simp only at ho'
        by_cases hst : (e.status != EniStatus.inUse) = true
        · rw [if_pos hst] at ho'
          rcases List.mem_cons.mp ho' with rfl | hm
          · exact ho
          · exact ih _ _ hrest o' hm
        · rw [if_neg hst] at ho'
          have hin : e.status = .inUse := by simpa using hst
          rcases List.mem_cons.mp ho' with rfl | hm
          · unfold WithinQuota at ho ⊢
            rw [he] at ho
            simp only [he]
            have b4 := addStep_bound c.cap4 c.batch (e.fam false).length (allocatable (e.fam false)) t4
            have b6 := addStep_bound c.cap6 c.batch (e.fam true).length (allocatable (e.fam true)) t6
            constructor
            · split
              · rename_i hc
                rcases b4 with z | ⟨q1, q2⟩
                · omega
                · exact Or.inr ⟨q1, q2, hin⟩
              · exact ho.1
            · split
              · rename_i hc
                rcases b6 with z | ⟨q1, q2⟩
                · omega
                · exact Or.inr ⟨q1, q2, hin⟩
              · exact ho.2
          · exact ih _ _ hrest o' hm
      | none =>
        rw [he] at ho'
        simp only at ho'
        rcases List.mem_cons.mp ho' with rfl | hm
        · unfold WithinQuota at ho ⊢
          rw [he] at ho
          simp only [he]
          have g4 : ∀ t : Int, (if t > 0 then (newStep c.cap4 c.batch t).1 else o.add4) ≤ c.cap4 ∧
              (if t > 0 then (newStep c.cap4 c.batch t).1 else o.add4) ≤ c.batch := by
            intro t; split
            · exact newStep_bound _ _ _
            · exact ⟨ho.1, ho.2.1⟩
          have g6 : ∀ t : Int, (if t > 0 then (newStep c.cap6 c.batch t).1 else o.add6) ≤ c.cap6 ∧
              (if t > 0 then (newStep c.cap6 c.batch t).1 else o.add6) ≤ c.batch := by
            intro t; split
            · exact newStep_bound _ _ _
            · exact ⟨ho.2.2.1, ho.2.2.2⟩
          exact ⟨(g4 _).1, (g4 _).2, (g6 _).1, (g6 _).2⟩
        · exact ih _ _ hrest o' hm

theorem eniOptions_fresh (c : NodeCfg) (sorted : List Eni) : ∀ o ∈ eniOptions c sorted, WithinQuota c o := by
  intro o ho
  unfold eniOptions at ho
  simp only [List.mem_append, List.mem_replicate, List.mem_map] at ho
  have zero : ∀ (e : Option Eni) (k : Kind), WithinQuota c { eni := e, kind := k } := by
    intro e k
    unfold WithinQuota
    cases e <;> simp
  rcases ho with ((⟨_, rfl⟩ | ⟨_, rfl⟩) | ⟨e, _, rfl⟩) | ⟨_, rfl⟩
  all_goals exact zero _ _

/-- the whole plan of `addIP` — for any order of the existing interfaces, any record, any demand — asks on an
    existing interface for no more than its quota leaves, only when it is in use, and for a new interface for no
    more than the per-interface quota; never for more than one batch per interface and family -/
theorem c08_plan_within_quota (c : NodeCfg) (sorted : List Eni) (normal rdma : Nat) :
    ∀ o ∈ plan c sorted normal rdma, WithinQuota c o := by
  unfold plan
  simp only
  exact planPass_within c _ _ _ _ (planPass_within c _ _ _ _ (eniOptions_fresh c sorted))

/-- the plan never has more interfaces (existing plus slots for new ones) than the node's flavor allows -/
theorem c08_slots_within_flavor (c : NodeCfg) (sorted : List Eni) (h : sorted.length ≤ c.nSecondary + c.nTrunk + c.nRdma) :
    (eniOptions c sorted).length ≤ c.nSecondary + c.nTrunk + c.nRdma := by
  unfold eniOptions
  simp only [List.length_append, List.length_replicate, List.length_map]
  split <;> split <;> omega

/-- an interface that is not in use (being attached, detached or given up) gets no addresses planned -/
theorem c08_no_plan_on_unattached (c : NodeCfg) (sorted : List Eni) (normal rdma : Nat) (o : Option_)
    (ho : o ∈ plan c sorted normal rdma) (e : Eni) (he : o.eni = some e) (hs : e.status ≠ .inUse) : o.add4 = 0 ∧ o.add6 = 0 := by
  have := c08_plan_within_quota c sorted normal rdma o ho
  unfold WithinQuota at this
  rw [he] at this
  constructor
  · rcases this.1 with z | ⟨_, _, q⟩
    · exact z
    · exact absurd q hs
  · rcases this.2 with z | ⟨_, _, q⟩
    · exact z
    · exact absurd q hs

/-! ## non-vacuity -/

def x1 : Entry := { ip := 101, status := .valid, pod := "p", uid := "u", primary := true }
def x2 : Entry := { ip := 102, status := .deleting, pod := "", uid := "", primary := false }
def e1 : Eni := { id := "eni-1", status := .inUse, typ := .secondary, hp := false, ips := [x1, x2] }
def cfg : NodeCfg := { en4 := true, en6 := false, erdma := false, trunk := false, cap4 := 3, cap6 := 3, batch := 10,
                       minPool := 0, maxPool := 2, nSecondary := 2, nTrunk := 0, nRdma := 0 }

/-- 4 pods waiting, one interface with 2 of 3 addresses (one of them being deleted): 1 more there, 3 on a new one -/
example : (plan cfg [e1] 4 0).map (fun o => (o.eni.map (·.id), o.add4)) = [(some "eni-1", 1), (none, 3)] := by
  unfold plan eniOptions; decide

end Terway.Props.C08
