import TerwayModel.Proofs.PodEniObs
/-
Per-actor step lemmas behind the property theorems of C10 and C11 (Props/C10.lean, Props/C11.lean): each says
what one accepted event of one actor can do to a state that satisfies the invariants.
(Generated layout: one lemma per statement and actor.)
-/
namespace Terway.PE

/-- the documented life cycle (pkg/apis/network.alibabacloud.com/v1beta1/types.go:113-151):
    initial → Bind, Bind → Detaching → Unbind → Binding → Bind, anything → Deleting -/
def documented (a b : Phase) : Prop :=
  (a = .initial ∧ b = .bind) ∨ (a = .bind ∧ b = .detaching) ∨ (a = .detaching ∧ b = .unbind) ∨
  (a = .unbind ∧ b = .binding) ∨ (a = .binding ∧ b = .bind) ∨ b = .deleting

/-- the two edges the code takes beyond the diagram (known findings `C10/phase/I-to-Dt`, `C10/phase/Bg-to-Dt`):
    a fixed-address record whose pod goes away before the (re-)attach completed is sent to Detaching -/
def undocumented (a b : Phase) : Prop :=
  (a = .initial ∧ b = .detaching) ∨ (a = .binding ∧ b = .detaching)

/-- a roll-back delete that failed -/
def failedDelete : Ev → Bool
  | .pCloudDelete _ ok => !ok
  | _ => false

/-- the cloud calls that take an interface away: detach and delete, by any of the actors -/
def pulls : Ev → Option Nat
  | .eDetach id true => some id
  | .eCloudDelete id true => some id
  | .lDelete id true => some id
  | .lDetach id true => some id
  | .pCloudDelete id true => some id
  | _ => none

/-- interface `id` is named by the record of a pod instance that exists and has not finished -/
def Protected (s : St) (id : Nat) : Prop :=
  ∃ c q, s.rcd = some c ∧ id ∈ c.enis ∧ s.pod = some q ∧ q.uid = c.uid ∧ q.exited = false

theorem allocKeeps_false {ls : Option Nat} {now : Nat} {st : Strat} (h : allocKeeps ls now st = false) :
    st = .elastic ∨ ∃ d, st = .ttl d ∧ (ls = none ∨ ∃ t, ls = some t ∧ t + d ≤ now) := by
  cases st with
  | elastic => exact .inl rfl
  | never => simp [allocKeeps] at h
  | bad => simp [allocKeeps] at h
  | ttl d =>
    refine .inr ⟨d, rfl, ?_⟩
    cases ls with
    | none => exact .inl rfl
    | some t => simp [allocKeeps] at h; exact .inr ⟨t, rfl, h⟩

theorem keep_false {allocs : List Alloc} {ls : Option Nat} {now : Nat} (h : keep allocs ls now = false) :
    ∀ a ∈ allocs, a.strat = .elastic ∨ ∃ d, a.strat = .ttl d ∧ (ls = none ∨ ∃ t, ls = some t ∧ t + d ≤ now) := by
  intro a ha
  apply allocKeeps_false
  simp only [keep, List.any_eq_false] at h
  simpa using h a ha

set_option maxHeartbeats 4000000 in
theorem Edges.stepEnv {s t : St} {ev : Ev} (hI : Inv s) (hs : PE.stepEnv s ev = some t) :
    ∀ r r', s.rcd = some r → t.rcd = some r' → r'.phase = r.phase ∨ documented r.phase r'.phase ∨ undocumented r.phase r'.phase := by
  obtain ⟨⟨a1, a2, a3, a4, a4b, a5, a5b, a5c, a6, a6b, a7, a7b⟩, ⟨b0, b1, b2, b3, b4, b5, b6, b7, b8, b9⟩,
    ⟨c0, c1, c2, c3, c4, c5, c6, c7⟩, ⟨d0, d1, d2, d3, d4⟩⟩ := hI
  revert hs
  fun_cases PE.stepEnv s ev <;> intro hs <;> (first | cases hs | skip)
  all_goals (try simp only [bump_some _ _ _ (by assumption : s.rcd = some _)])
  all_goals (intro r0 r0' hr0 hr0'; rcases Phase.cases r0.phase with hp0 | hp0 | hp0 | hp0 | hp0 | hp0)
  all_goals grind [SnapOK, pStatusOK_true, NotRunning, Rec.enis, Rec.fixed, mem_enis, mem_setAtt, mem_remove, Sorted.inj, markDel_uid, markDel_phase, markDel_allocs, markDel_del, markDel_ver, markDel_of_del, markDel_fixed, markDel_lastSeen, pAfterDel, pAfterCre, GPend, PodSeen.requires, J2, J3, PDel, PCre, PUpd, PRec, EDet, EAtt, EDel, GSeen, CSort, CLt, RLt, PMade, PRoll, LCandD, LCandL, LList, ObsLe, ObsLs, PUpdDl, PDelNF, Acc, documented, undocumented, Phase.busy, cases Phase]

set_option maxHeartbeats 4000000 in
theorem Edges.stepP {s t : St} {ev : Ev} (hI : Inv s) (hs : PE.stepP s ev = some t) :
    ∀ r r', s.rcd = some r → t.rcd = some r' → r'.phase = r.phase ∨ documented r.phase r'.phase ∨ undocumented r.phase r'.phase := by
  obtain ⟨⟨a1, a2, a3, a4, a4b, a5, a5b, a5c, a6, a6b, a7, a7b⟩, ⟨b0, b1, b2, b3, b4, b5, b6, b7, b8, b9⟩,
    ⟨c0, c1, c2, c3, c4, c5, c6, c7⟩, ⟨d0, d1, d2, d3, d4⟩⟩ := hI
  revert hs
  fun_cases PE.stepP s ev <;> intro hs <;> (first | cases hs | skip)
  all_goals (try simp only [deleteRec_some _ _ (by assumption : s.rcd = some _), bindRec, bump_some _ _ _ (by assumption : s.rcd = some _)])
  all_goals (intro r0 r0' hr0 hr0'; rcases Phase.cases r0.phase with hp0 | hp0 | hp0 | hp0 | hp0 | hp0)
  all_goals grind [SnapOK, pStatusOK_true, NotRunning, Rec.enis, Rec.fixed, mem_enis, mem_setAtt, mem_remove, Sorted.inj, markDel_uid, markDel_phase, markDel_allocs, markDel_del, markDel_ver, markDel_of_del, markDel_fixed, markDel_lastSeen, pAfterDel, pAfterCre, GPend, PodSeen.requires, J2, J3, PDel, PCre, PUpd, PRec, EDet, EAtt, EDel, GSeen, CSort, CLt, RLt, PMade, PRoll, LCandD, LCandL, LList, ObsLe, ObsLs, PUpdDl, PDelNF, Acc, documented, undocumented, Phase.busy, cases Phase]

set_option maxHeartbeats 4000000 in
theorem Edges.stepE {s t : St} {ev : Ev} (hI : Inv s) (hs : PE.stepE s ev = some t) :
    ∀ r r', s.rcd = some r → t.rcd = some r' → r'.phase = r.phase ∨ documented r.phase r'.phase ∨ undocumented r.phase r'.phase := by
  obtain ⟨⟨a1, a2, a3, a4, a4b, a5, a5b, a5c, a6, a6b, a7, a7b⟩, ⟨b0, b1, b2, b3, b4, b5, b6, b7, b8, b9⟩,
    ⟨c0, c1, c2, c3, c4, c5, c6, c7⟩, ⟨d0, d1, d2, d3, d4⟩⟩ := hI
  revert hs
  fun_cases PE.stepE s ev <;> intro hs <;> (first | cases hs | skip)
  all_goals (try simp only [deleteRec_some _ _ (by assumption : s.rcd = some _), bindRec, bump_some _ _ _ (by assumption : s.rcd = some _)])
  all_goals (intro r0 r0' hr0 hr0'; rcases Phase.cases r0.phase with hp0 | hp0 | hp0 | hp0 | hp0 | hp0)
  all_goals grind [SnapOK, pStatusOK_true, NotRunning, Rec.enis, Rec.fixed, mem_enis, mem_setAtt, mem_remove, Sorted.inj, markDel_uid, markDel_phase, markDel_allocs, markDel_del, markDel_ver, markDel_of_del, markDel_fixed, markDel_lastSeen, pAfterDel, pAfterCre, GPend, PodSeen.requires, J2, J3, PDel, PCre, PUpd, PRec, EDet, EAtt, EDel, GSeen, CSort, CLt, RLt, PMade, PRoll, LCandD, LCandL, LList, ObsLe, ObsLs, PUpdDl, PDelNF, Acc, documented, undocumented, Phase.busy, cases Phase]

set_option maxHeartbeats 4000000 in
theorem Edges.stepG {s t : St} {ev : Ev} (hI : Inv s) (hs : PE.stepG s ev = some t) :
    ∀ r r', s.rcd = some r → t.rcd = some r' → r'.phase = r.phase ∨ documented r.phase r'.phase ∨ undocumented r.phase r'.phase := by
  obtain ⟨⟨a1, a2, a3, a4, a4b, a5, a5b, a5c, a6, a6b, a7, a7b⟩, ⟨b0, b1, b2, b3, b4, b5, b6, b7, b8, b9⟩,
    ⟨c0, c1, c2, c3, c4, c5, c6, c7⟩, ⟨d0, d1, d2, d3, d4⟩⟩ := hI
  revert hs
  fun_cases PE.stepG s ev <;> intro hs <;> (first | cases hs | skip)
  all_goals (try simp only [bump_some _ _ _ (by assumption : s.rcd = some _)])
  all_goals (intro r0 r0' hr0 hr0'; rcases Phase.cases r0.phase with hp0 | hp0 | hp0 | hp0 | hp0 | hp0)
  all_goals grind [SnapOK, pStatusOK_true, NotRunning, Rec.enis, Rec.fixed, mem_enis, mem_setAtt, mem_remove, Sorted.inj, markDel_uid, markDel_phase, markDel_allocs, markDel_del, markDel_ver, markDel_of_del, markDel_fixed, markDel_lastSeen, pAfterDel, pAfterCre, GPend, PodSeen.requires, J2, J3, PDel, PCre, PUpd, PRec, EDet, EAtt, EDel, GSeen, CSort, CLt, RLt, PMade, PRoll, LCandD, LCandL, LList, ObsLe, ObsLs, PUpdDl, PDelNF, Acc, documented, undocumented, Phase.busy, cases Phase]

set_option maxHeartbeats 4000000 in
theorem Edges.stepL {s t : St} {ev : Ev} (hI : Inv s) (hs : PE.stepL s ev = some t) :
    ∀ r r', s.rcd = some r → t.rcd = some r' → r'.phase = r.phase ∨ documented r.phase r'.phase ∨ undocumented r.phase r'.phase := by
  obtain ⟨⟨a1, a2, a3, a4, a4b, a5, a5b, a5c, a6, a6b, a7, a7b⟩, ⟨b0, b1, b2, b3, b4, b5, b6, b7, b8, b9⟩,
    ⟨c0, c1, c2, c3, c4, c5, c6, c7⟩, ⟨d0, d1, d2, d3, d4⟩⟩ := hI
  revert hs
  fun_cases PE.stepL s ev <;> intro hs <;> (first | cases hs | skip)
  all_goals (try simp only [bump_some _ _ _ (by assumption : s.rcd = some _)])
  all_goals (intro r0 r0' hr0 hr0'; rcases Phase.cases r0.phase with hp0 | hp0 | hp0 | hp0 | hp0 | hp0)
  all_goals grind [SnapOK, pStatusOK_true, NotRunning, Rec.enis, Rec.fixed, mem_enis, mem_setAtt, mem_remove, Sorted.inj, markDel_uid, markDel_phase, markDel_allocs, markDel_del, markDel_ver, markDel_of_del, markDel_fixed, markDel_lastSeen, pAfterDel, pAfterCre, GPend, PodSeen.requires, J2, J3, PDel, PCre, PUpd, PRec, EDet, EAtt, EDel, GSeen, CSort, CLt, RLt, PMade, PRoll, LCandD, LCandL, LList, ObsLe, ObsLs, PUpdDl, PDelNF, Acc, documented, undocumented, Phase.busy, cases Phase]

theorem Edges.stepD {s t : St} {ev : Ev} (hI : Inv s) (hs : PE.stepD s ev = some t) :
    ∀ r r', s.rcd = some r → t.rcd = some r' → r'.phase = r.phase ∨ documented r.phase r'.phase ∨ undocumented r.phase r'.phase := by
  unfold PE.stepD at hs
  split at hs
  · split at hs
    · cases hs
      have hcs := hI.i3.fCSort
      grind [pulls, failedDelete, documented, undocumented, Sorted.inj, CSort]
    · cases hs
  · cases hs

theorem Edges.step {s t : St} {ev : Ev} (hI : Inv s) (hs : PE.step s ev = some t) :
    ∀ r r', s.rcd = some r → t.rcd = some r' → r'.phase = r.phase ∨ documented r.phase r'.phase ∨ undocumented r.phase r'.phase := by
  cases ev <;> simp only [PE.step] at hs <;>
    first | exact Edges.stepEnv hI hs | exact Edges.stepP hI hs | exact Edges.stepE hI hs | exact Edges.stepG hI hs | exact Edges.stepL hI hs | exact Edges.stepD hI hs

set_option maxHeartbeats 4000000 in
theorem Removed.stepEnv {s t : St} {ev : Ev} (hI : Inv s) (hs : PE.stepEnv s ev = some t) :
    ∀ r, s.rcd = some r → t.rcd = none → r.del = true := by
  obtain ⟨⟨a1, a2, a3, a4, a4b, a5, a5b, a5c, a6, a6b, a7, a7b⟩, ⟨b0, b1, b2, b3, b4, b5, b6, b7, b8, b9⟩,
    ⟨c0, c1, c2, c3, c4, c5, c6, c7⟩, ⟨d0, d1, d2, d3, d4⟩⟩ := hI
  revert hs
  fun_cases PE.stepEnv s ev <;> intro hs <;> (first | cases hs | skip)
  all_goals (try simp only [bump_some _ _ _ (by assumption : s.rcd = some _)])
  all_goals grind [SnapOK, pStatusOK_true, NotRunning, Rec.enis, Rec.fixed, mem_enis, mem_setAtt, mem_remove, Sorted.inj, markDel_uid, markDel_phase, markDel_allocs, markDel_del, markDel_ver, markDel_of_del, markDel_fixed, markDel_lastSeen, pAfterDel, pAfterCre, GPend, PodSeen.requires, J2, J3, PDel, PCre, PUpd, PRec, EDet, EAtt, EDel, GSeen, CSort, CLt, RLt, PMade, PRoll, LCandD, LCandL, LList, ObsLe, ObsLs, PUpdDl, PDelNF, Acc]

set_option maxHeartbeats 4000000 in
theorem Removed.stepP {s t : St} {ev : Ev} (hI : Inv s) (hs : PE.stepP s ev = some t) :
    ∀ r, s.rcd = some r → t.rcd = none → r.del = true := by
  obtain ⟨⟨a1, a2, a3, a4, a4b, a5, a5b, a5c, a6, a6b, a7, a7b⟩, ⟨b0, b1, b2, b3, b4, b5, b6, b7, b8, b9⟩,
    ⟨c0, c1, c2, c3, c4, c5, c6, c7⟩, ⟨d0, d1, d2, d3, d4⟩⟩ := hI
  revert hs
  fun_cases PE.stepP s ev <;> intro hs <;> (first | cases hs | skip)
  all_goals (try simp only [deleteRec_some _ _ (by assumption : s.rcd = some _), bindRec, bump_some _ _ _ (by assumption : s.rcd = some _)])
  all_goals grind [SnapOK, pStatusOK_true, NotRunning, Rec.enis, Rec.fixed, mem_enis, mem_setAtt, mem_remove, Sorted.inj, markDel_uid, markDel_phase, markDel_allocs, markDel_del, markDel_ver, markDel_of_del, markDel_fixed, markDel_lastSeen, pAfterDel, pAfterCre, GPend, PodSeen.requires, J2, J3, PDel, PCre, PUpd, PRec, EDet, EAtt, EDel, GSeen, CSort, CLt, RLt, PMade, PRoll, LCandD, LCandL, LList, ObsLe, ObsLs, PUpdDl, PDelNF, Acc]

set_option maxHeartbeats 4000000 in
theorem Removed.stepE {s t : St} {ev : Ev} (hI : Inv s) (hs : PE.stepE s ev = some t) :
    ∀ r, s.rcd = some r → t.rcd = none → r.del = true := by
  obtain ⟨⟨a1, a2, a3, a4, a4b, a5, a5b, a5c, a6, a6b, a7, a7b⟩, ⟨b0, b1, b2, b3, b4, b5, b6, b7, b8, b9⟩,
    ⟨c0, c1, c2, c3, c4, c5, c6, c7⟩, ⟨d0, d1, d2, d3, d4⟩⟩ := hI
  revert hs
  fun_cases PE.stepE s ev <;> intro hs <;> (first | cases hs | skip)
  all_goals (try simp only [deleteRec_some _ _ (by assumption : s.rcd = some _), bindRec, bump_some _ _ _ (by assumption : s.rcd = some _)])
  all_goals grind [SnapOK, pStatusOK_true, NotRunning, Rec.enis, Rec.fixed, mem_enis, mem_setAtt, mem_remove, Sorted.inj, markDel_uid, markDel_phase, markDel_allocs, markDel_del, markDel_ver, markDel_of_del, markDel_fixed, markDel_lastSeen, pAfterDel, pAfterCre, GPend, PodSeen.requires, J2, J3, PDel, PCre, PUpd, PRec, EDet, EAtt, EDel, GSeen, CSort, CLt, RLt, PMade, PRoll, LCandD, LCandL, LList, ObsLe, ObsLs, PUpdDl, PDelNF, Acc]

set_option maxHeartbeats 4000000 in
theorem Removed.stepG {s t : St} {ev : Ev} (hI : Inv s) (hs : PE.stepG s ev = some t) :
    ∀ r, s.rcd = some r → t.rcd = none → r.del = true := by
  obtain ⟨⟨a1, a2, a3, a4, a4b, a5, a5b, a5c, a6, a6b, a7, a7b⟩, ⟨b0, b1, b2, b3, b4, b5, b6, b7, b8, b9⟩,
    ⟨c0, c1, c2, c3, c4, c5, c6, c7⟩, ⟨d0, d1, d2, d3, d4⟩⟩ := hI
  revert hs
  fun_cases PE.stepG s ev <;> intro hs <;> (first | cases hs | skip)
  all_goals (try simp only [bump_some _ _ _ (by assumption : s.rcd = some _)])
  all_goals grind [SnapOK, pStatusOK_true, NotRunning, Rec.enis, Rec.fixed, mem_enis, mem_setAtt, mem_remove, Sorted.inj, markDel_uid, markDel_phase, markDel_allocs, markDel_del, markDel_ver, markDel_of_del, markDel_fixed, markDel_lastSeen, pAfterDel, pAfterCre, GPend, PodSeen.requires, J2, J3, PDel, PCre, PUpd, PRec, EDet, EAtt, EDel, GSeen, CSort, CLt, RLt, PMade, PRoll, LCandD, LCandL, LList, ObsLe, ObsLs, PUpdDl, PDelNF, Acc]

set_option maxHeartbeats 4000000 in
theorem Removed.stepL {s t : St} {ev : Ev} (hI : Inv s) (hs : PE.stepL s ev = some t) :
    ∀ r, s.rcd = some r → t.rcd = none → r.del = true := by
  obtain ⟨⟨a1, a2, a3, a4, a4b, a5, a5b, a5c, a6, a6b, a7, a7b⟩, ⟨b0, b1, b2, b3, b4, b5, b6, b7, b8, b9⟩,
    ⟨c0, c1, c2, c3, c4, c5, c6, c7⟩, ⟨d0, d1, d2, d3, d4⟩⟩ := hI
  revert hs
  fun_cases PE.stepL s ev <;> intro hs <;> (first | cases hs | skip)
  all_goals (try simp only [bump_some _ _ _ (by assumption : s.rcd = some _)])
  all_goals grind [SnapOK, pStatusOK_true, NotRunning, Rec.enis, Rec.fixed, mem_enis, mem_setAtt, mem_remove, Sorted.inj, markDel_uid, markDel_phase, markDel_allocs, markDel_del, markDel_ver, markDel_of_del, markDel_fixed, markDel_lastSeen, pAfterDel, pAfterCre, GPend, PodSeen.requires, J2, J3, PDel, PCre, PUpd, PRec, EDet, EAtt, EDel, GSeen, CSort, CLt, RLt, PMade, PRoll, LCandD, LCandL, LList, ObsLe, ObsLs, PUpdDl, PDelNF, Acc]

theorem Removed.stepD {s t : St} {ev : Ev} (hI : Inv s) (hs : PE.stepD s ev = some t) :
    ∀ r, s.rcd = some r → t.rcd = none → r.del = true := by
  unfold PE.stepD at hs
  split at hs
  · split at hs
    · cases hs
      have hcs := hI.i3.fCSort
      grind [pulls, failedDelete, documented, undocumented, Sorted.inj, CSort]
    · cases hs
  · cases hs

theorem Removed.step {s t : St} {ev : Ev} (hI : Inv s) (hs : PE.step s ev = some t) :
    ∀ r, s.rcd = some r → t.rcd = none → r.del = true := by
  cases ev <;> simp only [PE.step] at hs <;>
    first | exact Removed.stepEnv hI hs | exact Removed.stepP hI hs | exact Removed.stepE hI hs | exact Removed.stepG hI hs | exact Removed.stepL hI hs | exact Removed.stepD hI hs

set_option maxHeartbeats 4000000 in
theorem DelReq.stepEnv {s t : St} {ev : Ev} (hI : Inv s) (hs : PE.stepEnv s ev = some t) :
    ∀ r r', s.rcd = some r → t.rcd = some r' → r.del = false → r'.del = true → (ev = .eDeleteRec .ok ∧ r.phase = .deleting) ∨ (ev = .pDeleteRec .ok ∧ r.fixed = false ∧ NotRunning s r.uid) := by
  obtain ⟨⟨a1, a2, a3, a4, a4b, a5, a5b, a5c, a6, a6b, a7, a7b⟩, ⟨b0, b1, b2, b3, b4, b5, b6, b7, b8, b9⟩,
    ⟨c0, c1, c2, c3, c4, c5, c6, c7⟩, ⟨d0, d1, d2, d3, d4⟩⟩ := hI
  revert hs
  fun_cases PE.stepEnv s ev <;> intro hs <;> (first | cases hs | skip)
  all_goals (try simp only [bump_some _ _ _ (by assumption : s.rcd = some _)])
  all_goals grind [SnapOK, pStatusOK_true, NotRunning, Rec.enis, Rec.fixed, mem_enis, mem_setAtt, mem_remove, Sorted.inj, markDel_uid, markDel_phase, markDel_allocs, markDel_del, markDel_ver, markDel_of_del, markDel_fixed, markDel_lastSeen, pAfterDel, pAfterCre, GPend, PodSeen.requires, J2, J3, PDel, PCre, PUpd, PRec, EDet, EAtt, EDel, GSeen, CSort, CLt, RLt, PMade, PRoll, LCandD, LCandL, LList, ObsLe, ObsLs, PUpdDl, PDelNF, Acc]

set_option maxHeartbeats 4000000 in
theorem DelReq.stepP {s t : St} {ev : Ev} (hI : Inv s) (hs : PE.stepP s ev = some t) :
    ∀ r r', s.rcd = some r → t.rcd = some r' → r.del = false → r'.del = true → (ev = .eDeleteRec .ok ∧ r.phase = .deleting) ∨ (ev = .pDeleteRec .ok ∧ r.fixed = false ∧ NotRunning s r.uid) := by
  obtain ⟨⟨a1, a2, a3, a4, a4b, a5, a5b, a5c, a6, a6b, a7, a7b⟩, ⟨b0, b1, b2, b3, b4, b5, b6, b7, b8, b9⟩,
    ⟨c0, c1, c2, c3, c4, c5, c6, c7⟩, ⟨d0, d1, d2, d3, d4⟩⟩ := hI
  revert hs
  fun_cases PE.stepP s ev <;> intro hs <;> (first | cases hs | skip)
  all_goals (try simp only [deleteRec_some _ _ (by assumption : s.rcd = some _), bindRec, bump_some _ _ _ (by assumption : s.rcd = some _)])
  all_goals grind [SnapOK, pStatusOK_true, NotRunning, Rec.enis, Rec.fixed, mem_enis, mem_setAtt, mem_remove, Sorted.inj, markDel_uid, markDel_phase, markDel_allocs, markDel_del, markDel_ver, markDel_of_del, markDel_fixed, markDel_lastSeen, pAfterDel, pAfterCre, GPend, PodSeen.requires, J2, J3, PDel, PCre, PUpd, PRec, EDet, EAtt, EDel, GSeen, CSort, CLt, RLt, PMade, PRoll, LCandD, LCandL, LList, ObsLe, ObsLs, PUpdDl, PDelNF, Acc]

set_option maxHeartbeats 4000000 in
theorem DelReq.stepE {s t : St} {ev : Ev} (hI : Inv s) (hs : PE.stepE s ev = some t) :
    ∀ r r', s.rcd = some r → t.rcd = some r' → r.del = false → r'.del = true → (ev = .eDeleteRec .ok ∧ r.phase = .deleting) ∨ (ev = .pDeleteRec .ok ∧ r.fixed = false ∧ NotRunning s r.uid) := by
  obtain ⟨⟨a1, a2, a3, a4, a4b, a5, a5b, a5c, a6, a6b, a7, a7b⟩, ⟨b0, b1, b2, b3, b4, b5, b6, b7, b8, b9⟩,
    ⟨c0, c1, c2, c3, c4, c5, c6, c7⟩, ⟨d0, d1, d2, d3, d4⟩⟩ := hI
  revert hs
  fun_cases PE.stepE s ev <;> intro hs <;> (first | cases hs | skip)
  all_goals (try simp only [deleteRec_some _ _ (by assumption : s.rcd = some _), bindRec, bump_some _ _ _ (by assumption : s.rcd = some _)])
  all_goals grind [SnapOK, pStatusOK_true, NotRunning, Rec.enis, Rec.fixed, mem_enis, mem_setAtt, mem_remove, Sorted.inj, markDel_uid, markDel_phase, markDel_allocs, markDel_del, markDel_ver, markDel_of_del, markDel_fixed, markDel_lastSeen, pAfterDel, pAfterCre, GPend, PodSeen.requires, J2, J3, PDel, PCre, PUpd, PRec, EDet, EAtt, EDel, GSeen, CSort, CLt, RLt, PMade, PRoll, LCandD, LCandL, LList, ObsLe, ObsLs, PUpdDl, PDelNF, Acc]

set_option maxHeartbeats 4000000 in
theorem DelReq.stepG {s t : St} {ev : Ev} (hI : Inv s) (hs : PE.stepG s ev = some t) :
    ∀ r r', s.rcd = some r → t.rcd = some r' → r.del = false → r'.del = true → (ev = .eDeleteRec .ok ∧ r.phase = .deleting) ∨ (ev = .pDeleteRec .ok ∧ r.fixed = false ∧ NotRunning s r.uid) := by
  obtain ⟨⟨a1, a2, a3, a4, a4b, a5, a5b, a5c, a6, a6b, a7, a7b⟩, ⟨b0, b1, b2, b3, b4, b5, b6, b7, b8, b9⟩,
    ⟨c0, c1, c2, c3, c4, c5, c6, c7⟩, ⟨d0, d1, d2, d3, d4⟩⟩ := hI
  revert hs
  fun_cases PE.stepG s ev <;> intro hs <;> (first | cases hs | skip)
  all_goals (try simp only [bump_some _ _ _ (by assumption : s.rcd = some _)])
  all_goals grind [SnapOK, pStatusOK_true, NotRunning, Rec.enis, Rec.fixed, mem_enis, mem_setAtt, mem_remove, Sorted.inj, markDel_uid, markDel_phase, markDel_allocs, markDel_del, markDel_ver, markDel_of_del, markDel_fixed, markDel_lastSeen, pAfterDel, pAfterCre, GPend, PodSeen.requires, J2, J3, PDel, PCre, PUpd, PRec, EDet, EAtt, EDel, GSeen, CSort, CLt, RLt, PMade, PRoll, LCandD, LCandL, LList, ObsLe, ObsLs, PUpdDl, PDelNF, Acc]

set_option maxHeartbeats 4000000 in
theorem DelReq.stepL {s t : St} {ev : Ev} (hI : Inv s) (hs : PE.stepL s ev = some t) :
    ∀ r r', s.rcd = some r → t.rcd = some r' → r.del = false → r'.del = true → (ev = .eDeleteRec .ok ∧ r.phase = .deleting) ∨ (ev = .pDeleteRec .ok ∧ r.fixed = false ∧ NotRunning s r.uid) := by
  obtain ⟨⟨a1, a2, a3, a4, a4b, a5, a5b, a5c, a6, a6b, a7, a7b⟩, ⟨b0, b1, b2, b3, b4, b5, b6, b7, b8, b9⟩,
    ⟨c0, c1, c2, c3, c4, c5, c6, c7⟩, ⟨d0, d1, d2, d3, d4⟩⟩ := hI
  revert hs
  fun_cases PE.stepL s ev <;> intro hs <;> (first | cases hs | skip)
  all_goals (try simp only [bump_some _ _ _ (by assumption : s.rcd = some _)])
  all_goals grind [SnapOK, pStatusOK_true, NotRunning, Rec.enis, Rec.fixed, mem_enis, mem_setAtt, mem_remove, Sorted.inj, markDel_uid, markDel_phase, markDel_allocs, markDel_del, markDel_ver, markDel_of_del, markDel_fixed, markDel_lastSeen, pAfterDel, pAfterCre, GPend, PodSeen.requires, J2, J3, PDel, PCre, PUpd, PRec, EDet, EAtt, EDel, GSeen, CSort, CLt, RLt, PMade, PRoll, LCandD, LCandL, LList, ObsLe, ObsLs, PUpdDl, PDelNF, Acc]

theorem DelReq.stepD {s t : St} {ev : Ev} (hI : Inv s) (hs : PE.stepD s ev = some t) :
    ∀ r r', s.rcd = some r → t.rcd = some r' → r.del = false → r'.del = true → (ev = .eDeleteRec .ok ∧ r.phase = .deleting) ∨ (ev = .pDeleteRec .ok ∧ r.fixed = false ∧ NotRunning s r.uid) := by
  unfold PE.stepD at hs
  split at hs
  · split at hs
    · cases hs
      have hcs := hI.i3.fCSort
      grind [pulls, failedDelete, documented, undocumented, Sorted.inj, CSort]
    · cases hs
  · cases hs

theorem DelReq.step {s t : St} {ev : Ev} (hI : Inv s) (hs : PE.step s ev = some t) :
    ∀ r r', s.rcd = some r → t.rcd = some r' → r.del = false → r'.del = true → (ev = .eDeleteRec .ok ∧ r.phase = .deleting) ∨ (ev = .pDeleteRec .ok ∧ r.fixed = false ∧ NotRunning s r.uid) := by
  cases ev <;> simp only [PE.step] at hs <;>
    first | exact DelReq.stepEnv hI hs | exact DelReq.stepP hI hs | exact DelReq.stepE hI hs | exact DelReq.stepG hI hs | exact DelReq.stepL hI hs | exact DelReq.stepD hI hs

set_option maxHeartbeats 4000000 in
theorem NoPull.stepEnv {s t : St} {ev : Ev} (hI : Inv s) (hs : PE.stepEnv s ev = some t) :
    ∀ id, pulls ev = some id → ¬ Protected s id := by
  obtain ⟨⟨a1, a2, a3, a4, a4b, a5, a5b, a5c, a6, a6b, a7, a7b⟩, ⟨b0, b1, b2, b3, b4, b5, b6, b7, b8, b9⟩,
    ⟨c0, c1, c2, c3, c4, c5, c6, c7⟩, ⟨d0, d1, d2, d3, d4⟩⟩ := hI
  revert hs
  fun_cases PE.stepEnv s ev <;> intro hs <;> (first | cases hs | skip)
  all_goals (try simp only [bump_some _ _ _ (by assumption : s.rcd = some _)])
  all_goals grind [SnapOK, pStatusOK_true, NotRunning, Rec.enis, Rec.fixed, mem_enis, mem_setAtt, mem_remove, Sorted.inj, markDel_uid, markDel_phase, markDel_allocs, markDel_del, markDel_ver, markDel_of_del, markDel_fixed, markDel_lastSeen, pAfterDel, pAfterCre, GPend, PodSeen.requires, J2, J3, PDel, PCre, PUpd, PRec, EDet, EAtt, EDel, GSeen, CSort, CLt, RLt, PMade, PRoll, LCandD, LCandL, LList, ObsLe, ObsLs, PUpdDl, PDelNF, Acc, pulls, Protected, List.contains_iff_mem, List.mem_map]

set_option maxHeartbeats 4000000 in
theorem NoPull.stepP {s t : St} {ev : Ev} (hI : Inv s) (hs : PE.stepP s ev = some t) :
    ∀ id, pulls ev = some id → ¬ Protected s id := by
  obtain ⟨⟨a1, a2, a3, a4, a4b, a5, a5b, a5c, a6, a6b, a7, a7b⟩, ⟨b0, b1, b2, b3, b4, b5, b6, b7, b8, b9⟩,
    ⟨c0, c1, c2, c3, c4, c5, c6, c7⟩, ⟨d0, d1, d2, d3, d4⟩⟩ := hI
  revert hs
  fun_cases PE.stepP s ev <;> intro hs <;> (first | cases hs | skip)
  all_goals (try simp only [deleteRec_some _ _ (by assumption : s.rcd = some _), bindRec, bump_some _ _ _ (by assumption : s.rcd = some _)])
  all_goals grind [SnapOK, pStatusOK_true, NotRunning, Rec.enis, Rec.fixed, mem_enis, mem_setAtt, mem_remove, Sorted.inj, markDel_uid, markDel_phase, markDel_allocs, markDel_del, markDel_ver, markDel_of_del, markDel_fixed, markDel_lastSeen, pAfterDel, pAfterCre, GPend, PodSeen.requires, J2, J3, PDel, PCre, PUpd, PRec, EDet, EAtt, EDel, GSeen, CSort, CLt, RLt, PMade, PRoll, LCandD, LCandL, LList, ObsLe, ObsLs, PUpdDl, PDelNF, Acc, pulls, Protected, List.contains_iff_mem, List.mem_map]

set_option maxHeartbeats 4000000 in
theorem NoPull.stepE {s t : St} {ev : Ev} (hI : Inv s) (hs : PE.stepE s ev = some t) :
    ∀ id, pulls ev = some id → ¬ Protected s id := by
  obtain ⟨⟨a1, a2, a3, a4, a4b, a5, a5b, a5c, a6, a6b, a7, a7b⟩, ⟨b0, b1, b2, b3, b4, b5, b6, b7, b8, b9⟩,
    ⟨c0, c1, c2, c3, c4, c5, c6, c7⟩, ⟨d0, d1, d2, d3, d4⟩⟩ := hI
  revert hs
  fun_cases PE.stepE s ev <;> intro hs <;> (first | cases hs | skip)
  all_goals (try simp only [deleteRec_some _ _ (by assumption : s.rcd = some _), bindRec, bump_some _ _ _ (by assumption : s.rcd = some _)])
  all_goals grind [SnapOK, pStatusOK_true, NotRunning, Rec.enis, Rec.fixed, mem_enis, mem_setAtt, mem_remove, Sorted.inj, markDel_uid, markDel_phase, markDel_allocs, markDel_del, markDel_ver, markDel_of_del, markDel_fixed, markDel_lastSeen, pAfterDel, pAfterCre, GPend, PodSeen.requires, J2, J3, PDel, PCre, PUpd, PRec, EDet, EAtt, EDel, GSeen, CSort, CLt, RLt, PMade, PRoll, LCandD, LCandL, LList, ObsLe, ObsLs, PUpdDl, PDelNF, Acc, pulls, Protected, List.contains_iff_mem, List.mem_map]

set_option maxHeartbeats 4000000 in
theorem NoPull.stepG {s t : St} {ev : Ev} (hI : Inv s) (hs : PE.stepG s ev = some t) :
    ∀ id, pulls ev = some id → ¬ Protected s id := by
  obtain ⟨⟨a1, a2, a3, a4, a4b, a5, a5b, a5c, a6, a6b, a7, a7b⟩, ⟨b0, b1, b2, b3, b4, b5, b6, b7, b8, b9⟩,
    ⟨c0, c1, c2, c3, c4, c5, c6, c7⟩, ⟨d0, d1, d2, d3, d4⟩⟩ := hI
  revert hs
  fun_cases PE.stepG s ev <;> intro hs <;> (first | cases hs | skip)
  all_goals (try simp only [bump_some _ _ _ (by assumption : s.rcd = some _)])
  all_goals grind [SnapOK, pStatusOK_true, NotRunning, Rec.enis, Rec.fixed, mem_enis, mem_setAtt, mem_remove, Sorted.inj, markDel_uid, markDel_phase, markDel_allocs, markDel_del, markDel_ver, markDel_of_del, markDel_fixed, markDel_lastSeen, pAfterDel, pAfterCre, GPend, PodSeen.requires, J2, J3, PDel, PCre, PUpd, PRec, EDet, EAtt, EDel, GSeen, CSort, CLt, RLt, PMade, PRoll, LCandD, LCandL, LList, ObsLe, ObsLs, PUpdDl, PDelNF, Acc, pulls, Protected, List.contains_iff_mem, List.mem_map]

set_option maxHeartbeats 4000000 in
theorem NoPull.stepL {s t : St} {ev : Ev} (hI : Inv s) (hs : PE.stepL s ev = some t) :
    ∀ id, pulls ev = some id → ¬ Protected s id := by
  obtain ⟨⟨a1, a2, a3, a4, a4b, a5, a5b, a5c, a6, a6b, a7, a7b⟩, ⟨b0, b1, b2, b3, b4, b5, b6, b7, b8, b9⟩,
    ⟨c0, c1, c2, c3, c4, c5, c6, c7⟩, ⟨d0, d1, d2, d3, d4⟩⟩ := hI
  revert hs
  fun_cases PE.stepL s ev <;> intro hs <;> (first | cases hs | skip)
  all_goals (try simp only [bump_some _ _ _ (by assumption : s.rcd = some _)])
  all_goals grind [SnapOK, pStatusOK_true, NotRunning, Rec.enis, Rec.fixed, mem_enis, mem_setAtt, mem_remove, Sorted.inj, markDel_uid, markDel_phase, markDel_allocs, markDel_del, markDel_ver, markDel_of_del, markDel_fixed, markDel_lastSeen, pAfterDel, pAfterCre, GPend, PodSeen.requires, J2, J3, PDel, PCre, PUpd, PRec, EDet, EAtt, EDel, GSeen, CSort, CLt, RLt, PMade, PRoll, LCandD, LCandL, LList, ObsLe, ObsLs, PUpdDl, PDelNF, Acc, pulls, Protected, List.contains_iff_mem, List.mem_map]

theorem NoPull.stepD {s t : St} {ev : Ev} (hI : Inv s) (hs : PE.stepD s ev = some t) :
    ∀ id, pulls ev = some id → ¬ Protected s id := by
  unfold PE.stepD at hs
  split at hs
  · split at hs
    · cases hs
      have hcs := hI.i3.fCSort
      grind [pulls, failedDelete, documented, undocumented, Sorted.inj, CSort]
    · cases hs
  · cases hs

theorem NoPull.step {s t : St} {ev : Ev} (hI : Inv s) (hs : PE.step s ev = some t) :
    ∀ id, pulls ev = some id → ¬ Protected s id := by
  cases ev <;> simp only [PE.step] at hs <;>
    first | exact NoPull.stepEnv hI hs | exact NoPull.stepP hI hs | exact NoPull.stepE hI hs | exact NoPull.stepG hI hs | exact NoPull.stepL hI hs | exact NoPull.stepD hI hs

set_option maxHeartbeats 4000000 in
theorem Leaked.stepEnv {s t : St} {ev : Ev} (hI : Inv s) (hs : PE.stepEnv s ev = some t) :
    t.leaked ≠ s.leaked → failedDelete ev = true := by
  obtain ⟨⟨a1, a2, a3, a4, a4b, a5, a5b, a5c, a6, a6b, a7, a7b⟩, ⟨b0, b1, b2, b3, b4, b5, b6, b7, b8, b9⟩,
    ⟨c0, c1, c2, c3, c4, c5, c6, c7⟩, ⟨d0, d1, d2, d3, d4⟩⟩ := hI
  revert hs
  fun_cases PE.stepEnv s ev <;> intro hs <;> (first | cases hs | skip)
  all_goals (try simp only [bump_some _ _ _ (by assumption : s.rcd = some _)])
  all_goals grind [SnapOK, pStatusOK_true, NotRunning, Rec.enis, Rec.fixed, mem_enis, mem_setAtt, mem_remove, Sorted.inj, markDel_uid, markDel_phase, markDel_allocs, markDel_del, markDel_ver, markDel_of_del, markDel_fixed, markDel_lastSeen, pAfterDel, pAfterCre, GPend, PodSeen.requires, J2, J3, PDel, PCre, PUpd, PRec, EDet, EAtt, EDel, GSeen, CSort, CLt, RLt, PMade, PRoll, LCandD, LCandL, LList, ObsLe, ObsLs, PUpdDl, PDelNF, Acc, failedDelete]

set_option maxHeartbeats 4000000 in
theorem Leaked.stepP {s t : St} {ev : Ev} (hI : Inv s) (hs : PE.stepP s ev = some t) :
    t.leaked ≠ s.leaked → failedDelete ev = true := by
  obtain ⟨⟨a1, a2, a3, a4, a4b, a5, a5b, a5c, a6, a6b, a7, a7b⟩, ⟨b0, b1, b2, b3, b4, b5, b6, b7, b8, b9⟩,
    ⟨c0, c1, c2, c3, c4, c5, c6, c7⟩, ⟨d0, d1, d2, d3, d4⟩⟩ := hI
  revert hs
  fun_cases PE.stepP s ev <;> intro hs <;> (first | cases hs | skip)
  all_goals (try simp only [deleteRec_some _ _ (by assumption : s.rcd = some _), bindRec, bump_some _ _ _ (by assumption : s.rcd = some _)])
  all_goals grind [SnapOK, pStatusOK_true, NotRunning, Rec.enis, Rec.fixed, mem_enis, mem_setAtt, mem_remove, Sorted.inj, markDel_uid, markDel_phase, markDel_allocs, markDel_del, markDel_ver, markDel_of_del, markDel_fixed, markDel_lastSeen, pAfterDel, pAfterCre, GPend, PodSeen.requires, J2, J3, PDel, PCre, PUpd, PRec, EDet, EAtt, EDel, GSeen, CSort, CLt, RLt, PMade, PRoll, LCandD, LCandL, LList, ObsLe, ObsLs, PUpdDl, PDelNF, Acc, failedDelete]

set_option maxHeartbeats 4000000 in
theorem Leaked.stepE {s t : St} {ev : Ev} (hI : Inv s) (hs : PE.stepE s ev = some t) :
    t.leaked ≠ s.leaked → failedDelete ev = true := by
  obtain ⟨⟨a1, a2, a3, a4, a4b, a5, a5b, a5c, a6, a6b, a7, a7b⟩, ⟨b0, b1, b2, b3, b4, b5, b6, b7, b8, b9⟩,
    ⟨c0, c1, c2, c3, c4, c5, c6, c7⟩, ⟨d0, d1, d2, d3, d4⟩⟩ := hI
  revert hs
  fun_cases PE.stepE s ev <;> intro hs <;> (first | cases hs | skip)
  all_goals (try simp only [deleteRec_some _ _ (by assumption : s.rcd = some _), bindRec, bump_some _ _ _ (by assumption : s.rcd = some _)])
  all_goals grind [SnapOK, pStatusOK_true, NotRunning, Rec.enis, Rec.fixed, mem_enis, mem_setAtt, mem_remove, Sorted.inj, markDel_uid, markDel_phase, markDel_allocs, markDel_del, markDel_ver, markDel_of_del, markDel_fixed, markDel_lastSeen, pAfterDel, pAfterCre, GPend, PodSeen.requires, J2, J3, PDel, PCre, PUpd, PRec, EDet, EAtt, EDel, GSeen, CSort, CLt, RLt, PMade, PRoll, LCandD, LCandL, LList, ObsLe, ObsLs, PUpdDl, PDelNF, Acc, failedDelete]

set_option maxHeartbeats 4000000 in
theorem Leaked.stepG {s t : St} {ev : Ev} (hI : Inv s) (hs : PE.stepG s ev = some t) :
    t.leaked ≠ s.leaked → failedDelete ev = true := by
  obtain ⟨⟨a1, a2, a3, a4, a4b, a5, a5b, a5c, a6, a6b, a7, a7b⟩, ⟨b0, b1, b2, b3, b4, b5, b6, b7, b8, b9⟩,
    ⟨c0, c1, c2, c3, c4, c5, c6, c7⟩, ⟨d0, d1, d2, d3, d4⟩⟩ := hI
  revert hs
  fun_cases PE.stepG s ev <;> intro hs <;> (first | cases hs | skip)
  all_goals (try simp only [bump_some _ _ _ (by assumption : s.rcd = some _)])
  all_goals grind [SnapOK, pStatusOK_true, NotRunning, Rec.enis, Rec.fixed, mem_enis, mem_setAtt, mem_remove, Sorted.inj, markDel_uid, markDel_phase, markDel_allocs, markDel_del, markDel_ver, markDel_of_del, markDel_fixed, markDel_lastSeen, pAfterDel, pAfterCre, GPend, PodSeen.requires, J2, J3, PDel, PCre, PUpd, PRec, EDet, EAtt, EDel, GSeen, CSort, CLt, RLt, PMade, PRoll, LCandD, LCandL, LList, ObsLe, ObsLs, PUpdDl, PDelNF, Acc, failedDelete]

set_option maxHeartbeats 4000000 in
theorem Leaked.stepL {s t : St} {ev : Ev} (hI : Inv s) (hs : PE.stepL s ev = some t) :
    t.leaked ≠ s.leaked → failedDelete ev = true := by
  obtain ⟨⟨a1, a2, a3, a4, a4b, a5, a5b, a5c, a6, a6b, a7, a7b⟩, ⟨b0, b1, b2, b3, b4, b5, b6, b7, b8, b9⟩,
    ⟨c0, c1, c2, c3, c4, c5, c6, c7⟩, ⟨d0, d1, d2, d3, d4⟩⟩ := hI
  revert hs
  fun_cases PE.stepL s ev <;> intro hs <;> (first | cases hs | skip)
  all_goals (try simp only [bump_some _ _ _ (by assumption : s.rcd = some _)])
  all_goals grind [SnapOK, pStatusOK_true, NotRunning, Rec.enis, Rec.fixed, mem_enis, mem_setAtt, mem_remove, Sorted.inj, markDel_uid, markDel_phase, markDel_allocs, markDel_del, markDel_ver, markDel_of_del, markDel_fixed, markDel_lastSeen, pAfterDel, pAfterCre, GPend, PodSeen.requires, J2, J3, PDel, PCre, PUpd, PRec, EDet, EAtt, EDel, GSeen, CSort, CLt, RLt, PMade, PRoll, LCandD, LCandL, LList, ObsLe, ObsLs, PUpdDl, PDelNF, Acc, failedDelete]

theorem Leaked.stepD {s t : St} {ev : Ev} (hI : Inv s) (hs : PE.stepD s ev = some t) :
    t.leaked ≠ s.leaked → failedDelete ev = true := by
  unfold PE.stepD at hs
  split at hs
  · split at hs
    · cases hs
      have hcs := hI.i3.fCSort
      grind [pulls, failedDelete, documented, undocumented, Sorted.inj, CSort]
    · cases hs
  · cases hs

theorem Leaked.step {s t : St} {ev : Ev} (hI : Inv s) (hs : PE.step s ev = some t) :
    t.leaked ≠ s.leaked → failedDelete ev = true := by
  cases ev <;> simp only [PE.step] at hs <;>
    first | exact Leaked.stepEnv hI hs | exact Leaked.stepP hI hs | exact Leaked.stepE hI hs | exact Leaked.stepG hI hs | exact Leaked.stepL hI hs | exact Leaked.stepD hI hs

set_option maxHeartbeats 4000000 in
theorem AllocsSame.stepEnv {s t : St} {ev : Ev} (hI : Inv s) (hs : PE.stepEnv s ev = some t) :
    ∀ r r', s.rcd = some r → t.rcd = some r' → r'.allocs = r.allocs := by
  obtain ⟨⟨a1, a2, a3, a4, a4b, a5, a5b, a5c, a6, a6b, a7, a7b⟩, ⟨b0, b1, b2, b3, b4, b5, b6, b7, b8, b9⟩,
    ⟨c0, c1, c2, c3, c4, c5, c6, c7⟩, ⟨d0, d1, d2, d3, d4⟩⟩ := hI
  revert hs
  fun_cases PE.stepEnv s ev <;> intro hs <;> (first | cases hs | skip)
  all_goals (try simp only [bump_some _ _ _ (by assumption : s.rcd = some _)])
  all_goals grind [SnapOK, pStatusOK_true, NotRunning, Rec.enis, Rec.fixed, mem_enis, mem_setAtt, mem_remove, Sorted.inj, markDel_uid, markDel_phase, markDel_allocs, markDel_del, markDel_ver, markDel_of_del, markDel_fixed, markDel_lastSeen, pAfterDel, pAfterCre, GPend, PodSeen.requires, J2, J3, PDel, PCre, PUpd, PRec, EDet, EAtt, EDel, GSeen, CSort, CLt, RLt, PMade, PRoll, LCandD, LCandL, LList, ObsLe, ObsLs, PUpdDl, PDelNF, Acc]

set_option maxHeartbeats 4000000 in
theorem AllocsSame.stepP {s t : St} {ev : Ev} (hI : Inv s) (hs : PE.stepP s ev = some t) :
    ∀ r r', s.rcd = some r → t.rcd = some r' → r'.allocs = r.allocs := by
  obtain ⟨⟨a1, a2, a3, a4, a4b, a5, a5b, a5c, a6, a6b, a7, a7b⟩, ⟨b0, b1, b2, b3, b4, b5, b6, b7, b8, b9⟩,
    ⟨c0, c1, c2, c3, c4, c5, c6, c7⟩, ⟨d0, d1, d2, d3, d4⟩⟩ := hI
  revert hs
  fun_cases PE.stepP s ev <;> intro hs <;> (first | cases hs | skip)
  all_goals (try simp only [deleteRec_some _ _ (by assumption : s.rcd = some _), bindRec, bump_some _ _ _ (by assumption : s.rcd = some _)])
  all_goals grind [SnapOK, pStatusOK_true, NotRunning, Rec.enis, Rec.fixed, mem_enis, mem_setAtt, mem_remove, Sorted.inj, markDel_uid, markDel_phase, markDel_allocs, markDel_del, markDel_ver, markDel_of_del, markDel_fixed, markDel_lastSeen, pAfterDel, pAfterCre, GPend, PodSeen.requires, J2, J3, PDel, PCre, PUpd, PRec, EDet, EAtt, EDel, GSeen, CSort, CLt, RLt, PMade, PRoll, LCandD, LCandL, LList, ObsLe, ObsLs, PUpdDl, PDelNF, Acc]

set_option maxHeartbeats 4000000 in
theorem AllocsSame.stepE {s t : St} {ev : Ev} (hI : Inv s) (hs : PE.stepE s ev = some t) :
    ∀ r r', s.rcd = some r → t.rcd = some r' → r'.allocs = r.allocs := by
  obtain ⟨⟨a1, a2, a3, a4, a4b, a5, a5b, a5c, a6, a6b, a7, a7b⟩, ⟨b0, b1, b2, b3, b4, b5, b6, b7, b8, b9⟩,
    ⟨c0, c1, c2, c3, c4, c5, c6, c7⟩, ⟨d0, d1, d2, d3, d4⟩⟩ := hI
  revert hs
  fun_cases PE.stepE s ev <;> intro hs <;> (first | cases hs | skip)
  all_goals (try simp only [deleteRec_some _ _ (by assumption : s.rcd = some _), bindRec, bump_some _ _ _ (by assumption : s.rcd = some _)])
  all_goals grind [SnapOK, pStatusOK_true, NotRunning, Rec.enis, Rec.fixed, mem_enis, mem_setAtt, mem_remove, Sorted.inj, markDel_uid, markDel_phase, markDel_allocs, markDel_del, markDel_ver, markDel_of_del, markDel_fixed, markDel_lastSeen, pAfterDel, pAfterCre, GPend, PodSeen.requires, J2, J3, PDel, PCre, PUpd, PRec, EDet, EAtt, EDel, GSeen, CSort, CLt, RLt, PMade, PRoll, LCandD, LCandL, LList, ObsLe, ObsLs, PUpdDl, PDelNF, Acc]

set_option maxHeartbeats 4000000 in
theorem AllocsSame.stepG {s t : St} {ev : Ev} (hI : Inv s) (hs : PE.stepG s ev = some t) :
    ∀ r r', s.rcd = some r → t.rcd = some r' → r'.allocs = r.allocs := by
  obtain ⟨⟨a1, a2, a3, a4, a4b, a5, a5b, a5c, a6, a6b, a7, a7b⟩, ⟨b0, b1, b2, b3, b4, b5, b6, b7, b8, b9⟩,
    ⟨c0, c1, c2, c3, c4, c5, c6, c7⟩, ⟨d0, d1, d2, d3, d4⟩⟩ := hI
  revert hs
  fun_cases PE.stepG s ev <;> intro hs <;> (first | cases hs | skip)
  all_goals (try simp only [bump_some _ _ _ (by assumption : s.rcd = some _)])
  all_goals grind [SnapOK, pStatusOK_true, NotRunning, Rec.enis, Rec.fixed, mem_enis, mem_setAtt, mem_remove, Sorted.inj, markDel_uid, markDel_phase, markDel_allocs, markDel_del, markDel_ver, markDel_of_del, markDel_fixed, markDel_lastSeen, pAfterDel, pAfterCre, GPend, PodSeen.requires, J2, J3, PDel, PCre, PUpd, PRec, EDet, EAtt, EDel, GSeen, CSort, CLt, RLt, PMade, PRoll, LCandD, LCandL, LList, ObsLe, ObsLs, PUpdDl, PDelNF, Acc]

set_option maxHeartbeats 4000000 in
theorem AllocsSame.stepL {s t : St} {ev : Ev} (hI : Inv s) (hs : PE.stepL s ev = some t) :
    ∀ r r', s.rcd = some r → t.rcd = some r' → r'.allocs = r.allocs := by
  obtain ⟨⟨a1, a2, a3, a4, a4b, a5, a5b, a5c, a6, a6b, a7, a7b⟩, ⟨b0, b1, b2, b3, b4, b5, b6, b7, b8, b9⟩,
    ⟨c0, c1, c2, c3, c4, c5, c6, c7⟩, ⟨d0, d1, d2, d3, d4⟩⟩ := hI
  revert hs
  fun_cases PE.stepL s ev <;> intro hs <;> (first | cases hs | skip)
  all_goals (try simp only [bump_some _ _ _ (by assumption : s.rcd = some _)])
  all_goals grind [SnapOK, pStatusOK_true, NotRunning, Rec.enis, Rec.fixed, mem_enis, mem_setAtt, mem_remove, Sorted.inj, markDel_uid, markDel_phase, markDel_allocs, markDel_del, markDel_ver, markDel_of_del, markDel_fixed, markDel_lastSeen, pAfterDel, pAfterCre, GPend, PodSeen.requires, J2, J3, PDel, PCre, PUpd, PRec, EDet, EAtt, EDel, GSeen, CSort, CLt, RLt, PMade, PRoll, LCandD, LCandL, LList, ObsLe, ObsLs, PUpdDl, PDelNF, Acc]

theorem AllocsSame.stepD {s t : St} {ev : Ev} (hI : Inv s) (hs : PE.stepD s ev = some t) :
    ∀ r r', s.rcd = some r → t.rcd = some r' → r'.allocs = r.allocs := by
  unfold PE.stepD at hs
  split at hs
  · split at hs
    · cases hs
      have hcs := hI.i3.fCSort
      grind [pulls, failedDelete, documented, undocumented, Sorted.inj, CSort]
    · cases hs
  · cases hs

theorem AllocsSame.step {s t : St} {ev : Ev} (hI : Inv s) (hs : PE.step s ev = some t) :
    ∀ r r', s.rcd = some r → t.rcd = some r' → r'.allocs = r.allocs := by
  cases ev <;> simp only [PE.step] at hs <;>
    first | exact AllocsSame.stepEnv hI hs | exact AllocsSame.stepP hI hs | exact AllocsSame.stepE hI hs | exact AllocsSame.stepG hI hs | exact AllocsSame.stepL hI hs | exact AllocsSame.stepD hI hs

set_option maxHeartbeats 4000000 in
theorem BindAtt.stepE {s t : St} {ev : Ev} (hI : Inv s) (hs : PE.stepE s ev = some t) :
    ∀ ver inst, ev = .eStatusBind ver inst .ok → ∀ c, s.rcd = some c → ∀ a ∈ c.allocs, attachedTo s.cloud a.eni inst = true := by
  obtain ⟨⟨a1, a2, a3, a4, a4b, a5, a5b, a5c, a6, a6b, a7, a7b⟩, ⟨b0, b1, b2, b3, b4, b5, b6, b7, b8, b9⟩,
    ⟨c0, c1, c2, c3, c4, c5, c6, c7⟩, ⟨d0, d1, d2, d3, d4⟩⟩ := hI
  revert hs
  fun_cases PE.stepE s ev <;> intro hs <;> (first | cases hs | skip)
  all_goals (try simp only [deleteRec_some _ _ (by assumption : s.rcd = some _), bindRec, bump_some _ _ _ (by assumption : s.rcd = some _)])
  all_goals grind [SnapOK, pStatusOK_true, NotRunning, Rec.enis, Rec.fixed, mem_enis, mem_setAtt, mem_remove, Sorted.inj, markDel_uid, markDel_phase, markDel_allocs, markDel_del, markDel_ver, markDel_of_del, markDel_fixed, markDel_lastSeen, pAfterDel, pAfterCre, GPend, PodSeen.requires, J2, J3, PDel, PCre, PUpd, PRec, EDet, EAtt, EDel, GSeen, CSort, CLt, RLt, PMade, PRoll, LCandD, LCandL, LList, ObsLe, ObsLs, PUpdDl, PDelNF, Acc, List.all_eq_true, List.mem_map]

set_option maxHeartbeats 4000000 in
theorem IpSame.stepEnv {s t : St} {ev : Ev} (hI : Inv s) (hs : PE.stepEnv s ev = some t) :
    ∀ en ∈ s.cloud, ∀ en' ∈ t.cloud, en'.id = en.id → en'.ip = en.ip := by
  obtain ⟨⟨a1, a2, a3, a4, a4b, a5, a5b, a5c, a6, a6b, a7, a7b⟩, ⟨b0, b1, b2, b3, b4, b5, b6, b7, b8, b9⟩,
    ⟨c0, c1, c2, c3, c4, c5, c6, c7⟩, ⟨d0, d1, d2, d3, d4⟩⟩ := hI
  revert hs
  fun_cases PE.stepEnv s ev <;> intro hs <;> (first | cases hs | skip)
  all_goals (try simp only [bump_some _ _ _ (by assumption : s.rcd = some _)])
  all_goals grind [SnapOK, pStatusOK_true, NotRunning, Rec.enis, Rec.fixed, mem_enis, mem_setAtt, mem_remove, Sorted.inj, markDel_uid, markDel_phase, markDel_allocs, markDel_del, markDel_ver, markDel_of_del, markDel_fixed, markDel_lastSeen, pAfterDel, pAfterCre, GPend, PodSeen.requires, J2, J3, PDel, PCre, PUpd, PRec, EDet, EAtt, EDel, GSeen, CSort, CLt, RLt, PMade, PRoll, LCandD, LCandL, LList, ObsLe, ObsLs, PUpdDl, PDelNF, Acc, List.mem_append]

set_option maxHeartbeats 4000000 in
theorem IpSame.stepP {s t : St} {ev : Ev} (hI : Inv s) (hs : PE.stepP s ev = some t) :
    ∀ en ∈ s.cloud, ∀ en' ∈ t.cloud, en'.id = en.id → en'.ip = en.ip := by
  obtain ⟨⟨a1, a2, a3, a4, a4b, a5, a5b, a5c, a6, a6b, a7, a7b⟩, ⟨b0, b1, b2, b3, b4, b5, b6, b7, b8, b9⟩,
    ⟨c0, c1, c2, c3, c4, c5, c6, c7⟩, ⟨d0, d1, d2, d3, d4⟩⟩ := hI
  revert hs
  fun_cases PE.stepP s ev <;> intro hs <;> (first | cases hs | skip)
  all_goals (try simp only [deleteRec_some _ _ (by assumption : s.rcd = some _), bindRec, bump_some _ _ _ (by assumption : s.rcd = some _)])
  all_goals grind [SnapOK, pStatusOK_true, NotRunning, Rec.enis, Rec.fixed, mem_enis, mem_setAtt, mem_remove, Sorted.inj, markDel_uid, markDel_phase, markDel_allocs, markDel_del, markDel_ver, markDel_of_del, markDel_fixed, markDel_lastSeen, pAfterDel, pAfterCre, GPend, PodSeen.requires, J2, J3, PDel, PCre, PUpd, PRec, EDet, EAtt, EDel, GSeen, CSort, CLt, RLt, PMade, PRoll, LCandD, LCandL, LList, ObsLe, ObsLs, PUpdDl, PDelNF, Acc, List.mem_append]

set_option maxHeartbeats 4000000 in
theorem IpSame.stepE {s t : St} {ev : Ev} (hI : Inv s) (hs : PE.stepE s ev = some t) :
    ∀ en ∈ s.cloud, ∀ en' ∈ t.cloud, en'.id = en.id → en'.ip = en.ip := by
  obtain ⟨⟨a1, a2, a3, a4, a4b, a5, a5b, a5c, a6, a6b, a7, a7b⟩, ⟨b0, b1, b2, b3, b4, b5, b6, b7, b8, b9⟩,
    ⟨c0, c1, c2, c3, c4, c5, c6, c7⟩, ⟨d0, d1, d2, d3, d4⟩⟩ := hI
  revert hs
  fun_cases PE.stepE s ev <;> intro hs <;> (first | cases hs | skip)
  all_goals (try simp only [deleteRec_some _ _ (by assumption : s.rcd = some _), bindRec, bump_some _ _ _ (by assumption : s.rcd = some _)])
  all_goals grind [SnapOK, pStatusOK_true, NotRunning, Rec.enis, Rec.fixed, mem_enis, mem_setAtt, mem_remove, Sorted.inj, markDel_uid, markDel_phase, markDel_allocs, markDel_del, markDel_ver, markDel_of_del, markDel_fixed, markDel_lastSeen, pAfterDel, pAfterCre, GPend, PodSeen.requires, J2, J3, PDel, PCre, PUpd, PRec, EDet, EAtt, EDel, GSeen, CSort, CLt, RLt, PMade, PRoll, LCandD, LCandL, LList, ObsLe, ObsLs, PUpdDl, PDelNF, Acc, List.mem_append]

set_option maxHeartbeats 4000000 in
theorem IpSame.stepG {s t : St} {ev : Ev} (hI : Inv s) (hs : PE.stepG s ev = some t) :
    ∀ en ∈ s.cloud, ∀ en' ∈ t.cloud, en'.id = en.id → en'.ip = en.ip := by
  obtain ⟨⟨a1, a2, a3, a4, a4b, a5, a5b, a5c, a6, a6b, a7, a7b⟩, ⟨b0, b1, b2, b3, b4, b5, b6, b7, b8, b9⟩,
    ⟨c0, c1, c2, c3, c4, c5, c6, c7⟩, ⟨d0, d1, d2, d3, d4⟩⟩ := hI
  revert hs
  fun_cases PE.stepG s ev <;> intro hs <;> (first | cases hs | skip)
  all_goals (try simp only [bump_some _ _ _ (by assumption : s.rcd = some _)])
  all_goals grind [SnapOK, pStatusOK_true, NotRunning, Rec.enis, Rec.fixed, mem_enis, mem_setAtt, mem_remove, Sorted.inj, markDel_uid, markDel_phase, markDel_allocs, markDel_del, markDel_ver, markDel_of_del, markDel_fixed, markDel_lastSeen, pAfterDel, pAfterCre, GPend, PodSeen.requires, J2, J3, PDel, PCre, PUpd, PRec, EDet, EAtt, EDel, GSeen, CSort, CLt, RLt, PMade, PRoll, LCandD, LCandL, LList, ObsLe, ObsLs, PUpdDl, PDelNF, Acc, List.mem_append]

set_option maxHeartbeats 4000000 in
theorem IpSame.stepL {s t : St} {ev : Ev} (hI : Inv s) (hs : PE.stepL s ev = some t) :
    ∀ en ∈ s.cloud, ∀ en' ∈ t.cloud, en'.id = en.id → en'.ip = en.ip := by
  obtain ⟨⟨a1, a2, a3, a4, a4b, a5, a5b, a5c, a6, a6b, a7, a7b⟩, ⟨b0, b1, b2, b3, b4, b5, b6, b7, b8, b9⟩,
    ⟨c0, c1, c2, c3, c4, c5, c6, c7⟩, ⟨d0, d1, d2, d3, d4⟩⟩ := hI
  revert hs
  fun_cases PE.stepL s ev <;> intro hs <;> (first | cases hs | skip)
  all_goals (try simp only [bump_some _ _ _ (by assumption : s.rcd = some _)])
  all_goals grind [SnapOK, pStatusOK_true, NotRunning, Rec.enis, Rec.fixed, mem_enis, mem_setAtt, mem_remove, Sorted.inj, markDel_uid, markDel_phase, markDel_allocs, markDel_del, markDel_ver, markDel_of_del, markDel_fixed, markDel_lastSeen, pAfterDel, pAfterCre, GPend, PodSeen.requires, J2, J3, PDel, PCre, PUpd, PRec, EDet, EAtt, EDel, GSeen, CSort, CLt, RLt, PMade, PRoll, LCandD, LCandL, LList, ObsLe, ObsLs, PUpdDl, PDelNF, Acc, List.mem_append]

theorem IpSame.stepD {s t : St} {ev : Ev} (hI : Inv s) (hs : PE.stepD s ev = some t) :
    ∀ en ∈ s.cloud, ∀ en' ∈ t.cloud, en'.id = en.id → en'.ip = en.ip := by
  unfold PE.stepD at hs
  split at hs
  · split at hs
    · cases hs
      have hcs := hI.i3.fCSort
      grind [pulls, failedDelete, documented, undocumented, Sorted.inj, CSort]
    · cases hs
  · cases hs

theorem IpSame.step {s t : St} {ev : Ev} (hI : Inv s) (hs : PE.step s ev = some t) :
    ∀ en ∈ s.cloud, ∀ en' ∈ t.cloud, en'.id = en.id → en'.ip = en.ip := by
  cases ev <;> simp only [PE.step] at hs <;>
    first | exact IpSame.stepEnv hI hs | exact IpSame.stepP hI hs | exact IpSame.stepE hI hs | exact IpSame.stepG hI hs | exact IpSame.stepL hI hs | exact IpSame.stepD hI hs

set_option maxHeartbeats 4000000 in
theorem Ttl.stepG {s t : St} {ev : Ev} (hI : Inv s) (hs : PE.stepG s ev = some t) :
    ∀ ver, ev = .gReap ver .ok → ∀ c, s.rcd = some c → ∀ a ∈ c.allocs, a.fixed = true → ∃ d, a.strat = .ttl d ∧ ∀ o, s.obs = some o → o + d ≤ s.now := by
  obtain ⟨⟨a1, a2, a3, a4, a4b, a5, a5b, a5c, a6, a6b, a7, a7b⟩, ⟨b0, b1, b2, b3, b4, b5, b6, b7, b8, b9⟩,
    ⟨c0, c1, c2, c3, c4, c5, c6, c7⟩, ⟨d0, d1, d2, d3, d4⟩⟩ := hI
  revert hs
  fun_cases PE.stepG s ev <;> intro hs <;> (first | cases hs | skip)
  all_goals (try simp only [bump_some _ _ _ (by assumption : s.rcd = some _)])
  all_goals grind [SnapOK, pStatusOK_true, NotRunning, Rec.enis, Rec.fixed, mem_enis, mem_setAtt, mem_remove, Sorted.inj, markDel_uid, markDel_phase, markDel_allocs, markDel_del, markDel_ver, markDel_of_del, markDel_fixed, markDel_lastSeen, pAfterDel, pAfterCre, GPend, PodSeen.requires, J2, J3, PDel, PCre, PUpd, PRec, EDet, EAtt, EDel, GSeen, CSort, CLt, RLt, PMade, PRoll, LCandD, LCandL, LList, ObsLe, ObsLs, PUpdDl, PDelNF, Acc, keep_false, Alloc.fixed, List.any_eq_true]

set_option maxHeartbeats 4000000 in
theorem OnlyG.stepEnv {s t : St} {ev : Ev} (hI : Inv s) (hs : PE.stepEnv s ev = some t) :
    ∀ c c', s.rcd = some c → c.fixed = true → t.rcd = some c' → ((c'.phase = .deleting ∧ c.phase ≠ .deleting) → ∃ ver, ev = .gReap ver .ok) ∧ ((c'.del = true ∧ c.del = false) → c.phase = .deleting) := by
  obtain ⟨⟨a1, a2, a3, a4, a4b, a5, a5b, a5c, a6, a6b, a7, a7b⟩, ⟨b0, b1, b2, b3, b4, b5, b6, b7, b8, b9⟩,
    ⟨c0, c1, c2, c3, c4, c5, c6, c7⟩, ⟨d0, d1, d2, d3, d4⟩⟩ := hI
  revert hs
  fun_cases PE.stepEnv s ev <;> intro hs <;> (first | cases hs | skip)
  all_goals (try simp only [bump_some _ _ _ (by assumption : s.rcd = some _)])
  all_goals grind [SnapOK, pStatusOK_true, NotRunning, Rec.enis, Rec.fixed, mem_enis, mem_setAtt, mem_remove, Sorted.inj, markDel_uid, markDel_phase, markDel_allocs, markDel_del, markDel_ver, markDel_of_del, markDel_fixed, markDel_lastSeen, pAfterDel, pAfterCre, GPend, PodSeen.requires, J2, J3, PDel, PCre, PUpd, PRec, EDet, EAtt, EDel, GSeen, CSort, CLt, RLt, PMade, PRoll, LCandD, LCandL, LList, ObsLe, ObsLs, PUpdDl, PDelNF, Acc, cases Phase]

set_option maxHeartbeats 4000000 in
theorem OnlyG.stepP {s t : St} {ev : Ev} (hI : Inv s) (hs : PE.stepP s ev = some t) :
    ∀ c c', s.rcd = some c → c.fixed = true → t.rcd = some c' → ((c'.phase = .deleting ∧ c.phase ≠ .deleting) → ∃ ver, ev = .gReap ver .ok) ∧ ((c'.del = true ∧ c.del = false) → c.phase = .deleting) := by
  obtain ⟨⟨a1, a2, a3, a4, a4b, a5, a5b, a5c, a6, a6b, a7, a7b⟩, ⟨b0, b1, b2, b3, b4, b5, b6, b7, b8, b9⟩,
    ⟨c0, c1, c2, c3, c4, c5, c6, c7⟩, ⟨d0, d1, d2, d3, d4⟩⟩ := hI
  revert hs
  fun_cases PE.stepP s ev <;> intro hs <;> (first | cases hs | skip)
  all_goals (try simp only [deleteRec_some _ _ (by assumption : s.rcd = some _), bindRec, bump_some _ _ _ (by assumption : s.rcd = some _)])
  all_goals grind [SnapOK, pStatusOK_true, NotRunning, Rec.enis, Rec.fixed, mem_enis, mem_setAtt, mem_remove, Sorted.inj, markDel_uid, markDel_phase, markDel_allocs, markDel_del, markDel_ver, markDel_of_del, markDel_fixed, markDel_lastSeen, pAfterDel, pAfterCre, GPend, PodSeen.requires, J2, J3, PDel, PCre, PUpd, PRec, EDet, EAtt, EDel, GSeen, CSort, CLt, RLt, PMade, PRoll, LCandD, LCandL, LList, ObsLe, ObsLs, PUpdDl, PDelNF, Acc, cases Phase]

set_option maxHeartbeats 4000000 in
theorem OnlyG.stepE {s t : St} {ev : Ev} (hI : Inv s) (hs : PE.stepE s ev = some t) :
    ∀ c c', s.rcd = some c → c.fixed = true → t.rcd = some c' → ((c'.phase = .deleting ∧ c.phase ≠ .deleting) → ∃ ver, ev = .gReap ver .ok) ∧ ((c'.del = true ∧ c.del = false) → c.phase = .deleting) := by
  obtain ⟨⟨a1, a2, a3, a4, a4b, a5, a5b, a5c, a6, a6b, a7, a7b⟩, ⟨b0, b1, b2, b3, b4, b5, b6, b7, b8, b9⟩,
    ⟨c0, c1, c2, c3, c4, c5, c6, c7⟩, ⟨d0, d1, d2, d3, d4⟩⟩ := hI
  revert hs
  fun_cases PE.stepE s ev <;> intro hs <;> (first | cases hs | skip)
  all_goals (try simp only [deleteRec_some _ _ (by assumption : s.rcd = some _), bindRec, bump_some _ _ _ (by assumption : s.rcd = some _)])
  all_goals grind [SnapOK, pStatusOK_true, NotRunning, Rec.enis, Rec.fixed, mem_enis, mem_setAtt, mem_remove, Sorted.inj, markDel_uid, markDel_phase, markDel_allocs, markDel_del, markDel_ver, markDel_of_del, markDel_fixed, markDel_lastSeen, pAfterDel, pAfterCre, GPend, PodSeen.requires, J2, J3, PDel, PCre, PUpd, PRec, EDet, EAtt, EDel, GSeen, CSort, CLt, RLt, PMade, PRoll, LCandD, LCandL, LList, ObsLe, ObsLs, PUpdDl, PDelNF, Acc, cases Phase]

set_option maxHeartbeats 4000000 in
theorem OnlyG.stepG {s t : St} {ev : Ev} (hI : Inv s) (hs : PE.stepG s ev = some t) :
    ∀ c c', s.rcd = some c → c.fixed = true → t.rcd = some c' → ((c'.phase = .deleting ∧ c.phase ≠ .deleting) → ∃ ver, ev = .gReap ver .ok) ∧ ((c'.del = true ∧ c.del = false) → c.phase = .deleting) := by
  obtain ⟨⟨a1, a2, a3, a4, a4b, a5, a5b, a5c, a6, a6b, a7, a7b⟩, ⟨b0, b1, b2, b3, b4, b5, b6, b7, b8, b9⟩,
    ⟨c0, c1, c2, c3, c4, c5, c6, c7⟩, ⟨d0, d1, d2, d3, d4⟩⟩ := hI
  revert hs
  fun_cases PE.stepG s ev <;> intro hs <;> (first | cases hs | skip)
  all_goals (try simp only [bump_some _ _ _ (by assumption : s.rcd = some _)])
  all_goals grind [SnapOK, pStatusOK_true, NotRunning, Rec.enis, Rec.fixed, mem_enis, mem_setAtt, mem_remove, Sorted.inj, markDel_uid, markDel_phase, markDel_allocs, markDel_del, markDel_ver, markDel_of_del, markDel_fixed, markDel_lastSeen, pAfterDel, pAfterCre, GPend, PodSeen.requires, J2, J3, PDel, PCre, PUpd, PRec, EDet, EAtt, EDel, GSeen, CSort, CLt, RLt, PMade, PRoll, LCandD, LCandL, LList, ObsLe, ObsLs, PUpdDl, PDelNF, Acc, cases Phase]

set_option maxHeartbeats 4000000 in
theorem OnlyG.stepL {s t : St} {ev : Ev} (hI : Inv s) (hs : PE.stepL s ev = some t) :
    ∀ c c', s.rcd = some c → c.fixed = true → t.rcd = some c' → ((c'.phase = .deleting ∧ c.phase ≠ .deleting) → ∃ ver, ev = .gReap ver .ok) ∧ ((c'.del = true ∧ c.del = false) → c.phase = .deleting) := by
  obtain ⟨⟨a1, a2, a3, a4, a4b, a5, a5b, a5c, a6, a6b, a7, a7b⟩, ⟨b0, b1, b2, b3, b4, b5, b6, b7, b8, b9⟩,
    ⟨c0, c1, c2, c3, c4, c5, c6, c7⟩, ⟨d0, d1, d2, d3, d4⟩⟩ := hI
  revert hs
  fun_cases PE.stepL s ev <;> intro hs <;> (first | cases hs | skip)
  all_goals (try simp only [bump_some _ _ _ (by assumption : s.rcd = some _)])
  all_goals grind [SnapOK, pStatusOK_true, NotRunning, Rec.enis, Rec.fixed, mem_enis, mem_setAtt, mem_remove, Sorted.inj, markDel_uid, markDel_phase, markDel_allocs, markDel_del, markDel_ver, markDel_of_del, markDel_fixed, markDel_lastSeen, pAfterDel, pAfterCre, GPend, PodSeen.requires, J2, J3, PDel, PCre, PUpd, PRec, EDet, EAtt, EDel, GSeen, CSort, CLt, RLt, PMade, PRoll, LCandD, LCandL, LList, ObsLe, ObsLs, PUpdDl, PDelNF, Acc, cases Phase]

theorem OnlyG.stepD {s t : St} {ev : Ev} (hI : Inv s) (hs : PE.stepD s ev = some t) :
    ∀ c c', s.rcd = some c → c.fixed = true → t.rcd = some c' → ((c'.phase = .deleting ∧ c.phase ≠ .deleting) → ∃ ver, ev = .gReap ver .ok) ∧ ((c'.del = true ∧ c.del = false) → c.phase = .deleting) := by
  unfold PE.stepD at hs
  split at hs
  · split at hs
    · cases hs
      have hcs := hI.i3.fCSort
      grind [pulls, failedDelete, documented, undocumented, Sorted.inj, CSort]
    · cases hs
  · cases hs

theorem OnlyG.step {s t : St} {ev : Ev} (hI : Inv s) (hs : PE.step s ev = some t) :
    ∀ c c', s.rcd = some c → c.fixed = true → t.rcd = some c' → ((c'.phase = .deleting ∧ c.phase ≠ .deleting) → ∃ ver, ev = .gReap ver .ok) ∧ ((c'.del = true ∧ c.del = false) → c.phase = .deleting) := by
  cases ev <;> simp only [PE.step] at hs <;>
    first | exact OnlyG.stepEnv hI hs | exact OnlyG.stepP hI hs | exact OnlyG.stepE hI hs | exact OnlyG.stepG hI hs | exact OnlyG.stepL hI hs | exact OnlyG.stepD hI hs

set_option maxHeartbeats 4000000 in
theorem LeakReap.stepL {s t : St} {ev : Ev} (hI : Inv s) (hs : PE.stepL s ev = some t) :
    ∀ id ok, (ev = .lDelete id ok ∨ ev = .lDetach id ok) → (∀ en ∈ s.cloud, en.id = id → en.ours = true ∧ en.ctime + grace ≤ s.now) ∧ (∀ c, s.rcd = some c → id ∉ c.enis) := by
  obtain ⟨⟨a1, a2, a3, a4, a4b, a5, a5b, a5c, a6, a6b, a7, a7b⟩, ⟨b0, b1, b2, b3, b4, b5, b6, b7, b8, b9⟩,
    ⟨c0, c1, c2, c3, c4, c5, c6, c7⟩, ⟨d0, d1, d2, d3, d4⟩⟩ := hI
  revert hs
  fun_cases PE.stepL s ev <;> intro hs <;> (first | cases hs | skip)
  all_goals (try simp only [bump_some _ _ _ (by assumption : s.rcd = some _)])
  all_goals grind [SnapOK, pStatusOK_true, NotRunning, Rec.enis, Rec.fixed, mem_enis, mem_setAtt, mem_remove, Sorted.inj, markDel_uid, markDel_phase, markDel_allocs, markDel_del, markDel_ver, markDel_of_del, markDel_fixed, markDel_lastSeen, pAfterDel, pAfterCre, GPend, PodSeen.requires, J2, J3, PDel, PCre, PUpd, PRec, EDet, EAtt, EDel, GSeen, CSort, CLt, RLt, PMade, PRoll, LCandD, LCandL, LList, ObsLe, ObsLs, PUpdDl, PDelNF, Acc, List.contains_iff_mem, List.mem_map]

end Terway.PE

